import VhostModel.Lemmas.HandlerVring
import VhostModel.Lemmas.Vring
/-!
# `Model.Vring.step` is the interpretation of the handler's rows (C14)

One theorem per message of `Model.Vring.Msg` that `handler.rs` serves with a method of its own: for every daemon state
and all arguments, `step d msg = runRow "<method>" d <arguments> <descriptor>` — state *and* result.  So the model refuses
with the row's error exactly when one of the row's guards fires (in the row's order, `first_refusing_event`), and otherwise
applies exactly the row's calls on the vring object, with the values the row names.
-/
namespace Lemmas.HandlerVring
open Base Model.Vring Model.HandlerTable

set_option linter.unusedSimpArgs false

/-! ## the rows and expressions used, spelled out (each by evaluation of the table) -/

theorem row_set_vring_num : row "set_vring_num" = [
    .indexBound "InvalidParam", .valueCheck "num == 0 || num as usize > self.max_queue_size" "InvalidParam",
    .vringCall "set_queue_size" ["num as u16"], .ok] := rfl

theorem row_set_vring_addr : row "set_vring_addr" = [
    .indexBound "InvalidParam",
    .ifCond "!self.mappings.is_empty()" [
      .addrTranslate "descriptor" "ReqHandlerError" "desc_table", .addrTranslate "available" "ReqHandlerError" "avail_ring",
      .addrTranslate "used" "ReqHandlerError" "used_ring",
      .vringTry "set_queue_info" ["desc_table", "avail_ring", "used_ring"] "InvalidParam" "",
      .vringTry "queue_used_idx" [] "BackendInternalError" "idx",
      .vringCall "set_queue_next_used" ["idx"], .ok]
      [.err "InvalidParam"]] := rfl

theorem row_set_vring_base : row "set_vring_base" =
    [.indexBound "InvalidParam", .vringCall "set_queue_next_avail" ["base as u16"], .ok] := rfl

theorem row_get_vring_base : row "get_vring_base" = [
    .indexBound "InvalidParam", .vringCall "set_queue_ready" ["false"], updateReg "index as u8",
    .vringGet "queue_next_avail" "next_avail",
    .vringCall "set_kick" ["None"], .vringCall "set_call" ["None"],
    .okValue "VhostUserVringState::new(index, u32::from(next_avail))"] := rfl

theorem row_set_vring_kick : row "set_vring_kick" = [
    .indexBound "InvalidParam",
    .helperCall "unregister_vring_kick" ["vring", "index"] false unregisterKickBody,
    .vringCall "set_kick" ["file"],
    .ifCond needsInit [initializeVring] [updateReg "index"],
    .ok] := rfl

theorem row_set_vring_call : row "set_vring_call" = [
    .indexBound "InvalidParam", .vringCall "set_call" ["file"], .ifCond needsInit [initializeVring] [], .ok] := rfl

theorem row_set_vring_err : row "set_vring_err" = [.indexBound "InvalidParam", .vringCall "set_err" ["file"], .ok] := rfl

theorem row_set_vring_enable : row "set_vring_enable" = [
    .helperCall "check_feature" ["VhostUserVirtioFeatures::PROTOCOL_FEATURES"] true [.featureAcked 30 "InactiveFeature"],
    .indexBound "InvalidParam", .vringCall "set_enabled" ["enable"], updateReg "index as u8", .ok] := rfl

theorem row_set_protocol_features : row "set_protocol_features" =
    [.setField "acked_protocol_features" "features", .ok] := rfl

theorem row_set_backend_req_fd : row "set_backend_req_fd" = [
    .ifCond "self.acked_protocol_features & VhostUserProtocolFeatures::REPLY_ACK.bits() != 0"
      [.channelCall "set_reply_ack_flag" ["true"]] [],
    .ifCond "self.acked_protocol_features & VhostUserProtocolFeatures::SHARED_OBJECT.bits() != 0"
      [.channelCall "set_shared_object_flag" ["true"]] [],
    .ifCond "self.acked_protocol_features & VhostUserProtocolFeatures::SHMEM.bits() != 0"
      [.channelCall "set_shmem_flag" ["true"]] [],
    .backendCall "set_backend_req_fd" ["backend"], .done] := rfl

theorem cond_num : cond "num == 0 || num as usize > self.max_queue_size" =
    (fun x => ((x.num == 0) || (decide (x.num > x.max_queue_size)))) := rfl
theorem cond_mappings : cond "!self.mappings.is_empty()" = (fun x => !x.mappings_empty) := rfl
theorem cond_needsInit : cond needsInit = (fun x => ((!x.ring_ready) && x.ring_kick_some)) := rfl
theorem cond_true : cond "true" = (fun _ => true) := rfl
theorem cond_false : cond "false" = (fun _ => false) := rfl
theorem cond_enable : cond "enable" = (fun x => x.enable) := rfl
theorem cond_replyAck : cond "self.acked_protocol_features & VhostUserProtocolFeatures::REPLY_ACK.bits() != 0" =
    (fun x => ((x.acked_protocol_features &&& 0x8) != 0)) := rfl
theorem cond_sharedObject : cond "self.acked_protocol_features & VhostUserProtocolFeatures::SHARED_OBJECT.bits() != 0" =
    (fun x => ((x.acked_protocol_features &&& 0x40000) != 0)) := rfl
theorem cond_shmem : cond "self.acked_protocol_features & VhostUserProtocolFeatures::SHMEM.bits() != 0" =
    (fun x => ((x.acked_protocol_features &&& 0x200000) != 0)) := rfl
theorem val_num16 : val "num as u16" = (fun x => x.num % 65536) := rfl
theorem val_base16 : val "base as u16" = (fun x => x.base % 65536) := rfl
theorem val_descriptor : val "descriptor" = (fun x => x.descriptor) := rfl
theorem val_available : val "available" = (fun x => x.available) := rfl
theorem val_used : val "used" = (fun x => x.used) := rfl
theorem val_desc_table : val "desc_table" = (fun x => x.desc_table) := rfl
theorem val_avail_ring : val "avail_ring" = (fun x => x.avail_ring) := rfl
theorem val_used_ring : val "used_ring" = (fun x => x.used_ring) := rfl
theorem val_idx : val "idx" = (fun x => x.idx) := rfl
theorem val_features : val "features" = (fun x => x.features) := rfl

/-! ## small facts about `setRing` -/

theorem setRing_setRing (d : Daemon) (i : Nat) (f g : Vring → Vring) :
    (d.setRing i f).setRing i g = d.setRing i (g ∘ f) := by
  simp [Daemon.setRing, List.modify_modify_eq]

theorem setRing_ring (d : Daemon) (i : Nat) (f : Vring → Vring) :
    (d.setRing i f).vrings[i]? = (d.vrings[i]?).map f := by
  simp [Daemon.setRing]

theorem setRing_congr (d : Daemon) (i : Nat) (f g : Vring → Vring) (v : Vring) (hv : d.vrings[i]? = some v) (h : f v = g v) :
    d.setRing i f = d.setRing i g := by
  have : d.vrings.modify i f = d.vrings.modify i g := by
    apply List.ext_getElem?
    intro j
    by_cases e : i = j
    · subst e; simp [hv, h]
    · simp [List.getElem?_modify_ne, e]
  simp [Daemon.setRing, this]

/-! ## the messages -/

theorem set_vring_num_is_row (d : Daemon) (index num : BitVec 32) :
    step d (.setVringNum index num) = runRow "set_vring_num" d { index := index.toNat, num := num.toNat } none := by
  cases h : d.vrings[index.toNat]? with
  | none => simp [runRow, row_set_vring_num, startV, evsV, evV, actV, VS.ring, step, h, fail, resultV, errOf]
  | some v =>
    by_cases hc : (num.toNat == 0 || decide (num.toNat > d.maxQueueSize)) = true
    · simp [runRow, row_set_vring_num, startV, evsV, evV, actV, VS.ring, step, h, fail, resultV, errOf, cond_num, sync, hc]
    · simp [runRow, row_set_vring_num, startV, evsV, evV, actV, VS.ring, step, h, fail, resultV, errOf, cond_num, sync, hc,
        vringCallV, modRing, val_num16]

theorem set_vring_addr_is_row (d : Daemon) (index : BitVec 32) (desc used avail : BitVec 64) :
    step d (.setVringAddr index desc used avail) =
      runRow "set_vring_addr" d
        { index := index.toNat, descriptor := desc.toNat, used := used.toNat, available := avail.toNat } none := by
  cases h : d.vrings[index.toNat]? with
  | none => simp [runRow, row_set_vring_addr, startV, evsV, evV, actV, VS.ring, step, h, fail, resultV, errOf]
  | some v =>
    cases hm : d.mem.mappings.isEmpty with
    | true =>
      simp [runRow, row_set_vring_addr, startV, evsV, evV, actV, VS.ring, step, h, fail, resultV, errOf, cond_mappings, sync, hm]
    | false =>
      cases h1 : Model.MemTable.translate d.mem.mappings desc.toNat with
      | none =>
        simp [runRow, row_set_vring_addr, startV, evsV, evV, actV, VS.ring, step, h, fail, resultV, errOf, cond_mappings, sync, hm,
          val_descriptor, h1]
      | some dt =>
        cases h2 : Model.MemTable.translate d.mem.mappings avail.toNat with
        | none =>
          simp [runRow, row_set_vring_addr, startV, evsV, evV, actV, VS.ring, step, h, fail, resultV, errOf, cond_mappings, sync, hm,
            val_descriptor, val_available, h1, h2, setLocal]
        | some ar =>
          cases h3 : Model.MemTable.translate d.mem.mappings used.toNat with
          | none =>
            simp [runRow, row_set_vring_addr, startV, evsV, evV, actV, VS.ring, step, h, fail, resultV, errOf, cond_mappings, sync, hm,
              val_descriptor, val_available, val_used, h1, h2, h3, setLocal]
          | some ur =>
            cases h4 : v.queue.setQueueInfo dt ar ur with
            | mk q1 okk =>
              cases okk with
              | false =>
                simp [runRow, row_set_vring_addr, startV, evsV, evV, actV, VS.ring, step, h, fail, resultV, errOf, cond_mappings, sync, hm,
                  val_descriptor, val_available, val_used, val_desc_table, val_avail_ring, val_used_ring, h1, h2, h3, h4, setLocal, modRing]
              | true =>
                cases h5 : q1.usedIdx d.guestMem with
                | none =>
                  simp [runRow, row_set_vring_addr, startV, evsV, evV, actV, VS.ring, step, h, fail, resultV, errOf, cond_mappings, sync, hm,
                    val_descriptor, val_available, val_used, val_desc_table, val_avail_ring, val_used_ring, h1, h2, h3, h4, setLocal, modRing,
                    setRing_ring, Daemon.guestMem, Daemon.setRing]
                  simp [Daemon.guestMem] at h5
                  simp [h5]
                | some idx =>
                  simp [runRow, row_set_vring_addr, startV, evsV, evV, actV, VS.ring, step, h, fail, resultV, errOf, cond_mappings, sync, hm,
                    val_descriptor, val_available, val_used, val_desc_table, val_avail_ring, val_used_ring, val_idx, h1, h2, h3, h4, setLocal, modRing,
                    setRing_ring, Daemon.guestMem, vringCallV]
                  simp [Daemon.guestMem] at h5
                  simp [h5, setLocal, Daemon.setRing, List.modify_modify_eq, val_idx, sync]
                  rfl

theorem set_vring_base_is_row (d : Daemon) (index base : BitVec 32) :
    step d (.setVringBase index base) = runRow "set_vring_base" d { index := index.toNat, base := base.toNat } none := by
  cases h : d.vrings[index.toNat]? with
  | none => simp [runRow, row_set_vring_base, startV, evsV, evV, actV, VS.ring, step, h, fail, resultV, errOf]
  | some v =>
    simp [runRow, row_set_vring_base, startV, evsV, evV, actV, VS.ring, step, h, fail, resultV, errOf, sync,
      vringCallV, modRing, val_base16]

theorem set_vring_err_is_row (d : Daemon) (payload : BitVec 64) (fd : Option Nat) :
    step d (.setVringErr payload fd) = runRow "set_vring_err" d { index := fdIndex payload } fd := by
  cases h : d.vrings[fdIndex payload]? with
  | none => simp [runRow, row_set_vring_err, startV, evsV, evV, actV, VS.ring, step, h, fail, resultV, errOf]
  | some v =>
    simp [runRow, row_set_vring_err, startV, evsV, evV, actV, VS.ring, step, h, fail, resultV, errOf, sync,
      vringCallV, modRing, fdArg]

theorem get_vring_base_is_row (d : Daemon) (index : BitVec 32) :
    step d (.getVringBase index) = runRow "get_vring_base" d { index := index.toNat } none := by
  cases h : d.vrings[index.toNat]? with
  | none => simp [runRow, row_get_vring_base, startV, evsV, evV, actV, VS.ring, step, h, fail, resultV, errOf]
  | some v =>
    simp [runRow, row_get_vring_base, startV, evsV, evV, actV, VS.ring, step, h, fail, resultV, errOf, sync,
      vringCallV, modRing, fdArg, updateReg, skipped, cond_false, setRing_ring, setLocal, setRing_setRing]
    rfl

theorem set_vring_kick_is_row (d : Daemon) (payload : BitVec 64) (fd : Option Nat) :
    step d (.setVringKick payload fd) = runRow "set_vring_kick" d { index := fdIndex payload } fd := by
  cases h : d.vrings[fdIndex payload]? with
  | none => simp [runRow, row_set_vring_kick, startV, evsV, evV, actV, VS.ring, step, h, fail, resultV, errOf]
  | some v =>
    by_cases hc : (!v.queue.ready && fd.isSome) = true
    · simp [runRow, row_set_vring_kick, startV, evsV, evV, actV, VS.ring, step, h, fail, resultV, errOf, sync,
        vringCallV, modRing, fdArg, updateReg, initializeVring, initializeVringBody, skipped, cond_needsInit, cond_true,
        setRing_ring, setRing_setRing, afterCall, hc]
      apply setRing_congr _ _ _ _ v h
      simp [initIfNeeded, hc]
    · simp [runRow, row_set_vring_kick, startV, evsV, evV, actV, VS.ring, step, h, fail, resultV, errOf, sync,
        vringCallV, modRing, fdArg, updateReg, initializeVring, initializeVringBody, skipped, cond_needsInit, cond_true,
        setRing_ring, setRing_setRing, afterCall, hc]
      apply setRing_congr _ _ _ _ v h
      simp [initIfNeeded, hc]

theorem set_vring_call_is_row (d : Daemon) (payload : BitVec 64) (fd : Option Nat) :
    step d (.setVringCall payload fd) = runRow "set_vring_call" d { index := fdIndex payload } fd := by
  cases h : d.vrings[fdIndex payload]? with
  | none => simp [runRow, row_set_vring_call, startV, evsV, evV, actV, VS.ring, step, h, fail, resultV, errOf]
  | some v =>
    by_cases hc : (!v.queue.ready && v.kick.isSome) = true
    · simp [runRow, row_set_vring_call, startV, evsV, evV, actV, VS.ring, step, h, fail, resultV, errOf, sync,
        vringCallV, modRing, fdArg, updateReg, initializeVring, initializeVringBody, skipped, cond_needsInit, cond_true,
        setRing_ring, setRing_setRing, afterCall, hc]
      apply setRing_congr _ _ _ _ v h
      simp [initIfNeeded, hc]
    · simp [runRow, row_set_vring_call, startV, evsV, evV, actV, VS.ring, step, h, fail, resultV, errOf, sync,
        vringCallV, modRing, fdArg, updateReg, initializeVring, initializeVringBody, skipped, cond_needsInit, cond_true,
        setRing_ring, setRing_setRing, afterCall, hc]
      apply setRing_congr _ _ _ _ v h
      simp [initIfNeeded, hc]

theorem protocolFeaturesBit_eq : protocolFeaturesBit = BitVec.ofNat 64 (2 ^ 30) := by decide

/-- `a & (1 << k) != 0` is bit `k` of `a` -/
theorem and_two_pow_bne (a : BitVec 64) (k : Nat) (hk : k < 64) : ((a &&& BitVec.ofNat 64 (2 ^ k)) != 0) = a.getLsbD k := by
  have hbit : ∀ i, (BitVec.ofNat 64 (2^k)).getLsbD i = (decide (i < 64) && decide (k = i)) := by
    intro i; rw [BitVec.getLsbD_ofNat, Nat.testBit_two_pow]
  cases hb : a.getLsbD k with
  | true =>
    rw [bne_iff_ne]
    intro h0
    have : (a &&& BitVec.ofNat 64 (2^k)).getLsbD k = (0#64).getLsbD k := by rw [h0]; rfl
    rw [BitVec.getLsbD_and, hb, hbit] at this
    simp [hk] at this
  | false =>
    have : a &&& BitVec.ofNat 64 (2^k) = 0 := by
      apply BitVec.eq_of_getLsbD_eq
      intro i hi
      rw [BitVec.getLsbD_and, hbit]
      by_cases e : k = i
      · subst e; simp [hb]
      · simp [e]
    rw [this]; rfl

theorem protocol_bit_clear (a : BitVec 64) : (a &&& protocolFeaturesBit == 0) = !bitOf a 30 := by
  have h := and_two_pow_bne a 30 (by decide)
  rw [bitOf, protocolFeaturesBit_eq, ← h]
  cases hc : (a &&& BitVec.ofNat 64 (2 ^ 30) == 0) <;> simp_all [bne]

theorem set_vring_enable_is_row (d : Daemon) (index : BitVec 32) (enable : Bool) :
    step d (.setVringEnable index enable) =
      runRow "set_vring_enable" d { index := index.toNat, enable := enable } none := by
  have hp := protocol_bit_clear d.ackedFeatures
  have hstep : step d (.setVringEnable index enable) =
    (if d.ackedFeatures &&& protocolFeaturesBit == 0 then (d, .error .inactiveFeature) else
    match d.vrings[index.toNat]? with
    | none => (d, .error .invalidParam)
    | some _ => (d.setRing index.toNat fun v => { v with enabled := enable }, .ok .unit)) := rfl
  rw [hstep, hp]
  cases hf : bitOf d.ackedFeatures 30 with
  | false =>
    simp [runRow, row_set_vring_enable, startV, evsV, evV, actV, hf, skipped, fail, afterCall, resultV, errOf]
  | true =>
    cases h : d.vrings[index.toNat]? with
    | none =>
      simp [runRow, row_set_vring_enable, startV, evsV, evV, actV, hf, skipped, VS.ring, h, fail, afterCall, resultV, errOf]
    | some v =>
      simp [runRow, row_set_vring_enable, startV, evsV, evV, actV, hf, skipped, VS.ring, h, fail, afterCall, resultV, errOf,
        vringCallV, modRing, updateReg, cond_enable, sync]

theorem set_protocol_features_is_row (d : Daemon) (f : BitVec 64) :
    step d (.setProtocolFeatures f) = runRow "set_protocol_features" d { features := f.toNat } none := by
  simp [runRow, row_set_protocol_features, startV, evsV, evV, actV, step, resultV, sync, val_features]

theorem and_mask_ne_zero (a : BitVec 64) (m : Nat) (hm : m < 2 ^ 64) :
    ((a &&& BitVec.ofNat 64 m) != 0) = ((a.toNat &&& m) != 0) := by
  have : (a &&& BitVec.ofNat 64 m).toNat = a.toNat &&& m := by
    rw [BitVec.toNat_and, BitVec.toNat_ofNat, Nat.mod_eq_of_lt hm]
  cases h : (a.toNat &&& m) != 0 with
  | true =>
    rw [bne_iff_ne] at h ⊢
    intro h0; apply h; rw [← this, h0]; rfl
  | false =>
    have h' : (a.toNat &&& m) = 0 := by simpa using h
    have : a &&& BitVec.ofNat 64 m = 0 := by apply BitVec.eq_of_toNat_eq; rw [this, h']; rfl
    rw [this]; rfl

theorem set_backend_req_fd_is_row (d : Daemon) :
    step d .setBackendReqFd = runRow "set_backend_req_fd" d {} none := by
  have h1 := and_mask_ne_zero d.ackedProto Gen.Flags.VhostUserProtocolFeatures.REPLY_ACK (by decide)
  have h2 := and_mask_ne_zero d.ackedProto Gen.Flags.VhostUserProtocolFeatures.SHARED_OBJECT (by decide)
  have h3 := and_mask_ne_zero d.ackedProto Gen.Flags.VhostUserProtocolFeatures.SHMEM (by decide)
  simp only [step, protoBit, h1, h2, h3]
  have e1 : Gen.Flags.VhostUserProtocolFeatures.REPLY_ACK = 0x8 := rfl
  have e2 : Gen.Flags.VhostUserProtocolFeatures.SHARED_OBJECT = 0x40000 := rfl
  have e3 : Gen.Flags.VhostUserProtocolFeatures.SHMEM = 0x200000 := rfl
  rw [e1, e2, e3]
  by_cases c1 : ((d.ackedProto.toNat &&& 0x8) != 0) = true <;>
  by_cases c2 : ((d.ackedProto.toNat &&& 0x40000) != 0) = true <;>
  by_cases c3 : ((d.ackedProto.toNat &&& 0x200000) != 0) = true <;>
  simp [runRow, row_set_backend_req_fd, startV, evsV, evV, actV, resultV, sync, cond_replyAck, cond_sharedObject,
    cond_shmem, c1, c2, c3] <;> simp_all

/-! ## SET_FEATURES -/

theorem row_set_features : row "set_features" = [
    .valueCheck "(features & !self.backend.features()) != 0" "InvalidParam",
    .setField "acked_features" "features", .setField "features_acked" "true",
    .ifCond "self.acked_features & VhostUserVirtioFeatures::PROTOCOL_FEATURES.bits() == 0"
      [.forEachVring [.vringCall "set_enabled" ["true"], updateReg "index as u8"]] [],
    .bind "event_idx" "(self.acked_features & (1 << VIRTIO_RING_F_EVENT_IDX)) != 0",
    .forEachVring [.vringCall "set_queue_event_idx" ["event_idx"]],
    .backendCall "set_event_idx" ["event_idx"], .backendCall "acked_features" ["self.acked_features"], .ok] := rfl

theorem cond_subset : cond "(features & !self.backend.features()) != 0" =
    (fun x => ((x.features &&& (18446744073709551615 - x.backend_features)) != 0)) := rfl
theorem cond_noProto : cond "self.acked_features & VhostUserVirtioFeatures::PROTOCOL_FEATURES.bits() == 0" =
    (fun x => ((x.acked_features &&& 0x40000000) == 0)) := rfl
theorem cond_event_idx : cond "event_idx" = (fun x => ((x.acked_features &&& 0x20000000) != 0)) := rfl
theorem val_acked : val "self.acked_features" = (fun x => x.acked_features) := rfl

theorem bne_zero_toNat (a : BitVec 64) : (a != 0) = (a.toNat != 0) := by
  cases h : a.toNat != 0 with
  | true =>
    rw [bne_iff_ne] at h ⊢
    intro h0; apply h; rw [h0]; rfl
  | false =>
    have h' : a.toNat = 0 := by simpa using h
    have : a = 0 := BitVec.eq_of_toNat_eq (by rw [h']; rfl)
    rw [this]; rfl

/-- the subset test of `set_features` on naturals is the model's on bit vectors -/
theorem subset_cond (f o : BitVec 64) :
    ((f.toNat &&& (18446744073709551615 - o.toNat)) != 0) = (f &&& ~~~o != 0) := by
  rw [bne_zero_toNat, BitVec.toNat_and, BitVec.toNat_not]

theorem noProto_cond (f : BitVec 64) : ((f.toNat &&& 0x40000000) == 0) = (f &&& protocolFeaturesBit == 0) := by
  have h := and_mask_ne_zero f 0x40000000 (by decide)
  have e : protocolFeaturesBit = BitVec.ofNat 64 0x40000000 := by decide
  rw [e]
  cases h1 : (f.toNat &&& 0x40000000) == 0 <;> cases h2 : (f &&& BitVec.ofNat 64 0x40000000 == 0) <;>
    simp_all [bne]

theorem eventIdx_cond (f : BitVec 64) : ((f.toNat &&& 0x20000000) != 0) = f.getLsbD eventIdxBit := by
  have h := and_mask_ne_zero f 0x20000000 (by decide)
  have h2 := and_two_pow_bne f 29 (by decide)
  have e : (2 : Nat) ^ 29 = 0x20000000 := by decide
  rw [e] at h2
  rw [← h, h2]; rfl

theorem set_features_is_row (d : Daemon) (f : BitVec 64) :
    step d (.setFeatures f) = runRow "set_features" d { features := f.toNat } none := by
  unfold runRow startV
  rw [row_set_features]
  have hstep : step d (.setFeatures f) =
      (if f &&& ~~~d.offered != 0 then (d, .error .invalidParam) else
        ({ d with ackedFeatures := f, featuresAcked := true,
                  vrings := d.vrings.map fun v =>
                    { v with enabled := if (f &&& protocolFeaturesBit == 0) then true else v.enabled,
                             queue := { v.queue with eventIdx := f.getLsbD eventIdxBit } },
                  log := d.log ++ [.setEventIdx (f.getLsbD eventIdxBit), .ackedFeatures f] }, .ok .unit)) := rfl
  rw [hstep]
  have hsub := subset_cond f d.offered
  have hcv : cond "(features & !self.backend.features()) != 0"
      (sync ⟨d, { features := f.toNat }, none, (false, false, false), .run⟩) = (f &&& ~~~d.offered != 0) := by
    rw [cond_subset]; exact hsub
  by_cases hc : (f &&& ~~~d.offered != 0) = true
  · rw [if_pos hc]
    rw [evsV_stop (.error .invalidParam) (s1 := fail ⟨d, { features := f.toNat }, none, (false, false, false), .run⟩ "InvalidParam")
      (by simp only [evV, actV, hcv, hc, if_true]) (by simp [fail, errOf])]
    simp [resultV, fail, errOf]
  · rw [if_neg hc]
    have hc' : (f &&& ~~~d.offered != 0) = false := by simpa using hc
    rw [evsV_step (s1 := ⟨d, { features := f.toNat }, none, (false, false, false), .run⟩)
      (by simp only [evV, actV, hcv, hc', Bool.false_eq_true, if_false]) rfl]
    rw [evsV_step (s1 := ⟨{ d with ackedFeatures := f }, { features := f.toNat }, none, (false, false, false), .run⟩)
      (by simp [evV, actV, val_features, sync]) rfl]
    rw [evsV_step (s1 := ⟨{ d with ackedFeatures := f, featuresAcked := true }, { features := f.toNat }, none, (false, false, false), .run⟩)
      (by simp [evV, actV, cond_true]) rfl]
    have hnp := noProto_cond f
    have hev := eventIdx_cond f
    generalize hd1 : ({ d with ackedFeatures := f, featuresAcked := true } : Daemon) = d1
    have hd1a : d1.ackedFeatures = f := by rw [← hd1]
    have hd1v : d1.vrings = d.vrings := by rw [← hd1]
    -- the two loops
    have loop1 : ∀ s : VS, s.flow = .run →
        evV (.forEachVring [.vringCall "set_enabled" ["true"], updateReg "index as u8"]) s =
          { s with d := { s.d with vrings := s.d.vrings.map fun v => { v with enabled := true } } } := by
      intro s hs
      apply evV_forEachVring_map _ _ s hs
      intro t ht _
      obtain ⟨td, tx, tf, tc, tfl⟩ := t
      simp only at ht; subst ht
      simp [evsV, evV, actV, vringCallV, modRing, cond_true, updateReg, skipped]
    have loop2 : ∀ s : VS, s.flow = .run → s.d.ackedFeatures = f →
        evV (.forEachVring [.vringCall "set_queue_event_idx" ["event_idx"]]) s =
          { s with d := { s.d with vrings := s.d.vrings.map fun v =>
              { v with queue := { v.queue with eventIdx := f.getLsbD eventIdxBit } } } } := by
      intro s hs ha
      apply evV_forEachVring_map _ _ s hs
      intro t ht hta
      obtain ⟨td, tx, tf, tc, tfl⟩ := t
      simp only at ht hta; subst ht
      simp [evsV, evV, actV, vringCallV, modRing, cond_event_idx, sync, hta, ha, hev]
    by_cases hp : (f &&& protocolFeaturesBit == 0) = true
    · have hp' : f &&& protocolFeaturesBit = 0#64 := by simpa using hp
      rw [evsV_step (s1 := ⟨{ d1 with vrings := d1.vrings.map fun v => { v with enabled := true } }, { features := f.toNat }, none,
          (false, false, false), .run⟩)
        (by
          simp only [evV]
          have hcnd : cond "self.acked_features & VhostUserVirtioFeatures::PROTOCOL_FEATURES.bits() == 0"
              (sync ⟨d1, { features := f.toNat }, none, (false, false, false), .run⟩) = true := by
            simp [cond_noProto, sync, hd1a, hnp, hp, hp']
          rw [if_pos hcnd, evsV_step (loop1 _ rfl) rfl]
          rfl) rfl]
      rw [evsV_step (s1 := ⟨{ d1 with vrings := d1.vrings.map fun v => { v with enabled := true } }, { features := f.toNat }, none,
          (false, false, false), .run⟩) (by simp [evV, actV]) rfl]
      rw [evsV_step (loop2 _ rfl hd1a) rfl]
      simp [evsV, evV, actV, resultV, sync, cond_event_idx, val_acked, hd1a, hev, hp, hp']
      rw [← hd1]
      simp [List.map_map, Function.comp_def, hp']
    · have hp' : ¬ f &&& protocolFeaturesBit = 0#64 := by simpa using hp
      rw [evsV_step (s1 := ⟨d1, { features := f.toNat }, none, (false, false, false), .run⟩)
        (by
          simp only [evV]
          have hcnd : cond "self.acked_features & VhostUserVirtioFeatures::PROTOCOL_FEATURES.bits() == 0"
              (sync ⟨d1, { features := f.toNat }, none, (false, false, false), .run⟩) = false := by
            simp [cond_noProto, sync, hd1a, hnp, hp, hp']
          rw [hcnd]
          simp [evsV]) rfl]
      rw [evsV_step (s1 := ⟨d1, { features := f.toNat }, none, (false, false, false), .run⟩) (by simp [evV, actV]) rfl]
      rw [evsV_step (loop2 _ rfl hd1a) rfl]
      simp [evsV, evV, actV, resultV, sync, cond_event_idx, val_acked, hd1a, hev, hp, hp']
      rw [← hd1]
      simp [hp, hp']

end Lemmas.HandlerVring
