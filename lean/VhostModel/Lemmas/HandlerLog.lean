import VhostModel.Model.Bitmap
import VhostModel.Model.HandlerTable
/-!
# Reading the handler's rows in `Model.Bitmap` (C15)

`evsL` interprets the rows of `set_log_base`, `set_mem_table`, `add_mem_region`, `remove_mem_region` on the handler state of
`Model.Bitmap` (`HState`: the regions of the table with their bitmaps, `self.logmem`), event by event:

* `libTry "InnerBitmap::new"` is `AtomicBitmapMmap.new` for the region at hand on the log at hand, `bitmapReplace` installs
  the bitmap built last in that region (a region of the table inside the two loops of `set_log_base`, the region being
  created inside `log_region`), `logAssign` remembers the log;
* the helper `log_region` is run through its own events: `if let Some(logmem) = self.logmem.as_ref()` reads `HState.logmem`;
* `libTry "GuestMemoryMmap::from_regions" / "insert_region" / "remove_region"` are the table-shape rules of the model
  (`tableOk`, `insertSorted`, exact `(base, size)` match), `memReplace` installs the new table;
* not this model's: `mmap_region`, `GuestRegionMmap::new`, `MmapLogReg::from_file` never fail here (the model starts
  "after the mapping succeeded"); `mappings*`, `update_memory` are `Model.MemTable`'s.

`dropLogRegion` removes the calls of `log_region` from a row: what is left is the handler of the unrepaired tree
(`setMemTableOld`, `addMemRegOld`).
-/
namespace Lemmas.HandlerLog
open Base Model.Bitmap Model.HandlerTable

inductive Flow where
  | run
  | ret (ok : Bool)
  deriving DecidableEq

structure LS where
  st : HState
  /-- SET_LOG_BASE: length of the mapping made by `MmapLogReg::from_file` -/
  logLen : Nat
  /-- SET_MEM_TABLE: `ctx.iter().zip(files)` as (guest address, size) -/
  regs : List (Nat × Nat)
  /-- `region`: the argument of ADD_MEM_REG / REM_MEM_REG, the loop variable of SET_MEM_TABLE -/
  arg : Nat × Nat
  /-- `mem` of `set_log_base`: the snapshot of the table -/
  snapshot : List Reg
  /-- the region at hand is a region of the table, at this position (the loops of `set_log_base`) -/
  inTable : Bool
  idx : Nat
  /-- `guest_region` / `region` -/
  cur : Option Reg
  /-- `bitmap` -/
  bm : Option AtomicBitmapMmap
  /-- `logmem`: identity and length of the log at hand -/
  log : Option (Nat × Nat)
  /-- the locals `regions`, `bitmaps`, `mem` -/
  built : List Reg
  bitmaps : List AtomicBitmapMmap
  mem : Option (List Reg)
  flow : Flow

def fail (s : LS) : LS := { s with flow := .ret false }

def geom (rs : List Reg) : List (Nat × Nat) := rs.map fun x => (x.start, x.len)

def libTryL (s : LS) (w : String) : LS :=
  if w = "MmapLogReg::from_file" then { s with log := some (s.st.nextLog, s.logLen) }
  else if w = "GuestRegionMmap::new" then { s with cur := some { start := s.arg.1, len := s.arg.2, bitmap := none } }
  else if w = "InnerBitmap::new" then
    (match s.cur, s.log with
     | some r, some (_, len) =>
       (match AtomicBitmapMmap.new r.start r.len len with
        | none => fail s
        | some bm => { s with bm := some bm })
     | _, _ => s)
  else if w = "GuestMemoryMmap::from_regions" then
    (if tableOk (geom s.built) then { s with mem := some s.built } else fail s)
  else if w = "insert_region" then
    (match s.cur with
     | none => s
     | some r =>
       if tableOk (geom (insertSorted r s.st.regions)) then { s with mem := some (insertSorted r s.st.regions) } else fail s)
  else if w = "remove_region" then
    (if s.st.regions.any (fun r => r.start == s.arg.1 && r.len == s.arg.2) then
       { s with mem := some (s.st.regions.filter (fun r => !(r.start == s.arg.1 && r.len == s.arg.2))) }
     else fail s)
  else s

def setBitmap (id : Nat) (bm : AtomicBitmapMmap) (r : Reg) : Reg := { r with bitmap := some (id, bm) }

def actL (a : HAct) (s : LS) : LS :=
  match a with
  | .bind n _ => if n = "mem" then { s with snapshot := s.st.regions } else s
  | .libTry w _ => libTryL s w
  | .localNew n =>
    if n = "bitmaps" then { s with bitmaps := [] } else if n = "regions" then { s with built := [] } else s
  | .localPush n _ =>
    if n = "bitmaps" then
      (match s.bm with
       | some bm => { s with bitmaps := s.bitmaps ++ [bm] }
       | none => s)
    else if n = "regions" then
      (match s.cur with
       | some r => { s with built := s.built ++ [r] }
       | none => s)
    else s
  | .bitmapReplace =>
    (match s.bm, s.log with
     | some bm, some (id, _) =>
       if s.inTable then { s with st := { s.st with regions := s.st.regions.modify s.idx (setBitmap id bm) } }
       else { s with cur := s.cur.map (setBitmap id bm) }
     | _, _ => s)
  | .logAssign =>
    (match s.log with
     | some l => { s with st := { s.st with logmem := some l, nextLog := s.st.nextLog + 1 } }
     | none => s)
  | .memReplace =>
    (match s.mem with
     | some m => { s with st := { s.st with regions := m } }
     | none => s)
  | .ok => { s with flow := .ret true }
  | .err _ => fail s
  | _ => s

/-- back in the caller -/
def afterCall (p : Bool) (s : LS) : LS :=
  match s.flow with
  | .ret false => if p then s else { s with flow := .run }
  | _ => { s with flow := .run }

def memLoop : String := "ctx.iter().zip(files)"

mutual
def evL : HEvent → LS → LS
  | .act a, s => actL a s
  | .helperCall _ _ p body, s => afterCall p (evsL body s)
  | .forEach c body, s =>
    if c = memLoop then
      s.regs.foldl (fun s a => match s.flow with
        | .run => evsL body { s with arg := a }
        | _ => s) s
    else if c = "mem.iter()" then
      s.snapshot.foldl (fun s r => match s.flow with
        | .run => evsL body { s with cur := some r, inTable := true }
        | _ => s) s
    else if c = "bitmaps" then
      s.bitmaps.foldl (fun s bm => match s.flow with
        | .run => let s' := evsL body { s with bm := some bm, inTable := true }
                  { s' with idx := s'.idx + 1 }
        | _ => s) { s with idx := 0 }
    else s
  | .forEachVring _, s => s
  | .ifCond _ _ _, s => s
  | .ifSome w t f, s =>
    if w = "self.logmem.as_ref()" then
      (match s.st.logmem with
       | some l => evsL t { s with log := some l }
       | none => evsL f s)
    else s
def evsL : List HEvent → LS → LS
  | [], s => s
  | e :: es, s =>
    match (evL e s).flow with
    | .run => evsL es (evL e s)
    | _ => evL e s
end

def startL (st : HState) (logLen : Nat) (regs : List (Nat × Nat)) (arg : Nat × Nat) : LS :=
  ⟨st, logLen, regs, arg, [], false, 0, none, none, none, [], [], none, .run⟩

def resultL (s : LS) : Option HState :=
  match s.flow with
  | .ret false => none
  | _ => some s.st

def runEvs (evs : List HEvent) (st : HState) (logLen : Nat) (regs : List (Nat × Nat)) (arg : Nat × Nat) : Option HState :=
  resultL (evsL evs (startL st logLen regs arg))

def runRow (name : String) (st : HState) (logLen : Nat) (regs : List (Nat × Nat)) (arg : Nat × Nat) : Option HState :=
  runEvs (row name) st logLen regs arg

mutual
/-- the row without the calls of `log_region` (at any depth) -/
def dropLogRegion : HEvent → List HEvent
  | .act a => [.act a]
  | .helperCall n a p b => if n = "log_region" then [] else [.helperCall n a p (dropLogRegions b)]
  | .forEachVring b => [.forEachVring (dropLogRegions b)]
  | .forEach c b => [.forEach c (dropLogRegions b)]
  | .ifCond c t f => [.ifCond c (dropLogRegions t) (dropLogRegions f)]
  | .ifSome c t f => [.ifSome c (dropLogRegions t) (dropLogRegions f)]
def dropLogRegions : List HEvent → List HEvent
  | [] => []
  | e :: es => dropLogRegion e ++ dropLogRegions es
end

theorem evsL_step {e : HEvent} {es : List HEvent} {s s1 : LS} (h : evL e s = s1) (hrun : s1.flow = .run) :
    evsL (e :: es) s = evsL es s1 := by
  simp only [evsL, h, hrun]

theorem evsL_stop {e : HEvent} {es : List HEvent} {s s1 : LS} (b : Bool) (h : evL e s = s1) (hret : s1.flow = .ret b) :
    evsL (e :: es) s = s1 := by
  simp only [evsL, h, hret]

set_option linter.unusedSimpArgs false

/-! ## `log_region` -/

/-- `log_region`, event by event, is `Model.Bitmap.logRegion` applied to the region being created -/
theorem evL_logRegion (s : LS) (hs : s.flow = .run) (r : Reg) (hc : s.cur = some r) (hb : r.bitmap = none)
    (ht : s.inTable = false) :
    match Model.Bitmap.logRegion s.st r.start r.len with
    | none => (evL Model.HandlerTable.logRegion s).flow = .ret false ∧ (evL Model.HandlerTable.logRegion s).st = s.st
    | some r' => ∃ b l, evL Model.HandlerTable.logRegion s = { s with cur := some r', bm := b, log := l } := by
  obtain ⟨st, logLen, regs, arg, snapshot, inTable, idx, cur, bm, log, built, bitmaps, mem, flow⟩ := s
  simp only at hs hc ht; subst hs hc ht
  obtain ⟨start, len, bitmap⟩ := r
  simp only at hb; subst hb
  unfold Model.Bitmap.logRegion
  cases hl : st.logmem with
  | none =>
    simp only
    exact ⟨bm, log, by simp [Model.HandlerTable.logRegion, logRegionBody, evL, evsL, actL, hl, afterCall]⟩
  | some l =>
    obtain ⟨id, ll⟩ := l
    simp only
    cases hn : AtomicBitmapMmap.new start len ll with
    | none =>
      simp [Model.HandlerTable.logRegion, logRegionBody, evL, evsL, actL, libTryL, hl, hn, afterCall, fail]
    | some b =>
      simp only
      exact ⟨some b, some (id, ll), by
        simp [Model.HandlerTable.logRegion, logRegionBody, evL, evsL, actL, libTryL, hl, hn, afterCall, setBitmap]⟩

theorem logRegion_geom {s : HState} {a l : Nat} {r : Reg} (h : Model.Bitmap.logRegion s a l = some r) :
    r.start = a ∧ r.len = l := by
  unfold Model.Bitmap.logRegion at h
  cases hl : s.logmem with
  | none => rw [hl] at h; simp at h; subst h; exact ⟨rfl, rfl⟩
  | some p =>
    obtain ⟨id, ll⟩ := p
    rw [hl] at h; simp only at h
    cases hn : AtomicBitmapMmap.new a l ll with
    | none => rw [hn] at h; cases h
    | some b => rw [hn] at h; simp at h; subst h; exact ⟨rfl, rfl⟩

theorem mapOpt_geom {s : HState} (regs : List (Nat × Nat)) (rs : List Reg)
    (h : mapOpt (fun (a, l) => Model.Bitmap.logRegion s a l) regs = some rs) : geom rs = regs := by
  induction regs generalizing rs with
  | nil => simp [mapOpt] at h; subst h; rfl
  | cons p regs ih =>
    obtain ⟨a, l⟩ := p
    unfold mapOpt at h
    cases hf : Model.Bitmap.logRegion s a l with
    | none => simp [hf] at h
    | some r =>
      simp only [hf] at h
      cases hm : mapOpt (fun (a, l) => Model.Bitmap.logRegion s a l) regs with
      | none => simp [hm] at h
      | some bs =>
        simp [hm] at h; subst h
        obtain ⟨h1, h2⟩ := logRegion_geom hf
        simp [geom, h1, h2]
        exact ih bs hm

/-! ## the loop of `set_mem_table` -/

def tableBody : List HEvent := [
  .libTry "mmap_region" "*", .libTry "GuestRegionMmap::new" "ReqHandlerError", Model.HandlerTable.logRegion,
  .localPush "mappings" addrMappingLit, .localPush "regions" "guest_region"]

theorem tableBody_step (t : LS) (ht : t.flow = .run) (hin : t.inTable = false) :
    match Model.Bitmap.logRegion t.st t.arg.1 t.arg.2 with
    | none => (evsL tableBody t).flow = .ret false ∧ (evsL tableBody t).st = t.st
    | some r' => ∃ c b l, evsL tableBody t = { t with built := t.built ++ [r'], cur := c, bm := b, log := l } := by
  unfold tableBody
  rw [evsL_step (s1 := t) (by simp [evL, actL, libTryL]) ht]
  rw [evsL_step (s1 := { t with cur := some { start := t.arg.1, len := t.arg.2, bitmap := none } })
    (by simp [evL, actL, libTryL]) ht]
  have h := evL_logRegion { t with cur := some { start := t.arg.1, len := t.arg.2, bitmap := none } } ht _ rfl rfl hin
  simp only at h
  cases hl : Model.Bitmap.logRegion t.st t.arg.1 t.arg.2 with
  | none =>
    rw [hl] at h
    rw [evsL_stop false rfl h.1]
    exact h
  | some r' =>
    rw [hl] at h
    obtain ⟨b, l, h⟩ := h
    rw [evsL_step h ht]
    refine ⟨some r', b, l, ?_⟩
    simp [evsL, evL, actL, ht]

theorem foldl_stuck {α : Type} (f : LS → α → LS) (xs : List α) (s : LS) (b : Bool) (h : s.flow = .ret b) :
    xs.foldl (fun s a => match s.flow with
        | .run => f s a
        | _ => s) s = s := by
  induction xs with
  | nil => rfl
  | cons r rs ih => simp only [List.foldl_cons, h]; exact ih

theorem loop_mapOpt (regs : List (Nat × Nat)) (s : LS) (hs : s.flow = .run) (hin : s.inTable = false) :
    match mapOpt (fun (a, l) => Model.Bitmap.logRegion s.st a l) regs with
    | none =>
      (regs.foldl (fun s a => match s.flow with
        | .run => evsL tableBody { s with arg := a }
        | _ => s) s).flow = .ret false ∧
      (regs.foldl (fun s a => match s.flow with
        | .run => evsL tableBody { s with arg := a }
        | _ => s) s).st = s.st
    | some rs =>
      ∃ c b l a, regs.foldl (fun s a => match s.flow with
        | .run => evsL tableBody { s with arg := a }
        | _ => s) s = { s with built := s.built ++ rs, cur := c, bm := b, log := l, arg := a } := by
  induction regs generalizing s with
  | nil => simp only [mapOpt, List.foldl_nil, List.append_nil]; exact ⟨s.cur, s.bm, s.log, s.arg, rfl⟩
  | cons p regs ih =>
    obtain ⟨st, logLen, regs', arg, snapshot, inTable, idx, cur, bm, log, built, bitmaps, mem, flow⟩ := s
    simp only at hs hin; subst hs hin
    obtain ⟨a, l⟩ := p
    simp only [mapOpt, List.foldl_cons]
    have hb := tableBody_step ⟨st, logLen, regs', (a, l), snapshot, false, idx, cur, bm, log, built, bitmaps, mem, .run⟩ rfl rfl
    simp only at hb
    cases hl : Model.Bitmap.logRegion st a l with
    | none =>
      rw [hl] at hb
      simp only
      rw [foldl_stuck _ _ _ false hb.1]
      exact hb
    | some r' =>
      rw [hl] at hb
      obtain ⟨c, b, l', hb⟩ := hb
      simp only
      rw [hb]
      have := ih ⟨st, logLen, regs', (a, l), snapshot, false, idx, c, b, l', built ++ [r'], bitmaps, mem, .run⟩ rfl rfl
      simp only at this
      cases hm : mapOpt (fun (a, l) => Model.Bitmap.logRegion st a l) regs with
      | none =>
        rw [hm] at this
        exact this
      | some rs =>
        rw [hm] at this
        obtain ⟨c', b', l'', a', h⟩ := this
        refine ⟨c', b', l'', a', ?_⟩
        simp only [Option.map_some]
        rw [h]
        simp [List.append_assoc]

theorem evL_tableLoop (s : LS) (hs : s.flow = .run) (hin : s.inTable = false) :
    match mapOpt (fun (a, l) => Model.Bitmap.logRegion s.st a l) s.regs with
    | none =>
      (evL (.forEach "ctx.iter().zip(files)" tableBody) s).flow = .ret false ∧
      (evL (.forEach "ctx.iter().zip(files)" tableBody) s).st = s.st
    | some rs =>
      ∃ c b l a, evL (.forEach "ctx.iter().zip(files)" tableBody) s =
        { s with built := s.built ++ rs, cur := c, bm := b, log := l, arg := a } := by
  have h := loop_mapOpt s.regs s hs hin
  simp only [evL, memLoop, if_true]
  exact h

/-! ## the same loop without `log_region` (the unrepaired tree) -/

def tableBodyOld : List HEvent := [
  .libTry "mmap_region" "*", .libTry "GuestRegionMmap::new" "ReqHandlerError",
  .localPush "mappings" addrMappingLit, .localPush "regions" "guest_region"]

def plain (p : Nat × Nat) : Reg := { start := p.1, len := p.2, bitmap := none }

theorem loop_old (regs : List (Nat × Nat)) (s : LS) (hs : s.flow = .run) :
    ∃ c a, regs.foldl (fun s a => match s.flow with
        | .run => evsL tableBodyOld { s with arg := a }
        | _ => s) s = { s with built := s.built ++ regs.map plain, cur := c, arg := a } := by
  induction regs generalizing s with
  | nil => exact ⟨s.cur, s.arg, by simp⟩
  | cons p regs ih =>
    obtain ⟨st, logLen, regs', arg, snapshot, inTable, idx, cur, bm, log, built, bitmaps, mem, flow⟩ := s
    simp only at hs; subst hs
    simp only [List.foldl_cons]
    have e : evsL tableBodyOld ⟨st, logLen, regs', p, snapshot, inTable, idx, cur, bm, log, built, bitmaps, mem, .run⟩ =
        ⟨st, logLen, regs', p, snapshot, inTable, idx, some (plain p), bm, log, built ++ [plain p], bitmaps, mem, .run⟩ := by
      simp [tableBodyOld, evsL, evL, actL, libTryL, plain]
    rw [e]
    obtain ⟨c, a, h⟩ := ih ⟨st, logLen, regs', p, snapshot, inTable, idx, some (plain p), bm, log, built ++ [plain p], bitmaps, mem, .run⟩ rfl
    refine ⟨c, a, ?_⟩
    rw [h]
    simp [List.append_assoc]

theorem evL_tableLoopOld (s : LS) (hs : s.flow = .run) :
    ∃ c a, evL (.forEach "ctx.iter().zip(files)" tableBodyOld) s =
      { s with built := s.built ++ s.regs.map plain, cur := c, arg := a } := by
  have h := loop_old s.regs s hs
  simp only [evL, memLoop, if_true]
  exact h

/-! ## the two loops of `set_log_base` -/

def buildBody : List HEvent := [.libTry "InnerBitmap::new" "ReqHandlerError", .localPush "bitmaps" "(region, bitmap)"]

theorem buildAll_length {len : Nat} {rs : List Reg} {bms : List AtomicBitmapMmap} (h : buildAll len rs = some bms) :
    bms.length = rs.length := by
  induction rs generalizing bms with
  | nil => simp [buildAll] at h; subst h; rfl
  | cons r rs ih =>
    unfold buildAll at h
    cases hn : AtomicBitmapMmap.new r.start r.len len with
    | none => simp [hn] at h
    | some bm =>
      simp only [hn] at h
      cases hb : buildAll len rs with
      | none => simp [hb] at h
      | some bms' => simp [hb] at h; subst h; simp [ih hb]

/-- first loop: all bitmaps are built (nothing is replaced yet), or the request fails with the state as it was -/
theorem loop_buildAll (rs : List Reg) (s : LS) (hs : s.flow = .run) (id len : Nat) (hl : s.log = some (id, len)) :
    match buildAll len rs with
    | none =>
      (rs.foldl (fun s r => match s.flow with
        | .run => evsL buildBody { s with cur := some r, inTable := true }
        | _ => s) s).flow = .ret false ∧
      (rs.foldl (fun s r => match s.flow with
        | .run => evsL buildBody { s with cur := some r, inTable := true }
        | _ => s) s).st = s.st
    | some bms =>
      ∃ c b t, rs.foldl (fun s r => match s.flow with
        | .run => evsL buildBody { s with cur := some r, inTable := true }
        | _ => s) s = { s with bitmaps := s.bitmaps ++ bms, cur := c, bm := b, inTable := t } := by
  induction rs generalizing s with
  | nil => simp only [buildAll, List.foldl_nil, List.append_nil]; exact ⟨s.cur, s.bm, s.inTable, rfl⟩
  | cons r rs ih =>
    obtain ⟨st, logLen, regs', arg, snapshot, inTable, idx, cur, bm, log, built, bitmaps, mem, flow⟩ := s
    simp only at hs hl; subst hs hl
    simp only [buildAll, List.foldl_cons]
    cases hn : AtomicBitmapMmap.new r.start r.len len with
    | none =>
      simp only
      have e : evsL buildBody ⟨st, logLen, regs', arg, snapshot, true, idx, some r, bm, some (id, len), built, bitmaps, mem, .run⟩ =
          fail ⟨st, logLen, regs', arg, snapshot, true, idx, some r, bm, some (id, len), built, bitmaps, mem, .run⟩ := by
        simp [buildBody, evsL, evL, actL, libTryL, hn, fail]
      rw [e, foldl_stuck _ _ _ false rfl]
      exact ⟨rfl, rfl⟩
    | some b =>
      simp only
      have e : evsL buildBody ⟨st, logLen, regs', arg, snapshot, true, idx, some r, bm, some (id, len), built, bitmaps, mem, .run⟩ =
          ⟨st, logLen, regs', arg, snapshot, true, idx, some r, some b, some (id, len), built, bitmaps ++ [b], mem, .run⟩ := by
        simp [buildBody, evsL, evL, actL, libTryL, hn]
      rw [e]
      have := ih ⟨st, logLen, regs', arg, snapshot, true, idx, some r, some b, some (id, len), built, bitmaps ++ [b], mem, .run⟩ rfl rfl
      simp only at this
      cases hb : buildAll len rs with
      | none => rw [hb] at this; exact this
      | some bms =>
        rw [hb] at this
        obtain ⟨c, b', t, h⟩ := this
        refine ⟨c, b', t, ?_⟩
        simp only [Option.map_some]
        rw [h]
        simp [List.append_assoc]

theorem evL_buildLoop (s : LS) (hs : s.flow = .run) (id len : Nat) (hl : s.log = some (id, len)) :
    match buildAll len s.snapshot with
    | none =>
      (evL (.forEach "mem.iter()" buildBody) s).flow = .ret false ∧ (evL (.forEach "mem.iter()" buildBody) s).st = s.st
    | some bms =>
      ∃ c b t, evL (.forEach "mem.iter()" buildBody) s = { s with bitmaps := s.bitmaps ++ bms, cur := c, bm := b, inTable := t } := by
  have h := loop_buildAll s.snapshot s hs id len hl
  simp only [evL, memLoop, if_true]
  exact h

theorem modify_append_length {α : Type} (pre : List α) (x : α) (rest : List α) (f : α → α) :
    (pre ++ x :: rest).modify pre.length f = pre ++ f x :: rest := by
  induction pre with
  | nil => rfl
  | cons p pre ih => simp [ih]

/-- second loop: the `k`-th bitmap replaces the bitmap of the `k`-th region of the table -/
theorem loop_replace (bms : List AtomicBitmapMmap) (s : LS) (hs : s.flow = .run) (id len : Nat) (hl : s.log = some (id, len))
    (pre rest : List Reg) (hr : s.st.regions = pre ++ rest) (hi : s.idx = pre.length) (hlen : bms.length ≤ rest.length) :
    ∃ b t, bms.foldl (fun s bm => match s.flow with
        | .run => let s' := evsL [.bitmapReplace] { s with bm := some bm, inTable := true }
                  { s' with idx := s'.idx + 1 }
        | _ => s) s =
      { s with st := { s.st with regions := pre ++ (rest.zip bms).map (fun (r, bm) => setBitmap id bm r) ++ rest.drop bms.length },
               idx := pre.length + bms.length, bm := b, inTable := t } := by
  induction bms generalizing s pre rest with
  | nil =>
    refine ⟨s.bm, s.inTable, ?_⟩
    obtain ⟨st, logLen, regs', arg, snapshot, inTable, idx, cur, bm, log, built, bitmaps, mem, flow⟩ := s
    simp only at hr hi; subst hi
    obtain ⟨regions, logmem, nextLog⟩ := st
    simp only at hr; subst hr
    simp
  | cons bm bms ih =>
    obtain ⟨st, logLen, regs', arg, snapshot, inTable, idx, cur, bm0, log, built, bitmaps, mem, flow⟩ := s
    simp only at hs hl hr hi; subst hs hl hi
    cases rest with
    | nil => simp at hlen
    | cons x rest =>
      simp only [List.foldl_cons]
      have e : evsL [.bitmapReplace]
          ⟨st, logLen, regs', arg, snapshot, true, pre.length, cur, some bm, some (id, len), built, bitmaps, mem, .run⟩ =
          ⟨{ st with regions := pre ++ setBitmap id bm x :: rest }, logLen, regs', arg, snapshot, true, pre.length, cur, some bm,
            some (id, len), built, bitmaps, mem, .run⟩ := by
        simp [evsL, evL, actL, hr, modify_append_length]
      simp only [e]
      have := ih ⟨{ st with regions := pre ++ setBitmap id bm x :: rest }, logLen, regs', arg, snapshot, true, pre.length + 1, cur,
        some bm, some (id, len), built, bitmaps, mem, .run⟩ rfl rfl (pre ++ [setBitmap id bm x]) rest (by simp) (by simp)
        (by simp at hlen; omega)
      obtain ⟨b, t, h⟩ := this
      refine ⟨b, t, ?_⟩
      rw [h]
      simp [List.append_assoc, Nat.add_assoc, Nat.add_comm 1]

theorem evL_replaceLoop (s : LS) (hs : s.flow = .run) (id len : Nat) (hl : s.log = some (id, len))
    (hlen : s.bitmaps.length = s.st.regions.length) :
    ∃ b t i, evL (.forEach "bitmaps" [.bitmapReplace]) s =
      { s with st := { s.st with regions := (s.st.regions.zip s.bitmaps).map (fun (r, bm) => setBitmap id bm r) },
               idx := i, bm := b, inTable := t } := by
  have h := loop_replace s.bitmaps { s with idx := 0 } hs id len hl [] s.st.regions rfl rfl (by rw [hlen]; exact Nat.le_refl _)
  obtain ⟨b, t, h⟩ := h
  refine ⟨b, t, 0 + s.bitmaps.length, ?_⟩
  simp only [evL, memLoop, if_true]
  rw [h]
  simp [hlen]

end Lemmas.HandlerLog
