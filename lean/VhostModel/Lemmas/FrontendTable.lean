import VhostModel.Model.Frontend
import VhostModel.Model.FrontendTable
import VhostModel.Lemmas.RequestInv
/-!
# `Model.FrontendTable.modelOps` is true of `Model.Frontend.request` / `finish` / `recv`

Meaning of the table's vocabulary on the model's state and calls (`fires`, `selOne`, `rowFor`, `firstErr`, `bodyFits`,
`applyPre`, `applyPost`), and the two case analyses of `request`:

* `request_ok_row` — an accepted call (through `Lemmas.RequestInv.request_built`): the row selected for it, none of its
  checks fires, and code / reply reader / descriptors / body size / state update are the row's;
* `request_error_row` — a refused call: the error is `.other` (argument list of the wrong shape: an artefact of the
  untyped `Op`) or the error of the first check of the selected row that fires.

`Props.FrontendOps` derives the statements about the table from these.
-/
namespace Lemmas.FrontendTable
open Base Model.Stream Model.Msgs Model.Frontend Model.FrontendTable Lemmas.RequestInv
open Model.BackendSrv (Err bitSet Hdr)

/-! ## meaning of the vocabulary -/

/-- the `i`-th numeric argument of the call (0 if absent) -/
def arg (op : Op) (i : Nat) : Nat := op.a.getD i 0

/-- the model's error for a `VhostUserError` variant -/
def errOf (e : String) : Err :=
  if e = "InvalidParam" then .invalidParam
  else if e = "InactiveFeature" then .inactiveFeature
  else if e = "InactiveOperation" then .inactiveOperation
  else if e = "InvalidMessage" then .invalidMsg
  else if e = "BackendInternalError" then .backendInternal
  else if e = "IncorrectFds" then .incorrectFds
  else if e = "PartialMessage" then .partialMsg
  else if e = "SocketBroken" then .sockBroken
  else .other

/-- position, in the harness' argument list, of the Rust value tested for zero (`set_inflight_fd`: mmap_size,
mmap_offset, num_queues, queue_size; `add_mem_region` / `remove_mem_region`: guest address, memory_size, …) -/
def zeroIdx (p : String) : Nat :=
  if p = "inflight.mmap_size" then 0
  else if p = "inflight.num_queues" then 2
  else if p = "inflight.queue_size" then 3
  else 1

/-- the refusal condition `c` holds of call `op` in state `s`.  The queue index is always the first argument; the ring
flags the second; `buf` is `op.payload`; a negative descriptor is `op.bad`; a region is (gpa, size, uaddr, offset, fd
valid); `12` is the size of `VhostUserConfig`, the body type of the two rows that carry `msgSizeAbove`. -/
def fires (c : FeCond) (s : FSt) (op : Op) : Bool :=
  match c with
  | .queueIdxOob => !decide (arg op 0 < s.maxQ)
  | .idxAbove m => decide (arg op 0 > m)
  | .protoMissing b => !hasProto s b
  | .virtioMissing b true => !bitSet s.acked b
  | .virtioMissing b false => !bitSet s.virtio b
  | .flagsOutside _ _ all => (arg op 1 &&& (2^32 - 1 - all)) != 0
  | .empty _ => op.regions.isEmpty
  | .lenAbove a m => if a = "regions" then decide (op.regions.length > m) else decide (op.payload.length > m)
  | .anyZero _ _ => op.regions.any (fun r => r.2.1 == 0)
  | .anyNegative _ _ => op.regions.any (fun r => !r.2.2.2.2)
  | .zero p => arg op (zeroIdx p) == 0
  | .negative _ => op.bad
  | .invalid ty =>
    if ty = "VhostUserConfig" then
      (if op.name = "get_config" then !configValid (arg op 0) (arg op 1) (arg op 2)
       else !configValid (arg op 0) op.payload.length (arg op 1))
    else if ty = "VhostUserSharedMsg" then !uuidValid (arg op 0)
    else false
  | .msgSizeAbove m => decide (12 + op.payload.length > m)
  | _ => false

/-- a selector holds; `region: Option<_>` is `Some` iff the harness passes its two numbers after `base` -/
def selOne (s : FSt) (op : Op) : FeSel → Bool
  | .proto b => hasProto s b
  | .isSome _ => op.a.length == 3
  | .otherwise => true

/-- the row describing call `op` in state `s`: the first row of that name whose selectors hold (so that `otherwise`
is the `else` of the row before it) -/
def rowFor (s : FSt) (op : Op) : Option FeRow :=
  modelOps.find? (fun r => r.name == op.name && r.sel.all (selOne s op))

/-- the error of the first check that fires, in table order -/
def firstErr (cs : List FeCheck) (s : FSt) (op : Op) : Option Err :=
  match cs with
  | [] => none
  | c :: cs => if fires c.1 s op then some (errOf c.2) else firstErr cs s op

def awaitOf : ReplyKind → FeAwait
  | .noWait => .none | .ack => .ack | .body ty => .reply ty | .bodyOptFiles ty => .replyOptFiles ty
  | .bodyFiles ty => .replyFiles ty | .payload ty => .replyPayload ty

/-- the request body has the size of the row's body type (at least that size when a payload follows) -/
def bodyFits (b : FeBody) (bs : Bytes) : Bool :=
  match b with
  | .none => bs.isEmpty
  | .fixed ty => sizeOfTy ty == some bs.length
  | .withPayload ty => match sizeOfTy ty with
    | some n => decide (n ≤ bs.length)
    | none => false

def getField (f : String) (s : FSt) : Nat :=
  if f = "virtio_features" then s.virtio
  else if f = "acked_virtio_features" then s.acked
  else if f = "protocol_features" then s.proto
  else if f = "acked_protocol_features" then s.ackedProto
  else if f = "max_queue_num" then s.maxQ
  else 0

def setField (f : String) (v : Nat) (s : FSt) : FSt :=
  if f = "virtio_features" then { s with virtio := v }
  else if f = "acked_virtio_features" then { s with acked := v }
  else if f = "protocol_features" then { s with proto := v }
  else if f = "acked_protocol_features" then { s with ackedProto := v }
  else if f = "max_queue_num" then { s with maxQ := v }
  else s

/-- value of an update's right-hand side; the value argument of the two setters is the first argument; `reply` is the
value field of the reply -/
def srcVal (src : FeSrc) (s : FSt) (op : Op) (reply : Nat) : Nat :=
  match src with
  | .arg _ => arg op 0
  | .argAndField _ f => arg op 0 &&& getField f s
  | .replyField _ => reply
  | .const b => if b then 1 else 0

/-- the updates made between the send and the reply reader -/
def applyPre (us : List FeUpd) (s : FSt) (op : Op) : FSt :=
  us.foldl (fun s u => match u with
    | .assign f src false => setField f (srcVal src s op 0) s
    | _ => s) s

/-- the updates made after the reply reader returned a body whose value field is `v` -/
def applyPost (us : List FeUpd) (s : FSt) (op : Op) (v : Nat) : FSt :=
  us.foldl (fun s u => match u with
    | .assign f src true => setField f (srcVal src s op v) s
    | _ => s) s

/-- the errors the post-processing of a reply can raise -/
def postErrs (ps : List FePost) : List Err :=
  ps.filterMap (fun p => match p with
    | .err e | .takeSingle e | .errIf _ e | .takeSingleIf _ e => some (errOf e)
    | _ => none)

def Ret.isErr : Ret → Bool
  | .err _ => true
  | _ => false

/-! ## the selected row is a row of the table, of that name -/

theorem rowFor_mem {s : FSt} {op : Op} {row : FeRow} (h : rowFor s op = some row) :
    row ∈ modelOps ∧ row.name = op.name ∧ row.sel.all (selOne s op) = true := by
  unfold rowFor at h
  have hm := List.mem_of_find?_eq_some h
  have hp := List.find?_some h
  simp only [Bool.and_eq_true, beq_iff_eq] at hp
  exact ⟨hm, hp.1, hp.2⟩

/-! ## the memory table's four checks are the model's two tests -/

theorem any_or {α : Type} (l : List α) (p q : α → Bool) :
    (l.any fun x => p x || q x) = (l.any p || l.any q) := by
  induction l with
  | nil => rfl
  | cons x xs ih =>
    simp only [List.any_cons, ih]
    cases p x <;> cases q x <;> cases xs.any p <;> cases xs.any q <;> rfl

theorem firstErr_mem_table (s : FSt) (op : Op) :
    firstErr [(.empty "regions", "InvalidParam"), (.lenAbove "regions" 32, "InvalidParam"),
              (.anyZero "regions" "memory_size", "InvalidParam"), (.anyNegative "regions" "mmap_handle", "InvalidParam")] s op =
    if op.regions.isEmpty || decide (op.regions.length > 32) then some .invalidParam
    else if op.regions.any (fun r => r.2.1 == 0 || !r.2.2.2.2) then some .invalidParam else none := by
  have e : errOf "InvalidParam" = .invalidParam := by decide
  simp only [firstErr, fires, e, if_true, any_or]
  cases op.regions.isEmpty <;> cases decide (op.regions.length > 32) <;>
    cases (op.regions.any fun r => r.2.1 == 0) <;> cases (op.regions.any fun r => !r.2.2.2.2) <;> rfl

/-! ## sizes of the body types -/

theorem so_U64 : sizeOfTy "VhostUserU64" = some 8 := by decide
theorem so_VringState : sizeOfTy "VhostUserVringState" = some 8 := by decide
theorem so_VringAddr : sizeOfTy "VhostUserVringAddr" = some 40 := by decide
theorem so_Config : sizeOfTy "VhostUserConfig" = some 12 := by decide
theorem so_Memory : sizeOfTy "VhostUserMemory" = some 8 := by decide
theorem so_Single : sizeOfTy "VhostUserSingleMemoryRegion" = some 40 := by decide
theorem so_Inflight : sizeOfTy "VhostUserInflight" = some 24 := by decide
theorem so_Log : sizeOfTy "VhostUserLog" = some 16 := by decide
theorem so_Shared : sizeOfTy "VhostUserSharedMsg" = some 16 := by decide
theorem so_Transfer : sizeOfTy "VhostUserTransferDeviceState" = some 8 := by decide

/-! ## accepted calls -/

/-- what is claimed of an accepted call -/
def Accepted (row : FeRow) (s : FSt) (op : Op) (req : Req) (s' : FSt) : Prop :=
  firstErr row.checks s op = none ∧ req.code = row.code ∧ awaitOf req.kind = row.await ∧
  req.fds = (if row.fds then op.fds else []) ∧ bodyFits row.body req.body = true ∧ s' = applyPre row.updates s op

theorem request_ok_row (s : FSt) (op : Op) (req : Req) (s' : FSt) (hreq : request s op = .ok (req, s')) :
    ∃ row, rowFor s op = some row ∧ Accepted row s op req s' := by
  have hB := request_built s op req s' hreq
  unfold Accepted
  cases hB with
  | set_mem_table a pl fds bad regs h1 h32 =>
    simp only [request] at hreq
    repeat' split at hreq
    all_goals (try cases hreq)
    rename_i hA hB
    refine ⟨_, rfl, ?_, rfl, rfl, rfl, ?_, rfl⟩
    · simp only [firstErr_mem_table, hA, hB]; rfl
    · simp only [bodyFits, so_Memory, u32, List.length_append, leBytes_length, decide_eq_true_eq]; omega
  | set_log_base_plain base pl fds bad regs =>
    cases hreq
    cases hp : hasProto s 1
    all_goals (refine ⟨modelOps[6], ?_, rfl, rfl, rfl, rfl, ?_, rfl⟩)
    all_goals (first | (simp [rowFor, modelOps, selOne, hp]; done)
                     | (simp [modelOps, bodyFits, so_U64, u64]; done))
  | set_log_base_region base size off pl fds bad regs hp =>
    have hq : request s ⟨"set_log_base", [base, size, off], pl, fds, bad, regs⟩ =
        .ok (⟨6, u64 size ++ u64 off, fds, .body "VhostUserLog"⟩, s) := by
      simp only [request, hp, if_true]
    rw [hq] at hreq; cases hreq
    refine ⟨modelOps[5], ?_, rfl, rfl, rfl, rfl, ?_, rfl⟩
    · simp [rowFor, modelOps, selOne, hp]
    · simp [modelOps, bodyFits, so_Log, u64]
  | set_log_base_noshm base size off pl fds bad regs hp =>
    have hq : request s ⟨"set_log_base", [base, size, off], pl, fds, bad, regs⟩ = .ok (⟨6, u64 base, [], .noWait⟩, s) := by
      simp only [request, hp, Bool.false_eq_true, if_false]
    rw [hq] at hreq; cases hreq
    refine ⟨modelOps[6], ?_, rfl, rfl, rfl, rfl, ?_, rfl⟩
    · simp [rowFor, modelOps, selOne, hp]
    · simp [modelOps, bodyFits, so_U64, u64]
  | set_config off fl pl fds bad regs hv hmax =>
    simp only [request] at hreq
    repeat' split at hreq
    all_goals (try cases hreq)
    refine ⟨_, rfl, ?_, rfl, rfl, rfl, ?_, rfl⟩
    · simp_all [firstErr, fires, arg, errOf]
      repeat' split
      all_goals (first | rfl | omega)
    · simp [bodyFits, so_Config, u32]; omega
  | _ =>
    -- the standard arm: the row is found by evaluation, its facts by simplification with the conditions the
    -- accepting branch of `request` has passed
    simp only [request] at hreq
    repeat' split at hreq
    all_goals (try cases hreq)
    all_goals (refine ⟨_, rfl, ?_, rfl, rfl, rfl, ?_, rfl⟩)
    all_goals (first
      | rfl
      | (simp_all [firstErr, fires, arg, zeroIdx, errOf]; done)
      | (simp [bodyFits, so_U64, so_VringState, so_VringAddr, so_Config, so_Single, so_Inflight, so_Shared, so_Transfer,
          u64, u32, u16]; done)
      | (simp [bodyFits, so_Config, u32]; omega))

/-! ## refused calls -/

theorem request_error_row (s : FSt) (op : Op) (e : Err) (h : request s op = .error e) :
    e = .other ∨ ∃ row, rowFor s op = some row ∧ firstErr row.checks s op = some e := by
  obtain ⟨name, a, pl, fds, bad, regs⟩ := op
  unfold request at h
  split at h
  all_goals (dsimp only at *)
  all_goals (subst_vars)
  all_goals (repeat' split at h)
  all_goals (try cases h)
  all_goals (first | (left; rfl) | skip)
  all_goals (first | (refine Or.inr ⟨_, rfl, ?_⟩) | skip)
  all_goals (try (simp only [firstErr_mem_table]; simp_all; done))
  all_goals (try (simp_all [firstErr, fires, arg, zeroIdx, errOf]; done))
  all_goals (simp [firstErr, fires, arg, zeroIdx, errOf] at *)
  all_goals (repeat' split)
  all_goals (try rfl)
  all_goals (try omega)
  all_goals (try (simp_all; done))

/-! ## after the reply: `finish` -/

/-- the rows of that name -/
def rowsNamed (n : String) : List FeRow := modelOps.filter (fun r => r.name == n)

def FeUpd.isAfter : FeUpd → Bool
  | .assign _ _ a => a

theorem applyPost_none (us : List FeUpd) (s : FSt) (op : Op) (v : Nat) (h : us.any FeUpd.isAfter = false) :
    applyPost us s op v = s := by
  unfold applyPost
  induction us generalizing s with
  | nil => rfl
  | cons u us ih =>
    simp only [List.any_cons, Bool.or_eq_false_iff] at h
    cases u with
    | assign f src a =>
      simp only [FeUpd.isAfter] at h
      simp only [List.foldl_cons, h.1]
      exact ih s h.2

/-- only these three operations assign to the node after the reply, and only these raise errors of their own -/
theorem post_rows : ∀ row ∈ modelOps,
    (row.updates.any FeUpd.isAfter = true → row.name ∈ ["get_features", "get_protocol_features", "get_queue_num"]) := by
  decide +kernel

theorem finish_rows (s : FSt) (op : Op) (r : Reply) (row : FeRow) (hrow : row ∈ rowsNamed op.name) :
    (∀ e, (finish s op r).1 = .err e → e = .other ∨ e ∈ postErrs row.post) ∧
    (finish s op r).2 = (if Ret.isErr (finish s op r).1 then s else applyPost row.updates s op (leVal r.body)) := by
  obtain ⟨name, a, pl, fds, bad, regs⟩ := op
  unfold finish
  split
  all_goals (dsimp only at *)
  all_goals (try subst_vars)
  all_goals (try (simp [rowsNamed, modelOps] at hrow; subst hrow))
  all_goals (try (simp [postErrs, errOf, applyPost, setField, srcVal, Ret.isErr]; done))
  case h_13 =>
    have hm : row ∈ modelOps ∧ row.name = name := by
      simpa [rowsNamed, List.mem_filter] using hrow
    have hn : row.updates.any FeUpd.isAfter = false := by
      cases hu : row.updates.any FeUpd.isAfter with
      | false => rfl
      | true =>
        have := post_rows row hm.1 hu
        rw [hm.2] at this
        simp only [List.mem_cons, List.not_mem_nil, or_false] at this
        rcases this with h | h | h
        · exact absurd h ‹name = "get_features" → False›
        · exact absurd h ‹name = "get_protocol_features" → False›
        · exact absurd h ‹name = "get_queue_num" → False›
    refine ⟨fun e he => (by cases he), ?_⟩
    simp only [Ret.isErr, Bool.false_eq_true, if_false]
    exact (applyPost_none _ _ _ _ hn).symm
  all_goals (refine ⟨?_, ?_⟩)
  all_goals (repeat' split)
  all_goals (try (simp [postErrs, errOf, applyPost, setField, srcVal]; done))
  all_goals (rename_i h1 h2; simp [Ret.isErr] at h2)

/-! ## the reply readers: what `recv` refuses before anything is read -/

section recv
variable {σ : Type} (ch : Chooser σ) (cl : Bool) (s : FSt) (req : Req) (cst : σ) (str : List Cell)

/-- nothing of the stream is consumed and no descriptor is closed -/
def Untouched (o : RecvOut σ) (cst : σ) (str : List Cell) : Prop := o.rest = str ∧ o.cst = cst ∧ o.closed = []

theorem recv_noWait (hk : req.kind = .noWait) :
    (recv ch cl s req cst str).res = .ok ⟨reqHdr s req, [], [], none⟩ ∧ Untouched (recv ch cl s req cst str) cst str := by
  simp [recv, hk, Untouched]

theorem recv_ack_skipped (hk : req.kind = .ack)
    (h : bitSet s.ackedProto 3 = false ∨ (reqHdr s req).needReply = false) :
    (recv ch cl s req cst str).res = .ok ⟨reqHdr s req, u64 0, [], none⟩ ∧ Untouched (recv ch cl s req cst str) cst str := by
  have hc : (!bitSet s.ackedProto 3 || !(reqHdr s req).needReply) = true := by
    rcases h with h | h <;> simp [h]
  simp [recv, hk, hc, Untouched]

theorem recv_reply_header_refused (ty : String)
    (hk : req.kind = .body ty ∨ req.kind = .bodyOptFiles ty ∨ req.kind = .bodyFiles ty)
    (h : (reqHdr s req).isReply = true) :
    (recv ch cl s req cst str).res = .err .invalidParam ∧ Untouched (recv ch cl s req cst str) cst str := by
  rcases hk with hk | hk | hk <;> simp [recv, hk, h, Untouched]

theorem recv_payload_refused (ty : String) (n : Nat) (hk : req.kind = .payload ty) (hn : sizeOfTy ty = some n)
    (h : (reqHdr s req).size ≤ n ∨ (reqHdr s req).size > 0x1000 ∨ (reqHdr s req).isReply = true) :
    (recv ch cl s req cst str).res = .err .invalidParam ∧ Untouched (recv ch cl s req cst str) cst str := by
  have hc : (decide ((reqHdr s req).size ≤ n) || decide ((reqHdr s req).size > 0x1000) || (reqHdr s req).isReply) = true := by
    rcases h with h | h | h <;> simp [h]
  simp only [recv, hk, hn, hc, if_true, Untouched, and_self]

end recv

end Lemmas.FrontendTable
