import VhostModel.Base.ArithSig
import VhostModel.Lemmas.BitmapC15
import VhostModel.Lemmas.Routing
/-! helper lemmas for `Props.{BitmapOps,RoutingOps,MemOps}`: the vocabulary of `Base/ArithSig.lean` against the
operators the hand-written models use -/
namespace Lemmas.ArithOps
open ArithSig

/-! ## bitmap -/

theorem checkedAdd_model (a b : Nat) : Model.Bitmap.checkedAdd a b = ArithSig.checkedAdd 64 a b := by
  unfold Model.Bitmap.checkedAdd ArithSig.checkedAdd Model.Bitmap.usizeMax
  by_cases h : a + b ≤ 2 ^ 64 - 1
  · have h' : a + b < 2 ^ 64 := by omega
    simp [h, h']
  · have h' : ¬ a + b < 2 ^ 64 := by omega
    simp [h, h']

theorem satAdd_model (a b : Nat) : Model.Bitmap.satAdd a b = ArithSig.satAdd 64 a b := by
  unfold Model.Bitmap.satAdd ArithSig.satAdd Model.Bitmap.usizeMax
  by_cases h : a + b ≤ 2 ^ 64 - 1
  · have h' : a + b < 2 ^ 64 := by omega
    simp [h, h']
  · have h' : ¬ a + b < 2 ^ 64 := by omega
    simp [h, h']

theorem shl_one (bits k : Nat) : shl bits 1 k = 2 ^ k % 2 ^ bits := by
  unfold shl; rw [Nat.one_shiftLeft]

/-- `1 << k` as `u8` is the model's mask -/
theorem bitMask_eq (k : Nat) : Model.Bitmap.bitMask k = UInt8.ofNat (shl 8 1 k) := by
  apply UInt8.toNat_inj.1
  unfold Model.Bitmap.bitMask
  rw [UInt8.toNat_ofNat', UInt8.toNat_ofNat', shl_one, Nat.mod_mod]

theorem bitMask_toNat (k : Nat) : (Model.Bitmap.bitMask k).toNat = shl 8 1 k := by
  unfold Model.Bitmap.bitMask
  rw [UInt8.toNat_ofNat', shl_one]

/-- the model's loop is "range, cut at the first page outside the region, one step per page" -/
theorem markLoop_eq_takeWhile (bm : Model.Bitmap.AtomicBitmapMmap) (k p : Nat) :
    Model.Bitmap.markLoop bm k p =
      ((List.range' p k).takeWhile (fun q => decide (q < bm.numberOfPages))).map
        (fun q => Lemmas.Bitmap.stepOf (bm.pagesBeforeRegion + q)) := by
  induction k generalizing p with
  | zero => simp [Model.Bitmap.markLoop]
  | succ k ih =>
    unfold Model.Bitmap.markLoop
    rw [List.range'_succ, List.takeWhile_cons]
    by_cases h : p ≥ bm.numberOfPages
    · have h' : ¬ p < bm.numberOfPages := by omega
      simp [h, h']
    · have h' : p < bm.numberOfPages := by omega
      simp only [h, if_false, h', decide_true, if_true, List.map_cons, ih]
      rfl

theorem takeWhile_all {α : Type} (p q : α → Bool) (l : List α) (h : ∀ a ∈ l, p a = true → q a = true) :
    (l.takeWhile p).all q = true := by
  induction l with
  | nil => rfl
  | cons a t ih =>
    rw [List.takeWhile_cons]
    cases hp : p a
    · rfl
    · simp only [if_true, List.all_cons, Bool.and_eq_true]
      exact ⟨h a (by simp) hp, ih (fun b hb => h b (by simp [hb]))⟩

theorem and_shl_one_ne_zero (b k : Nat) (hk : k < 8) : ((b &&& shl 8 1 k) != 0) = b.testBit k := by
  rw [shl_one, Nat.mod_eq_of_lt (Nat.pow_lt_pow_right (by omega) hk)]
  cases hb : b.testBit k
  · have : b &&& 2 ^ k = 0 := by
      apply Nat.eq_of_testBit_eq; intro j
      simp [Nat.testBit_and, Nat.testBit_two_pow]; intro hx e; subst e; simp_all
    simp [this]
  · have : b &&& 2 ^ k ≠ 0 := by
      intro h
      have := congrArg (fun v => v.testBit k) h
      simp [Nat.testBit_and, hb] at this
    simpa using this

/-! ## routing -/

theorem countOnes_eq_popcount (m : Model.Routing.U64) : countOnes 64 m.toNat = Model.Routing.popcount m := by
  unfold countOnes Model.Routing.popcount
  rw [Lemmas.Routing.popcountGo_eq_countP]

theorem and_one_beq_one (x : Nat) : ((x &&& 1) == 1) = x.testBit 0 := by
  rw [Nat.and_one_is_mod, Nat.testBit_zero]
  have : x % 2 = 0 ∨ x % 2 = 1 := by omega
  rcases this with h | h <;> simp [h]

/-- `(mask >> index) & 1 == 1` on naturals is the bit test -/
theorem shift_and_one (m q : Nat) : (((m >>> q) &&& 1) == 1) = m.testBit q := by
  rw [and_one_beq_one, Nat.testBit_shiftRight]; simp

/-- the model's event index on naturals -/
theorem evtIdx_toNat (m : Model.Routing.U64) (q : Nat) :
    Model.Routing.evtIdx m q = countOnes 64 m.toNat - countOnes 64 (m.toNat >>> q) := by
  unfold Model.Routing.evtIdx
  rw [countOnes_eq_popcount, ← BitVec.toNat_ushiftRight, countOnes_eq_popcount]

/-- the `u32` subtraction of the two population counts cannot underflow -/
theorem countOnes_shift_le (x q : Nat) (hx : x < 2 ^ 64) (hq : q ≤ 64) : countOnes 64 (x >>> q) ≤ countOnes 64 x := by
  unfold countOnes
  rw [← Lemmas.Routing.popcountGo_eq_countP, ← Lemmas.Routing.popcountGo_eq_countP,
    Lemmas.Routing.popcount_split 64 x q hx hq]
  omega

end Lemmas.ArithOps
