import VhostModel.Lemmas.Encode
import VhostModel.Props.C08
/-!
# From the bytes of one `sendmsg` to `dispatch`

`segCells (header ++ body) fds` fed to `Model.BackendSrv.step` — for every chooser — is `dispatch` on the header
fields, the body and the descriptors (through `Props.C08.step_framed`).
-/
namespace Lemmas.Wire
open Base Model.Stream Model.Msgs Model.BackendSrv Lemmas.Encode

/-! ## `segCells` -/

theorem segCells_map_b (bs : Bytes) (fds : List Fd) : (segCells bs fds).map (·.b) = bs := by
  cases bs with
  | nil => rfl
  | cons b bs => simp [segCells, List.map_map, Function.comp_def]

theorem segCells_length (bs : Bytes) (fds : List Fd) : (segCells bs fds).length = bs.length := by
  cases bs with
  | nil => rfl
  | cons b bs => simp [segCells]

theorem segCells_tail (bs : Bytes) (fds : List Fd) : ∀ c ∈ (segCells bs fds).tail, c.fds = [] := by
  cases bs with
  | nil => intro c hc; simp [segCells] at hc
  | cons b bs =>
    intro c hc
    simp only [segCells, List.tail_cons, List.mem_map] at hc
    obtain ⟨x, _, rfl⟩ := hc
    rfl

theorem segCells_head (bs : Bytes) (fds : List Fd) (h : bs ≠ []) :
    ((segCells bs fds).head?.map (·.fds)).getD [] = fds := by
  cases bs with
  | nil => exact absurd rfl h
  | cons b bs => rfl

theorem map_b_take (s : List Cell) (n : Nat) : (s.take n).map (·.b) = (s.map (·.b)).take n := by
  rw [List.map_take]

theorem map_b_drop (s : List Cell) (n : Nat) : (s.drop n).map (·.b) = (s.map (·.b)).drop n := by
  rw [List.map_drop]

/-! ## header validity -/

def codes : List Nat := Gen.Codes.FrontendReq.table.map (·.2)

theorem decHeader_enc (code flags size : Nat) (hc : code < 2^32) (hf : flags < 2^32) (hs : size < 2^32) :
    decHeader (encHdr code flags size) = some ⟨bv 32 code, bv 32 flags, bv 32 size⟩ := by
  have f1 := getField_enc (s := "VhostUserMsgHeader") (p := ["request"]) (off := 0) (w := 4) (by decide) []
    (leBytes 4 flags ++ leBytes 4 size) code rfl (by omega)
  have f2 := getField_enc (s := "VhostUserMsgHeader") (p := ["flags"]) (off := 4) (w := 4) (by decide) (leBytes 4 code)
    (leBytes 4 size) flags (by simp) (by omega)
  have f3 := getField_enc (s := "VhostUserMsgHeader") (p := ["size"]) (off := 8) (w := 4) (by decide)
    (leBytes 4 code ++ leBytes 4 flags) [] size (by simp) (by omega)
  simp only [List.nil_append, List.append_nil, List.append_assoc] at f1 f2 f3
  have hl : (encHdr code flags size).length = 12 := by simp [encHdr]
  simp only [decHeader, sz_Header, encHdr, List.append_assoc] at hl ⊢
  simp [hl, f1, f2, f3]

theorem hdr_isValid (code flags size : Nat) (hc : codeOkN codes code = true) (hc32 : code < 2^32)
    (hf : flags = 1 ∨ flags = 9) (hs : size ≤ 0x1000) :
    Gen.VhostUserMsgHeader.isValid codes ⟨bv 32 code, bv 32 flags, bv 32 size⟩ = true := by
  have e1 : (bv 32 code).toNat = code := by simp [bv]; omega
  have e2 : decide ((0x1000#64) < BitVec.setWidth 64 (bv 32 size)) = false := by
    simp [bv, BitVec.lt_def]; omega
  have e3 : ((bv 32 flags &&& 0x3#32) != 0x1#32) = false ∧ ((bv 32 flags &&& 0xfffffff0#32) != 0x0#32) = false := by
    rcases hf with rfl | rfl <;> decide
  simp only [Gen.VhostUserMsgHeader.isValid, e1, hc, e2, e3.1, e3.2, Bool.not_true, Bool.false_eq_true, if_false]

/-! ## one message, any segmentation -/

/-- for every chooser, a server turn on the cells of one message — a valid header announcing `|body|`, the body, the
descriptors on the first byte — is `dispatch` on exactly those, and consumes the whole message -/
theorem step_segCells {σ : Type} (ch : Chooser σ) (cl : Bool) (st : BSt) (cst : σ) (h : HOut)
    (code flags : Nat) (body : Bytes) (fds : List Fd)
    (hc : codeOkN codes code = true) (hc32 : code < 2^32) (hf : flags = 1 ∨ flags = 9) (hs : body.length ≤ 0x1000)
    (hfd : fds.length ≤ 32) (hfc : fds.isEmpty = false → fdCodes.contains code = true) :
    let r := step ch cl st cst (segCells (encHdr code flags body.length ++ body) fds) h
    let d := dispatch st ⟨code, flags, body.length⟩ body (if fds.isEmpty then none else some fds) h
    r.o.calls = d.calls ∧ r.o.st = d.st ∧ r.o.out = d.out ∧ r.o.res = d.res ∧ r.rest = [] := by
  intro r d
  have hf32 : flags < 2^32 := by rcases hf with rfl | rfl <;> omega
  have hw : (encHdr code flags body.length ++ body).length = 12 + body.length := by simp [encHdr]; omega
  have hne : encHdr code flags body.length ++ body ≠ [] := by
    intro e; have := congrArg List.length e; rw [hw] at this; simp at this
  have hhb : ((segCells (encHdr code flags body.length ++ body) fds).take 12).map (·.b) = encHdr code flags body.length := by
    rw [map_b_take, segCells_map_b]; exact take_append_len _ _ 12 (by simp [encHdr])
  obtain ⟨d1, d2, d3⟩ := dec_Header code flags body.length hc32 hf32 (by omega) []
  simp only [List.append_nil] at d1 d2 d3
  have hsf := Props.C08.step_framed ch cl st cst (segCells (encHdr code flags body.length ++ body) fds) h
    (by rw [segCells_length, hw]; omega) (segCells_tail _ _) (by rw [segCells_head _ _ hne]; exact hfd)
    (by rw [hhb, d3, segCells_length, hw]; omega)
  have hbody : (((segCells (encHdr code flags body.length ++ body) fds).drop 12).take body.length).map (·.b) = body := by
    rw [map_b_take, map_b_drop, segCells_map_b, drop_append_len _ _ 12 (by simp [encHdr])]
    simp
  have hrest : ((segCells (encHdr code flags body.length ++ body) fds).drop 12).drop body.length = [] := by
    apply List.eq_nil_of_length_eq_zero
    simp [segCells_length, hw]
  have hv : (decHeader (encHdr code flags body.length)).map (·.isValid (Gen.Codes.FrontendReq.table.map (·.2))) = some true := by
    rw [decHeader_enc code flags body.length hc32 hf32 (by omega)]
    exact congrArg some (hdr_isValid code flags body.length hc hc32 hf hs)
  have hfiles : ((if fds.isEmpty then (none : Option (List Fd)) else some fds).isSome && !fdCodes.contains code) = false := by
    cases he : fds.isEmpty with
    | true => simp
    | false =>
      have hh := hfc he
      simp only [Bool.false_eq_true, if_false, Option.isSome_some, hh, Bool.not_true, Bool.and_false]
  have key : Props.C08.framedOut st (segCells (encHdr code flags body.length ++ body) fds) h =
      ({ d with closed := [] ++ d.closed }, []) := by
    unfold Props.C08.framedOut
    simp only [hhb, segCells_head _ _ hne, d1, d2, d3, hv, hfiles, Bool.false_eq_true, if_false, hbody, hrest]
    by_cases h0 : body.length = 0
    · have hb0 : body = [] := List.eq_nil_of_length_eq_zero h0
      subst hb0
      simp [d, segCells_length, encHdr]
    · have : (body.length == 0) = false := by simpa using h0
      simp only [this, Bool.false_eq_true, if_false]
      rfl
  obtain ⟨s1, s2⟩ := hsf
  rw [key] at s1 s2
  simp only at s1 s2
  have s1' : r.o = { d with closed := [] ++ d.closed } := s1
  refine ⟨?_, ?_, ?_, ?_, s2⟩ <;> rw [s1']

end Lemmas.Wire
