import VhostModel.Lemmas.Acts
/-!
# Validity of the handler invocations of the actions that validate their (variable-size) body themselves:
GET/SET_CONFIG, SET_MEM_TABLE, SET_BACKEND_REQ_FD, SET_GPU_SOCKET.  No hypothesis about the guards is needed.
-/
namespace Lemmas.Acts
open Base Model.Stream Model.Msgs Model.BackendSrv Lemmas.Decode
open Spec.Proto (validCall chunks4 validRegionT)


theorem getConfig_valid (st : BSt) (c : Ctx) (h : HOut) : CallsValid (runAct st c h .getConfig) := by
  intro cl hcl
  have hs : structSize "VhostUserConfig" = some 12 := by decide
  simp only [runAct, hs] at hcl
  split at hcl
  · simp at hcl
  rename_i hlen
  split at hcl
  · rename_i hb
    have hl : 12 ≤ c.buf.length := by simp at hlen; omega
    have hv := body_config_take hl hb
    split at hcl
    · simp at hcl
    split at hcl <;> simp only [List.mem_singleton] at hcl <;> subst hcl <;> simp [validCall, hv]
  · simp at hcl

theorem setConfig_valid (st : BSt) (c : Ctx) (h : HOut) : CallsValid (runAct st c h .setConfig) := by
  intro cl hcl
  have hs : structSize "VhostUserConfig" = some 12 := by decide
  simp only [runAct, hs] at hcl
  split at hcl
  · simp at hcl
  rename_i hlen
  split at hcl
  · rename_i hb
    have hl : 12 ≤ c.buf.length := by simp at hlen; omega
    have hv := body_config_take hl hb
    split at hcl
    · simp at hcl
    rename_i hsz
    simp only [List.mem_singleton] at hcl
    subst hcl
    have : c.buf.length - 12 = g c.buf "VhostUserConfig" ["size"] := by simpa using hsz
    simp [validCall, this, hv]
  · simp at hcl

theorem backendReqFd_valid (st : BSt) (c : Ctx) (h : HOut) : CallsValid (runAct st c h .backendReqFd) := by
  intro cl hcl
  simp only [runAct] at hcl
  split at hcl
  · simp only [List.mem_singleton] at hcl; subst hcl; simp [validCall]
  · simp at hcl

theorem gpuSocket_valid (st : BSt) (c : Ctx) (h : HOut) : CallsValid (runAct st c h .gpuSocket) := by
  intro cl hcl
  simp only [runAct] at hcl
  split at hcl
  · simp only [List.mem_singleton] at hcl; subst hcl; simp [validCall]
  · simp at hcl


theorem regionsOf_length (buf : Bytes) : ∀ n off, (regionsOf buf n off).length = n := by
  intro n; induction n with
  | zero => intro off; rfl
  | succ n ih => intro off; simp [regionsOf, ih]

theorem chunks4_flatMap {α : Type} (f : α → Nat × Nat × Nat × Nat) (l : List α) :
    chunks4 (l.flatMap fun r => [(f r).1, (f r).2.1, (f r).2.2.1, (f r).2.2.2]) = l.map f := by
  induction l with
  | nil => rfl
  | cons a l ih => simp only [List.flatMap_cons, List.cons_append, List.nil_append, chunks4, ih, List.map_cons]

theorem flatMap4_length {α : Type} (f : α → List Nat) (hf : ∀ a, (f a).length = 4) (l : List α) :
    (l.flatMap f).length = 4 * l.length := by
  induction l with
  | nil => rfl
  | cons a l ih => simp [List.flatMap_cons, ih, hf]; omega

def regTuple (r : Bytes) : Nat × Nat × Nat × Nat :=
  (g r "VhostUserMemoryRegion" ["guest_phys_addr"], g r "VhostUserMemoryRegion" ["memory_size"],
   g r "VhostUserMemoryRegion" ["user_addr"], g r "VhostUserMemoryRegion" ["mmap_offset"])

theorem memTable_valid (st : BSt) (c : Ctx) (h : HOut) : CallsValid (runAct st c h .memTable) := by
  intro cl hcl
  have hs1 : structSize "VhostUserMemory" = some 8 := by decide
  have hs2 : structSize "VhostUserMemoryRegion" = some 32 := by decide
  simp only [runAct, hs1, hs2] at hcl
  split at hcl
  · simp at hcl
  split at hcl
  · simp at hcl
  rename_i hlen
  split at hcl
  · rename_i hb
    have hl : 8 ≤ c.buf.length := by omega
    have hv := body_memory_take hl hb
    split at hcl
    · simp at hcl
    split at hcl
    · simp at hcl
    rename_i fs hfs
    split at hcl
    · simp at hcl
    rename_i hn
    split at hcl
    · rename_i hall
      simp only [List.mem_singleton] at hcl
      subst hcl
      have hn' : fs.length = g c.buf "VhostUserMemory" ["num_regions"] := by simpa using hn
      have e := chunks4_flatMap regTuple (regionsOf c.buf (g c.buf "VhostUserMemory" ["num_regions"]) 8)
      simp only [regTuple] at e
      simp only [validCall, e, List.length_map, regionsOf_length]
      have hlen4 := flatMap4_length (fun r : Bytes =>
          [g r "VhostUserMemoryRegion" ["guest_phys_addr"], g r "VhostUserMemoryRegion" ["memory_size"],
            g r "VhostUserMemoryRegion" ["user_addr"], g r "VhostUserMemoryRegion" ["mmap_offset"]]) (fun _ => rfl)
          (regionsOf c.buf (g c.buf "VhostUserMemory" ["num_regions"]) 8)
      rw [regionsOf_length] at hlen4
      have hallv : (List.map regTuple (regionsOf c.buf (g c.buf "VhostUserMemory" ["num_regions"]) 8)).all
          validRegionT = true := by
        simp only [List.all_map, List.all_eq_true] at hall ⊢
        intro r hr
        have := (body_region (by simpa using hall r hr)).2
        simp only [Function.comp, validRegionT, regTuple]
        exact decide_eq_true this
      obtain ⟨_, h1, h32⟩ := hv
      simp [hlen4, h1, h32, hallv, hn']
    · simp at hcl
  · simp at hcl

end Lemmas.Acts
