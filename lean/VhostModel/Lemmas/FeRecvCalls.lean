import VhostModel.Lemmas.FeRecvBase

set_option linter.unusedSimpArgs false
set_option linter.unusedVariables false
/-!
# The calls the reply readers make, each as one step

* `callFe_checkState`: `self.check_state()?` with `error = None` (and `check_state_error` for `Some(e)`);
* `callConn_recvBody`: `self.main_sock.recv_body::<T>()` — by `Lemmas.ConnFrameRecv.recv_body_exec` the outcome is a function
  of `Model.Stream.recvAll` over `12 + size_of::<T>()` bytes;
* `callConn_recvData`: `self.main_sock.recv_data(len)` — by `Lemmas.ConnData.recv_data_exec`, of `Model.Stream.recvData`;
  `recv_data` never touches a descriptor variable (`recv_data_keepsF`), so a call blocked inside it holds no descriptor.
-/
namespace Lemmas.FeRecv
open Imp ImpFe
open Model.Stream (Cell Chooser recvAll recvData RecvAll RecvData)
open Model.Frontend (parseHdr hdrValid sizeOfTy bodyValidTy)
open Lemmas.ConnRecv (optOf)

/-! ## `recv_data` keeps the descriptor variables of its activation -/

theorem loop_f {σ : Type} (cond : Frame → World σ → Option Bool) (body : Frame → World σ → Res σ)
    (hb : ∀ fr w, (body fr w).2.1.f = fr.f) : ∀ k fr w, (loop cond body k fr w).2.1.f = fr.f := by
  intro k
  induction k with
  | zero => intro fr w; rfl
  | succ k ih =>
    intro fr w
    simp only [loop]
    cases hc : cond fr w with
    | none => rfl
    | some b =>
      cases b with
      | false => rfl
      | true =>
        have := hb fr w
        rcases hx : body fr w with ⟨c, fr', w'⟩
        rw [hx] at this
        cases c <;> simp only [] <;> first | exact this | (rw [ih]; exact this)

/-- the statement never changes the descriptor variables of its activation -/
def KeepsF (s : Stmt) : Prop :=
  ∀ {σ : Type} (env : Env σ) (F : Nat) (fr : Frame) (w : World σ), (Imp.exec env s F fr w).2.1.f = fr.f

theorem keepsF_skip : KeepsF .skip := fun _ _ _ _ => rfl
theorem keepsF_brk : KeepsF .brk := fun _ _ _ _ => rfl
theorem keepsF_retErr (e) : KeepsF (.retErr e) := fun _ _ _ _ => rfl
theorem keepsF_seq {a b : Stmt} (ha : KeepsF a) (hb : KeepsF b) : KeepsF (.seq a b) := by
  intro σ env F fr w
  have h1 := ha env F fr w
  rw [Imp.exec_seq]
  rcases hx : Imp.exec env a F fr w with ⟨c, fr', w'⟩
  rw [hx] at h1
  cases c <;> simp only [] <;> first | exact h1 | (rw [hb]; exact h1)
theorem keepsF_assign (v e) : KeepsF (.assign v e) := by
  intro σ env F fr w; rw [Imp.exec_assign]; split <;> rfl
theorem keepsF_assignIo (v e) : KeepsF (.assignIo v e) := by
  intro σ env F fr w; rw [Imp.exec_assignIo]; split <;> rfl
theorem keepsF_allocIo (v ps) : KeepsF (.allocIo v ps) := by
  intro σ env F fr w; rw [Imp.exec_allocIo]; split <;> rfl
theorem keepsF_callRecv (io cap res) : KeepsF (.callRecv io cap res) := by
  intro σ env F fr w; rw [Imp.exec_callRecv]; split
  · rfl
  · split <;> rfl
theorem keepsF_ite (c) {t e : Stmt} (ht : KeepsF t) (he : KeepsF e) : KeepsF (.ite c t e) := by
  intro σ env F fr w; rw [Imp.exec_ite]; split
  · exact ht env F fr w
  · exact he env F fr w
  · rfl
theorem keepsF_matchResult (res okN) {okS errS : Stmt} (h1 : KeepsF okS) (h2 : KeepsF errS) :
    KeepsF (.matchResult res okN none okS errS) := by
  intro σ env F fr w; rw [Imp.exec_matchResult]; split
  · rw [h1]
  · exact h2 env F fr w
theorem keepsF_while (c) {body : Stmt} (hb : KeepsF body) : KeepsF (.while c body) := by
  intro σ env F fr w; rw [Imp.exec_while]; exact loop_f _ _ (fun fr w => hb env F fr w) F fr w
theorem keepsF_ret (nats bufs) : KeepsF (.ret nats .none bufs) := by
  intro σ env F fr w; rw [Imp.exec_ret]; split <;> rfl

theorem recv_data_keepsF : KeepsF Gen.ConnLoops.RecvData.fnBody := by
  unfold Gen.ConnLoops.RecvData.fnBody Gen.ConnLoops.RecvData.whileBody
  repeat' first
    | apply keepsF_seq | apply keepsF_assign | apply keepsF_assignIo | apply keepsF_allocIo | apply keepsF_callRecv
    | apply keepsF_ite | apply keepsF_matchResult | apply keepsF_while | apply keepsF_ret | apply keepsF_skip
    | apply keepsF_brk | apply keepsF_retErr

/-! ## `check_state` -/

theorem callFe_checkState {σ : Type} (env : FEnv σ) (nm : String) (res : Var) (F : Nat) (fr : FFrame) (sf : Self) (w : World σ)
    (he : sf.error = none) :
    ImpFe.exec env (.callFe nm Gen.FeRecv.CheckState.fnBody [] [] [] res) F fr sf w =
      (.normal, { fr with r := upd fr.r res.id (.ok {}) }, sf, w) := by
  simp [exec_callFe, argsN, argsB, argsF, movedF, Gen.FeRecv.CheckState.fnBody, exec_matchSelfError, he, evalXs, evalFd]

/-- `check_state` itself: `Err(SocketBroken(from_raw_os_error(e)))` iff `self.error` is `Some(e)` -/
theorem check_state_spec {σ : Type} (env : FEnv σ) (F : Nat) (fr : FFrame) (sf : Self) (w : World σ) :
    (ImpFe.exec env Gen.FeRecv.checkState F fr sf w).1 =
      (match sf.error with
       | none => .done (.ok {})
       | some e => .done (.err (.conn (.sock .broken e)))) ∧
    (ImpFe.exec env Gen.FeRecv.checkState F fr sf w).2.2 = (sf, w) := by
  cases he : sf.error <;>
    simp [Gen.FeRecv.checkState, Gen.FeRecv.CheckState.fnBody, exec_matchSelfError, he, evalXs, evalFd, ImpFe.evalErr, evalX]

/-! ## `recv_body::<T>` -/

theorem callConn_recvBody {σ : Type} (ch : Chooser σ) (cl : Bool) (T : String) (n : Nat) (hn : sizeOfTy T = some n)
    (nm : String) (res : Var) (F : Nat) (fr : FFrame) (sf : Self) (w : World σ) (hF : w.stream.length + 1 ≤ F)
    (out : FRes σ) (hout : ImpFe.exec (stdEnv ch cl) (.callConn nm T Gen.ConnLoops.RecvBody.fnBody [] res) F fr sf w = out)
    (R : RecvAll σ) (hR : recvAll ch 32 cl (12 + n) w.cst w.stream true = R) :
    out.2.2.2.stream = R.rest ∧ out.2.2.2.cst = R.st ∧ out.2.2.1 = sf ∧
    (if R.outcome = .blocked then
      (∃ inner, out.1 = .stuck .blocked inner ∧ inner.f 0 = optOf R.fds) ∧ out.2.2.2.closed = w.closed ++ R.closed
    else if R.bytes.length ≠ 12 + n then
      out.1 = .normal ∧ out.2.1 = { fr with r := upd fr.r res.id (.err (.conn .partialMessage)) } ∧
      out.2.2.2.closed = w.closed ++ R.closed ++ R.fds
    else if (!hdrValid (R.bytes.take 12) || !(bodyValidTy T (R.bytes.drop 12) == some true)) = true then
      out.1 = .normal ∧ out.2.1 = { fr with r := upd fr.r res.id (.err (.conn .invalidMessage)) } ∧
      out.2.2.2.closed = w.closed ++ R.closed ++ R.fds
    else
      out.1 = .normal ∧
      out.2.1 = { fr with r := upd fr.r res.id (.ok { fds := optOf R.fds, bufs := [R.bytes.take 12, R.bytes.drop 12] }) } ∧
      out.2.2.2.closed = w.closed ++ R.closed) := by
  have h := Lemmas.ConnFrameRecv.recv_body_exec ((stdEnv ch cl).conn T) F { n := fun _ => 0 } w (std_classify ch cl T) hF
  have hs : ((stdEnv ch cl).conn T).sizeH + ((stdEnv ch cl).conn T).sizeT = 12 + n := by
    show 12 + (sizeOfTy T).getD 0 = 12 + n
    rw [hn]; rfl
  have hout' : out = (match Imp.exec ((stdEnv ch cl).conn T) Gen.ConnLoops.RecvBody.fnBody F { n := fun _ => 0 } w with
      | (.done rv, _, w') => (.normal, { fr with r := upd fr.r res.id (liftR rv) }, sf, w')
      | (.stuck s, fr', w') => (.stuck s fr', fr, sf, w')
      | (_, _, w') => (.stuck .fault {}, fr, sf, w')) := by
    rw [← hout]; rfl
  unfold Lemmas.ConnFrameRecv.BodySpec at h
  rw [hs] at h
  have hR' : recvAll ((stdEnv ch cl).conn T).ch 32 ((stdEnv ch cl).conn T).isClosed (12 + n) w.cst w.stream true = R := hR
  rw [hR'] at h
  have e1 : ((stdEnv ch cl).conn T).sizeH = 12 := rfl
  have e2 : ((stdEnv ch cl).conn T).validH = hdrValid := rfl
  have e3 : ((stdEnv ch cl).conn T).validT = fun b => bodyValidTy T b == some true := rfl
  rw [e1, e2, e3] at h
  rcases hx : Imp.exec ((stdEnv ch cl).conn T) Gen.ConnLoops.RecvBody.fnBody F { n := fun _ => 0 } w with ⟨c, fr', w'⟩
  rw [hx] at h hout'
  obtain ⟨t1, t2, t3⟩ := h
  simp only at t1 t2 t3
  by_cases hb : R.outcome = .blocked
  · rw [if_pos hb] at t3 ⊢
    obtain ⟨u1, u2, u3⟩ := t3
    subst u1
    simp only at hout'
    rw [hout']
    exact ⟨t1, t2, rfl, ⟨fr', rfl, u3⟩, u2⟩
  · rw [if_neg hb] at t3 ⊢
    by_cases h1 : R.bytes.length ≠ 12 + n
    · rw [if_pos h1] at t3 ⊢
      obtain ⟨u1, u2⟩ := t3
      subst u1
      simp only at hout'
      rw [hout']
      exact ⟨t1, t2, rfl, rfl, rfl, u2⟩
    · rw [if_neg h1] at t3 ⊢
      by_cases h2 : (!hdrValid (R.bytes.take 12) || !(bodyValidTy T (R.bytes.drop 12) == some true)) = true
      · rw [if_pos h2] at t3 ⊢
        obtain ⟨u1, u2⟩ := t3
        subst u1
        simp only at hout'
        rw [hout']
        exact ⟨t1, t2, rfl, rfl, rfl, u2⟩
      · rw [if_neg h2] at t3 ⊢
        obtain ⟨u1, u2⟩ := t3
        subst u1
        simp only at hout'
        rw [hout']
        exact ⟨t1, t2, rfl, rfl, rfl, u2⟩

/-! ## `recv_data(len)` -/

theorem callConn_recvData {σ : Type} (ch : Chooser σ) (cl : Bool) (nm T : String) (e : FExp) (res : Var) (len : Nat)
    (F : Nat) (fr : FFrame) (sf : Self) (w : World σ) (he : evalX (stdEnv ch cl) fr sf e = some len)
    (hF : w.stream.length + 1 ≤ F)
    (out : FRes σ)
    (hout : ImpFe.exec (stdEnv ch cl) (.callConn nm T Gen.ConnLoops.RecvData.fnBody [(Gen.ConnLoops.RecvData.len, e)] res) F fr sf w = out)
    (D : RecvData σ) (hD : recvData ch cl len w.cst w.stream = D) :
    out.2.2.2.stream = D.rest ∧ out.2.2.2.cst = D.st ∧ out.2.2.1 = sf ∧ out.2.2.2.closed = w.closed ++ D.lost ∧
    (match D.outcome with
     | .blocked => ∃ inner, out.1 = .stuck .blocked inner ∧ inner.f 0 = none
     | .enobufs => out.1 = .normal ∧ out.2.1 = { fr with r := upd fr.r res.id (.err (.conn (.sock .retry ENOBUFS))) }
     | .full => out.1 = .normal ∧ D.bytes.length = len ∧
         out.2.1 = { fr with r := upd fr.r res.id (.ok { nats := [len], bufs := [D.bytes] }) }
     | .short => out.1 = .normal ∧ D.bytes.length < len ∧
         ∃ buf, out.2.1 = { fr with r := upd fr.r res.id (.ok { nats := [D.bytes.length], bufs := [buf] }) }) := by
  have h := Lemmas.ConnData.recv_data_exec ((stdEnv ch cl).conn T) F { n := upd (fun _ => 0) 0 len } w (std_classify ch cl T) hF
  have hf := recv_data_keepsF ((stdEnv ch cl).conn T) F { n := upd (fun _ => 0) 0 len } w
  have hol := Lemmas.ConnData.recvData_outcome_len ch cl len w.cst w.stream
  have hout' : out = (match Imp.exec ((stdEnv ch cl).conn T) Gen.ConnLoops.RecvData.fnBody F { n := upd (fun _ => 0) 0 len } w with
      | (.done rv, _, w') => (.normal, { fr with r := upd fr.r res.id (liftR rv) }, sf, w')
      | (.stuck s, fr', w') => (.stuck s fr', fr, sf, w')
      | (_, _, w') => (.stuck .fault {}, fr, sf, w')) := by
    rw [← hout]
    simp only [exec_callConn, argsN, he]
    rfl
  simp only [upd_apply, reduceIte] at h
  have hD' : recvData ((stdEnv ch cl).conn T).ch ((stdEnv ch cl).conn T).isClosed len w.cst w.stream = D := hD
  rw [hD'] at h
  rw [hD] at hol
  rcases hx : Imp.exec ((stdEnv ch cl).conn T) Gen.ConnLoops.RecvData.fnBody F { n := upd (fun _ => 0) 0 len } w with ⟨c, fr', w'⟩
  rw [hx] at h hout' hf
  obtain ⟨t1, t2, t3, t4, t5, t6⟩ := h
  simp only at t1 t2 t3 t5 t6 hf
  cases c with
  | normal => exact t6.elim
  | brk => exact t6.elim
  | done rv =>
    cases rv with
    | ok v =>
      obtain ⟨v1, v2⟩ : _ ∧ _ := t6
      subst v2
      simp only at hout'
      rw [hout']
      refine ⟨t1, t2, rfl, t3, ?_⟩
      rcases v1 with hd | hd
      · have hl := hol.1 hd
        rw [hd]
        refine ⟨rfl, hl, ?_⟩
        have : writeAt (List.replicate len 0) 0 D.bytes = D.bytes := by
          rw [Lemmas.ConnFrameRecv.writeAt_zeros _ _ t5, hl]; simp
        simp only [liftR, this, hl]
      · rw [hd]
        exact ⟨rfl, hol.2 hd, _, rfl⟩
    | err e =>
      obtain ⟨v1, v2, v3⟩ : _ ∧ _ ∧ _ := t6
      subst v2
      simp only at hout'
      rw [hout', v1]
      exact ⟨t1, t2, rfl, t3, rfl, rfl⟩
  | stuck sk =>
    cases sk with
    | blocked =>
      obtain ⟨v1, v2⟩ : _ ∧ _ := t6
      simp only at hout'
      rw [hout', v1]
      exact ⟨t1, t2, rfl, t3, fr', rfl, by rw [hf]⟩
    | _ => exact t6.elim

end Lemmas.FeRecv
