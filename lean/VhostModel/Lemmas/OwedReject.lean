import VhostModel.Lemmas.OwedGuards
/-!
# C04Owed: requests the Spec classifies as `reject` do not reach the handler
-/
namespace Lemmas.OwedReject
open Base Model.BackendSrv Model.Msgs Spec.Proto Lemmas.Owed Lemmas.OwedGuards Lemmas.BackendSrv

/-- refused: no handler invocation, negotiation state untouched, an error is returned, and nothing is written except
possibly the negative acknowledgement (`ackOf st hdr false`: only when REPLY_ACK is in force and NEED_REPLY is set) -/
def NoCall (st : BSt) (hdr : Hdr) (o : Out) : Prop :=
  o.calls = [] ∧ o.st = st ∧ (∃ e, o.res = .err e) ∧ (o.out = [] ∨ o.out = ackOf st hdr false)

theorem reject_imp (n : Neg) (r : Req) (h : classify n r = .reject) :
    ¬ Spec.validHeader Spec.frontendCodes r.code r.flags r.size ∨ gateOk n r.code = false ∨
    (r.code ∈ implemented ∧ r.body.length = r.size ∧ bodyDecodable r.code r.body = true ∧
      (Spec.Proto.bodyValid r.code r.body = false ∨ r.nfds ≠ filesPrescribed r.code r.body)) := by
  unfold classify at h
  repeat' split at h
  all_goals simp_all

theorem runGuard_keeps {st : BSt} {c c' : Ctx} {gd : Guard} (h : runGuard st c gd = .ok c') :
    c'.hdr = c.hdr ∧ c'.buf = c.buf := by
  cases gd with
  | proto b => simp only [runGuard] at h; split at h <;> simp at h; subst h; exact ⟨rfl, rfl⟩
  | virtio b => simp only [runGuard] at h; split at h <;> simp at h; subst h; exact ⟨rfl, rfl⟩
  | sizeIs s =>
    cases s with
    | zero => simp only [runGuard] at h; split at h <;> simp at h; subst h; exact ⟨rfl, rfl⟩
    | any => simp only [runGuard] at h; split at h <;> simp at h; subst h; exact ⟨rfl, rfl⟩
    | ofT ty =>
      simp only [runGuard] at h
      split at h
      · split at h <;> simp at h; subst h; exact ⟨rfl, rfl⟩
      · simp at h
  | body ty =>
    simp only [runGuard] at h
    split at h
    · simp at h
    · split at h
      · simp at h
      · split at h <;> simp at h; subst h; exact ⟨rfl, rfl⟩
  | oneFile e =>
    simp only [runGuard] at h
    split at h <;> simp at h; subst h; exact ⟨rfl, rfl⟩
  | vringFd =>
    simp only [runGuard] at h
    split at h
    · simp at h
    · split at h
      · split at h <;> simp at h; subst h; exact ⟨rfl, rfl⟩
      · split at h <;> simp at h; subst h; exact ⟨rfl, rfl⟩
  | enable01 => simp only [runGuard] at h; split at h <;> simp at h; subst h; exact ⟨rfl, rfl⟩

/-- a body guard whose validator does not accept the body stops the arm, wherever it stands among the guards -/
theorem runGuards_error_of_body {st : BSt} {ty : String} {n : Nat} {buf : Bytes} (hs : structSize ty = some n)
    (hb : Model.BackendSrv.bodyValid ty buf ≠ some true) :
    ∀ (gs : List Guard) (c : Ctx), c.buf = buf → Guard.body ty ∈ gs → ∃ e, runGuards st c gs = .error e := by
  intro gs
  induction gs with
  | nil => intro c _ h; simp at h
  | cons gd gs ih =>
    intro c hc h
    simp only [runGuards]
    cases hg : runGuard st c gd with
    | error e => exact ⟨e, rfl⟩
    | ok c' =>
      simp only [List.mem_cons] at h
      rcases h with h | h
      · subst h
        simp only [runGuard, hs] at hg
        split at hg
        · simp at hg
        · rw [hc] at hg
          split at hg
          · rename_i heq; exact absurd heq hb
          · simp at hg
      · exact ih c' ((runGuard_keeps hg).2.trans hc) h

theorem runGuards_error_of_enable {st : BSt} {buf : Bytes} (hb : ¬ g buf "VhostUserVringState" ["num"] ≤ 1) :
    ∀ (gs : List Guard) (c : Ctx), c.buf = buf → Guard.enable01 ∈ gs → ∃ e, runGuards st c gs = .error e := by
  intro gs
  induction gs with
  | nil => intro c _ h; simp at h
  | cons gd gs ih =>
    intro c hc h
    simp only [runGuards]
    cases hg : runGuard st c gd with
    | error e => exact ⟨e, rfl⟩
    | ok c' =>
      simp only [List.mem_cons] at h
      rcases h with h | h
      · subst h
        simp only [runGuard, hc] at hg
        split at hg
        · rename_i heq; simp at heq; omega
        · simp at hg
      · exact ih c' ((runGuard_keeps hg).2.trans hc) h

theorem nocall_of_guards_error {st : BSt} {hdr : Hdr} {buf : Bytes} {files : Option (List Fd)} {h : Model.BackendSrv.HOut}
    {a : Arm} (ha : arms.find? (·.code == hdr.code) = some a)
    (he : ∃ e, runGuards st { hdr := hdr, buf := buf, files := files } a.guards = .error e) :
    NoCall st hdr (dispatch st hdr buf files h) := by
  obtain ⟨e, he⟩ := he
  rw [dispatch_of_guard_error ha he]
  exact ⟨rfl, rfl, ⟨e, rfl⟩, Or.inl rfl⟩

theorem takeSingle_none {files : Option (List Fd)} (h : (files.getD []).length ≠ 1) : (takeSingle files).1 = none := by
  cases files with
  | none => rfl
  | some l => match l, h with
    | [], _ => rfl
    | _ :: _ :: _, _ => rfl
    | [f], h => simp at h

end Lemmas.OwedReject
