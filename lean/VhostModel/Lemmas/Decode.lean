import VhostModel.Model.BackendSrv
import VhostModel.Spec.Proto
import VhostModel.Props.C20
/-!
# Decoding lemmas: the record a `Model.Msgs.dec<Ty>` builds carries, as naturals, exactly the fields
`Model.BackendSrv.g` reads from the same bytes; hence a body accepted by the generated validator satisfies
the `Spec.valid<Ty>` rule on the values the handler is invoked with (via `Props.C20`).
-/
namespace Lemmas.Decode
open Base Model.Msgs Model.BackendSrv Gen

theorem leVal_take_lt (bs : Bytes) (w : Nat) : leVal (bs.take w) < 256 ^ w := by
  have h := leVal_lt (bs.take w)
  have : (bs.take w).length ≤ w := by simp [List.length_take]; omega
  exact Nat.lt_of_lt_of_le h (Nat.pow_le_pow_right (by omega) this)

theorem getField_some {bs : Bytes} {s : String} {p : List String} {v : Nat}
    (h : getField bs s p = some v) :
    ∃ off w, fieldAt s p = some (off, w) ∧ off + w ≤ bs.length ∧ v = leVal ((bs.drop off).take w) := by
  unfold getField at h
  cases hf : fieldAt s p with
  | none => simp [hf] at h
  | some ow =>
    obtain ⟨off, w⟩ := ow
    simp only [hf] at h
    split at h
    · rename_i hl
      exact ⟨off, w, rfl, hl, by simpa using h.symm⟩
    · simp at h

theorem g_of_getField {bs : Bytes} {s : String} {p : List String} {v : Nat}
    (h : getField bs s p = some v) : g bs s p = v := by simp [g, h]

/-- the field `s.p` is at most `n` bits wide (decidable on concrete names) -/
def fits (s : String) (p : List String) (n : Nat) : Bool :=
  match fieldAt s p with
  | some (_, w) => decide (256 ^ w ≤ 2 ^ n)
  | none => false

/-- a `w`-byte little-endian field fits `n` bits when `256^w ≤ 2^n`: the `BitVec` of the record does not truncate -/
theorem bv_toNat {bs : Bytes} {s : String} {p : List String} {v : Nat} (n : Nat)
    (hw : fits s p n = true) (h : getField bs s p = some v) :
    (bv n v).toNat = g bs s p := by
  obtain ⟨off, w, hf, _, hv⟩ := getField_some h
  simp only [fits, hf, decide_eq_true_eq] at hw
  rw [g_of_getField h]
  have := leVal_take_lt (bs.drop off) w
  simp only [bv, BitVec.toNat_ofNat]
  apply Nat.mod_eq_of_lt
  omega

/-- reading a field that lies inside the first `n` bytes from the `n`-byte prefix or from the whole buffer is the same -/
theorem g_take {bs : Bytes} {s : String} {p : List String} {off w : Nat} (n : Nat)
    (hf : fieldAt s p = some (off, w)) (hw : off + w ≤ n) (hn : n ≤ bs.length) :
    g (bs.take n) s p = g bs s p := by
  have e : ((bs.take n).drop off).take w = (bs.drop off).take w := by
    rw [List.drop_take, List.take_take]
    congr 1; omega
  simp only [g, getField, hf, List.length_take, e]
  have h1 : off + w ≤ min n bs.length := by omega
  have h2 : off + w ≤ bs.length := by omega
  simp [h1, h2]

/-! ### one lemma per message type -/

section
variable {bs : Bytes}

theorem decU64_some {m : VhostUserU64} (h : decU64 bs = some m) :
    bs.length = 8 ∧ m.value.toNat = g bs "VhostUserU64" ["value"] := by
  have hs : structSize "VhostUserU64" = some 8 := by decide
  simp only [decU64, hs, Option.bind_eq_bind, Option.pure_def, Option.bind_some] at h
  split at h
  · simp at h
  rename_i hl
  simp only [Option.bind_eq_some_iff, Option.some.injEq] at h
  obtain ⟨a, ha, rfl⟩ := h
  exact ⟨by omega, bv_toNat 64 (by decide) ha⟩

theorem decVringState_some {m : VhostUserVringState} (h : decVringState bs = some m) :
    bs.length = 8 ∧ m.index.toNat = g bs "VhostUserVringState" ["index"] ∧
      m.num.toNat = g bs "VhostUserVringState" ["num"] := by
  have hs : structSize "VhostUserVringState" = some 8 := by decide
  simp only [decVringState, hs, Option.bind_eq_bind, Option.pure_def, Option.bind_some] at h
  split at h
  · simp at h
  rename_i hl
  simp only [Option.bind_eq_some_iff, Option.some.injEq] at h
  obtain ⟨a, ha, b, hb, rfl⟩ := h
  exact ⟨by omega, bv_toNat 32 (by decide) ha, bv_toNat 32 (by decide) hb⟩

theorem decVringAddr_some {m : VhostUserVringAddr} (h : decVringAddr bs = some m) :
    bs.length = 40 ∧ m.index.toNat = g bs "VhostUserVringAddr" ["index"] ∧
      m.flags.toNat = g bs "VhostUserVringAddr" ["flags"] ∧
      m.descriptor.toNat = g bs "VhostUserVringAddr" ["descriptor"] ∧
      m.used.toNat = g bs "VhostUserVringAddr" ["used"] ∧
      m.available.toNat = g bs "VhostUserVringAddr" ["available"] ∧
      m.log.toNat = g bs "VhostUserVringAddr" ["log"] := by
  have hs : structSize "VhostUserVringAddr" = some 40 := by decide
  simp only [decVringAddr, hs, Option.bind_eq_bind, Option.pure_def, Option.bind_some] at h
  split at h
  · simp at h
  rename_i hl
  simp only [Option.bind_eq_some_iff, Option.some.injEq] at h
  obtain ⟨a, ha, b, hb, c, hc, d, hd, e, he, f, hf, rfl⟩ := h
  exact ⟨by omega, bv_toNat 32 (by decide) ha, bv_toNat 32 (by decide) hb,
    bv_toNat 64 (by decide) hc, bv_toNat 64 (by decide) hd,
    bv_toNat 64 (by decide) he, bv_toNat 64 (by decide) hf⟩

theorem decMemory_some {m : VhostUserMemory} (h : decMemory bs = some m) :
    bs.length = 8 ∧ m.num_regions.toNat = g bs "VhostUserMemory" ["num_regions"] ∧
      m.padding1.toNat = g bs "VhostUserMemory" ["padding1"] := by
  have hs : structSize "VhostUserMemory" = some 8 := by decide
  simp only [decMemory, hs, Option.bind_eq_bind, Option.pure_def, Option.bind_some] at h
  split at h
  · simp at h
  rename_i hl
  simp only [Option.bind_eq_some_iff, Option.some.injEq] at h
  obtain ⟨a, ha, b, hb, rfl⟩ := h
  exact ⟨by omega, bv_toNat 32 (by decide) ha, bv_toNat 32 (by decide) hb⟩

theorem decRegion_some {m : VhostUserMemoryRegion} (h : decRegion bs = some m) :
    bs.length = 32 ∧ m.guest_phys_addr.toNat = g bs "VhostUserMemoryRegion" ["guest_phys_addr"] ∧
      m.memory_size.toNat = g bs "VhostUserMemoryRegion" ["memory_size"] ∧
      m.user_addr.toNat = g bs "VhostUserMemoryRegion" ["user_addr"] ∧
      m.mmap_offset.toNat = g bs "VhostUserMemoryRegion" ["mmap_offset"] := by
  have hs : structSize "VhostUserMemoryRegion" = some 32 := by decide
  simp only [decRegion, decRegionAt, hs, Option.bind_eq_bind, Option.pure_def, Option.bind_some, List.nil_append] at h
  split at h
  · simp at h
  rename_i hl
  simp only [Option.bind_eq_some_iff, Option.some.injEq] at h
  obtain ⟨a, ha, b, hb, c, hc, d, hd, rfl⟩ := h
  exact ⟨by omega, bv_toNat 64 (by decide) ha, bv_toNat 64 (by decide) hb,
    bv_toNat 64 (by decide) hc, bv_toNat 64 (by decide) hd⟩

theorem decSingle_some {m : VhostUserSingleMemoryRegion} (h : decSingle bs = some m) :
    bs.length = 40 ∧
      m.region.guest_phys_addr.toNat = g bs "VhostUserSingleMemoryRegion" ["region", "guest_phys_addr"] ∧
      m.region.memory_size.toNat = g bs "VhostUserSingleMemoryRegion" ["region", "memory_size"] ∧
      m.region.user_addr.toNat = g bs "VhostUserSingleMemoryRegion" ["region", "user_addr"] ∧
      m.region.mmap_offset.toNat = g bs "VhostUserSingleMemoryRegion" ["region", "mmap_offset"] := by
  have hs : structSize "VhostUserSingleMemoryRegion" = some 40 := by decide
  simp only [decSingle, decRegionAt, hs, Option.bind_eq_bind, Option.pure_def, Option.bind_some,
    List.cons_append, List.nil_append] at h
  split at h
  · simp at h
  rename_i hl
  simp only [Option.bind_eq_some_iff, Option.some.injEq] at h
  obtain ⟨p, _, r, ⟨a, ha, b, hb, c, hc, d, hd, rfl⟩, rfl⟩ := h
  exact ⟨by omega, bv_toNat 64 (by decide) ha, bv_toNat 64 (by decide) hb,
    bv_toNat 64 (by decide) hc, bv_toNat 64 (by decide) hd⟩

theorem decConfig_some {m : VhostUserConfig} (h : decConfig bs = some m) :
    bs.length = 12 ∧ m.offset.toNat = g bs "VhostUserConfig" ["offset"] ∧
      m.size.toNat = g bs "VhostUserConfig" ["size"] ∧ m.flags.toNat = g bs "VhostUserConfig" ["flags"] := by
  have hs : structSize "VhostUserConfig" = some 12 := by decide
  simp only [decConfig, hs, Option.bind_eq_bind, Option.pure_def, Option.bind_some] at h
  split at h
  · simp at h
  rename_i hl
  simp only [Option.bind_eq_some_iff, Option.some.injEq] at h
  obtain ⟨a, ha, b, hb, c, hc, rfl⟩ := h
  exact ⟨by omega, bv_toNat 32 (by decide) ha, bv_toNat 32 (by decide) hb,
    bv_toNat 32 (by decide) hc⟩

theorem decInflight_some {m : VhostUserInflight} (h : decInflight bs = some m) :
    bs.length = 24 ∧ m.mmap_size.toNat = g bs "VhostUserInflight" ["mmap_size"] ∧
      m.mmap_offset.toNat = g bs "VhostUserInflight" ["mmap_offset"] ∧
      m.num_queues.toNat = g bs "VhostUserInflight" ["num_queues"] ∧
      m.queue_size.toNat = g bs "VhostUserInflight" ["queue_size"] := by
  have hs : structSize "VhostUserInflight" = some 24 := by decide
  simp only [decInflight, hs, Option.bind_eq_bind, Option.pure_def, Option.bind_some] at h
  split at h
  · simp at h
  rename_i hl
  simp only [Option.bind_eq_some_iff, Option.some.injEq] at h
  obtain ⟨a, ha, b, hb, c, hc, d, hd, rfl⟩ := h
  exact ⟨by omega, bv_toNat 64 (by decide) ha, bv_toNat 64 (by decide) hb,
    bv_toNat 16 (by decide) hc, bv_toNat 16 (by decide) hd⟩

theorem decLog_some {m : VhostUserLog} (h : decLog bs = some m) :
    bs.length = 16 ∧ m.mmap_size.toNat = g bs "VhostUserLog" ["mmap_size"] ∧
      m.mmap_offset.toNat = g bs "VhostUserLog" ["mmap_offset"] := by
  have hs : structSize "VhostUserLog" = some 16 := by decide
  simp only [decLog, hs, Option.bind_eq_bind, Option.pure_def, Option.bind_some] at h
  split at h
  · simp at h
  rename_i hl
  simp only [Option.bind_eq_some_iff, Option.some.injEq] at h
  obtain ⟨a, ha, b, hb, rfl⟩ := h
  exact ⟨by omega, bv_toNat 64 (by decide) ha, bv_toNat 64 (by decide) hb⟩

theorem decShared_some {m : VhostUserSharedMsg} (h : decShared bs = some m) :
    bs.length = 16 ∧ m.uuid.toNat = g bs "VhostUserSharedMsg" ["uuid"] := by
  have hs : structSize "VhostUserSharedMsg" = some 16 := by decide
  simp only [decShared, hs, Option.bind_eq_bind, Option.pure_def, Option.bind_some] at h
  split at h
  · simp at h
  rename_i hl
  simp only [Option.bind_eq_some_iff, Option.some.injEq] at h
  obtain ⟨a, ha, rfl⟩ := h
  exact ⟨by omega, bv_toNat 128 (by decide) ha⟩

theorem decTransfer_some {m : VhostUserTransferDeviceState} (h : decTransfer bs = some m) :
    bs.length = 8 ∧ m.direction.toNat = g bs "VhostUserTransferDeviceState" ["direction"] ∧
      m.phase.toNat = g bs "VhostUserTransferDeviceState" ["phase"] := by
  have hs : structSize "VhostUserTransferDeviceState" = some 8 := by decide
  simp only [decTransfer, hs, Option.bind_eq_bind, Option.pure_def, Option.bind_some] at h
  split at h
  · simp at h
  rename_i hl
  simp only [Option.bind_eq_some_iff, Option.some.injEq] at h
  obtain ⟨a, ha, b, hb, rfl⟩ := h
  exact ⟨by omega, bv_toNat 32 (by decide) ha, bv_toNat 32 (by decide) hb⟩

/-! ### a body accepted by the generated validator satisfies the `Spec` rule on the values `g` reads -/

theorem body_u64 (h : bodyValid "VhostUserU64" bs = some true) : bs.length = 8 := by
  simp only [bodyValid, Option.map_eq_some_iff] at h
  obtain ⟨m, hm, _⟩ := h
  exact (decU64_some hm).1

theorem body_vringState (h : bodyValid "VhostUserVringState" bs = some true) : bs.length = 8 := by
  simp only [bodyValid, Option.map_eq_some_iff] at h
  obtain ⟨m, hm, _⟩ := h
  exact (decVringState_some hm).1

theorem body_vringAddr (h : bodyValid "VhostUserVringAddr" bs = some true) :
    bs.length = 40 ∧
      Spec.validVringAddr (g bs "VhostUserVringAddr" ["flags"]) (g bs "VhostUserVringAddr" ["descriptor"])
        (g bs "VhostUserVringAddr" ["used"]) (g bs "VhostUserVringAddr" ["available"]) := by
  simp only [bodyValid, Option.map_eq_some_iff] at h
  obtain ⟨m, hm, hv⟩ := h
  obtain ⟨hl, _, h1, h2, h3, h4, _⟩ := decVringAddr_some hm
  rw [Props.C20.isValid_vring_addr_iff, h1, h2, h3, h4] at hv
  exact ⟨hl, hv⟩

theorem body_memory (h : bodyValid "VhostUserMemory" bs = some true) :
    bs.length = 8 ∧
      Spec.validMemory (g bs "VhostUserMemory" ["num_regions"]) (g bs "VhostUserMemory" ["padding1"]) := by
  simp only [bodyValid, Option.map_eq_some_iff] at h
  obtain ⟨m, hm, hv⟩ := h
  obtain ⟨hl, h1, h2⟩ := decMemory_some hm
  rw [Props.C20.isValid_memory_iff, h1, h2] at hv
  exact ⟨hl, hv⟩

theorem body_region (h : bodyValid "VhostUserMemoryRegion" bs = some true) :
    bs.length = 32 ∧
      Spec.validRegion (g bs "VhostUserMemoryRegion" ["guest_phys_addr"]) (g bs "VhostUserMemoryRegion" ["memory_size"])
        (g bs "VhostUserMemoryRegion" ["user_addr"]) (g bs "VhostUserMemoryRegion" ["mmap_offset"]) := by
  simp only [bodyValid, Option.map_eq_some_iff] at h
  obtain ⟨m, hm, hv⟩ := h
  obtain ⟨hl, h1, h2, h3, h4⟩ := decRegion_some hm
  rw [Props.C20.isValid_region_iff, h1, h2, h3, h4] at hv
  exact ⟨hl, hv⟩

theorem body_single (h : bodyValid "VhostUserSingleMemoryRegion" bs = some true) :
    bs.length = 40 ∧
      Spec.validRegion (g bs "VhostUserSingleMemoryRegion" ["region", "guest_phys_addr"])
        (g bs "VhostUserSingleMemoryRegion" ["region", "memory_size"])
        (g bs "VhostUserSingleMemoryRegion" ["region", "user_addr"])
        (g bs "VhostUserSingleMemoryRegion" ["region", "mmap_offset"]) := by
  simp only [bodyValid, Option.map_eq_some_iff] at h
  obtain ⟨m, hm, hv⟩ := h
  obtain ⟨hl, h1, h2, h3, h4⟩ := decSingle_some hm
  rw [Props.C20.isValid_single_iff, h1, h2, h3, h4] at hv
  exact ⟨hl, hv⟩

theorem body_config (h : bodyValid "VhostUserConfig" bs = some true) :
    bs.length = 12 ∧
      Spec.validConfig (g bs "VhostUserConfig" ["offset"]) (g bs "VhostUserConfig" ["size"])
        (g bs "VhostUserConfig" ["flags"]) := by
  simp only [bodyValid, Option.map_eq_some_iff] at h
  obtain ⟨m, hm, hv⟩ := h
  obtain ⟨hl, h1, h2, h3⟩ := decConfig_some hm
  rw [Props.C20.isValid_config_iff, h1, h2, h3] at hv
  exact ⟨hl, hv⟩

theorem body_inflight (h : bodyValid "VhostUserInflight" bs = some true) :
    bs.length = 24 ∧
      Spec.validInflight (g bs "VhostUserInflight" ["num_queues"]) (g bs "VhostUserInflight" ["queue_size"]) := by
  simp only [bodyValid, Option.map_eq_some_iff] at h
  obtain ⟨m, hm, hv⟩ := h
  obtain ⟨hl, _, _, h3, h4⟩ := decInflight_some hm
  rw [Props.C20.isValid_inflight_iff, h3, h4] at hv
  exact ⟨hl, hv⟩

theorem body_log (h : bodyValid "VhostUserLog" bs = some true) :
    bs.length = 16 ∧ Spec.validLog (g bs "VhostUserLog" ["mmap_size"]) (g bs "VhostUserLog" ["mmap_offset"]) := by
  simp only [bodyValid, Option.map_eq_some_iff] at h
  obtain ⟨m, hm, hv⟩ := h
  obtain ⟨hl, h1, h2⟩ := decLog_some hm
  rw [Props.C20.isValid_log_iff, h1, h2] at hv
  exact ⟨hl, hv⟩

theorem body_shared (h : bodyValid "VhostUserSharedMsg" bs = some true) :
    bs.length = 16 ∧ Spec.validUuid (g bs "VhostUserSharedMsg" ["uuid"]) := by
  simp only [bodyValid, Option.map_eq_some_iff] at h
  obtain ⟨m, hm, hv⟩ := h
  obtain ⟨hl, h1⟩ := decShared_some hm
  rw [Props.C20.isValid_shared_iff, h1] at hv
  exact ⟨hl, hv⟩

theorem body_transfer (h : bodyValid "VhostUserTransferDeviceState" bs = some true) :
    bs.length = 8 ∧
      Spec.validTransfer (g bs "VhostUserTransferDeviceState" ["direction"])
        (g bs "VhostUserTransferDeviceState" ["phase"]) := by
  simp only [bodyValid, Option.map_eq_some_iff] at h
  obtain ⟨m, hm, hv⟩ := h
  obtain ⟨hl, h1, h2⟩ := decTransfer_some hm
  rw [Props.C20.isValid_transfer_iff, h1, h2] at hv
  exact ⟨hl, hv⟩

/-- GET/SET_CONFIG validate the 12-byte prefix and read the arguments from the whole buffer: same values -/
theorem body_config_take (hl : 12 ≤ bs.length) (h : bodyValid "VhostUserConfig" (bs.take 12) = some true) :
    Spec.validConfig (g bs "VhostUserConfig" ["offset"]) (g bs "VhostUserConfig" ["size"])
      (g bs "VhostUserConfig" ["flags"]) := by
  have hv := (body_config h).2
  rwa [g_take (off := 0) (w := 4) 12 (by decide) (by omega) hl,
    g_take (off := 4) (w := 4) 12 (by decide) (by omega) hl,
    g_take (off := 8) (w := 4) 12 (by decide) (by omega) hl] at hv

/-- SET_MEM_TABLE validates the 8-byte head and reads `num_regions` from the whole buffer -/
theorem body_memory_take (hl : 8 ≤ bs.length) (h : bodyValid "VhostUserMemory" (bs.take 8) = some true) :
    Spec.validMemory (g bs "VhostUserMemory" ["num_regions"]) (g bs "VhostUserMemory" ["padding1"]) := by
  have hv := (body_memory h).2
  rwa [g_take (off := 0) (w := 4) 8 (by decide) (by omega) hl,
    g_take (off := 4) (w := 4) 8 (by decide) (by omega) hl] at hv

end
end Lemmas.Decode
