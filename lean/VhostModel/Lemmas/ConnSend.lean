import VhostModel.Lemmas.ConnSub
import VhostModel.Props.C08

set_option linter.unusedSimpArgs false
set_option linter.unusedVariables false
/-!
# `send_iovec_all`: the interpreted loop against `Model.Endpoint.sendAll`

`toEv` maps a primitive outcome (`accept k` / `errno e`) to the model's kernel event through the generated errno
classification; `wireOf` keeps the successful non-empty `sendmsg` calls of the log (the model's `Wire`); `sendResOf`
reads the interpreter's control result as the model's `SendRes`.
-/
namespace Lemmas.ConnSend
open Imp Gen.ConnLoops Model.Endpoint Lemmas.ConnSub

/-- a primitive send outcome as an event of the model's kernel script -/
def toEv (cl : Nat → ErrClass) : SendOut → SendEv
  | .accept k => .accept k
  | .errno e => match cl e with
    | .retry => .retry
    | .broken => .broken
    | _ => .other

/-- what went onto the socket: the successful non-empty `sendmsg` calls, with the bytes the kernel took -/
def wireOf : List SendCall → Wire
  | [] => []
  | ⟨offered, fds, .accept (k + 1)⟩ :: rest => (offered.take (accepted (k + 1) offered.length), fds) :: wireOf rest
  | _ :: rest => wireOf rest

theorem wireOf_append (a b : List SendCall) : wireOf (a ++ b) = wireOf a ++ wireOf b := by
  induction a with
  | nil => rfl
  | cons c a ih =>
    obtain ⟨o, f, ev⟩ := c
    cases ev with
    | accept k => cases k <;> simp [wireOf, ih]
    | errno e => simp [wireOf, ih]

/-- the result of `send_iovec_all` as the model's `SendRes` -/
def sendResOf : Ctl → Option SendRes
  | .done (.ok ⟨[n], _, _⟩) => some (.ok n)
  | .done (.err (.sock .broken _)) => some .broken
  | .done (.err (.sock .connect _)) => some .other
  | .done (.err (.sock .other _)) => some .other
  | .stuck .outOfScript => some .outOfScript
  | _ => none

/-- what an iteration leaves alone: `data_total`, `iov_lens`, `iovs`, `fds` -/
def Keep (fr fr' : Frame) : Prop := fr'.n 1 = fr.n 1 ∧ fr'.l 0 = fr.l 0 ∧ fr'.io 0 = fr.io 0 ∧ fr'.f 0 = fr.f 0

theorem suffix_bytes (mem : List Bytes) (v : IoVal) (p k o : Nat) (hk : k < v.lens.length) (ho : o ≤ v.lens.getD k 0)
    (hp : (v.lens.take k).sum + o = p) :
    IoVal.bytes mem { store := v.store, start := v.start + ((v.lens.take k).sum + o), lens := (v.lens.getD k 0 - o) :: v.lens.drop (k + 1) }
      = (v.bytes mem).drop p := by
  unfold IoVal.bytes
  simp only []
  rw [suffix_sum v.lens k o hk ho, hp, List.drop_take, List.drop_drop]

section body
variable {σ : Type} (env : Env σ) (F : Nat) (fr : Frame) (w : World σ)

/-- one iteration, the kernel accepts `k` bytes -/
theorem body_accept (hl : fr.l 0 = (fr.io 0).lens)
    (hp : fr.n 0 < (fr.io 0).lens.sum) (rem : Bytes) (hrem : ((fr.io 0).bytes w.mem).drop (fr.n 0) = rem)
    (k : Nat) (rest : List SendOut) (hs : w.script = .accept k :: rest) :
    (exec env SendIovecAll.whileBody F fr w).1 = (if accepted k rem.length = 0 then .done (.ok { nats := [fr.n 0] }) else .normal) ∧
    (exec env SendIovecAll.whileBody F fr w).2.2 =
      { w with script := rest, sent := w.sent ++ [⟨rem, if fr.n 0 = 0 then (fr.f 0).getD [] else [], .accept k⟩] } ∧
    Keep fr (exec env SendIovecAll.whileBody F fr w).2.1 ∧
    (exec env SendIovecAll.whileBody F fr w).2.1.n 0 = fr.n 0 + (if accepted k rem.length = 0 then 0 else accepted k rem.length) := by
  obtain ⟨_, hq1, hq2, hq3⟩ := Props.C08.sub_iovs_offset_correct (fr.io 0).lens (fr.n 0) 0 hp
  simp only [Nat.sub_zero] at hq1 hq2 hq3
  have hb := suffix_bytes w.mem (fr.io 0) (fr.n 0) _ _ hq1 (Nat.le_of_lt hq2) hq3
  have hcall := exec_call_gsio env "get_sub_iovs_offset" (.var SendIovecAll.data_sent) SendIovecAll.iov_lens SendIovecAll.r_nr_skip F fr w
  simp only [evalE, hl] at hcall
  generalize (subIovsOffset (fr.io 0).lens (fr.n 0) 0).1 = q1 at *
  generalize (subIovsOffset (fr.io 0).lens (fr.n 0) 0).2 = q2 at *
  rw [hrem] at hb
  have hq2' : q2 ≤ (fr.io 0).lens[q1] := by
    have := Nat.le_of_lt hq2
    simpa [List.getD_eq_getElem?_getD, hq1] using this
  simp only [List.getD_eq_getElem?_getD, List.getElem?_eq_getElem hq1, Option.getD_some] at hb
  by_cases h0 : fr.n 0 = 0 <;> by_cases hm : accepted k rem.length = 0 <;>
    simp [Keep, SendIovecAll.whileBody, hcall, exec_matchResult, evalE, evalB, evalIo, evalF, hl, hq1, hq2', primSend, hs, evalEs, RVal.into, h0, hm, hb]

/-- one iteration, `sendmsg` fails with `e` -/
theorem body_errno (hl : fr.l 0 = (fr.io 0).lens)
    (hp : fr.n 0 < (fr.io 0).lens.sum) (rem : Bytes) (hrem : ((fr.io 0).bytes w.mem).drop (fr.n 0) = rem)
    (e : Nat) (rest : List SendOut) (hs : w.script = .errno e :: rest) :
    (exec env SendIovecAll.whileBody F fr w).1 =
      (if env.classify e = .retry then .normal else .done (.err (.sock (env.classify e) e))) ∧
    (exec env SendIovecAll.whileBody F fr w).2.2 =
      { w with script := rest, sent := w.sent ++ [⟨rem, if fr.n 0 = 0 then (fr.f 0).getD [] else [], .errno e⟩] } ∧
    Keep fr (exec env SendIovecAll.whileBody F fr w).2.1 ∧
    (exec env SendIovecAll.whileBody F fr w).2.1.n 0 = fr.n 0 := by
  obtain ⟨_, hq1, hq2, hq3⟩ := Props.C08.sub_iovs_offset_correct (fr.io 0).lens (fr.n 0) 0 hp
  simp only [Nat.sub_zero] at hq1 hq2 hq3
  have hb := suffix_bytes w.mem (fr.io 0) (fr.n 0) _ _ hq1 (Nat.le_of_lt hq2) hq3
  have hcall := exec_call_gsio env "get_sub_iovs_offset" (.var SendIovecAll.data_sent) SendIovecAll.iov_lens SendIovecAll.r_nr_skip F fr w
  simp only [evalE, hl] at hcall
  generalize (subIovsOffset (fr.io 0).lens (fr.n 0) 0).1 = q1 at *
  generalize (subIovsOffset (fr.io 0).lens (fr.n 0) 0).2 = q2 at *
  rw [hrem] at hb
  have hq2' : q2 ≤ (fr.io 0).lens[q1] := by
    have := Nat.le_of_lt hq2
    simpa [List.getD_eq_getElem?_getD, hq1] using this
  simp only [List.getD_eq_getElem?_getD, List.getElem?_eq_getElem hq1, Option.getD_some] at hb
  by_cases h0 : fr.n 0 = 0 <;> by_cases hm : env.classify e = .retry <;>
    simp [Keep, SendIovecAll.whileBody, hcall, exec_matchResult, exec_matchErr, evalE, evalB, evalIo, evalF, hl, hq1, hq2', primSend, hs,
      evalEs, RVal.into, Err.into, evalErr, errOf, h0, hm, hb]

/-- one iteration, the script is exhausted -/
theorem body_nil (hl : fr.l 0 = (fr.io 0).lens) (hp : fr.n 0 < (fr.io 0).lens.sum) (hs : w.script = []) :
    (exec env SendIovecAll.whileBody F fr w).1 = .stuck .outOfScript ∧ (exec env SendIovecAll.whileBody F fr w).2.2 = w := by
  obtain ⟨_, hq1, hq2, hq3⟩ := Props.C08.sub_iovs_offset_correct (fr.io 0).lens (fr.n 0) 0 hp
  simp only [Nat.sub_zero] at hq1 hq2 hq3
  have hcall := exec_call_gsio env "get_sub_iovs_offset" (.var SendIovecAll.data_sent) SendIovecAll.iov_lens SendIovecAll.r_nr_skip F fr w
  simp only [evalE, hl] at hcall
  generalize (subIovsOffset (fr.io 0).lens (fr.n 0) 0).1 = q1 at *
  generalize (subIovsOffset (fr.io 0).lens (fr.n 0) 0).2 = q2 at *
  have hq2' : q2 ≤ (fr.io 0).lens[q1] := by
    have := Nat.le_of_lt hq2
    simpa [List.getD_eq_getElem?_getD, hq1] using this
  by_cases h0 : fr.n 0 = 0 <;>
    simp [SendIovecAll.whileBody, hcall, exec_matchResult, evalE, evalB, evalIo, evalF, hl, hq1, hq2', primSend, hs, h0]

end body
theorem drop_cons_of_lt {α : Type} (l : List α) (n : Nat) (h : n < l.length) : ∃ b bs, l.drop n = b :: bs := by
  cases hd : l.drop n with
  | nil => simp at hd; omega
  | cons b bs => exact ⟨b, bs, rfl⟩

theorem send_loop {σ : Type} (env : Env σ) (F : Nat) (body : Frame → World σ → Res σ)
    (hb : ∀ fr w, body fr w = exec env SendIovecAll.whileBody F fr w) :
    ∀ (script : List SendOut) (k : Nat) (fr : Frame) (w : World σ), w.script = script → script.length < k →
      fr.l 0 = (fr.io 0).lens → fr.n 1 = (fr.io 0).lens.sum → fr.n 0 ≤ fr.n 1 →
      ((fr.io 0).bytes w.mem).length = fr.n 1 →
      wireOf (loop (fun fr w => evalB env fr w.mem (.gt (.sub (.var SendIovecAll.data_total) (.var SendIovecAll.data_sent)) (.lit 0))) body k fr w).2.2.sent
        = (sendAll ((fr.f 0).getD []) (((fr.io 0).bytes w.mem).drop (fr.n 0)) (fr.n 0) (script.map (toEv env.classify)) (wireOf w.sent)).1 ∧
      (loop (fun fr w => evalB env fr w.mem (.gt (.sub (.var SendIovecAll.data_total) (.var SendIovecAll.data_sent)) (.lit 0))) body k fr w).2.2.mem = w.mem ∧
      (match (loop (fun fr w => evalB env fr w.mem (.gt (.sub (.var SendIovecAll.data_total) (.var SendIovecAll.data_sent)) (.lit 0))) body k fr w).1 with
       | .normal => (sendAll ((fr.f 0).getD []) (((fr.io 0).bytes w.mem).drop (fr.n 0)) (fr.n 0) (script.map (toEv env.classify)) (wireOf w.sent)).2
            = .ok ((loop (fun fr w => evalB env fr w.mem (.gt (.sub (.var SendIovecAll.data_total) (.var SendIovecAll.data_sent)) (.lit 0))) body k fr w).2.1.n 0)
       | c => sendResOf c = some (sendAll ((fr.f 0).getD []) (((fr.io 0).bytes w.mem).drop (fr.n 0)) (fr.n 0) (script.map (toEv env.classify)) (wireOf w.sent)).2) := by
  intro script
  induction script with
  | nil =>
    intro k fr w hs hk hl ht hle hlen
    obtain ⟨k, rfl⟩ : ∃ k', k = k' + 1 := ⟨k - 1, by simp at hk; omega⟩
    have hc : evalB env fr w.mem (.gt (.sub (.var SendIovecAll.data_total) (.var SendIovecAll.data_sent)) (.lit 0)) = some (decide (fr.n 1 - fr.n 0 > 0)) := by
      simp [evalB, evalE, hle]
    by_cases hz : fr.n 1 - fr.n 0 > 0
    · have hp : fr.n 0 < (fr.io 0).lens.sum := by omega
      obtain ⟨b1, b2⟩ := body_nil env F fr w hl hp hs
      obtain ⟨b, bs, hrem⟩ := drop_cons_of_lt ((fr.io 0).bytes w.mem) (fr.n 0) (by omega)
      simp only [loop, hc, hz, decide_true, hb]
      rcases hx : exec env SendIovecAll.whileBody F fr w with ⟨c, fr', w'⟩
      rw [hx] at b1 b2
      simp only at b1 b2
      subst b1 b2
      simp [hrem, sendAll, sendResOf]
    · have : fr.n 0 = fr.n 1 := by omega
      simp only [loop, hc, hz, decide_false]
      have hd : ((fr.io 0).bytes w.mem).drop (fr.n 0) = [] := by simp; omega
      simp [hd, sendAll]
  | cons ev script ih =>
    intro k fr w hs hk hl ht hle hlen
    obtain ⟨k, rfl⟩ : ∃ k', k = k' + 1 := ⟨k - 1, by simp at hk; omega⟩
    have hc : evalB env fr w.mem (.gt (.sub (.var SendIovecAll.data_total) (.var SendIovecAll.data_sent)) (.lit 0)) = some (decide (fr.n 1 - fr.n 0 > 0)) := by
      simp [evalB, evalE, hle]
    by_cases hz : fr.n 1 - fr.n 0 > 0
    · have hp : fr.n 0 < (fr.io 0).lens.sum := by omega
      obtain ⟨b, bs, hrem⟩ := drop_cons_of_lt ((fr.io 0).bytes w.mem) (fr.n 0) (by omega)
      have hremlen : (b :: bs).length = fr.n 1 - fr.n 0 := by rw [← hrem, List.length_drop, hlen]
      simp only [loop, hc, hz, decide_true, hb]
      rcases hx : exec env SendIovecAll.whileBody F fr w with ⟨c, fr', w'⟩
      cases ev with
      | accept kk =>
        obtain ⟨b1, b2, b3, b4⟩ := body_accept env F fr w hl hp (b :: bs) hrem kk script hs
        rw [hx] at b1 b2 b3 b4
        simp only at b1 b2 b3 b4
        obtain ⟨k1, k2, k3, k4⟩ := b3
        cases kk with
        | zero =>
          have ha : accepted 0 (b :: bs).length = 0 := by simp [accepted]
          rw [ha] at b1 b4
          simp only [if_true] at b1 b4
          subst b1 b2
          simp [hrem, sendAll, sendResOf, wireOf_append, wireOf, toEv]
        | succ kk =>
          have ha : accepted (kk + 1) (b :: bs).length ≠ 0 := by simp [accepted]
          have ha2 : accepted (kk + 1) (b :: bs).length ≤ (b :: bs).length := Nat.min_le_right _ _
          simp only [ha, if_false] at b1 b4
          subst b1
          have hmem : w'.mem = w.mem := by rw [b2]
          have hw : wireOf w'.sent = wireOf w.sent ++
              [((b :: bs).take (accepted (kk + 1) (b :: bs).length), if fr.n 0 = 0 then (fr.f 0).getD [] else [])] := by
            rw [b2]; simp [wireOf_append, wireOf]
          have := ih k fr' w' (by rw [b2]) (by simp at hk ⊢; omega) (by rw [k2, k3, hl]) (by rw [k1, k3, ht]) (by rw [k1, b4]; omega)
            (by rw [k3, hmem, k1]; exact hlen)
          simp only [k3, k4, b4, hmem, hw] at this
          simp only [hrem, List.map_cons, toEv, sendAll]
          rw [← List.drop_drop, hrem] at this
          simpa [accepted, beq_iff_eq] using this
      | errno e =>
        obtain ⟨b1, b2, b3, b4⟩ := body_errno env F fr w hl hp (b :: bs) hrem e script hs
        rw [hx] at b1 b2 b3 b4
        simp only at b1 b2 b3 b4
        obtain ⟨k1, k2, k3, k4⟩ := b3
        by_cases hcl : env.classify e = .retry
        · simp only [hcl, if_true] at b1
          subst b1
          have hmem : w'.mem = w.mem := by rw [b2]
          have hw : wireOf w'.sent = wireOf w.sent := by
            rw [b2]; simp [wireOf_append, wireOf]
          have := ih k fr' w' (by rw [b2]) (by simp at hk ⊢; omega) (by rw [k2, k3, hl]) (by rw [k1, k3, ht]) (by rw [k1, b4]; omega)
            (by rw [k3, hmem, k1]; exact hlen)
          simp only [k3, k4, b4, hmem, hw] at this
          simpa [hrem, toEv, hcl, sendAll] using this
        · simp only [hcl, if_false] at b1
          subst b1 b2
          cases hcc : env.classify e <;> simp_all [sendAll, sendResOf, wireOf_append, wireOf, toEv]
    · have : fr.n 0 = fr.n 1 := by omega
      simp only [loop, hc, hz, decide_false]
      have hd : ((fr.io 0).bytes w.mem).drop (fr.n 0) = [] := by simp; omega
      simp [hd, sendAll]


theorem forBody_exec {σ : Type} (env : Env σ) (F : Nat) (fr : Frame) (w : World σ) :
    exec env SendIovecAll.forBody F fr w = (.normal, { fr with n := upd fr.n 1 (fr.n 1 + fr.n 2) }, w) := by
  simp [SendIovecAll.forBody, evalE]

/-- the whole of `send_iovec_all`: `iovs` = iovec slot 0, `fds` = descriptor slot 0; fuel: more than the script is long -/
theorem send_iovec_all_exec {σ : Type} (env : Env σ) (F : Nat) (fr : Frame) (w : World σ)
    (hF : w.script.length < F) (hlen : ((fr.io 0).bytes w.mem).length = (fr.io 0).lens.sum) :
    wireOf (exec env SendIovecAll.fnBody F fr w).2.2.sent =
      (sendAll ((fr.f 0).getD []) ((fr.io 0).bytes w.mem) 0 (w.script.map (toEv env.classify)) (wireOf w.sent)).1 ∧
    (exec env SendIovecAll.fnBody F fr w).2.2.mem = w.mem ∧
    sendResOf (exec env SendIovecAll.fnBody F fr w).1 =
      some (sendAll ((fr.f 0).getD []) ((fr.io 0).bytes w.mem) 0 (w.script.map (toEv env.classify)) (wireOf w.sent)).2 := by
  obtain ⟨fr2, hfl, g1, g2, g3, g4, g5, g6, g7⟩ := forLoop_sum (fun fr w => exec env SendIovecAll.forBody F fr w) (forBody_exec env F) w
    (fr.io 0).lens { fr with n := upd (upd fr.n 0 0) 1 0, l := upd fr.l 0 (fr.io 0).lens }
  simp only [SendIovecAll.fnBody, exec_seq, exec_assign, exec_assignL, evalE, evalL, exec_forIn, exec_while, upd_apply, reduceIte, hfl]
  have h0 : fr2.n 0 = 0 := by rw [g2 0 (by decide) (by decide)]; simp
  have h1 : fr2.n 1 = (fr.io 0).lens.sum := by rw [g1]; simp
  have h2 : fr2.l 0 = (fr.io 0).lens := by rw [g3]; simp
  have h3 : fr2.io 0 = fr.io 0 := by rw [g5]
  have h4 : fr2.f 0 = fr.f 0 := by rw [g4]
  have := send_loop env F (fun fr w => exec env SendIovecAll.whileBody F fr w) (fun _ _ => rfl) w.script F fr2 w rfl hF
    (by rw [h2, h3]) (by rw [h1, h3]) (by omega) (by rw [h3, h1]; exact hlen)
  rw [h0, h3, h4, List.drop_zero] at this
  obtain ⟨t1, t2, t3⟩ := this
  rcases hx : loop (fun fr w => evalB env fr w.mem (.gt (.sub (.var SendIovecAll.data_total) (.var SendIovecAll.data_sent)) (.lit 0)))
    (fun fr w => exec env SendIovecAll.whileBody F fr w) F fr2 w with ⟨c, fr3, w3⟩
  rw [hx] at t1 t2 t3
  simp only at t1 t2 t3
  cases c with
  | normal => simp [evalEs, evalE, evalF, sendResOf, t1, t2, t3]
  | brk => simp [sendResOf] at t3
  | done rv => simp [t1, t2, t3]
  | stuck s => simp [t1, t2, t3]

end Lemmas.ConnSend
