import VhostModel.Lemmas.HandlerRing
/-!
# `Model.RingReg.control` is the interpretation of the handler's rows (C11)

Per control message: what `Model.RingReg` does is (a) what lies outside the handler — a closed connection, the fresh
descriptor carried by the message (`alloc`), the crate's own feature check in front of SET_VRING_ENABLE (`ackedC`), the
reply owed for the handler's result — and (b) the handler's method, which is the row of the table run by `evsR`:
the helper calls `update_vring_registration` / `unregister_vring_kick` / `initialize_vring` happen exactly where the row
has them, relative to the state changes on the vring object.

For `set_vring_kick` the model keeps the rule of the pinned tree (`St.old = true`, F-C11-rekick): that variant is the row
*without* the call of `unregister_vring_kick` and with an empty `else` branch (`pinned`).
-/
namespace Lemmas.HandlerRing
open Base Model.RingReg
open Model.HandlerTable (cond val row threadLoop updateRegBody unregisterKickBody initializeVringBody)
open Spec.RingAutomaton (Evt Msg upd)

local notation "tUpdateReg" => Model.HandlerTable.updateReg
local notation "tInitializeVring" => Model.HandlerTable.initializeVring
local notation "tNeedsInit" => Model.HandlerTable.needsInit

set_option linter.unusedSimpArgs false

theorem row_set_vring_kick : row "set_vring_kick" = [
    .indexBound "InvalidParam",
    .helperCall "unregister_vring_kick" ["vring", "index"] false unregisterKickBody,
    .vringCall "set_kick" ["file"],
    .ifCond tNeedsInit [tInitializeVring] [tUpdateReg "index"],
    .ok] := rfl

theorem row_set_vring_call : row "set_vring_call" = [
    .indexBound "InvalidParam", .vringCall "set_call" ["file"], .ifCond tNeedsInit [tInitializeVring] [], .ok] := rfl

theorem row_set_vring_enable : row "set_vring_enable" = [
    .helperCall "check_feature" ["VhostUserVirtioFeatures::PROTOCOL_FEATURES"] true [.featureAcked 30 "InactiveFeature"],
    .indexBound "InvalidParam", .vringCall "set_enabled" ["enable"], tUpdateReg "index as u8", .ok] := rfl

theorem row_get_vring_base : row "get_vring_base" = [
    .indexBound "InvalidParam", .vringCall "set_queue_ready" ["false"], tUpdateReg "index as u8",
    .vringGet "queue_next_avail" "next_avail",
    .vringCall "set_kick" ["None"], .vringCall "set_call" ["None"],
    .okValue "VhostUserVringState::new(index, u32::from(next_avail))"] := rfl

theorem row_set_features : row "set_features" = [
    .valueCheck "(features & !self.backend.features()) != 0" "InvalidParam",
    .setField "acked_features" "features", .setField "features_acked" "true",
    .ifCond "self.acked_features & VhostUserVirtioFeatures::PROTOCOL_FEATURES.bits() == 0"
      [.forEachVring [.vringCall "set_enabled" ["true"], tUpdateReg "index as u8"]] [],
    .bind "event_idx" "(self.acked_features & (1 << VIRTIO_RING_F_EVENT_IDX)) != 0",
    .forEachVring [.vringCall "set_queue_event_idx" ["event_idx"]],
    .backendCall "set_event_idx" ["event_idx"], .backendCall "acked_features" ["self.acked_features"], .ok] := rfl

theorem row_reset_device : row "reset_device" = [
    .forEachVring [.vringCall "set_enabled" ["false"], tUpdateReg "index as u8"],
    .setField "features_acked" "false", .setField "acked_features" "0",
    .backendCall "reset_device" [], .ok] := rfl

/-- the pinned rule of `set_vring_kick` as an edit of the row -/
theorem pinned_row : pinned (row "set_vring_kick") = [
    .indexBound "InvalidParam",
    .vringCall "set_kick" ["file"],
    .ifCond tNeedsInit [tInitializeVring] [],
    .ok] := by decide

/-- the reply owed for the handler's result of a request that is acknowledged -/
def ackReply (p : St × HRes) : St × Reply :=
  match p.2 with
  | .err => ({ p.1 with conn := false }, .fail)
  | _ => (p.1, .ok)

/-- … and of GET_VRING_BASE, which is answered with the handler's value (an error ends the connection without one) -/
def baseReply (p : St × HRes) : St × Reply :=
  match p.2 with
  | .base r v => (p.1, .base r v)
  | _ => ({ p.1 with conn := false }, .closed)

/-- the descriptor a message carries -/
def carried (s : St) (fd : Bool) : Option Evt := if fd then some s.next else none
def received (s : St) (fd : Bool) : St := if fd then alloc s else s

theorem received_n (s : St) (fd : Bool) : (received s fd).n = s.n := by cases fd <;> rfl
theorem received_old (s : St) (fd : Bool) : (received s fd).old = s.old := by cases fd <;> rfl

theorem evR_indexBound_ok (s : RS) (e : String) (h : s.r < s.st.n) : evR (.indexBound e) s = s := by
  simp [evR, actR, h]
theorem evR_indexBound_fail (s : RS) (e : String) (h : ¬ s.r < s.st.n) : evR (.indexBound e) s = fail s := by
  simp [evR, actR, h]

/-- `vring.set_kick(new)`: the ring's descriptor is replaced, the previous one closed -/
theorem evR_set_kick (s : RS) (a : String) :
    evR (.vringCall "set_kick" [a]) s =
      { s with st := match (s.st.ring s.r).kick with
                     | some k => closeFd (setRing s.st s.r { s.st.ring s.r with kick := fdArg s a }) k
                     | none => setRing s.st s.r { s.st.ring s.r with kick := fdArg s a } } := by
  simp only [evR, actR, vringCallR]; rfl

/-- **SET_VRING_KICK, repaired tree** -/
theorem setVringKick_is_row (s : St) (r : Nat) (fd : Bool) (hold : s.old = false) :
    setVringKick s r fd = ackReply (handle "set_vring_kick" (received s fd) r {} (carried s fd)) := by
  have hold' : (received s fd).old = false := by rw [received_old, hold]
  generalize hs0 : received s fd = s0 at hold'
  have hs0' : (if fd then alloc s else s) = s0 := hs0
  generalize hnew : carried s fd = new
  have hnew' : (if fd then some s.next else none) = new := hnew
  simp only [setVringKick, hs0', hnew']
  unfold handle handleEvs startR
  rw [row_set_vring_kick]
  by_cases hr : r < s0.n
  · simp only [hr, if_true]
    rw [evsR_step (evR_indexBound_ok _ _ hr) rfl, evsR_step (evR_unregister _ rfl) rfl, evsR_step (evR_set_kick _ _) rfl]
    simp only [installKick, replaceKick, hold', Bool.false_eq_true, if_false, fdArg, if_true]
    have hring : ∀ t : St, t.ring = s0.ring → t.ring r = s0.ring r := fun t h => by rw [h]
    cases hk : (s0.ring r).kick with
    | none =>
      simp only [hk]
      by_cases hn : needsInit (setRing s0 r { s0.ring r with kick := new }) r = true
      · have hc : cond tNeedsInit (sync ⟨setRing s0 r { s0.ring r with kick := new }, r, {}, new, none, .run⟩) = true := by
          simpa [cond_needsInit, sync, needsInit] using hn
        rw [evsR_step (s1 := ⟨initializeVring (setRing s0 r { s0.ring r with kick := new }) r, r, {}, new, none, .run⟩)
          (by simp only [evR]; rw [if_neg (by decide), if_pos hc, evsR_step (evR_initializeVring _ rfl) rfl]; rfl) rfl]
        simp [evsR, evR, actR, resultR, ackReply, hn]
      · have hc : cond tNeedsInit (sync ⟨setRing s0 r { s0.ring r with kick := new }, r, {}, new, none, .run⟩) = false := by
          simpa [cond_needsInit, sync, needsInit] using hn
        rw [evsR_step (s1 := ⟨updateReg (setRing s0 r { s0.ring r with kick := new }) r, r, {}, new, none, .run⟩)
          (by simp only [evR]; rw [if_neg (by decide), hc]; simp only [Bool.false_eq_true, if_false]
              rw [evsR_step (evR_updateReg _ _ rfl) rfl]; rfl) rfl]
        have ho : (setRing s0 r { s0.ring r with kick := new }).old = false := hold'
        simp [evsR, evR, actR, resultR, ackReply, hn, ho]
    | some k =>
      have e1 : (epollDel s0 k).ring r = s0.ring r := rfl
      simp only [hk, e1]
      generalize hs3 : closeFd (setRing (epollDel s0 k) r { s0.ring r with kick := new }) k = s3
      by_cases hn : needsInit s3 r = true
      · have hc : cond tNeedsInit (sync ⟨s3, r, {}, new, none, .run⟩) = true := by
          simpa [cond_needsInit, sync, needsInit] using hn
        rw [evsR_step (s1 := ⟨initializeVring s3 r, r, {}, new, none, .run⟩)
          (by simp only [evR]; rw [if_neg (by decide), if_pos hc, evsR_step (evR_initializeVring _ rfl) rfl]; rfl) rfl]
        have ho : s3.old = false := by
          rw [← hs3]; unfold closeFd; split <;> simp [setRing, epollDel, hold']
        simp [evsR, evR, actR, resultR, ackReply, hn, ho]
      · have hc : cond tNeedsInit (sync ⟨s3, r, {}, new, none, .run⟩) = false := by
          simpa [cond_needsInit, sync, needsInit] using hn
        rw [evsR_step (s1 := ⟨updateReg s3 r, r, {}, new, none, .run⟩)
          (by simp only [evR]; rw [if_neg (by decide), hc]; simp only [Bool.false_eq_true, if_false]
              rw [evsR_step (evR_updateReg _ _ rfl) rfl]; rfl) rfl]
        have ho : s3.old = false := by
          rw [← hs3]; unfold closeFd; split <;> simp [setRing, epollDel, hold']
        simp [evsR, evR, actR, resultR, ackReply, hn, ho]
  · simp only [hr, if_false]
    rw [evsR_stop .err (evR_indexBound_fail _ _ hr) rfl]
    simp [fail, resultR, ackReply]

/-- **SET_VRING_KICK, pinned rule** (`old = true`): the row without `unregister_vring_kick` and without the `else` branch -/
theorem setVringKick_pinned_is_row (s : St) (r : Nat) (fd : Bool) (hold : s.old = true) :
    setVringKick s r fd =
      ackReply (handleEvs (pinned (row "set_vring_kick")) (received s fd) r {} (carried s fd)) := by
  have hold' : (received s fd).old = true := by rw [received_old, hold]
  generalize hs0 : received s fd = s0 at hold'
  have hs0' : (if fd then alloc s else s) = s0 := hs0
  generalize hnew : carried s fd = new
  have hnew' : (if fd then some s.next else none) = new := hnew
  simp only [setVringKick, hs0', hnew']
  unfold handleEvs startR
  rw [pinned_row]
  by_cases hr : r < s0.n
  · simp only [hr, if_true]
    rw [evsR_step (evR_indexBound_ok _ _ hr) rfl, evsR_step (evR_set_kick _ _) rfl]
    simp only [installKick, replaceKick, hold', if_true, fdArg]
    have key : ∀ s3 : St, s3.old = true →
        (if needsInit s3 r = true then initializeVring s3 r else if s3.old = true then s3 else updateReg s3 r, Reply.ok) =
        ackReply (resultR (evsR [.ifCond tNeedsInit [tInitializeVring] [], .ok] ⟨s3, r, {}, new, none, .run⟩)) := by
      intro s3 ho
      by_cases hn : needsInit s3 r = true
      · have hc : cond tNeedsInit (sync ⟨s3, r, {}, new, none, .run⟩) = true := by
          simpa [cond_needsInit, sync, needsInit] using hn
        rw [evsR_step (s1 := ⟨initializeVring s3 r, r, {}, new, none, .run⟩)
          (by simp only [evR]; rw [if_neg (by decide), if_pos hc, evsR_step (evR_initializeVring _ rfl) rfl]; rfl) rfl]
        simp [evsR, evR, actR, resultR, ackReply, hn]
      · have hc : cond tNeedsInit (sync ⟨s3, r, {}, new, none, .run⟩) = false := by
          simpa [cond_needsInit, sync, needsInit] using hn
        rw [evsR_step (s1 := ⟨s3, r, {}, new, none, .run⟩)
          (by simp only [evR]; rw [if_neg (by decide), hc]; simp only [Bool.false_eq_true, if_false]; rfl) rfl]
        simp [evsR, evR, actR, resultR, ackReply, hn, ho]
    cases hk : (s0.ring r).kick with
    | none => exact key _ hold'
    | some k =>
      apply key
      have : ∀ (t : St) (k : Evt), (closeFd t k).old = t.old := by
        intro t k; unfold closeFd; split <;> rfl
      rw [this]; exact hold'
  · simp only [hr, if_false]
    rw [evsR_stop .err (evR_indexBound_fail _ _ hr) rfl]
    simp [fail, resultR, ackReply]

theorem evR_set_call (s : RS) (a : String) :
    evR (.vringCall "set_call" [a]) s = { s with st := setRing s.st s.r { s.st.ring s.r with call := fdArg s a } } := by
  simp only [evR, actR, vringCallR]; rfl

/-- **SET_VRING_CALL** -/
theorem setVringCall_is_row (s : St) (r : Nat) (fd : Bool) :
    setVringCall s r fd = ackReply (handle "set_vring_call" (received s fd) r {} (carried s fd)) := by
  generalize hs0 : received s fd = s0
  have hs0' : (if fd then alloc s else s) = s0 := hs0
  generalize hnew : carried s fd = new
  have hnew' : (if fd then some s.next else none) = new := hnew
  simp only [setVringCall, hs0', hnew']
  unfold handle handleEvs startR
  rw [row_set_vring_call]
  by_cases hr : r < s0.n
  · simp only [hr, if_true]
    rw [evsR_step (evR_indexBound_ok _ _ hr) rfl, evsR_step (evR_set_call _ _) rfl]
    simp only [fdArg, if_true]
    generalize hs2 : setRing s0 r { s0.ring r with call := new } = s2
    by_cases hn : needsInit s2 r = true
    · have hc : cond tNeedsInit (sync ⟨s2, r, {}, new, none, .run⟩) = true := by
        simpa [cond_needsInit, sync, needsInit] using hn
      rw [evsR_step (s1 := ⟨initializeVring s2 r, r, {}, new, none, .run⟩)
        (by simp only [evR]; rw [if_neg (by decide), if_pos hc, evsR_step (evR_initializeVring _ rfl) rfl]; rfl) rfl]
      simp [evsR, evR, actR, resultR, ackReply, hn]
    · have hc : cond tNeedsInit (sync ⟨s2, r, {}, new, none, .run⟩) = false := by
        simpa [cond_needsInit, sync, needsInit] using hn
      rw [evsR_step (s1 := ⟨s2, r, {}, new, none, .run⟩)
        (by simp only [evR]; rw [if_neg (by decide), hc]; simp only [Bool.false_eq_true, if_false]; rfl) rfl]
      simp [evsR, evR, actR, resultR, ackReply, hn]
  · simp only [hr, if_false]
    rw [evsR_stop .err (evR_indexBound_fail _ _ hr) rfl]
    simp [fail, resultR, ackReply]

theorem evR_checkFeature_ok (s : RS) (h : s.st.ackedH = true) (hs : s.flow = .run) :
    evR (.helperCall "check_feature" ["VhostUserVirtioFeatures::PROTOCOL_FEATURES"] true [.featureAcked 30 "InactiveFeature"]) s = s := by
  obtain ⟨st, r, x, file, fd, flow⟩ := s
  simp only at hs h; subst hs
  simp [evR, evsR, actR, h, afterCall]

theorem evR_checkFeature_fail (s : RS) (h : s.st.ackedH = false) (hs : s.flow = .run) :
    evR (.helperCall "check_feature" ["VhostUserVirtioFeatures::PROTOCOL_FEATURES"] true [.featureAcked 30 "InactiveFeature"]) s =
      fail s := by
  obtain ⟨st, r, x, file, fd, flow⟩ := s
  simp only at hs h; subst hs
  simp [evR, evsR, actR, h, afterCall, fail]

/-- **SET_VRING_ENABLE**: the crate's own check of its copy of the feature word first (outside the handler), then the
row: handler's feature check, index, `set_enabled`, `update_vring_registration` — in this order -/
theorem setVringEnable_is_row (s : St) (r : Nat) (on : Bool) :
    setVringEnable s r on =
      if !s.ackedC then ({ s with conn := false }, .closed)
      else ackReply (handle "set_vring_enable" s r { enable := on } none) := by
  unfold setVringEnable handle handleEvs startR
  rw [row_set_vring_enable]
  cases hC : s.ackedC with
  | false => simp
  | true =>
    simp only [Bool.not_true, Bool.false_eq_true, if_false]
    cases hH : s.ackedH with
    | false =>
      rw [evsR_stop .err (evR_checkFeature_fail _ hH rfl) rfl]
      simp [fail, resultR, ackReply, hC, hH]
    | true =>
      rw [evsR_step (evR_checkFeature_ok _ hH rfl) rfl]
      by_cases hr : r < s.n
      · rw [evsR_step (evR_indexBound_ok _ _ hr) rfl]
        rw [evsR_step (s1 := ⟨setRing s r { s.ring r with enabled := on }, r, { enable := on }, none, none, .run⟩)
          (by simp [evR, actR, vringCallR, cond_enable, sync]) rfl]
        rw [evsR_step (evR_updateReg _ _ rfl) rfl]
        simp [evsR, evR, actR, resultR, ackReply, hr, setEnabled, hC, hH]
      · rw [evsR_stop .err (evR_indexBound_fail _ _ hr) rfl]
        simp [fail, resultR, ackReply, hr, hC, hH]

theorem closeFd_setRing (s : St) (r : Nat) (v : VRing) (k : Evt) :
    setRing (closeFd s k) r v = closeFd (setRing s r v) k := by
  unfold closeFd
  have : (setRing s r v).peerOpen = s.peerOpen := rfl
  rw [this]
  split <;> rfl

theorem closeFd_ring (s : St) (k : Evt) : (closeFd s k).ring = s.ring := by
  unfold closeFd; split <;> rfl

theorem setRing_setRing (s : St) (r : Nat) (a b : VRing) : setRing (setRing s r a) r b = setRing s r b := by
  have : upd (upd s.ring r a) r b = upd s.ring r b := by
    funext j; simp only [upd]; split <;> rfl
  simp only [setRing, this]

theorem setRing_ring_self (s : St) (r : Nat) (a : VRing) : (setRing s r a).ring r = a := by simp [setRing, upd]

theorem fdArg_None (s : RS) : fdArg s "None" = none := by simp [fdArg]

/-- **GET_VRING_BASE**: not ready, registration updated, *then* both descriptors dropped -/
theorem getVringBase_is_row (s : St) (r : Nat) :
    getVringBase s r = baseReply (handle "get_vring_base" s r {} none) := by
  unfold getVringBase handle handleEvs startR
  rw [row_get_vring_base]
  by_cases hr : r < s.n
  · rw [evsR_step (evR_indexBound_ok _ _ hr) rfl]
    rw [evsR_step (s1 := ⟨setRing s r { s.ring r with ready := false }, r, {}, none, none, .run⟩)
      (by simp [evR, actR, vringCallR, cond_false]) rfl]
    rw [evsR_step (evR_updateReg _ _ rfl) rfl]
    have hb : (updateReg (setRing s r { s.ring r with ready := false }) r).base r = s.base r := by
      rw [Lemmas.HandlerRing.updateReg_base]; rfl
    simp only [hr, if_true, stopRing]
    generalize updateReg (setRing s r { s.ring r with ready := false }) r = s1 at hb ⊢
    rw [evsR_step (s1 := ⟨s1, r, { next_avail := s1.base r }, none, none, .run⟩) (by simp [evR, actR]) rfl]
    rw [evsR_step (evR_set_kick _ _) rfl, evsR_step (evR_set_call _ _) rfl]
    simp only [fdArg_None, evsR, evR, actR, resultR, baseReply, hb]
    cases hk : (s1.ring r).kick with
    | none =>
      simp only [setRing_ring_self, setRing_setRing]
    | some k =>
      simp only [closeFd_ring, setRing_ring_self, closeFd_setRing, setRing_setRing]
  · rw [evsR_stop .err (evR_indexBound_fail _ _ hr) rfl]
    simp [fail, resultR, baseReply, hr]

theorem testBit_proto (proto : Bool) : (if proto then 0x40000000 else 0 : Nat).testBit 30 = proto := by
  cases proto <;> decide

/-- **SET_FEATURES**: the crate's copy of the word is updated outside the handler; the row sets the handler's, and enables
and re-registers every ring when bit 30 is absent -/
theorem setFeatures_is_row (s : St) (proto : Bool) :
    setFeatures s proto =
      ackReply (handle "set_features" { s with ackedC := proto } 0 { features := if proto then 0x40000000 else 0 } none) := by
  unfold setFeatures handle handleEvs startR
  rw [row_set_features]
  rw [evsR_step (s1 := ⟨{ s with ackedC := proto }, 0, { features := if proto then 0x40000000 else 0 }, none, none, .run⟩)
    (by simp [evR, actR, cond_subset, sync]) rfl]
  rw [evsR_step (s1 := ⟨{ s with ackedC := proto, ackedH := proto }, 0, { features := if proto then 0x40000000 else 0 }, none, none, .run⟩)
    (by simp only [evR, actR, val_features, sync, if_true]; rw [testBit_proto]) rfl]
  rw [evsR_step (s1 := ⟨{ s with ackedC := proto, ackedH := proto }, 0, { features := if proto then 0x40000000 else 0 }, none, none, .run⟩)
    (by simp [evR, actR]) rfl]
  cases proto with
  | true =>
    rw [evsR_step (s1 := ⟨{ s with ackedC := true, ackedH := true }, 0, { features := 0x40000000 }, none, none, .run⟩)
      (by simp [evR, evsR, cond_noProto, sync, ownsRing]) rfl]
    rw [evsR_step (s1 := ⟨{ s with ackedC := true, ackedH := true }, 0, { features := 0x40000000 }, none, none, .run⟩)
      (by simp [evR, actR]) rfl]
    rw [evsR_step (evR_forEachVring_noop _ (by intro t ht; simp [evsR, evR, actR, vringCallR, ht]) _ rfl) rfl]
    simp [evsR, evR, actR, resultR, ackReply]
  | false =>
    rw [evsR_step (s1 := ⟨setAll true { s with ackedC := false, ackedH := false } s.n, 0, { features := 0 }, none, none, .run⟩)
      (by
        simp only [evR]
        rw [if_neg (by decide)]
        have hc : cond "self.acked_features & VhostUserVirtioFeatures::PROTOCOL_FEATURES.bits() == 0"
            (sync ⟨{ s with ackedC := false, ackedH := false }, 0, { features := if false = true then 0x40000000 else 0 }, none, none, .run⟩) = true := by
          simp [cond_noProto, sync]
        rw [if_pos hc, evsR_step (evR_forEachVring_setAll "true" "index as u8" true cond_true _ rfl) rfl]
        simp [evsR]) rfl]
    rw [evsR_step (s1 := ⟨setAll true { s with ackedC := false, ackedH := false } s.n, 0, { features := 0 }, none, none, .run⟩)
      (by simp [evR, actR]) rfl]
    rw [evsR_step (evR_forEachVring_noop _ (by intro t ht; simp [evsR, evR, actR, vringCallR, ht]) _ rfl) rfl]
    simp [evsR, evR, actR, resultR, ackReply]

/-- **RESET_DEVICE**: every ring disabled and re-registered, then the handler's feature word cleared -/
theorem resetDevice_is_row (s : St) : resetDevice s = ackReply (handle "reset_device" s 0 {} none) := by
  unfold resetDevice handle handleEvs startR
  rw [row_reset_device]
  rw [evsR_step (evR_forEachVring_setAll "false" "index as u8" false cond_false _ rfl) rfl]
  rw [evsR_step (s1 := ⟨setAll false s s.n, 0, {}, none, none, .run⟩) (by simp [evR, actR]) rfl]
  rw [evsR_step (s1 := ⟨{ setAll false s s.n with ackedH := false }, 0, {}, none, none, .run⟩)
    (by simp [evR, actR, val_zero]) rfl]
  simp [evsR, evR, actR, resultR, ackReply]

/-! ## `control` -/

/-- **control_is_rows**: with the connection open, every control message is its row of the table, wrapped in what lies
outside the handler (repaired tree) -/
theorem control_is_rows (s : St) (hc : s.conn = true) (hold : s.old = false) :
    (∀ r fd, control s (.setKick r fd) = ackReply (handle "set_vring_kick" (received s fd) r {} (carried s fd))) ∧
    (∀ r fd, control s (.setCall r fd) = ackReply (handle "set_vring_call" (received s fd) r {} (carried s fd))) ∧
    (∀ r on, control s (.setEnable r on) =
      if !s.ackedC then ({ s with conn := false }, .closed)
      else ackReply (handle "set_vring_enable" s r { enable := on } none)) ∧
    (∀ r, control s (.getBase r) = baseReply (handle "get_vring_base" s r {} none)) ∧
    (∀ proto, control s (.setFeatures proto) =
      ackReply (handle "set_features" { s with ackedC := proto } 0 { features := if proto then 0x40000000 else 0 } none)) ∧
    control s .reset = ackReply (handle "reset_device" s 0 {} none) := by
  refine ⟨?_, ?_, ?_, ?_, ?_, ?_⟩
  · intro r fd; rw [← setVringKick_is_row s r fd hold]; simp [Model.RingReg.control, isControl, hc]
  · intro r fd; rw [← setVringCall_is_row s r fd]; simp [Model.RingReg.control, isControl, hc]
  · intro r on; rw [← setVringEnable_is_row s r on]; simp [Model.RingReg.control, isControl, hc]
  · intro r; rw [← getVringBase_is_row s r]; simp [Model.RingReg.control, isControl, hc]
  · intro proto; rw [← setFeatures_is_row s proto]; simp [Model.RingReg.control, isControl, hc]
  · rw [← resetDevice_is_row s]; simp [Model.RingReg.control, isControl, hc]

/-- the pinned tree differs in `set_vring_kick` only: its row without the two calls the repair added -/
theorem control_pinned_kick (s : St) (hc : s.conn = true) (hold : s.old = true) (r : Nat) (fd : Bool) :
    control s (.setKick r fd) =
      ackReply (handleEvs (pinned (row "set_vring_kick")) (received s fd) r {} (carried s fd)) := by
  rw [← setVringKick_pinned_is_row s r fd hold]; simp [Model.RingReg.control, isControl, hc]

end Lemmas.HandlerRing
