import VhostModel.Lemmas.Reach
/-!
# What the request server's handler is invoked with, for each request as the frontend encodes it

One lemma per request type: `dispatch` on the header `⟨code, flags, |body|⟩`, the body built from the caller's
argument values (`u32 i ++ u32 n`, …) and the prescribed descriptors invokes the handler exactly once, with those
values — provided the values fit their wire fields, the gating feature is acknowledged on the server, the header is
not marked as a reply and (where the server runs a non-trivial validator) the validator accepts the body.
-/
namespace Lemmas.ReachSrv
open Base Model.Stream Model.Msgs Model.BackendSrv Lemmas.Encode Lemmas.Reach
open Model.Frontend (u64 u32 u16 regionBytes)

theorem runGuards_cons {st : BSt} {c c' : Ctx} {g : Guard} {rest : List Guard} (h : runGuard st c g = .ok c') :
    runGuards st c (g :: rest) = runGuards st c' rest := by simp [runGuards, h]

theorem runGuards_nil {st : BSt} {c : Ctx} : runGuards st c [] = .ok c := rfl

theorem dispatch_unfold {st : BSt} {hdr : Hdr} {buf : Bytes} {files : Option (List Fd)} {h : HOut}
    (code : Nat) (guards : List Guard) (act : Act) (ha : arms.find? (·.code == hdr.code) = some ⟨code, guards, act⟩) :
    dispatch st hdr buf files h =
      match runGuards st { hdr := hdr, buf := buf, files := files } guards with
      | .error e => { st := st, res := .err e, closed := files.getD [] }
      | .ok c' => runAct st c' h act := by
  simp only [dispatch, ha]
  cases runGuards st { hdr := hdr, buf := buf, files := files } guards <;> rfl

theorem guard_enable01 {st : BSt} {c : Ctx} {e : Nat} (hn : getField c.buf "VhostUserVringState" ["num"] = some e) (he : e ≤ 1) :
    runGuard st c .enable01 = .ok c := by
  simp only [runGuard, srv_g _ _ _ _ hn]
  have : (e == 0 || e == 1) = true := by
    have : e = 0 ∨ e = 1 := by omega
    rcases this with rfl | rfl <;> rfl
  rw [if_pos this]

theorem runAct_ack_calls (st : BSt) (c : Ctx) (h : HOut) (m : String) :
    (runAct st c h (.ack m)).calls = [⟨m, (argsOf m c).1, (argsOf m c).2.1, (argsOf m c).2.2⟩] := by
  simp [runAct]

section
variable (bst : BSt) (fl : Nat) (h : HOut) (hfl : bitSet fl 2 = false)
include hfl

/-! ### requests without a body -/

theorem srv_set_owner : (dispatch bst ⟨3, fl, 0⟩ [] none h).calls = [⟨"set_owner", [], [], []⟩] := by
  rw [dispatch_unfold 3 [.sizeIs .zero] (.ack "set_owner") rfl, runGuards_cons (guard_size_zero (by rfl) (by rfl) (by exact hfl)), runGuards_nil]
  dsimp only
  rw [runAct_ack_calls]; rfl

theorem srv_reset_owner : (dispatch bst ⟨4, fl, 0⟩ [] none h).calls = [⟨"reset_owner", [], [], []⟩] := by
  rw [dispatch_unfold 4 [.sizeIs .zero] (.ack "reset_owner") rfl, runGuards_cons (guard_size_zero (by rfl) (by rfl) (by exact hfl)), runGuards_nil]
  dsimp only
  rw [runAct_ack_calls]; rfl

theorem srv_reset_device (hp : bitSet bst.ackedProto 13 = true) :
    (dispatch bst ⟨34, fl, 0⟩ [] none h).calls = [⟨"reset_device", [], [], []⟩] := by
  rw [dispatch_unfold 34 [.proto 13, .sizeIs .zero] (.ack "reset_device") rfl, runGuards_cons (guard_proto hp), runGuards_cons (guard_size_zero (by rfl) (by rfl) (by exact hfl)), runGuards_nil]
  dsimp only
  rw [runAct_ack_calls]; rfl

theorem srv_get_features : (dispatch bst ⟨1, fl, 0⟩ [] none h).calls = [⟨"get_features", [], [], []⟩] := by
  rw [dispatch_unfold 1 [.sizeIs .zero] (.getFeatures) rfl, runGuards_cons (guard_size_zero (by rfl) (by rfl) (by exact hfl)), runGuards_nil]
  dsimp only
  simp only [runAct]; split <;> rfl

theorem srv_get_protocol_features :
    (dispatch bst ⟨15, fl, 0⟩ [] none h).calls = [⟨"get_protocol_features", [], [], []⟩] := by
  rw [dispatch_unfold 15 [.sizeIs .zero] (.getProtocolFeatures) rfl, runGuards_cons (guard_size_zero (by rfl) (by rfl) (by exact hfl)), runGuards_nil]
  dsimp only
  simp only [runAct]; split <;> rfl

theorem srv_get_queue_num (hp : bitSet bst.ackedProto 0 = true) :
    (dispatch bst ⟨17, fl, 0⟩ [] none h).calls = [⟨"get_queue_num", [], [], []⟩] := by
  rw [dispatch_unfold 17 [.proto 0, .sizeIs .zero] (.replyU64 "get_queue_num") rfl, runGuards_cons (guard_proto hp), runGuards_cons (guard_size_zero (by rfl) (by rfl) (by exact hfl)), runGuards_nil]
  dsimp only
  simp only [runAct]; split <;> rfl

theorem srv_get_max_mem_slots (hp : bitSet bst.ackedProto 15 = true) :
    (dispatch bst ⟨36, fl, 0⟩ [] none h).calls = [⟨"get_max_mem_slots", [], [], []⟩] := by
  rw [dispatch_unfold 36 [.proto 15, .sizeIs .zero] (.replyU64 "get_max_mem_slots") rfl, runGuards_cons (guard_proto hp), runGuards_cons (guard_size_zero (by rfl) (by rfl) (by exact hfl)), runGuards_nil]
  dsimp only
  simp only [runAct]; split <;> rfl

omit hfl in
theorem srv_check_device_state : (dispatch bst ⟨43, fl, 0⟩ [] none h).calls = [⟨"check_device_state", [], [], []⟩] := by
  rw [dispatch_unfold 43 [] .checkDeviceState rfl, runGuards_nil]
  rfl

omit hfl in
theorem srv_get_shmem_config (hp : bitSet bst.ackedProto 21 = true) :
    (dispatch bst ⟨44, fl, 0⟩ [] none h).calls = [⟨"get_shmem_config", [], [], []⟩] := by
  rw [dispatch_unfold 44 [.proto 21] (.getShmem) rfl, runGuards_cons (guard_proto hp), runGuards_nil]
  dsimp only
  simp only [runAct]; split <;> rfl

omit hfl in
theorem srv_postcopy_advise (hp : bitSet bst.ackedProto 8 = true) :
    (dispatch bst ⟨28, fl, 0⟩ [] none h).calls = [⟨"postcopy_advice", [], [], []⟩] := by
  rw [dispatch_unfold 28 [.proto 8] (.fdOrEmpty "postcopy_advice") rfl, runGuards_cons (guard_proto hp), runGuards_nil]
  dsimp only
  rfl

omit hfl in
theorem srv_postcopy_listen (hp : bitSet bst.ackedProto 8 = true) :
    (dispatch bst ⟨29, fl, 0⟩ [] none h).calls = [⟨"postcopy_listen", [], [], []⟩] := by
  rw [dispatch_unfold 29 [.proto 8] (.ack "postcopy_listen") rfl, runGuards_cons (guard_proto hp), runGuards_nil]
  dsimp only
  rw [runAct_ack_calls]; rfl

omit hfl in
theorem srv_postcopy_end (hp : bitSet bst.ackedProto 8 = true) :
    (dispatch bst ⟨30, fl, 0⟩ [] none h).calls = [⟨"postcopy_end", [], [], []⟩] := by
  rw [dispatch_unfold 30 [.proto 8] (.ack "postcopy_end") rfl, runGuards_cons (guard_proto hp), runGuards_nil]
  dsimp only
  rw [runAct_ack_calls]; rfl

/-! ### one 64-bit value -/

theorem srv_set_features (v : Nat) (hv : v < 2^64) :
    (dispatch bst ⟨2, fl, (u64 v).length⟩ (u64 v) none h).calls = [⟨"set_features", [v], [], []⟩] := by
  rw [dispatch_unfold 2 [.body "VhostUserU64"] (.setFeatures) rfl, runGuards_cons (guard_body sz_U64 (by simp [u64]) (by simp [u64]) (by exact hfl) (bodyValid_U64 _ (by simp [u64]))), runGuards_nil]
  dsimp only
  have f := dec_U64 [] v hv
  simp only [List.append_nil] at f
  simp only [runAct, srv_g _ _ _ _ f]

theorem srv_set_protocol_features (v : Nat) (hv : v < 2^64) :
    (dispatch bst ⟨16, fl, (u64 v).length⟩ (u64 v) none h).calls = [⟨"set_protocol_features", [v], [], []⟩] := by
  rw [dispatch_unfold 16 [.body "VhostUserU64"] (.setProtocolFeatures) rfl, runGuards_cons (guard_body sz_U64 (by simp [u64]) (by simp [u64]) (by exact hfl) (bodyValid_U64 _ (by simp [u64]))), runGuards_nil]
  dsimp only
  have f := dec_U64 [] v hv
  simp only [List.append_nil] at f
  simp only [runAct, srv_g _ _ _ _ f]

/-! ### ring messages -/

theorem srv_set_vring_num (i n : Nat) (hi : i < 2^32) (hn : n < 2^32) :
    (dispatch bst ⟨8, fl, (u32 i ++ u32 n).length⟩ (u32 i ++ u32 n) none h).calls = [⟨"set_vring_num", [i, n], [], []⟩] := by
  rw [dispatch_unfold 8 [.body "VhostUserVringState"] (.ack "set_vring_num") rfl, runGuards_cons (guard_body sz_VringState (by simp [u32]) (by simp [u32]) (by exact hfl) (bodyValid_VringState _ (by simp [u32]))), runGuards_nil]
  dsimp only
  rw [runAct_ack_calls]
  obtain ⟨f1, f2⟩ := dec_VringState [] i n hi hn
  simp only [List.append_nil] at f1 f2
  show [Call.mk "set_vring_num" [g _ _ _, g _ _ _] [] []] = _
  rw [srv_g _ _ _ _ f1, srv_g _ _ _ _ f2]

theorem srv_set_vring_base (i n : Nat) (hi : i < 2^32) (hn : n < 2^32) :
    (dispatch bst ⟨10, fl, (u32 i ++ u32 n).length⟩ (u32 i ++ u32 n) none h).calls = [⟨"set_vring_base", [i, n], [], []⟩] := by
  rw [dispatch_unfold 10 [.body "VhostUserVringState"] (.ack "set_vring_base") rfl, runGuards_cons (guard_body sz_VringState (by simp [u32]) (by simp [u32]) (by exact hfl) (bodyValid_VringState _ (by simp [u32]))), runGuards_nil]
  dsimp only
  rw [runAct_ack_calls]
  obtain ⟨f1, f2⟩ := dec_VringState [] i n hi hn
  simp only [List.append_nil] at f1 f2
  show [Call.mk "set_vring_base" [g _ _ _, g _ _ _] [] []] = _
  rw [srv_g _ _ _ _ f1, srv_g _ _ _ _ f2]

theorem srv_get_vring_base (i : Nat) (hi : i < 2^32) :
    (dispatch bst ⟨11, fl, (u32 i ++ u32 0).length⟩ (u32 i ++ u32 0) none h).calls = [⟨"get_vring_base", [i], [], []⟩] := by
  rw [dispatch_unfold 11 [.body "VhostUserVringState"] (.getVringBase) rfl, runGuards_cons (guard_body sz_VringState (by simp [u32]) (by simp [u32]) (by exact hfl) (bodyValid_VringState _ (by simp [u32]))), runGuards_nil]
  dsimp only
  obtain ⟨f1, _⟩ := dec_VringState [] i 0 hi (by omega)
  simp only [List.append_nil] at f1
  simp only [runAct, srv_g _ _ _ _ f1]; split <;> rfl

theorem srv_set_vring_enable (i e : Nat) (hi : i < 2^32) (he : e ≤ 1) (hv : bitSet bst.acked 30 = true) :
    (dispatch bst ⟨18, fl, (u32 i ++ u32 e).length⟩ (u32 i ++ u32 e) none h).calls = [⟨"set_vring_enable", [i, e], [], []⟩] := by
  obtain ⟨f1, f2⟩ := dec_VringState [] i e hi (by omega)
  simp only [List.append_nil] at f1 f2
  rw [dispatch_unfold 18 [.body "VhostUserVringState", .virtio 30, .enable01] (.ack "set_vring_enable") rfl, runGuards_cons (guard_body sz_VringState (by simp [u32]) (by simp [u32]) (by exact hfl) (bodyValid_VringState _ (by simp [u32]))),
      runGuards_cons (guard_virtio hv), runGuards_cons (guard_enable01 (by exact f2) he), runGuards_nil]
  dsimp only
  rw [runAct_ack_calls]
  show [Call.mk "set_vring_enable" [g _ _ _, g _ _ _] [] []] = _
  rw [srv_g _ _ _ _ f1, srv_g _ _ _ _ f2]

theorem srv_set_vring_addr (i fg d u a lg : Nat) (hi : i < 2^32) (hfg : fg < 2^32) (hd : d < 2^64) (hu : u < 2^64)
    (ha : a < 2^64) (hl : lg < 2^64)
    (hv : bodyValid "VhostUserVringAddr" (u32 i ++ u32 fg ++ u64 d ++ u64 u ++ u64 a ++ u64 lg) = some true) :
    (dispatch bst ⟨9, fl, (u32 i ++ u32 fg ++ u64 d ++ u64 u ++ u64 a ++ u64 lg).length⟩
      (u32 i ++ u32 fg ++ u64 d ++ u64 u ++ u64 a ++ u64 lg) none h).calls = [⟨"set_vring_addr", [i, fg, d, u, a, lg], [], []⟩] := by
  rw [dispatch_unfold 9 [.body "VhostUserVringAddr"] (.ack "set_vring_addr") rfl, runGuards_cons (guard_body sz_VringAddr (by simp [u32, u64]) (by simp [u32, u64]) (by exact hfl) (by exact hv)), runGuards_nil]
  dsimp only
  rw [runAct_ack_calls]
  obtain ⟨f1, f2, f3, f4, f5, f6⟩ := dec_VringAddr [] i fg d u a lg hi hfg hd hu ha hl
  simp only [List.append_nil] at f1 f2 f3 f4 f5 f6
  show [Call.mk "set_vring_addr" [g _ _ _, g _ _ _, g _ _ _, g _ _ _, g _ _ _, g _ _ _] [] []] = _
  rw [srv_g _ _ _ _ f1, srv_g _ _ _ _ f2, srv_g _ _ _ _ f3, srv_g _ _ _ _ f4, srv_g _ _ _ _ f5, srv_g _ _ _ _ f6]


omit hfl in
theorem leVal_take_u64 (i : Nat) (hi : i < 2^64) : leVal ((u64 i).take 8) = i := by
  rw [List.take_of_length_le (by simp [u64])]
  exact leVal_leBytes 8 i (by omega)

theorem srv_set_vring_kick (i : Nat) (f : Fd) (hi : i < 256) :
    (dispatch bst ⟨12, fl, (u64 i).length⟩ (u64 i) (some [f]) h).calls = [⟨"set_vring_kick", [i], [], [f]⟩] := by
  rw [dispatch_unfold 12 [.sizeIs (.ofT "VhostUserU64"), .vringFd] (.ack "set_vring_kick") rfl,
    runGuards_cons (guard_size_of sz_U64 (by simp [u64]) (by simp [u64]) (by exact hfl)),
    runGuards_cons (guard_vringFd (v := i) (f := f) (by simp [u64]) (by exact leVal_take_u64 i (by omega)) hi (by rfl)),
    runGuards_nil]
  dsimp only
  rw [runAct_ack_calls]; rfl

theorem srv_set_vring_call (i : Nat) (f : Fd) (hi : i < 256) :
    (dispatch bst ⟨13, fl, (u64 i).length⟩ (u64 i) (some [f]) h).calls = [⟨"set_vring_call", [i], [], [f]⟩] := by
  rw [dispatch_unfold 13 [.sizeIs (.ofT "VhostUserU64"), .vringFd] (.ack "set_vring_call") rfl,
    runGuards_cons (guard_size_of sz_U64 (by simp [u64]) (by simp [u64]) (by exact hfl)),
    runGuards_cons (guard_vringFd (v := i) (f := f) (by simp [u64]) (by exact leVal_take_u64 i (by omega)) hi (by rfl)),
    runGuards_nil]
  dsimp only
  rw [runAct_ack_calls]; rfl

theorem srv_set_vring_err (i : Nat) (f : Fd) (hi : i < 256) :
    (dispatch bst ⟨14, fl, (u64 i).length⟩ (u64 i) (some [f]) h).calls = [⟨"set_vring_err", [i], [], [f]⟩] := by
  rw [dispatch_unfold 14 [.sizeIs (.ofT "VhostUserU64"), .vringFd] (.ack "set_vring_err") rfl,
    runGuards_cons (guard_size_of sz_U64 (by simp [u64]) (by simp [u64]) (by exact hfl)),
    runGuards_cons (guard_vringFd (v := i) (f := f) (by simp [u64]) (by exact leVal_take_u64 i (by omega)) hi (by rfl)),
    runGuards_nil]
  dsimp only
  rw [runAct_ack_calls]; rfl

/-! ### memory regions -/

theorem srv_add_mem_region (gp sz ua mo : Nat) (f : Fd) (hg : gp < 2^64) (hs : sz < 2^64) (hu : ua < 2^64) (hm : mo < 2^64)
    (hp : bitSet bst.ackedProto 15 = true)
    (hv : bodyValid "VhostUserSingleMemoryRegion" (u64 0 ++ u64 gp ++ u64 sz ++ u64 ua ++ u64 mo) = some true) :
    (dispatch bst ⟨37, fl, (u64 0 ++ u64 gp ++ u64 sz ++ u64 ua ++ u64 mo).length⟩
      (u64 0 ++ u64 gp ++ u64 sz ++ u64 ua ++ u64 mo) (some [f]) h).calls = [⟨"add_mem_region", [gp, sz, ua, mo], [], [f]⟩] := by
  rw [dispatch_unfold 37 [.proto 15, .oneFile .invalidParam, .body "VhostUserSingleMemoryRegion"] (.ack "add_mem_region") rfl,
    runGuards_cons (guard_proto hp), runGuards_cons (guard_oneFile (f := f) (by rfl)),
    runGuards_cons (guard_body sz_Single (by simp [u64]) (by simp [u64]) (by exact hfl) (by exact hv)), runGuards_nil]
  dsimp only
  rw [runAct_ack_calls]
  obtain ⟨f1, f2, f3, f4⟩ := dec_Single [] 0 gp sz ua mo (by omega) hg hs hu hm
  simp only [List.append_nil] at f1 f2 f3 f4
  show [Call.mk "add_mem_region" [g _ _ _, g _ _ _, g _ _ _, g _ _ _] [] [f]] = _
  rw [srv_g _ _ _ _ f1, srv_g _ _ _ _ f2, srv_g _ _ _ _ f3, srv_g _ _ _ _ f4]

theorem srv_remove_mem_region (gp sz ua mo : Nat) (hg : gp < 2^64) (hs : sz < 2^64) (hu : ua < 2^64) (hm : mo < 2^64)
    (hp : bitSet bst.ackedProto 15 = true)
    (hv : bodyValid "VhostUserSingleMemoryRegion" (u64 0 ++ u64 gp ++ u64 sz ++ u64 ua ++ u64 mo) = some true) :
    (dispatch bst ⟨38, fl, (u64 0 ++ u64 gp ++ u64 sz ++ u64 ua ++ u64 mo).length⟩
      (u64 0 ++ u64 gp ++ u64 sz ++ u64 ua ++ u64 mo) none h).calls = [⟨"remove_mem_region", [gp, sz, ua, mo], [], []⟩] := by
  rw [dispatch_unfold 38 [.proto 15, .body "VhostUserSingleMemoryRegion"] (.ack "remove_mem_region") rfl,
    runGuards_cons (guard_proto hp),
    runGuards_cons (guard_body sz_Single (by simp [u64]) (by simp [u64]) (by exact hfl) (by exact hv)), runGuards_nil]
  dsimp only
  rw [runAct_ack_calls]
  obtain ⟨f1, f2, f3, f4⟩ := dec_Single [] 0 gp sz ua mo (by omega) hg hs hu hm
  simp only [List.append_nil] at f1 f2 f3 f4
  show [Call.mk "remove_mem_region" [g _ _ _, g _ _ _, g _ _ _, g _ _ _] [] []] = _
  rw [srv_g _ _ _ _ f1, srv_g _ _ _ _ f2, srv_g _ _ _ _ f3, srv_g _ _ _ _ f4]

/-! ### descriptor-carrying requests with a fixed body -/

theorem srv_set_backend_req_fd (f : Fd) (hp : bitSet bst.ackedProto 5 = true) :
    (dispatch bst ⟨21, fl, 0⟩ [] (some [f]) h).calls = [⟨"set_backend_req_fd", [], [], [f]⟩] := by
  rw [dispatch_unfold 21 [.proto 5, .sizeIs .any] .backendReqFd rfl,
    runGuards_cons (guard_proto hp), runGuards_cons (guard_size_any (by rfl) (by exact hfl)), runGuards_nil]
  rfl

theorem srv_set_inflight_fd (ms mo nq qs : Nat) (f : Fd) (h1 : ms < 2^64) (h2 : mo < 2^64) (h3 : nq < 2^16) (h4 : qs < 2^16)
    (hp : bitSet bst.ackedProto 12 = true)
    (hv : bodyValid "VhostUserInflight" (u64 ms ++ u64 mo ++ u16 nq ++ u16 qs ++ [0, 0, 0, 0]) = some true) :
    (dispatch bst ⟨32, fl, (u64 ms ++ u64 mo ++ u16 nq ++ u16 qs ++ [0, 0, 0, 0]).length⟩
      (u64 ms ++ u64 mo ++ u16 nq ++ u16 qs ++ [0, 0, 0, 0]) (some [f]) h).calls =
      [⟨"set_inflight_fd", [ms, mo, nq, qs], [], [f]⟩] := by
  rw [dispatch_unfold 32 [.proto 12, .oneFile .incorrectFds, .body "VhostUserInflight"] (.ack "set_inflight_fd") rfl,
    runGuards_cons (guard_proto hp), runGuards_cons (guard_oneFile (f := f) (by rfl)),
    runGuards_cons (guard_body sz_Inflight (by simp [u64, u16]) (by simp [u64, u16]) (by exact hfl) (by exact hv)), runGuards_nil]
  dsimp only
  rw [runAct_ack_calls]
  obtain ⟨f1, f2, f3, f4⟩ := dec_Inflight [0, 0, 0, 0] ms mo nq qs h1 h2 h3 h4
  show [Call.mk "set_inflight_fd" [g _ _ _, g _ _ _, g _ _ _, g _ _ _] [] [f]] = _
  rw [srv_g _ _ _ _ f1, srv_g _ _ _ _ f2, srv_g _ _ _ _ f3, srv_g _ _ _ _ f4]

theorem srv_get_inflight_fd (ms mo nq qs : Nat) (h1 : ms < 2^64) (h2 : mo < 2^64) (h3 : nq < 2^16) (h4 : qs < 2^16)
    (hp : bitSet bst.ackedProto 12 = true)
    (hv : bodyValid "VhostUserInflight" (u64 ms ++ u64 mo ++ u16 nq ++ u16 qs ++ [0, 0, 0, 0]) = some true) :
    (dispatch bst ⟨31, fl, (u64 ms ++ u64 mo ++ u16 nq ++ u16 qs ++ [0, 0, 0, 0]).length⟩
      (u64 ms ++ u64 mo ++ u16 nq ++ u16 qs ++ [0, 0, 0, 0]) none h).calls =
      [⟨"get_inflight_fd", [ms, mo, nq, qs], [], []⟩] := by
  rw [dispatch_unfold 31 [.proto 12, .body "VhostUserInflight"] .getInflight rfl,
    runGuards_cons (guard_proto hp),
    runGuards_cons (guard_body sz_Inflight (by simp [u64, u16]) (by simp [u64, u16]) (by exact hfl) (by exact hv)), runGuards_nil]
  dsimp only
  obtain ⟨f1, f2, f3, f4⟩ := dec_Inflight [0, 0, 0, 0] ms mo nq qs h1 h2 h3 h4
  simp only [runAct, srv_g _ _ _ _ f1, srv_g _ _ _ _ f2, srv_g _ _ _ _ f3, srv_g _ _ _ _ f4]
  split <;> rfl

theorem srv_set_device_state_fd (d p : Nat) (f : Fd) (hd : d < 2^32) (hp : p < 2^32)
    (hv : bodyValid "VhostUserTransferDeviceState" (u32 d ++ u32 p) = some true) :
    (dispatch bst ⟨42, fl, (u32 d ++ u32 p).length⟩ (u32 d ++ u32 p) (some [f]) h).calls =
      [⟨"set_device_state_fd", [d, p], [], [f]⟩] := by
  rw [dispatch_unfold 42 [.oneFile .incorrectFds, .body "VhostUserTransferDeviceState"] .deviceStateFd rfl,
    runGuards_cons (guard_oneFile (f := f) (by rfl)),
    runGuards_cons (guard_body sz_Transfer (by simp [u32]) (by simp [u32]) (by exact hfl) (by exact hv)), runGuards_nil]
  dsimp only
  obtain ⟨f1, f2⟩ := dec_Transfer [] d p hd hp
  simp only [List.append_nil] at f1 f2
  simp only [runAct, srv_g _ _ _ _ f1, srv_g _ _ _ _ f2]

theorem srv_set_log_base (sz off : Nat) (f : Fd) (hs : sz < 2^64) (ho : off < 2^64)
    (hp : bitSet bst.ackedProto 1 = true)
    (hv : bodyValid "VhostUserLog" (u64 sz ++ u64 off) = some true) :
    (dispatch bst ⟨6, fl, (u64 sz ++ u64 off).length⟩ (u64 sz ++ u64 off) (some [f]) h).calls =
      [⟨"set_log_base", [sz, off], [], [f]⟩] := by
  rw [dispatch_unfold 6 [.proto 1, .oneFile .incorrectFds, .body "VhostUserLog"] .setLogBase rfl,
    runGuards_cons (guard_proto hp), runGuards_cons (guard_oneFile (f := f) (by rfl)),
    runGuards_cons (guard_body sz_Log (by simp [u64]) (by simp [u64]) (by exact hfl) (by exact hv)), runGuards_nil]
  dsimp only
  obtain ⟨f1, f2⟩ := dec_Log [] sz off hs ho
  simp only [List.append_nil] at f1 f2
  simp only [runAct, srv_g _ _ _ _ f1, srv_g _ _ _ _ f2]
  split <;> rfl

theorem srv_get_shared_object (u : Nat) (hu : u < 2^128) (hp : bitSet bst.ackedProto 18 = true)
    (hv : bodyValid "VhostUserSharedMsg" (leBytes 16 u) = some true) :
    (dispatch bst ⟨41, fl, (leBytes 16 u).length⟩ (leBytes 16 u) none h).calls = [⟨"get_shared_object", [u], [], []⟩] := by
  rw [dispatch_unfold 41 [.proto 18, .sizeIs .any, .body "VhostUserSharedMsg"] (.fdOrEmpty "get_shared_object") rfl,
    runGuards_cons (guard_proto hp), runGuards_cons (guard_size_any (by rfl) (by exact hfl)),
    runGuards_cons (guard_body sz_Shared (by simp) (by simp) (by exact hfl) (by exact hv)), runGuards_nil]
  dsimp only
  have f1 := dec_Shared [] u hu
  simp only [List.append_nil] at f1
  simp only [runAct, srv_g _ _ _ _ f1]
  rfl

end
end Lemmas.ReachSrv
