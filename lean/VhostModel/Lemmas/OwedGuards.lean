import VhostModel.Lemmas.Owed
import VhostModel.Props.C04
/-!
# Helper lemmas for C04Owed: the abstraction to the Spec, what `classify = accept` gives, guard steps
-/
namespace Lemmas.OwedGuards
open Base Model.BackendSrv Model.Msgs Spec.Proto Lemmas.Owed
abbrev Fd := Model.Stream.Fd

/-- the negotiation state an observer of the wire sees -/
def absNeg (st : BSt) : Spec.Proto.Neg := ⟨st.virtio, st.acked, st.ackedProto⟩
/-- the framed request as the Spec sees it -/
def reqOf (hdr : Hdr) (buf : Bytes) (files : Option (List Fd)) : Spec.Proto.Req :=
  ⟨hdr.code, hdr.flags, hdr.size, buf, (files.getD []).length⟩
/-- the handler script: same fields on both sides -/
def hOut (h : Model.BackendSrv.HOut) : Spec.Proto.HOut := ⟨h.ok, h.v, h.b, h.file⟩

theorem accept_imp (n : Neg) (r : Req) (h : classify n r = .accept) :
    Spec.validHeader Spec.frontendCodes r.code r.flags r.size ∧ gateOk n r.code = true ∧ r.code ∈ implemented ∧ r.nfds ≤ 32 ∧
    r.body.length = r.size ∧ bodyDecodable r.code r.body = true ∧ Spec.Proto.bodyValid r.code r.body = true ∧
    r.nfds = filesPrescribed r.code r.body ∧ r.isReply = false ∧ (∀ k, fixedSize r.code = some k → r.size = k) := by
  unfold classify at h
  repeat' split at h
  all_goals simp_all

theorem gate_fact {st : BSt} {code : Nat} (h : gateOk (absNeg st) code = true) :
    (∀ b, gate code = some b → bitSet st.ackedProto b = true) ∧ (code = 18 → bitSet st.acked 30 = true) := by
  simp only [gateOk, absNeg, Bool.and_eq_true, Bool.or_eq_true, bne_iff_ne, ne_eq] at h
  refine ⟨?_, ?_⟩
  · intro b hb; have := h.1; rw [hb] at this; exact this
  · intro hc; rcases h.2 with h2 | h2
    · simp [hc] at h2
    · exact h2

/-- everything `classify = accept` says, in the model's vocabulary -/
structure Facts (st : BSt) (hdr : Hdr) (buf : Bytes) (files : Option (List Fd)) : Prop where
  proto : ∀ b, gate hdr.code = some b → bitSet st.ackedProto b = true
  virtio : hdr.code = 18 → bitSet st.acked 30 = true
  impl : hdr.code ∈ implemented
  len : buf.length = hdr.size
  dec : bodyDecodable hdr.code buf = true
  valid : Spec.Proto.bodyValid hdr.code buf = true
  nfds : (files.getD []).length = filesPrescribed hdr.code buf
  notReply : hdr.flags.testBit 2 = false
  fixed : ∀ k, fixedSize hdr.code = some k → hdr.size = k
  small : hdr.size ≤ 4096
  hdrOk : Spec.validHeader Spec.frontendCodes hdr.code hdr.flags hdr.size

theorem facts_of_accept {st : BSt} {hdr : Hdr} {buf : Bytes} {files : Option (List Fd)}
    (ha : classify (absNeg st) (reqOf hdr buf files) = .accept) : Facts st hdr buf files := by
  obtain ⟨hv, hg, hi, -, hlen, hdec, hbv, hnf, hrep, hfix⟩ := accept_imp _ _ ha
  exact ⟨(gate_fact hg).1, (gate_fact hg).2, hi, hlen, hdec, hbv, hnf, hrep, hfix, hv.2.1, hv⟩

theorem one_file {files : Option (List Fd)} (h : (files.getD []).length = 1) : ∃ f, files = some [f] := by
  cases files with
  | none => simp at h
  | some l => match l, h with
    | [f], _ => exact ⟨f, rfl⟩

theorem no_file {files : Option (List Fd)} (h : (files.getD []).length = 0) : files = none ∨ files = some [] := by
  cases files with
  | none => left; rfl
  | some l => match l, h with
    | [], _ => right; rfl

/-! ### guard steps -/
theorem rg_nil (st : BSt) (c : Ctx) : runGuards st c [] = .ok c := rfl
theorem rg_proto {st : BSt} {c : Ctx} {b : Nat} {rest : List Guard} (h : bitSet st.ackedProto b = true) :
    runGuards st c (.proto b :: rest) = runGuards st c rest := by simp [runGuards, runGuard, h]
theorem rg_virtio {st : BSt} {c : Ctx} {b : Nat} {rest : List Guard} (h : bitSet st.acked b = true) :
    runGuards st c (.virtio b :: rest) = runGuards st c rest := by simp [runGuards, runGuard, h]
theorem rg_zero {st : BSt} {c : Ctx} {rest : List Guard} (h : checkSize c.hdr c.buf.length 0 = true) :
    runGuards st c (.sizeIs .zero :: rest) = runGuards st c rest := by simp [runGuards, runGuard, h]
theorem rg_any {st : BSt} {c : Ctx} {rest : List Guard} (h : checkSize c.hdr c.buf.length c.hdr.size = true) :
    runGuards st c (.sizeIs .any :: rest) = runGuards st c rest := by simp [runGuards, runGuard, h]
theorem rg_ofT {st : BSt} {c : Ctx} {rest : List Guard} {ty : String} {n : Nat} (hs : structSize ty = some n)
    (h : checkSize c.hdr c.buf.length n = true) :
    runGuards st c (.sizeIs (.ofT ty) :: rest) = runGuards st c rest := by simp [runGuards, runGuard, h, hs]
theorem rg_body {st : BSt} {c : Ctx} {rest : List Guard} {ty : String} {n : Nat} (hs : structSize ty = some n)
    (h : checkSize c.hdr c.buf.length n = true) (hb : Model.BackendSrv.bodyValid ty c.buf = some true) :
    runGuards st c (.body ty :: rest) = runGuards st c rest := by simp [runGuards, runGuard, h, hs, hb]
theorem rg_oneFile {st : BSt} {c : Ctx} {rest : List Guard} {e : Err} {f : Fd} (h : c.files = some [f]) :
    runGuards st c (.oneFile e :: rest) = runGuards st { c with file := some f, files := none } rest := by
  simp [runGuards, runGuard, h, takeSingle]
theorem rg_enable {st : BSt} {c : Ctx} {rest : List Guard} (h : g c.buf "VhostUserVringState" ["num"] ≤ 1) :
    runGuards st c (.enable01 :: rest) = runGuards st c rest := by
  have : g c.buf "VhostUserVringState" ["num"] = 0 ∨ g c.buf "VhostUserVringState" ["num"] = 1 := by omega
  rcases this with h | h <;> simp [runGuards, runGuard, h]

theorem checkSize_ok {hdr : Hdr} {len n : Nat} (h1 : hdr.size = n) (h2 : hdr.flags.testBit 2 = false) (h3 : len = n) :
    checkSize hdr len n = true := by simp [checkSize, h1, h2, h3, Hdr.isReply, bitSet]

theorem dispatch_arm {st : BSt} {hdr : Hdr} {buf : Bytes} {files : Option (List Fd)} {h : Model.BackendSrv.HOut}
    {arm : Arm} {c' : Ctx} (ha : arms.find? (·.code == hdr.code) = some arm)
    (hg : runGuards st { hdr := hdr, buf := buf, files := files } arm.guards = .ok c') :
    dispatch st hdr buf files h = runAct st c' h arm.act := by
  simp [dispatch, ha, hg]

theorem rg_vringFd_some {st : BSt} {c : Ctx} {rest : List Guard} {f : Fd} (hf : c.files = some [f])
    (hl : 8 ≤ c.buf.length) (hb : bitSet (leVal (c.buf.take 8)) 8 = false) :
    runGuards st c (.vringFd :: rest) =
      runGuards st { c with file := some f, files := none, index8 := leVal (c.buf.take 8) % 256 } rest := by
  have : ¬ c.buf.length < 8 := by omega
  simp [runGuards, runGuard, hf, takeSingle, this, hb]

theorem rg_vringFd_none {st : BSt} {c : Ctx} {rest : List Guard} (hf : c.files = none ∨ c.files = some [])
    (hl : 8 ≤ c.buf.length) (hb : bitSet (leVal (c.buf.take 8)) 8 = true) :
    runGuards st c (.vringFd :: rest) =
      runGuards st { c with file := none, files := none, index8 := leVal (c.buf.take 8) % 256 } rest := by
  have : ¬ c.buf.length < 8 := by omega
  rcases hf with hf | hf <;> simp [runGuards, runGuard, hf, takeSingle, this, hb]

/-! ### the statement proved arm by arm -/

/-- the bytes (and descriptor count) written satisfy the Spec's requirement -/
def Sat (hdr : Hdr) (o : Out) : Owed → Prop
  | .nothing => o.out = [] ∧ o.outFds = 0
  | .exact p k => o.out = replyHdr hdr p.length ++ p ∧ o.outFds = k
  | .ack zero => ∃ v, v < 2^64 ∧ o.out = replyHdr hdr 8 ++ leBytes 8 v ∧ (v = 0 ↔ zero = true) ∧ o.outFds = 0
  | .status okb k => ∃ v, v < 2^64 ∧ o.out = replyHdr hdr 8 ++ leBytes 8 v ∧ (v % 256 = 0 ↔ okb = true) ∧ o.outFds = k

/-- the handler invocation `Spec.Proto.expectedCall` prescribes; the files are the request's when the call uses them -/
def callOf (r : Req) (files : Option (List Fd)) : Call :=
  let e := expectedCall r
  ⟨e.1, e.2.1, e.2.2.1, if e.2.2.2 then files.getD [] else []⟩

/-- call as expected ∧ reply as owed ∧ negotiation state commutes -/
def Good (st : BSt) (hdr : Hdr) (buf : Bytes) (files : Option (List Fd)) (h : Model.BackendSrv.HOut) : Prop :=
  (dispatch st hdr buf files h).calls = [callOf (reqOf hdr buf files) files] ∧
  Sat hdr (dispatch st hdr buf files h) (owed (absNeg st) (reqOf hdr buf files) (hOut h)) ∧
  absNeg (dispatch st hdr buf files h).st = updateNeg (absNeg st) (reqOf hdr buf files) (hOut h)

/-- what an acknowledgement looks like -/
theorem sat_ack (st : BSt) (hdr : Hdr) (ok : Bool) (o : Out) (hi : Props.C04.Inv st) (ho : o.out = ackOf st hdr ok)
    (hf : o.outFds = 0) :
    Sat hdr o (if (hdr.flags.testBit 3 && (absNeg st).replyAck) = true then .ack ok else .nothing) := by
  have e : (absNeg st).replyAck = st.replyAck := by rw [hi]; rfl
  rw [e]
  by_cases hc : (hdr.flags.testBit 3 && st.replyAck) = true
  · rw [if_pos hc]
    simp only [Bool.and_eq_true] at hc
    refine ⟨if ok then 0 else 1, by split <;> omega, ?_, ?_, hf⟩
    · rw [ho]; simp [ackOf, hc.1, hc.2, Hdr.needReply, bitSet]
    · cases ok <;> simp
  · rw [if_neg hc]
    refine ⟨?_, hf⟩
    rw [ho]
    cases h1 : st.replyAck <;> cases h2 : hdr.flags.testBit 3 <;> simp_all [ackOf, Hdr.needReply, bitSet]

end Lemmas.OwedGuards
