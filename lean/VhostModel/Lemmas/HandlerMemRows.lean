import VhostModel.Lemmas.HandlerMem
/-!
# `Model.MemTable`'s three operations are the interpretation of the handler's rows (C13)

`setMemTable_is_row`, `addMemRegion_is_row`, `removeMemRegion_is_row`: for every state and every request, the model's
operation is `runRow` of the method's row — the same guards (a request is refused exactly when one of the row's fallible
library steps fails, in the row's order) and the same state changes.  `effects_after_fallible` is the shape that makes a
failed update change nothing, read off the rows themselves.
-/
namespace Lemmas.HandlerMem
open Base Model.MemTable Model.HandlerTable
open Spec.MemTable (Req Op)

set_option linter.unusedSimpArgs false

theorem row_set_mem_table : row "set_mem_table" = [
    .localNew "regions", .localNew "mappings",
    .forEach "ctx.iter().zip(files)" loopBody,
    .libTry "GuestMemoryMmap::from_regions" "ReqHandlerError",
    .memReplace,
    .backendTry "update_memory" ["self.atomic_mem.clone()"] "ReqHandlerError",
    .mappingsAssign, .ok] := rfl

theorem row_add_mem_region : row "add_mem_region" = [
    .libTry "mmap_region" "*", .libTry "GuestRegionMmap::new" "ReqHandlerError", logRegion,
    .bind "addr_mapping" addrMappingLit,
    .libTry "insert_region" "ReqHandlerError",
    .memReplace,
    .backendTry "update_memory" ["self.atomic_mem.clone()"] "ReqHandlerError",
    .mappingsPush "addr_mapping", .ok] := rfl

theorem row_remove_mem_region : row "remove_mem_region" = [
    .libTry "remove_region" "ReqHandlerError",
    .memReplace,
    .backendTry "update_memory" ["self.atomic_mem.clone()"] "ReqHandlerError",
    .mappingsRetain "mapping.gpa_base != region.guest_phys_addr", .ok] := rfl

theorem cond_retain : cond "mapping.gpa_base != region.guest_phys_addr" =
    (fun x => (x.mapping_gpa_base != x.region_guest_phys_addr)) := rfl

/-- **SET_MEM_TABLE** -/
theorem setMemTable_is_row (s : St) (rs : List Req) (q : Req) :
    setMemTable s rs = runRow "set_mem_table" s rs q := by
  unfold runRow startM setMemTable
  rw [row_set_mem_table]
  rw [evsM_step (s1 := ⟨s, rs, q, [], [], none, none, .run⟩) (by simp [evM, actM]) rfl]
  rw [evsM_step (s1 := ⟨s, rs, q, [], [], none, none, .run⟩) (by simp [evM, actM]) rfl]
  have hl := evM_loop ⟨s, rs, q, [], [], none, none, .run⟩ rfl
  simp only at hl
  cases hb : buildAll rs with
  | none =>
    rw [hb] at hl
    obtain ⟨h1, h2⟩ := hl
    rw [evsM_stop false rfl h1]
    simp [resultM, h1, h2]
  | some p =>
    obtain ⟨gs, ms⟩ := p
    rw [hb] at hl
    obtain ⟨c, q', h⟩ := hl
    rw [evsM_step h rfl]
    simp only [List.nil_append]
    cases hf : fromRegions gs with
    | none =>
      rw [evsM_stop false (s1 := fail ⟨s, rs, q', gs, ms, c, none, .run⟩) (by simp [evM, actM, libTryM, hf]) rfl]
      simp [resultM, fail]
    | some m =>
      rw [evsM_step (s1 := ⟨s, rs, q', gs, ms, c, some m, .run⟩) (by simp [evM, actM, libTryM, hf]) rfl]
      simp [evsM, evM, actM, resultM]

/-- **ADD_MEM_REG** -/
theorem addMemRegion_is_row (s : St) (r : Req) (rs : List Req) :
    addMemRegion s r = runRow "add_mem_region" s rs r := by
  unfold runRow startM addMemRegion mmapRegion
  rw [row_add_mem_region]
  by_cases h1 : (r.mapOk && decide (0 < r.size)) = true
  · rw [if_pos h1]
    rw [evsM_step (s1 := ⟨s, rs, r, [], [], none, none, .run⟩) (by simp [evM, actM, libTryM, h1]) rfl]
    by_cases h2 : r.gpa + r.size < 2 ^ 64
    · rw [if_pos h2]
      rw [evsM_step (s1 := ⟨s, rs, r, [], [], some ⟨r.gpa, r.size, r.fid, r.off⟩, none, .run⟩)
        (by simp [evM, actM, libTryM, h2]) rfl]
      rw [evsM_step (s1 := ⟨s, rs, r, [], [], some ⟨r.gpa, r.size, r.fid, r.off⟩, none, .run⟩) (by simp [evM, logRegion]) rfl]
      rw [evsM_step (s1 := ⟨s, rs, r, [], [], some ⟨r.gpa, r.size, r.fid, r.off⟩, none, .run⟩) (by simp [evM, actM]) rfl]
      cases hi : insertRegion s.regions ⟨r.gpa, r.size, r.fid, r.off⟩ with
      | none =>
        rw [evsM_stop false (s1 := fail ⟨s, rs, r, [], [], some ⟨r.gpa, r.size, r.fid, r.off⟩, none, .run⟩)
          (by simp [evM, actM, libTryM, hi]) rfl]
        simp [resultM, fail, hi]
      | some m =>
        rw [evsM_step (s1 := ⟨s, rs, r, [], [], some ⟨r.gpa, r.size, r.fid, r.off⟩, some m, .run⟩)
          (by simp [evM, actM, libTryM, hi]) rfl]
        simp [evsM, evM, actM, resultM, hi]
    · rw [if_neg h2]
      rw [evsM_stop false (s1 := fail ⟨s, rs, r, [], [], none, none, .run⟩) (by simp [evM, actM, libTryM, h2]) rfl]
      simp [resultM, fail]
  · rw [if_neg h1]
    rw [evsM_stop false (s1 := fail ⟨s, rs, r, [], [], none, none, .run⟩) (by simp [evM, actM, libTryM, h1]) rfl]
    simp [resultM, fail]

/-- **REM_MEM_REG** (`region.guest_phys_addr`, `region.memory_size` are the request's two numbers) -/
theorem removeMemRegion_is_row (s : St) (gpa size : Nat) (rs : List Req) (u o f : Nat) (b : Bool) :
    removeMemRegion s gpa size = runRow "remove_mem_region" s rs ⟨gpa, size, u, o, f, b⟩ := by
  unfold runRow startM removeMemRegion
  rw [row_remove_mem_region]
  cases hr : removeRegion gpa size s.regions with
  | none =>
    rw [evsM_stop false (s1 := fail ⟨s, rs, ⟨gpa, size, u, o, f, b⟩, [], [], none, none, .run⟩)
      (by simp [evM, actM, libTryM, hr]) rfl]
    simp [resultM, fail]
  | some m =>
    rw [evsM_step (s1 := ⟨s, rs, ⟨gpa, size, u, o, f, b⟩, [], [], none, some m, .run⟩)
      (by simp [evM, actM, libTryM, hr]) rfl]
    simp [evsM, evM, actM, resultM, cond_retain]

/-- `step` of the model, request by request -/
theorem step_is_rows (s : St) (op : Op) :
    Model.MemTable.step s op =
      match op with
      | .setTable rs => runRow "set_mem_table" s rs ⟨0, 0, 0, 0, 0, false⟩
      | .add r => runRow "add_mem_region" s [] r
      | .remove g sz => runRow "remove_mem_region" s [] ⟨g, sz, 0, 0, 0, false⟩ := by
  cases op with
  | setTable rs => exact setMemTable_is_row s rs _
  | add r => exact addMemRegion_is_row s r []
  | remove g sz => exact removeMemRegion_is_row s g sz [] 0 0 0 false

/-! ## the shape of the rows: state changes come last -/

mutual
/-- some event of `e` (at any depth) satisfies `p` -/
def anyEv (p : HAct → Bool) : HEvent → Bool
  | .act a => p a
  | .helperCall _ _ _ b => anyEvs p b
  | .forEachVring b => anyEvs p b
  | .forEach _ b => anyEvs p b
  | .ifCond _ t f => anyEvs p t || anyEvs p f
  | .ifSome _ t f => anyEvs p t || anyEvs p f
def anyEvs (p : HAct → Bool) : List HEvent → Bool
  | [] => false
  | e :: es => anyEv p e || anyEvs p es
end

/-- no event satisfying `fallible` occurs (at any depth) after the first top-level event that contains an `effect` -/
def effectsLast (fallible effect : HAct → Bool) : List HEvent → Bool
  | [] => true
  | e :: es => if anyEv effect e then !anyEvs fallible es && !(anyEv fallible e && !(match e with | .act _ => true | _ => false))
               else effectsLast fallible effect es

/-- the steps of a row that can fail: guards, `?` on library and vring calls, the backend's `update_memory` -/
def HAct.fallible : HAct → Bool
  | .indexBound _ | .featureAcked _ _ | .valueCheck _ _ | .requireSome _ _ | .addrTranslate _ _ _ | .vringTry _ _ _ _
  | .backendTry _ _ _ | .libTry _ _ | .epollRegister _ _ | .err _ => true
  | _ => false

/-- … the same without the backend callback (which `Model.MemTable` takes to be infallible) -/
def HAct.fallibleLib (a : HAct) : Bool :=
  HAct.fallible a && !(match a with | .backendTry _ _ _ => true | _ => false)

def HAct.assignsMappings : HAct → Bool
  | .mappingsAssign | .mappingsPush _ | .mappingsRetain _ => true
  | _ => false

def HAct.replacesMemory : HAct → Bool
  | .memReplace => true
  | _ => false

def memRows : List String := ["set_mem_table", "add_mem_region", "remove_mem_region"]

/-- **effects_after_fallible**: in the three rows (a) the translation table (`self.mappings`) is assigned / pushed to /
pruned only after *every* step that can fail, the backend's `update_memory` included; (b) the memory object is replaced
only after every fallible step except that callback — which follows it: the rows read
`… memReplace, backendTry update_memory, mappings…`. -/
theorem effects_after_fallible :
    (memRows.all fun n => effectsLast HAct.fallible HAct.assignsMappings (row n)) = true ∧
    (memRows.all fun n => effectsLast HAct.fallibleLib HAct.replacesMemory (row n)) = true ∧
    (memRows.all fun n => anyEvs HAct.replacesMemory (row n) && anyEvs HAct.assignsMappings (row n)) = true := by
  decide

/-- the window the model does not cover (header of `Model/MemTable.lean`, C13 "Limits"): in all three rows the memory
object has already been replaced when `update_memory` is called with `?` — were the callback to fail, the request would
be answered with an error with the new memory installed and the old translation table kept -/
theorem update_memory_follows_replace :
    (memRows.all fun n => effectsLast HAct.fallible HAct.replacesMemory (row n)) = false ∧
    (memRows.all fun n =>
      (row n).dropWhile (fun e => !anyEv HAct.replacesMemory e) |>.drop 1 |>.head? |>.any
        (fun e => e == HEvent.backendTry "update_memory" ["self.atomic_mem.clone()"] "ReqHandlerError")) = true := by
  decide

end Lemmas.HandlerMem
