import VhostModel.Lemmas.OwedGuards
/-!
# C04Owed, arm by arm (3): requests that carry descriptors
(codes 6, 12, 13, 14, 32, 37, 42)
-/
namespace Lemmas.OwedArms
open Base Model.BackendSrv Model.Msgs Spec.Proto Lemmas.Owed Lemmas.OwedGuards

variable (st : BSt) (fl sz : Nat) (buf : Bytes) (files : Option (List Fd)) (h : Model.BackendSrv.HOut)

theorem good_32 (hi : Props.C04.Inv st) (ha : classify (absNeg st) (reqOf ⟨32, fl, sz⟩ buf files) = .accept) :
    Good st ⟨32, fl, sz⟩ buf files h := by
  have F := facts_of_accept ha
  have hsz : sz = 24 := F.fixed 24 rfl
  subst hsz
  obtain ⟨f, rfl⟩ := one_file F.nfds
  have hbv := F.valid
  simp only [Spec.Proto.bodyValid, fld_inflight] at hbv
  have hfind : arms.find? (·.code == (⟨32, fl, 24⟩ : Hdr).code) =
      some ⟨32, [.proto 12, .oneFile .incorrectFds, .body "VhostUserInflight"], .ack "set_inflight_fd"⟩ := rfl
  have hd := dispatch_arm (st := st) (h := h) (buf := buf) (files := some [f]) hfind
    (by rw [rg_proto (F.proto 12 rfl), rg_oneFile rfl,
            rg_body sz_inflight (checkSize_ok rfl F.notReply F.len) (by rw [bodyValid_inflight buf F.len, hbv]), rg_nil])
  refine ⟨?_, ?_, ?_⟩
  · rw [hd]; simp [runAct, argsOf, callOf, expectedCall, reqOf, fld_inflight]
  · rw [hd]; exact sat_ack st _ h.ok _ hi rfl rfl
  · rw [hd]; rfl

theorem good_37 (hi : Props.C04.Inv st) (ha : classify (absNeg st) (reqOf ⟨37, fl, sz⟩ buf files) = .accept) :
    Good st ⟨37, fl, sz⟩ buf files h := by
  have F := facts_of_accept ha
  have hsz : sz = 40 := F.fixed 40 rfl
  subst hsz
  obtain ⟨f, rfl⟩ := one_file F.nfds
  have hbv := F.valid
  simp only [Spec.Proto.bodyValid, single_region_eq buf F.len, validRegionT] at hbv
  have hfind : arms.find? (·.code == (⟨37, fl, 40⟩ : Hdr).code) =
      some ⟨37, [.proto 15, .oneFile .invalidParam, .body "VhostUserSingleMemoryRegion"], .ack "add_mem_region"⟩ := rfl
  have hd := dispatch_arm (st := st) (h := h) (buf := buf) (files := some [f]) hfind
    (by rw [rg_proto (F.proto 15 rfl), rg_oneFile rfl,
            rg_body sz_single (checkSize_ok rfl F.notReply F.len) (by rw [bodyValid_single buf F.len, hbv]), rg_nil])
  refine ⟨?_, ?_, ?_⟩
  · rw [hd]; simp [runAct, argsOf, callOf, expectedCall, reqOf, single_region_eq buf F.len]
  · rw [hd]; exact sat_ack st _ h.ok _ hi rfl rfl
  · rw [hd]; rfl

theorem good_42 (_hi : Props.C04.Inv st) (ha : classify (absNeg st) (reqOf ⟨42, fl, sz⟩ buf files) = .accept) :
    Good st ⟨42, fl, sz⟩ buf files h := by
  have F := facts_of_accept ha
  have hsz : sz = 8 := F.fixed 8 rfl
  subst hsz
  obtain ⟨f, rfl⟩ := one_file F.nfds
  have hbv := F.valid
  simp only [Spec.Proto.bodyValid, fld_transfer] at hbv
  have hfind : arms.find? (·.code == (⟨42, fl, 8⟩ : Hdr).code) =
      some ⟨42, [.oneFile .incorrectFds, .body "VhostUserTransferDeviceState"], .deviceStateFd⟩ := rfl
  have hd := dispatch_arm (st := st) (h := h) (buf := buf) (files := some [f]) hfind
    (by rw [rg_oneFile rfl,
            rg_body sz_transfer (checkSize_ok rfl F.notReply F.len) (by rw [bodyValid_transfer buf F.len, hbv]), rg_nil])
  rw [Good, hd]
  cases hok : h.ok <;> cases hfile : h.file <;>
    simp [runAct, hok, hfile, callOf, expectedCall, reqOf, owed, hOut, Sat, updateNeg, fld_transfer]
  all_goals exact ⟨0x101, by omega, rfl, by omega⟩

theorem good_6 (_hi : Props.C04.Inv st) (ha : classify (absNeg st) (reqOf ⟨6, fl, sz⟩ buf files) = .accept) :
    Good st ⟨6, fl, sz⟩ buf files h := by
  have F := facts_of_accept ha
  have hsz : sz = 16 := F.fixed 16 rfl
  subst hsz
  obtain ⟨f, rfl⟩ := one_file F.nfds
  have hbv := F.valid
  simp only [Spec.Proto.bodyValid, fld_log] at hbv
  have hfind : arms.find? (·.code == (⟨6, fl, 16⟩ : Hdr).code) =
      some ⟨6, [.proto 1, .oneFile .incorrectFds, .body "VhostUserLog"], .setLogBase⟩ := rfl
  have hd := dispatch_arm (st := st) (h := h) (buf := buf) (files := some [f]) hfind
    (by rw [rg_proto (F.proto 1 rfl), rg_oneFile rfl,
            rg_body sz_log (checkSize_ok rfl F.notReply F.len) (by rw [bodyValid_log buf F.len, hbv]), rg_nil])
  have hl : buf.length = 16 := F.len
  rw [Good, hd]
  cases hok : h.ok <;> simp [runAct, hok, callOf, expectedCall, reqOf, owed, hOut, Sat, updateNeg, fld_log, hl]

/-- SET_VRING_KICK / CALL / ERR: the guards, for either descriptor count -/
theorem vring_guards (code : Nat) (F : Facts st ⟨code, fl, 8⟩ buf files)
    (hc : filesPrescribed code buf = if (fld buf "VhostUserU64" ["value"]).testBit 8 then 0 else 1) :
    ∃ c' : Ctx, runGuards st { hdr := ⟨code, fl, 8⟩, buf := buf, files := files }
        [.sizeIs (.ofT "VhostUserU64"), .vringFd] = .ok c' ∧ c'.hdr = ⟨code, fl, 8⟩ ∧ c'.files = none ∧
      c'.index8 = fld buf "VhostUserU64" ["value"] % 256 ∧
      (match c'.file with | some x => [x] | none => []) = files.getD [] := by
  have hl : buf.length = 8 := F.len
  have hv : fld buf "VhostUserU64" ["value"] = leVal (buf.take 8) := by
    rw [fld_u64, g_of f_u64_value (by omega)]; rfl
  have hn := F.nfds
  rw [hc, hv] at hn
  rw [hv]
  have h1 : runGuards st { hdr := ⟨code, fl, 8⟩, buf := buf, files := files } [.sizeIs (.ofT "VhostUserU64"), .vringFd] =
      runGuards st { hdr := ⟨code, fl, 8⟩, buf := buf, files := files } [.vringFd] :=
    rg_ofT sz_u64 (checkSize_ok rfl F.notReply F.len)
  have hl8 : 8 ≤ ({ hdr := ⟨code, fl, 8⟩, buf := buf, files := files } : Ctx).buf.length := by show 8 ≤ buf.length; omega
  by_cases hb : (leVal (buf.take 8)).testBit 8 = true
  · rw [if_pos hb] at hn
    have hf := no_file hn
    have h2 := rg_vringFd_none (st := st) (c := { hdr := ⟨code, fl, 8⟩, buf := buf, files := files }) (rest := []) hf hl8 hb
    rw [rg_nil] at h2
    refine ⟨{ hdr := ⟨code, fl, 8⟩, buf := buf, files := none, file := none, index8 := leVal (buf.take 8) % 256 },
      h1.trans h2, rfl, rfl, rfl, ?_⟩
    rcases hf with hf | hf <;> subst hf <;> rfl
  · rw [if_neg hb] at hn
    obtain ⟨f, rfl⟩ := one_file hn
    have hb' : bitSet (leVal (buf.take 8)) 8 = false := by simpa [bitSet] using hb
    have h2 := rg_vringFd_some (st := st) (c := { hdr := ⟨code, fl, 8⟩, buf := buf, files := some [f] }) (rest := [])
      (f := f) rfl hl8 hb'
    rw [rg_nil] at h2
    exact ⟨{ hdr := ⟨code, fl, 8⟩, buf := buf, files := none, file := some f, index8 := leVal (buf.take 8) % 256 },
      h1.trans h2, rfl, rfl, rfl, rfl⟩

theorem good_12 (hi : Props.C04.Inv st) (ha : classify (absNeg st) (reqOf ⟨12, fl, sz⟩ buf files) = .accept) :
    Good st ⟨12, fl, sz⟩ buf files h := by
  have F := facts_of_accept ha
  have hsz : sz = 8 := F.fixed 8 rfl
  subst hsz
  obtain ⟨c', hg, hh, -, hi8, hfile⟩ := vring_guards st fl buf files 12 F rfl
  have hfind : arms.find? (·.code == (⟨12, fl, 8⟩ : Hdr).code) =
      some ⟨12, [.sizeIs (.ofT "VhostUserU64"), .vringFd], .ack "set_vring_kick"⟩ := rfl
  have hd := dispatch_arm (st := st) (h := h) (buf := buf) (files := files) hfind hg
  refine ⟨?_, ?_, ?_⟩
  · rw [hd]; simp [runAct, argsOf, callOf, expectedCall, reqOf, hi8]; exact hfile
  · rw [hd]
    have := sat_ack st c'.hdr h.ok (runAct st c' h (.ack "set_vring_kick")) hi rfl rfl
    rw [hh] at this; exact this
  · rw [hd]; rfl

theorem good_13 (hi : Props.C04.Inv st) (ha : classify (absNeg st) (reqOf ⟨13, fl, sz⟩ buf files) = .accept) :
    Good st ⟨13, fl, sz⟩ buf files h := by
  have F := facts_of_accept ha
  have hsz : sz = 8 := F.fixed 8 rfl
  subst hsz
  obtain ⟨c', hg, hh, -, hi8, hfile⟩ := vring_guards st fl buf files 13 F rfl
  have hfind : arms.find? (·.code == (⟨13, fl, 8⟩ : Hdr).code) =
      some ⟨13, [.sizeIs (.ofT "VhostUserU64"), .vringFd], .ack "set_vring_call"⟩ := rfl
  have hd := dispatch_arm (st := st) (h := h) (buf := buf) (files := files) hfind hg
  refine ⟨?_, ?_, ?_⟩
  · rw [hd]; simp [runAct, argsOf, callOf, expectedCall, reqOf, hi8]; exact hfile
  · rw [hd]
    have := sat_ack st c'.hdr h.ok (runAct st c' h (.ack "set_vring_call")) hi rfl rfl
    rw [hh] at this; exact this
  · rw [hd]; rfl

theorem good_14 (hi : Props.C04.Inv st) (ha : classify (absNeg st) (reqOf ⟨14, fl, sz⟩ buf files) = .accept) :
    Good st ⟨14, fl, sz⟩ buf files h := by
  have F := facts_of_accept ha
  have hsz : sz = 8 := F.fixed 8 rfl
  subst hsz
  obtain ⟨c', hg, hh, -, hi8, hfile⟩ := vring_guards st fl buf files 14 F rfl
  have hfind : arms.find? (·.code == (⟨14, fl, 8⟩ : Hdr).code) =
      some ⟨14, [.sizeIs (.ofT "VhostUserU64"), .vringFd], .ack "set_vring_err"⟩ := rfl
  have hd := dispatch_arm (st := st) (h := h) (buf := buf) (files := files) hfind hg
  refine ⟨?_, ?_, ?_⟩
  · rw [hd]; simp [runAct, argsOf, callOf, expectedCall, reqOf, hi8]; exact hfile
  · rw [hd]
    have := sat_ack st c'.hdr h.ok (runAct st c' h (.ack "set_vring_err")) hi rfl rfl
    rw [hh] at this; exact this
  · rw [hd]; rfl

end Lemmas.OwedArms
