import VhostModel.Model.Vring
import VhostModel.Model.HandlerTable
/-!
# Reading the handler's rows in `Model.Vring` (C14)

`evsV` interprets a list of events of `Base.HandlerSig` on the state of `Model.Vring` (`Daemon`), event by event, in
order: a guard that fires ends the method with its error (the state is what the preceding events left behind), an effect
changes the ring at hand (`self.vrings[index]`), a helper call runs the helper's own events, a branch evaluates its
condition — the function `Model.HandlerTable.cond` of the condition's identifier — on the *current* state.

What this model does not read (table at the head of `Model/HandlerTable.lean`): the epoll registration
(`update_vring_registration`, `unregister_vring_kick` are skipped), the memory-table events (they are `Model.MemTable`'s,
see `Lemmas/HandlerMem.lean`), loops other than the one over the vrings.
-/
namespace Lemmas.HandlerVring
open Base Model.Vring Model.HandlerTable

/-- how far the method has got -/
inductive Flow where
  | run
  | brk
  | ret (r : Except Err Reply)
  deriving DecidableEq

structure VS where
  d : Daemon
  /-- arguments and locals (the handler's fields are read from `d`, see `sync`) -/
  x : HIn
  /-- the `file` argument of SET_VRING_KICK / CALL / ERR -/
  file : Option Nat
  /-- the flags set on the `Backend` channel by SET_BACKEND_REQ_FD so far -/
  chan : Bool × Bool × Bool
  flow : Flow

/-- the model's error for a `VhostUserError` variant -/
def errOf (e : String) : Err :=
  if e = "InvalidParam" then .invalidParam
  else if e = "BackendInternalError" then .backendInternal
  else if e = "InactiveFeature" then .inactiveFeature
  else .reqHandler

/-- bit `k` of a feature word -/
def bitOf (a : BitVec 64) (k : Nat) : Bool := a.getLsbD k

/-- the ring at hand -/
def VS.ring (s : VS) : Option Vring := s.d.vrings[s.x.index]?

/-- the environment of a condition: arguments and locals from `x`, the handler's fields and the ring from the daemon -/
def sync (s : VS) : HIn :=
  { s.x with
    max_queue_size := s.d.maxQueueSize
    mappings_empty := s.d.mem.mappings.isEmpty
    acked_features := s.d.ackedFeatures.toNat
    acked_protocol_features := s.d.ackedProto.toNat
    features_acked := s.d.featuresAcked
    backend_features := s.d.offered.toNat
    num_queues := s.d.vrings.length
    ring_ready := (s.ring.map (·.queue.ready)).getD false
    ring_enabled := (s.ring.map (·.enabled)).getD false
    ring_kick_some := (s.ring.map (·.kick.isSome)).getD false }

def setLocal (n : String) (v : Nat) (x : HIn) : HIn :=
  if n = "desc_table" then { x with desc_table := v }
  else if n = "avail_ring" then { x with avail_ring := v }
  else if n = "used_ring" then { x with used_ring := v }
  else if n = "idx" then { x with idx := v }
  else if n = "next_avail" then { x with next_avail := v }
  else x

def fail (s : VS) (e : String) : VS := { s with flow := .ret (.error (errOf e)) }

def modRing (s : VS) (f : Vring → Vring) : VS := { s with d := s.d.setRing s.x.index f }

/-- a descriptor argument: `file` is the message's descriptor, anything else (`None`) is none -/
def fdArg (s : VS) (a : String) : Option Nat := if a = "file" then s.file else none

def vringCallV (s : VS) (m : String) (a : String) : VS :=
  if m = "set_queue_size" then modRing s fun v => { v with queue := v.queue.setSize (val a (sync s)) }
  else if m = "set_queue_next_avail" then modRing s fun v => { v with queue := { v.queue with nextAvail := val a (sync s) } }
  else if m = "set_queue_next_used" then modRing s fun v => { v with queue := { v.queue with nextUsed := val a (sync s) } }
  else if m = "set_queue_ready" then modRing s fun v => { v with queue := { v.queue with ready := cond a (sync s) } }
  else if m = "set_queue_event_idx" then modRing s fun v => { v with queue := { v.queue with eventIdx := cond a (sync s) } }
  else if m = "set_enabled" then modRing s fun v => { v with enabled := cond a (sync s) }
  else if m = "set_kick" then modRing s fun v => { v with kick := fdArg s a }
  else if m = "set_call" then modRing s fun v => { v with call := fdArg s a }
  else if m = "set_err" then modRing s fun v => { v with err := fdArg s a }
  else s

def actV (a : HAct) (s : VS) : VS :=
  match a with
  | .indexBound e => if s.ring.isNone then fail s e else s
  | .featureAcked bit e => if !bitOf s.d.ackedFeatures bit then fail s e else s
  | .valueCheck c e => if cond c (sync s) then fail s e else s
  | .addrTranslate arg e b =>
    match Model.MemTable.translate s.d.mem.mappings (val arg (sync s)) with
    | none => fail s e
    | some g => { s with x := setLocal b g s.x }
  | .vringTry m args e b =>
    match s.ring with
    | none => s
    | some v =>
      if m = "set_queue_info" then
        match args with
        | [a1, a2, a3] =>
          match v.queue.setQueueInfo (val a1 (sync s)) (val a2 (sync s)) (val a3 (sync s)) with
          | (q1, okk) =>
            let s1 := modRing s fun v => { v with queue := q1 }
            if okk then s1 else fail s1 e
        | _ => s
      else if m = "queue_used_idx" then
        match v.queue.usedIdx s.d.guestMem with
        | none => fail s e
        | some i => { s with x := setLocal b i s.x }
      else s
  | .vringCall m [a] => vringCallV s m a
  | .vringGet m b =>
    if m = "queue_next_avail" then
      match s.ring with
      | none => s
      | some v => { s with x := setLocal b v.queue.nextAvail s.x }
    else s
  | .setField n v =>
    if n = "acked_features" then { s with d := { s.d with ackedFeatures := BitVec.ofNat 64 (val v (sync s)) } }
    else if n = "features_acked" then { s with d := { s.d with featuresAcked := cond v (sync s) } }
    else if n = "acked_protocol_features" then { s with d := { s.d with ackedProto := BitVec.ofNat 64 (val v (sync s)) } }
    else s
  | .backendCall m args =>
    if m = "set_event_idx" then
      match args with
      | [a] => { s with d := { s.d with log := s.d.log ++ [.setEventIdx (cond a (sync s))] } }
      | _ => s
    else if m = "acked_features" then
      match args with
      | [a] => { s with d := { s.d with log := s.d.log ++ [.ackedFeatures (BitVec.ofNat 64 (val a (sync s)))] } }
      | _ => s
    else if m = "set_backend_req_fd" then
      { s with d := { s.d with log := s.d.log ++ [.setBackendReqFd s.chan.1 s.chan.2.1 s.chan.2.2] } }
    else s
  | .channelCall m _ =>
    if m = "set_reply_ack_flag" then { s with chan := (true, s.chan.2) }
    else if m = "set_shared_object_flag" then { s with chan := (s.chan.1, true, s.chan.2.2) }
    else if m = "set_shmem_flag" then { s with chan := (s.chan.1, s.chan.2.1, true) }
    else s
  | .brk => { s with flow := .brk }
  | .ok | .done => { s with flow := .ret (.ok .unit) }
  | .okValue _ => { s with flow := .ret (.ok (.vringState s.x.index s.x.next_avail)) }
  | .err e => fail s e
  | _ => s

/-- helpers this model does not look into -/
def skipped (n : String) : Bool := n = "update_vring_registration" || n = "unregister_vring_kick" || n = "log_region"

/-- back in the caller: the helper's `Ok` is consumed, its error travels on if the call propagates it -/
def afterCall (p : Bool) (s : VS) : VS :=
  match s.flow with
  | .ret (.error e) => if p then s else { s with flow := .run }
  | _ => { s with flow := .run }

mutual
def evV : HEvent → VS → VS
  | .act a, s => actV a s
  | .helperCall n _ p body, s => if skipped n then s else afterCall p (evsV body s)
  | .forEachVring body, s =>
    let s' := (List.range s.d.vrings.length).foldl
      (fun s i => match s.flow with
        | .run => evsV body { s with x := { s.x with index := i } }
        | _ => s) s
    { s' with x := { s'.x with index := s.x.index } }
  | .forEach _ _, s => s
  | .ifCond c t f, s => if cond c (sync s) then evsV t s else evsV f s
  | .ifSome _ _ _, s => s
def evsV : List HEvent → VS → VS
  | [], s => s
  | e :: es, s =>
    match (evV e s).flow with
    | .run => evsV es (evV e s)
    | _ => evV e s
end

def startV (d : Daemon) (x : HIn) (file : Option Nat) : VS := ⟨d, x, file, (false, false, false), .run⟩

def resultV (s : VS) : Daemon × Except Err Reply :=
  (s.d, match s.flow with
        | .ret r => r
        | _ => .ok .unit)

/-- method `name` of the table, run on daemon `d` with arguments `x` (and descriptor `file`) -/
def runRow (name : String) (d : Daemon) (x : HIn) (file : Option Nat) : Daemon × Except Err Reply :=
  resultV (evsV (row name) (startV d x file))

/-! ## the order of the guards

Whatever the row: the method is refused with `e` exactly when some event of the row — the *first*, in the row's order, that
does not let the method go on — ends it with `e`, evaluated on the state the events before it left behind. -/

theorem evsV_append (pre post : List HEvent) (s : VS) (h : (evsV pre s).flow = .run) :
    evsV (pre ++ post) s = evsV post (evsV pre s) := by
  induction pre generalizing s with
  | nil => rfl
  | cons e es ih =>
    simp only [List.cons_append, evsV] at h ⊢
    cases hf : (evV e s).flow with
    | run => rw [hf] at h; simp only at h ⊢; exact ih _ h
    | brk => rw [hf] at h; simp only at h; rw [hf] at h; cases h
    | ret r => rw [hf] at h; simp only at h; rw [hf] at h; cases h

theorem first_refusing_event (evs : List HEvent) (s : VS) (hs : s.flow = .run) (e : Err) :
    (evsV evs s).flow = .ret (.error e) ↔
    ∃ pre g post, evs = pre ++ g :: post ∧ (evsV pre s).flow = .run ∧ (evV g (evsV pre s)).flow = .ret (.error e) := by
  induction evs generalizing s with
  | nil =>
    simp only [evsV, hs]
    constructor
    · intro h; cases h
    · rintro ⟨pre, g, post, h, _⟩; cases pre <;> cases h
  | cons ev es ih =>
    simp only [evsV]
    cases hf : (evV ev s).flow with
    | run =>
      simp only
      rw [ih _ hf]
      constructor
      · rintro ⟨pre, g, post, h1, h2, h3⟩
        refine ⟨ev :: pre, g, post, by rw [h1]; rfl, ?_, ?_⟩
        · simp only [evsV, hf]; exact h2
        · simp only [evsV, hf]; exact h3
      · rintro ⟨pre, g, post, h1, h2, h3⟩
        cases pre with
        | nil =>
          simp only [List.nil_append, List.cons.injEq] at h1
          obtain ⟨rfl, rfl⟩ := h1
          simp only [evsV] at h3; rw [hf] at h3; cases h3
        | cons p pre =>
          simp only [List.cons_append, List.cons.injEq] at h1
          obtain ⟨rfl, rfl⟩ := h1
          simp only [evsV, hf] at h2 h3
          exact ⟨pre, g, post, rfl, h2, h3⟩
    | brk =>
      simp only [hf]
      constructor
      · intro h; cases h
      · rintro ⟨pre, g, post, h1, h2, h3⟩
        cases pre with
        | nil =>
          simp only [List.nil_append, List.cons.injEq] at h1
          obtain ⟨rfl, rfl⟩ := h1
          simp only [evsV] at h3; rw [hf] at h3; cases h3
        | cons p pre =>
          simp only [List.cons_append, List.cons.injEq] at h1
          obtain ⟨rfl, rfl⟩ := h1
          simp only [evsV, hf] at h2; cases h2
    | ret r =>
      simp only [hf]
      constructor
      · intro h
        exact ⟨[], ev, es, rfl, hs, by simpa [evsV, hf] using h⟩
      · rintro ⟨pre, g, post, h1, h2, h3⟩
        cases pre with
        | nil =>
          simp only [List.nil_append, List.cons.injEq] at h1
          obtain ⟨rfl, rfl⟩ := h1
          simp only [evsV] at h3; rw [hf] at h3; exact h3
        | cons p pre =>
          simp only [List.cons_append, List.cons.injEq] at h1
          obtain ⟨rfl, rfl⟩ := h1
          simp only [evsV, hf] at h2; cases h2

theorem evsV_step {e : HEvent} {es : List HEvent} {s s1 : VS} (h : evV e s = s1) (hrun : s1.flow = .run) :
    evsV (e :: es) s = evsV es s1 := by
  simp only [evsV, h, hrun]

theorem evsV_stop {e : HEvent} {es : List HEvent} {s s1 : VS} (r : Except Err Reply) (h : evV e s = s1)
    (hret : s1.flow = .ret r) : evsV (e :: es) s = s1 := by
  simp only [evsV, h, hret]

/-! ## the loop over the vrings -/

/-- a loop whose body changes the ring at hand by `g` (the same `g` as long as the feature word stays) changes every ring
by `g` -/
theorem loop_modify (body : List HEvent) (g : Vring → Vring) (s : VS) (hs : s.flow = .run)
    (hbody : ∀ t : VS, t.flow = .run → t.d.ackedFeatures = s.d.ackedFeatures →
      evsV body t = { t with d := t.d.setRing t.x.index g }) (k : Nat) :
    ∃ L j, (List.range k).foldl
      (fun s i => match s.flow with
        | .run => evsV body { s with x := { s.x with index := i } }
        | _ => s) s = { s with d := { s.d with vrings := L }, x := { s.x with index := j } } ∧
      ∀ i, L[i]? = if i < k then (s.d.vrings[i]?).map g else s.d.vrings[i]? := by
  induction k with
  | zero => exact ⟨s.d.vrings, s.x.index, rfl, fun i => by simp⟩
  | succ k ih =>
    obtain ⟨L, j, hj, hL⟩ := ih
    refine ⟨L.modify k g, k, ?_, ?_⟩
    · rw [List.range_succ, List.foldl_append, hj]
      simp only [List.foldl_cons, List.foldl_nil, hs]
      rw [hbody]
      · rfl
      · rfl
      · rfl
    · intro i
      rw [List.getElem?_modify, hL]
      by_cases e : k = i
      · subst e; simp
      · have : (i < k + 1) = (i < k) := by
          apply propext; constructor <;> intro h <;> omega
        simp [e, this]

theorem evV_forEachVring_map (body : List HEvent) (g : Vring → Vring) (s : VS) (hs : s.flow = .run)
    (hbody : ∀ t : VS, t.flow = .run → t.d.ackedFeatures = s.d.ackedFeatures →
      evsV body t = { t with d := t.d.setRing t.x.index g }) :
    evV (.forEachVring body) s = { s with d := { s.d with vrings := s.d.vrings.map g } } := by
  simp only [evV]
  obtain ⟨L, j, hj, hL⟩ := loop_modify body g s hs hbody s.d.vrings.length
  rw [hj]
  have : L = s.d.vrings.map g := by
    apply List.ext_getElem?
    intro i
    rw [hL, List.getElem?_map]
    by_cases h : i < s.d.vrings.length
    · simp [h]
    · have : s.d.vrings[i]? = none := List.getElem?_eq_none_iff.2 (by omega)
      simp [h]
  rw [this]

end Lemmas.HandlerVring
