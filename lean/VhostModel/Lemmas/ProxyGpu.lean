import VhostModel.Lemmas.ProxyBase
/-!
# The GPU proxy model is the generated `gpu_backend_req.rs` programs (equations over all states, calls and streams)

* `gpu_request_table`: `Model.GpuProxy.request` for a method `m` = the generated send helper of `m`'s row run on the
  inputs read off state, method and call: its check is the refusal, otherwise header and bytes are the program's;
* `gpu_request_ok_pre`: an accepted call satisfies the hypotheses of `gpu_request_table`;
* `gpu_recvReply_table`: `recvReply` = the generated `recv_reply` program;
* `gpu_callRecv_table`: after the write nothing is read iff the row has no reply type; otherwise `recv_reply::<row.reply>`.
-/
namespace Lemmas.Proxy
open Base ProxySig Model.ProxyTable Model.Msgs Model.Stream Model.RecvBody
open Model.BackendSrv (Err Hdr encHdr hdrNewFlags)
open Model.Frontend (Reply RecvRes RecvOut)
open Model.GpuProxy

theorem gpu_request_table (st : GSt) (c : Call) (m : Method) (hm : methods.find? (·.name == c.name) = some m)
    (hlen : m.send ≠ .header → c.body.length = (gpuRowOf m).size)
    (hpl : m.send = .payload → c.payload.length ≤ maxMsgSize - (gpuRowOf m).size) :
    request st c =
      (match run (gpuIn st m c) (gpuProg (gpuRowOf m).helper) none with
       | .err e => .error (errOf e)
       | .sent code flags size _ body payload fds _ =>
         .ok ⟨m, ⟨code, flags, size⟩,
              encHdr code flags size ++ (if body then c.body else []) ++ (if payload then c.payload else []),
              if (gpuRowOf m).fd && fds then c.fds.take 1 else []⟩
       | _ => .error .other) := by
  have hmem : m ∈ methods := List.mem_of_find?_eq_some hm
  unfold request
  rw [hm]
  cases herr : st.error with
  | some e =>
    simp only [methods, List.mem_cons, List.not_mem_nil, or_false] at hmem
    rcases hmem with rfl | rfl | rfl | rfl | rfl | rfl | rfl | rfl | rfl | rfl | rfl | rfl <;>
      simp [gpuRowOf, SendKind.helper, gpuProg, run, gpuIn, herr, errOf,
        Gen.ProxyOps.Gpu.send_header.stmts, Gen.ProxyOps.Gpu.send_message.stmts, Gen.ProxyOps.Gpu.send_message_with_payload.stmts]
  | none =>
    simp only [methods, List.mem_cons, List.not_mem_nil, or_false] at hmem
    rcases hmem with rfl | rfl | rfl | rfl | rfl | rfl | rfl | rfl | rfl | rfl | rfl | rfl <;>
      simp [gpuRowOf, SendKind.helper, gpuProg, run, gpuIn, herr, errOf, maxMsgSize, ss_u64, ss_edid, ss_scanout, ss_update,
        ss_dmabuf, ss_dmabuf2, ss_cursor_pos, ss_cursor_update,
        Gen.ProxyOps.Gpu.send_header.stmts, Gen.ProxyOps.Gpu.send_message.stmts, Gen.ProxyOps.Gpu.send_message_with_payload.stmts] at hlen hpl ⊢
    all_goals first
      | exact hlen
      | (have h1 := Nat.not_lt.mpr hpl
         have h2 : 20 + c.payload.length < 18446744073709551616 := by omega
         simp [h1, h2, hlen])

/-- the size of the body type of every method is known to the layout table -/
theorem gpu_body_size (m : Method) (hmem : m ∈ methods) (ty : String) (hty : m.bodyTy = some ty) :
    structSize ty = some (gpuRowOf m).size := by
  simp only [methods, List.mem_cons, List.not_mem_nil, or_false] at hmem
  rcases hmem with rfl | rfl | rfl | rfl | rfl | rfl | rfl | rfl | rfl | rfl | rfl | rfl <;>
    simp at hty <;> subst hty <;> decide

/-- an accepted call names a method of the table, carries a body of the struct's size and a payload that fits -/
theorem gpu_request_ok_pre (st : GSt) (c : Call) (req : Req) (h : request st c = .ok req) :
    methods.find? (·.name == c.name) = some req.m ∧ st.error = none ∧
    (req.m.send ≠ .header → c.body.length = (gpuRowOf req.m).size) ∧
    (req.m.send = .payload → c.payload.length ≤ maxMsgSize - (gpuRowOf req.m).size) := by
  unfold request at h
  cases hm : methods.find? (·.name == c.name) with
  | none => simp [hm] at h
  | some m =>
    have hmem : m ∈ methods := List.mem_of_find?_eq_some hm
    simp only [hm] at h
    cases he : st.error with
    | some e => simp [he] at h
    | none =>
      simp only [he] at h
      split at h
      · rename_i hs
        simp only [Except.ok.injEq] at h; subst h
        simp [hs]
      · rename_i ty hs hty
        have hsz := gpu_body_size m hmem ty hty
        rw [hsz] at h
        simp only at h
        split at h
        · simp at h
        · split at h
          · simp at h
          · rename_i hl
            simp only [Except.ok.injEq] at h; subst h
            simp at hl
            simp [hs, hl]
      · rename_i ty hs hty
        have hsz := gpu_body_size m hmem ty hty
        rw [hsz] at h
        simp only at h
        split at h
        · simp at h
        · split at h
          · simp at h
          · split at h
            · simp at h
            · rename_i hmax hpl hl
              simp only [Except.ok.injEq] at h; subst h
              simp at hl hpl
              simp [hs, hl, hpl]
      · simp at h

theorem gpu_recvReply_table {σ : Type} (ch : Chooser σ) (cl : Bool) (st : GSt) (rh : Hdr) (ty : String) (n : Nat)
    (hn : sizeOfTy ty = some n) (cst : σ) (str : List Cell) :
    recvReply ch cl st rh ty cst str =
      (match run (gpuInSt st) Gen.ProxyOps.Gpu.recv_reply.stmts none with
       | .err e => ⟨.err (errOf e), str, cst, []⟩
       | .recv _ rest => gpuAfterRecv (gpuInSt st) ty rest rh (recvBody ch cl hdrValidGpu n (replyBodyOk ty) cst str)
       | _ => ⟨.err .other, str, cst, []⟩) := by
  unfold recvReply
  cases herr : st.error with
  | some e => simp [run, Gen.ProxyOps.Gpu.recv_reply.stmts, gpuInSt, herr, errOf]
  | none =>
    simp only [hn, run, Gen.ProxyOps.Gpu.recv_reply.stmts, gpuInSt, herr, gpuAfterRecv, replyIn, Option.isSome_none,
      Bool.false_eq_true, if_false]
    generalize recvBody ch cl hdrValidGpu n (replyBodyOk ty) cst str = o
    rcases o with ⟨res, rest, cst', closed⟩
    cases res with
    | blocked => simp
    | err e => simp
    | ok r =>
      cases h1 : isReplyFor gpuCodes r.hdr rh <;> cases h2 : r.files.isSome <;> cases h3 : replyBodyOk ty r.body <;>
        simp [h1, h2, h3, errOf]

/-- after the request is written: nothing is read for a method whose row has no reply type; otherwise exactly
`recv_reply::<row.reply>`, whose value is returned (`ret = body`) or dropped (`ret = unit`) -/
theorem gpu_callRecv_table {σ : Type} (ch : Chooser σ) (cl : Bool) (st : GSt) (req : Req) (cst : σ) (str : List Cell) :
    callRecv ch cl st req cst str =
      (match (gpuRowOf req.m).reply with
       | none => ⟨.unit, req.bytes, req.fds, str, cst, []⟩
       | some ty =>
         let o := recvReply ch cl st req.hdr ty cst str
         match o.res with
         | .blocked => ⟨.blocked, req.bytes, req.fds, o.rest, o.cst, o.closed⟩
         | .err e => ⟨.err e, req.bytes, req.fds, o.rest, o.cst, o.closed⟩
         | .ok r =>
           ⟨(match (gpuRowOf req.m).ret, ty with
             | .unit, _ => .unit
             | .body, "VhostUserU64" => .val (leVal r.body)
             | .body, _ => .bytes r.body), req.bytes, req.fds, o.rest, o.cst, o.closed⟩) := by
  unfold callRecv
  rcases req with ⟨m, hdr, bytes, fds⟩
  rcases m with ⟨name, code, send, bodyTy, fd, reply⟩
  cases reply <;> simp [gpuRowOf, ReplyTy.ty] <;> (split <;> simp [*])

end Lemmas.Proxy
