import VhostModel.Model.BackendProxy
import VhostModel.Model.FrontendSrv
import VhostModel.Model.GpuProxy
import VhostModel.Lemmas.Stream
/-! helper lemmas about `Model.RecvBody`, `Model.BackendProxy`, `Model.FrontendSrv`, `Model.GpuProxy` (structural facts;
the bridges to the Spec validity rules, which need `Props.C20`, are in `Props.C06b`) -/
namespace Lemmas.BackendChannel
open Base Model.Stream Model.Msgs Model.RecvBody Lemmas.Stream
open Model.BackendSrv (Err Hdr encHdr hdrNewFlags)
open Model.Frontend (Reply RecvRes RecvOut parseHdr)

/-! ### layout facts of the generated struct table (re-checked by the kernel whenever `Gen.Layout` changes) -/
theorem structSize_hdr : structSize "VhostUserMsgHeader" = some 12 := by decide
theorem fieldAt_hdr_request : fieldAt "VhostUserMsgHeader" ["request"] = some (0, 4) := by decide
theorem fieldAt_hdr_flags : fieldAt "VhostUserMsgHeader" ["flags"] = some (4, 4) := by decide
theorem fieldAt_hdr_size : fieldAt "VhostUserMsgHeader" ["size"] = some (8, 4) := by decide
theorem structSize_gpuhdr : structSize "VhostUserGpuMsgHeader" = some 12 := by decide
theorem fieldAt_gpuhdr_request : fieldAt "VhostUserGpuMsgHeader" ["request"] = some (0, 4) := by decide
theorem fieldAt_gpuhdr_flags : fieldAt "VhostUserGpuMsgHeader" ["flags"] = some (4, 4) := by decide
theorem fieldAt_gpuhdr_size : fieldAt "VhostUserGpuMsgHeader" ["size"] = some (8, 4) := by decide
theorem structSize_u64 : structSize "VhostUserU64" = some 8 := by decide
theorem fieldAt_u64 : fieldAt "VhostUserU64" ["value"] = some (0, 8) := by decide
theorem structSize_shared : structSize "VhostUserSharedMsg" = some 16 := by decide
theorem fieldAt_shared_uuid : fieldAt "VhostUserSharedMsg" ["uuid"] = some (0, 16) := by decide
theorem structSize_mmap : structSize "VhostUserMMap" = some 40 := by decide
theorem fieldAt_mmap_shmid : fieldAt "VhostUserMMap" ["shmid"] = some (0, 1) := by decide
theorem fieldAt_mmap_fd_offset : fieldAt "VhostUserMMap" ["fd_offset"] = some (8, 8) := by decide
theorem fieldAt_mmap_shm_offset : fieldAt "VhostUserMMap" ["shm_offset"] = some (16, 8) := by decide
theorem fieldAt_mmap_len : fieldAt "VhostUserMMap" ["len"] = some (24, 8) := by decide
theorem fieldAt_mmap_flags : fieldAt "VhostUserMMap" ["flags"] = some (32, 8) := by decide

theorem leVal_take_lt (bs : Bytes) (k : Nat) : leVal (bs.take k) < 256 ^ k := by
  have h := leVal_lt (bs.take k)
  have : (bs.take k).length ≤ k := by simp [List.length_take]; omega
  exact Nat.lt_of_lt_of_le h (Nat.pow_le_pow_right (by omega) this)

/-! ### headers -/
theorem encHdr_length (c f s : Nat) : (encHdr c f s).length = 12 := by simp [encHdr]

theorem parseHdr_encHdr (c f s : Nat) (hc : c < 2^32) (hf : f < 2^32) (hs : s < 2^32) : parseHdr (encHdr c f s) = ⟨c, f, s⟩ := by
  unfold parseHdr encHdr
  have e1 : (leBytes 4 c ++ leBytes 4 f ++ leBytes 4 s).take 4 = leBytes 4 c := by
    rw [List.append_assoc, List.take_append_of_le_length (by simp)]; simp [List.take_of_length_le]
  have e2 : ((leBytes 4 c ++ leBytes 4 f ++ leBytes 4 s).drop 4).take 4 = leBytes 4 f := by
    rw [List.append_assoc, List.drop_append_of_le_length (by simp)]
    simp [List.drop_of_length_le, List.take_append_of_le_length]
  have e3 : ((leBytes 4 c ++ leBytes 4 f ++ leBytes 4 s).drop 8).take 4 = leBytes 4 s := by
    rw [List.drop_append_of_le_length (by simp)]
    simp [List.drop_of_length_le, List.take_of_length_le]
  rw [e1, e2, e3, leVal_leBytes 4 c (by simpa using hc), leVal_leBytes 4 f (by simpa using hf), leVal_leBytes 4 s (by simpa using hs)]

theorem decHeader_of_length (bs : Bytes) (hl : bs.length = 12) :
    decHeader bs = some ⟨bv 32 (parseHdr bs).code, bv 32 (parseHdr bs).flags, bv 32 (parseHdr bs).size⟩ := by
  simp [decHeader, getField, structSize_hdr, fieldAt_hdr_request, fieldAt_hdr_flags, fieldAt_hdr_size, hl, parseHdr]

theorem decGpuHeader_of_length (bs : Bytes) (hl : bs.length = 12) :
    decGpuHeader bs = some ⟨bv 32 (parseHdr bs).code, bv 32 (parseHdr bs).flags, bv 32 (parseHdr bs).size⟩ := by
  simp [decGpuHeader, getField, structSize_gpuhdr, fieldAt_gpuhdr_request, fieldAt_gpuhdr_flags, fieldAt_gpuhdr_size, hl, parseHdr]

theorem parseHdr_lt (bs : Bytes) : (parseHdr bs).code < 2^32 ∧ (parseHdr bs).flags < 2^32 ∧ (parseHdr bs).size < 2^32 :=
  ⟨by simpa [parseHdr] using leVal_take_lt bs 4, by simpa [parseHdr] using leVal_take_lt (bs.drop 4) 4,
   by simpa [parseHdr] using leVal_take_lt (bs.drop 8) 4⟩

/-- every acknowledgement header the frontend's server can write passes the backend-channel header validator -/
theorem hdrValidB_ack : ∀ c ∈ [1, 2, 3, 4, 5, 6, 7, 8, 9, 10], hdrValidB (encHdr c 5 8) = true := by decide

theorem u64Ok_of_length (bs : Bytes) (h : bs.length = 8) : u64Ok bs = true := by
  simp [u64Ok, decU64, getField, structSize_u64, fieldAt_u64, h, Gen.VhostUserU64.isValid]

/-! ### `recv_body` -/

/-- what `recv_body::<T>` accepts: exactly `12 + n` bytes — the bytes received, never anything else —, a header and a
body that pass their validators -/
theorem recvBody_ok_sound {σ : Type} (ch : Chooser σ) (cl : Bool) (hdrOk : Bytes → Bool) (n : Nat) (bodyOk : Bytes → Bool)
    (cst : σ) (s : List Cell) (r : Reply) (h : (recvBody ch cl hdrOk n bodyOk cst s).res = .ok r) :
    ∃ hb, hb.length = 12 ∧ r.body.length = n ∧ hdrOk hb = true ∧ r.hdr = parseHdr hb ∧ bodyOk r.body = true ∧ r.payload = [] ∧
      hb ++ r.body = (recvAll ch 32 cl (12 + n) cst s true).bytes := by
  unfold recvBody at h
  simp only at h
  split at h
  · simp at h
  · split at h
    · simp at h
    · split at h
      · simp at h
      · rename_i hlen hval
        simp only [RecvRes.ok.injEq] at h
        refine ⟨(recvAll ch 32 cl (12 + n) cst s true).bytes.take 12, ?_, ?_, ?_, ?_, ?_, ?_, ?_⟩
        · simp at hlen; simp [List.length_take]; omega
        · rw [← h]; simp at hlen; simp [List.length_drop]; omega
        · simp at hval; exact hval.1
        · rw [← h]
        · rw [← h]; simp at hval; exact hval.2
        · rw [← h]
        · rw [← h]; simp

/-- cells of a message without descriptors: lengths, bytes, no descriptor anywhere -/
theorem segCells_nofd (m : Bytes) : (segCells m []).length = m.length ∧ (segCells m []).map (·.b) = m ∧
    ∀ c ∈ segCells m [], c.fds = [] := by
  cases m with
  | nil => simp [segCells]
  | cons b bs =>
    refine ⟨by simp [segCells], by simp [segCells, Function.comp_def], ?_⟩
    intro c hc
    simp only [segCells, List.mem_cons, List.mem_map] at hc
    rcases hc with rfl | ⟨x, _, rfl⟩ <;> rfl

/-- no descriptor rides on the bytes that are read ⇒ none is handed out and none is closed, for every chooser -/
theorem recvAll_no_fds {σ : Type} (ch : Chooser σ) (cap : Nat) (cl : Bool) :
    ∀ (want : Nat) (st : σ) (s : List Cell) (first : Bool), want ≤ s.length → (∀ c ∈ s.take want, c.fds = []) →
      (recvAll ch cap cl want st s first).fds = [] ∧ (recvAll ch cap cl want st s first).closed = [] := by
  intro want st s first
  fun_induction recvAll ch cap cl want st s first with
  | case1 first st s => intro _ _; simp
  | case2 first n st => intro h; simp at h
  | case3 want st c s first k0 st' hnext k chunk rest cf hgt r ih =>
    intro hlen hfd
    exfalso
    have hk : k ≤ want + 1 := clampK_le_want _ _ _
    have : cf = [] := by
      simp only [cf, chunk, List.flatMap_eq_nil_iff]
      intro x hx
      apply hfd x
      have : (c :: s).take k = ((c :: s).take (want + 1)).take k := by rw [List.take_take]; congr 1; omega
      rw [this] at hx; exact List.mem_of_mem_take hx
    rw [this] at hgt; simp at hgt
  | case4 want st c s first k0 st' hnext k chunk rest cf hle r ih =>
    intro hlen hfd
    simp only [Nat.succ_eq_add_one] at hlen hfd ⊢
    have hk1 : 0 < k := clampK_pos (by omega) (by omega)
    have hk2 : k ≤ want + 1 := clampK_le_want _ _ _
    have hk3 : k ≤ s.length + 1 := clampK_le_avail _ _ _
    have hrl : rest.length = s.length + 1 - k := by simp [rest, List.length_drop]
    have e : (c :: s).take (want + 1) = (c :: s).take k ++ rest.take (want + 1 - k) := by
      simp only [rest]; rw [← List.take_add]; congr 1; omega
    have hcf : cf = [] := by
      simp only [cf, chunk, List.flatMap_eq_nil_iff]
      intro x hx; apply hfd x; rw [e]; exact List.mem_append_left _ hx
    have h1 : want + 1 - k ≤ rest.length := by simp only [List.length_cons] at hlen; omega
    have h2 : ∀ x ∈ rest.take (want + 1 - k), x.fds = [] := by
      intro x hx; apply hfd; rw [e]; exact List.mem_append_right _ hx
    obtain ⟨b1, b2⟩ := ih h1 h2
    refine ⟨?_, ?_⟩
    · show (if first then cf else r.fds) = []
      rw [hcf, b1]; cases first <;> rfl
    · show (if first then [] else cf) ++ r.closed = []
      rw [hcf, b2]; cases first <;> rfl

/-- if the stream starts with the `12 + n` bytes of a message that carries no descriptors, `recv_body` reads exactly
them — for every chooser, whatever follows — and leaves the rest untouched -/
theorem recvBody_of_prefix {σ : Type} (ch : Chooser σ) (cl : Bool) (hdrOk : Bytes → Bool) (n : Nat) (bodyOk : Bytes → Bool)
    (cst : σ) (msg : Bytes) (rest : List Cell) (hl : msg.length = 12 + n)
    (hh : hdrOk (msg.take 12) = true) (hbdy : bodyOk (msg.drop 12) = true) :
    (recvBody ch cl hdrOk n bodyOk cst (segCells msg [] ++ rest)).res = .ok ⟨parseHdr (msg.take 12), msg.drop 12, [], none⟩ ∧
    (recvBody ch cl hdrOk n bodyOk cst (segCells msg [] ++ rest)).rest = rest ∧
    (recvBody ch cl hdrOk n bodyOk cst (segCells msg [] ++ rest)).closed = [] := by
  obtain ⟨h1, h2, h3⟩ := segCells_nofd msg
  have htake : (segCells msg [] ++ rest).take (12 + n) = segCells msg [] := by
    rw [List.take_append_of_le_length (by omega), List.take_of_length_le (by omega)]
  have hdrop : (segCells msg [] ++ rest).drop (12 + n) = rest := by
    rw [List.drop_append_of_le_length (by omega), List.drop_of_length_le (by omega)]; simp
  have hnf : ∀ c ∈ (segCells msg [] ++ rest).take (12 + n), c.fds = [] := by rw [htake]; exact h3
  have hfd : (((segCells msg [] ++ rest).take (12 + n)).flatMap (·.fds)).length ≤ 32 := by
    rw [htake]
    have : (segCells msg []).flatMap (·.fds) = [] := by rw [List.flatMap_eq_nil_iff]; exact h3
    rw [this]; simp
  obtain ⟨c1, c2, c3⟩ := recvAll_complete ch 32 cl (12 + n) cst (segCells msg [] ++ rest) true (by simp; omega) hfd
  obtain ⟨d1, d2⟩ := recvAll_no_fds ch 32 cl (12 + n) cst (segCells msg [] ++ rest) true (by simp; omega) hnf
  rw [htake, h2] at c1
  rw [hdrop] at c2
  unfold recvBody
  simp only [c1, c2, c3, d1, d2, hl, hh, hbdy]
  simp

/-- `recv_data` reports `full` only with exactly the requested number of bytes -/
theorem recvData_full_length {σ : Type} (ch : Chooser σ) (cl : Bool) :
    ∀ (want : Nat) (st : σ) (s : List Cell), (recvData ch cl want st s).outcome = .full →
      (recvData ch cl want st s).bytes.length = want := by
  intro want st s
  fun_induction recvData ch cl want st s with
  | case1 st s => intro _; rfl
  | case2 n st => intro h; cases cl <;> simp at h
  | case3 want st c s k0 st' hnext k chunk rest cf hne => intro h; simp at h
  | case4 want st c s k0 st' hnext k chunk rest cf he r ih =>
    intro h
    have hk2 : k ≤ want + 1 := clampK_le_want _ _ _
    have hk3 : k ≤ s.length + 1 := clampK_le_avail _ _ _
    have hr : r.bytes.length = want + 1 - k := ih h
    show (chunk.map (·.b) ++ r.bytes).length = want + 1
    have hc : chunk.length = k := by simp only [chunk, List.length_take, List.length_cons]; omega
    rw [List.length_append, List.length_map, hc, hr]
    omega

/-- cells of one `sendmsg` with descriptors: they ride on the first byte only -/
theorem segCells_cons (b : UInt8) (bs : Bytes) (fds : List Fd) :
    segCells (b :: bs) fds = ⟨b, fds, true⟩ :: bs.map (fun x => ⟨x, [], false⟩) := rfl

theorem segCells_props (msg : Bytes) (fds : List Fd) (hne : msg ≠ []) :
    (segCells msg fds).length = msg.length ∧ (segCells msg fds).map (·.b) = msg ∧
    (∀ c ∈ (segCells msg fds).tail, c.fds = []) ∧ ((segCells msg fds).head?.map (·.fds)).getD [] = fds ∧
    (segCells msg fds).flatMap (·.fds) = fds := by
  cases msg with
  | nil => exact absurd rfl hne
  | cons b bs =>
    rw [segCells_cons]
    refine ⟨by simp, by simp [Function.comp_def], ?_, by simp, ?_⟩
    · intro c hc
      simp only [List.tail_cons, List.mem_map] at hc
      obtain ⟨x, _, rfl⟩ := hc; rfl
    · simp only [List.flatMap_cons]
      have : (bs.map (fun x => (⟨x, [], false⟩ : Cell))).flatMap (·.fds) = [] := by
        rw [List.flatMap_eq_nil_iff]; intro c hc
        simp only [List.mem_map] at hc; obtain ⟨x, _, rfl⟩ := hc; rfl
      rw [this]; simp

theorem segCells_drop (msg : Bytes) (fds : List Fd) (k : Nat) (hk : 0 < k) :
    ((segCells msg fds).drop k).map (·.b) = msg.drop k ∧ ∀ c ∈ (segCells msg fds).drop k, c.fds = [] := by
  cases msg with
  | nil => simp [segCells]
  | cons b bs =>
    obtain ⟨k', rfl⟩ : ∃ k', k = k' + 1 := ⟨k - 1, by omega⟩
    rw [segCells_cons]
    simp only [List.drop_succ_cons]
    refine ⟨by rw [← List.map_drop]; simp [Function.comp_def], ?_⟩
    intro c hc
    have := List.mem_of_mem_drop hc
    simp only [List.mem_map] at this; obtain ⟨x, _, rfl⟩ := this; rfl

/-- descriptors riding on the first byte only (among the bytes that are read) are returned to the caller, none is dropped -/
theorem recvAll_fds_head {σ : Type} (ch : Chooser σ) (cap : Nat) (cl : Bool) :
    ∀ (want : Nat) (st : σ) (s : List Cell) (first : Bool), want ≤ s.length → 0 < want →
      (∀ c ∈ (s.take want).tail, c.fds = []) → ((s.head?.map (·.fds)).getD []).length ≤ cap →
      (recvAll ch cap cl want st s first).closed = (if first then [] else (s.head?.map (·.fds)).getD []) ∧
      (first = true → (recvAll ch cap cl want st s first).fds = (s.head?.map (·.fds)).getD []) := by
  intro want st s first
  fun_induction recvAll ch cap cl want st s first with
  | case1 first st s => intro _ h; simp at h
  | case2 first n st => intro h; simp at h
  | case3 want st c s first k0 st' hnext k chunk rest cf hgt r ih =>
    intro hlen _ htail hcap
    exfalso
    have hk1 : 0 < k := clampK_pos (by omega) (by omega)
    have hk2 : k ≤ want + 1 := clampK_le_want _ _ _
    obtain ⟨k', hk'⟩ : ∃ k', k = k' + 1 := ⟨k - 1, by omega⟩
    have : cf = c.fds := by
      simp only [cf, chunk]
      rw [hk', List.take_succ_cons, List.flatMap_cons]
      have : (s.take k').flatMap (·.fds) = [] := by
        rw [List.flatMap_eq_nil_iff]; intro x hx
        apply htail x
        simp only [List.take_succ_cons, List.tail_cons]
        have : s.take k' = (s.take want).take k' := by rw [List.take_take]; congr 1; omega
        rw [this] at hx; exact List.mem_of_mem_take hx
      simp [this]
    simp only [List.head?_cons, Option.map_some, Option.getD_some] at hcap
    rw [this] at hgt; omega
  | case4 want st c s first k0 st' hnext k chunk rest cf hle r ih =>
    intro hlen _ htail hcap
    simp only [Nat.succ_eq_add_one, List.take_succ_cons, List.tail_cons] at hlen htail
    have hk1 : 0 < k := clampK_pos (by omega) (by omega)
    have hk2 : k ≤ want + 1 := clampK_le_want _ _ _
    have hk3 : k ≤ s.length + 1 := clampK_le_avail _ _ _
    obtain ⟨k', hk'⟩ : ∃ k', k = k' + 1 := ⟨k - 1, by omega⟩
    have hcf : cf = c.fds := by
      simp only [cf, chunk]
      rw [hk', List.take_succ_cons, List.flatMap_cons]
      have : (s.take k').flatMap (·.fds) = [] := by
        rw [List.flatMap_eq_nil_iff]; intro x hx
        apply htail x
        have : s.take k' = (s.take want).take k' := by rw [List.take_take]; congr 1; omega
        rw [this] at hx; exact List.mem_of_mem_take hx
      simp [this]
    have hrest : rest = s.drop k' := by simp only [rest, hk', List.drop_succ_cons]
    have hrl : rest.length = s.length - k' := by rw [hrest]; simp
    have h1 : want + 1 - k ≤ rest.length := by simp only [List.length_cons] at hlen; omega
    have h2 : ∀ x ∈ rest.take (want + 1 - k), x.fds = [] := by
      intro x hx
      apply htail x
      rw [hrest] at hx
      have e : s.take want = s.take k' ++ (s.drop k').take (want - k') := by
        rw [← List.take_add]; congr 1; omega
      rw [e]
      have : want + 1 - k = want - k' := by omega
      rw [this] at hx
      exact List.mem_append_right _ hx
    obtain ⟨b1, b2⟩ := recvAll_no_fds ch cap cl (want + 1 - k) st' rest false h1 h2
    simp only [List.head?_cons, Option.map_some, Option.getD_some]
    refine ⟨?_, ?_⟩
    · show (if first then [] else cf) ++ r.closed = _
      rw [b2, hcf]; cases first <;> simp
    · intro hf
      show (if first then cf else r.fds) = _
      rw [hf, hcf]; simp

/-! ### the frontend's request server -/
section FrontendSrv
open Model.FrontendSrv

theorem find_arm {c : Nat} {a : Arm} (h : arms.find? (·.code == c) = some a) : a ∈ arms ∧ a.code = c := by
  have h1 := List.find?_some h
  have h2 := List.mem_of_find?_eq_some h
  exact ⟨h2, by simpa using h1⟩

/-- at most one handler invocation per framed request -/
theorem dispatch_calls_le_one (st : FSt) (hdr : Hdr) (buf : Bytes) (files : Option (List Fd)) (h : HOut) :
    (dispatch st hdr buf files h).calls.length ≤ 1 := by
  unfold dispatch
  repeat' split
  all_goals simp

/-- one `handle_request` over any stream and chooser either fails before the dispatch (nothing invoked, nothing written, no
panic) or runs the dispatch on a framed request: 12 header bytes that pass the header validator, an attached-file list that
passes `check_attached_files`, and a body of exactly the declared size -/
theorem step_cases {σ : Type} (ch : Chooser σ) (cl : Bool) (st : FSt) (cst : σ) (s : List Cell) (h : HOut) :
    ((step ch cl st cst s h).o.calls = [] ∧ (step ch cl st cst s h).o.out = [] ∧ (step ch cl st cst s h).o.res ≠ .panic) ∨
    ∃ hb buf files, hb.length = 12 ∧ hdrValidB hb = true ∧ filesOk (parseHdr hb).code files = true ∧
      buf.length = (parseHdr hb).size ∧
      (step ch cl st cst s h).o.calls = (dispatch st (parseHdr hb) buf files h).calls ∧
      (step ch cl st cst s h).o.out = (dispatch st (parseHdr hb) buf files h).out ∧
      (step ch cl st cst s h).o.res = (dispatch st (parseHdr hb) buf files h).res := by
  unfold step
  cases he : st.error with
  | some e => left; simp
  | none =>
    simp only
    generalize recvAll ch 32 cl 12 cst s true = r
    generalize (if r.fds.isEmpty then none else some r.fds : Option (List Fd)) = files
    split
    · left; simp
    · split
      · left; simp
      · split
        · left; simp
        · split
          · left; simp
          · rename_i hne0 hlen hval
            split
            · left; simp
            · rename_i hfo
              split
              · rename_i hz
                right
                refine ⟨_, [], _, by simpa using hlen, by simpa using hval, by simpa using hfo, ?_, rfl, rfl, rfl⟩
                simp at hz; simp [hz]
              · split
                · left; simp
                · split
                  · left; simp
                  · left; simp
                  · left; simp
                  · rename_i hfull
                    right
                    refine ⟨_, _, _, by simpa using hlen, by simpa using hval, by simpa using hfo, ?_, rfl, rfl, rfl⟩
                    exact recvData_full_length ch cl _ _ _ hfull

/-- **framing**: a message written with one `sendmsg` (header ++ body, descriptors as its ancillary data), followed by
anything, delivered in any segmentation: one `handle_request` reads exactly that message — header fields, body, files —
runs the dispatch on it and leaves the rest of the stream untouched -/
theorem step_of_message {σ : Type} (ch : Chooser σ) (cl : Bool) (st : FSt) (cst : σ) (code flags n : Nat) (body : Bytes)
    (fds : List Fd) (rest : List Cell) (h : HOut)
    (herr : st.error = none) (hc : code < 2^32) (hf : flags < 2^32) (hn : n ≤ Gen.Consts.MAX_MSG_SIZE) (hb : body.length = n)
    (hval : hdrValidB (encHdr code flags n) = true)
    (hfo : filesOk code (if fds.isEmpty then none else some fds) = true) (hfl : fds.length ≤ 32) :
    (step ch cl st cst (segCells (encHdr code flags n ++ body) fds ++ rest) h).o.calls =
      (dispatch st ⟨code, flags, n⟩ body (if fds.isEmpty then none else some fds) h).calls ∧
    (step ch cl st cst (segCells (encHdr code flags n ++ body) fds ++ rest) h).o.out =
      (dispatch st ⟨code, flags, n⟩ body (if fds.isEmpty then none else some fds) h).out ∧
    (step ch cl st cst (segCells (encHdr code flags n ++ body) fds ++ rest) h).o.res =
      (dispatch st ⟨code, flags, n⟩ body (if fds.isEmpty then none else some fds) h).res ∧
    (step ch cl st cst (segCells (encHdr code flags n ++ body) fds ++ rest) h).rest = rest := by
  have hn32 : n < 2^32 := by
    have : Gen.Consts.MAX_MSG_SIZE = 4096 := by decide
    omega
  generalize hmsg' : encHdr code flags n ++ body = msg
  have hmsg : msg = encHdr code flags n ++ body := hmsg'.symm
  have hml : msg.length = 12 + n := by rw [hmsg, List.length_append, encHdr_length, hb]
  have hne : msg ≠ [] := by intro e; rw [e] at hml; simp at hml; omega
  obtain ⟨p1, p2, p3, p4, p5⟩ := segCells_props msg fds hne
  generalize hs' : segCells msg fds ++ rest = s
  have hs : s = segCells msg fds ++ rest := hs'.symm
  have hsl : 12 ≤ s.length := by rw [hs]; simp; omega
  have htake12 : s.take 12 = (segCells msg fds).take 12 := by
    rw [hs, List.take_append_of_le_length (by omega)]
  have hfd12 : ((s.take 12).flatMap (·.fds)).length ≤ 32 := by
    rw [htake12]
    have := flatMap_fds_take_le (segCells msg fds) 12 (segCells msg fds).length (by omega)
    rw [List.take_length, p5] at this; omega
  obtain ⟨c1, c2, c3⟩ := recvAll_complete ch 32 cl 12 cst s true hsl hfd12
  have hhead : (s.head?.map (·.fds)).getD [] = fds := by
    rw [hs]; cases hsc : segCells msg fds with
    | nil => rw [hsc] at p1; simp at p1; omega
    | cons x xs => rw [hsc] at p4; simpa using p4
  have htail : ∀ c ∈ (s.take 12).tail, c.fds = [] := by
    intro c hc
    rw [htake12] at hc
    apply p3 c
    cases hsc : segCells msg fds with
    | nil => rw [hsc] at hc; simp at hc
    | cons x xs => rw [hsc] at hc; simp only [List.take_succ_cons, List.tail_cons] at hc ⊢; exact List.mem_of_mem_take hc
  obtain ⟨d1, d2⟩ := recvAll_fds_head ch 32 cl 12 cst s true hsl (by omega) htail (by rw [hhead]; exact hfl)
  have d2' := d2 rfl
  rw [hhead] at d2'
  simp only [if_true] at d1
  have hbytes : (recvAll ch 32 cl 12 cst s true).bytes = encHdr code flags n := by
    rw [c1, htake12, List.map_take, p2, hmsg, List.take_append_of_le_length (by simp [encHdr]),
      List.take_of_length_le (by simp [encHdr])]
  have hdrop : s.drop 12 = (segCells msg fds).drop 12 ++ rest := by
    rw [hs, List.drop_append_of_le_length (by omega)]
  obtain ⟨q1, q2⟩ := segCells_drop msg fds 12 (by omega)
  have hmdrop : msg.drop 12 = body := by
    rw [hmsg, List.drop_append_of_le_length (by simp [encHdr]), List.drop_of_length_le (by simp [encHdr])]; simp
  rw [hmdrop] at q1
  have hdl : ((segCells msg fds).drop 12).length = n := by
    have := congrArg List.length q1; simpa [hb] using this
  unfold step
  simp only [herr, c3, hbytes, c2, d1, d2', encHdr_length, hval, parseHdr_encHdr code flags n hc hf hn32, hfo]
  by_cases hz : n = 0
  · subst hz
    have hbody : body = [] := List.eq_nil_of_length_eq_zero hb
    have : (segCells msg fds).drop 12 = [] := List.eq_nil_of_length_eq_zero hdl
    simp [hbody, hdrop, this]
  · have hsz : (n == 0) = false := by simpa using hz
    have hmx : ¬ (n > Gen.Consts.MAX_MSG_SIZE) := by omega
    have hwl : n ≤ (s.drop 12).length := by rw [hdrop]; simp; omega
    have htk : (s.drop 12).take n = (segCells msg fds).drop 12 := by
      rw [hdrop, List.take_append_of_le_length (by omega), List.take_of_length_le (by omega)]
    have hnf : ∀ c ∈ (s.drop 12).take n, c.fds = [] := by rw [htk]; exact q2
    obtain ⟨r1, r2, r3, r4⟩ := recvData_complete ch cl n (recvAll ch 32 cl 12 cst s true).st (s.drop 12) hwl hnf
    rw [htk, q1] at r1
    have hdd : (s.drop 12).drop n = rest := by
      rw [hdrop, List.drop_append_of_le_length (by omega), List.drop_of_length_le (by omega)]; simp
    rw [hdd] at r2
    simp [hsz, hmx, r1, r2, r4]

end FrontendSrv

end Lemmas.BackendChannel
