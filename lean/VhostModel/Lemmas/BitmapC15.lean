import VhostModel.Lemmas.Bitmap
/-! helper lemmas for `Props.C15` (arithmetic cores, membership characterisations, list lemmas) -/
namespace Lemmas.BitmapC15
open Model.Bitmap Lemmas.Bitmap
open Spec.DirtyLog (Region touched covers LoggedExactly)

theorem new_eq_some_iff (start len logLen : Nat) (bm : AtomicBitmapMmap) :
    AtomicBitmapMmap.new start len logLen = some bm ↔
      (0 < len ∧ start + (len - 1) ≤ usizeMax ∧ (start + (len - 1)) / 4096 / 8 < logLen ∧
       bm = { logLen := logLen, pagesBeforeRegion := start / 4096, numberOfPages := len / 4096 }) := by
  unfold AtomicBitmapMmap.new checkedAdd pageWord pageNumber logPageSize logWordSize
  by_cases h0 : len = 0
  · simp [h0]
  · by_cases h1 : start + (len - 1) ≤ usizeMax
    · by_cases h2 : (start + (len - 1)) / 4096 / 8 ≥ logLen
      · simp [h0, h1, h2]; omega
      · simp [h0, h1, h2]
        constructor
        · intro h; exact ⟨by omega, by omega, h.symm⟩
        · intro h; exact h.2.2.symm
    · simp [h0, h1]

theorem accept_region_iff (r : Region) (logLen : Nat) (hsz : 0 < r.size) (hfit : r.gpa + r.size - 1 ≤ usizeMax) :
    (AtomicBitmapMmap.new r.gpa r.size logLen).isSome = true ↔ covers logLen r := by
  unfold covers Region.lastPage Spec.DirtyLog.pageSize
  constructor
  · intro h
    obtain ⟨bm, hbm⟩ := Option.isSome_iff_exists.1 h
    have := (new_eq_some_iff _ _ _ _).1 hbm
    have e : r.gpa + (r.size - 1) = r.gpa + r.size - 1 := by omega
    rw [← e]; exact this.2.2.1
  · intro h
    apply Option.isSome_iff_exists.2
    refine ⟨_, (new_eq_some_iff _ _ _ _).2 ⟨hsz, by omega, ?_, rfl⟩⟩
    have e : r.gpa + (r.size - 1) = r.gpa + r.size - 1 := by omega
    rw [e]; exact h

/-- membership in the steps of `AtomicBitmapMmap::mark_dirty` -/
theorem mem_markSteps (bm : AtomicBitmapMmap) (A len : Nat) (s : Step) :
    s ∈ bm.markSteps A len ↔
      ∃ p, 0 < len ∧ A / 4096 ≤ p ∧ p ≤ satAdd A (len - 1) / 4096 ∧ p < bm.numberOfPages ∧
        s = stepOf (bm.pagesBeforeRegion + p) := by
  unfold AtomicBitmapMmap.markSteps
  by_cases h0 : len = 0
  · simp [h0]
  · simp only [h0, if_false, mem_markLoop, pageNumber, logPageSize]
    constructor
    · rintro ⟨p, h1, h2, h3, h4⟩; exact ⟨p, by omega, h1, by omega, h3, h4⟩
    · rintro ⟨p, _, h1, h2, h3, h4⟩; exact ⟨p, h1, by omega, h3, h4⟩

/-- base address after a chain of `slice_at` calls -/
theorem slices_base (b : BitmapMmapRegion) (sl : List Nat) (hb : b.base ≤ usizeMax) :
    (b.slices sl).inner = b.inner ∧ (b.slices sl).base = min (b.base + sl.sum) usizeMax := by
  induction sl generalizing b with
  | nil => simp [BitmapMmapRegion.slices]; omega
  | cons o os ih =>
    unfold BitmapMmapRegion.slices
    have hb' : (b.sliceAt o).base ≤ usizeMax := by
      unfold BitmapMmapRegion.sliceAt satAdd; simp only; split <;> omega
    obtain ⟨h1, h2⟩ := ih (b.sliceAt o) hb'
    refine ⟨by rw [h1]; rfl, ?_⟩
    rw [h2]
    unfold BitmapMmapRegion.sliceAt satAdd
    simp only [List.sum_cons]
    split <;> omega

/-- arithmetic core, no overflow: region-relative page window clipped to the region = touched pages inside the region -/
theorem arith_exact (start size T len P : Nat)
    (h1 : start % 4096 = 0) (h2 : size % 4096 = 0) (h4 : start + (size - 1) ≤ 2 ^ 64 - 1)
    (hT : T ≤ 2 ^ 64 - 1) :
    (∃ p, 0 < len ∧ T / 4096 ≤ p ∧ p ≤ (if T + (len - 1) ≤ 2 ^ 64 - 1 then T + (len - 1) else 2 ^ 64 - 1) / 4096 ∧
        p < size / 4096 ∧ start / 4096 + p = P) ↔
    (0 < len ∧ (start + T) / 4096 ≤ P ∧ P ≤ (start + T + len - 1) / 4096 ∧ start ≤ P * 4096 ∧ P * 4096 < start + size) := by
  constructor
  · rintro ⟨p, h5, h6, h7, h8, rfl⟩
    split at h7 <;> omega
  · rintro ⟨h5, h6, h7, h8, h9⟩
    refine ⟨P - start / 4096, h5, by omega, ?_, by omega, by omega⟩
    split <;> omega

theorem arith_overflow (start size T P : Nat) (h4 : start + (size - 1) ≤ 2 ^ 64 - 1) (h3 : 0 < size)
    (hT : 2 ^ 64 ≤ T) :
    ¬ ((start + T) / 4096 ≤ P ∧ P * 4096 < start + size) := by
  omega

theorem arith_sat (size p : Nat) (h : size ≤ 2 ^ 64 - 1) : ¬ ((2 ^ 64 - 1) / 4096 ≤ p ∧ p < size / 4096) := by
  omega

theorem arith_bounds (start size logLen p : Nat) (h : (start + (size - 1)) / 4096 / 8 < logLen) (hp : p < size / 4096) :
    (start / 4096 + p) / 8 < logLen := by
  omega

/-- steps of a (sliced) region bitmap whose inner bitmap is `bm` -/
theorem mem_region_markSteps (bm : AtomicBitmapMmap) (base offset len : Nat) (s : Step) :
    s ∈ ({ inner := some bm, base := base } : BitmapMmapRegion).markSteps offset len ↔
      base + offset ≤ usizeMax ∧ s ∈ bm.markSteps (base + offset) len := by
  unfold BitmapMmapRegion.markSteps checkedAdd
  simp only
  by_cases h : base + offset ≤ usizeMax <;> simp [h]

theorem min_nosat (a b : Nat) (h : a + b ≤ 2 ^ 64 - 1) : min a (2 ^ 64 - 1) = a := by omega

theorem min_sat (a b : Nat) (h : ¬ a + b ≤ 2 ^ 64 - 1) (h1 : min a (2 ^ 64 - 1) + b ≤ 2 ^ 64 - 1) :
    min a (2 ^ 64 - 1) = 2 ^ 64 - 1 ∧ b = 0 := by omega

theorem assoc3 (a b c : Nat) : a + (b + c) = a + b + c := by omega

theorem eight_split (x P : Nat) : x = 8 * (P / 8) + P % 8 ↔ x = P := by omega

theorem any_hits_iff (steps : List Step) (i j : Nat) :
    steps.any (hits i j) = true ↔ ∃ s ∈ steps, hits i j s = true := by
  simp [List.any_eq_true]

theorem mem_set_iff {α} (l : List α) (i : Nat) (a x : α) (h : i < l.length) :
    x ∈ l.set i a ↔ x = a ∨ ∃ j, j ≠ i ∧ l[j]? = some x := by
  constructor
  · intro hx
    obtain ⟨j, hj, e⟩ := List.getElem_of_mem hx
    rw [List.getElem_set] at e
    by_cases hij : i = j
    · left; simp [hij] at e; exact e.symm
    · right; simp [hij] at e
      refine ⟨j, by omega, ?_⟩
      rw [List.length_set] at hj
      rw [List.getElem?_eq_getElem hj, e]
  · rintro (rfl | ⟨j, hj, e⟩)
    · exact List.mem_iff_getElem.2 ⟨i, by simpa using h, by simp⟩
    · have hjl : j < l.length := by
        by_cases hh : j < l.length
        · exact hh
        · rw [List.getElem?_eq_none (Nat.le_of_not_lt hh)] at e; cases e
      refine List.mem_iff_getElem.2 ⟨j, by simpa using hjl, ?_⟩
      rw [List.getElem_set]
      have : ¬ i = j := fun h => hj h.symm
      simp [this]
      rw [List.getElem?_eq_getElem hjl] at e; exact Option.some.inj e

/-- an interleaving contains exactly the steps of the writers -/
theorem interleave_mem (ws : List (List Step)) (tr : List Step) (h : Interleave ws tr) (t : Step) :
    t ∈ tr ↔ ∃ w ∈ ws, t ∈ w := by
  induction h with
  | done ws hall =>
    simp only [List.not_mem_nil, false_iff]
    rintro ⟨w, hw, ht⟩
    rw [hall w hw] at ht; cases ht
  | pick ws i s rest tr hi _ ih =>
    have hil : i < ws.length := by
      by_cases hh : i < ws.length
      · exact hh
      · rw [List.getElem?_eq_none (Nat.le_of_not_lt hh)] at hi; cases hi
    have hwi : ws[i] = s :: rest := by
      rw [List.getElem?_eq_getElem hil] at hi; exact Option.some.inj hi
    simp only [List.mem_cons, ih]
    constructor
    · rintro (e | ⟨w, hw, ht⟩)
      · exact ⟨s :: rest, hwi ▸ List.getElem_mem hil, by simp [e]⟩
      · rcases (mem_set_iff ws i rest w hil).1 hw with rfl | ⟨j, _, e⟩
        · exact ⟨s :: w, hwi ▸ List.getElem_mem hil, by simp [ht]⟩
        · exact ⟨w, List.mem_of_getElem? e, ht⟩
    · rintro ⟨w, hw, ht⟩
      obtain ⟨j, hj, e⟩ := List.getElem_of_mem hw
      by_cases hji : j = i
      · subst hji
        rw [hwi] at e; subst e
        rcases List.mem_cons.1 ht with rfl | ht'
        · left; rfl
        · right; exact ⟨rest, (mem_set_iff ws j rest rest hil).2 (Or.inl rfl), ht'⟩
      · right
        exact ⟨w, (mem_set_iff ws i rest w hil).2 (Or.inr ⟨j, hji, by rw [List.getElem?_eq_getElem hj, e]⟩), ht⟩

theorem buildAll_isSome_iff (logLen : Nat) (rs : List Reg) :
    (buildAll logLen rs).isSome = true ↔ ∀ r ∈ rs, (AtomicBitmapMmap.new r.start r.len logLen).isSome = true := by
  induction rs with
  | nil => simp [buildAll]
  | cons r rs ih =>
    unfold buildAll
    cases h : AtomicBitmapMmap.new r.start r.len logLen with
    | none => simp [h]
    | some bm => simp [h, ih]

theorem buildAll_zip (logLen id : Nat) (rs : List Reg) (bms : List AtomicBitmapMmap) (h : buildAll logLen rs = some bms) :
    ∀ r' ∈ (rs.zip bms).map (fun (r, bm) => ({ r with bitmap := some (id, bm) } : Reg)),
      ∃ bm, r'.bitmap = some (id, bm) ∧ AtomicBitmapMmap.new r'.start r'.len logLen = some bm := by
  induction rs generalizing bms with
  | nil => simp
  | cons r rs ih =>
    unfold buildAll at h
    cases hn : AtomicBitmapMmap.new r.start r.len logLen with
    | none => simp [hn] at h
    | some bm =>
      simp only [hn] at h
      cases hb : buildAll logLen rs with
      | none => simp [hb] at h
      | some bms' =>
        simp [hb] at h; subst h
        intro r' hr'
        simp only [List.zip_cons_cons, List.map_cons, List.mem_cons] at hr'
        rcases hr' with rfl | hr'
        · exact ⟨bm, rfl, hn⟩
        · exact ih bms' hb r' hr'

theorem mapOpt_mem {α β : Type} (f : α → Option β) (xs : List α) (ys : List β) (h : mapOpt f xs = some ys) :
    ∀ y ∈ ys, ∃ x ∈ xs, f x = some y := by
  induction xs generalizing ys with
  | nil => simp [mapOpt] at h; subst h; simp
  | cons x xs ih =>
    unfold mapOpt at h
    cases hf : f x with
    | none => simp [hf] at h
    | some b =>
      simp only [hf] at h
      cases hm : mapOpt f xs with
      | none => simp [hm] at h
      | some bs =>
        simp [hm] at h; subst h
        intro y hy
        rcases List.mem_cons.1 hy with rfl | hy
        · exact ⟨x, by simp, hf⟩
        · obtain ⟨x', hx', e⟩ := ih bs hm y hy
          exact ⟨x', by simp [hx'], e⟩

theorem logRegion_inv (s : HState) (a l : Nat) (r : Reg) (h : logRegion s a l = some r) :
    ∀ id logLen, s.logmem = some (id, logLen) →
      ∃ bm, r.bitmap = some (id, bm) ∧ AtomicBitmapMmap.new r.start r.len logLen = some bm := by
  intro id logLen hl
  unfold logRegion at h
  rw [hl] at h
  simp only at h
  cases hn : AtomicBitmapMmap.new a l logLen with
  | none => simp [hn] at h
  | some bm => simp [hn] at h; subst h; exact ⟨bm, rfl, hn⟩

theorem mem_insertSorted (r x : Reg) (rs : List Reg) : x ∈ insertSorted r rs ↔ x = r ∨ x ∈ rs := by
  induction rs with
  | nil => simp [insertSorted]
  | cons y ys ih =>
    unfold insertSorted
    split
    · simp
    · simp [ih]; constructor
      · rintro (h | h | h) <;> simp [h]
      · rintro (h | h | h) <;> simp [h]

theorem run_append (stp : HState → Op → Option HState) (s : HState) (a b : List Op) :
    run stp s (a ++ b) = run stp (run stp s a) b := by
  induction a generalizing s with
  | nil => rfl
  | cons op ops ih =>
    simp only [List.cons_append, run]
    cases stp s op <;> exact ih _

end Lemmas.BitmapC15
