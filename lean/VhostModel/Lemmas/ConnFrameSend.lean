import VhostModel.Lemmas.ConnSend

set_option linter.unusedSimpArgs false
set_option linter.unusedVariables false
/-!
# The sending framing functions: `send_header`, `send_message`, `send_message_with_payload`

Each is: guards, build the iovec array, call `send_iovec_all`, `?`, the `PartialMessage` check against the total length.
-/
namespace Lemmas.ConnFrameSend
open Imp Gen.ConnLoops Model.Endpoint Lemmas.ConnSend

/-- `let r = self.send_iovec_all(iovs, fds)` as one step -/
theorem call_sendAll {σ : Type} (env : Env σ) (nm : String) (io f r : Var) (F : Nat) (fr : Frame) (w : World σ)
    (hF : w.script.length < F) (hlen : ((fr.io io.id).bytes w.mem).length = (fr.io io.id).lens.sum) :
    let res := exec env (.call nm SendIovecAll.fnBody [] [] [(SendIovecAll.fds, f)] [(SendIovecAll.iovs, .var io)] r) F fr w
    let m := sendAll ((fr.f f.id).getD []) ((fr.io io.id).bytes w.mem) 0 (w.script.map (toEv env.classify)) (wireOf w.sent)
    wireOf res.2.2.sent = m.1 ∧ res.2.2.mem = w.mem ∧
    (m.2 = .outOfScript → res.1 = .stuck .outOfScript) ∧
    (m.2 ≠ .outOfScript → ∃ rv, res.1 = .normal ∧ res.2.1 = { fr with r := upd fr.r r.id rv } ∧ sendResOf (.done rv) = some m.2) := by
  intro res m
  have h := send_iovec_all_exec env F
    { n := fun _ => 0, l := fun _ => [], f := upd (fun _ => none) 0 (fr.f f.id), io := upd (fun _ => {}) 0 (fr.io io.id) } w hF
    (by simpa using hlen)
  simp only [upd_apply, reduceIte] at h
  have hres : res = (match exec env SendIovecAll.fnBody F
      { n := fun _ => 0, l := fun _ => [], f := upd (fun _ => none) 0 (fr.f f.id), io := upd (fun _ => {}) 0 (fr.io io.id) } w with
      | (.done rv, _, w') => (.normal, { fr with r := upd fr.r r.id rv }, w')
      | (.stuck s, fr', w') => (.stuck s, fr', w')
      | (_, _, w') => (.stuck .fault, fr, w')) := by
    simp only [res, exec_call, bindArgsN, bindArgsIo, bindArgsL, bindArgsF, evalIo]
    rfl
  rcases hx : exec env SendIovecAll.fnBody F
      { n := fun _ => 0, l := fun _ => [], f := upd (fun _ => none) 0 (fr.f f.id), io := upd (fun _ => {}) 0 (fr.io io.id) } w with ⟨c, fr', w'⟩
  rw [hx] at h hres
  obtain ⟨t1, t2, t3⟩ := h
  simp only at t1 t2 t3
  cases c with
  | normal => simp [sendResOf] at t3
  | brk => simp [sendResOf] at t3
  | done rv =>
    simp only at hres
    rw [hres]
    refine ⟨t1, t2, ?_, fun _ => ⟨rv, rfl, rfl, t3⟩⟩
    intro ho
    rw [show m.2 = SendRes.outOfScript from ho] at t3
    rcases rv with ⟨⟨nats, fo, bufs⟩⟩ | e
    · rcases nats with _ | ⟨n, _ | ⟨n2, rest⟩⟩ <;> simp [sendResOf] at t3
    · rcases e with _ | ⟨c, e⟩ | _ | _ | _ | _ | _ <;> try (simp [sendResOf] at t3)
      cases c <;> simp [sendResOf] at t3
  | stuck sk =>
    simp only at hres
    rw [hres]
    refine ⟨t1, t2, fun _ => ?_, fun hne => ?_⟩
    · cases sk <;> simp [sendResOf] at t3 ⊢
    · cases sk <;> simp [sendResOf] at t3
      exact absurd t3.symm hne

/-- the outcome of a framing send function, given the model's run of the loop over the whole message and the length the
function expects to have been sent -/
def FrameSendSpec {σ : Type} (m : Wire × SendRes) (total : Nat) (res : Res σ) : Prop :=
  wireOf res.2.2.sent = m.1 ∧
  match m.2 with
  | .ok n => res.1 = (if n ≠ total then .done (.err .partialMessage) else .done (.ok {}))
  | .broken => ∃ e, res.1 = .done (.err (.sock .broken e))
  | .other => ∃ c e, (c = .connect ∨ c = .other) ∧ res.1 = .done (.err (.sock c e))
  | .outOfScript => res.1 = .stuck .outOfScript

theorem bytes_alloc (mem : List Bytes) (ps : List Bytes) :
    IoVal.bytes (mem ++ [ps.flatten]) { store := mem.length, start := 0, lens := ps.map (·.length) } = ps.flatten := by
  simp only [IoVal.bytes, List.getD_eq_getElem?_getD, List.getElem?_concat_length, Option.getD_some, List.drop_zero]
  apply List.take_of_length_le
  rw [List.length_flatten]
  exact Nat.le_refl _

/-- `send_header` (`hdr` = byte-slice slot 0, `fds` = descriptor slot 0) -/
theorem send_header_exec {σ : Type} (env : Env σ) (F : Nat) (fr : Frame) (w : World σ) (hF : w.script.length < F) :
    FrameSendSpec (sendAll ((fr.f 0).getD []) (fr.b 0) 0 (w.script.map (toEv env.classify)) (wireOf w.sent)) env.sizeH
      (exec env SendHeader.fnBody F fr w) := by
  have hby := bytes_alloc w.mem [fr.b 0]
  simp only [List.flatten_cons, List.flatten_nil, List.append_nil, List.map_cons, List.map_nil] at hby
  have hc := call_sendAll env "send_iovec_all" SendHeader.iovs SendHeader.fds SendHeader.r_bytes F
    { fr with io := upd fr.io 0 { store := w.mem.length, start := 0, lens := [(fr.b 0).length] } }
    { w with mem := w.mem ++ [fr.b 0] } hF (by simp [hby])
  simp only [upd_apply, reduceIte, hby] at hc
  unfold SendHeader.fnBody
  rw [exec_seq, exec_allocIo]
  simp only [evalPieces, evalPiece, List.map_cons, List.map_nil, List.flatten_cons, List.flatten_nil, List.append_nil]
  rw [exec_seq]
  rcases hx : exec env (.call "send_iovec_all" SendIovecAll.fnBody [] [] [(SendIovecAll.fds, SendHeader.fds)] [(SendIovecAll.iovs, .var SendHeader.iovs)] SendHeader.r_bytes) F
      { fr with io := upd fr.io 0 { store := w.mem.length, start := 0, lens := [(fr.b 0).length] } }
      { w with mem := w.mem ++ [fr.b 0] } with ⟨c, fr2, w2⟩
  rw [hx] at hc
  obtain ⟨t1, t2, t3, t4⟩ := hc
  simp only at t1 t2 t3 t4
  generalize sendAll ((fr.f 0).getD []) (fr.b 0) 0 (w.script.map (toEv env.classify)) (wireOf w.sent) = m at *
  unfold FrameSendSpec
  by_cases ho : m.2 = .outOfScript
  · have := t3 ho
    subst this
    simp only [ho]
    exact ⟨t1, trivial⟩
  · obtain ⟨rv, u1, u2, u3⟩ := t4 ho
    subst u1 u2
    rcases rv with ⟨⟨nats, fo, bufs⟩⟩ | e
    · rcases nats with _ | ⟨n, _ | ⟨n2, rest⟩⟩
      · simp [sendResOf] at u3
      · simp only [sendResOf, Option.some.injEq] at u3
        rw [← u3]
        by_cases hn : n = env.sizeH <;>
          simp [exec_matchResult, evalB, evalE, evalErr, evalEs, evalF, hn, t1]
      · simp [sendResOf] at u3
    · rcases e with _ | ⟨c, e⟩ | _ | _ | _ | _ | _ <;> try (simp [sendResOf] at u3)
      cases c <;> simp only [sendResOf, Option.some.injEq, reduceCtorEq] at u3 <;> rw [← u3] <;>
        simp [exec_matchResult, evalErr, errOf, Err.into, t1]

/-- `send_message` (`hdr`, `body` = byte-slice slots 0, 1; `fds` = descriptor slot 0) -/
theorem send_message_exec {σ : Type} (env : Env σ) (F : Nat) (fr : Frame) (w : World σ) (hF : w.script.length < F) :
    if env.sizeT > env.maxMsg then
      (exec env SendMessage.fnBody F fr w).1 = .done (.err .oversizedMsg) ∧ (exec env SendMessage.fnBody F fr w).2.2.sent = w.sent
    else
      FrameSendSpec (sendAll ((fr.f 0).getD []) (fr.b 0 ++ fr.b 1) 0 (w.script.map (toEv env.classify)) (wireOf w.sent))
        (env.sizeH + env.sizeT) (exec env SendMessage.fnBody F fr w) := by
  unfold SendMessage.fnBody
  rw [exec_seq, exec_ite]
  by_cases hg : env.sizeT > env.maxMsg
  · simp [evalB, evalE, hg, evalErr]
  · simp only [evalB, evalE, hg, decide_false, exec_skip, if_false]
    have hby := bytes_alloc w.mem [fr.b 0, fr.b 1]
    simp only [List.flatten_cons, List.flatten_nil, List.append_nil, List.map_cons, List.map_nil] at hby
    have hc := call_sendAll env "send_iovec_all" SendMessage.iovs_arg SendMessage.fds SendMessage.r_bytes F
      { fr with io := upd fr.io 0 { store := w.mem.length, start := 0, lens := [(fr.b 0).length, (fr.b 1).length] } }
      { w with mem := w.mem ++ [fr.b 0 ++ fr.b 1] } hF (by simp [hby])
    simp only [upd_apply, reduceIte, hby] at hc
    rw [exec_seq, exec_allocIo]
    simp only [evalPieces, evalPiece, List.map_cons, List.map_nil, List.flatten_cons, List.flatten_nil, List.append_nil]
    rw [exec_seq]
    rcases hx : exec env (.call "send_iovec_all" SendIovecAll.fnBody [] [] [(SendIovecAll.fds, SendMessage.fds)] [(SendIovecAll.iovs, .var SendMessage.iovs_arg)] SendMessage.r_bytes) F
        { fr with io := upd fr.io 0 { store := w.mem.length, start := 0, lens := [(fr.b 0).length, (fr.b 1).length] } }
        { w with mem := w.mem ++ [fr.b 0 ++ fr.b 1] } with ⟨c, fr2, w2⟩
    rw [hx] at hc
    obtain ⟨t1, t2, t3, t4⟩ := hc
    simp only at t1 t2 t3 t4
    generalize sendAll ((fr.f 0).getD []) (fr.b 0 ++ fr.b 1) 0 (w.script.map (toEv env.classify)) (wireOf w.sent) = m at *
    unfold FrameSendSpec
    by_cases ho : m.2 = .outOfScript
    · have := t3 ho
      subst this
      simp only [ho]
      exact ⟨t1, trivial⟩
    · obtain ⟨rv, u1, u2, u3⟩ := t4 ho
      subst u1 u2
      rcases rv with ⟨⟨nats, fo, bufs⟩⟩ | e
      · rcases nats with _ | ⟨n, _ | ⟨n2, rest⟩⟩
        · simp [sendResOf] at u3
        · simp only [sendResOf, Option.some.injEq] at u3
          rw [← u3]
          by_cases hn : n = env.sizeH + env.sizeT <;>
            simp [exec_matchResult, evalB, evalE, evalErr, evalEs, evalF, hn, t1]
        · simp [sendResOf] at u3
      · rcases e with _ | ⟨c, e⟩ | _ | _ | _ | _ | _ <;> try (simp [sendResOf] at u3)
        cases c <;> simp only [sendResOf, Option.some.injEq, reduceCtorEq] at u3 <;> rw [← u3] <;>
          simp [exec_matchResult, evalErr, errOf, Err.into, t1]

/-- `send_message_with_payload` (`hdr`, `body`, `payload` = byte-slice slots 0, 1, 2; `fds` = descriptor slot 0) -/
theorem send_message_with_payload_exec {σ : Type} (env : Env σ) (F : Nat) (fr : Frame) (w : World σ) (hF : w.script.length < F) :
    if env.sizeT > env.maxMsg ∨ (fr.b 2).length > env.maxMsg - env.sizeT then
      (exec env SendMessageWithPayload.fnBody F fr w).1 = .done (.err .oversizedMsg) ∧
      (exec env SendMessageWithPayload.fnBody F fr w).2.2.sent = w.sent
    else if (fr.f 0).isSome ∧ ((fr.f 0).getD []).length > 32 then
      (exec env SendMessageWithPayload.fnBody F fr w).1 = .done (.err .incorrectFds) ∧
      (exec env SendMessageWithPayload.fnBody F fr w).2.2.sent = w.sent
    else
      FrameSendSpec (sendAll ((fr.f 0).getD []) (fr.b 0 ++ fr.b 1 ++ fr.b 2) 0 (w.script.map (toEv env.classify)) (wireOf w.sent))
        (env.sizeH + env.sizeT + (fr.b 2).length) (exec env SendMessageWithPayload.fnBody F fr w) := by
  unfold SendMessageWithPayload.fnBody
  rw [exec_seq, exec_assign]
  simp only [evalE]
  rw [exec_seq, exec_ite]
  by_cases hg : env.sizeT > env.maxMsg
  · simp [evalB, evalE, hg, evalErr]
  · have hg' : env.sizeT ≤ env.maxMsg := by omega
    simp only [evalB, evalE, hg, decide_false, exec_skip, false_or]
    rw [exec_seq, exec_ite]
    by_cases hg2 : (fr.b 2).length > env.maxMsg - env.sizeT
    · simp [evalB, evalE, hg2, hg', evalErr]
    · simp only [evalB, evalE, hg2, hg', decide_false, exec_skip, if_false, upd_apply, reduceIte, if_true]
      rw [exec_seq]
      by_cases hf : (fr.f 0).isSome ∧ ((fr.f 0).getD []).length > 32
      · simp [evalB, evalE, hf.1, hf.2, evalErr, hf]
      · simp only [hf, if_false]
        have hstep : exec env (.ite (.fIsSome SendMessageWithPayload.fds)
              (.ite (.gt (.lenF SendMessageWithPayload.fds) (.lit 32)) (.retErr (.const .incorrectFds)) .skip) .skip) F
              { fr with n := upd fr.n 0 (fr.b 2).length } w
            = (.normal, { fr with n := upd fr.n 0 (fr.b 2).length }, w) := by
          rw [exec_ite]
          cases hs : (fr.f 0).isSome
          · simp [evalB, hs]
          · have : ¬ ((fr.f 0).getD []).length > 32 := fun h => hf ⟨hs, h⟩
            simp [evalB, evalE, this, hs]
        rw [hstep]
        simp only []
        rw [exec_seq, exec_assign]
        simp only [evalE, upd_apply, reduceIte]
        have hby := bytes_alloc w.mem [fr.b 0, fr.b 1, fr.b 2]
        simp only [List.flatten_cons, List.flatten_nil, List.append_nil, List.map_cons, List.map_nil, ← List.append_assoc] at hby
        have hc := call_sendAll env "send_iovec_all" SendMessageWithPayload.iovs_arg SendMessageWithPayload.fds SendMessageWithPayload.r_len F
          { fr with n := upd (upd fr.n 0 (fr.b 2).length) 1 (env.sizeH + env.sizeT + (fr.b 2).length),
                    io := upd fr.io 0 { store := w.mem.length, start := 0, lens := [(fr.b 0).length, (fr.b 1).length, (fr.b 2).length] } }
          { w with mem := w.mem ++ [fr.b 0 ++ fr.b 1 ++ fr.b 2] } hF (by simp only [upd_apply, reduceIte]; rw [hby]; simp)
        simp only [upd_apply, reduceIte, hby] at hc
        rw [exec_seq, exec_allocIo]
        simp only [evalPieces, evalPiece, List.map_cons, List.map_nil, List.flatten_cons, List.flatten_nil, List.append_nil, ← List.append_assoc]
        rw [exec_seq]
        rcases hx : exec env (.call "send_iovec_all" SendIovecAll.fnBody [] [] [(SendIovecAll.fds, SendMessageWithPayload.fds)]
            [(SendIovecAll.iovs, .var SendMessageWithPayload.iovs_arg)] SendMessageWithPayload.r_len) F
            { fr with n := upd (upd fr.n 0 (fr.b 2).length) 1 (env.sizeH + env.sizeT + (fr.b 2).length),
                      io := upd fr.io 0 { store := w.mem.length, start := 0, lens := [(fr.b 0).length, (fr.b 1).length, (fr.b 2).length] } }
            { w with mem := w.mem ++ [fr.b 0 ++ fr.b 1 ++ fr.b 2] } with ⟨c, fr2, w2⟩
        rw [hx] at hc
        obtain ⟨t1, t2, t3, t4⟩ := hc
        simp only at t1 t2 t3 t4
        generalize sendAll ((fr.f 0).getD []) (fr.b 0 ++ fr.b 1 ++ fr.b 2) 0 (w.script.map (toEv env.classify)) (wireOf w.sent) = m at *
        unfold FrameSendSpec
        by_cases ho : m.2 = .outOfScript
        · have := t3 ho
          subst this
          simp only [ho]
          exact ⟨t1, trivial⟩
        · obtain ⟨rv, u1, u2, u3⟩ := t4 ho
          subst u1 u2
          rcases rv with ⟨⟨nats, fo, bufs⟩⟩ | e
          · rcases nats with _ | ⟨n, _ | ⟨n2, rest⟩⟩
            · simp [sendResOf] at u3
            · simp only [sendResOf, Option.some.injEq] at u3
              rw [← u3]
              by_cases hn : n = env.sizeH + env.sizeT + (fr.b 2).length <;>
                simp [exec_matchResult, evalB, evalE, evalErr, evalEs, evalF, hn, t1]
            · simp [sendResOf] at u3
          · rcases e with _ | ⟨c, e⟩ | _ | _ | _ | _ | _ <;> try (simp [sendResOf] at u3)
            cases c <;> simp only [sendResOf, Option.some.injEq, reduceCtorEq] at u3 <;> rw [← u3] <;>
              simp [exec_matchResult, evalErr, errOf, Err.into, t1]
end Lemmas.ConnFrameSend
