import VhostModel.Lemmas.RoundtripDefs
/-!
# C03, operations that are acknowledged (REPLY_ACK) — and `callRecv` in terms of `recv`

`turn_ack`: for an operation whose request is answered by `send_ack_message` (value 0 iff success) and whose API method
ends in `wait_for_ack`: without REPLY_ACK / NEED_REPLY nothing is written and nothing is read; otherwise the
acknowledgement is read back entirely, `Ok(())` for 0 and `BackendInternal` for the negative acknowledgement — with the
connection open or closed, for every chooser.
-/
namespace Lemmas.Roundtrip
open Base Model.Stream Model.Msgs Model.Frontend
open Model.BackendSrv (Err Hdr bitSet BSt HOut Out Res ackOf replyHdr)

section
variable {σ : Type} (ch : Chooser σ) (cl : Bool) (s' : FSt) (op : Op) (req : Req) (cst : σ) (str : List Cell)

theorem callRecv_of_ok {rep : Reply} (hr : (recv ch cl s' req cst str).res = .ok rep) :
    (callRecv ch cl s' op req cst str).ret = (finish s' op rep).1 ∧
    (callRecv ch cl s' op req cst str).st = (finish s' op rep).2 ∧
    (callRecv ch cl s' op req cst str).rest = (recv ch cl s' req cst str).rest := by
  unfold callRecv
  simp only [hr]
  refine ⟨?_, ?_, ?_⟩ <;> first | rfl | trivial

theorem callRecv_of_err {e : Err} (hr : (recv ch cl s' req cst str).res = .err e) :
    (callRecv ch cl s' op req cst str).ret = .err e ∧
    (callRecv ch cl s' op req cst str).st = s' ∧
    (callRecv ch cl s' op req cst str).rest = (recv ch cl s' req cst str).rest := by
  unfold callRecv
  simp only [hr]
  refine ⟨?_, ?_, ?_⟩ <;> first | rfl | trivial

theorem callRecv_of_blocked (hr : (recv ch cl s' req cst str).res = .blocked) :
    (callRecv ch cl s' op req cst str).ret = .blocked ∧
    (callRecv ch cl s' op req cst str).st = s' ∧
    (callRecv ch cl s' op req cst str).rest = (recv ch cl s' req cst str).rest := by
  unfold callRecv
  simp only [hr]
  refine ⟨?_, ?_, ?_⟩ <;> first | rfl | trivial

/-- an awaited call facing an empty stream: the failure clause of `TurnSpec` -/
theorem callRecv_nil (hw : awaits s' req = true) :
    (callRecv ch cl s' op req cst []).st = s' ∧
    ((∃ e, (callRecv ch cl s' op req cst []).ret = .err e) ∨ ((callRecv ch cl s' op req cst []).ret = .blocked ∧ cl = false)) := by
  rcases recv_nil ch cl s' req cst hw with ⟨h1, h2⟩ | ⟨e, h1⟩
  · obtain ⟨a, b, _⟩ := callRecv_of_blocked ch cl s' op req cst [] h1
    exact ⟨b, Or.inr ⟨a, h2⟩⟩
  · obtain ⟨a, b, _⟩ := callRecv_of_err ch cl s' op req cst [] h1
    exact ⟨b, Or.inl ⟨e, a⟩⟩

end

theorem segCells_nil (fds : List Fd) : segCells [] fds = [] := rfl

/-- **acknowledged operations** -/
theorem turn_ack {σ : Type} (ch : Chooser σ) (cl : Bool) (s' : FSt) (op : Op) (req : Req) (h : HOut) (d : Out) (cst : σ)
    (file : Fd) (stx : BSt) (okf : Bool)
    (hk : req.kind = .ack) (hfin : ∀ r, finish s' op r = (.unit, s'))
    (hout : d.out = ackOf stx (reqHdr s' req) okf) (hfds : d.outFds = 0)
    (hra : stx.replyAck = bitSet s'.ackedProto 3) (hus : usable op h = okf) (hev : expectedValue op h file = .unit)
    (hfe : feAfter s' op h = s') (hq : ReqOk (reqHdr s' req)) :
    TurnSpec ch cl s' op req h d cst file := by
  have hcells : replyCells d file = segCells (ackOf stx (reqHdr s' req) okf) [] := by
    simp only [replyCells, hout, hfds, List.replicate_zero]
  constructor
  · intro hw
    simp only [awaits, hk] at hw
    have hnil : ackOf stx (reqHdr s' req) okf = [] := by
      simp only [ackOf, hra, hw, Bool.false_eq_true, if_false]
    rw [hcells, hnil, segCells_nil]
    have hr : (recv ch cl s' req cst []).res = .ok ⟨reqHdr s' req, u64 0, [], none⟩ ∧ (recv ch cl s' req cst []).rest = [] := by
      unfold recv
      have : (!bitSet s'.ackedProto 3 || !(reqHdr s' req).needReply) = true := by
        cases h1 : bitSet s'.ackedProto 3 <;> cases h2 : (reqHdr s' req).needReply <;> simp_all
      simp only [hk, this, if_true]
      refine ⟨?_, ?_⟩ <;> first | rfl | trivial
    obtain ⟨a, b, c⟩ := callRecv_of_ok ch cl s' op req cst [] hr.1
    rw [hfin] at a b
    exact ⟨a, b, c.trans hr.2, by rw [hout, hnil], hev, hfe⟩
  · intro hw hu
    simp only [awaits, hk, Bool.and_eq_true] at hw
    rw [hus] at hu
    have hbytes : ackOf stx (reqHdr s' req) okf = replyHdr (reqHdr s' req) 8 ++ leBytes 8 0 := by
      simp only [ackOf, hra, hw.1, hw.2, hu, Bool.and_self, if_true]
    rw [hcells, hbytes]
    obtain ⟨r1, r2, _⟩ := recv_ack_reply ch cl s' req cst 0 hk hw.1 hw.2 hq (by omega)
    obtain ⟨a, b, c⟩ := callRecv_of_ok ch cl s' op req cst _ (r2 rfl)
    rw [hfin] at a b
    exact ⟨a.trans hev.symm, b.trans hfe.symm, c.trans r1⟩
  · intro hw hu
    simp only [awaits, hk, Bool.and_eq_true] at hw
    rw [hus] at hu
    have hbytes : ackOf stx (reqHdr s' req) okf = replyHdr (reqHdr s' req) 8 ++ leBytes 8 1 := by
      simp only [ackOf, hra, hw.1, hw.2, hu, Bool.and_self, if_true, Bool.false_eq_true, if_false]
    rw [hcells, hbytes]
    obtain ⟨r1, _, r3⟩ := recv_ack_reply ch cl s' req cst 1 hk hw.1 hw.2 hq (by omega)
    obtain ⟨a, b, c⟩ := callRecv_of_err ch cl s' op req cst _ (r3 (by omega))
    exact ⟨b, Or.inl ⟨_, a⟩⟩

end Lemmas.Roundtrip
