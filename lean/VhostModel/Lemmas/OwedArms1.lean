import VhostModel.Lemmas.OwedGuards
/-!
# C04Owed, arm by arm (1): requests without a body
(codes 1, 3, 4, 15, 17, 21, 28, 29, 30, 33, 34, 36, 43, 44)
-/
namespace Lemmas.OwedArms
open Base Model.BackendSrv Model.Msgs Spec.Proto Lemmas.Owed Lemmas.OwedGuards

variable (st : BSt) (fl sz : Nat) (buf : Bytes) (files : Option (List Fd)) (h : Model.BackendSrv.HOut)

theorem good_3 (hi : Props.C04.Inv st) (ha : classify (absNeg st) (reqOf ⟨3, fl, sz⟩ buf files) = .accept) :
    Good st ⟨3, fl, sz⟩ buf files h := by
  have F := facts_of_accept ha
  have hsz : sz = 0 := F.fixed 0 rfl
  subst hsz
  have hfind : arms.find? (·.code == (⟨3, fl, 0⟩ : Hdr).code) = some ⟨3, [.sizeIs .zero], .ack "set_owner"⟩ := rfl
  have hd := dispatch_arm (st := st) (h := h) (buf := buf) (files := files) hfind
    (by rw [rg_zero (checkSize_ok rfl F.notReply F.len), rg_nil])
  refine ⟨?_, ?_, ?_⟩
  · rw [hd]; simp [runAct, argsOf, callOf, expectedCall, reqOf]
  · rw [hd]; exact sat_ack st _ h.ok _ hi rfl rfl
  · rw [hd]; rfl

theorem good_4 (hi : Props.C04.Inv st) (ha : classify (absNeg st) (reqOf ⟨4, fl, sz⟩ buf files) = .accept) :
    Good st ⟨4, fl, sz⟩ buf files h := by
  have F := facts_of_accept ha
  have hsz : sz = 0 := F.fixed 0 rfl
  subst hsz
  have hfind : arms.find? (·.code == (⟨4, fl, 0⟩ : Hdr).code) = some ⟨4, [.sizeIs .zero], .ack "reset_owner"⟩ := rfl
  have hd := dispatch_arm (st := st) (h := h) (buf := buf) (files := files) hfind
    (by rw [rg_zero (checkSize_ok rfl F.notReply F.len), rg_nil])
  refine ⟨?_, ?_, ?_⟩
  · rw [hd]; simp [runAct, argsOf, callOf, expectedCall, reqOf]
  · rw [hd]; exact sat_ack st _ h.ok _ hi rfl rfl
  · rw [hd]; rfl

theorem good_34 (hi : Props.C04.Inv st) (ha : classify (absNeg st) (reqOf ⟨34, fl, sz⟩ buf files) = .accept) :
    Good st ⟨34, fl, sz⟩ buf files h := by
  have F := facts_of_accept ha
  have hsz : sz = 0 := F.fixed 0 rfl
  subst hsz
  have hfind : arms.find? (·.code == (⟨34, fl, 0⟩ : Hdr).code) =
      some ⟨34, [.proto 13, .sizeIs .zero], .ack "reset_device"⟩ := rfl
  have hd := dispatch_arm (st := st) (h := h) (buf := buf) (files := files) hfind
    (by rw [rg_proto (F.proto 13 rfl), rg_zero (checkSize_ok rfl F.notReply F.len), rg_nil])
  refine ⟨?_, ?_, ?_⟩
  · rw [hd]; simp [runAct, argsOf, callOf, expectedCall, reqOf]
  · rw [hd]; exact sat_ack st _ h.ok _ hi rfl rfl
  · rw [hd]; rfl

theorem good_29 (hi : Props.C04.Inv st) (ha : classify (absNeg st) (reqOf ⟨29, fl, sz⟩ buf files) = .accept) :
    Good st ⟨29, fl, sz⟩ buf files h := by
  have F := facts_of_accept ha
  have hfind : arms.find? (·.code == (⟨29, fl, sz⟩ : Hdr).code) = some ⟨29, [.proto 8], .ack "postcopy_listen"⟩ := rfl
  have hd := dispatch_arm (st := st) (h := h) (buf := buf) (files := files) hfind
    (by rw [rg_proto (F.proto 8 rfl), rg_nil])
  refine ⟨?_, ?_, ?_⟩
  · rw [hd]; simp [runAct, argsOf, callOf, expectedCall, reqOf]
  · rw [hd]; exact sat_ack st _ h.ok _ hi rfl rfl
  · rw [hd]; rfl

theorem good_30 (hi : Props.C04.Inv st) (ha : classify (absNeg st) (reqOf ⟨30, fl, sz⟩ buf files) = .accept) :
    Good st ⟨30, fl, sz⟩ buf files h := by
  have F := facts_of_accept ha
  have hfind : arms.find? (·.code == (⟨30, fl, sz⟩ : Hdr).code) = some ⟨30, [.proto 8], .ack "postcopy_end"⟩ := rfl
  have hd := dispatch_arm (st := st) (h := h) (buf := buf) (files := files) hfind
    (by rw [rg_proto (F.proto 8 rfl), rg_nil])
  refine ⟨?_, ?_, ?_⟩
  · rw [hd]; simp [runAct, argsOf, callOf, expectedCall, reqOf]
  · rw [hd]; exact sat_ack st _ h.ok _ hi rfl rfl
  · rw [hd]; rfl

theorem good_1 (_hi : Props.C04.Inv st) (ha : classify (absNeg st) (reqOf ⟨1, fl, sz⟩ buf files) = .accept) :
    Good st ⟨1, fl, sz⟩ buf files h := by
  have F := facts_of_accept ha
  have hsz : sz = 0 := F.fixed 0 rfl
  subst hsz
  have hfind : arms.find? (·.code == (⟨1, fl, 0⟩ : Hdr).code) = some ⟨1, [.sizeIs .zero], .getFeatures⟩ := rfl
  have hd := dispatch_arm (st := st) (h := h) (buf := buf) (files := files) hfind
    (by rw [rg_zero (checkSize_ok rfl F.notReply F.len), rg_nil])
  rw [Good, hd]
  cases hok : h.ok <;>
    simp [runAct, hok, callOf, expectedCall, reqOf, owed, hOut, Sat, updateNeg, absNeg, BSt.updateFlag]

theorem good_15 (_hi : Props.C04.Inv st) (ha : classify (absNeg st) (reqOf ⟨15, fl, sz⟩ buf files) = .accept) :
    Good st ⟨15, fl, sz⟩ buf files h := by
  have F := facts_of_accept ha
  have hsz : sz = 0 := F.fixed 0 rfl
  subst hsz
  have hfind : arms.find? (·.code == (⟨15, fl, 0⟩ : Hdr).code) = some ⟨15, [.sizeIs .zero], .getProtocolFeatures⟩ := rfl
  have hd := dispatch_arm (st := st) (h := h) (buf := buf) (files := files) hfind
    (by rw [rg_zero (checkSize_ok rfl F.notReply F.len), rg_nil])
  rw [Good, hd]
  cases hok : h.ok <;>
    simp [runAct, hok, callOf, expectedCall, reqOf, owed, hOut, Sat, updateNeg, absNeg, BSt.updateFlag]

theorem good_17 (_hi : Props.C04.Inv st) (ha : classify (absNeg st) (reqOf ⟨17, fl, sz⟩ buf files) = .accept) :
    Good st ⟨17, fl, sz⟩ buf files h := by
  have F := facts_of_accept ha
  have hsz : sz = 0 := F.fixed 0 rfl
  subst hsz
  have hfind : arms.find? (·.code == (⟨17, fl, 0⟩ : Hdr).code) =
      some ⟨17, [.proto 0, .sizeIs .zero], .replyU64 "get_queue_num"⟩ := rfl
  have hd := dispatch_arm (st := st) (h := h) (buf := buf) (files := files) hfind
    (by rw [rg_proto (F.proto 0 rfl), rg_zero (checkSize_ok rfl F.notReply F.len), rg_nil])
  rw [Good, hd]
  cases hok : h.ok <;> simp [runAct, hok, callOf, expectedCall, reqOf, owed, hOut, Sat, updateNeg]

theorem good_36 (_hi : Props.C04.Inv st) (ha : classify (absNeg st) (reqOf ⟨36, fl, sz⟩ buf files) = .accept) :
    Good st ⟨36, fl, sz⟩ buf files h := by
  have F := facts_of_accept ha
  have hsz : sz = 0 := F.fixed 0 rfl
  subst hsz
  have hfind : arms.find? (·.code == (⟨36, fl, 0⟩ : Hdr).code) =
      some ⟨36, [.proto 15, .sizeIs .zero], .replyU64 "get_max_mem_slots"⟩ := rfl
  have hd := dispatch_arm (st := st) (h := h) (buf := buf) (files := files) hfind
    (by rw [rg_proto (F.proto 15 rfl), rg_zero (checkSize_ok rfl F.notReply F.len), rg_nil])
  rw [Good, hd]
  cases hok : h.ok <;> simp [runAct, hok, callOf, expectedCall, reqOf, owed, hOut, Sat, updateNeg]

theorem good_43 (_hi : Props.C04.Inv st) (_ha : classify (absNeg st) (reqOf ⟨43, fl, sz⟩ buf files) = .accept) :
    Good st ⟨43, fl, sz⟩ buf files h := by
  have hfind : arms.find? (·.code == (⟨43, fl, sz⟩ : Hdr).code) = some ⟨43, [], .checkDeviceState⟩ := rfl
  have hd := dispatch_arm (st := st) (h := h) (buf := buf) (files := files) hfind (rg_nil _ _)
  rw [Good, hd]
  cases hok : h.ok <;> simp [runAct, hok, callOf, expectedCall, reqOf, owed, hOut, Sat, updateNeg]
  exact ⟨1, by omega, rfl, by omega⟩

theorem good_44 (_hi : Props.C04.Inv st) (ha : classify (absNeg st) (reqOf ⟨44, fl, sz⟩ buf files) = .accept) :
    Good st ⟨44, fl, sz⟩ buf files h := by
  have F := facts_of_accept ha
  have hfind : arms.find? (·.code == (⟨44, fl, sz⟩ : Hdr).code) = some ⟨44, [.proto 21], .getShmem⟩ := rfl
  have hd := dispatch_arm (st := st) (h := h) (buf := buf) (files := files) hfind
    (by rw [rg_proto (F.proto 21 rfl), rg_nil])
  rw [Good, hd]
  have hl : ((h.b ++ List.replicate 2048 (0:UInt8)).take 2048).length = 2048 := by
    rw [List.length_take, List.length_append, List.length_replicate]; omega
  cases hok : h.ok
  · simp only [runAct, hok, callOf, expectedCall, reqOf, owed, hOut, Sat, updateNeg]
    simp
  · simp only [runAct, hok, callOf, expectedCall, reqOf, owed, hOut, Sat, updateNeg]
    generalize (h.b ++ List.replicate 2048 (0:UInt8)).take 2048 = z at hl ⊢
    simp [hl]

theorem good_28 (_hi : Props.C04.Inv st) (ha : classify (absNeg st) (reqOf ⟨28, fl, sz⟩ buf files) = .accept) :
    Good st ⟨28, fl, sz⟩ buf files h := by
  have F := facts_of_accept ha
  have hfind : arms.find? (·.code == (⟨28, fl, sz⟩ : Hdr).code) = some ⟨28, [.proto 8], .fdOrEmpty "postcopy_advice"⟩ := rfl
  have hd := dispatch_arm (st := st) (h := h) (buf := buf) (files := files) hfind
    (by rw [rg_proto (F.proto 8 rfl), rg_nil])
  rw [Good, hd]
  cases hok : h.ok <;> simp [runAct, hok, callOf, expectedCall, reqOf, owed, hOut, Sat, updateNeg]

theorem good_21 (hi : Props.C04.Inv st) (ha : classify (absNeg st) (reqOf ⟨21, fl, sz⟩ buf files) = .accept) :
    Good st ⟨21, fl, sz⟩ buf files h := by
  have F := facts_of_accept ha
  obtain ⟨f, rfl⟩ := one_file F.nfds
  have hfind : arms.find? (·.code == (⟨21, fl, sz⟩ : Hdr).code) =
      some ⟨21, [.proto 5, .sizeIs .any], .backendReqFd⟩ := rfl
  have hd := dispatch_arm (st := st) (h := h) (buf := buf) (files := some [f]) hfind
    (by rw [rg_proto (F.proto 5 rfl), rg_any (checkSize_ok rfl F.notReply F.len), rg_nil])
  refine ⟨?_, ?_, ?_⟩
  · rw [hd]; simp [runAct, takeSingle, callOf, expectedCall, reqOf]
  · rw [hd]
    have := sat_ack st ⟨21, fl, sz⟩ true (runAct st { hdr := ⟨21, fl, sz⟩, buf := buf, files := some [f] } h .backendReqFd)
      hi rfl rfl
    exact this
  · rw [hd]; rfl

theorem good_33 (hi : Props.C04.Inv st) (ha : classify (absNeg st) (reqOf ⟨33, fl, sz⟩ buf files) = .accept) :
    Good st ⟨33, fl, sz⟩ buf files h := by
  have F := facts_of_accept ha
  obtain ⟨f, rfl⟩ := one_file F.nfds
  have hfind : arms.find? (·.code == (⟨33, fl, sz⟩ : Hdr).code) = some ⟨33, [], .gpuSocket⟩ := rfl
  have hd := dispatch_arm (st := st) (h := h) (buf := buf) (files := some [f]) hfind (rg_nil _ _)
  refine ⟨?_, ?_, ?_⟩
  · rw [hd]; simp [runAct, takeSingle, callOf, expectedCall, reqOf]
  · rw [hd]
    exact sat_ack st ⟨33, fl, sz⟩ h.ok (runAct st { hdr := ⟨33, fl, sz⟩, buf := buf, files := some [f] } h .gpuSocket)
      hi rfl rfl
  · rw [hd]; rfl

end Lemmas.OwedArms
