import VhostModel.Lemmas.ProxyBase
import VhostModel.Gen.Consts
/-!
# The backend proxy model is the generated `backend_req.rs` programs (equations over all states, calls and streams)

* `proxy_gate_iff`: the translated gate condition of a method's row is the negation of the model's `Kind.gate`;
* `proxy_request_table`: `Model.BackendProxy.request` = gate, then the generated `send_message` program run on the inputs
  read off the model state: its first firing check is the refusal, otherwise header (code, flags, size) and descriptor
  are the program's;
* `callRecv_table`: what follows the write = the generated `wait_for_ack` program (`awaitOut`).
-/
namespace Lemmas.Proxy
open Base ProxySig Model.ProxyTable Model.Msgs Model.Stream Model.RecvBody
open Model.BackendSrv (Err Hdr encHdr hdrNewFlags)
open Model.Frontend (Reply RecvRes RecvOut)
open Model.BackendProxy

theorem proxy_gate_iff (st : PSt) (k : Kind) :
    (methodOf k).gateFails (pinOf st k) = !k.gate st ∧ (methodOf k).gateErr = .notNegotiated := by
  cases k <;> exact ⟨rfl, rfl⟩

theorem proxy_request_table (st : PSt) (c : Call) (hlen : c.body.length = (rowOf c.kind).size) :
    request st c =
      (if (methodOf c.kind).gateFails (pinOf st c.kind) then .error (perrOf (methodOf c.kind).gateErr)
       else match run (pinOf st c.kind) Gen.ProxyOps.Backend.send_message.stmts none with
         | .err e => .error (perrOf e)
         | .sent code flags size _ _ _ fds _ =>
           .ok ⟨⟨code, flags, size⟩, c.body, if (methodOf c.kind).row.fd && fds then c.fds else []⟩
         | _ => .error (.proto .other)) := by
  obtain ⟨hg, he⟩ := proxy_gate_iff st c.kind
  have hs := structSize_body c.kind
  rw [hg, he]
  unfold request
  cases hgate : c.kind.gate st
  · simp [perrOf]
  · cases herr : st.error with
    | some e => simp [run, Gen.ProxyOps.Backend.send_message.stmts, pinOf, herr, perrOf]
    | none =>
      have hmax : ¬ (rowOf c.kind).size > Gen.Consts.MAX_MSG_SIZE := by cases c.kind <;> decide
      have hmod : (rowOf c.kind).size % 4294967296 = (rowOf c.kind).size := by cases c.kind <;> decide
      have hfd : (methodOf c.kind).row.fd = c.kind.hasFd := by rw [methodOf_row]; rfl
      simp only [hs, hlen, hmax, run, Gen.ProxyOps.Backend.send_message.stmts, pinOf, herr, hfd, reqFlags, hdrNewFlags]
      cases st.replyAck <;> simp [hmod]

theorem callRecv_table {σ : Type} (ch : Chooser σ) (cl : Bool) (st : PSt) (req : Req) (cst : σ) (str : List Cell) :
    callRecv ch cl st req cst str = awaitOut ch cl (pinOfSt st) Gen.ProxyOps.Backend.wait_for_ack.stmts req cst str := by
  unfold callRecv waitAck awaitOut
  cases herr : st.error with
  | some e => simp [run, Gen.ProxyOps.Backend.wait_for_ack.stmts, pinOfSt, herr, perrOf]
  | none =>
    cases hra : st.replyAck with
    | false => simp [run, Gen.ProxyOps.Backend.wait_for_ack.stmts, pinOfSt, herr, hra, leVal8_zero]
    | true =>
      have hsz : (Model.GpuProxy.sizeOfTy "VhostUserU64").getD 0 = 8 := by decide
      have hv : Model.GpuProxy.replyBodyOk "VhostUserU64" = u64Ok := by funext b; simp [Model.GpuProxy.replyBodyOk]
      simp only [run, Gen.ProxyOps.Backend.wait_for_ack.stmts, pinOfSt, herr, hra, replyIn, afterRecv,
        Option.isSome_none, Bool.false_eq_true, if_false, Bool.not_true, hsz, hv]
      generalize recvBody ch cl hdrValidB 8 u64Ok cst str = o
      rcases o with ⟨res, rest, cst', closed⟩
      cases res with
      | blocked => simp
      | err e => simp
      | ok r =>
        cases h1 : isReplyFor backendCodes r.hdr req.hdr <;> cases h2 : r.files.isSome <;> cases h3 : u64Ok r.body <;>
          simp [h1, h2, h3, perrOf]
        have hf : r.files = none := by cases hh : r.files <;> simp_all
        by_cases hz : leVal r.body = 0 <;> simp [hz, hf]

end Lemmas.Proxy
