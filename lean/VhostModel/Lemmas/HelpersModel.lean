import VhostModel.Lemmas.HelpersBase
import VhostModel.Props.C05
/-!
# The inputs of the generated guard programs, read off a context of the model (`Model.BackendSrv.Ctx`), and the
facts that bridge the two formulations (used by `Props.Helpers`)

* `inOf`, `vringEnv`, `memEnv`, `getCfgEnv`, `setCfgEnv`: `size`/`buf.len()` = length of the received body, header fields,
  presence and number of received files, the fields of the decoded message = what `Model.BackendSrv.g` reads;
* `crs_cond`: the condition of `check_request_size` (with the version test) is the negation of the model's `checkSize`
  for a header of version 1;
* `regions_all_iff`: "every 32-byte slice decodes and validates" (model) = "no decoded region fails the validator"
  (source), for a body of exactly `8 + n·32` bytes;
* `cfg_flags_of_valid`: `VhostUserConfigFlags::from_bits(msg.flags)` cannot fail after `msg.is_valid()`.
-/
namespace Lemmas.Helpers
open Base HelperSig Model.Stream Model.Msgs Model.BackendSrv Gen.Helpers

/-- inputs common to all helpers -/
def inOf (st : BSt) (c : Ctx) : HIn :=
  { size := c.buf.length, bufLen := c.buf.length, code := c.hdr.code, hdrFlags := c.hdr.flags, hdrSize := c.hdr.size,
    filesIsSome := c.files.isSome, nfiles := (c.files.getD []).length,
    ackedVirtio := st.acked, ackedProto := st.ackedProto, replyAck := st.replyAck }

def vringEnv (st : BSt) (c : Ctx) : handle_vring_fd_request.Env := { i := inOf st c, msg := u64N c.buf }

def memEnv (st : BSt) (c : Ctx) : set_mem_table.Env :=
  { i := inOf st c, msg := memN c.buf, regions := (regionsOf c.buf (memN c.buf).num_regions 8).map regionN }

def getCfgEnv (st : BSt) (c : Ctx) (h : HOut) : get_config.Env :=
  { i := { inOf st c with resOk := h.ok, resLen := h.b.length }, msg := cfgN c.buf }

def setCfgEnv (st : BSt) (c : Ctx) : set_config.Env := { i := inOf st c, msg := cfgN c.buf }

/-- the `Out` of an action that refuses the request with `InvalidMessage` before the handler is invoked (the arm then
passes the error to `send_ack_message`) -/
def refused (st : BSt) (c : Ctx) : Out :=
  { st := st, out := ackOf st c.hdr false, res := .err .invalidMsg, closed := c.leftover }

/-- … for `get_config`, whose error leaves `handle_request` through `?` (no acknowledgement) -/
def refusedNoAck (st : BSt) (c : Ctx) : Out := { st := st, res := .err .invalidMsg, closed := c.leftover }

theorem crs_cond (h : Hdr) (size expected : Nat) (hv : h.flags &&& 3 = 1) :
    ((((h.size != expected) || ((h.flags &&& 4) != 0)) || ((h.flags &&& 3) != 1)) || (size != expected)) =
      !checkSize h size expected := by
  have hb := and_two_pow_bne_zero h.flags 2
  simp only [Nat.reducePow] at hb
  simp only [checkSize, Hdr.isReply, bitSet, hb, hv]
  by_cases h1 : h.size = expected <;> by_cases h2 : size = expected <;> cases h3 : h.flags.testBit 2 <;>
    simp [h1, h2, bne]

theorem u64N_value {bs : Bytes} (h : 8 ≤ bs.length) : (u64N bs).value = leVal (bs.take 8) := by
  have hf : fieldAt "VhostUserU64" ["value"] = some (0, 8) := by decide
  simp [u64N, g, getField, hf, h]

theorem regions_all_iff (buf : Bytes) (n : Nat) (h : buf.length = 8 + n * 32) :
    (regionsOf buf n 8).all (fun r => bodyValid "VhostUserMemoryRegion" r == some true) =
      !((regionsOf buf n 8).map regionN).any (fun r => !(Gen.VhostUserMemoryRegion.isValid r.bv)) := by
  have hl := Props.C05.mem_table_reads_within buf n h
  rw [Bool.eq_iff_iff]
  simp only [List.all_eq_true, Bool.not_eq_true', List.any_eq_false, List.mem_map,
    Bool.not_eq_false, forall_exists_index, and_imp, forall_apply_eq_imp_iff₂, beq_iff_eq]
  constructor
  · intro hall r hr
    have := hall r hr
    rw [bodyValid_region_full (hl r hr)] at this
    simpa using this
  · intro hall r hr
    rw [bodyValid_region_full (hl r hr), hall r hr]

theorem cfg_flags_of_valid {bs : Bytes} (h : Gen.VhostUserConfig.isValid (cfgN bs).bv = true) :
    (cfgN bs).flags &&& 3 = (cfgN bs).flags := by
  have hv := (Props.C20.isValid_config_iff _).1 h
  obtain ⟨_, _, hf⟩ := hv
  have hlt := (cfgN_lt bs).2.2
  simp only [VhostUserConfigN.bv, BitVec.toNat_ofNat] at hf
  rw [Nat.mod_eq_of_lt hlt] at hf
  rw [and3_eq_mod]; omega

end Lemmas.Helpers
