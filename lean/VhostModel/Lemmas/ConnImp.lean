import VhostModel.Base.Imp
/-!
# One-step rewriting rules of the `Imp` interpreter (one per statement form except `call`)

`exec` is never unfolded wholesale in the proofs about the generated terms: a `call` of a function whose behaviour is
already known is rewritten with that function's own lemma (`Lemmas.ConnSub.exec_call_gsio`, …).
-/
namespace Imp
open Model.Stream (Cell Chooser clampK)
variable {σ : Type} (env : Env σ) (F : Nat) (fr : Frame) (w : World σ)

@[simp] theorem exec_skip : exec env .skip F fr w = (.normal, fr, w) := rfl
@[simp] theorem exec_seq (a b : Stmt) : exec env (.seq a b) F fr w =
    match exec env a F fr w with
    | (.normal, fr', w') => exec env b F fr' w'
    | r => r := rfl
@[simp] theorem exec_assign (v : Var) (e : Expr) : exec env (.assign v e) F fr w =
    match evalE env fr e with
    | some x => (.normal, { fr with n := upd fr.n v.id x }, w)
    | none => (.stuck .fault, fr, w) := rfl
@[simp] theorem exec_assignL (l : Var) (e : LExpr) : exec env (.assignL l e) F fr w =
    (.normal, { fr with l := upd fr.l l.id (evalL fr e) }, w) := rfl
@[simp] theorem exec_assignF (f : Var) (e : FExpr) : exec env (.assignF f e) F fr w =
    (.normal, { (evalF fr e).2 with f := upd (evalF fr e).2.f f.id (evalF fr e).1 }, w) := rfl
@[simp] theorem exec_assignIo (io : Var) (e : IoExpr) : exec env (.assignIo io e) F fr w =
    match evalIo env fr e with
    | some v => (.normal, { fr with io := upd fr.io io.id v }, w)
    | none => (.stuck .fault, fr, w) := rfl
@[simp] theorem exec_allocIo (io : Var) (ps : List Piece) : exec env (.allocIo io ps) F fr w =
    match evalPieces env fr ps with
    | some ps =>
      (.normal, { fr with io := upd fr.io io.id { store := w.mem.length, start := 0, lens := ps.map (·.length) } },
       { w with mem := w.mem ++ [ps.flatten] })
    | none => (.stuck .fault, fr, w) := rfl
@[simp] theorem exec_dropF (f : Var) : exec env (.dropF f) F fr w =
    (.normal, { fr with f := upd fr.f f.id none }, { w with closed := w.closed ++ (fr.f f.id).getD [] }) := rfl
@[simp] theorem exec_ite (c : BExpr) (t e : Stmt) : exec env (.ite c t e) F fr w =
    match evalB env fr w.mem c with
    | some true => exec env t F fr w
    | some false => exec env e F fr w
    | none => (.stuck .fault, fr, w) := rfl
theorem exec_while (c : BExpr) (body : Stmt) : exec env (.while c body) F fr w =
    loop (fun fr w => evalB env fr w.mem c) (fun fr w => exec env body F fr w) F fr w := rfl
theorem exec_forIn (x l : Var) (body : Stmt) : exec env (.forIn x l body) F fr w =
    forLoop x.id (fun fr w => exec env body F fr w) (fr.l l.id) fr w := rfl
@[simp] theorem exec_brk : exec env .brk F fr w = (.brk, fr, w) := rfl
@[simp] theorem exec_ret (nats : List Expr) (fd : FExpr) (bufs : List BufExpr) : exec env (.ret nats fd bufs) F fr w =
    match evalEs env fr nats with
    | some ns => (.done (.ok { nats := ns, fds := (evalF fr fd).1, bufs := bufs.map (evalBuf fr w.mem) }), (evalF fr fd).2, w)
    | none => (.stuck .fault, fr, w) := rfl
@[simp] theorem exec_retErr (e : ErrExpr) : exec env (.retErr e) F fr w = (.done (.err (evalErr env fr e)), fr, w) := rfl
@[simp] theorem exec_fault : exec env .fault F fr w = (.stuck .fault, fr, w) := rfl
@[simp] theorem exec_callSend (io fds res : Var) : exec env (.callSend io fds res) F fr w =
    match primSend w (fr.io io.id) ((fr.f fds.id).getD []) with
    | some (rv, w') => (.normal, { fr with r := upd fr.r res.id rv }, w')
    | none => (.stuck .outOfScript, fr, w) := rfl
@[simp] theorem exec_callRecv (io : Var) (cap : Expr) (res : Var) : exec env (.callRecv io cap res) F fr w =
    match evalE env fr cap with
    | none => (.stuck .fault, fr, w)
    | some c =>
      match primRecv env w (fr.io io.id).store (fr.io io.id).start (fr.io io.id).lens.sum c with
      | some (rv, w') => (.normal, { fr with r := upd fr.r res.id rv }, w')
      | none => (.stuck .blocked, fr, w) := rfl
@[simp] theorem exec_mapErrInto (res : Var) : exec env (.mapErrInto res) F fr w =
    (.normal, { fr with r := upd fr.r res.id ((fr.r res.id).into env.classify) }, w) := rfl
theorem exec_matchResult (res : Var) (okN : List Var) (okF : Option Var) (okS errS : Stmt) :
    exec env (.matchResult res okN okF okS errS) F fr w =
    match fr.r res.id with
    | .ok v =>
      exec env okS F (match okF with
        | some f => { fr with n := bindN fr.n okN v.nats, f := upd fr.f f.id v.fds }
        | none => { fr with n := bindN fr.n okN v.nats }) w
    | .err _ => exec env errS F fr w := by
  cases okF <;> rfl
theorem exec_matchErr (res : Var) (c : ErrClass) (t e : Stmt) : exec env (.matchErr res c t e) F fr w =
    match fr.r res.id with
    | .err (.sock c' _) => if c' = c then exec env t F fr w else exec env e F fr w
    | _ => exec env e F fr w := by
  simp only [exec]
  split <;> simp_all
theorem exec_call (nm : String) (body : Stmt) nA lA fA ioA (res : Var) :
    exec env (.call nm body nA lA fA ioA res) F fr w =
    match bindArgsN env fr nA (fun _ => 0), bindArgsIo env fr ioA (fun _ => {}) with
    | some σn, some σio =>
      match exec env body F { n := σn, l := bindArgsL fr lA (fun _ => []), f := bindArgsF fr fA (fun _ => none), io := σio } w with
      | (.done rv, _, w') => (.normal, { fr with r := upd fr.r res.id rv }, w')
      | (.stuck s, fr', w') => (.stuck s, fr', w')
      | (_, _, w') => (.stuck .fault, fr, w')
    | _, _ => (.stuck .fault, fr, w) := rfl

@[simp] theorem bindN_nil (s : Nat → Nat) (vs : List Nat) : bindN s [] vs = s := by cases vs <;> rfl
@[simp] theorem bindN_cons (s : Nat → Nat) (x : Var) (xs : List Var) (v : Nat) (vs : List Nat) :
    bindN s (x :: xs) (v :: vs) = bindN (upd s x.id v) xs vs := rfl

/-! ### `writeAt` -/

theorem writeAt_nil (buf : Bytes) (p : Nat) : writeAt buf p [] = buf := by
  simp [writeAt]

theorem length_writeAt (buf : Bytes) (p : Nat) (c : Bytes) (h : p + c.length ≤ buf.length) :
    (writeAt buf p c).length = buf.length := by
  simp [writeAt]; omega

theorem writeAt_writeAt (buf : Bytes) (p : Nat) (c1 c2 : Bytes) (h : p + c1.length ≤ buf.length) :
    writeAt (writeAt buf p c1) (p + c1.length) c2 = writeAt buf p (c1 ++ c2) := by
  have hp : (buf.take p).length = p := by simp; omega
  have h1 : (buf.take p ++ c1).length = p + c1.length := by simp; omega
  unfold writeAt
  have e1 : (List.take p buf ++ c1 ++ List.drop (p + c1.length) buf).take (p + c1.length) = List.take p buf ++ c1 := by
    rw [← h1, List.take_left']
    rfl
  have e2 : (List.take p buf ++ c1 ++ List.drop (p + c1.length) buf).drop (p + c1.length + c2.length)
      = List.drop (p + (c1 ++ c2).length) buf := by
    rw [show p + c1.length + c2.length = (List.take p buf ++ c1).length + c2.length by omega, ← List.drop_drop, List.drop_left', List.drop_drop]
    · congr 1; simp; omega
    · rfl
  rw [e1, e2]
  simp

theorem getD_set_self (mem : List Bytes) (i : Nat) (x : Bytes) (h : i < mem.length) : (mem.set i x).getD i [] = x := by
  simp [List.getD_eq_getElem?_getD, h]

theorem set_getD_self (mem : List Bytes) (i : Nat) (h : i < mem.length) : mem.set i (mem.getD i []) = mem := by
  simp [List.getD_eq_getElem?_getD, h]

/-- `recvmsg` on a non-empty stream -/
theorem primRecv_cons {σ : Type} (env : Env σ) (w : World σ) (store start want cap : Nat) (c : Cell) (s : List Cell)
    (hs : w.stream = c :: s) (hw : want ≠ 0) :
    primRecv env w store start want cap =
      if (((c :: s).take (clampK (env.ch.next w.cst want (c :: s)).1 want (s.length + 1))).flatMap (·.fds)).length > cap then
        some (.err (.errno ENOBUFS),
          { w with stream := (c :: s).drop (clampK (env.ch.next w.cst want (c :: s)).1 want (s.length + 1)),
                   cst := (env.ch.next w.cst want (c :: s)).2,
                   closed := w.closed ++ ((c :: s).take (clampK (env.ch.next w.cst want (c :: s)).1 want (s.length + 1))).flatMap (·.fds) })
      else
        some (.ok { nats := [clampK (env.ch.next w.cst want (c :: s)).1 want (s.length + 1)],
                    fds := if (((c :: s).take (clampK (env.ch.next w.cst want (c :: s)).1 want (s.length + 1))).flatMap (·.fds)).isEmpty then none
                           else some (((c :: s).take (clampK (env.ch.next w.cst want (c :: s)).1 want (s.length + 1))).flatMap (·.fds)) },
              { w with stream := (c :: s).drop (clampK (env.ch.next w.cst want (c :: s)).1 want (s.length + 1)),
                       cst := (env.ch.next w.cst want (c :: s)).2,
                       mem := w.mem.set store (writeAt (w.mem.getD store []) start
                         (((c :: s).take (clampK (env.ch.next w.cst want (c :: s)).1 want (s.length + 1))).map (·.b))) }) := by
  unfold primRecv
  rw [if_neg hw, hs]

/-- `recvmsg` on an empty stream -/
theorem primRecv_nil {σ : Type} (env : Env σ) (w : World σ) (store start want cap : Nat)
    (hs : w.stream = []) (hw : want ≠ 0) :
    primRecv env w store start want cap = if env.isClosed then some (.ok { nats := [0] }, w) else none := by
  unfold primRecv
  rw [if_neg hw, hs]

end Imp
