import VhostModel.Lemmas.Decode
import VhostModel.Gen.Helpers
/-!
# Lemmas for `Props.Helpers`: bits, field reads, and the decoders of `Model.Msgs` on a prefix of the buffer

* `(x &&& 2^i != 0) = x.testBit i` (the header accessors of `message.rs` vs `Model.BackendSrv.bitSet`);
* a field that lies inside the buffer is read by `getField` as `some (g …)`; `g` is below `256^width`;
* `bodyValid "<Ty>" (buf.take n)` is `some (validator of the record built from the naturals g reads from buf)`
  — the `Option`-valued decoding of the model vs. the explicit length comparison + validator call of the source.
-/
namespace Lemmas.Helpers
open Base Model.Msgs Model.BackendSrv Gen Gen.Helpers Lemmas.Decode

/-! ## bits -/

theorem and_two_pow_bne_zero (x i : Nat) : (x &&& 2 ^ i != 0) = x.testBit i := by
  cases hb : x.testBit i
  · have : x &&& 2 ^ i = 0 := by
      apply Nat.eq_of_testBit_eq; intro j
      simp [Nat.testBit_and, Nat.testBit_two_pow]; intro hx e; subst e; simp_all
    simp [this]
  · have : x &&& 2 ^ i ≠ 0 := by
      intro h
      have := congrArg (fun v => v.testBit i) h
      simp [Nat.testBit_and, hb] at this
    simpa using this

theorem and_two_pow_beq_zero (x i : Nat) : (x &&& 2 ^ i == 0) = !x.testBit i := by
  have := and_two_pow_bne_zero x i
  cases hb : x.testBit i <;> simp_all

theorem and3_eq_mod (x : Nat) : x &&& 3 = x % 4 := Nat.and_two_pow_sub_one_eq_mod x 2

/-! ## field reads -/

theorem getField_of_le {bs : Bytes} {s : String} {p : List String} {off w : Nat}
    (hf : fieldAt s p = some (off, w)) (h : off + w ≤ bs.length) : getField bs s p = some (g bs s p) := by
  simp [g, getField, hf, h]

theorem g_lt {s : String} {p : List String} {off w : Nat} (bs : Bytes)
    (hf : fieldAt s p = some (off, w)) : g bs s p < 256 ^ w := by
  simp only [g, getField, hf]
  split
  · exact leVal_take_lt _ _
  · simp only [Option.getD_none]; exact Nat.pow_pos (by omega)

/-- reading through an `n`-byte prefix: the field value is the one `g` reads from the whole buffer -/
theorem getField_take {bs : Bytes} {s : String} {p : List String} {off w : Nat} (n : Nat)
    (hf : fieldAt s p = some (off, w)) (hw : off + w ≤ n) (hn : n ≤ bs.length) :
    getField (bs.take n) s p = some (g bs s p) := by
  rw [getField_of_le hf (by simp [List.length_take]; omega), g_take n hf hw hn]

/-! ## decoded messages as naturals -/

def memN (bs : Bytes) : VhostUserMemoryN := ⟨g bs "VhostUserMemory" ["num_regions"], g bs "VhostUserMemory" ["padding1"]⟩
def cfgN (bs : Bytes) : VhostUserConfigN :=
  ⟨g bs "VhostUserConfig" ["offset"], g bs "VhostUserConfig" ["size"], g bs "VhostUserConfig" ["flags"]⟩
def u64N (bs : Bytes) : VhostUserU64N := ⟨g bs "VhostUserU64" ["value"]⟩
def regionN (r : Bytes) : VhostUserMemoryRegionN :=
  ⟨g r "VhostUserMemoryRegion" ["guest_phys_addr"], g r "VhostUserMemoryRegion" ["memory_size"],
   g r "VhostUserMemoryRegion" ["user_addr"], g r "VhostUserMemoryRegion" ["mmap_offset"]⟩

theorem memN_lt (bs : Bytes) : (memN bs).num_regions < 2 ^ 32 :=
  g_lt (off := 0) (w := 4) bs (by decide)

theorem cfgN_lt (bs : Bytes) : (cfgN bs).offset < 2 ^ 32 ∧ (cfgN bs).size < 2 ^ 32 ∧ (cfgN bs).flags < 2 ^ 32 :=
  ⟨g_lt (off := 0) (w := 4) bs (by decide), g_lt (off := 4) (w := 4) bs (by decide),
   g_lt (off := 8) (w := 4) bs (by decide)⟩

theorem bodyValid_memory_take {bs : Bytes} (h : 8 ≤ bs.length) :
    bodyValid "VhostUserMemory" (bs.take 8) = some (Gen.VhostUserMemory.isValid (memN bs).bv) := by
  have hs : structSize "VhostUserMemory" = some 8 := by decide
  have hl : (bs.take 8).length = 8 := by simp [List.length_take]; omega
  have e1 : getField (bs.take 8) "VhostUserMemory" ["num_regions"] = some (g bs "VhostUserMemory" ["num_regions"]) :=
    getField_take (off := 0) (w := 4) 8 (by decide) (by omega) h
  have e2 : getField (bs.take 8) "VhostUserMemory" ["padding1"] = some (g bs "VhostUserMemory" ["padding1"]) :=
    getField_take (off := 4) (w := 4) 8 (by decide) (by omega) h
  simp [bodyValid, decMemory, hs, hl, e1, e2, memN, VhostUserMemoryN.bv, bv]

theorem bodyValid_config_take {bs : Bytes} (h : 12 ≤ bs.length) :
    bodyValid "VhostUserConfig" (bs.take 12) = some (Gen.VhostUserConfig.isValid (cfgN bs).bv) := by
  have hs : structSize "VhostUserConfig" = some 12 := by decide
  have hl : (bs.take 12).length = 12 := by simp [List.length_take]; omega
  have e1 : getField (bs.take 12) "VhostUserConfig" ["offset"] = some (g bs "VhostUserConfig" ["offset"]) :=
    getField_take (off := 0) (w := 4) 12 (by decide) (by omega) h
  have e2 : getField (bs.take 12) "VhostUserConfig" ["size"] = some (g bs "VhostUserConfig" ["size"]) :=
    getField_take (off := 4) (w := 4) 12 (by decide) (by omega) h
  have e3 : getField (bs.take 12) "VhostUserConfig" ["flags"] = some (g bs "VhostUserConfig" ["flags"]) :=
    getField_take (off := 8) (w := 4) 12 (by decide) (by omega) h
  simp [bodyValid, decConfig, hs, hl, e1, e2, e3, cfgN, VhostUserConfigN.bv, bv]

theorem bodyValid_region_full {r : Bytes} (h : r.length = 32) :
    bodyValid "VhostUserMemoryRegion" r = some (Gen.VhostUserMemoryRegion.isValid (regionN r).bv) := by
  have hs : structSize "VhostUserMemoryRegion" = some 32 := by decide
  have e1 : getField r "VhostUserMemoryRegion" ["guest_phys_addr"] = some (g r "VhostUserMemoryRegion" ["guest_phys_addr"]) :=
    getField_of_le (off := 0) (w := 8) (by decide) (by omega)
  have e2 : getField r "VhostUserMemoryRegion" ["memory_size"] = some (g r "VhostUserMemoryRegion" ["memory_size"]) :=
    getField_of_le (off := 8) (w := 8) (by decide) (by omega)
  have e3 : getField r "VhostUserMemoryRegion" ["user_addr"] = some (g r "VhostUserMemoryRegion" ["user_addr"]) :=
    getField_of_le (off := 16) (w := 8) (by decide) (by omega)
  have e4 : getField r "VhostUserMemoryRegion" ["mmap_offset"] = some (g r "VhostUserMemoryRegion" ["mmap_offset"]) :=
    getField_of_le (off := 24) (w := 8) (by decide) (by omega)
  simp [bodyValid, decRegion, decRegionAt, hs, h, e1, e2, e3, e4, regionN, VhostUserMemoryRegionN.bv, bv]

end Lemmas.Helpers
