import VhostModel.Spec.Locks
import VhostModel.Model.Locks

/-!
# Helper lemmas for `Props.C10` (the invariant of `Model.Locks` and its preservation, the measure)

Nothing here is a property statement; the property theorems are in `Props/C10.lean`.
-/

namespace Lemmas.Locks
open Model.Locks Spec.Locks

theorem scan_append (ex : Nat → Bool) (o : Option Nat) (t1 t2 : List Ev) :
    scan ex o (t1 ++ t2) = (scan ex o t1).bind fun o' => scan ex o' t2 := by
  induction t1 generalizing o with
  | nil => simp [scan]
  | cons e t ih =>
    simp only [List.cons_append, scan]
    cases scanStep ex o e with
    | none => simp
    | some o' => simpa using ih o'

theorem scan_open_mid (ex : Nat → Bool) (i j : Nat) (mid post : List Ev) (o : Option Nat)
    (h : scan ex (some i) (mid ++ Ev.req j :: post) = some o) : ∃ t, Ev.rep i t ∈ mid := by
  induction mid with
  | nil => simp [scan, scanStep] at h
  | cons e m ih =>
    cases e with
    | req k => simp [scan, scanStep] at h
    | rep k t =>
      by_cases hk : k = i
      · subst hk; exact ⟨t, by simp⟩
      · have hne : ¬ (some i = some k) := by intro e; cases e; exact hk rfl
        simp only [List.cons_append, scan, scanStep, hne, if_false] at h
        obtain ⟨t', ht'⟩ := ih h
        exact ⟨t', by simp [ht']⟩

/-! ## the invariant -/

structure Inv (c : Cfg) (s : St) : Prop where
  lock : ∀ i, (s.pc i = .locked ∨ s.pc i = .sent ∨ s.pc i = .got ∨ s.pc i = .relock) → s.holder = some i
  held : ∀ i, s.holder = some i → (s.pc i = .locked ∨ s.pc i = .sent ∨ s.pc i = .got ∨ s.pc i = .relock)
  range : ∀ i, s.pc i ≠ .idle → i < c.n
  out : outstanding c s = [] ∨ ∃ i, outstanding c s = [i] ∧ s.pc i = .sent ∧ c.reads i = true
  opn : ∀ i, s.pc i = .sent → c.reads i = true → outstanding c s = [i]
  gotOwn : ∀ i, (s.pc i = .got ∨ (s.pc i = .done ∧ c.reads i = true)) → s.err i = false → s.got i = some i
  tr : scan c.reads none s.trace = some (outstanding c s).head?
  trOwn : OwnReply s.trace

theorem inv_init (c : Cfg) : Inv c init := by
  refine ⟨?_, ?_, ?_, ?_, ?_, ?_, ?_, ?_⟩ <;> simp [init, outstanding, scan, OwnReply]

/-- with the lock held by a caller that has not yet sent, nothing is outstanding -/
theorem out_nil_of_locked {c : Cfg} {s : St} (h : Inv c s) {i : Nat} (hi : s.pc i = .locked) :
    outstanding c s = [] := by
  rcases h.out with h0 | ⟨j, _, hj, _⟩
  · exact h0
  · have h1 := h.lock j (Or.inr (Or.inl hj))
    have h2 := h.lock i (Or.inl hi)
    rw [h1] at h2; cases h2
    rw [hi] at hj; cases hj

theorem upd_same {α : Type} (f : Nat → α) (i : Nat) (v : α) : upd f i v i = v := by simp [upd]
theorem upd_other {α : Type} (f : Nat → α) {i j : Nat} (v : α) (h : j ≠ i) : upd f i v j = f j := by
  simp [upd, h]

theorem inv_acquire (c : Cfg) (s s' : St) (i : Nat) (h : Inv c s) (hs : step c s (.acquire i) = some s') :
    Inv c s' := by
  simp only [step] at hs
  split at hs
  · rename_i hc
    simp at hs; subst hs
    obtain ⟨hn, hidle, hnone⟩ := hc
    have nobody : ∀ j, ¬ (s.pc j = .locked ∨ s.pc j = .sent ∨ s.pc j = .got ∨ s.pc j = .relock) := by
      intro j hj; have := h.lock j hj; rw [hnone] at this; cases this
    refine ⟨?_, ?_, ?_, ?_, ?_, ?_, ?_, ?_⟩
    · intro j hj
      by_cases e : j = i
      · subst e; rfl
      · simp only [upd_other _ _ e] at hj; exact absurd hj (nobody j)
    · intro j hj
      simp only [Option.some.injEq] at hj
      subst hj; simp [upd_same]
    · intro j hj
      by_cases e : j = i
      · subst e; exact hn
      · simp only [upd_other _ _ e] at hj; exact h.range j hj
    · rcases h.out with h0 | ⟨j, _, hj, _⟩
      · exact Or.inl h0
      · exact absurd (Or.inr (Or.inl hj)) (nobody j)
    · intro j hj _
      by_cases e : j = i
      · subst e; simp [upd_same] at hj
      · simp only [upd_other _ _ e] at hj; exact absurd (Or.inr (Or.inl hj)) (nobody j)
    · intro j hj
      by_cases e : j = i
      · subst e; simp [upd_same] at hj
      · simp only [upd_other _ _ e] at hj; exact h.gotOwn j hj
    · exact h.tr
    · exact h.trOwn
  · -- the re-acquisition of the mutated rule needs a free lock, but a caller at `relock` holds it
    split at hs
    · rename_i _ hc
      have := h.lock i (Or.inr (Or.inr (Or.inr hc.1)))
      rw [hc.2] at this; cases this
    · simp at hs

theorem inv_send (c : Cfg) (s s' : St) (i : Nat) (h : Inv c s) (hs : step c s (.send i) = some s') :
    Inv c s' := by
  simp only [step] at hs
  split at hs <;> simp at hs
  rename_i hc; subst hs
  obtain ⟨hl, _⟩ := hc
  have hold : s.holder = some i := h.lock i (Or.inl hl)
  have hnil : outstanding c s = [] := out_nil_of_locked h hl
  have hrep : s.repQ = [] := by
    have := hnil; unfold outstanding at this; exact (List.append_eq_nil_iff.mp this).1
  have hflt : s.reqQ.filter c.reads = [] := by
    have := hnil; unfold outstanding at this; exact (List.append_eq_nil_iff.mp this).2
  have hout' : outstanding c
      { s with pc := upd s.pc i .sent, reqQ := s.reqQ ++ [i], trace := s.trace ++ [Ev.req i] } =
      if c.reads i then [i] else [] := by
    simp only [outstanding, hrep, List.filter_append, hflt, List.nil_append]
    cases hr : c.reads i <;> simp [List.filter, hr]
  have others : ∀ j, j ≠ i → ¬ (s.pc j = .locked ∨ s.pc j = .sent ∨ s.pc j = .got ∨ s.pc j = .relock) := by
    intro j e hj; have := h.lock j hj; rw [hold] at this; cases this; exact e rfl
  refine ⟨?_, ?_, ?_, ?_, ?_, ?_, ?_, ?_⟩
  · intro j hj
    by_cases e : j = i
    · subst e; exact hold
    · simp only [upd_other _ _ e] at hj; exact h.lock j hj
  · intro j hj
    have : j = i := by rw [hold] at hj; cases hj; rfl
    subst this; simp [upd_same]
  · intro j hj
    by_cases e : j = i
    · subst e; exact h.range j (by rw [hl]; simp)
    · simp only [upd_other _ _ e] at hj; exact h.range j hj
  · rw [hout']
    cases hr : c.reads i
    · exact Or.inl (by simp)
    · exact Or.inr ⟨i, by simp, by simp [upd_same], hr⟩
  · intro j hj hrj
    by_cases e : j = i
    · subst e; rw [hout', hrj]; rfl
    · simp only [upd_other _ _ e] at hj; exact absurd (Or.inr (Or.inl hj)) (others j e)
  · intro j hj
    by_cases e : j = i
    · subst e; simp [upd_same] at hj
    · simp only [upd_other _ _ e] at hj; exact h.gotOwn j hj
  · show scan c.reads none (s.trace ++ [Ev.req i]) = _
    rw [scan_append, h.tr, hnil, hout']
    cases hr : c.reads i <;> simp [scan, scanStep, hr]
  · intro j t hm
    simp only [List.mem_append, List.mem_singleton] at hm
    rcases hm with hm | hm
    · exact h.trOwn j t hm
    · cases hm

theorem inv_peer (c : Cfg) (s s' : St) (h : Inv c s) (hs : step c s .peer = some s') : Inv c s' := by
  simp only [step] at hs
  split at hs
  · simp at hs
  · rename_i r q hq
    simp at hs; subst hs
    have hout' : outstanding c
        { s with reqQ := q, repQ := if c.reads r = true then s.repQ ++ [r] else s.repQ,
                 closed := s.closed || c.closes r } = outstanding c s := by
      simp only [outstanding, hq]
      cases hr : c.reads r <;> simp [List.filter, hr]
    refine ⟨h.lock, h.held, h.range, ?_, ?_, h.gotOwn, ?_, h.trOwn⟩
    · rw [hout']; exact h.out
    · intro j hj hrj; rw [hout']; exact h.opn j hj hrj
    · rw [hout']; exact h.tr

theorem inv_recv (c : Cfg) (s s' : St) (i : Nat) (h : Inv c s) (hs : step c s (.recv i) = some s') :
    Inv c s' ∧ (c.faulty i = false → s'.got i = some i) := by
  simp only [step] at hs
  split at hs
  · rename_i hc
    obtain ⟨hsent, hreads⟩ := hc
    split at hs
    · simp at hs
    · rename_i t w hq
      simp only [Option.some.injEq] at hs; subst hs
      have hopn := h.opn i hsent hreads
      have htw : t = i ∧ w = [] ∧ s.reqQ.filter c.reads = [] := by
        unfold outstanding at hopn
        rw [hq] at hopn
        simp only [List.cons_append, List.cons.injEq, List.append_eq_nil_iff] at hopn
        exact ⟨hopn.1, hopn.2.1, hopn.2.2⟩
      obtain ⟨ht, hw, hflt⟩ := htw
      subst ht; subst hw
      have hold : s.holder = some t := h.lock t (Or.inr (Or.inl hsent))
      have others : ∀ j, j ≠ t → ¬ (s.pc j = .locked ∨ s.pc j = .sent ∨ s.pc j = .got ∨ s.pc j = .relock) := by
        intro j e hj; have := h.lock j hj; rw [hold] at this; cases this; exact e rfl
      have hpc' : ∀ v : PC, v = .got ∨ v = .relock →
          (v = .locked ∨ v = .sent ∨ v = .got ∨ v = .relock) ∧ v ≠ .idle ∧ v ≠ .sent := by
        intro v hv; rcases hv with hv | hv <;> subst hv <;> simp
      have hv : (if (c.faulty t && c.relock) = true then PC.relock else PC.got) = .got ∨
          (if (c.faulty t && c.relock) = true then PC.relock else PC.got) = .relock := by
        split <;> simp
      generalize (if (c.faulty t && c.relock) = true then PC.relock else PC.got) = v at hv
      obtain ⟨hv1, hv2, hv3⟩ := hpc' v hv
      refine ⟨⟨?_, ?_, ?_, ?_, ?_, ?_, ?_, ?_⟩, ?_⟩
      · intro j hj
        by_cases e : j = t
        · subst e; exact hold
        · simp only [upd_other _ _ e] at hj; exact h.lock j hj
      · intro j hj
        have : j = t := by rw [hold] at hj; cases hj; rfl
        subst this; simpa [upd_same] using hv1
      · intro j hj
        by_cases e : j = t
        · subst e; exact h.range j (by rw [hsent]; simp)
        · simp only [upd_other _ _ e] at hj; exact h.range j hj
      · exact Or.inl (by simp [outstanding, hflt])
      · intro j hj _
        by_cases e : j = t
        · subst e; simp only [upd_same] at hj; exact absurd hj hv3
        · simp only [upd_other _ _ e] at hj; exact absurd (Or.inr (Or.inl hj)) (others j e)
      · intro j hj hej
        by_cases e : j = t
        · subst e
          cases hf : c.faulty j
          · simp [upd_same]
          · simp [hf, upd_same] at hej
        · have hej' : s.err j = false := by
            cases hf : c.faulty t
            · simpa [hf] using hej
            · simpa [hf, upd_other _ _ e] using hej
          have hg : (if c.faulty t = true then s.got else upd s.got t (some t)) j = s.got j := by
            split
            · rfl
            · exact upd_other _ _ e
          simp only [upd_other _ _ e] at hj
          show (if c.faulty t = true then s.got else upd s.got t (some t)) j = some j
          rw [hg]; exact h.gotOwn j hj hej'
      · show scan c.reads none (s.trace ++ [Ev.rep t t]) = _
        rw [scan_append, h.tr, hopn]
        simp [scan, scanStep, outstanding, hflt]
      · intro j u hm
        simp only [List.mem_append, List.mem_singleton] at hm
        rcases hm with hm | hm
        · exact h.trOwn j u hm
        · cases hm; rfl
      · intro hf; simp [hf, upd_same]
  · simp at hs

theorem inv_release (c : Cfg) (s s' : St) (i : Nat) (h : Inv c s) (hs : step c s (.release i) = some s') :
    Inv c s' := by
  simp only [step] at hs
  split at hs <;> simp at hs
  rename_i hc; subst hs
  obtain ⟨hold, hpc⟩ := hc
  have others : ∀ j, j ≠ i → ¬ (s.pc j = .locked ∨ s.pc j = .sent ∨ s.pc j = .got ∨ s.pc j = .relock) := by
    intro j e hj; have := h.lock j hj; rw [hold] at this; cases this; exact e rfl
  have hnil : outstanding c s = [] := by
    rcases h.out with h0 | ⟨j, _, hj, hrj⟩
    · exact h0
    · have hji : j = i := by
        have := h.lock j (Or.inr (Or.inl hj)); rw [hold] at this; cases this; rfl
      subst hji
      rcases hpc with hp | ⟨_, hr⟩ | ⟨hp, _⟩
      · rw [hj] at hp; cases hp
      · rw [hrj] at hr; cases hr
      · rw [hj] at hp; cases hp
  refine ⟨?_, ?_, ?_, ?_, ?_, ?_, ?_, ?_⟩
  · intro j hj
    by_cases e : j = i
    · subst e; simp [upd_same] at hj
    · simp only [upd_other _ _ e] at hj; exact absurd hj (others j e)
  · intro j hj; cases hj
  · intro j hj
    by_cases e : j = i
    · subst e
      apply h.range j
      rcases hpc with hp | ⟨hp, _⟩ | ⟨hp, _⟩ <;> rw [hp] <;> simp
    · simp only [upd_other _ _ e] at hj; exact h.range j hj
  · exact Or.inl hnil
  · intro j hj _
    by_cases e : j = i
    · subst e; simp [upd_same] at hj
    · simp only [upd_other _ _ e] at hj; exact absurd (Or.inr (Or.inl hj)) (others j e)
  · intro j hj hej
    by_cases e : j = i
    · subst e
      simp only [upd_same] at hj
      rcases hj with hj | ⟨_, hr⟩
      · cases hj
      · rcases hpc with hp | ⟨_, hr'⟩ | ⟨hp, _⟩
        · have hne : ¬ (s.pc j = .locked) := by rw [hp]; simp
          simp only [hne, if_false] at hej
          exact h.gotOwn j (Or.inl hp) hej
        · rw [hr] at hr'; cases hr'
        · -- a call that returns from `locked` (local rejection, dead socket) returns an error
          simp [hp, upd_same] at hej
    · simp only [upd_other _ _ e] at hj
      have hej' : s.err j = false := by
        by_cases hl : s.pc i = .locked
        · simpa [hl, upd_other _ _ e] using hej
        · simpa [hl] using hej
      exact h.gotOwn j hj hej'
  · exact h.tr
  · exact h.trOwn

theorem inv_step (c : Cfg) (s s' : St) (l : Lbl) (h : Inv c s) (hs : step c s l = some s') : Inv c s' := by
  cases l with
  | acquire i => exact inv_acquire c s s' i h hs
  | send i => exact inv_send c s s' i h hs
  | peer => exact inv_peer c s s' h hs
  | recv i => exact (inv_recv c s s' i h hs).1
  | release i => exact inv_release c s s' i h hs

theorem inv_run (c : Cfg) (s s' : St) (ls : List Lbl) (h : Inv c s) (hr : run c s ls = some s') : Inv c s' := by
  induction ls generalizing s with
  | nil => simp [run] at hr; subst hr; exact h
  | cons l ls ih =>
    simp only [run] at hr
    split at hr
    · simp at hr
    · rename_i s1 hs1; exact ih s1 (inv_step c s s1 l h hs1) hr

/-- every state reached by a schedule satisfies the invariant -/
theorem inv_reachable (c : Cfg) (ls : List Lbl) (s : St) (hr : run c init ls = some s) : Inv c s :=
  inv_run c init s ls (inv_init c) hr

theorem mem_allLabels_peer (n : Nat) : Lbl.peer ∈ allLabels n := by
  induction n with
  | zero => simp [allLabels]
  | succ k ih => simp [allLabels, ih]

theorem mem_allLabels (n i : Nat) (h : i < n) :
    Lbl.acquire i ∈ allLabels n ∧ Lbl.send i ∈ allLabels n ∧ Lbl.recv i ∈ allLabels n ∧
    Lbl.release i ∈ allLabels n := by
  induction n with
  | zero => omega
  | succ k ih =>
    by_cases e : i = k
    · subst e; simp [allLabels]
    · have := ih (by omega)
      simp [allLabels, this]

theorem rem_idle : rem .idle = 8 := rfl
theorem rem_locked : rem .locked = 6 := rfl
theorem rem_sent : rem .sent = 4 := rfl
theorem rem_got : rem .got = 2 := rfl
theorem rem_done : rem .done = 0 := rfl
theorem rem_relock : rem .relock = 3 := rfl

theorem total_upd (f : Nat → PC) (i : Nat) (v : PC) (n : Nat) (h : i < n) :
    total (fun j => rem (upd f i v j)) n + rem (f i) = total (fun j => rem (f j)) n + rem v := by
  induction n with
  | zero => omega
  | succ k ih =>
    simp only [total]
    by_cases e : i = k
    · subst e
      have hlt : ∀ m, m ≤ i → total (fun j => rem (upd f i v j)) m = total (fun j => rem (f j)) m := by
        intro m hm
        induction m with
        | zero => rfl
        | succ m ihm =>
          simp only [total]
          rw [ihm (by omega), upd_other f v (by omega : m ≠ i)]
      rw [hlt i (Nat.le_refl i), upd_same]; omega
    · have := ih (by omega)
      rw [upd_other f v (fun h' => e h'.symm)]
      omega

set_option linter.unusedSimpArgs false in
/-- The measure "remaining steps" strictly decreases with every step. -/
theorem measure_step (c : Cfg) (s s' : St) (l : Lbl) (h : Inv c s) (hs : step c s l = some s') :
    Model.Locks.measure c s' < Model.Locks.measure c s := by
  cases l with
  | acquire i =>
    simp only [step] at hs
    split at hs
    · rename_i hc
      simp at hs; subst hs
      have := total_upd s.pc i .locked c.n hc.1
      simp only [Model.Locks.measure]; rw [hc.2.1] at this; simp only [rem_idle, rem_locked, rem_sent, rem_got, rem_done] at this; omega
    · split at hs
      · rename_i _ hc
        simp at hs; subst hs
        have hn := h.range i (by rw [hc.1]; simp)
        have := total_upd s.pc i .got c.n hn
        simp only [Model.Locks.measure]; rw [hc.1] at this; simp only [rem_relock, rem_got] at this; omega
      · simp at hs
  | send i =>
    simp only [step] at hs; split at hs <;> simp at hs
    rename_i hc; subst hs
    have hn := h.range i (by rw [hc.1]; simp)
    have := total_upd s.pc i .sent c.n hn
    simp only [Model.Locks.measure, List.length_append, List.length_singleton]
    rw [hc.1] at this; simp only [rem_idle, rem_locked, rem_sent, rem_got, rem_done] at this; omega
  | peer =>
    simp only [step] at hs
    split at hs
    · simp at hs
    · rename_i r q hq
      simp at hs; subst hs
      simp only [Model.Locks.measure, hq, List.length_cons]; omega
  | recv i =>
    simp only [step] at hs
    split at hs
    · rename_i hc
      split at hs <;> simp only [Option.some.injEq, reduceCtorEq] at hs
      subst hs
      have hn := h.range i (by rw [hc.1]; simp)
      simp only [Model.Locks.measure]
      split
      · have := total_upd s.pc i .relock c.n hn
        rw [hc.1] at this; simp only [rem_sent, rem_relock] at this; omega
      · have := total_upd s.pc i .got c.n hn
        rw [hc.1] at this; simp only [rem_sent, rem_got] at this; omega
    · simp at hs
  | release i =>
    simp only [step] at hs; split at hs <;> simp at hs
    rename_i hc; subst hs
    have hpc := hc.2
    have hn : i < c.n := h.range i (by rcases hpc with hp | ⟨hp, _⟩ | ⟨hp, _⟩ <;> rw [hp] <;> simp)
    have := total_upd s.pc i .done c.n hn
    simp only [Model.Locks.measure]
    rcases hpc with hp | ⟨hp, _⟩ | ⟨hp, _⟩ <;> rw [hp] at this <;> simp only [rem_idle, rem_locked, rem_sent, rem_got, rem_done] at this <;> omega

theorem run_measure (c : Cfg) (s s' : St) (ls : List Lbl) (h : Inv c s) (hr : run c s ls = some s') :
    ls.length + Model.Locks.measure c s' ≤ Model.Locks.measure c s := by
  induction ls generalizing s with
  | nil => simp [run] at hr; subst hr; simp
  | cons l ls ih =>
    simp only [run] at hr
    split at hr
    · simp at hr
    · rename_i s1 hs1
      have h1 := ih s1 (inv_step c s s1 l h hs1) hr
      have h2 := measure_step c s s1 l h hs1
      simp only [List.length_cons]; omega

theorem measure_init (c : Cfg) : Model.Locks.measure c init = 8 * c.n := by
  have : ∀ n, total (fun _ => 8) n = 8 * n := by
    intro n
    induction n with
    | zero => rfl
    | succ k ih => simp only [total, ih]; omega
  show total (fun _ => 8) c.n + 0 = 8 * c.n
  rw [this c.n]; rfl

/-! ## the fault invariant: who has an error, and why

Kept apart from `Inv` (which is about the lock and the wire): `err` is set only by the receipt of a faulty reply and by
a return from `locked` (local rejection, dead socket); a caller with a faulty reply never has a value; the socket is
closed only if the configuration has a closing fault; program counter `relock` only exists under the mutation. -/

structure FInv (c : Cfg) (s : St) : Prop where
  errPc : ∀ i, s.err i = true → s.pc i = .got ∨ s.pc i = .relock ∨ s.pc i = .done
  errWhy : ∀ i, s.err i = true → c.faulty i = true ∨ Ev.req i ∉ s.trace
  errClosed : ∀ i, s.err i = true → c.faulty i = true ∨ c.sends i = false ∨ s.closed = true
  reqPc : ∀ i, Ev.req i ∈ s.trace → s.pc i = .sent ∨ s.pc i = .got ∨ s.pc i = .relock ∨ s.pc i = .done
  closedWhy : s.closed = true → ∃ k, c.closes k = true
  faultyErr : ∀ i, c.faulty i = true → (s.pc i = .got ∨ s.pc i = .relock ∨ s.pc i = .done) → s.err i = true
  faultyNoVal : ∀ i, c.faulty i = true → s.got i = none
  relockPc : ∀ i, s.pc i = .relock → c.relock = true ∧ c.faulty i = true
  pcReq : ∀ i, (s.pc i = .sent ∨ s.pc i = .got ∨ s.pc i = .relock) → Ev.req i ∈ s.trace
  doneNoReq : ∀ i, s.pc i = .done → Ev.req i ∉ s.trace → s.err i = true

theorem finv_init (c : Cfg) : FInv c init := by
  refine ⟨?_, ?_, ?_, ?_, ?_, ?_, ?_, ?_, ?_, ?_⟩ <;> simp [init]

theorem faulty_reads {c : Cfg} {i : Nat} (h : c.faulty i = true) : c.reads i = true := by
  unfold Cfg.faulty at h; simp at h; exact h.1

theorem reads_sends {c : Cfg} {i : Nat} (h : c.reads i = true) : c.sends i = true := by
  unfold Cfg.reads at h; unfold Cfg.sends
  cases hk : c.kind i <;> simp [hk] at h ⊢

theorem closes_faulty {c : Cfg} {i : Nat} (h : c.closes i = true) : c.faulty i = true := by
  unfold Cfg.closes at h; unfold Cfg.faulty
  cases hf : c.fault i <;> simp [hf] at h ⊢ <;> exact h

theorem finv_step (c : Cfg) (s s' : St) (l : Lbl) (h : Inv c s) (f : FInv c s) (hs : step c s l = some s') :
    FInv c s' := by
  cases l with
  | acquire i =>
    simp only [step] at hs
    split at hs
    · rename_i hc; simp at hs; subst hs
      refine ⟨?_, ?_, ?_, ?_, ?_, ?_, ?_, ?_, ?_, ?_⟩
      all_goals grind [upd, FInv]
    · split at hs
      · rename_i _ hc
        have := h.lock i (Or.inr (Or.inr (Or.inr hc.1)))
        rw [hc.2] at this; cases this
      · simp at hs
  | send i =>
    simp only [step] at hs
    split at hs <;> simp at hs
    rename_i hc; subst hs
    refine ⟨?_, ?_, ?_, ?_, ?_, ?_, ?_, ?_, ?_, ?_⟩
    all_goals grind [upd, FInv]
  | peer =>
    simp only [step] at hs
    split at hs
    · simp at hs
    · simp at hs; subst hs
      refine ⟨?_, ?_, ?_, ?_, ?_, ?_, ?_, ?_, ?_, ?_⟩
      all_goals grind [upd, FInv]
  | recv i =>
    simp only [step] at hs
    split at hs
    · rename_i hc
      split at hs
      · simp at hs
      · simp only [Option.some.injEq] at hs; subst hs
        refine ⟨?_, ?_, ?_, ?_, ?_, ?_, ?_, ?_, ?_, ?_⟩
        all_goals grind [upd, FInv]
    · simp at hs
  | release i =>
    simp only [step] at hs
    split at hs <;> simp at hs
    rename_i hc; subst hs
    have := @faulty_reads c i
    have := @reads_sends c i
    refine ⟨?_, ?_, ?_, ?_, ?_, ?_, ?_, ?_, ?_, ?_⟩
    all_goals grind [upd, FInv]

theorem finv_run (c : Cfg) (s s' : St) (ls : List Lbl) (h : Inv c s) (f : FInv c s) (hr : run c s ls = some s') :
    FInv c s' := by
  induction ls generalizing s with
  | nil => simp [run] at hr; subst hr; exact f
  | cons l ls ih =>
    simp only [run] at hr
    split at hr
    · simp at hr
    · rename_i s1 hs1; exact ih s1 (inv_step c s s1 l h hs1) (finv_step c s s1 l h f hs1) hr

theorem finv_reachable (c : Cfg) (ls : List Lbl) (s : St) (hr : run c init ls = some s) : FInv c s :=
  finv_run c init s ls (inv_init c) (finv_init c) hr

/-- `run` over a concatenation -/
theorem run_append (c : Cfg) (s : St) (l1 l2 : List Lbl) :
    run c s (l1 ++ l2) = (run c s l1).bind fun s1 => run c s1 l2 := by
  induction l1 generalizing s with
  | nil => simp [run]
  | cons l ls ih =>
    simp only [List.cons_append, run]
    cases step c s l with
    | none => simp
    | some s1 => simpa using ih s1

end Lemmas.Locks
