import VhostModel.Lemmas.Decode
/-!
# Invariants of the guard interpreter `Model.BackendSrv.runGuard` / `runGuards`

* header and body are never changed by a guard;
* a `.body ty` guard that passed established `bodyValid ty buf = some true` (the generated validator holds of the
  decoded body), an `.enable01` guard `num ≤ 1`;
* bookkeeping of the taken file: `none` unless a `.oneFile` / `.vringFd` guard ran (`FileSt`);
* the ring index produced by `.vringFd` is a byte.
-/
namespace Lemmas.Guards
open Base Model.Stream Model.Msgs Model.BackendSrv

theorem runGuard_hdr_buf {st : BSt} {c c' : Ctx} {gd : Guard} (h : runGuard st c gd = .ok c') :
    c'.hdr = c.hdr ∧ c'.buf = c.buf := by
  cases gd with
  | sizeIs s => cases s <;> simp only [runGuard] at h <;> (repeat' split at h) <;> simp_all
  | _ => simp only [runGuard] at h <;> (repeat' split at h) <;> simp_all <;> (obtain ⟨rfl⟩ := h <;> simp)

theorem runGuards_hdr_buf {st : BSt} : ∀ (gs : List Guard) {c c' : Ctx}, runGuards st c gs = .ok c' →
    c'.hdr = c.hdr ∧ c'.buf = c.buf := by
  intro gs
  induction gs with
  | nil => intro c c' h; simp only [runGuards, Except.ok.injEq] at h; subst h; exact ⟨rfl, rfl⟩
  | cons gd gs ih =>
    intro c c' h
    simp only [runGuards] at h
    cases hg : runGuard st c gd with
    | error e => simp [hg] at h
    | ok c1 =>
      simp only [hg] at h
      obtain ⟨h1, h2⟩ := ih h
      obtain ⟨h3, h4⟩ := runGuard_hdr_buf hg
      exact ⟨h1.trans h3, h2.trans h4⟩

/-- what a guard that passed has established about the (unchanging) body -/
def Est (buf : Bytes) : Guard → Prop
  | .body ty => bodyValid ty buf = some true
  | .enable01 => g buf "VhostUserVringState" ["num"] ≤ 1
  | _ => True

theorem runGuard_est {st : BSt} {c c' : Ctx} {gd : Guard} (h : runGuard st c gd = .ok c') : Est c.buf gd := by
  cases gd with
  | body ty =>
    simp only [runGuard] at h
    simp only [Est]
    repeat' split at h
    all_goals first | assumption | (simp at h)
  | enable01 =>
    simp only [runGuard] at h
    simp only [Est]
    split at h
    · rename_i hn; simp only [Bool.or_eq_true, beq_iff_eq] at hn; omega
    · exact absurd h (by simp)
  | _ => trivial

theorem runGuards_est {st : BSt} : ∀ (gs : List Guard) {c c' : Ctx}, runGuards st c gs = .ok c' →
    ∀ gd ∈ gs, Est c.buf gd := by
  intro gs
  induction gs with
  | nil => intro c c' _ gd hgd; simp at hgd
  | cons g0 gs ih =>
    intro c c' h gd hgd
    simp only [runGuards] at h
    cases hg : runGuard st c g0 with
    | error e => simp [hg] at h
    | ok c1 =>
      simp only [hg] at h
      simp only [List.mem_cons] at hgd
      rcases hgd with rfl | hgd
      · exact runGuard_est hg
      · have := ih h gd hgd
        rwa [(runGuard_hdr_buf hg).2] at this

/-! ### the taken file -/

/-- what is known about `Ctx.file` -/
inductive FileSt where
  | none       -- no file taken
  | one        -- exactly one file taken
  | any        -- zero or one (after `.vringFd`)
  deriving DecidableEq, Repr

def FileSt.ok : FileSt → Option Fd → Prop
  | .none, f => f = Option.none
  | .one, f => f.isSome = true
  | .any, _ => True

def fileAfter1 : FileSt → Guard → FileSt
  | _, .oneFile _ => .one
  | _, .vringFd => .any
  | s, _ => s

def fileAfter (s : FileSt) (gs : List Guard) : FileSt := gs.foldl fileAfter1 s

theorem runGuard_file {st : BSt} {c c' : Ctx} {gd : Guard} {fs : FileSt} (h : runGuard st c gd = .ok c')
    (hf : fs.ok c.file) : (fileAfter1 fs gd).ok c'.file := by
  cases gd with
  | sizeIs s => cases s <;> simp only [runGuard] at h <;> (repeat' split at h) <;> simp_all [fileAfter1]
  | oneFile e =>
    simp only [runGuard] at h
    split at h
    · simp only [Except.ok.injEq] at h; subst h; simp [fileAfter1, FileSt.ok]
    · exact absurd h (by simp)
  | vringFd => simp [fileAfter1, FileSt.ok]
  | _ => simp only [runGuard] at h <;> (repeat' split at h) <;> simp_all [fileAfter1]

theorem runGuards_file {st : BSt} : ∀ (gs : List Guard) {c c' : Ctx} {fs : FileSt}, runGuards st c gs = .ok c' →
    fs.ok c.file → (fileAfter fs gs).ok c'.file := by
  intro gs
  induction gs with
  | nil => intro c c' fs h hf; simp only [runGuards, Except.ok.injEq] at h; subst h; exact hf
  | cons gd gs ih =>
    intro c c' fs h hf
    simp only [runGuards] at h
    cases hg : runGuard st c gd with
    | error e => simp [hg] at h
    | ok c1 =>
      simp only [hg] at h
      exact ih h (runGuard_file hg hf)

theorem runGuard_index8 {st : BSt} {c c' : Ctx} {gd : Guard} (h : runGuard st c gd = .ok c')
    (hi : c.index8 < 256) : c'.index8 < 256 := by
  cases gd with
  | sizeIs s => cases s <;> simp only [runGuard] at h <;> (repeat' split at h) <;> simp_all
  | vringFd =>
    simp only [runGuard] at h
    repeat' split at h
    all_goals first | (simp only [Except.ok.injEq] at h; subst h; simp only; omega) | (simp at h)
  | _ => simp only [runGuard] at h <;> (repeat' split at h) <;> simp_all <;> (obtain ⟨rfl⟩ := h <;> simpa using hi)

theorem runGuards_index8 {st : BSt} : ∀ (gs : List Guard) {c c' : Ctx}, runGuards st c gs = .ok c' →
    c.index8 < 256 → c'.index8 < 256 := by
  intro gs
  induction gs with
  | nil => intro c c' h hi; simp only [runGuards, Except.ok.injEq] at h; subst h; exact hi
  | cons gd gs ih =>
    intro c c' h hi
    simp only [runGuards] at h
    cases hg : runGuard st c gd with
    | error e => simp [hg] at h
    | ok c1 =>
      simp only [hg] at h
      exact ih h (runGuard_index8 hg hi)

end Lemmas.Guards
