import VhostModel.Lemmas.ConnRecv

set_option linter.unusedSimpArgs false
set_option linter.unusedVariables false
/-!
# The receiving framing functions: `recv_header`, `recv_body`, `recv_body_into_buf`, `recv_payload_into_buf`

Each is: build the iovec array over fresh objects, call `recv_into_iovec_all`, `?`, the checks, `Ok(..)`.
`call_recvAll` is the call as one step; the per-function lemmas give the outcome as a function of the model's
`recvAll` over `size_of::<H>() [+ size_of::<T>()] [+ buf.len()]` bytes.
-/
namespace Lemmas.ConnFrameRecv
open Imp Gen.ConnLoops Lemmas.ConnRecv
open Model.Stream (Cell Chooser clampK recvAll RecvAll)

/-- `let r = self.recv_into_iovec_all(&mut iovs[..])` as one step -/
theorem call_recvAll {σ : Type} (env : Env σ) (nm : String) (io r : Var) (F : Nat) (fr : Frame) (w : World σ)
    (hcl : env.classify ENOBUFS = .retry) (hF : w.stream.length + 1 ≤ F) (hst : (fr.io io.id).start = 0)
    (hstore : (fr.io io.id).store < w.mem.length) (hflat : (w.mem.getD (fr.io io.id).store []).length = (fr.io io.id).lens.sum) :
    let res := exec env (.call nm RecvIntoIovecAll.fnBody [] [] [] [(RecvIntoIovecAll.iovs, .var io)] r) F fr w
    let R := recvAll env.ch 32 env.isClosed (fr.io io.id).lens.sum w.cst w.stream true
    res.2.2.stream = R.rest ∧ res.2.2.cst = R.st ∧ res.2.2.closed = w.closed ++ R.closed ∧
    res.2.2.mem = w.mem.set (fr.io io.id).store (writeAt (w.mem.getD (fr.io io.id).store []) 0 R.bytes) ∧
    R.bytes.length ≤ (fr.io io.id).lens.sum ∧
    (R.outcome = .blocked → res.1 = .stuck .blocked ∧ res.2.1.n 0 = R.bytes.length ∧ res.2.1.f 0 = optOf R.fds) ∧
    (R.outcome ≠ .blocked → res.1 = .normal ∧
      res.2.1 = { fr with r := upd fr.r r.id (.ok { nats := [R.bytes.length], fds := optOf R.fds }) }) := by
  intro res R
  have h := recv_into_iovec_all_exec env F
    { n := fun _ => 0, l := fun _ => [], f := fun _ => none, io := upd (fun _ => {}) 0 (fr.io io.id) } w hcl hF
    (by simpa using hst) (by simpa using hstore) (by simpa using hflat)
  simp only [upd_apply, reduceIte] at h
  have hres : res = (match exec env RecvIntoIovecAll.fnBody F
      { n := fun _ => 0, l := fun _ => [], f := fun _ => none, io := upd (fun _ => {}) 0 (fr.io io.id) } w with
      | (.done rv, _, w') => (.normal, { fr with r := upd fr.r r.id rv }, w')
      | (.stuck s, fr', w') => (.stuck s, fr', w')
      | (_, _, w') => (.stuck .fault, fr, w')) := by
    simp only [res, exec_call, bindArgsN, bindArgsIo, bindArgsL, bindArgsF, evalIo]
    rfl
  rcases hx : exec env RecvIntoIovecAll.fnBody F
      { n := fun _ => 0, l := fun _ => [], f := fun _ => none, io := upd (fun _ => {}) 0 (fr.io io.id) } w with ⟨c, fr', w'⟩
  rw [hx] at h hres
  obtain ⟨t1, t2, t3, t4, t5, t6⟩ := h
  simp only at t1 t2 t3 t4 t6
  cases c with
  | normal => exact t6.elim
  | brk => exact t6.elim
  | done rv =>
    obtain ⟨v1, v2⟩ : _ ∧ _ := t6
    subst v2
    simp only at hres
    rw [hres]
    exact ⟨t1, t2, t3, t4, t5, fun hb => absurd hb v1, fun _ => ⟨rfl, rfl⟩⟩
  | stuck sk =>
    cases sk with
    | blocked =>
      obtain ⟨v1, v2, v3⟩ : _ ∧ _ ∧ _ := t6
      simp only at hres
      rw [hres]
      exact ⟨t1, t2, t3, t4, t5, fun _ => ⟨rfl, v2, v3⟩, fun hb => absurd v1 hb⟩
    | _ => exact t6.elim

theorem writeAt_zeros (n : Nat) (b : Bytes) (h : b.length ≤ n) :
    writeAt (List.replicate n 0) 0 b = b ++ List.replicate (n - b.length) 0 := by
  simp [writeAt]

/-- what `recv_header` does, given the model's read of `size_of::<H>()` bytes -/
def HeaderSpec {σ : Type} (env : Env σ) (w : World σ) (R : RecvAll σ) (res : Res σ) : Prop :=
  res.2.2.stream = R.rest ∧ res.2.2.cst = R.st ∧
  (if R.outcome = .blocked then
    res.1 = .stuck .blocked ∧ res.2.2.closed = w.closed ++ R.closed ∧ res.2.1.f 0 = optOf R.fds
  else if R.bytes.length = 0 then
    res.1 = .done (.err .disconnected) ∧ res.2.2.closed = w.closed ++ R.closed ++ R.fds
  else if R.bytes.length ≠ env.sizeH then
    res.1 = .done (.err .partialMessage) ∧ res.2.2.closed = w.closed ++ R.closed ++ R.fds
  else if !env.validH R.bytes then
    res.1 = .done (.err .invalidMessage) ∧ res.2.2.closed = w.closed ++ R.closed ++ R.fds
  else
    res.1 = .done (.ok { fds := optOf R.fds, bufs := [R.bytes] }) ∧ res.2.2.closed = w.closed ++ R.closed)

/-- `recv_header` -/
theorem recv_header_exec {σ : Type} (env : Env σ) (F : Nat) (fr : Frame) (w : World σ)
    (hcl : env.classify ENOBUFS = .retry) (hF : w.stream.length + 1 ≤ F) :
    HeaderSpec env w (recvAll env.ch 32 env.isClosed env.sizeH w.cst w.stream true) (exec env RecvHeader.fnBody F fr w) := by
  have hc := call_recvAll env "recv_into_iovec_all" RecvHeader.iovs RecvHeader.r_bytes F
    { fr with io := upd fr.io 0 { store := w.mem.length, start := 0, lens := [env.sizeH] } }
    { w with mem := w.mem ++ [List.replicate env.sizeH 0] } hcl hF (by simp) (by simp) (by simp)
  simp only [upd_apply, reduceIte, List.sum_cons, List.sum_nil, Nat.add_zero, List.getD_eq_getElem?_getD, List.getElem?_concat_length,
    Option.getD_some, List.set_append_right _ _ (Nat.le_refl _), Nat.sub_self, List.set_cons_zero] at hc
  unfold RecvHeader.fnBody
  rw [exec_seq, exec_allocIo]
  simp only [evalPieces, evalPiece, evalE, Option.map_some, List.map_cons, List.map_nil, List.length_replicate, List.flatten_cons,
    List.flatten_nil, List.append_nil]
  rw [exec_seq]
  rcases hx : exec env (.call "recv_into_iovec_all" RecvIntoIovecAll.fnBody [] [] [] [(RecvIntoIovecAll.iovs, .var RecvHeader.iovs)] RecvHeader.r_bytes) F
      { fr with io := upd fr.io 0 { store := w.mem.length, start := 0, lens := [env.sizeH] } }
      { w with mem := w.mem ++ [List.replicate env.sizeH 0] } with ⟨c, fr2, w2⟩
  rw [hx] at hc
  obtain ⟨t1, t2, t3, t4, t5, t6, t7⟩ := hc
  simp only at t1 t2 t3 t4 t6 t7
  generalize recvAll env.ch 32 env.isClosed env.sizeH w.cst w.stream true = R at *
  unfold HeaderSpec
  by_cases hb : R.outcome = .blocked
  · obtain ⟨u1, u2, u3⟩ := t6 hb
    subst u1
    simp only [hb, if_true]
    exact ⟨t1, t2, trivial, t3, u3⟩
  · obtain ⟨u1, u2⟩ := t7 hb
    subst u1 u2
    simp only [hb, if_false]
    have hz := writeAt_zeros env.sizeH R.bytes t5
    by_cases h0 : R.bytes.length = 0
    · simp [exec_matchResult, evalB, evalE, evalErr, h0, t1, t2, t3, optOf_getD, List.append_assoc]
    · by_cases h1 : R.bytes.length = env.sizeH
      · have h0' : ¬ env.sizeH = 0 := by omega
        have hR : List.take env.sizeH R.bytes = R.bytes := List.take_of_length_le (by omega)
        by_cases hv : env.validH R.bytes
        · simp [h0', hR, exec_matchResult, evalB, evalE, evalErr, evalEs, evalF, evalBuf, IoVal.pieceBytes, h0, h1, hv, t1, t2, t3, t4, hz, optOf_getD]
        · simp [h0', hR, exec_matchResult, evalB, evalE, evalErr, evalBuf, IoVal.pieceBytes, h0, h1, hv, t1, t2, t3, t4, hz, optOf_getD, List.append_assoc]
      · simp [exec_matchResult, evalB, evalE, evalErr, h0, h1, t1, t2, t3, optOf_getD, List.append_assoc]

/-- what `recv_body::<T>` does, given the model's read of `size_of::<H>() + size_of::<T>()` bytes -/
def BodySpec {σ : Type} (env : Env σ) (w : World σ) (R : RecvAll σ) (res : Res σ) : Prop :=
  res.2.2.stream = R.rest ∧ res.2.2.cst = R.st ∧
  (if R.outcome = .blocked then
    res.1 = .stuck .blocked ∧ res.2.2.closed = w.closed ++ R.closed ∧ res.2.1.f 0 = optOf R.fds
  else if R.bytes.length ≠ env.sizeH + env.sizeT then
    res.1 = .done (.err .partialMessage) ∧ res.2.2.closed = w.closed ++ R.closed ++ R.fds
  else if !env.validH (R.bytes.take env.sizeH) || !env.validT (R.bytes.drop env.sizeH) then
    res.1 = .done (.err .invalidMessage) ∧ res.2.2.closed = w.closed ++ R.closed ++ R.fds
  else
    res.1 = .done (.ok { fds := optOf R.fds, bufs := [R.bytes.take env.sizeH, R.bytes.drop env.sizeH] }) ∧
    res.2.2.closed = w.closed ++ R.closed)

/-- `recv_body` -/
theorem recv_body_exec {σ : Type} (env : Env σ) (F : Nat) (fr : Frame) (w : World σ)
    (hcl : env.classify ENOBUFS = .retry) (hF : w.stream.length + 1 ≤ F) :
    BodySpec env w (recvAll env.ch 32 env.isClosed (env.sizeH + env.sizeT) w.cst w.stream true) (exec env RecvBody.fnBody F fr w) := by
  have hc := call_recvAll env "recv_into_iovec_all" RecvBody.iovs RecvBody.r_bytes F
    { fr with io := upd fr.io 0 { store := w.mem.length, start := 0, lens := [env.sizeH, env.sizeT] } }
    { w with mem := w.mem ++ [List.replicate env.sizeH 0 ++ List.replicate env.sizeT 0] } hcl hF (by simp) (by simp) (by simp)
  simp only [upd_apply, reduceIte, List.sum_cons, List.sum_nil, Nat.add_zero, List.getD_eq_getElem?_getD, List.getElem?_concat_length,
    Option.getD_some, List.set_append_right _ _ (Nat.le_refl _), Nat.sub_self, List.set_cons_zero, List.replicate_append_replicate] at hc
  unfold RecvBody.fnBody
  rw [exec_seq, exec_allocIo]
  simp only [evalPieces, evalPiece, evalE, Option.map_some, List.map_cons, List.map_nil, List.length_replicate, List.flatten_cons,
    List.flatten_nil, List.append_nil, List.replicate_append_replicate]
  rw [exec_seq]
  rcases hx : exec env (.call "recv_into_iovec_all" RecvIntoIovecAll.fnBody [] [] [] [(RecvIntoIovecAll.iovs, .var RecvBody.iovs)] RecvBody.r_bytes) F
      { fr with io := upd fr.io 0 { store := w.mem.length, start := 0, lens := [env.sizeH, env.sizeT] } }
      { w with mem := w.mem ++ [List.replicate (env.sizeH + env.sizeT) 0] } with ⟨c, fr2, w2⟩
  rw [hx] at hc
  obtain ⟨t1, t2, t3, t4, t5, t6, t7⟩ := hc
  simp only at t1 t2 t3 t4 t6 t7
  generalize recvAll env.ch 32 env.isClosed (env.sizeH + env.sizeT) w.cst w.stream true = R at *
  unfold BodySpec
  by_cases hb : R.outcome = .blocked
  · obtain ⟨u1, u2, u3⟩ := t6 hb
    subst u1
    simp only [hb, if_true]
    exact ⟨t1, t2, trivial, t3, u3⟩
  · obtain ⟨u1, u2⟩ := t7 hb
    subst u1 u2
    simp only [hb, if_false]
    have hz := writeAt_zeros (env.sizeH + env.sizeT) R.bytes t5
    by_cases h1 : R.bytes.length = env.sizeH + env.sizeT
    · have hR : List.take env.sizeT (List.drop env.sizeH R.bytes) = List.drop env.sizeH R.bytes :=
        List.take_of_length_le (by simp; omega)
      by_cases hv : env.validH (R.bytes.take env.sizeH) <;> by_cases hv2 : env.validT (R.bytes.drop env.sizeH) <;>
        simp [hR, exec_matchResult, evalB, evalE, evalErr, evalEs, evalF, evalBuf, IoVal.pieceBytes, h1, hv, hv2, t1, t2, t3, t4, hz, optOf_getD,
          List.append_assoc]
    · simp [exec_matchResult, evalB, evalE, evalErr, h1, t1, t2, t3, optOf_getD, List.append_assoc]

/-- what `recv_body_into_buf(buf)` does, given the model's read of `size_of::<H>() + buf.len()` bytes; the memory behind
header and `buf` is the last store of the heap -/
def BodyIntoBufSpec {σ : Type} (env : Env σ) (w : World σ) (L : Nat) (R : RecvAll σ) (res : Res σ) : Prop :=
  res.2.2.stream = R.rest ∧ res.2.2.cst = R.st ∧
  res.2.2.mem = w.mem ++ [R.bytes ++ List.replicate (env.sizeH + L - R.bytes.length) 0] ∧
  (if R.outcome = .blocked then
    res.1 = .stuck .blocked ∧ res.2.2.closed = w.closed ++ R.closed ∧ res.2.1.f 0 = optOf R.fds
  else if R.bytes.length < env.sizeH then
    res.1 = .done (.err .partialMessage) ∧ res.2.2.closed = w.closed ++ R.closed ++ R.fds
  else if !env.validH (R.bytes.take env.sizeH) then
    res.1 = .done (.err .invalidMessage) ∧ res.2.2.closed = w.closed ++ R.closed ++ R.fds
  else
    res.1 = .done (.ok { nats := [R.bytes.length - env.sizeH], fds := optOf R.fds, bufs := [R.bytes.take env.sizeH] }) ∧
    res.2.2.closed = w.closed ++ R.closed)

/-- `recv_body_into_buf` (`buf` = byte-slice slot 0) -/
theorem recv_body_into_buf_exec {σ : Type} (env : Env σ) (F : Nat) (fr : Frame) (w : World σ)
    (hcl : env.classify ENOBUFS = .retry) (hF : w.stream.length + 1 ≤ F) :
    BodyIntoBufSpec env w (fr.b 0).length (recvAll env.ch 32 env.isClosed (env.sizeH + (fr.b 0).length) w.cst w.stream true)
      (exec env RecvBodyIntoBuf.fnBody F fr w) := by
  have hc := call_recvAll env "recv_into_iovec_all" RecvBodyIntoBuf.iovs RecvBodyIntoBuf.r_bytes F
    { fr with io := upd fr.io 0 { store := w.mem.length, start := 0, lens := [env.sizeH, (fr.b 0).length] } }
    { w with mem := w.mem ++ [List.replicate (env.sizeH + (fr.b 0).length) 0] } hcl hF (by simp) (by simp) (by simp)
  simp only [upd_apply, reduceIte, List.sum_cons, List.sum_nil, Nat.add_zero, List.getD_eq_getElem?_getD, List.getElem?_concat_length,
    Option.getD_some, List.set_append_right _ _ (Nat.le_refl _), Nat.sub_self, List.set_cons_zero] at hc
  unfold RecvBodyIntoBuf.fnBody
  rw [exec_seq, exec_allocIo]
  simp only [evalPieces, evalPiece, evalE, Option.map_some, List.map_cons, List.map_nil, List.length_replicate, List.flatten_cons,
    List.flatten_nil, List.append_nil, List.replicate_append_replicate]
  rw [exec_seq]
  rcases hx : exec env (.call "recv_into_iovec_all" RecvIntoIovecAll.fnBody [] [] [] [(RecvIntoIovecAll.iovs, .var RecvBodyIntoBuf.iovs)] RecvBodyIntoBuf.r_bytes) F
      { fr with io := upd fr.io 0 { store := w.mem.length, start := 0, lens := [env.sizeH, (fr.b 0).length] } }
      { w with mem := w.mem ++ [List.replicate (env.sizeH + (fr.b 0).length) 0] } with ⟨c, fr2, w2⟩
  rw [hx] at hc
  obtain ⟨t1, t2, t3, t4, t5, t6, t7⟩ := hc
  simp only at t1 t2 t3 t4 t6 t7
  generalize recvAll env.ch 32 env.isClosed (env.sizeH + (fr.b 0).length) w.cst w.stream true = R at *
  unfold BodyIntoBufSpec
  have hz := writeAt_zeros (env.sizeH + (fr.b 0).length) R.bytes t5
  by_cases hb : R.outcome = .blocked
  · obtain ⟨u1, u2, u3⟩ := t6 hb
    subst u1
    simp only [hb, if_true]
    exact ⟨t1, t2, by rw [t4, hz], trivial, t3, u3⟩
  · obtain ⟨u1, u2⟩ := t7 hb
    subst u1 u2
    simp only [hb, if_false]
    by_cases h1 : R.bytes.length < env.sizeH
    · simp [exec_matchResult, evalB, evalE, evalErr, h1, t1, t2, t3, t4, hz, optOf_getD, List.append_assoc]
    · have h1' : env.sizeH ≤ R.bytes.length := by omega
      have hp0 : List.take env.sizeH (R.bytes ++ List.replicate (env.sizeH + (fr.b 0).length - R.bytes.length) 0) = List.take env.sizeH R.bytes :=
        List.take_append_of_le_length h1'
      by_cases hv : env.validH (R.bytes.take env.sizeH) <;>
        simp [exec_matchResult, evalB, evalE, evalErr, evalEs, evalF, evalBuf, IoVal.pieceBytes, h1, h1', hv, t1, t2, t3, t4, hz, hp0, optOf_getD,
          List.append_assoc]

/-- what `recv_payload_into_buf::<T>(buf)` does, given the model's read of `size_of::<H>() + size_of::<T>() + buf.len()`
bytes -/
def PayloadIntoBufSpec {σ : Type} (env : Env σ) (w : World σ) (L : Nat) (R : RecvAll σ) (res : Res σ) : Prop :=
  res.2.2.stream = R.rest ∧ res.2.2.cst = R.st ∧
  res.2.2.mem = w.mem ++ [R.bytes ++ List.replicate (env.sizeH + env.sizeT + L - R.bytes.length) 0] ∧
  (if R.outcome = .blocked then
    res.1 = .stuck .blocked ∧ res.2.2.closed = w.closed ++ R.closed ∧ res.2.1.f 0 = optOf R.fds
  else if R.bytes.length < env.sizeH + env.sizeT then
    res.1 = .done (.err .partialMessage) ∧ res.2.2.closed = w.closed ++ R.closed ++ R.fds
  else if !env.validH (R.bytes.take env.sizeH) || !env.validT ((R.bytes.drop env.sizeH).take env.sizeT) then
    res.1 = .done (.err .invalidMessage) ∧ res.2.2.closed = w.closed ++ R.closed ++ R.fds
  else
    res.1 = .done (.ok { nats := [R.bytes.length - (env.sizeH + env.sizeT)], fds := optOf R.fds,
                          bufs := [R.bytes.take env.sizeH, (R.bytes.drop env.sizeH).take env.sizeT] }) ∧
    res.2.2.closed = w.closed ++ R.closed)

/-- `recv_payload_into_buf` (`buf` = byte-slice slot 0) -/
theorem recv_payload_into_buf_exec {σ : Type} (env : Env σ) (F : Nat) (fr : Frame) (w : World σ)
    (hcl : env.classify ENOBUFS = .retry) (hF : w.stream.length + 1 ≤ F) :
    PayloadIntoBufSpec env w (fr.b 0).length
      (recvAll env.ch 32 env.isClosed (env.sizeH + env.sizeT + (fr.b 0).length) w.cst w.stream true)
      (exec env RecvPayloadIntoBuf.fnBody F fr w) := by
  have hc := call_recvAll env "recv_into_iovec_all" RecvPayloadIntoBuf.iovs RecvPayloadIntoBuf.r_bytes F
    { fr with io := upd fr.io 0 { store := w.mem.length, start := 0, lens := [env.sizeH, env.sizeT, (fr.b 0).length] } }
    { w with mem := w.mem ++ [List.replicate (env.sizeH + env.sizeT + (fr.b 0).length) 0] } hcl hF (by simp) (by simp)
    (by simp; omega)
  simp only [upd_apply, reduceIte, List.sum_cons, List.sum_nil, Nat.add_zero, List.getD_eq_getElem?_getD, List.getElem?_concat_length,
    Option.getD_some, List.set_append_right _ _ (Nat.le_refl _), Nat.sub_self, List.set_cons_zero, ← Nat.add_assoc] at hc
  unfold RecvPayloadIntoBuf.fnBody
  rw [exec_seq, exec_allocIo]
  simp only [evalPieces, evalPiece, evalE, Option.map_some, List.map_cons, List.map_nil, List.length_replicate, List.flatten_cons,
    List.flatten_nil, List.append_nil, List.replicate_append_replicate, ← Nat.add_assoc]
  rw [exec_seq]
  rcases hx : exec env (.call "recv_into_iovec_all" RecvIntoIovecAll.fnBody [] [] [] [(RecvIntoIovecAll.iovs, .var RecvPayloadIntoBuf.iovs)] RecvPayloadIntoBuf.r_bytes) F
      { fr with io := upd fr.io 0 { store := w.mem.length, start := 0, lens := [env.sizeH, env.sizeT, (fr.b 0).length] } }
      { w with mem := w.mem ++ [List.replicate (env.sizeH + env.sizeT + (fr.b 0).length) 0] } with ⟨c, fr2, w2⟩
  rw [hx] at hc
  obtain ⟨t1, t2, t3, t4, t5, t6, t7⟩ := hc
  simp only at t1 t2 t3 t4 t6 t7
  generalize recvAll env.ch 32 env.isClosed (env.sizeH + env.sizeT + (fr.b 0).length) w.cst w.stream true = R at *
  unfold PayloadIntoBufSpec
  have hz := writeAt_zeros (env.sizeH + env.sizeT + (fr.b 0).length) R.bytes t5
  by_cases hb : R.outcome = .blocked
  · obtain ⟨u1, u2, u3⟩ := t6 hb
    subst u1
    simp only [hb, if_true]
    exact ⟨t1, t2, by rw [t4, hz], trivial, t3, u3⟩
  · obtain ⟨u1, u2⟩ := t7 hb
    subst u1 u2
    simp only [hb, if_false]
    by_cases h1 : R.bytes.length < env.sizeH + env.sizeT
    · simp [exec_matchResult, evalB, evalE, evalErr, h1, t1, t2, t3, t4, hz, optOf_getD, List.append_assoc]
    · have h1' : env.sizeH + env.sizeT ≤ R.bytes.length := by omega
      have hp0 : List.take env.sizeH (R.bytes ++ List.replicate (env.sizeH + env.sizeT + (fr.b 0).length - R.bytes.length) 0)
          = List.take env.sizeH R.bytes := List.take_append_of_le_length (by omega)
      have hp1 : List.take env.sizeT (List.drop env.sizeH (R.bytes ++ List.replicate (env.sizeH + env.sizeT + (fr.b 0).length - R.bytes.length) 0))
          = List.take env.sizeT (List.drop env.sizeH R.bytes) := by
        rw [List.drop_append_of_le_length (by omega), List.take_append_of_le_length (by simp; omega)]
      by_cases hv : env.validH (R.bytes.take env.sizeH) <;> by_cases hv2 : env.validT ((R.bytes.drop env.sizeH).take env.sizeT) <;>
        simp [exec_matchResult, evalB, evalE, evalErr, evalEs, evalF, evalBuf, IoVal.pieceBytes, h1, h1', hv, hv2, t1, t2, t3, t4, hz, hp0, hp1,
          optOf_getD, List.append_assoc]
end Lemmas.ConnFrameRecv
