import VhostModel.Lemmas.RoundtripBody
import VhostModel.Lemmas.RoundtripConfig
/-!
# C03, per operation: the reply bytes in terms of the caller's arguments, and what `finish` makes of them

* `actOut_*` — the closed form `Lemmas.Roundtrip.actOut` evaluated on the request body the frontend builds (the fields
  the server echoes — ring index, inflight geometry, configuration window — are the caller's arguments);
* `fin_*` — `Model.Frontend.finish` on the reply: the value returned is `expectedValue`, the state `feAfter`.
-/
namespace Lemmas.Roundtrip
open Base Model.Stream Model.Msgs Model.Frontend Lemmas.Encode
open Model.BackendSrv (Err Hdr bitSet BSt HOut Out Res replyHdr ackOf bodyValid)

theorem pow8 : (256 : Nat) ^ 8 = 2 ^ 64 := by decide
theorem pow4 : (256 : Nat) ^ 4 = 2 ^ 32 := by decide

theorem leVal8 (v : Nat) : leVal (leBytes 8 v) = v % 2^64 := by rw [leVal_leBytes_mod, pow8]
theorem leVal4 (v : Nat) : leVal (leBytes 4 v) = v % 2^32 := by rw [leVal_leBytes_mod, pow4]
theorem leBytes8_mod (v : Nat) : leBytes 8 (v % 2^64) = leBytes 8 v := by rw [← pow8, leBytes_mod]
theorem leBytes4_mod (v : Nat) : leBytes 4 (v % 2^32) = leBytes 4 v := by rw [← pow4, leBytes_mod]

theorem bvU64 (bs : Bytes) (h : bs.length = 8) : bodyValidTy "VhostUserU64" bs = some true := by
  rw [bodyValidTy_of _ _ (by decide) (by decide)]; exact Lemmas.Reach.bodyValid_U64 bs h

theorem bvVringState (bs : Bytes) (h : bs.length = 8) : bodyValidTy "VhostUserVringState" bs = some true := by
  rw [bodyValidTy_of _ _ (by decide) (by decide)]; exact Lemmas.Reach.bodyValid_VringState bs h

/-! ## server side -/

section
variable (bst : BSt) (hdr : Hdr) (h : HOut)

theorem actOut_setProtocolFeatures (v : Nat) (hv : v < 2^64) :
    actOut bst hdr (u64 v) h .setProtocolFeatures = ackOf ({ bst with ackedProto := v }).updateFlag hdr h.ok := by
  have f := dec_U64 [] v hv
  simp only [List.append_nil] at f
  simp only [actOut, srv_g _ _ _ _ f]

theorem actOut_getVringBase (i : Nat) (hi : i < 2^32) :
    actOut bst hdr (u32 i ++ u32 0) h .getVringBase =
      if h.ok then replyHdr hdr 8 ++ (leBytes 4 i ++ leBytes 4 h.v) else [] := by
  obtain ⟨f1, _⟩ := dec_VringState [] i 0 hi (by omega)
  simp only [List.append_nil] at f1
  simp only [actOut, srv_g _ _ _ _ f1, List.append_assoc]

theorem actOut_getInflight (ms mo nq qs : Nat) (h1 : ms < 2^64) (h2 : mo < 2^64) (h3 : nq < 2^16) (h4 : qs < 2^16) :
    actOut bst hdr (u64 ms ++ u64 mo ++ u16 nq ++ u16 qs ++ [0, 0, 0, 0]) h .getInflight =
      if h.ok then replyHdr hdr 24 ++ (u64 (h.v % 2^64) ++ u64 mo ++ u16 nq ++ u16 qs ++ [0, 0, 0, 0]) else [] := by
  obtain ⟨_, f2, f3, f4⟩ := dec_Inflight [0, 0, 0, 0] ms mo nq qs h1 h2 h3 h4
  simp only [actOut, srv_g _ _ _ _ f2, srv_g _ _ _ _ f3, srv_g _ _ _ _ f4]
  simp only [List.append_assoc, u64, u16, leBytes8_mod]

theorem actOut_getConfig (off size fl : Nat) (pl : Bytes) (ho : off < 2^32) (hs : size < 2^32) (hf : fl < 2^32) :
    actOut bst hdr (u32 off ++ u32 size ++ u32 fl ++ pl) h .getConfig =
      if h.ok && h.b.length == size then replyHdr hdr (12 + size) ++ leBytes 4 off ++ leBytes 4 size ++ leBytes 4 fl ++ h.b
      else replyHdr hdr 12 ++ leBytes 4 off ++ leBytes 4 0 ++ leBytes 4 fl := by
  obtain ⟨f1, f2, f3⟩ := dec_Config pl off size fl ho hs hf
  simp only [actOut, srv_g _ _ _ _ f1, srv_g _ _ _ _ f2, srv_g _ _ _ _ f3]

theorem actOut_getShmem :
    actOut bst hdr [] h .getShmem =
      if h.ok then replyHdr hdr 2056 ++ (leBytes 4 h.v ++ leBytes 4 0 ++ (h.b ++ List.replicate 2048 0).take 2048) else [] := by
  simp only [actOut, List.append_assoc]

end

theorem shmem_body_length (v : Nat) (b : Bytes) :
    (leBytes 4 v ++ leBytes 4 0 ++ (b ++ List.replicate 2048 0).take 2048).length = 2056 := by
  rw [List.length_append, List.length_append, leBytes_length, leBytes_length, List.length_take, List.length_append,
    List.length_replicate]; omega

/-- the request's inflight geometry was accepted by the server's validator ⇒ so is the reply's, which echoes it -/
theorem inflight_reply_valid (ms mo nq qs v : Nat) (h1 : ms < 2^64) (h2 : mo < 2^64) (h3 : nq < 2^16) (h4 : qs < 2^16)
    (hv : v < 2^64)
    (hreq : bodyValid "VhostUserInflight" (u64 ms ++ u64 mo ++ u16 nq ++ u16 qs ++ [0, 0, 0, 0]) = some true) :
    bodyValidTy "VhostUserInflight" (u64 v ++ u64 mo ++ u16 nq ++ u16 qs ++ [0, 0, 0, 0]) = some true := by
  obtain ⟨_, _, f3, f4⟩ := dec_Inflight [0, 0, 0, 0] ms mo nq qs h1 h2 h3 h4
  obtain ⟨_, _, g3, g4⟩ := dec_Inflight [0, 0, 0, 0] v mo nq qs hv h2 h3 h4
  rw [Lemmas.Owed.bodyValid_inflight _ (by simp [u64, u16]), srv_g _ _ _ _ f3, srv_g _ _ _ _ f4] at hreq
  rw [bodyValidTy_of _ _ (by decide) (by decide), Lemmas.Owed.bodyValid_inflight _ (by simp [u64, u16]),
    srv_g _ _ _ _ g3, srv_g _ _ _ _ g4]
  exact hreq

/-! ## frontend side: `finish` -/

section
variable (s : FSt) (a : List Nat) (pl : Bytes) (fds : List Fd) (bad : Bool) (regs : List (Nat × Nat × Nat × Nat × Bool))
  (h : HOut) (file : Fd) (hd : Hdr)

theorem fin_get_features :
    finish s ⟨"get_features", a, pl, fds, bad, regs⟩ ⟨hd, leBytes 8 h.v, [], none⟩ =
      (expectedValue ⟨"get_features", a, pl, fds, bad, regs⟩ h file, feAfter s ⟨"get_features", a, pl, fds, bad, regs⟩ h) := by
  show (Ret.val (leVal (leBytes 8 h.v)), ({ s with virtio := leVal (leBytes 8 h.v) } : FSt)) = _
  rw [leVal8]; rfl

theorem fin_get_protocol_features :
    finish s ⟨"get_protocol_features", a, pl, fds, bad, regs⟩ ⟨hd, leBytes 8 (h.v ||| 8), [], none⟩ =
      (expectedValue ⟨"get_protocol_features", a, pl, fds, bad, regs⟩ h file,
       feAfter s ⟨"get_protocol_features", a, pl, fds, bad, regs⟩ h) := by
  show (Ret.val (leVal (leBytes 8 (h.v ||| 8)) &&& (2^22 - 1)), ({ s with proto := leVal (leBytes 8 (h.v ||| 8)) } : FSt)) = _
  rw [leVal8]; rfl

theorem fin_get_max_mem_slots :
    finish s ⟨"get_max_mem_slots", a, pl, fds, bad, regs⟩ ⟨hd, leBytes 8 h.v, [], none⟩ =
      (expectedValue ⟨"get_max_mem_slots", a, pl, fds, bad, regs⟩ h file,
       feAfter s ⟨"get_max_mem_slots", a, pl, fds, bad, regs⟩ h) := by
  show (Ret.val (leVal (leBytes 8 h.v)), s) = _
  rw [leVal8]; rfl

theorem fin_get_queue_num_ok (hu : usable ⟨"get_queue_num", a, pl, fds, bad, regs⟩ h = true) :
    finish s ⟨"get_queue_num", a, pl, fds, bad, regs⟩ ⟨hd, leBytes 8 h.v, [], none⟩ =
      (expectedValue ⟨"get_queue_num", a, pl, fds, bad, regs⟩ h file, feAfter s ⟨"get_queue_num", a, pl, fds, bad, regs⟩ h) := by
  have hu' : (h.ok && decide (h.v % 2^64 ≤ 0x8000)) = true := hu
  simp only [Bool.and_eq_true, decide_eq_true_eq] at hu'
  show (if leVal (leBytes 8 h.v) > 0x8000 then (Ret.err Err.invalidMsg, s)
    else (Ret.val (leVal (leBytes 8 h.v)), ({ s with maxQ := leVal (leBytes 8 h.v) } : FSt))) = _
  rw [leVal8, if_neg (by omega)]; rfl

theorem fin_get_queue_num_err (hok : h.ok = true) (hu : usable ⟨"get_queue_num", a, pl, fds, bad, regs⟩ h = false) :
    finish s ⟨"get_queue_num", a, pl, fds, bad, regs⟩ ⟨hd, leBytes 8 h.v, [], none⟩ = (.err .invalidMsg, s) := by
  have hu' : (h.ok && decide (h.v % 2^64 ≤ 0x8000)) = false := hu
  simp only [hok, Bool.true_and, decide_eq_false_iff_not] at hu'
  show (if leVal (leBytes 8 h.v) > 0x8000 then (Ret.err Err.invalidMsg, s)
    else (Ret.val (leVal (leBytes 8 h.v)), ({ s with maxQ := leVal (leBytes 8 h.v) } : FSt))) = _
  rw [leVal8, if_pos (by omega)]

theorem fin_get_vring_base (i : Nat) (hi : i < 2^32) :
    finish s ⟨"get_vring_base", a, pl, fds, bad, regs⟩ ⟨hd, leBytes 4 i ++ leBytes 4 h.v, [], none⟩ =
      (expectedValue ⟨"get_vring_base", a, pl, fds, bad, regs⟩ h file, feAfter s ⟨"get_vring_base", a, pl, fds, bad, regs⟩ h) := by
  obtain ⟨_, f2⟩ := dec_VringState [] i (h.v % 2^32) hi (Nat.mod_lt _ (by decide))
  simp only [List.append_nil, u32, leBytes4_mod] at f2
  show (Ret.val (g (leBytes 4 i ++ leBytes 4 h.v) "VhostUserVringState" ["num"]), s) = _
  rw [fe_g _ _ _ _ f2]; rfl

theorem fin_check_device_state (v : Nat) (hv : v < 2^64) :
    finish s ⟨"check_device_state", a, pl, fds, bad, regs⟩ ⟨hd, leBytes 8 v, [], none⟩ =
      (if v != 0 then (.err .backendInternal, s) else (.unit, s)) := by
  show (if leVal (leBytes 8 v) != 0 then (Ret.err Err.backendInternal, s) else (Ret.unit, s)) = _
  rw [leVal_leBytes 8 v (by omega)]

theorem fin_get_inflight (x mo nq qs : Nat) (h2 : mo < 2^64) (h3 : nq < 2^16) (h4 : qs < 2^16) :
    finish s ⟨"get_inflight_fd", [x, mo, nq, qs], pl, fds, bad, regs⟩
        ⟨hd, u64 (h.v % 2^64) ++ u64 mo ++ u16 nq ++ u16 qs ++ [0, 0, 0, 0], [], some [file]⟩ =
      (expectedValue ⟨"get_inflight_fd", [x, mo, nq, qs], pl, fds, bad, regs⟩ h file,
       feAfter s ⟨"get_inflight_fd", [x, mo, nq, qs], pl, fds, bad, regs⟩ h) := by
  obtain ⟨f1, f2, f3, f4⟩ := dec_Inflight [0, 0, 0, 0] (h.v % 2^64) mo nq qs (Nat.mod_lt _ (by decide)) h2 h3 h4
  show (Ret.inflight (g _ "VhostUserInflight" ["mmap_size"]) (g _ "VhostUserInflight" ["mmap_offset"])
    (g _ "VhostUserInflight" ["num_queues"]) (g _ "VhostUserInflight" ["queue_size"]) file, s) = _
  rw [fe_g _ _ _ _ f1, fe_g _ _ _ _ f2, fe_g _ _ _ _ f3, fe_g _ _ _ _ f4]; rfl

theorem fin_device_state (v : Nat) (hv : v < 2^64) (files : Option (List Fd)) :
    finish s ⟨"set_device_state_fd", a, pl, fds, bad, regs⟩ ⟨hd, leBytes 8 v, [], files⟩ =
      (if v == 0x100 && files.isNone then (.noFile, s)
       else if v == 0 && files.isSome then
         (match takeSingle files with | some f => .file f | none => .err .incorrectFds, s)
       else (.err .backendInternal, s)) := by
  show (if leVal (leBytes 8 v) == 0x100 && files.isNone then (Ret.noFile, s)
       else if leVal (leBytes 8 v) == 0 && files.isSome then
         (match takeSingle files with | some f => Ret.file f | none => Ret.err Err.incorrectFds, s)
       else (Ret.err Err.backendInternal, s)) = _
  rw [leVal_leBytes 8 v (by omega)]

theorem sizes_length (b : Bytes) : ((b ++ List.replicate 2048 0).take 2048).length = 2048 := by
  rw [List.length_take, List.length_append, List.length_replicate]; omega

theorem fin_shmem :
    finish s ⟨"get_shmem_config", a, pl, fds, bad, regs⟩
        ⟨hd, leBytes 4 h.v ++ leBytes 4 0 ++ (h.b ++ List.replicate 2048 0).take 2048, [], none⟩ =
      (expectedValue ⟨"get_shmem_config", a, pl, fds, bad, regs⟩ h file,
       feAfter s ⟨"get_shmem_config", a, pl, fds, bad, regs⟩ h) := by
  have f1 := getField_enc (s := "VhostUserShMemConfig") (p := ["nregions"]) (off := 0) (w := 4) (by decide) []
    (leBytes 4 0 ++ (h.b ++ List.replicate 2048 0).take 2048) (h.v % 2^32) rfl (Nat.mod_lt _ (by decide))
  simp only [List.nil_append, leBytes4_mod, ← List.append_assoc] at f1
  have e : ((leBytes 4 h.v ++ leBytes 4 0 ++ (h.b ++ List.replicate 2048 0).take 2048).drop 8).take 2048 =
      (h.b ++ List.replicate 2048 0).take 2048 := by
    rw [drop_append_len _ _ 8 (by simp), List.take_of_length_le (by rw [sizes_length]; omega)]
  show (Ret.shmem (g _ "VhostUserShMemConfig" ["nregions"]) (((leBytes 4 h.v ++ leBytes 4 0 ++
    (h.b ++ List.replicate 2048 0).take 2048).drop 8).take 2048), s) = _
  rw [fe_g _ _ _ _ f1, e]; rfl

end

/-- **SET_DEVICE_STATE_FD**: status 0 with the handler's file, status 0x100 for "no file", anything else is a failure -/
theorem turn_device_state {σ : Type} (ch : Chooser σ) (cl : Bool) (s' : FSt) (a : List Nat) (pl : Bytes) (fds : List Fd)
    (bad : Bool) (regs : List (Nat × Nat × Nat × Nat × Bool)) (req : Req) (h : HOut) (d : Out) (cst : σ) (file : Fd)
    (hk : req.kind = .bodyOptFiles "VhostUserU64")
    (hout : d.out = replyHdr (reqHdr s' req) 8 ++ leBytes 8 (if !h.ok then 0x101 else if h.file then 0 else 0x100))
    (hfds : d.outFds = if !h.ok then 0 else if h.file then 1 else 0) (hq : ReqOk (reqHdr s' req)) :
    TurnSpec ch cl s' ⟨"set_device_state_fd", a, pl, fds, bad, regs⟩ req h d cst file := by
  cases hok : h.ok with
  | false =>
    have e1 : (if !h.ok then 0x101 else if h.file then 0 else 0x100) = 0x101 := by simp [hok]
    have e2 : (if !h.ok then 0 else if h.file then 1 else 0) = 0 := by simp [hok]
    rw [e1] at hout; rw [e2] at hfds
    refine turn_bodyOptFiles ch cl _ _ _ h d cst file "VhostUserU64" 8 (leBytes 8 0x101) 0 hk (by decide) (by omega) hout hfds
      (by omega) (by simp) (bvU64 _ (by simp)) ?_ ?_ hq
    · intro hu; have : h.ok = true := hu; rw [hok] at this; cases this
    · intro _; rw [fin_device_state _ _ _ _ _ _ _ 0x101 (by omega)]; exact ⟨_, rfl⟩
  | true =>
    cases hfile : h.file with
    | true =>
      have e1 : (if !h.ok then 0x101 else if h.file then 0 else 0x100) = 0 := by simp [hok, hfile]
      have e2 : (if !h.ok then 0 else if h.file then 1 else 0) = 1 := by simp [hok, hfile]
      rw [e1] at hout; rw [e2] at hfds
      refine turn_bodyOptFiles ch cl _ _ _ h d cst file "VhostUserU64" 8 (leBytes 8 0) 1 hk (by decide) (by omega) hout hfds
        (by omega) (by simp) (bvU64 _ (by simp)) ?_ ?_ hq
      · intro _
        have ev : expectedValue ⟨"set_device_state_fd", a, pl, fds, bad, regs⟩ h file = .file file := by
          show (if h.file = true then Ret.file file else Ret.noFile) = Ret.file file
          simp [hfile]
        rw [fin_device_state _ _ _ _ _ _ _ 0 (by omega), ev]; rfl
      · intro hu; have : h.ok = false := hu; rw [hok] at this; cases this
    | false =>
      have e1 : (if !h.ok then 0x101 else if h.file then 0 else 0x100) = 0x100 := by simp [hok, hfile]
      have e2 : (if !h.ok then 0 else if h.file then 1 else 0) = 0 := by simp [hok, hfile]
      rw [e1] at hout; rw [e2] at hfds
      refine turn_bodyOptFiles ch cl _ _ _ h d cst file "VhostUserU64" 8 (leBytes 8 0x100) 0 hk (by decide) (by omega) hout hfds
        (by omega) (by simp) (bvU64 _ (by simp)) ?_ ?_ hq
      · intro _
        have ev : expectedValue ⟨"set_device_state_fd", a, pl, fds, bad, regs⟩ h file = .noFile := by
          show (if h.file = true then Ret.file file else Ret.noFile) = Ret.noFile
          simp [hfile]
        rw [fin_device_state _ _ _ _ _ _ _ 0x100 (by omega), ev]; rfl
      · intro hu; have : h.ok = false := hu; rw [hok] at this; cases this

end Lemmas.Roundtrip
