import VhostModel.Lemmas.ProxyBase
import VhostModel.Lemmas.HelpersBase
/-!
# The acknowledgement path of `Model.FrontendSrv` is the generated `frontend_req_handler.rs` programs

Inputs of the generated programs: `Model.ProxyTable.feIn` (header fields, `size = buf.len()` = length of the received
body, the two state fields) and `ackEnv` (… plus the handler result as `send_ack_message` sees it, `resOf`).

* `cms_cond`: the condition of `check_msg_size` is the negation of the model's `checkSize` (the model's version test
  `flags % 4 == 1` is the source's `get_version() != 1`);
* `ack_cond_matches`, `ack_hdr_matches`, `ack_value_matches`, `ack_steps_pass`, `sendAck_table`: `send_ack_message`.
-/
namespace Lemmas.Proxy
open Base ProxySig HelperSig Model.ProxyTable Model.Msgs
open Model.BackendSrv (Err Hdr encHdr hdrNewFlags bitSet)
open Model.FrontendSrv
open Gen.ProxyOps.FeSrv
open Lemmas.Helpers (and_two_pow_bne_zero and3_eq_mod)

theorem cms_cond (h : Hdr) (size expected : Nat) :
    ((((h.size != expected) || ((h.flags &&& 4) != 0)) || ((h.flags &&& 3) != 1)) || (size != expected)) =
      !checkSize h size expected := by
  have hb := and_two_pow_bne_zero h.flags 2
  simp only [Nat.reducePow] at hb
  simp only [checkSize, Hdr.isReply, bitSet, hb, and3_eq_mod]
  by_cases h1 : h.size = expected <;> by_cases h2 : size = expected <;> cases h3 : h.flags.testBit 2 <;>
    by_cases h4 : h.flags % 4 = 1 <;> simp [h1, h2, h4, bne]

theorem ack_cond_matches (st : FSt) (h : Hdr) (o : Model.FrontendSrv.Outcome) :
    send_ack_message.sendCond (ackEnv st h o) = (st.replyAck && h.needReply) := by
  have hb := and_two_pow_bne_zero h.flags 3
  simp only [Nat.reducePow] at hb
  simp [send_ack_message.sendCond, ackEnv, feIn, Hdr.needReply, bitSet, hb]

theorem ack_hdr_matches (st : FSt) (h : Hdr) (o : Model.FrontendSrv.Outcome) :
    send_ack_message.sendHdr.map (fun f => f (ackEnv st h o)) = [h.code, hdrNewFlags 4, 8] := by
  simp [send_ack_message.sendHdr, ackEnv, feIn, hdrNewFlags]

theorem ack_value_matches (st : FSt) (h : Hdr) (o : Model.FrontendSrv.Outcome) (hr : OutRange o) :
    send_ack_message.sendFields.map (fun f => f (ackEnv st h o)) = [ackVal o % 2^64] := by
  rcases o with (n | e | _) | _
  · have : n % 2^64 = n := Nat.mod_eq_of_lt hr
    simp [send_ack_message.sendFields, ackEnv, resOf, ackVal, this]
  · have he : e < 2^31 := hr
    simp only [send_ack_message.sendFields, ackEnv, resOf, ackVal, List.map_cons, List.map_nil, List.cons.injEq, and_true,
      Nat.reducePow, Int.ofNat_eq_natCast]
    omega
  · simp [send_ack_message.sendFields, ackEnv, resOf, ackVal]
  · simp [send_ack_message.sendFields, ackEnv, resOf, ackVal]

theorem ack_steps_pass (st : FSt) (h : Hdr) (o : Model.FrontendSrv.Outcome) (hr : OutRange o) (he : st.error = none)
    (hc : Base.codeOk Gen.Codes.BackendReq.table h.code = true) :
    HelperSig.run send_ack_message.bufLen send_ack_message.sendSteps (ackEnv st h o) = .pass := by
  rcases o with (n | e | _) | _ <;>
    simp [send_ack_message.sendSteps, HelperSig.run, ackEnv, feIn, resOf, he, hc]

theorem sendAck_table (st : FSt) (h : Hdr) (o : Model.FrontendSrv.Outcome) (hr : OutRange o) :
    sendAck st h o =
      (if send_ack_message.sendCond (ackEnv st h o) then
        (send_ack_message.sendHdr.map (fun f => f (ackEnv st h o))).flatMap (leBytes 4) ++
          (send_ack_message.sendFields.map (fun f => f (ackEnv st h o))).flatMap (leBytes 8)
       else []) := by
  rw [ack_cond_matches, ack_hdr_matches, ack_value_matches st h o hr]
  simp [sendAck, ackBytes, encHdr, leBytes8_mod]

end Lemmas.Proxy
