import VhostModel.Model.Worker
import VhostModel.Lemmas.Worker
/-!
# Step-level facts of `Model.Worker` for the liveness half of C12 (`Props/C12Live.lean`)

Frame lemmas (what a step of each kind leaves alone), what each step appends to the history, the ranking function of
the worker's program counter, retention of a pending kick (`fix-c12-lost-kick`), survival of the worker
(`fix-c12-stale-eagain`), and the state of the ring when the reply of an activating message is sent.
-/
namespace Lemmas.WorkerLive
open Model.Worker Spec.KickDelivery Lemmas.Worker

/-! ## frame lemmas -/

/-- a worker step changes only the worker's program counter, the counters, the history and ghost state -/
theorem w_frame {s s' : St} (h : step s .w = some s') :
    s'.cfg = s.cfg ∧ s'.ready = s.ready ∧ s'.enabled = s.enabled ∧ s'.kick = s.kick ∧ s'.reg = s.reg ∧
    s'.next = s.next ∧ s'.cpc = s.cpc := by
  simp only [step, wStep] at h
  cases hw : s.wpc <;> simp only [hw] at h
  · simp only [Option.some.injEq] at h; subst h; split <;> simp
  · simp only [Option.some.injEq] at h; subst h; split <;> simp
  · (repeat' split at h) <;> simp only [Option.some.injEq] at h <;> subst h <;> simp [emit]
  · simp only [Option.some.injEq] at h; subst h; simp [emit]
  · cases h

/-- a guest kick changes only one counter and the history -/
theorem kick_frame {s s' : St} {d : Evt} (h : step s (.kick d) = some s') :
    s'.cfg = s.cfg ∧ s'.ready = s.ready ∧ s'.enabled = s.enabled ∧ s'.kick = s.kick ∧ s'.reg = s.reg ∧
    s'.next = s.next ∧ s'.cpc = s.cpc ∧ s'.wpc = s.wpc ∧ (∀ e, s.cnt e ≤ s'.cnt e) ∧ 0 < s'.cnt d ∧
    s'.trace = s.trace ++ [.kick d] := by
  simp only [step, Option.some.injEq] at h
  subst h
  refine ⟨rfl, rfl, rfl, rfl, rfl, rfl, rfl, rfl, ?_, ?_, rfl⟩
  · intro e
    by_cases he : e = d
    · subst he; simp [emit, upd]
    · simp [emit, upd, he]
  · simp [emit, upd]

/-- the arrival of a message changes only the control thread's program counter and the history -/
theorem send_frame {s s' : St} {m : CMsg} (h : step s (.send m) = some s') :
    s.cpc = .idle ∧ s'.cfg = s.cfg ∧ s'.ready = s.ready ∧ s'.enabled = s.enabled ∧ s'.kick = s.kick ∧ s'.reg = s.reg ∧
    s'.next = s.next ∧ s'.cpc = .inMsg m 0 ∧ s'.wpc = s.wpc ∧ s'.cnt = s.cnt ∧ s'.trace = s.trace ++ [.start m] := by
  simp only [step] at h
  cases hc : s.cpc with
  | inMsg m' k => simp [hc] at h
  | idle =>
    simp only [hc, Option.some.injEq] at h
    subst h
    exact ⟨rfl, rfl, rfl, rfl, rfl, rfl, rfl, rfl, rfl, rfl, rfl⟩

/-- a control segment leaves the worker's program counter, the counters and the configuration alone -/
theorem c_frame {s s' : St} (h : step s .c = some s') :
    s'.cfg = s.cfg ∧ s'.wpc = s.wpc ∧ s'.cnt = s.cnt := by
  simp only [step, cStep] at h
  cases hc : s.cpc with
  | idle => simp [hc] at h
  | inMsg m k =>
    simp only [hc] at h
    split at h <;> cases h <;> simp [noteDisable, noteStop, reply, emit]

/-- every step other than the worker's leaves the worker's program counter alone and lowers no counter -/
theorem other_frame {s s' : St} {l : Lbl} (h : step s l = some s') (hl : l ≠ .w) :
    s'.wpc = s.wpc ∧ ∀ e, s.cnt e ≤ s'.cnt e := by
  cases l with
  | w => exact absurd rfl hl
  | kick d => have := kick_frame h; exact ⟨this.2.2.2.2.2.2.2.1, this.2.2.2.2.2.2.2.2.1⟩
  | send m => have := send_frame h; exact ⟨this.2.2.2.2.2.2.2.2.1, fun e => by rw [this.2.2.2.2.2.2.2.2.2.1]; exact Nat.le_refl _⟩
  | c => have := c_frame h; exact ⟨this.2.1, fun e => by rw [this.2.2]; exact Nat.le_refl _⟩

theorem step_cfg {s s' : St} {l : Lbl} (h : step s l = some s') : s'.cfg = s.cfg := (step_trace h).1

/-- the worker's step is enabled iff the worker thread has not ended -/
theorem w_enabled_iff (s : St) : (step s .w).isSome = true ↔ s.wpc ≠ .dead := by
  simp only [step, wStep]
  cases hw : s.wpc <;> simp
  (repeat' split) <;> simp

/-! ## what a step appends to the history -/

theorem append_singleton_ne_self {α : Type} (l : List α) (e : α) : l ≠ l ++ [e] := by
  intro h
  have := congrArg List.length h
  simp at this

/-- a handler entry is recorded exactly by the worker's step from `worker.dispatch` -/
theorem emits_dispatch_iff {s s' : St} {l : Lbl} (h : step s l = some s') :
    s'.trace = s.trace ++ [.dispatch] ↔ l = .w ∧ s.wpc = .toDispatch := by
  constructor
  · intro ht
    cases l with
    | kick d => have := (kick_frame h).2.2.2.2.2.2.2.2.2.2; rw [this] at ht; simp at ht
    | send m => have := (send_frame h).2.2.2.2.2.2.2.2.2.2; rw [this] at ht; simp at ht
    | c =>
      exfalso
      simp only [step, cStep] at h
      cases hc : s.cpc with
      | idle => simp [hc] at h
      | inMsg m k =>
        simp only [hc] at h
        split at h <;> cases h <;> simp [noteDisable, noteStop, reply, emit] at ht <;>
          exact append_singleton_ne_self _ _ ht.symm
    | w =>
      refine ⟨rfl, ?_⟩
      simp only [step, wStep] at h
      cases hw : s.wpc <;> simp only [hw] at h
      · exfalso; simp only [Option.some.injEq] at h; subst h
        split at ht <;> exact append_singleton_ne_self _ _ ht
      · exfalso; simp only [Option.some.injEq] at h; subst h
        split at ht <;> exact append_singleton_ne_self _ _ ht
      · exfalso
        (repeat' split at h) <;> simp only [Option.some.injEq] at h <;> subst h <;>
          first
            | exact append_singleton_ne_self _ _ ht
            | (simp [emit] at ht)
      · rfl
      · cases h
  · rintro ⟨rfl, hw⟩
    simp only [step, wStep, hw, Option.some.injEq] at h
    subst h
    simp [emit]

/-- a granted read of the kick counter is recorded exactly by the worker's step from `worker.pre_read` that finds the
ring enabled and a positive counter on the current descriptor; the worker is then at `worker.dispatch` -/
theorem emits_consumed_imp {s s' : St} {l : Lbl} (h : step s l = some s') (ht : s'.trace = s.trace ++ [.consumed true]) :
    l = .w ∧ s.wpc = .checked ∧ s.enabled = true ∧ s'.wpc = .toDispatch := by
  cases l with
  | kick d => have := (kick_frame h).2.2.2.2.2.2.2.2.2.2; rw [this] at ht; simp at ht
  | send m => have := (send_frame h).2.2.2.2.2.2.2.2.2.2; rw [this] at ht; simp at ht
  | c =>
    exfalso
    simp only [step, cStep] at h
    cases hc : s.cpc with
    | idle => simp [hc] at h
    | inMsg m k =>
      simp only [hc] at h
      split at h <;> cases h <;> simp [noteDisable, noteStop, reply, emit] at ht <;>
        exact append_singleton_ne_self _ _ ht.symm
  | w =>
    refine ⟨rfl, ?_⟩
    simp only [step, wStep] at h
    cases hw : s.wpc <;> simp only [hw] at h
    · exfalso; simp only [Option.some.injEq] at h; subst h
      split at ht <;> exact append_singleton_ne_self _ _ ht
    · exfalso; simp only [Option.some.injEq] at h; subst h
      split at ht <;> exact append_singleton_ne_self _ _ ht
    · (repeat' split at h) <;> simp only [Option.some.injEq] at h <;> subst h <;>
        first
          | exact absurd ht (append_singleton_ne_self _ _)
          | (exfalso; simp [emit] at ht; done)
          | (simp_all [emit])
    · exfalso; simp only [Option.some.injEq] at h; subst h; simp [emit] at ht
    · cases h

/-! ## the ranking function -/

/-- number of worker segments until the counter is read, counted from the worker's hold point (`worker.dispatch`
counts as the farthest: the pending handler call comes first, then a full round) -/
def rank : WPc → Nat
  | .toDispatch => 4
  | .wait => 3
  | .woken => 2
  | .checked => 1
  | .dead => 0

/-- "started and enabled, with descriptor `d` the current kick descriptor and registered" -/
def Active (d : Evt) (s : St) : Prop := s.ready = true ∧ s.enabled = true ∧ s.kick = some d ∧ s.reg d = true

theorem readyAny_of {s : St} {d : Evt} (hr : s.reg d = true) (hc : 0 < s.cnt d) (hd : d < s.next) : readyAny s = true := by
  unfold readyAny
  exact List.any_eq_true.2 ⟨d, List.mem_range.2 hd, by simp [hr, hc]⟩

/-- **progress**: on an active ring with a pending kick every worker step either reads the counter (and is granted) or
strictly lowers the rank, leaving the counters alone — in every configuration -/
theorem w_progress {s s' : St} {d : Evt} (hn : d < s.next) (ha : Active d s) (hc : 0 < s.cnt d)
    (h : step s .w = some s') :
    s'.trace = s.trace ++ [.consumed true] ∨ (rank s'.wpc < rank s.wpc ∧ s'.cnt = s.cnt ∧ s'.wpc ≠ .dead) := by
  obtain ⟨hrd, hen, hk, hreg⟩ := ha
  have hra := readyAny_of hreg hc hn
  simp only [step, wStep] at h
  cases hw : s.wpc <;> simp only [hw] at h
  · simp only [hra, if_true, Option.some.injEq] at h; subst h; right; simp [rank]
  · simp only [hrd, Bool.not_true, Bool.and_false, Bool.false_eq_true, if_false, Option.some.injEq] at h
    subst h; right; simp [rank]
  · have : s.cnt d ≠ 0 := by omega
    simp only [hen, Bool.not_true, Bool.and_false, Bool.false_eq_true, if_false, hk, this, if_true,
      Option.some.injEq] at h
    subst h; left; simp [emit]
  · simp only [Option.some.injEq] at h; subst h; right; simp [rank, emit]
  · cases h

/-- the rank reaches its minimum only after the read: a live worker that has not read yet has positive rank -/
theorem rank_pos {w : WPc} (h : w ≠ .dead) : 0 < rank w := by
  cases w <;> simp [rank] at *

/-! ## retention (`fix-c12-lost-kick`) -/

/-- with `fix-c12-lost-kick` a positive counter stays positive across every step unless that step is a granted read -/
theorem retained_step {s s' : St} {l : Lbl} {d : Evt} (hL : s.cfg.fixLost = true) (hc : 0 < s.cnt d)
    (h : step s l = some s') : 0 < s'.cnt d ∨ s'.trace = s.trace ++ [.consumed true] := by
  by_cases hl : l = .w
  · subst hl
    simp only [step, wStep] at h
    cases hw : s.wpc <;> simp only [hw] at h
    · simp only [Option.some.injEq] at h; subst h; left; split <;> exact hc
    · simp only [Option.some.injEq] at h; subst h; left; split <;> exact hc
    · cases hen : s.enabled with
      | false => simp only [hL, hen, Bool.not_false, Bool.and_self, if_true, Option.some.injEq] at h; subst h; left; exact hc
      | true =>
        simp only [hen, Bool.not_true, Bool.and_false, Bool.false_eq_true, if_false, if_true] at h
        (repeat' split at h) <;> simp only [Option.some.injEq] at h <;> subst h <;>
          first
            | (left; exact hc)
            | (right; simp [emit])
            | (left; simpa [emit] using hc)
    · simp only [Option.some.injEq] at h; subst h; left; simpa [emit] using hc
    · cases h
  · left; exact Nat.lt_of_lt_of_le hc ((other_frame h hl).2 d)

/-! ## the worker survives (`fix-c12-stale-eagain`) -/

theorem alive_step {s s' : St} {l : Lbl} (hE : s.cfg.fixEagain = true) (ha : s.wpc ≠ .dead) (h : step s l = some s') :
    s'.wpc ≠ .dead := by
  by_cases hl : l = .w
  · subst hl
    simp only [step, wStep] at h
    cases hw : s.wpc <;> simp only [hw] at h
    · simp only [Option.some.injEq] at h; subst h; split <;> simp [hw]
    · simp only [Option.some.injEq] at h; subst h; split <;> simp
    · (repeat' split at h) <;> simp only [Option.some.injEq] at h <;> subst h <;> simp_all [emit]
    · simp only [Option.some.injEq] at h; subst h; simp [emit]
    · exact absurd hw ha
  · rw [(other_frame h hl).1]; exact ha

/-- a worker at `worker.dispatch` enters the handler with its next step, in every configuration -/
theorem dispatch_step {s s' : St} (hw : s.wpc = .toDispatch) (h : step s .w = some s') :
    s'.trace = s.trace ++ [.dispatch] := (emits_dispatch_iff h).2 ⟨rfl, hw⟩

/-! ## stability of `Active` -/

theorem active_w {s s' : St} {d : Evt} (ha : Active d s) (h : step s .w = some s') : Active d s' := by
  obtain ⟨_, h2, h3, h4, h5, _, _⟩ := w_frame h
  unfold Active at *; rw [h2, h3, h4, h5]; exact ha

theorem active_kick {s s' : St} {d e : Evt} (ha : Active d s) (h : step s (.kick e) = some s') : Active d s' := by
  obtain ⟨_, h2, h3, h4, h5, _⟩ := kick_frame h
  unfold Active at *; rw [h2, h3, h4, h5]; exact ha

/-! ## the ring when the reply of SET_VRING_ENABLE(1) / of a restarting SET_VRING_KICK is sent -/

/-- what the control thread has established inside an activating message -/
structure InvE (s : St) : Prop where
  e1 : ∀ k, s.cpc = .inMsg .enable (k + 1) → s.enabled = true
  e2 : s.cpc = .inMsg .enable 2 → s.ready = true → ∀ d, s.kick = some d → s.reg d = true
  r0 : ∀ k, s.cpc = .inMsg .restart (k + 1) → ∃ d, s.kick = some d
  r1 : s.cpc = .inMsg .restart 2 ∨ s.cpc = .inMsg .restart 3 → s.ready = true
  r2 : s.cpc = .inMsg .restart 3 → s.enabled = true → ∀ d, s.kick = some d → s.reg d = true

theorem invE_init (cfg : Cfg) : InvE (init cfg) := by
  refine ⟨?_, ?_, ?_, ?_, ?_⟩ <;> simp [init]

theorem InvE.of_eq {s t : St} (h : InvE s) (e1 : t.cpc = s.cpc) (e2 : t.ready = s.ready) (e3 : t.enabled = s.enabled)
    (e4 : t.kick = s.kick) (e5 : t.reg = s.reg) : InvE t := by
  obtain ⟨a, b, c0, c, d⟩ := h
  refine ⟨?_, ?_, ?_, ?_, ?_⟩
  · rw [e1, e3]; exact a
  · rw [e1, e2, e4, e5]; exact b
  · rw [e1, e4]; exact c0
  · rw [e1, e2]; exact c
  · rw [e1, e3, e4, e5]; exact d

theorem epollUpdate_reg_kick (s : St) (d : Evt) (hk : s.kick = some d) :
    (epollUpdate s).reg d = (s.ready && s.enabled) := by
  rw [epollUpdate_reg, hk]; simp

theorem invE_step {s s' : St} {l : Lbl} (hi : InvE s) (h : step s l = some s') : InvE s' := by
  cases l with
  | w => obtain ⟨_, h2, h3, h4, h5, _, h7⟩ := w_frame h; exact hi.of_eq h7 h2 h3 h4 h5
  | kick d => obtain ⟨_, h2, h3, h4, h5, _, h7, _⟩ := kick_frame h; exact hi.of_eq h7 h2 h3 h4 h5
  | send m =>
    obtain ⟨_, _, _, _, _, _, _, h8, _⟩ := send_frame h
    refine ⟨?_, ?_, ?_, ?_, ?_⟩ <;> simp [h8]
  | c =>
    obtain ⟨a, b, c0, c, d⟩ := hi
    simp only [step, cStep] at h
    cases hc : s.cpc with
    | idle => simp [hc] at h
    | inMsg m k =>
      simp only [hc] at h
      split at h <;> cases h <;>
        (refine ⟨?_, ?_, ?_, ?_, ?_⟩ <;>
          simp_all [noteDisable, noteStop, reply, emit, epollUpdate_reg_kick] <;>
          (try (cases hr : s.ready <;> simp_all)))

/-- When the reply of SET_VRING_ENABLE(1) is sent the ring is enabled, and if it is started (ready, with a kick
descriptor) that descriptor is registered: the ring is active. -/
theorem active_after_enable_reply {s s' : St} (hi : InvE s) (h : step s .c = some s')
    (ht : s'.trace = s.trace ++ [.reply .enable]) :
    s'.cpc = .idle ∧ s'.enabled = true ∧ (s'.ready = true → ∀ d, s'.kick = some d → Active d s') := by
  obtain ⟨a, b, c0, c, d⟩ := hi
  simp only [step, cStep] at h
  cases hc : s.cpc with
  | idle => simp [hc] at h
  | inMsg m k =>
    simp only [hc] at h
    split at h <;> cases h <;> simp [noteDisable, noteStop, reply, emit] at ht <;>
      first
        | exact absurd ht.symm (append_singleton_ne_self _ _)
        | (refine ⟨rfl, ?_, ?_⟩
           · simpa [reply, emit] using a 1 hc
           · intro hr d' hk
             have hen : s.enabled = true := a 1 hc
             exact ⟨hr, by simpa [reply, emit] using hen, hk, by simpa [reply, emit] using b hc hr d' hk⟩)

/-- When the reply of a SET_VRING_KICK that carries a descriptor is sent the ring is started on a descriptor, and if it
is enabled that descriptor is registered: the ring is active. -/
theorem active_after_restart_reply {s s' : St} (hi : InvE s) (h : step s .c = some s')
    (ht : s'.trace = s.trace ++ [.reply .restart]) :
    s'.cpc = .idle ∧ s'.ready = true ∧ ∃ d, s'.kick = some d ∧ (s'.enabled = true → Active d s') := by
  obtain ⟨a, b, c0, c, d⟩ := hi
  simp only [step, cStep] at h
  cases hc : s.cpc with
  | idle => simp [hc] at h
  | inMsg m k =>
    simp only [hc] at h
    split at h <;> cases h <;> simp [noteDisable, noteStop, reply, emit] at ht <;>
      first
        | exact absurd ht.symm (append_singleton_ne_self _ _)
        | (have hr := c (Or.inr hc)
           obtain ⟨d', hk⟩ := c0 2 hc
           refine ⟨rfl, by simpa [reply, emit] using hr, d', by simpa [reply, emit] using hk, ?_⟩
           intro hen
           have hen' : s.enabled = true := by simpa [reply, emit] using hen
           exact ⟨hr, hen', hk, by simpa [reply, emit] using d hc hen' d' hk⟩)

/-! ## counters -/

/-- no step other than a guest kick on `e` raises the counter of `e` -/
theorem cnt_noninc {s s' : St} {l : Lbl} (e : Evt) (h : step s l = some s') (hl : ∀ d, l = .kick d → d ≠ e) :
    s'.cnt e ≤ s.cnt e := by
  cases l with
  | kick d =>
    have hd := hl d rfl
    simp only [step, Option.some.injEq] at h
    subst h
    have : e ≠ d := fun h => hd h.symm
    simp [emit, upd, this]
  | send m => rw [(send_frame h).2.2.2.2.2.2.2.2.2.1]; exact Nat.le_refl _
  | c => rw [(c_frame h).2.2]; exact Nat.le_refl _
  | w =>
    simp only [step, wStep] at h
    cases hw : s.wpc <;> simp only [hw] at h
    · simp only [Option.some.injEq] at h; subst h; split <;> exact Nat.le_refl _
    · simp only [Option.some.injEq] at h; subst h; split <;> exact Nat.le_refl _
    · (repeat' split at h) <;> simp only [Option.some.injEq] at h <;> subst h <;>
        first
          | exact Nat.le_refl _
          | (simp only [emit, upd]; split <;> omega)
    · simp only [Option.some.injEq] at h; subst h; exact Nat.le_refl _
    · cases h

theorem readyAny_false_of_zero {s : St} (h : ∀ d, s.cnt d = 0) : readyAny s = false := by
  unfold readyAny
  rw [List.any_eq_false]
  intro d _
  simp [h d]

/-- all counters are zero and the worker waits: nothing is pending anywhere -/
def Drained (s : St) : Prop := (∀ d, s.cnt d = 0) ∧ s.wpc = .wait

/-- from a drained state no step other than a guest kick leads to a handler entry: the state stays drained -/
theorem drained_step {s s' : St} {l : Lbl} (hd : Drained s) (hl : ∀ d, l ≠ .kick d) (h : step s l = some s') :
    Drained s' ∧ (Ev.dispatch ∈ s'.trace → Ev.dispatch ∈ s.trace) := by
  have hc : ∀ d, s'.cnt d = 0 := by
    intro d
    have := cnt_noninc d h (fun d' hd' => absurd hd' (hl d'))
    have := hd.1 d
    omega
  by_cases hw : l = .w
  · subst hw
    simp only [step, wStep, hd.2, readyAny_false_of_zero hd.1, Bool.false_eq_true, if_false, Option.some.injEq] at h
    subst h
    exact ⟨hd, id⟩
  · refine ⟨⟨hc, by rw [(other_frame h hw).1]; exact hd.2⟩, ?_⟩
    intro hm
    rcases (step_trace h).2 with ⟨ht, _⟩ | ⟨e, ht, _, _, _, _⟩
    · rw [ht] at hm; exact hm
    · rw [ht, List.mem_append, List.mem_singleton] at hm
      rcases hm with hm | hm
      · exact hm
      · exfalso
        have := (emits_dispatch_iff h).1 (by rw [ht, ← hm])
        exact hw this.1

end Lemmas.WorkerLive
