import VhostModel.Lemmas.HandlerLog
/-!
# `Model.Bitmap`'s handler operations are the interpretation of the handler's rows (C15)

`setLogBase_is_row`, `setMemTable_is_row`, `addMemReg_is_row`, `remMemReg_is_row`: for every handler state and every
request the model's operation is the method's row run by `evsL` — in particular `log_region` is called, and the log
remembered (`logAssign`), exactly where the rows have these events.  `setMemTableOld_is_row`, `addMemRegOld_is_row`: the
operations of the unrepaired tree (F-C15-retain) are the same rows with the calls of `log_region` removed.
-/
namespace Lemmas.HandlerLog
open Base Model.Bitmap Model.HandlerTable

local notation "tLogRegion" => Model.HandlerTable.logRegion

set_option linter.unusedSimpArgs false

theorem row_set_log_base : row "set_log_base" = [
    .bind "mem" "self.atomic_mem.memory()",
    .libTry "MmapLogReg::from_file" "ReqHandlerError",
    .localNew "bitmaps",
    .forEach "mem.iter()" buildBody,
    .forEach "bitmaps" [.bitmapReplace],
    .logAssign, .ok] := rfl

theorem row_set_mem_table : row "set_mem_table" = [
    .localNew "regions", .localNew "mappings",
    .forEach "ctx.iter().zip(files)" tableBody,
    .libTry "GuestMemoryMmap::from_regions" "ReqHandlerError",
    .memReplace,
    .backendTry "update_memory" ["self.atomic_mem.clone()"] "ReqHandlerError",
    .mappingsAssign, .ok] := rfl

theorem row_add_mem_region : row "add_mem_region" = [
    .libTry "mmap_region" "*", .libTry "GuestRegionMmap::new" "ReqHandlerError", tLogRegion,
    .bind "addr_mapping" addrMappingLit,
    .libTry "insert_region" "ReqHandlerError",
    .memReplace,
    .backendTry "update_memory" ["self.atomic_mem.clone()"] "ReqHandlerError",
    .mappingsPush "addr_mapping", .ok] := rfl

theorem row_remove_mem_region : row "remove_mem_region" = [
    .libTry "remove_region" "ReqHandlerError",
    .memReplace,
    .backendTry "update_memory" ["self.atomic_mem.clone()"] "ReqHandlerError",
    .mappingsRetain "mapping.gpa_base != region.guest_phys_addr", .ok] := rfl

/-- **SET_LOG_BASE** (after the mapping of `logLen` bytes succeeded): all bitmaps first, then replace, then `logAssign` -/
theorem setLogBase_is_row (s : HState) (logLen : Nat) (regs : List (Nat × Nat)) (arg : Nat × Nat) :
    setLogBase s logLen = runRow "set_log_base" s logLen regs arg := by
  unfold runRow runEvs startL setLogBase
  rw [row_set_log_base]
  rw [evsL_step (s1 := ⟨s, logLen, regs, arg, s.regions, false, 0, none, none, none, [], [], none, .run⟩) (by simp [evL, actL]) rfl]
  rw [evsL_step (s1 := ⟨s, logLen, regs, arg, s.regions, false, 0, none, none, some (s.nextLog, logLen), [], [], none, .run⟩)
    (by simp [evL, actL, libTryL]) rfl]
  rw [evsL_step (s1 := ⟨s, logLen, regs, arg, s.regions, false, 0, none, none, some (s.nextLog, logLen), [], [], none, .run⟩)
    (by simp [evL, actL]) rfl]
  have h1 := evL_buildLoop ⟨s, logLen, regs, arg, s.regions, false, 0, none, none, some (s.nextLog, logLen), [], [], none, .run⟩
    rfl s.nextLog logLen rfl
  simp only at h1
  cases hb : buildAll logLen s.regions with
  | none =>
    rw [hb] at h1
    rw [evsL_stop false rfl h1.1]
    simp [resultL, h1.1]
  | some bms =>
    rw [hb] at h1
    obtain ⟨c, b, t, h1⟩ := h1
    rw [evsL_step h1 rfl]
    simp only [List.nil_append]
    have h2 := evL_replaceLoop ⟨s, logLen, regs, arg, s.regions, t, 0, c, b, some (s.nextLog, logLen), [], bms, none, .run⟩
      rfl s.nextLog logLen rfl (buildAll_length hb)
    obtain ⟨b', t', i, h2⟩ := h2
    rw [evsL_step h2 rfl]
    simp [evsL, evL, actL, resultL, setBitmap]

/-- **SET_MEM_TABLE** (repaired tree): every entering region goes through `log_region` before the table is replaced -/
theorem setMemTable_is_row (s : HState) (regs : List (Nat × Nat)) (logLen : Nat) (arg : Nat × Nat) :
    setMemTable s regs = runRow "set_mem_table" s logLen regs arg := by
  unfold runRow runEvs startL setMemTable
  rw [row_set_mem_table]
  rw [evsL_step (s1 := ⟨s, logLen, regs, arg, [], false, 0, none, none, none, [], [], none, .run⟩) (by simp [evL, actL]) rfl]
  rw [evsL_step (s1 := ⟨s, logLen, regs, arg, [], false, 0, none, none, none, [], [], none, .run⟩) (by simp [evL, actL]) rfl]
  have h1 := evL_tableLoop ⟨s, logLen, regs, arg, [], false, 0, none, none, none, [], [], none, .run⟩ rfl rfl
  simp only at h1
  cases hm : mapOpt (fun (a, l) => Model.Bitmap.logRegion s a l) regs with
  | none =>
    rw [hm] at h1
    rw [evsL_stop false rfl h1.1]
    simp [resultL, h1.1]
  | some rs =>
    rw [hm] at h1
    obtain ⟨c, b, l, a, h1⟩ := h1
    rw [evsL_step h1 rfl]
    simp only [List.nil_append]
    have hg := mapOpt_geom regs rs hm
    by_cases ht : tableOk regs = true
    · rw [evsL_step (s1 := ⟨s, logLen, regs, a, [], false, 0, c, b, l, rs, [], some rs, .run⟩)
        (by simp [evL, actL, libTryL, hg, ht]) rfl]
      simp [evsL, evL, actL, resultL, ht]
    · rw [evsL_stop false (s1 := fail ⟨s, logLen, regs, a, [], false, 0, c, b, l, rs, [], none, .run⟩)
        (by simp [evL, actL, libTryL, hg, ht]) rfl]
      simp [resultL, fail, ht]

/-- **ADD_MEM_REG** (repaired tree) -/
theorem addMemReg_is_row (s : HState) (start len : Nat) (logLen : Nat) (regs : List (Nat × Nat)) :
    addMemReg s start len = runRow "add_mem_region" s logLen regs (start, len) := by
  unfold runRow runEvs startL addMemReg
  rw [row_add_mem_region]
  rw [evsL_step (s1 := ⟨s, logLen, regs, (start, len), [], false, 0, none, none, none, [], [], none, .run⟩)
    (by simp [evL, actL, libTryL]) rfl]
  rw [evsL_step (s1 := ⟨s, logLen, regs, (start, len), [], false, 0, some ⟨start, len, none⟩, none, none, [], [], none, .run⟩)
    (by simp [evL, actL, libTryL]) rfl]
  have h := evL_logRegion ⟨s, logLen, regs, (start, len), [], false, 0, some ⟨start, len, none⟩, none, none, [], [], none, .run⟩
    rfl ⟨start, len, none⟩ rfl rfl rfl
  simp only at h
  cases hl : Model.Bitmap.logRegion s start len with
  | none =>
    rw [hl] at h
    rw [evsL_stop false rfl h.1]
    simp [resultL, h.1]
  | some r =>
    rw [hl] at h
    obtain ⟨b, l, h⟩ := h
    rw [evsL_step h rfl]
    rw [evsL_step (s1 := ⟨s, logLen, regs, (start, len), [], false, 0, some r, b, l, [], [], none, .run⟩) (by simp [evL, actL]) rfl]
    by_cases ht : tableOk ((insertSorted r s.regions).map fun x => (x.start, x.len)) = true
    · rw [evsL_step (s1 := ⟨s, logLen, regs, (start, len), [], false, 0, some r, b, l, [], [], some (insertSorted r s.regions), .run⟩)
        (by simp [evL, actL, libTryL, geom, ht]) rfl]
      simp [evsL, evL, actL, resultL, ht]
    · rw [evsL_stop false (s1 := fail ⟨s, logLen, regs, (start, len), [], false, 0, some r, b, l, [], [], none, .run⟩)
        (by simp [evL, actL, libTryL, geom, ht]) rfl]
      simp [resultL, fail, ht]

/-- **REM_MEM_REG** -/
theorem remMemReg_is_row (s : HState) (start len : Nat) (logLen : Nat) (regs : List (Nat × Nat)) :
    remMemReg s start len = runRow "remove_mem_region" s logLen regs (start, len) := by
  unfold runRow runEvs startL remMemReg
  rw [row_remove_mem_region]
  by_cases ha : (s.regions.any fun r => r.start == start && r.len == len) = true
  · rw [evsL_step (s1 := ⟨s, logLen, regs, (start, len), [], false, 0, none, none, none, [], [],
        some (s.regions.filter fun r => !(r.start == start && r.len == len)), .run⟩)
      (by simp [evL, actL, libTryL, ha]) rfl]
    simp [evsL, evL, actL, resultL, ha]
  · rw [evsL_stop false (s1 := fail ⟨s, logLen, regs, (start, len), [], false, 0, none, none, none, [], [], none, .run⟩)
      (by simp [evL, actL, libTryL, ha]) rfl]
    simp [resultL, fail, ha]

/-! ## the unrepaired tree: the rows without `log_region` -/

theorem old_set_mem_table : dropLogRegions (row "set_mem_table") = [
    .localNew "regions", .localNew "mappings",
    .forEach "ctx.iter().zip(files)" tableBodyOld,
    .libTry "GuestMemoryMmap::from_regions" "ReqHandlerError",
    .memReplace,
    .backendTry "update_memory" ["self.atomic_mem.clone()"] "ReqHandlerError",
    .mappingsAssign, .ok] := HEvent.beqL_sound _ _ (by decide +kernel)

theorem old_add_mem_region : dropLogRegions (row "add_mem_region") = [
    .libTry "mmap_region" "*", .libTry "GuestRegionMmap::new" "ReqHandlerError",
    .bind "addr_mapping" addrMappingLit,
    .libTry "insert_region" "ReqHandlerError",
    .memReplace,
    .backendTry "update_memory" ["self.atomic_mem.clone()"] "ReqHandlerError",
    .mappingsPush "addr_mapping", .ok] := HEvent.beqL_sound _ _ (by decide +kernel)

theorem geom_plain (regs : List (Nat × Nat)) : geom (regs.map plain) = regs := by
  induction regs with
  | nil => rfl
  | cons p regs ih => simp [geom, plain] at ih ⊢; exact ih

/-- `setMemTableOld` (F-C15-retain): the row of `set_mem_table` with the call of `log_region` removed -/
theorem setMemTableOld_is_row (s : HState) (regs : List (Nat × Nat)) (logLen : Nat) (arg : Nat × Nat) :
    setMemTableOld s regs = runEvs (dropLogRegions (row "set_mem_table")) s logLen regs arg := by
  unfold runEvs startL setMemTableOld
  rw [old_set_mem_table]
  rw [evsL_step (s1 := ⟨s, logLen, regs, arg, [], false, 0, none, none, none, [], [], none, .run⟩) (by simp [evL, actL]) rfl]
  rw [evsL_step (s1 := ⟨s, logLen, regs, arg, [], false, 0, none, none, none, [], [], none, .run⟩) (by simp [evL, actL]) rfl]
  obtain ⟨c, a, h1⟩ := evL_tableLoopOld ⟨s, logLen, regs, arg, [], false, 0, none, none, none, [], [], none, .run⟩ rfl
  rw [evsL_step h1 rfl]
  simp only [List.nil_append]
  by_cases ht : tableOk regs = true
  · rw [evsL_step (s1 := ⟨s, logLen, regs, a, [], false, 0, c, none, none, regs.map plain, [], some (regs.map plain), .run⟩)
      (by simp [evL, actL, libTryL, geom_plain, ht]) rfl]
    simp [evsL, evL, actL, resultL, ht, plain]
  · rw [evsL_stop false (s1 := fail ⟨s, logLen, regs, a, [], false, 0, c, none, none, regs.map plain, [], none, .run⟩)
      (by simp [evL, actL, libTryL, geom_plain, ht]) rfl]
    simp [resultL, fail, ht]

/-- `addMemRegOld` (F-C15-retain): the row of `add_mem_region` with the call of `log_region` removed -/
theorem addMemRegOld_is_row (s : HState) (start len : Nat) (logLen : Nat) (regs : List (Nat × Nat)) :
    addMemRegOld s start len = runEvs (dropLogRegions (row "add_mem_region")) s logLen regs (start, len) := by
  unfold runEvs startL addMemRegOld
  rw [old_add_mem_region]
  rw [evsL_step (s1 := ⟨s, logLen, regs, (start, len), [], false, 0, none, none, none, [], [], none, .run⟩)
    (by simp [evL, actL, libTryL]) rfl]
  rw [evsL_step (s1 := ⟨s, logLen, regs, (start, len), [], false, 0, some ⟨start, len, none⟩, none, none, [], [], none, .run⟩)
    (by simp [evL, actL, libTryL]) rfl]
  rw [evsL_step (s1 := ⟨s, logLen, regs, (start, len), [], false, 0, some ⟨start, len, none⟩, none, none, [], [], none, .run⟩)
    (by simp [evL, actL]) rfl]
  by_cases ht : tableOk ((insertSorted ⟨start, len, none⟩ s.regions).map fun x => (x.start, x.len)) = true
  · rw [evsL_step (s1 := ⟨s, logLen, regs, (start, len), [], false, 0, some ⟨start, len, none⟩, none, none, [], [],
        some (insertSorted ⟨start, len, none⟩ s.regions), .run⟩)
      (by simp [evL, actL, libTryL, geom, ht]) rfl]
    simp [evsL, evL, actL, resultL, ht]
  · rw [evsL_stop false (s1 := fail ⟨s, logLen, regs, (start, len), [], false, 0, some ⟨start, len, none⟩, none, none, [], [], none, .run⟩)
      (by simp [evL, actL, libTryL, geom, ht]) rfl]
    simp [resultL, fail, ht]

/-- which rows call `log_region`, which remember the log -/
def callsHelper (n : String) : HEvent → Bool
  | .act _ => false
  | .helperCall m _ _ _ => m == n
  | .forEachVring b | .forEach _ b => b.any fun e => match e with | .helperCall m _ _ _ => m == n | _ => false
  | .ifCond _ t f | .ifSome _ t f => (t ++ f).any fun e => match e with | .helperCall m _ _ _ => m == n | _ => false

theorem log_events_where :
    (modelHandlerOps.filter fun r => r.2.any (callsHelper "log_region")).map (·.1) = ["set_mem_table", "add_mem_region"] ∧
    (modelHandlerOps.filter fun r => r.2.any (fun e => e == HEvent.logAssign)).map (·.1) = ["set_log_base"] := by
  decide

theorem step_is_rows (s : HState) (op : Op) :
    Model.Bitmap.step s op =
      match op with
      | .setLogBase n => runRow "set_log_base" s n [] (0, 0)
      | .setMemTable regs => runRow "set_mem_table" s 0 regs (0, 0)
      | .addMemReg a l => runRow "add_mem_region" s 0 [] (a, l)
      | .remMemReg a l => runRow "remove_mem_region" s 0 [] (a, l) := by
  cases op with
  | setLogBase n => exact setLogBase_is_row s n [] (0, 0)
  | setMemTable regs => exact setMemTable_is_row s regs 0 (0, 0)
  | addMemReg a l => exact addMemReg_is_row s a l 0 []
  | remMemReg a l => exact remMemReg_is_row s a l 0 []

end Lemmas.HandlerLog
