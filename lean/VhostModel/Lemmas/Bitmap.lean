import VhostModel.Model.Bitmap
import VhostModel.Spec.DirtyLog
/-! helper lemmas for C15: bits of log bytes, effect of `fetch_or` sequences, membership in the mark loop -/
namespace Lemmas.Bitmap
open Model.Bitmap

/-- bit `j` of byte `i` of the log (false outside) -/
def byteBit (log : List UInt8) (i j : Nat) : Bool :=
  match log[i]? with
  | some b => b.toNat.testBit j
  | none => false

theorem bitAt_eq (log : List UInt8) (p : Nat) : Spec.DirtyLog.bitAt log p = byteBit log (p / 8) (p % 8) := rfl

/-- a step hits bit `j` of byte `i` -/
def hits (i j : Nat) (s : Step) : Bool := s.idx == i && s.mask.toNat.testBit j

theorem uint8_testBit_ge (b : UInt8) (j : Nat) (h : 8 ≤ j) : b.toNat.testBit j = false := by
  apply Nat.testBit_lt_two_pow
  exact Nat.lt_of_lt_of_le b.toNat_lt (Nat.pow_le_pow_right (by omega) h)

theorem log_ext (l1 l2 : List UInt8) (hl : l1.length = l2.length)
    (h : ∀ i j, byteBit l1 i j = byteBit l2 i j) : l1 = l2 := by
  apply List.ext_getElem?
  intro i
  by_cases hi : i < l1.length
  · have hi2 : i < l2.length := by omega
    rw [List.getElem?_eq_getElem hi, List.getElem?_eq_getElem hi2]
    congr 1
    apply UInt8.toNat_inj.1
    apply Nat.eq_of_testBit_eq
    intro j
    have := h i j
    simpa [byteBit, List.getElem?_eq_getElem hi, List.getElem?_eq_getElem hi2] using this
  · have hi2 : ¬ i < l2.length := by omega
    simp [List.getElem?_eq_none (Nat.le_of_not_lt hi), List.getElem?_eq_none (Nat.le_of_not_lt hi2)]

theorem fetchOr_spec (log : List UInt8) (s : Step) (h : s.idx < log.length) :
    ∃ log', fetchOr log s = some log' ∧ log'.length = log.length ∧
      ∀ i j, byteBit log' i j = (byteBit log i j || hits i j s) := by
  unfold fetchOr
  rw [List.getElem?_eq_getElem h]
  refine ⟨_, rfl, by simp, ?_⟩
  intro i j
  unfold byteBit hits
  rw [List.getElem?_set]
  by_cases e : s.idx = i
  · subst e
    simp [h, UInt8.toNat_or, Nat.testBit_or]
  · simp [e]

theorem fetchOr_none (log : List UInt8) (s : Step) (h : ¬ s.idx < log.length) : fetchOr log s = none := by
  unfold fetchOr
  rw [List.getElem?_eq_none (Nat.le_of_not_lt h)]

/-- a sequence of in-bounds `fetch_or`s: every bit is the old bit OR "some step hit it"; nothing else changes -/
theorem runSteps_spec (steps : List Step) (log : List UInt8) (h : ∀ s ∈ steps, s.idx < log.length) :
    ∃ log', runSteps log steps = some log' ∧ log'.length = log.length ∧
      ∀ i j, byteBit log' i j = (byteBit log i j || steps.any (hits i j)) := by
  induction steps generalizing log with
  | nil => exact ⟨log, rfl, rfl, by simp⟩
  | cons s rest ih =>
    obtain ⟨l1, h1, hl1, hb1⟩ := fetchOr_spec log s (h s (by simp))
    obtain ⟨l2, h2, hl2, hb2⟩ := ih l1 (by intro t ht; rw [hl1]; exact h t (by simp [ht]))
    refine ⟨l2, by simp [runSteps, h1, h2], by omega, ?_⟩
    intro i j
    rw [hb2, hb1]
    simp [Bool.or_assoc]

theorem bitMask_testBit (k j : Nat) (hk : k < 8) : (bitMask k).toNat.testBit j = decide (k = j) := by
  unfold bitMask
  rw [UInt8.toNat_ofNat']
  have : 2 ^ k < 2 ^ 8 := Nat.pow_lt_pow_right (by omega) hk
  rw [Nat.mod_eq_of_lt this, Nat.testBit_two_pow]

/-- the step that marks absolute page `P` -/
def stepOf (P : Nat) : Step := { idx := pageWord P, mask := bitMask (pageBit P) }

/-- a step for page `P` hits exactly bit `P % 8` of byte `P / 8` -/
theorem hits_stepOf (i j P : Nat) (hj : j < 8) : hits i j (stepOf P) = decide (P = 8 * i + j) := by
  unfold hits stepOf pageWord pageBit logWordSize
  simp only
  rw [bitMask_testBit _ _ (by omega)]
  by_cases h : P = 8 * i + j
  · subst h; simp; omega
  · simp [h]; omega

theorem mem_markLoop (bm : AtomicBitmapMmap) (k page : Nat) (s : Step) :
    s ∈ markLoop bm k page ↔
      ∃ p, page ≤ p ∧ p < page + k ∧ p < bm.numberOfPages ∧ s = stepOf (bm.pagesBeforeRegion + p) := by
  induction k generalizing page with
  | zero =>
    simp only [markLoop, List.not_mem_nil, false_iff]
    rintro ⟨p, h1, h2, _, _⟩; omega
  | succ k ih =>
    unfold markLoop
    by_cases hb : page ≥ bm.numberOfPages
    · simp only [hb, if_true, List.not_mem_nil, false_iff]
      rintro ⟨p, h1, _, h3, _⟩; omega
    · simp only [hb, if_false, List.mem_cons, ih]
      constructor
      · rintro (h | ⟨p, h1, h2, h3, h4⟩)
        · exact ⟨page, by omega, by omega, by omega, h⟩
        · exact ⟨p, by omega, by omega, h3, h4⟩
      · rintro ⟨p, h1, h2, h3, h4⟩
        by_cases e : p = page
        · subst e; left; exact h4
        · right; exact ⟨p, by omega, by omega, h3, h4⟩

end Lemmas.Bitmap
