import VhostModel.Lemmas.Encode
import VhostModel.Lemmas.BackendSrv
/-!
# Server-side helpers for `Props.C02Reach`: when does a guard pass, and what does `dispatch` reduce to
-/
namespace Lemmas.Reach
open Base Model.Stream Model.Msgs Model.BackendSrv Lemmas.Encode

/-- `dispatch` on a request whose arm is `arm` and whose guards all pass is the arm's action -/
theorem dispatch_arm {st : BSt} {hdr : Hdr} {buf : Bytes} {files : Option (List Fd)} {h : HOut} (arm : Arm) (c' : Ctx)
    (ha : arms.find? (·.code == hdr.code) = some arm)
    (hg : runGuards st { hdr := hdr, buf := buf, files := files } arm.guards = .ok c') :
    dispatch st hdr buf files h = runAct st c' h arm.act := by
  simp [dispatch, ha, hg]

theorem checkSize_ok (h : Hdr) (len n : Nat) (hs : h.size = n) (hl : len = n) (hr : h.isReply = false) :
    checkSize h len n = true := by
  simp [checkSize, hs, hl, hr]

theorem guard_proto {st : BSt} {c : Ctx} {b : Nat} (h : bitSet st.ackedProto b = true) :
    runGuard st c (.proto b) = .ok c := by simp [runGuard, h]

theorem guard_virtio {st : BSt} {c : Ctx} {b : Nat} (h : bitSet st.acked b = true) :
    runGuard st c (.virtio b) = .ok c := by simp [runGuard, h]

theorem guard_size_zero {st : BSt} {c : Ctx} (hs : c.hdr.size = 0) (hl : c.buf.length = 0) (hr : c.hdr.isReply = false) :
    runGuard st c (.sizeIs .zero) = .ok c := by simp [runGuard, checkSize_ok c.hdr _ 0 hs hl hr]

theorem guard_size_any {st : BSt} {c : Ctx} (hl : c.buf.length = c.hdr.size) (hr : c.hdr.isReply = false) :
    runGuard st c (.sizeIs .any) = .ok c := by simp [runGuard, checkSize_ok c.hdr _ _ rfl hl hr]

theorem guard_size_of {st : BSt} {c : Ctx} {ty : String} {n : Nat} (hsz : structSize ty = some n) (hs : c.hdr.size = n)
    (hl : c.buf.length = n) (hr : c.hdr.isReply = false) :
    runGuard st c (.sizeIs (.ofT ty)) = .ok c := by simp [runGuard, hsz, checkSize_ok c.hdr _ n hs hl hr]

theorem guard_body {st : BSt} {c : Ctx} {ty : String} {n : Nat} (hsz : structSize ty = some n) (hs : c.hdr.size = n)
    (hl : c.buf.length = n) (hr : c.hdr.isReply = false) (hv : bodyValid ty c.buf = some true) :
    runGuard st c (.body ty) = .ok c := by simp [runGuard, hsz, checkSize_ok c.hdr _ n hs hl hr, hv]

theorem guard_oneFile {st : BSt} {c : Ctx} {e : Err} {f : Fd} (hf : c.files = some [f]) :
    runGuard st c (.oneFile e) = .ok { c with file := some f, files := none } := by
  simp [runGuard, hf, takeSingle]

/-- `handle_vring_fd_request` on a body whose 64-bit value is below 256 (flag clear) with exactly one descriptor -/
theorem guard_vringFd {st : BSt} {c : Ctx} {f : Fd} {v : Nat} (hl : 8 ≤ c.buf.length) (hv : leVal (c.buf.take 8) = v)
    (h8 : v < 256) (hf : c.files = some [f]) :
    runGuard st c .vringFd = .ok { c with file := some f, files := none, index8 := v } := by
  have hb : bitSet v 8 = false := Nat.testBit_lt_two_pow (by omega)
  have hm : v % 256 = v := Nat.mod_eq_of_lt h8
  have : ¬ c.buf.length < 8 := by omega
  simp [runGuard, this, hv, hb, hm, hf, takeSingle]

/-! trivial validators: any body of the right size passes -/

theorem bodyValid_U64 (bs : Bytes) (h : bs.length = 8) : bodyValid "VhostUserU64" bs = some true := by
  have := getField_isSome (s := "VhostUserU64") (p := ["value"]) (off := 0) (w := 8) (by decide) bs (by omega)
  simp [bodyValid, decU64, sz_U64, h, this, Gen.VhostUserU64.isValid]

theorem bodyValid_VringState (bs : Bytes) (h : bs.length = 8) : bodyValid "VhostUserVringState" bs = some true := by
  have h1 := getField_isSome (s := "VhostUserVringState") (p := ["index"]) (off := 0) (w := 4) (by decide) bs (by omega)
  have h2 := getField_isSome (s := "VhostUserVringState") (p := ["num"]) (off := 4) (w := 4) (by decide) bs (by omega)
  simp [bodyValid, decVringState, sz_VringState, h, h1, h2, Gen.VhostUserVringState.isValid]

end Lemmas.Reach
