import VhostModel.Model.RecvBody
import VhostModel.Gen.Consts
/-!
# Model: the backend→frontend proxy (`backend_req.rs`, `Backend` / `BackendInternal`)

Every call of the five `VhostUserFrontendReqHandler` methods of `Backend`:
  feature gate (`shared_object_negotiated` / `shmem_negotiated`; refused locally with an `io::Error` that carries
  no vhost-user error, nothing is written) → `send_message` (`check_state`; header
  `VhostUserMsgHeader::new(code, 0, size_of::<T>())`, then `set_need_reply(true)` iff `reply_ack_negotiated`; header and
  body in one `send_message`, the descriptor as ancillary data) → `wait_for_ack` (`check_state`; nothing is read
  unless `reply_ack_negotiated`; `recv_body::<VhostUserU64>`; `is_reply_for`, no descriptors, body valid ⇒ else
  InvalidMessage; value ≠ 0 ⇒ FrontendInternalError; success returns `Ok(body.value)` = `Ok(0)`).
The argument struct travels as its raw bytes (`ByteValued`): a call carries them as `body`.
-/
namespace Model.BackendProxy
open Base Model.Stream Model.Msgs Model.RecvBody
open Model.BackendSrv (Err Hdr encHdr hdrNewFlags)
open Model.Frontend (Reply RecvRes RecvOut)

/-- `BackendInternal` without the socket -/
structure PSt where
  replyAck : Bool := false       -- `reply_ack_negotiated`   (`set_reply_ack_flag`)
  sharedObject : Bool := false   -- `shared_object_negotiated` (`set_shared_object_flag`)
  shmem : Bool := false          -- `shmem_negotiated`       (`set_shmem_flag`)
  error : Option Nat := none     -- `error`                  (`set_failed`)
  deriving Repr, DecidableEq, Inhabited

inductive Kind where
  | add | remove | lookup | map | unmap
  deriving Repr, DecidableEq, Inhabited

/-- `BackendReq::…` passed to `send_message` -/
def Kind.code : Kind → Nat
  | .add => 6 | .remove => 7 | .lookup => 8 | .map => 9 | .unmap => 10

/-- the message struct of the method's argument -/
def Kind.bodyTy : Kind → String
  | .add | .remove | .lookup => "VhostUserSharedMsg"
  | .map | .unmap => "VhostUserMMap"

/-- the `…_negotiated` flag the method tests first -/
def Kind.gate (st : PSt) : Kind → Bool
  | .add | .remove | .lookup => st.sharedObject
  | .map | .unmap => st.shmem

/-- methods that pass `Some(&[fd.as_raw_fd()])` -/
def Kind.hasFd : Kind → Bool
  | .lookup | .map => true
  | _ => false

structure Call where
  kind : Kind
  body : Bytes          -- raw bytes of the argument struct
  fds : List Fd := []   -- the descriptor the caller lends (`lookup`, `map`)
  deriving Repr, Inhabited

/-- errors of a proxy call: `local` = the `io::Error::other("… not negotiated")` of the feature gate -/
inductive PErr where
  | notNegotiated
  | proto (e : Err)
  deriving Repr, DecidableEq, Inhabited

def PErr.name : PErr → String
  | .notNegotiated => "local"
  | .proto e => e.name

/-- flags of the request header: `new(code, 0, len)` then `set_need_reply(true)` iff REPLY_ACK -/
def reqFlags (st : PSt) : Nat := if st.replyAck then hdrNewFlags 0 ||| 8 else hdrNewFlags 0

structure Req where
  hdr : Hdr
  body : Bytes
  fds : List Fd
  deriving Repr, Inhabited

/-- gate, `check_state`, header construction and the size check of `Endpoint::send_message` -/
def request (st : PSt) (c : Call) : Except PErr Req :=
  if !c.kind.gate st then .error .notNegotiated
  else match st.error with
  | some _ => .error (.proto .sockBroken)
  | none =>
    match structSize c.kind.bodyTy with
    | none => .error (.proto .other)
    | some n =>
      if n > Gen.Consts.MAX_MSG_SIZE then .error (.proto .oversized)
      else if c.body.length != n then .error (.proto .other)
      else .ok ⟨⟨c.kind.code, reqFlags st, n⟩, c.body, if c.kind.hasFd then c.fds else []⟩

/-- bytes put on the wire (one `sendmsg` of header ++ body; descriptors ride on its first byte) -/
def wire (r : Req) : Bytes := encHdr r.hdr.code r.hdr.flags r.hdr.size ++ r.body

/-- `wait_for_ack(hdr)` -/
def waitAck {σ : Type} (ch : Chooser σ) (isClosed : Bool) (st : PSt) (rh : Hdr) (cst : σ) (str : List Cell) : RecvOut σ :=
  match st.error with
  | some _ => ⟨.err .sockBroken, str, cst, []⟩
  | none =>
    if !st.replyAck then ⟨.ok ⟨rh, leBytes 8 0, [], none⟩, str, cst, []⟩
    else
      let o := recvBody ch isClosed hdrValidB 8 u64Ok cst str
      match o.res with
      | .ok r =>
        if !isReplyFor backendCodes r.hdr rh || r.files.isSome || !u64Ok r.body then
          ⟨.err .invalidMsg, o.rest, o.cst, o.closed ++ r.files.getD []⟩
        else if leVal r.body != 0 then ⟨.err .frontendInternal, o.rest, o.cst, o.closed⟩
        else o
      | _ => o

inductive Ret where
  | ok (v : Nat)
  | err (e : PErr)
  | blocked
  deriving Repr, DecidableEq, Inhabited

structure CallOut (σ : Type) where
  ret : Ret
  wire : Bytes          -- bytes written to the socket by this call
  wireFds : List Fd     -- descriptors attached to them
  rest : List Cell      -- what remains of the incoming stream
  cst : σ
  closed : List Fd

/-- second half of a call, after the request was written -/
def callRecv {σ : Type} (ch : Chooser σ) (isClosed : Bool) (st : PSt) (req : Req) (cst : σ) (str : List Cell) : CallOut σ :=
  let o := waitAck ch isClosed st req.hdr cst str
  match o.res with
  | .blocked => ⟨.blocked, wire req, req.fds, o.rest, o.cst, o.closed⟩
  | .err e => ⟨.err (.proto e), wire req, req.fds, o.rest, o.cst, o.closed⟩
  | .ok r => ⟨.ok (leVal r.body), wire req, req.fds, o.rest, o.cst, o.closed⟩

/-- a whole proxy call against the incoming stream `str` -/
def call {σ : Type} (ch : Chooser σ) (isClosed : Bool) (st : PSt) (c : Call) (cst : σ) (str : List Cell) : CallOut σ :=
  match request st c with
  | .error e => ⟨.err e, [], [], str, cst, []⟩
  | .ok req => callRecv ch isClosed st req cst str

end Model.BackendProxy
