import VhostModel.Base.LockSig
import VhostModel.Model.Locks
/-!
# Model.LockTable — the "shape of every public method" table of `Model/Locks.lean`, as data

Hand-written: a transcription of the comment table in the header of `Model/Locks.lean` (one entry per method instead
of one line per group of methods), in the order in which the methods appear in the source files
(`frontend.rs`: inherent impl, `VhostBackend`, `VhostUserFrontend`, `AsRawFd`; `backend_req.rs`: inherent impl,
`VhostUserFrontendReqHandler`; `gpu_backend_req.rs`: inherent impl).  `Props.LockShapes.kinds_match_model` compares it
with what `tools/rs2lean_locks.py` reads off the source on every run (`Gen.LockShapes.rows`).

Columns:
* `kind`       — the "kind" column: `some .reply | .ack | .fire` for a call, `none` for "(not a call)" (no socket I/O);
* `rejectable` — the "/ rejected" of the kind column: a local check can return before anything is sent;
* `lateGuard`  — the "(taken after the local argument checks)" of the guard column: a local check in front of the lock;
* `send`, `reader` — the send helper and the reply reader (`none` = "—").
`branch` distinguishes the two lines of `Frontend::set_log_base`.

Every entry has "guard = 1"; that column is not data here but theorem `Props.LockShapes.one_guard_per_method`.

One entry is **not in the comment table**: `GpuBackend::set_failed` (no I/O, a temporary guard for one assignment,
like `Backend::set_failed`).  It is listed last and marked.
-/
namespace Model.LockTable
open Base.LockSig Model.Locks

structure Entry where
  ep : Endpoint
  method : String
  branch : Nat
  kind : Option Kind
  rejectable : Bool
  lateGuard : Bool
  send : Option String
  reader : Option String
  deriving DecidableEq, Repr

private def hdr := "send_request_header"
private def body := "send_request_with_body"
private def payload := "send_request_with_payload"
private def vringfd := "send_fd_for_vring"
private def ack := "wait_for_ack"
private def rr := "recv_reply"
private def files := "recv_reply_with_files"

/-- call entry -/
private def call (ep : Endpoint) (m : String) (k : Kind) (rej : Bool) (s : String) (r : Option String)
    (late : Bool := false) (branch : Nat := 0) : Entry := ⟨ep, m, branch, some k, rej, late, some s, r⟩
/-- "(not a call)" -/
private def noIO (ep : Endpoint) (m : String) : Entry := ⟨ep, m, 0, none, false, false, none, none⟩

def modelKinds : List Entry := [
  -- Frontend (inherent)
  noIO .frontend "set_hdr_flags",
  -- impl VhostBackend for Frontend
  call .frontend "get_features" .reply false hdr (some rr),
  call .frontend "set_features" .ack false body (some ack),
  call .frontend "set_owner" .ack false hdr (some ack),
  call .frontend "reset_owner" .ack false hdr (some ack),
  call .frontend "set_mem_table" .ack true payload (some ack) (late := true),
  call .frontend "set_log_base" .reply false body (some rr) (branch := 0),   -- LOG_SHMFD ∧ region
  call .frontend "set_log_base" .fire false body none (branch := 1),         -- otherwise (note 1)
  call .frontend "set_log_fd" .ack false hdr (some ack),
  call .frontend "set_vring_num" .ack true body (some ack),
  call .frontend "set_vring_addr" .ack true body (some ack),
  call .frontend "set_vring_base" .ack true body (some ack),
  call .frontend "get_vring_base" .reply true body (some rr),
  call .frontend "set_vring_call" .ack true vringfd (some ack),
  call .frontend "set_vring_kick" .ack true vringfd (some ack),
  call .frontend "set_vring_err" .ack true vringfd (some ack),
  -- impl VhostUserFrontend for Frontend
  call .frontend "get_protocol_features" .reply true hdr (some rr),
  call .frontend "set_protocol_features" .ack true body (some ack),
  call .frontend "get_queue_num" .reply true hdr (some rr),
  call .frontend "reset_device" .ack true hdr (some ack),
  call .frontend "set_vring_enable" .ack true body (some ack),
  call .frontend "get_config" .reply true payload (some "recv_reply_with_payload") (late := true),
  call .frontend "set_config" .ack true payload (some ack) (late := true),
  call .frontend "set_backend_request_fd" .ack true hdr (some ack),
  call .frontend "get_shared_object" .reply true body (some files),
  call .frontend "get_inflight_fd" .reply true body (some files),
  call .frontend "set_inflight_fd" .ack true body (some ack),
  call .frontend "get_max_mem_slots" .reply true hdr (some rr),
  call .frontend "add_mem_region" .ack true body (some ack),
  call .frontend "remove_mem_region" .ack true body (some ack),
  call .frontend "get_shmem_config" .reply true hdr (some rr),
  call .frontend "set_device_state_fd" .reply true body (some "recv_reply_with_optional_files"),
  call .frontend "check_device_state" .reply true hdr (some rr),
  call .frontend "postcopy_advise" .reply true hdr (some files),
  call .frontend "postcopy_listen" .ack true hdr (some ack),
  call .frontend "postcopy_end" .ack true hdr (some ack),
  -- impl AsRawFd for Frontend
  noIO .frontend "as_raw_fd",
  -- Backend (inherent): set_*_flag / set_failed
  noIO .backend "set_reply_ack_flag",
  noIO .backend "set_shared_object_flag",
  noIO .backend "set_shmem_flag",
  noIO .backend "set_failed",
  -- impl VhostUserFrontendReqHandler for Backend: BackendInternal::send_message sends, then calls wait_for_ack
  call .backend "shared_object_add" .ack true "send_message" (some ack),
  call .backend "shared_object_remove" .ack true "send_message" (some ack),
  call .backend "shared_object_lookup" .ack true "send_message" (some ack),
  call .backend "shmem_map" .ack true "send_message" (some ack),
  call .backend "shmem_unmap" .ack true "send_message" (some ack),
  -- GpuBackend (inherent)
  call .gpu "get_protocol_features" .reply false "send_header" (some rr),
  call .gpu "set_protocol_features" .fire false "send_message" none,
  call .gpu "get_display_info" .reply false "send_header" (some rr),
  call .gpu "get_edid" .reply false "send_message" (some rr),
  call .gpu "set_scanout" .fire false "send_message" none,
  call .gpu "update_scanout" .fire false "send_message_with_payload" none,
  call .gpu "set_dmabuf_scanout" .fire false "send_message" none,
  call .gpu "set_dmabuf_scanout2" .fire false "send_message" none,
  call .gpu "update_dmabuf_scanout" .reply false "send_message" (some rr),
  call .gpu "cursor_pos" .fire false "send_message" none,
  call .gpu "cursor_pos_hide" .fire false "send_message" none,
  call .gpu "cursor_update" .fire false "send_message_with_payload" none,
  -- NOT IN THE COMMENT TABLE of Model/Locks.lean (found by the translator):
  noIO .gpu "set_failed"
]

/-- number of I/O methods per endpoint claimed by the comment ("all 51 I/O methods (34 + 5 + 12)") -/
def claimedIOMethods : Endpoint → Nat
  | .frontend => 34
  | .backend => 5
  | .gpu => 12

end Model.LockTable
