import VhostModel.Model.MemTable
import VhostModel.Gen.Flags
/-!
# Model: ring configuration, feature negotiation and ring operations of `vhost-user-backend` (property C14)

Transcribes

* `virtio-queue` 0.17.0 `src/queue.rs` (read from the registry source): `Queue::new` (max size must be a power of two
  `≤ 32768`, size starts at max, addresses at 0), `set_size` → `try_set_size` (ignored unless `0 < size ≤ max_size` and a
  power of two), `try_set_desc_table_address` / `_avail_ring_` / `_used_ring_` (alignment 16 / 2 / 4, address unchanged on
  error), `set_next_avail`, `set_next_used`, `set_event_idx`, `set_ready`, `used_idx` (atomic `u16` load at
  `used_ring + 2`), `add_used` (bounds check on the head index, element at `used_ring + 4 + 8·(next_used % size)`,
  `next_used += 1`, release store of the new index at `used_ring + 2`);
* `vhost-user-backend/src/vring.rs` `VringState`: `set_queue_info` (the three `try_set_*` in order, `?` after each — a
  misaligned later address leaves the earlier ones installed), `queue_used_idx`, `add_used`, `signal_used_queue`
  (`call.notify()` if a call descriptor is installed, nothing otherwise), `set_kick/call/err`, every operation taking the
  guest memory from `self.mem.memory()`, i.e. the table that is current *when the operation runs*;
* `vhost-user-backend/src/handler.rs`: `set_vring_num`, `set_vring_addr`, `set_vring_base`, `get_vring_base`,
  `set_vring_kick/call/err`, `set_vring_enable`, `set_features`, `set_protocol_features`, `set_backend_req_fd`, with the
  memory operations of `Model.MemTable`;
* `vhost/src/vhost_user/backend_req_handler.rs::handle_vring_fd_request`: the ring index of the kick/call/err messages is
  `msg.value as u8`.

Assumed of vm-memory (exercised by family `vq`): an atomic `u16` access needs both bytes in one region and a host
address that is 2-aligned (the mapping itself is page aligned, so this is `(addr - region.start) % 2 = 0`);
`write_obj` copies byte by byte across adjacent regions and stops with an error at the first address outside every
region (bytes before it stay written).

Kick registration with epoll (C11/C12/C17), the vring `err` descriptor and the dirty log are not part of this model.
-/
namespace Model.Vring
open Model.MemTable (Region AddrMapping Files)

/-! ### guest memory as the rings see it -/

structure GuestMem where
  regions : List Region
  files : Files

/-- one byte -/
def GuestMem.byte (m : GuestMem) (a : Nat) : Option UInt8 := MemTable.readByte m.regions m.files a

/-- `GuestMemory::load::<u16>` / the region part of `store::<u16>`: the region containing `a` must hold both bytes, and the
host address must be 2-aligned; returns the file cell of the first byte -/
def GuestMem.u16Cell (m : GuestMem) (a : Nat) : Option (Nat × Nat) :=
  match MemTable.findRegion m.regions a with
  | none => none
  | some r => if a + 2 ≤ r.gpa + r.size ∧ (a - r.gpa) % 2 = 0 then some (r.fid, r.off + (a - r.gpa)) else none

def GuestMem.loadU16 (m : GuestMem) (a : Nat) : Option Nat :=
  (m.u16Cell a).map fun (f, o) => (m.files f o).toNat + 256 * (m.files f (o + 1)).toNat

def GuestMem.storeU16 (m : GuestMem) (a v : Nat) : Option GuestMem :=
  (m.u16Cell a).map fun (f, o) =>
    { m with files := (m.files.set f o (UInt8.ofNat (v % 256))).set f (o + 1) (UInt8.ofNat (v / 256 % 256)) }

/-- `write_obj` / `write_slice`: byte by byte, `none` at the first address outside every region (what was written before
stays written: the second component is the memory in either case) -/
def GuestMem.writeBytes (m : GuestMem) : Nat → List UInt8 → Bool × GuestMem
  | _, [] => (true, m)
  | a, b :: bs =>
    match MemTable.writeByte m.regions m.files a b with
    | none => (false, m)
    | some fs => GuestMem.writeBytes { m with files := fs } (a + 1) bs

/-! ### `virtio_queue::Queue` -/

structure Queue where
  maxSize : Nat
  size : Nat
  ready : Bool
  nextAvail : Nat
  nextUsed : Nat
  eventIdx : Bool
  numAdded : Nat
  descTable : Nat
  availRing : Nat
  usedRing : Nat
  deriving DecidableEq, Repr

/-- `size & (size - 1) == 0` for `size ≠ 0` -/
def isPow2 (n : Nat) : Bool := n != 0 && (n &&& (n - 1)) == 0

/-- `Queue::new(max_size)` -/
def Queue.new (maxSize : Nat) : Option Queue :=
  if maxSize == 0 || decide (maxSize > 32768) || (maxSize &&& (maxSize - 1)) != 0 then none
  else some ⟨maxSize, maxSize, false, 0, 0, false, 0, 0, 0, 0⟩

/-- `try_set_size` -/
def Queue.trySetSize (q : Queue) (size : Nat) : Option Queue :=
  if decide (size > q.maxSize) || size == 0 || (size &&& (size - 1)) != 0 then none else some { q with size := size }

/-- `QueueT::set_size`: an invalid size is logged and ignored -/
def Queue.setSize (q : Queue) (size : Nat) : Queue :=
  match q.trySetSize size with
  | some q' => q'
  | none => q

def Queue.trySetDesc (q : Queue) (a : Nat) : Option Queue := if a % 16 != 0 then none else some { q with descTable := a }
def Queue.trySetAvail (q : Queue) (a : Nat) : Option Queue := if a % 2 != 0 then none else some { q with availRing := a }
def Queue.trySetUsed (q : Queue) (a : Nat) : Option Queue := if a % 4 != 0 then none else some { q with usedRing := a }

/-- `VringState::set_queue_info`: `(queue afterwards, Ok?)` -/
def Queue.setQueueInfo (q : Queue) (desc avail used : Nat) : Queue × Bool :=
  match q.trySetDesc desc with
  | none => (q, false)
  | some q1 =>
    match q1.trySetAvail avail with
    | none => (q1, false)
    | some q2 =>
      match q2.trySetUsed used with
      | none => (q2, false)
      | some q3 => (q3, true)

/-- `Queue::used_idx`: `used_ring.checked_add(2)` then an atomic load -/
def Queue.usedIdx (q : Queue) (m : GuestMem) : Option Nat :=
  if q.usedRing + 2 < 2^64 then m.loadU16 (q.usedRing + 2) else none

def le32 (v : Nat) : List UInt8 :=
  [UInt8.ofNat (v % 256), UInt8.ofNat (v / 256 % 256), UInt8.ofNat (v / 65536 % 256), UInt8.ofNat (v / 16777216 % 256)]

/-- `Queue::add_used(mem, head_index, len)`: `(queue, memory, Ok?)` -/
def Queue.addUsed (q : Queue) (m : GuestMem) (head len : Nat) : Queue × GuestMem × Bool :=
  if head ≥ q.size then (q, m, false) else
  let slot := q.usedRing + (4 + (q.nextUsed % q.size) * 8)
  if ¬ slot < 2^64 then (q, m, false) else
  match m.writeBytes slot (le32 head ++ le32 len) with
  | (false, m1) => (q, m1, false)
  | (true, m1) =>
    let q1 := { q with nextUsed := (q.nextUsed + 1) % 65536, numAdded := (q.numAdded + 1) % 65536 }
    if ¬ q.usedRing + 2 < 2^64 then (q1, m1, false) else
    match m1.storeU16 (q.usedRing + 2) q1.nextUsed with
    | none => (q1, m1, false)
    | some m2 => (q1, m2, true)

/-! ### `VringState` and the handler -/

structure Vring where
  queue : Queue
  kick : Option Nat
  call : Option Nat
  err : Option Nat
  enabled : Bool
  deriving DecidableEq, Repr

/-- what the backend is told (callback log of `VhostUserBackend`) -/
inductive BackendCall where
  | setEventIdx (b : Bool)
  | ackedFeatures (f : BitVec 64)
  | updateMemory (t : List Region)
  | setBackendReqFd (replyAck sharedObject shmem : Bool)
  deriving DecidableEq, Repr

structure Daemon where
  vrings : List Vring
  /-- `backend.max_queue_size()` (a `usize`) -/
  maxQueueSize : Nat
  /-- `backend.features()` -/
  offered : BitVec 64
  ackedFeatures : BitVec 64
  featuresAcked : Bool
  ackedProto : BitVec 64
  /-- `atomic_mem` and `mappings` -/
  mem : MemTable.St
  /-- contents of the files behind the regions -/
  files : Files
  /-- eventfd counters (descriptor token ↦ value), only the ones a scenario looks at -/
  counters : Nat → Nat
  log : List BackendCall

/-- `VhostUserHandler::new`: one vring per queue, `Queue::new(max_queue_size as u16)` -/
def Daemon.new (numQueues maxQueueSize : Nat) (offered : BitVec 64) : Option Daemon :=
  (Queue.new (maxQueueSize % 65536)).map fun q =>
    { vrings := List.replicate numQueues ⟨q, none, none, none, false⟩, maxQueueSize := maxQueueSize, offered := offered,
      ackedFeatures := 0, featuresAcked := false, ackedProto := 0, mem := MemTable.St.init,
      files := fun _ _ => 0, counters := fun _ => 0, log := [] }

def Daemon.guestMem (d : Daemon) : GuestMem := ⟨d.mem.regions, d.files⟩

inductive Err where
  | invalidParam | reqHandler | backendInternal | inactiveFeature
  deriving DecidableEq, Repr

inductive Reply where
  | unit
  | vringState (index num : Nat)
  deriving DecidableEq, Repr

deriving instance DecidableEq for Except

/-- the requests of the front-end channel that concern this property, and the ring operations a backend issues from its
event handler -/
inductive Msg where
  | setVringNum (index num : BitVec 32)
  | setVringAddr (index : BitVec 32) (desc used avail : BitVec 64)
  | setVringBase (index num : BitVec 32)
  | getVringBase (index : BitVec 32)
  /-- SET_VRING_KICK/CALL/ERR carry the *payload* (`u64`): the server passes `payload as u8` as the index -/
  | setVringKick (payload : BitVec 64) (fd : Option Nat)
  | setVringCall (payload : BitVec 64) (fd : Option Nat)
  | setVringErr (payload : BitVec 64) (fd : Option Nat)
  | setVringEnable (index : BitVec 32) (enable : Bool)
  | setFeatures (f : BitVec 64)
  | setProtocolFeatures (f : BitVec 64)
  | setBackendReqFd
  | mem (op : Spec.MemTable.Op)
  | addUsed (ring head len : Nat)
  | signalUsed (ring : Nat)
  deriving DecidableEq, Repr

def modifyAt (l : List Vring) (i : Nat) (f : Vring → Vring) : List Vring := l.modify i f

def Daemon.setRing (d : Daemon) (i : Nat) (f : Vring → Vring) : Daemon := { d with vrings := d.vrings.modify i f }

/-- `handle_vring_fd_request`: `msg.value as u8` -/
def fdIndex (payload : BitVec 64) : Nat := (payload.setWidth 8).toNat

/-- `vring_needs_init` + `initialize_vring`: a ring that is not ready and has a kick descriptor becomes ready -/
def initIfNeeded (v : Vring) : Vring :=
  if !v.queue.ready && v.kick.isSome then { v with queue := { v.queue with ready := true } } else v

def protoBit (d : Daemon) (mask : Nat) : Bool := (d.ackedProto &&& BitVec.ofNat 64 mask) != 0

def eventIdxBit : Nat := 29
def protocolFeaturesBit : BitVec 64 := BitVec.ofNat 64 Gen.Flags.VhostUserVirtioFeatures.PROTOCOL_FEATURES

/-- one request; `Except`-style result next to the new state (a failing request may have changed the state: the model
returns exactly what the code leaves behind) -/
def step (d : Daemon) : Msg → Daemon × Except Err Reply
  | .setVringNum index num =>
    match d.vrings[index.toNat]? with
    | none => (d, .error .invalidParam)
    | some _ =>
      if num.toNat == 0 || decide (num.toNat > d.maxQueueSize) then (d, .error .invalidParam)
      else (d.setRing index.toNat fun v => { v with queue := v.queue.setSize (num.toNat % 65536) }, .ok .unit)
  | .setVringAddr index desc used avail =>
    match d.vrings[index.toNat]? with
    | none => (d, .error .invalidParam)
    | some v =>
      if d.mem.mappings.isEmpty then (d, .error .invalidParam) else
      match MemTable.translate d.mem.mappings desc.toNat with
      | none => (d, .error .reqHandler)
      | some dt =>
        match MemTable.translate d.mem.mappings avail.toNat with
        | none => (d, .error .reqHandler)
        | some ar =>
          match MemTable.translate d.mem.mappings used.toNat with
          | none => (d, .error .reqHandler)
          | some ur =>
            match v.queue.setQueueInfo dt ar ur with
            | (q1, false) => (d.setRing index.toNat fun v => { v with queue := q1 }, .error .invalidParam)
            | (q1, true) =>
              match q1.usedIdx d.guestMem with
              | none => (d.setRing index.toNat fun v => { v with queue := q1 }, .error .backendInternal)
              | some idx => (d.setRing index.toNat fun v => { v with queue := { q1 with nextUsed := idx } }, .ok .unit)
  | .setVringBase index base =>
    match d.vrings[index.toNat]? with
    | none => (d, .error .invalidParam)
    | some _ => (d.setRing index.toNat fun v => { v with queue := { v.queue with nextAvail := base.toNat % 65536 } }, .ok .unit)
  | .getVringBase index =>
    match d.vrings[index.toNat]? with
    | none => (d, .error .invalidParam)
    | some v =>
      (d.setRing index.toNat fun v => { v with queue := { v.queue with ready := false }, kick := none, call := none },
        .ok (.vringState index.toNat v.queue.nextAvail))
  | .setVringKick payload fd =>
    match d.vrings[fdIndex payload]? with
    | none => (d, .error .invalidParam)
    | some _ => (d.setRing (fdIndex payload) fun v => initIfNeeded { v with kick := fd }, .ok .unit)
  | .setVringCall payload fd =>
    match d.vrings[fdIndex payload]? with
    | none => (d, .error .invalidParam)
    | some _ => (d.setRing (fdIndex payload) fun v => initIfNeeded { v with call := fd }, .ok .unit)
  | .setVringErr payload fd =>
    match d.vrings[fdIndex payload]? with
    | none => (d, .error .invalidParam)
    | some _ => (d.setRing (fdIndex payload) fun v => { v with err := fd }, .ok .unit)
  | .setVringEnable index enable =>
    if d.ackedFeatures &&& protocolFeaturesBit == 0 then (d, .error .inactiveFeature) else
    match d.vrings[index.toNat]? with
    | none => (d, .error .invalidParam)
    | some _ => (d.setRing index.toNat fun v => { v with enabled := enable }, .ok .unit)
  | .setFeatures f =>
    if f &&& ~~~d.offered != 0 then (d, .error .invalidParam) else
    let ev := f.getLsbD eventIdxBit
    let enableAll := f &&& protocolFeaturesBit == 0
    ({ d with ackedFeatures := f, featuresAcked := true,
              vrings := d.vrings.map fun v =>
                { v with enabled := if enableAll then true else v.enabled, queue := { v.queue with eventIdx := ev } },
              log := d.log ++ [.setEventIdx ev, .ackedFeatures f] }, .ok .unit)
  | .setProtocolFeatures f => ({ d with ackedProto := f }, .ok .unit)
  | .setBackendReqFd =>
    ({ d with log := d.log ++ [.setBackendReqFd (protoBit d Gen.Flags.VhostUserProtocolFeatures.REPLY_ACK)
                                  (protoBit d Gen.Flags.VhostUserProtocolFeatures.SHARED_OBJECT)
                                  (protoBit d Gen.Flags.VhostUserProtocolFeatures.SHMEM)] }, .ok .unit)
  | .mem op =>
    match MemTable.step d.mem op with
    | (m', true) => ({ d with mem := m', log := d.log ++ [.updateMemory m'.regions] }, .ok .unit)
    | (_, false) => (d, .error .reqHandler)
  | .addUsed ring head len =>
    match d.vrings[ring]? with
    | none => (d, .error .invalidParam)
    | some v =>
      match v.queue.addUsed d.guestMem head len with
      | (q1, m1, ok) =>
        ({ d.setRing ring (fun v => { v with queue := q1 }) with files := m1.files },
          if ok then .ok .unit else .error .backendInternal)
  | .signalUsed ring =>
    match d.vrings[ring]? with
    | none => (d, .error .invalidParam)
    | some v =>
      match v.call with
      | none => (d, .ok .unit)
      | some fd => ({ d with counters := fun x => if x = fd then d.counters x + 1 else d.counters x }, .ok .unit)

/-- a history -/
def run (d : Daemon) : List Msg → Daemon × List (Except Err Reply)
  | [] => (d, [])
  | m :: ms =>
    let (d1, r) := step d m
    let (d2, rs) := run d1 ms
    (d2, r :: rs)

end Model.Vring
