/-!
# Model: `vhost-user-backend/src/bitmap.rs` and the log handling of `handler.rs` (property C15)

`usize` values are naturals `< 2^64` (hypotheses of the theorems); the three places where the Rust code relies on
checked / saturating arithmetic are modelled explicitly (`checkedAdd`, `satAdd`).  Unchecked additions
(`pages_before_region + page`) are modelled on `Nat`; `indices_in_bounds` shows they stay far below `2^64`.

* `MmapLogReg`                — the mapped window: its bytes are a `List UInt8` whose length is `len`; indexing asserts
                                `index < len` (`fetchOr` returns `none` where Rust panics).
* `AtomicBitmapMmap::new`     — `AtomicBitmapMmap.new`.
* `AtomicBitmapMmap::mark_dirty` — `markLoop` / `AtomicBitmapMmap.markDirty` (the `for page in first..=last` loop with its
                                `break`), each iteration one `fetch_or` (`Step`).
* `BitmapMmapRegion`          — `inner : Option AtomicBitmapMmap`, `base`; `sliceAt` (saturating), `markDirty` (checked).
* handler                     — `HState`, `setLogBase` (build all bitmaps, then replace; remember the log — the last part is
                                `fix-c15-log-retain.patch`), `setMemTable`, `addMemReg`, `remMemReg` as patched; the
                                unmodified versions are `setMemTableOld`, `addMemRegOld` (new regions get
                                `BitmapMmapRegion::default()`).
-/
namespace Model.Bitmap

def usizeMax : Nat := 2 ^ 64 - 1

/-- `a.checked_add(b)` on `usize` -/
def checkedAdd (a b : Nat) : Option Nat := if a + b ≤ usizeMax then some (a + b) else none
/-- `a.saturating_add(b)` on `usize` -/
def satAdd (a b : Nat) : Nat := if a + b ≤ usizeMax then a + b else usizeMax

/-- `LOG_PAGE_SIZE`, `LOG_WORD_SIZE` -/
def logPageSize : Nat := 0x1000
def logWordSize : Nat := 8

def pageNumber (addr : Nat) : Nat := addr / logPageSize
def pageWord (page : Nat) : Nat := page / logWordSize
def pageBit (page : Nat) : Nat := page % logWordSize

/-- `1 << page_bit(page)` as `u8` -/
def bitMask (k : Nat) : UInt8 := UInt8.ofNat (2 ^ k)

/-- one atomic `fetch_or` on a log byte -/
structure Step where
  idx : Nat
  mask : UInt8
  deriving Repr, DecidableEq

/-- `self.logmem[idx].fetch_or(mask, Relaxed)`: `none` = `assert!(index < self.len)` fails -/
def fetchOr (log : List UInt8) (s : Step) : Option (List UInt8) :=
  match log[s.idx]? with
  | none => none
  | some b => some (log.set s.idx (b ||| s.mask))

/-- execute a sequence of atomic steps -/
def runSteps : List UInt8 → List Step → Option (List UInt8)
  | log, [] => some log
  | log, s :: rest => match fetchOr log s with
    | none => none
    | some log' => runSteps log' rest

structure AtomicBitmapMmap where
  /-- `logmem.len()` of the mapping this bitmap writes to -/
  logLen : Nat
  pagesBeforeRegion : Nat
  numberOfPages : Nat
  deriving Repr, DecidableEq

/-- `AtomicBitmapMmap::new(region, logmem)` -/
def AtomicBitmapMmap.new (regionStart regionLen logLen : Nat) : Option AtomicBitmapMmap :=
  if regionLen = 0 then none else
  match checkedAdd regionStart (regionLen - 1) with
  | none => none
  | some regionEnd =>
    if pageWord (pageNumber regionEnd) ≥ logLen then none
    else some { logLen := logLen, pagesBeforeRegion := pageNumber regionStart, numberOfPages := pageNumber regionLen }

/-- the atomic steps of the loop `for page in first..=last { if page >= number_of_pages { break } … }`;
`k` = iterations left, `page` = loop variable -/
def markLoop (bm : AtomicBitmapMmap) : Nat → Nat → List Step
  | 0, _ => []
  | k+1, page =>
    if page ≥ bm.numberOfPages then []
    else
      let abs := bm.pagesBeforeRegion + page
      { idx := pageWord abs, mask := bitMask (pageBit abs) } :: markLoop bm k (page + 1)

/-- the `fetch_or`s of `AtomicBitmapMmap::mark_dirty(offset, len)` in program order -/
def AtomicBitmapMmap.markSteps (bm : AtomicBitmapMmap) (offset len : Nat) : List Step :=
  if len = 0 then [] else
  let first := pageNumber offset
  let last := pageNumber (satAdd offset (len - 1))
  markLoop bm (last + 1 - first) first

def AtomicBitmapMmap.markDirty (bm : AtomicBitmapMmap) (log : List UInt8) (offset len : Nat) : Option (List UInt8) :=
  runSteps log (bm.markSteps offset len)

/-- `BitmapMmapRegion` (the `Arc<RwLock<Option<AtomicBitmapMmap>>>` is shared by all slices of a region: `inner`) -/
structure BitmapMmapRegion where
  inner : Option AtomicBitmapMmap
  base : Nat
  deriving Repr, DecidableEq

/-- `BitmapMmapRegion::default()` / `with_len` -/
def BitmapMmapRegion.default : BitmapMmapRegion := { inner := none, base := 0 }

def BitmapMmapRegion.sliceAt (b : BitmapMmapRegion) (offset : Nat) : BitmapMmapRegion :=
  { b with base := satAdd b.base offset }

/-- steps of `BitmapMmapRegion::mark_dirty(offset, len)` -/
def BitmapMmapRegion.markSteps (b : BitmapMmapRegion) (offset len : Nat) : List Step :=
  match b.inner with
  | none => []
  | some bm =>
    match checkedAdd b.base offset with
    | none => []
    | some abs => bm.markSteps abs len

def BitmapMmapRegion.markDirty (b : BitmapMmapRegion) (log : List UInt8) (offset len : Nat) : Option (List UInt8) :=
  runSteps log (b.markSteps offset len)

/-- successive `slice_at` calls starting from the region's bitmap -/
def BitmapMmapRegion.slices (b : BitmapMmapRegion) : List Nat → BitmapMmapRegion
  | [] => b
  | o :: os => (b.sliceAt o).slices os

/-! ## handler state -/

/-- a region of the current memory table with the inner bitmap its `BitmapMmapRegion` holds; `logId` names the
`MmapLogReg` (one per accepted SET_LOG_BASE) the bitmap writes to -/
structure Reg where
  start : Nat
  len : Nat
  bitmap : Option (Nat × AtomicBitmapMmap)
  deriving Repr, DecidableEq

structure HState where
  regions : List Reg
  /-- `self.logmem` (repaired handler): id and length of the current log mapping -/
  logmem : Option (Nat × Nat)
  /-- number of SET_LOG_BASE mappings created so far (fresh ids) -/
  nextLog : Nat
  deriving Repr, DecidableEq

def HState.init : HState := { regions := [], logmem := none, nextLog := 0 }

/-- build a bitmap for every region (`?` on the first failure) -/
def buildAll (logLen : Nat) : List Reg → Option (List AtomicBitmapMmap)
  | [] => some []
  | r :: rs =>
    match AtomicBitmapMmap.new r.start r.len logLen with
    | none => none
    | some bm => (buildAll logLen rs).map (bm :: ·)

/-- `set_log_base` after the mapping of `logLen` bytes succeeded: all bitmaps first, then replace them in every current
region, then remember the log (the last step is the repair) -/
def setLogBase (s : HState) (logLen : Nat) : Option HState :=
  match buildAll logLen s.regions with
  | none => none
  | some bms =>
    some { regions := (s.regions.zip bms).map (fun (r, bm) => { r with bitmap := some (s.nextLog, bm) }),
           logmem := some (s.nextLog, logLen), nextLog := s.nextLog + 1 }

/-- `log_region`: a region entering the table gets a bitmap on the current log, or the request fails -/
def logRegion (s : HState) (start len : Nat) : Option Reg :=
  match s.logmem with
  | none => some { start := start, len := len, bitmap := none }
  | some (id, logLen) =>
    match AtomicBitmapMmap.new start len logLen with
    | none => none
    | some bm => some { start := start, len := len, bitmap := some (id, bm) }

/-- vm-memory's `from_arc_regions` rule (assumed, see DESIGN.md 3.4 item 6): non-empty, sorted, non-overlapping -/
def tableOk : List (Nat × Nat) → Bool
  | [] => false
  | [_] => true
  | (a, la) :: (b, lb) :: rest => decide (a ≤ b) && decide (a + la - 1 < b) && tableOk ((b, lb) :: rest)

/-- `xs.iter().map(f).collect::<Option<Vec<_>>>()` / a loop with `?` -/
def mapOpt {α β : Type} (f : α → Option β) : List α → Option (List β)
  | [] => some []
  | a :: as =>
    match f a with
    | none => none
    | some b => (mapOpt f as).map (b :: ·)

/-- `set_mem_table` (repaired): every new region is created, given a bitmap on the current log (`?`), then the table is
replaced -/
def setMemTable (s : HState) (regs : List (Nat × Nat)) : Option HState :=
  match mapOpt (fun (a, l) => logRegion s a l) regs with
  | none => none
  | some rs => if tableOk regs then some { s with regions := rs } else none

/-- sorted insertion used by `insert_region` (`push` + stable `sort_by_key`) -/
def insertSorted (r : Reg) : List Reg → List Reg
  | [] => [r]
  | x :: xs => if r.start < x.start then r :: x :: xs else x :: insertSorted r xs

/-- `add_mem_region` (repaired) -/
def addMemReg (s : HState) (start len : Nat) : Option HState :=
  match logRegion s start len with
  | none => none
  | some r =>
    let rs := insertSorted r s.regions
    if tableOk (rs.map fun x => (x.start, x.len)) then some { s with regions := rs } else none

/-- `remove_mem_region`: exact `(base, size)` match -/
def remMemReg (s : HState) (start len : Nat) : Option HState :=
  if s.regions.any (fun r => r.start == start && r.len == len) then
    some { s with regions := s.regions.filter (fun r => !(r.start == start && r.len == len)) }
  else none

/-- unmodified tree: new regions get `BitmapMmapRegion::default()` -/
def setMemTableOld (s : HState) (regs : List (Nat × Nat)) : Option HState :=
  if tableOk regs then some { s with regions := regs.map fun (a, l) => { start := a, len := l, bitmap := none } } else none

def addMemRegOld (s : HState) (start len : Nat) : Option HState :=
  let rs := insertSorted { start := start, len := len, bitmap := none } s.regions
  if tableOk (rs.map fun x => (x.start, x.len)) then some { s with regions := rs } else none

/-- requests of a history -/
inductive Op where
  | setLogBase (logLen : Nat)
  | setMemTable (regs : List (Nat × Nat))
  | addMemReg (start len : Nat)
  | remMemReg (start len : Nat)
  deriving Repr, DecidableEq

/-- one request; a refused request leaves the state unchanged (the connection ends, see `lib.rs`) -/
def step (s : HState) : Op → Option HState
  | .setLogBase n => setLogBase s n
  | .setMemTable regs => setMemTable s regs
  | .addMemReg a l => addMemReg s a l
  | .remMemReg a l => remMemReg s a l

def stepOld (s : HState) : Op → Option HState
  | .setLogBase n => setLogBase s n
  | .setMemTable regs => setMemTableOld s regs
  | .addMemReg a l => addMemRegOld s a l
  | .remMemReg a l => remMemReg s a l

/-- run a history, skipping refused requests -/
def run (stp : HState → Op → Option HState) : HState → List Op → HState
  | s, [] => s
  | s, op :: ops => match stp s op with
    | none => run stp s ops
    | some s' => run stp s' ops

/-- the `BitmapMmapRegion` of a table region -/
def Reg.bm (r : Reg) : BitmapMmapRegion := { inner := r.bitmap.map (·.2), base := 0 }

/-! ## schedules of concurrent writers -/

/-- `tr` is an interleaving of the writers' step sequences `ws` (each writer's steps in its own program order) -/
inductive Interleave : List (List Step) → List Step → Prop
  | done (ws : List (List Step)) : (∀ w ∈ ws, w = []) → Interleave ws []
  | pick (ws : List (List Step)) (i : Nat) (s : Step) (rest tr : List Step) :
      ws[i]? = some (s :: rest) → Interleave (ws.set i rest) tr → Interleave ws (s :: tr)

end Model.Bitmap
