import VhostModel.Spec.MemTable
/-!
# Model: the guest memory table of `vhost-user-backend` (property C13)

Transcribes, function by function, what `vhost-user-backend/src/handler.rs` does with its two pieces of state
`atomic_mem: GuestMemoryAtomic<GuestMemoryMmap>` and `mappings: Vec<AddrMapping>`:

* `set_mem_table` (handler.rs 328-369): for every `(region, file)` build the `GuestRegionMmap` (`mmap_region(file)?`,
  `GuestRegionMmap::new(..).ok_or(..)?`) and the `AddrMapping`; `GuestMemoryMmap::from_regions(regions)?`;
  `atomic_mem.lock().replace(mem)`; `backend.update_memory(atomic_mem.clone())`; `self.mappings = mappings`.
* `add_mem_region` (615-652): build the region, `atomic_mem.memory().insert_region(region)?`, replace, notify,
  `mappings.push(..)`.
* `remove_mem_region` (654-672): `remove_region(GuestAddress(gpa), size)?`, replace, notify,
  `mappings.retain(|m| m.gpa_base != gpa)`.
* `vmm_va_to_gpa` (179-187): first mapping with `va >= vmm_addr && va < vmm_addr + size` ↦ `va - vmm_addr + gpa_base`.

Rules assumed of the libraries underneath (vm-memory 0.17.1, read from its source; DESIGN.md 3.4 item 6):

* `MmapRegion::from_file` is one `mmap(2)` call: whether it succeeds is the *environment's* answer and a parameter of the
  model (`Req.mapOk`), constrained only by `size > 0` (`mmap` refuses length 0).  NOTE: vm-memory 0.17.1 does **not**
  compare `offset + size` with the file length (older releases did): a mapping that extends past the end of the file is
  created; touching its pages beyond the end of file raises SIGBUS.  Statements about bytes therefore speak of file cells
  that exist.
* `GuestRegionMmap::new` returns `None` iff `guest_base + size` overflows `u64`.
* `GuestRegionCollection::from_regions`: error on an empty list, on `prev.start > next.start` (unsorted) and on
  `prev.last_addr() >= next.start` (overlap) for adjacent elements; `insert_region` = push, *stable* sort by start
  address, same checks; `remove_region(base, size)` = binary search for `base`, region length must equal `size`;
  `find_region(addr)` = the region containing `addr`.  (`GuestMemoryMmap::new()` — the table a daemon starts with in the
  harness — is the empty collection, and `remove_region` may produce the empty collection again.)
* the backend's `update_memory` callback is assumed infallible (outside the property's quantifier, DESIGN.md section 7
  C13 "Limits"); `log_region` is the identity because no `SET_LOG_BASE` occurs (that path is C15's).

Addresses are natural numbers; every place where the Rust code adds two `u64` without a check is exposed by
`translateChecked`, which reports `overflow` instead of silently wrapping (theorem `translate_no_overflow`).
-/
namespace Model.MemTable
open Spec.MemTable (Req Op)

/-- what vm-memory keeps of one `GuestRegionMmap`: guest base, length, the mapped file and offset -/
structure Region where
  gpa : Nat
  size : Nat
  fid : Nat
  off : Nat
  deriving DecidableEq, Repr

/-- `handler.rs::AddrMapping` -/
structure AddrMapping where
  vmmAddr : Nat
  size : Nat
  gpaBase : Nat
  deriving DecidableEq, Repr

structure St where
  /-- regions of the `GuestMemoryMmap` currently behind `atomic_mem` -/
  regions : List Region
  mappings : List AddrMapping
  /-- the tables the backend was shown by `update_memory`, oldest first -/
  notified : List (List Region)
  deriving DecidableEq, Repr

/-- a daemon created over `GuestMemoryMmap::new()` -/
def St.init : St := ⟨[], [], []⟩

/-- `region.mmap_region(file)?` followed by `GuestRegionMmap::new(.., GuestAddress(gpa)).ok_or(..)?` -/
def mmapRegion (r : Req) : Option Region :=
  if r.mapOk && decide (0 < r.size) then
    if r.gpa + r.size < 2^64 then some ⟨r.gpa, r.size, r.fid, r.off⟩ else none
  else none

def mappingOf (r : Req) : AddrMapping := ⟨r.uaddr, r.size, r.gpa⟩

/-- `GuestMemoryRegion::last_addr` -/
def Region.lastAddr (r : Region) : Nat := r.gpa + (r.size - 1)

/-- the `windows(2)` loop of `from_arc_regions` -/
def windowsOk : List Region → Bool
  | a :: b :: rest =>
    if a.gpa > b.gpa then false            -- UnsortedMemoryRegions
    else if a.lastAddr ≥ b.gpa then false  -- MemoryRegionOverlap
    else windowsOk (b :: rest)
  | _ => true

/-- `GuestRegionCollection::from_regions` / `from_arc_regions` -/
def fromRegions (l : List Region) : Option (List Region) :=
  if l.isEmpty then none else if windowsOk l then some l else none

/-- `regions.push(region); regions.sort_by_key(|x| x.start_addr())` on an already sorted vector (stable sort: the new
element goes behind the elements with an equal key) -/
def insertSorted (g : Region) : List Region → List Region
  | [] => [g]
  | x :: xs => if x.gpa ≤ g.gpa then x :: insertSorted g xs else g :: x :: xs

/-- `GuestRegionCollection::insert_region` -/
def insertRegion (l : List Region) (g : Region) : Option (List Region) := fromRegions (insertSorted g l)

/-- `GuestRegionCollection::remove_region(base, size)`: the region starting at `base` must have length `size` -/
def removeRegion (base size : Nat) : List Region → Option (List Region)
  | [] => none
  | r :: rs =>
    if r.gpa = base then (if r.size = size then some rs else none)
    else (removeRegion base size rs).map (r :: ·)

/-- the `for (region, file) in ctx.iter().zip(files)` loop of `set_mem_table` (`?` leaves at the first failure) -/
def buildAll : List Req → Option (List Region × List AddrMapping)
  | [] => some ([], [])
  | r :: rs =>
    match mmapRegion r with
    | none => none
    | some g =>
      match buildAll rs with
      | none => none
      | some (gs, ms) => some (g :: gs, mappingOf r :: ms)

def setMemTable (s : St) (rs : List Req) : St × Bool :=
  match buildAll rs with
  | none => (s, false)
  | some (regs, maps) =>
    match fromRegions regs with
    | none => (s, false)
    | some mem => ({ regions := mem, mappings := maps, notified := s.notified ++ [mem] }, true)

def addMemRegion (s : St) (r : Req) : St × Bool :=
  match mmapRegion r with
  | none => (s, false)
  | some g =>
    match insertRegion s.regions g with
    | none => (s, false)
    | some mem => ({ regions := mem, mappings := s.mappings ++ [mappingOf r], notified := s.notified ++ [mem] }, true)

def removeMemRegion (s : St) (gpa size : Nat) : St × Bool :=
  match removeRegion gpa size s.regions with
  | none => (s, false)
  | some mem =>
    ({ regions := mem, mappings := s.mappings.filter (fun m => m.gpaBase != gpa), notified := s.notified ++ [mem] }, true)

/-- one request; the Boolean is the handler's `Ok`/`Err` -/
def step (s : St) : Op → St × Bool
  | .setTable rs => setMemTable s rs
  | .add r => addMemRegion s r
  | .remove g sz => removeMemRegion s g sz

/-- a history: final state and the outcome of every request -/
def run (s : St) : List Op → St × List Bool
  | [] => (s, [])
  | op :: ops =>
    let (s1, ok) := step s op
    let (s2, oks) := run s1 ops
    (s2, ok :: oks)

/-! ### address translation -/

/-- `vmm_va_to_gpa` on mathematical integers -/
def translate : List AddrMapping → Nat → Option Nat
  | [], _ => none
  | m :: ms, va =>
    if m.vmmAddr ≤ va ∧ va < m.vmmAddr + m.size then some (va - m.vmmAddr + m.gpaBase) else translate ms va

inductive Tr where
  | ok (gpa : Nat)
  | missing
  /-- a `u64` addition of the Rust code would exceed `u64::MAX` (panic with overflow checks, wrap-around without) -/
  | overflow
  deriving DecidableEq, Repr

/-- `vmm_va_to_gpa` with the machine arithmetic made explicit: `mapping.vmm_addr + mapping.size` is evaluated for every
mapping that is looked at with `vmm_va >= mapping.vmm_addr` (`&&` is lazy), and `vmm_va - vmm_addr + gpa_base` for the
one that matches -/
def translateChecked : List AddrMapping → Nat → Tr
  | [], _ => .missing
  | m :: ms, va =>
    if m.vmmAddr ≤ va then
      if m.vmmAddr + m.size < 2^64 then
        if va < m.vmmAddr + m.size then
          (if va - m.vmmAddr + m.gpaBase < 2^64 then .ok (va - m.vmmAddr + m.gpaBase) else .overflow)
        else translateChecked ms va
      else .overflow
    else translateChecked ms va

/-! ### bytes -/

/-- contents of the files the regions map: file id ↦ offset ↦ byte -/
abbrev Files := Nat → Nat → UInt8

def Region.contains (r : Region) (g : Nat) : Bool := decide (r.gpa ≤ g) && decide (g < r.gpa + r.size)

/-- `GuestMemory::find_region` -/
def findRegion (t : List Region) (g : Nat) : Option Region := t.find? (·.contains g)

/-- the file cell behind guest address `g`: `region.mapping + (g - region.start)`, the mapping starting at file offset
`off` -/
def locate (t : List Region) (g : Nat) : Option (Nat × Nat) :=
  (findRegion t g).map fun r => (r.fid, r.off + (g - r.gpa))

def Files.set (fs : Files) (f o : Nat) (v : UInt8) : Files :=
  fun f' o' => if f' = f ∧ o' = o then v else fs f' o'

/-- a one-byte read through the table (`MAP_SHARED`: the mapping *is* the file) -/
def readByte (t : List Region) (fs : Files) (g : Nat) : Option UInt8 :=
  (locate t g).map fun (f, o) => fs f o

/-- a one-byte write through the table -/
def writeByte (t : List Region) (fs : Files) (g : Nat) (v : UInt8) : Option Files :=
  (locate t g).map fun (f, o) => fs.set f o v

end Model.MemTable
