import VhostModel.Base.FeSig
/-!
# What `Model.Frontend` does per operation, as a table

`modelOps` is written by hand from `Model.Frontend.request` / `finish` (not from the Rust source): per operation name of
the model — and per send path for `set_log_base` — the local checks in the order the model performs them, the request
code, the kind of body, whether the caller's descriptors are attached, the reply reader, the state updates, and the
errors the post-processing of an accepted reply can raise.  `Props.FrontendOps` proves that this table

* is the table the translator extracts from `frontend.rs` (`model_ops_match_source`, through the projection `toModel`
  below), and
* is true of the executable model (`request_ok_row`, `request_error_row`, … over all states and calls).

`modelHelpers` does the same for the reply readers (`Model.Frontend.recv`).
-/
namespace Model.FrontendTable
open Base

local notation "IP" => "InvalidParam"
local notation "IO" => "InactiveOperation"
local notation "IF" => "InactiveFeature"

def modelOps : List FeRow := [
  { name := "get_features", sel := [], checks := [],
    code := 1, body := .none, fds := false, await := .reply "VhostUserU64",
    updates := [.assign "virtio_features" (.replyField "value") true], post := [] },
  { name := "set_features", sel := [], checks := [],
    code := 2, body := .fixed "VhostUserU64", fds := false, await := .ack,
    updates := [.assign "acked_virtio_features" (.argAndField "features" "virtio_features") false], post := [] },
  { name := "set_owner", sel := [], checks := [],
    code := 3, body := .none, fds := false, await := .ack, updates := [], post := [] },
  { name := "reset_owner", sel := [], checks := [],
    code := 4, body := .none, fds := false, await := .ack, updates := [], post := [] },
  { name := "set_mem_table", sel := [],
    checks := [(.empty "regions", IP), (.lenAbove "regions" 32, IP), (.anyZero "regions" "memory_size", IP),
               (.anyNegative "regions" "mmap_handle", IP)],
    code := 5, body := .withPayload "VhostUserMemory", fds := true, await := .ack, updates := [], post := [] },
  { name := "set_log_base", sel := [.proto 1, .isSome "region"], checks := [],
    code := 6, body := .fixed "VhostUserLog", fds := true, await := .reply "VhostUserLog", updates := [], post := [] },
  { name := "set_log_base", sel := [.otherwise], checks := [],
    code := 6, body := .fixed "VhostUserU64", fds := false, await := .none, updates := [], post := [] },
  { name := "set_log_fd", sel := [], checks := [],
    code := 7, body := .none, fds := true, await := .ack, updates := [], post := [] },
  { name := "set_vring_num", sel := [], checks := [(.queueIdxOob, IP)],
    code := 8, body := .fixed "VhostUserVringState", fds := false, await := .ack, updates := [], post := [] },
  { name := "set_vring_addr", sel := [],
    checks := [(.queueIdxOob, IP), (.flagsOutside "config_data.flags" "VhostUserVringAddrFlags" 1, IP)],
    code := 9, body := .fixed "VhostUserVringAddr", fds := false, await := .ack, updates := [], post := [] },
  { name := "set_vring_base", sel := [], checks := [(.queueIdxOob, IP)],
    code := 10, body := .fixed "VhostUserVringState", fds := false, await := .ack, updates := [], post := [] },
  { name := "get_vring_base", sel := [], checks := [(.queueIdxOob, IP)],
    code := 11, body := .fixed "VhostUserVringState", fds := false, await := .reply "VhostUserVringState",
    updates := [], post := [] },
  { name := "set_vring_call", sel := [], checks := [(.queueIdxOob, IP), (.idxAbove 255, IP)],
    code := 13, body := .fixed "VhostUserU64", fds := true, await := .ack, updates := [], post := [] },
  { name := "set_vring_kick", sel := [], checks := [(.queueIdxOob, IP), (.idxAbove 255, IP)],
    code := 12, body := .fixed "VhostUserU64", fds := true, await := .ack, updates := [], post := [] },
  { name := "set_vring_err", sel := [], checks := [(.queueIdxOob, IP), (.idxAbove 255, IP)],
    code := 14, body := .fixed "VhostUserU64", fds := true, await := .ack, updates := [], post := [] },
  { name := "get_protocol_features", sel := [], checks := [(.virtioMissing 30 false, IF)],
    code := 15, body := .none, fds := false, await := .reply "VhostUserU64",
    updates := [.assign "protocol_features" (.replyField "value") true], post := [] },
  { name := "set_protocol_features", sel := [], checks := [(.virtioMissing 30 false, IF)],
    code := 16, body := .fixed "VhostUserU64", fds := false, await := .ack,
    updates := [.assign "acked_protocol_features" (.arg "features") false], post := [] },
  { name := "get_queue_num", sel := [], checks := [(.protoMissing 0, IO)],
    code := 17, body := .none, fds := false, await := .reply "VhostUserU64",
    updates := [.assign "max_queue_num" (.replyField "value") true], post := [.err "InvalidMessage"] },
  { name := "reset_device", sel := [], checks := [(.protoMissing 13, IO)],
    code := 34, body := .none, fds := false, await := .ack, updates := [], post := [] },
  { name := "set_vring_enable", sel := [], checks := [(.virtioMissing 30 true, IF), (.queueIdxOob, IP)],
    code := 18, body := .fixed "VhostUserVringState", fds := false, await := .ack, updates := [], post := [] },
  { name := "get_config", sel := [],
    checks := [(.invalid "VhostUserConfig", IP), (.protoMissing 9, IO), (.msgSizeAbove 4096, IP)],
    code := 24, body := .withPayload "VhostUserConfig", fds := false, await := .replyPayload "VhostUserConfig",
    updates := [], post := [.err "BackendInternalError", .err "InvalidMessage"] },
  { name := "set_config", sel := [],
    checks := [(.lenAbove "buf" 4096, IP), (.invalid "VhostUserConfig", IP), (.protoMissing 9, IO), (.msgSizeAbove 4096, IP)],
    code := 25, body := .withPayload "VhostUserConfig", fds := false, await := .ack, updates := [], post := [] },
  { name := "set_backend_req_fd", sel := [], checks := [(.protoMissing 5, IO)],
    code := 21, body := .none, fds := true, await := .ack, updates := [], post := [] },
  { name := "get_shared_object", sel := [], checks := [(.protoMissing 18, IO), (.invalid "VhostUserSharedMsg", IP)],
    code := 41, body := .fixed "VhostUserSharedMsg", fds := false, await := .replyFiles "VhostUserEmpty",
    updates := [], post := [.takeSingle "IncorrectFds"] },
  { name := "get_inflight_fd", sel := [], checks := [(.protoMissing 12, IO)],
    code := 31, body := .fixed "VhostUserInflight", fds := false, await := .replyFiles "VhostUserInflight",
    updates := [], post := [.takeSingle "IncorrectFds"] },
  { name := "set_inflight_fd", sel := [],
    checks := [(.protoMissing 12, IO), (.zero "inflight.mmap_size", IP), (.zero "inflight.num_queues", IP),
               (.zero "inflight.queue_size", IP), (.negative "fd", IP)],
    code := 32, body := .fixed "VhostUserInflight", fds := true, await := .ack, updates := [], post := [] },
  { name := "get_max_mem_slots", sel := [], checks := [(.protoMissing 15, IO)],
    code := 36, body := .none, fds := false, await := .reply "VhostUserU64", updates := [], post := [] },
  { name := "add_mem_region", sel := [],
    checks := [(.protoMissing 15, IO), (.zero "region.memory_size", IP), (.negative "region.mmap_handle", IP)],
    code := 37, body := .fixed "VhostUserSingleMemoryRegion", fds := true, await := .ack, updates := [], post := [] },
  { name := "remove_mem_region", sel := [], checks := [(.protoMissing 15, IO), (.zero "region.memory_size", IP)],
    code := 38, body := .fixed "VhostUserSingleMemoryRegion", fds := false, await := .ack, updates := [], post := [] },
  { name := "get_shmem_config", sel := [], checks := [(.protoMissing 21, IO)],
    code := 44, body := .none, fds := false, await := .reply "VhostUserShMemConfig", updates := [], post := [] },
  { name := "set_device_state_fd", sel := [], checks := [(.protoMissing 19, IO)],
    code := 42, body := .fixed "VhostUserTransferDeviceState", fds := true, await := .replyOptFiles "VhostUserU64",
    updates := [], post := [.takeSingle "IncorrectFds", .err "BackendInternalError"] },
  { name := "check_device_state", sel := [], checks := [(.protoMissing 19, IO)],
    code := 43, body := .none, fds := false, await := .reply "VhostUserU64",
    updates := [], post := [.err "BackendInternalError"] },
  { name := "postcopy_advise", sel := [], checks := [(.protoMissing 8, IO)],
    code := 28, body := .none, fds := false, await := .replyFiles "VhostUserEmpty",
    updates := [], post := [.takeSingle "IncorrectFds"] },
  { name := "postcopy_listen", sel := [], checks := [(.protoMissing 8, IO)],
    code := 29, body := .none, fds := false, await := .ack, updates := [], post := [] },
  { name := "postcopy_end", sel := [], checks := [(.protoMissing 8, IO)],
    code := 30, body := .none, fds := false, await := .ack, updates := [], post := [] }
]

/-- the Rust method that a model operation name stands for (the harness' names are the Rust names but for one) -/
def srcName (n : String) : String :=
  if n = "set_backend_req_fd" then "set_backend_request_fd" else n

/-! ## From the extracted row to the model's vocabulary -/

/-- Checks that cannot fire, whatever the call:
* `broken` — `check_state` reads the `error` field, which nothing in `frontend.rs` assigns after construction
  (`Props.FrontendOps.error_field_never_written`); the model has no such field.
* `bodySizeAbove` — a comparison of `size_of::<T>()` with `MAX_MSG_SIZE`; it holds or fails for the body type alone, and
  fails for none of the body types in the table (`Props.FrontendOps.body_sizes_fit`). -/
def FeCond.neverFires : FeCond → Bool
  | .broken | .bodySizeAbove _ => true
  | _ => false

/-- Source checks for which the model has no counterpart (a difference between model and source, reported as such by
`Props.FrontendOps`; each comes with the theorem saying why it is not observable):
* `set_mem_table`: `send_request_with_payload`'s total-size check and descriptor-count check — in the source both are
  implied by `regions.len() <= 32` (8 + 32·n bytes; one descriptor per region); the model takes the descriptors from the
  call (`op.fds`) instead of deriving them from the regions.
* `set_device_state_fd`: `!body.is_valid()` on a body built from the typed `direction` / `phase` enums — it cannot fail
  in Rust; the model's arguments are untyped numbers and it performs no such check. -/
def notInModel : List (String × FeCond) := [
  ("set_mem_table", .msgSizeAbove 4096),
  ("set_mem_table", .fdCountAbove 32),
  ("set_device_state_fd", .invalid "VhostUserTransferDeviceState")
]

/-- fields of `FrontendInternal` the model has no counterpart for: `protocol_features_ready` is written by
`set_protocol_features` and read nowhere -/
def unmodelledFields : List String := ["protocol_features_ready"]

def FeUpd.field : FeUpd → String
  | .assign f _ _ => f

/-- the errors a reply can still run into, without the conditions -/
def FePost.skeleton : FePost → Option FePost
  | .errIf _ e | .err e => some (.err e)
  | .takeSingleIf _ e | .takeSingle e => some (.takeSingle e)
  | .bind _ _ | .okIf _ _ | .ok _ => none

/-- `get_config` re-tests the descriptors `recv_reply_with_payload` has already refused
(`Props.FrontendOps.payload_reader_refuses_files`): dead in the source, absent from the model -/
def deadPost (aw : FeAwait) (p : FePost) : Bool :=
  match aw, p with
  | .replyPayload _, .errIf "rfds.is_some()" "InvalidMessage" => true
  | _, _ => false

/-- The extracted row in the model's terms: checks that cannot fire are dropped (`FeCond.neverFires`); a check that
occurs a second time is dropped (`dedup`: the ring-descriptor methods test the queue index themselves and again in
`send_fd_for_vring`; the node stays locked in between, so the repetition cannot fire); the three `notInModel` checks,
the unmodelled field and the dead descriptor re-test are dropped; the reply handling is reduced to its errors. -/
def toModel (r : FeRow) : FeRow :=
  { r with
    checks := (dedup (r.checks.filter (fun c => !FeCond.neverFires c.1))).filter
                (fun c => !notInModel.contains (r.name, c.1)),
    updates := r.updates.filter (fun u => !unmodelledFields.contains (FeUpd.field u)),
    post := (r.post.filter (fun p => !deadPost r.await p)).filterMap FePost.skeleton }

/-! ## The reply readers -/

/-- `Model.Frontend.recv`, per reply kind, in the vocabulary of the generated `helpers` table.  `recvBody` of the model
(one scatter read of header and body, header validity, body validity) stands for `recv_body::<T>` *and* the
`!body.is_valid()` test that follows it in the source: the three tests after the read raise the same error. -/
def modelHelpers : List (String × List FeStep) := [
  ("recv_reply",
    [.check .hdrIsReply "InvalidParam", .sock "recv_body" "T", .check .notReplyFor "InvalidMessage",
     .check .filesPresent "InvalidMessage", .check .replyInvalid "InvalidMessage", .ok "body"]),
  ("recv_reply_with_optional_files",
    [.check .hdrIsReply "InvalidParam", .sock "recv_body" "T", .check .notReplyFor "InvalidMessage",
     .check .replyInvalid "InvalidMessage", .ok "(body, files)"]),
  ("recv_reply_with_files",
    [.delegate "recv_reply_with_optional_files", .check .filesAbsent "InvalidMessage", .ok "(body, files)"]),
  ("recv_reply_with_payload",
    [.check .hdrSizeLeBody "InvalidParam", .check (.hdrSizeAbove 4096) "InvalidParam", .check .hdrIsReply "InvalidParam",
     .sock "recv_body" "T", .check .notReplyFor "InvalidMessage", .check .filesPresent "InvalidMessage",
     .check .replyInvalid "InvalidMessage", .check .replySizeBelowBody "InvalidMessage",
     .check .payloadExceeds "InvalidMessage", .sock "recv_data" "payload_size", .check .payloadShort "PartialMessage",
     .ok "(body, buf, files)"]),
  ("wait_for_ack",
    [.skipIf (.protoMissing 3), .skipIf .noNeedReply, .sock "recv_body" "VhostUserU64",
     .check .notReplyFor "InvalidMessage", .check .filesPresent "InvalidMessage", .check .replyInvalid "InvalidMessage",
     .check .ackNonZero "BackendInternalError", .ok "()"]),
  -- `Model.Frontend.reqFlags`: version 1, REPLY / NEED_REPLY of `hdr_flags`, nothing else
  ("new_request_header", [.build "VhostUserMsgHeader" "request, self.hdr_flags.bits() | 1, size"])
]

def FeStep.neverFires : FeStep → Bool
  | .check c _ | .checkIfFds c _ => FeCond.neverFires c
  | _ => false

end Model.FrontendTable
