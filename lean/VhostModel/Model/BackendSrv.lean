import VhostModel.Model.Stream
import VhostModel.Model.Msgs
import VhostModel.Gen.Codes
import VhostModel.Gen.Flags
/-!
# Model: the backend request server (`backend_req_handler.rs`, `BackendReqHandler::handle_request`)

One call of `handle_request` = `step`: read a header (loop), apply the attached-file policy, read the
body (`recv_data`: loop until the declared size or EOF), run the arm of the 44-way dispatch, write a reply/ack.  Each arm is *data*
(`Arm`: the ordered guard calls in front of the handler invocation, and the action), interpreted by
`runArm`; the table `arms` mirrors the `match hdr.get_code()` arms one by one, in the order in which
each arm performs its checks.  The application's handler is a scripted outcome `HOut`.
Validators and struct layouts come from the generated files.
-/
namespace Model.BackendSrv
open Base Model.Stream Model.Msgs

inductive Err where
  | invalidParam | invalidOperation | inactiveFeature | inactiveOperation | invalidMsg | partialMsg
  | disconnected | oversized | incorrectFds | sockError | sockBroken | sockRetry | backendInternal
  | frontendInternal | handlerErr | other
  deriving Repr, DecidableEq, Inhabited

def Err.name : Err → String
  | .invalidParam => "invalidParam" | .invalidOperation => "invalidOperation"
  | .inactiveFeature => "inactiveFeature" | .inactiveOperation => "inactiveOperation"
  | .invalidMsg => "invalidMsg" | .partialMsg => "partialMsg" | .disconnected => "disconnected"
  | .oversized => "oversized" | .incorrectFds => "incorrectFds" | .sockError => "sockError"
  | .sockBroken => "sockBroken" | .sockRetry => "sockRetry" | .backendInternal => "backendInternal"
  | .frontendInternal => "frontendInternal" | .handlerErr => "handlerErr" | .other => "other"

inductive Res where
  | ok | err (e : Err) | blocked
  deriving Repr, DecidableEq, Inhabited

/-- scripted outcome of the application's handler for this request -/
structure HOut where
  ok : Bool := true
  v : Nat := 0          -- 64-bit value used by value-returning operations
  b : Bytes := []       -- byte string used by get_config / shmem config
  file : Bool := true   -- whether an operation that may return a file returns one
  deriving Repr, Inhabited

/-- one invocation of the application's handler as the recording handler sees it -/
structure Call where
  name : String
  args : List Nat := []
  payload : Bytes := []
  fds : List Fd := []
  deriving Repr, DecidableEq, Inhabited

/-- negotiation state kept by `BackendReqHandler` -/
structure BSt where
  virtio : Nat := 0        -- `virtio_features`: what GET_FEATURES last replied
  acked : Nat := 0         -- `acked_virtio_features`
  ackedProto : Nat := 0    -- `acked_protocol_features`
  replyAck : Bool := false -- `reply_ack_enabled`
  deriving Repr, DecidableEq, Inhabited

def bitSet (x bit : Nat) : Bool := x.testBit bit

/-- `update_reply_ack_flag` -/
def BSt.updateFlag (s : BSt) : BSt :=
  { s with replyAck := bitSet s.virtio 30 && bitSet s.ackedProto 3 }

structure Hdr where
  code : Nat
  flags : Nat
  size : Nat
  deriving Repr, DecidableEq, Inhabited

def Hdr.isReply (h : Hdr) : Bool := bitSet h.flags 2
def Hdr.needReply (h : Hdr) : Bool := bitSet h.flags 3

/-- `VhostUserMsgHeader::new(code, flags, size)`: only REPLY/NEED_REPLY kept, version 1 -/
def hdrNewFlags (flags : Nat) : Nat := (flags &&& 0xc) ||| 1

def encHdr (code flags size : Nat) : Bytes := leBytes 4 code ++ leBytes 4 flags ++ leBytes 4 size

/-- header of a reply to `req` with a payload of `n` bytes (`new_reply_header`) -/
def replyHdr (req : Hdr) (n : Nat) : Bytes := encHdr req.code (hdrNewFlags 4) n

inductive SizeReq where
  | zero | any | ofT (ty : String)
  deriving Repr, DecidableEq

/-- the guard calls an arm performs before it invokes the handler, in source order -/
inductive Guard where
  | proto (bit : Nat)      -- `check_proto_feature`  ⇒ InactiveOperation
  | virtio (bit : Nat)     -- `check_feature`        ⇒ InactiveFeature
  | sizeIs (s : SizeReq)   -- `check_request_size`   ⇒ InvalidMessage
  | body (ty : String)     -- `extract_request_body::<ty>` (size + not-a-reply + validator) ⇒ InvalidMessage
  | oneFile (e : Err)      -- `take_single_file(files).ok_or(e)` / the ADD_MEM_REG file check
  | vringFd                -- `handle_vring_fd_request`
  | enable01               -- `msg.num ∈ {0,1}` ⇒ InvalidParam
  deriving Repr, DecidableEq

inductive Act where
  | ack (method : String)          -- `res = backend.method(..); send_ack_message(res)`
  | getFeatures | getProtocolFeatures | setFeatures | setProtocolFeatures
  | replyU64 (method : String)     -- `v = backend.method()?; send_reply_message(U64 v)`
  | getVringBase | getInflight | getShmem | setLogBase
  | fdOrEmpty (method : String)    -- reply header, fd attached iff the handler produced one; always Ok
  | deviceStateFd | checkDeviceState
  | getConfig | setConfig | memTable | backendReqFd | gpuSocket
  deriving Repr, DecidableEq

/-- the handler method an action invokes -/
def Act.method : Act → String
  | .ack m => m | .getFeatures => "get_features" | .getProtocolFeatures => "get_protocol_features"
  | .setFeatures => "set_features" | .setProtocolFeatures => "set_protocol_features" | .replyU64 m => m
  | .getVringBase => "get_vring_base" | .getInflight => "get_inflight_fd" | .getShmem => "get_shmem_config"
  | .setLogBase => "set_log_base" | .fdOrEmpty m => m | .deviceStateFd => "set_device_state_fd"
  | .checkDeviceState => "check_device_state" | .getConfig => "get_config" | .setConfig => "set_config"
  | .memTable => "set_mem_table" | .backendReqFd => "set_backend_req_fd" | .gpuSocket => "set_gpu_socket"

structure Arm where
  code : Nat
  guards : List Guard
  act : Act
  deriving Repr

/-- the dispatch table, arm by arm as in `handle_request` (postcopy arms: cargo feature `postcopy`) -/
def arms : List Arm := [
  ⟨3,  [.sizeIs .zero], .ack "set_owner"⟩,
  ⟨4,  [.sizeIs .zero], .ack "reset_owner"⟩,
  ⟨34, [.proto 13, .sizeIs .zero], .ack "reset_device"⟩,
  ⟨1,  [.sizeIs .zero], .getFeatures⟩,
  ⟨2,  [.body "VhostUserU64"], .setFeatures⟩,
  ⟨5,  [], .memTable⟩,
  ⟨8,  [.body "VhostUserVringState"], .ack "set_vring_num"⟩,
  ⟨9,  [.body "VhostUserVringAddr"], .ack "set_vring_addr"⟩,
  ⟨10, [.body "VhostUserVringState"], .ack "set_vring_base"⟩,
  ⟨11, [.body "VhostUserVringState"], .getVringBase⟩,
  ⟨13, [.sizeIs (.ofT "VhostUserU64"), .vringFd], .ack "set_vring_call"⟩,
  ⟨12, [.sizeIs (.ofT "VhostUserU64"), .vringFd], .ack "set_vring_kick"⟩,
  ⟨14, [.sizeIs (.ofT "VhostUserU64"), .vringFd], .ack "set_vring_err"⟩,
  ⟨15, [.sizeIs .zero], .getProtocolFeatures⟩,
  ⟨16, [.body "VhostUserU64"], .setProtocolFeatures⟩,
  ⟨17, [.proto 0, .sizeIs .zero], .replyU64 "get_queue_num"⟩,
  ⟨18, [.body "VhostUserVringState", .virtio 30, .enable01], .ack "set_vring_enable"⟩,
  ⟨24, [.proto 9, .sizeIs .any], .getConfig⟩,
  ⟨25, [.proto 9, .sizeIs .any], .setConfig⟩,
  ⟨21, [.proto 5, .sizeIs .any], .backendReqFd⟩,
  ⟨41, [.proto 18, .sizeIs .any, .body "VhostUserSharedMsg"], .fdOrEmpty "get_shared_object"⟩,
  ⟨31, [.proto 12, .body "VhostUserInflight"], .getInflight⟩,
  ⟨32, [.proto 12, .oneFile .incorrectFds, .body "VhostUserInflight"], .ack "set_inflight_fd"⟩,
  ⟨33, [], .gpuSocket⟩,
  ⟨36, [.proto 15, .sizeIs .zero], .replyU64 "get_max_mem_slots"⟩,
  ⟨37, [.proto 15, .oneFile .invalidParam, .body "VhostUserSingleMemoryRegion"], .ack "add_mem_region"⟩,
  ⟨38, [.proto 15, .body "VhostUserSingleMemoryRegion"], .ack "remove_mem_region"⟩,
  ⟨42, [.oneFile .incorrectFds, .body "VhostUserTransferDeviceState"], .deviceStateFd⟩,
  ⟨43, [], .checkDeviceState⟩,
  ⟨44, [.proto 21], .getShmem⟩,
  ⟨28, [.proto 8], .fdOrEmpty "postcopy_advice"⟩,
  ⟨29, [.proto 8], .ack "postcopy_listen"⟩,
  ⟨30, [.proto 8], .ack "postcopy_end"⟩,
  ⟨6,  [.proto 1, .oneFile .incorrectFds, .body "VhostUserLog"], .setLogBase⟩
]

/-- the arm as a list of signatures, in the vocabulary of the generated `Gen.Dispatch.sigs` -/
def Guard.sig : Guard → Sig
  | .proto b => .proto b | .virtio b => .virtio b
  | .sizeIs .zero => .sizeZero | .sizeIs .any => .sizeAny | .sizeIs (.ofT ty) => .sizeOf ty
  | .body ty => .body ty
  | .oneFile .invalidParam => .file "InvalidParam" | .oneFile .incorrectFds => .file "IncorrectFds"
  | .oneFile .invalidMsg => .file "InvalidMessage" | .oneFile _ => .file "?"
  | .vringFd => .vringfd | .enable01 => .enable01

def Act.sig : Act → Sig
  | .memTable => .helper "set_mem_table" | .getConfig => .helper "get_config" | .setConfig => .helper "set_config"
  | .backendReqFd => .helper "set_backend_req_fd" | .gpuSocket => .helper "set_gpu_socket"
  | a => .call a.method

def Arm.sig (a : Arm) : Nat × List Sig := (a.code, a.guards.map Guard.sig ++ [a.act.sig])

/-- request codes whose messages may carry files (`check_attached_files`) -/
def fdCodes : List Nat := [5, 13, 12, 14, 6, 7, 21, 32, 37, 42, 33]

/-- the generated validator for a body type, on bytes (size must match the generated layout) -/
def bodyValid (ty : String) (bs : Bytes) : Option Bool :=
  match ty with
  | "VhostUserU64" => (decU64 bs).map (·.isValid)
  | "VhostUserVringState" => (decVringState bs).map (·.isValid)
  | "VhostUserVringAddr" => (decVringAddr bs).map (·.isValid)
  | "VhostUserSharedMsg" => (decShared bs).map (·.isValid)
  | "VhostUserInflight" => (decInflight bs).map (·.isValid)
  | "VhostUserSingleMemoryRegion" => (decSingle bs).map (·.isValid)
  | "VhostUserTransferDeviceState" => (decTransfer bs).map (·.isValid)
  | "VhostUserLog" => (decLog bs).map (·.isValid)
  | "VhostUserConfig" => (decConfig bs).map (·.isValid)
  | "VhostUserMemory" => (decMemory bs).map (·.isValid)
  | "VhostUserMemoryRegion" => (decRegion bs).map (·.isValid)
  | _ => none

/-- `check_request_size(hdr, size, expected)` (version is 1 for every header that passed `recv_header`) -/
def checkSize (h : Hdr) (size expected : Nat) : Bool :=
  h.size == expected && !h.isReply && size == expected

/-- context while the guards of an arm run -/
structure Ctx where
  hdr : Hdr
  buf : Bytes
  files : Option (List Fd)      -- `None` when no descriptor arrived
  file : Option Fd := none      -- the file taken by `oneFile` / `vringFd`
  index8 : Nat := 0             -- ring index produced by `vringFd`
  closed : List Fd := []        -- files dropped so far
  deriving Repr

def takeSingle (files : Option (List Fd)) : Option Fd × List Fd :=
  match files with
  | some [f] => (some f, [])
  | some fs => (none, fs)        -- wrong count: every file is dropped
  | none => (none, [])

def g (bs : Bytes) (s : String) (p : List String) : Nat := (getField bs s p).getD 0

def runGuard (st : BSt) (c : Ctx) : Guard → Except Err Ctx
  | .proto bit => if bitSet st.ackedProto bit then .ok c else .error .inactiveOperation
  | .virtio bit => if bitSet st.acked bit then .ok c else .error .inactiveFeature
  | .sizeIs .zero => if checkSize c.hdr c.buf.length 0 then .ok c else .error .invalidMsg
  | .sizeIs .any => if checkSize c.hdr c.buf.length c.hdr.size then .ok c else .error .invalidMsg
  | .sizeIs (.ofT ty) =>
    match structSize ty with
    | some n => if checkSize c.hdr c.buf.length n then .ok c else .error .invalidMsg
    | none => .error .other
  | .body ty =>
    match structSize ty with
    | none => .error .other
    | some n =>
      if !checkSize c.hdr c.buf.length n then .error .invalidMsg
      else match bodyValid ty c.buf with
        | some true => .ok c
        | _ => .error .invalidMsg
  | .oneFile e =>
    match takeSingle c.files with
    | (some f, _) => .ok { c with file := some f, files := none }
    | (none, _) => .error e
  | .vringFd =>
    -- buf.len() ≥ 8 is guaranteed by the preceding size guard; has_fd = bit 8 clear
    if c.buf.length < 8 then .error .invalidMsg else
    let v := leVal (c.buf.take 8)
    let hasFd := !bitSet v 8
    match takeSingle c.files with
    | (some f, _) => if hasFd then .ok { c with file := some f, files := none, index8 := v % 256 } else .error .invalidMsg
    | (none, dropped) =>
      if hasFd || !dropped.isEmpty then .error .invalidMsg else .ok { c with file := none, files := none, index8 := v % 256 }
  | .enable01 =>
    let n := g c.buf "VhostUserVringState" ["num"]
    if n == 0 || n == 1 then .ok c else .error .invalidParam

def runGuards (st : BSt) : Ctx → List Guard → Except Err Ctx
  | c, [] => .ok c
  | c, gd :: rest => match runGuard st c gd with
    | .ok c' => runGuards st c' rest
    | .error e => .error e

/-- files still held by the context (dropped when the arm returns) -/
def Ctx.leftover (c : Ctx) : List Fd := (c.files.getD []) ++ (match c.file with | some f => [f] | none => [])

structure Out where
  st : BSt
  calls : List Call := []
  out : Bytes := []       -- bytes written to the socket
  outFds : Nat := 0       -- descriptors attached to them (always produced by the handler)
  closed : List Fd := []  -- received descriptors closed by the library
  res : Res := .ok
  deriving Repr, Inhabited

/-- `send_ack_message(req, res)` followed by returning `res` -/
def ackOf (st : BSt) (h : Hdr) (ok : Bool) : Bytes :=
  if st.replyAck && h.needReply then replyHdr h 8 ++ leBytes 8 (if ok then 0 else 1) else []

def argsOf (method : String) (c : Ctx) : List Nat × Bytes × List Fd :=
  let f := match c.file with | some x => [x] | none => []
  match method with
  | "set_vring_num" | "set_vring_base" => ([g c.buf "VhostUserVringState" ["index"], g c.buf "VhostUserVringState" ["num"]], [], [])
  | "set_vring_enable" => ([g c.buf "VhostUserVringState" ["index"], g c.buf "VhostUserVringState" ["num"]], [], [])
  | "set_vring_addr" =>
    let s := "VhostUserVringAddr"
    ([g c.buf s ["index"], g c.buf s ["flags"], g c.buf s ["descriptor"], g c.buf s ["used"], g c.buf s ["available"],
      g c.buf s ["log"]], [], [])
  | "set_vring_call" | "set_vring_kick" | "set_vring_err" => ([c.index8], [], f)
  | "set_inflight_fd" =>
    let s := "VhostUserInflight"
    ([g c.buf s ["mmap_size"], g c.buf s ["mmap_offset"], g c.buf s ["num_queues"], g c.buf s ["queue_size"]], [], f)
  | "add_mem_region" | "remove_mem_region" =>
    let s := "VhostUserSingleMemoryRegion"
    ([g c.buf s ["region", "guest_phys_addr"], g c.buf s ["region", "memory_size"], g c.buf s ["region", "user_addr"],
      g c.buf s ["region", "mmap_offset"]], [], f)
  | _ => ([], [], f)

def regionsOf (buf : Bytes) : Nat → Nat → List Bytes
  | 0, _ => []
  | n+1, off => ((buf.drop off).take 32) :: regionsOf buf n (off + 32)

/-- the arm's action, after all guards passed -/
def runAct (st : BSt) (c : Ctx) (h : HOut) : Act → Out
  | .ack m =>
    let (a, p, f) := argsOf m c
    { st := st, calls := [⟨m, a, p, f⟩], out := ackOf st c.hdr h.ok, closed := c.files.getD [],
      res := if h.ok then .ok else .err .handlerErr }
  | .getFeatures =>
    if h.ok then
      { st := ({ st with virtio := h.v % 2^64 }).updateFlag, calls := [⟨"get_features", [], [], []⟩],
        out := replyHdr c.hdr 8 ++ leBytes 8 h.v, closed := c.leftover }
    else { st := st, calls := [⟨"get_features", [], [], []⟩], closed := c.leftover, res := .err .handlerErr }
  | .getProtocolFeatures =>
    if h.ok then
      { st := st.updateFlag, calls := [⟨"get_protocol_features", [], [], []⟩],
        out := replyHdr c.hdr 8 ++ leBytes 8 (h.v ||| 8), closed := c.leftover }
    else { st := st, calls := [⟨"get_protocol_features", [], [], []⟩], closed := c.leftover, res := .err .handlerErr }
  | .setFeatures =>
    let v := g c.buf "VhostUserU64" ["value"]
    let st' := ({ st with acked := v }).updateFlag
    { st := st', calls := [⟨"set_features", [v], [], []⟩], out := ackOf st' c.hdr h.ok, closed := c.leftover,
      res := if h.ok then .ok else .err .handlerErr }
  | .setProtocolFeatures =>
    let v := g c.buf "VhostUserU64" ["value"]
    let st' := ({ st with ackedProto := v }).updateFlag
    { st := st', calls := [⟨"set_protocol_features", [v], [], []⟩], out := ackOf st' c.hdr h.ok, closed := c.leftover,
      res := if h.ok then .ok else .err .handlerErr }
  | .replyU64 m =>
    if h.ok then { st := st, calls := [⟨m, [], [], []⟩], out := replyHdr c.hdr 8 ++ leBytes 8 h.v, closed := c.leftover }
    else { st := st, calls := [⟨m, [], [], []⟩], closed := c.leftover, res := .err .handlerErr }
  | .getVringBase =>
    let idx := g c.buf "VhostUserVringState" ["index"]
    if h.ok then
      { st := st, calls := [⟨"get_vring_base", [idx], [], []⟩],
        out := replyHdr c.hdr 8 ++ leBytes 4 idx ++ leBytes 4 h.v, closed := c.leftover }
    else { st := st, calls := [⟨"get_vring_base", [idx], [], []⟩], closed := c.leftover, res := .err .handlerErr }
  | .getInflight =>
    let s := "VhostUserInflight"
    let a := [g c.buf s ["mmap_size"], g c.buf s ["mmap_offset"], g c.buf s ["num_queues"], g c.buf s ["queue_size"]]
    if h.ok then
      -- the recording handler answers with the request's descriptor, `mmap_size` replaced by `v`
      { st := st, calls := [⟨"get_inflight_fd", a, [], []⟩],
        out := replyHdr c.hdr 24 ++ leBytes 8 h.v ++ leBytes 8 (g c.buf s ["mmap_offset"]) ++ leBytes 2 (g c.buf s ["num_queues"])
                ++ leBytes 2 (g c.buf s ["queue_size"]) ++ [0, 0, 0, 0],
        outFds := 1, closed := c.leftover }
    else { st := st, calls := [⟨"get_inflight_fd", a, [], []⟩], closed := c.leftover, res := .err .handlerErr }
  | .getShmem =>
    if h.ok then
      let sizes := (h.b ++ List.replicate 2048 0).take 2048
      { st := st, calls := [⟨"get_shmem_config", [], [], []⟩],
        out := replyHdr c.hdr 2056 ++ leBytes 4 h.v ++ leBytes 4 0 ++ sizes, closed := c.leftover }
    else { st := st, calls := [⟨"get_shmem_config", [], [], []⟩], closed := c.leftover, res := .err .handlerErr }
  | .setLogBase =>
    let s := "VhostUserLog"
    let f := match c.file with | some x => [x] | none => []
    let cl := ⟨"set_log_base", [g c.buf s ["mmap_size"], g c.buf s ["mmap_offset"]], [], f⟩
    if h.ok then { st := st, calls := [cl], out := replyHdr c.hdr 16 ++ c.buf, closed := c.files.getD [] }
    else { st := st, calls := [cl], closed := c.files.getD [], res := .err .handlerErr }
  | .fdOrEmpty m =>
    let a := if m == "get_shared_object" then [g c.buf "VhostUserSharedMsg" ["uuid"]] else []
    { st := st, calls := [⟨m, a, [], []⟩], out := replyHdr c.hdr 0, outFds := if h.ok then 1 else 0,
      closed := c.leftover }
  | .deviceStateFd =>
    let s := "VhostUserTransferDeviceState"
    let f := match c.file with | some x => [x] | none => []
    let cl := ⟨"set_device_state_fd", [g c.buf s ["direction"], g c.buf s ["phase"]], [], f⟩
    let (v, n) := if !h.ok then (0x101, 0) else if h.file then (0, 1) else (0x100, 0)
    { st := st, calls := [cl], out := replyHdr c.hdr 8 ++ leBytes 8 v, outFds := n, closed := c.files.getD [] }
  | .checkDeviceState =>
    { st := st, calls := [⟨"check_device_state", [], [], []⟩],
      out := replyHdr c.hdr 8 ++ leBytes 8 (if h.ok then 0 else 1), closed := c.leftover }
  | .getConfig =>
    let s := "VhostUserConfig"
    match structSize s with
    | none => { st := st, res := .err .other, closed := c.leftover }
    | some n =>
      if c.buf.length > 0x1000 || c.buf.length < n then { st := st, res := .err .invalidMsg, closed := c.leftover } else
      match bodyValid s (c.buf.take n) with
      | some true =>
        let off := g c.buf s ["offset"]; let sz := g c.buf s ["size"]; let fl := g c.buf s ["flags"]
        if c.buf.length - n != sz then { st := st, res := .err .invalidMsg, closed := c.leftover } else
        let cl := ⟨"get_config", [off, sz, fl], [], []⟩
        if h.ok && h.b.length == sz then
          { st := st, calls := [cl], out := replyHdr c.hdr (n + sz) ++ leBytes 4 off ++ leBytes 4 sz ++ leBytes 4 fl ++ h.b,
            closed := c.leftover }
        else
          { st := st, calls := [cl], out := replyHdr c.hdr n ++ leBytes 4 off ++ leBytes 4 0 ++ leBytes 4 fl,
            closed := c.leftover }
      | _ => { st := st, res := .err .invalidMsg, closed := c.leftover }
  | .setConfig =>
    let s := "VhostUserConfig"
    let fail (e : Err) : Out := { st := st, out := ackOf st c.hdr false, res := .err e, closed := c.leftover }
    match structSize s with
    | none => fail .other
    | some n =>
      if c.buf.length > 0x1000 || c.buf.length < n then fail .invalidMsg else
      match bodyValid s (c.buf.take n) with
      | some true =>
        let off := g c.buf s ["offset"]; let sz := g c.buf s ["size"]; let fl := g c.buf s ["flags"]
        if c.buf.length - n != sz then fail .invalidMsg else
        { st := st, calls := [⟨"set_config", [off, fl], c.buf.drop n, []⟩], out := ackOf st c.hdr h.ok,
          closed := c.leftover, res := if h.ok then .ok else .err .handlerErr }
      | _ => fail .invalidMsg
  | .memTable =>
    let fail (e : Err) : Out := { st := st, out := ackOf st c.hdr false, res := .err e, closed := c.leftover }
    if !checkSize c.hdr c.buf.length c.hdr.size then fail .invalidMsg else
    match structSize "VhostUserMemory", structSize "VhostUserMemoryRegion" with
    | some hs, some rs =>
      if c.buf.length < hs then fail .invalidMsg else
      match bodyValid "VhostUserMemory" (c.buf.take hs) with
      | some true =>
        let n := g c.buf "VhostUserMemory" ["num_regions"]
        if c.buf.length != hs + n * rs then fail .invalidMsg else
        match c.files with
        | none => fail .invalidMsg
        | some fs =>
          if fs.length != n then fail .invalidMsg else
          let regs := regionsOf c.buf n hs
          if regs.all (fun r => bodyValid "VhostUserMemoryRegion" r == some true) then
            let a := regs.flatMap fun r =>
              [g r "VhostUserMemoryRegion" ["guest_phys_addr"], g r "VhostUserMemoryRegion" ["memory_size"],
               g r "VhostUserMemoryRegion" ["user_addr"], g r "VhostUserMemoryRegion" ["mmap_offset"]]
            { st := st, calls := [⟨"set_mem_table", a, [], fs⟩], out := ackOf st c.hdr h.ok,
              res := if h.ok then .ok else .err .handlerErr }
          else fail .invalidMsg
      | _ => fail .invalidMsg
    | _, _ => fail .other
  | .backendReqFd =>
    match takeSingle c.files with
    | (some f, _) => { st := st, calls := [⟨"set_backend_req_fd", [], [], [f]⟩], out := ackOf st c.hdr true }
    | (none, dropped) => { st := st, out := ackOf st c.hdr false, res := .err .invalidMsg, closed := dropped }
  | .gpuSocket =>
    match takeSingle c.files with
    | (some f, _) => { st := st, calls := [⟨"set_gpu_socket", [], [], [f]⟩], out := ackOf st c.hdr h.ok,
                       res := if h.ok then .ok else .err .handlerErr }
    | (none, dropped) => { st := st, out := ackOf st c.hdr false, res := .err .invalidMsg, closed := dropped }

/-- dispatch of a framed request -/
def dispatch (st : BSt) (hdr : Hdr) (buf : Bytes) (files : Option (List Fd)) (h : HOut) : Out :=
  match arms.find? (·.code == hdr.code) with
  | none => { st := st, res := .err .invalidMsg, closed := files.getD [] }
  | some arm =>
    let c : Ctx := { hdr := hdr, buf := buf, files := files }
    match runGuards st c arm.guards with
    | .error e => { st := st, res := .err e, closed := files.getD [] }
    | .ok c' => runAct st c' h arm.act

structure StepOut (σ : Type) where
  o : Out
  rest : List Cell
  cst : σ

/-- one `handle_request()` over the stream -/
def step {σ : Type} (ch : Chooser σ) (isClosed : Bool) (st : BSt) (cst : σ) (s : List Cell) (h : HOut) : StepOut σ :=
  -- recv_header
  let r := recvAll ch 32 isClosed 12 cst s true
  match r.outcome with
  | .blocked => ⟨{ st := st, res := .blocked, closed := r.closed ++ r.fds }, r.rest, r.st⟩
  | _ =>
  if r.bytes.length == 0 then ⟨{ st := st, res := .err .disconnected, closed := r.closed ++ r.fds }, r.rest, r.st⟩
  else if r.bytes.length != 12 then ⟨{ st := st, res := .err .partialMsg, closed := r.closed ++ r.fds }, r.rest, r.st⟩
  else
  let hdr : Hdr := ⟨leVal (r.bytes.take 4), leVal ((r.bytes.drop 4).take 4), leVal ((r.bytes.drop 8).take 4)⟩
  let files : Option (List Fd) := if r.fds.isEmpty then none else some r.fds
  match (decHeader r.bytes).map (·.isValid (Gen.Codes.FrontendReq.table.map (·.2))) with
  | some true =>
    -- check_attached_files
    if files.isSome && !fdCodes.contains hdr.code then
      ⟨{ st := st, res := .err .invalidMsg, closed := r.closed ++ r.fds }, r.rest, r.st⟩
    else if hdr.size == 0 then
      let o := dispatch st hdr [] files h
      ⟨{ o with closed := r.closed ++ o.closed }, r.rest, r.st⟩
    else
      let d := recvData ch isClosed hdr.size r.st r.rest
      match d.outcome with
      | .blocked => ⟨{ st := st, res := .blocked, closed := r.closed ++ r.fds }, d.rest, d.st⟩
      | .short => ⟨{ st := st, res := .err .invalidMsg, closed := r.closed ++ r.fds }, d.rest, d.st⟩
      | .enobufs => ⟨{ st := st, res := .err .sockRetry, closed := r.closed ++ r.fds ++ d.lost }, d.rest, d.st⟩
      | .full =>
        let o := dispatch st hdr d.bytes files h
        ⟨{ o with closed := r.closed ++ o.closed }, d.rest, d.st⟩
  | _ => ⟨{ st := st, res := .err .invalidMsg, closed := r.closed ++ r.fds }, r.rest, r.st⟩

end Model.BackendSrv
