import VhostModel.Base.CtorSig
/-!
# What the constructors of the wire structs store (hand-written; C01 / C02)

The table the models rely on when they encode a message "from its arguments": every field of a wire struct receives the
argument of the same meaning unchanged, padding is zero, `VhostUserVringAddr::from_config_data` stores the log address
whether or not `VHOST_VRING_F_LOG` is set, `VhostUserShMemConfig::new` stores `memory[id]` for **every** id `0..=255`,
the header constructor keeps only the defined flag bits and sets version 1.  `Props/Ctors.lean` proves that the table
generated from the source (`Gen.Ctors.ctors`) is this one, and proves the properties of it.
-/
namespace Model.Ctors
open Base.CtorSig

def expected : List Ctor := [
  { ty := "VhostUserMsgHeader", fn := "new", lit := "VhostUserMsgHeader", params := [("request", "R"), ("flags", "u32"), ("size", "u32")],
    fields := [("request", .into "request"), ("flags", .masked "flags" "VhostUserHeaderFlag::ALL_FLAGS" 1), ("size", .param "size"), ("_r", .phantom)] },
  { ty := "VhostUserMsgHeader", fn := "default", lit := "VhostUserMsgHeader", params := [],
    fields := [("request", .lit 0), ("flags", .lit 1), ("size", .lit 0), ("_r", .phantom)] },
  { ty := "VhostUserU64", fn := "new", lit := "VhostUserU64", params := [("value", "u64")],
    fields := [("value", .param "value")] },
  { ty := "VhostUserMemory", fn := "new", lit := "VhostUserMemory", params := [("cnt", "u32")],
    fields := [("num_regions", .param "cnt"), ("padding1", .lit 0)] },
  { ty := "VhostUserMemoryRegion", fn := "new", lit := "VhostUserMemoryRegion", params := [("guest_phys_addr", "u64"), ("memory_size", "u64"), ("user_addr", "u64"), ("mmap_offset", "u64")],
    fields := [("guest_phys_addr", .param "guest_phys_addr"), ("memory_size", .param "memory_size"), ("user_addr", .param "user_addr"), ("mmap_offset", .param "mmap_offset")] },
  { ty := "VhostUserSingleMemoryRegion", fn := "new", lit := "VhostUserSingleMemoryRegion", params := [("guest_phys_addr", "u64"), ("memory_size", "u64"), ("user_addr", "u64"), ("mmap_offset", "u64")],
    fields := [("padding", .lit 0), ("region", .ctor "VhostUserMemoryRegion" "new" ["guest_phys_addr", "memory_size", "user_addr", "mmap_offset"])] },
  { ty := "VhostUserShMemConfig", fn := "default", lit := "Self", params := [],
    fields := [("nregions", .lit 0), ("padding", .lit 0), ("memory_sizes", .zeros 256)] },
  { ty := "VhostUserShMemConfig", fn := "new", lit := "Self", params := [("nregions", "u32"), ("memory", "&[u64]")],
    fields := [("nregions", .param "nregions"), ("padding", .lit 0), ("memory_sizes", .prefixPad "memory" 256)] },
  { ty := "VhostUserVringState", fn := "new", lit := "VhostUserVringState", params := [("index", "u32"), ("num", "u32")],
    fields := [("index", .param "index"), ("num", .param "num")] },
  { ty := "VhostUserVringAddr", fn := "new", lit := "VhostUserVringAddr", params := [("index", "u32"), ("flags", "VhostUserVringAddrFlags"), ("descriptor", "u64"), ("used", "u64"), ("available", "u64"), ("log", "u64")],
    fields := [("index", .param "index"), ("flags", .bits "flags"), ("descriptor", .param "descriptor"), ("used", .param "used"), ("available", .param "available"), ("log", .param "log")] },
  { ty := "VhostUserVringAddr", fn := "from_config_data", lit := "VhostUserVringAddr", params := [("index", "u32"), ("config_data", "&VringConfigData")],
    fields := [("index", .param "index"), ("flags", .field "config_data" "flags"), ("descriptor", .field "config_data" "desc_table_addr"), ("used", .field "config_data" "used_ring_addr"), ("available", .field "config_data" "avail_ring_addr"), ("log", .fieldOr "config_data" "log_addr" 0)] },
  { ty := "VhostUserConfig", fn := "new", lit := "VhostUserConfig", params := [("offset", "u32"), ("size", "u32"), ("flags", "VhostUserConfigFlags")],
    fields := [("offset", .param "offset"), ("size", .param "size"), ("flags", .bits "flags")] },
  { ty := "VhostUserInflight", fn := "new", lit := "VhostUserInflight", params := [("mmap_size", "u64"), ("mmap_offset", "u64"), ("num_queues", "u16"), ("queue_size", "u16")],
    fields := [("mmap_size", .param "mmap_size"), ("mmap_offset", .param "mmap_offset"), ("num_queues", .param "num_queues"), ("queue_size", .param "queue_size")] },
  { ty := "VhostUserLog", fn := "new", lit := "VhostUserLog", params := [("mmap_size", "u64"), ("mmap_offset", "u64")],
    fields := [("mmap_size", .param "mmap_size"), ("mmap_offset", .param "mmap_offset")] },
  { ty := "VhostUserTransferDeviceState", fn := "new", lit := "VhostUserTransferDeviceState", params := [("direction", "VhostTransferStateDirection"), ("phase", "VhostTransferStatePhase")],
    fields := [("direction", .cast "direction" "u32"), ("phase", .cast "phase" "u32")] },
  { ty := "DescStateSplit", fn := "new", lit := "Self", params := [],
    fields := [("*", .dflt)] },
  { ty := "QueueRegionSplit", fn := "new", lit := "QueueRegionSplit", params := [("features", "u64"), ("queue_size", "u16")],
    fields := [("features", .param "features"), ("version", .lit 1), ("desc_num", .param "queue_size"), ("last_batch_head", .lit 0), ("used_idx", .lit 0), ("desc", .lit 0)] },
  { ty := "DescStatePacked", fn := "new", lit := "Self", params := [],
    fields := [("*", .dflt)] },
  { ty := "QueueRegionPacked", fn := "new", lit := "QueueRegionPacked", params := [("features", "u64"), ("queue_size", "u16")],
    fields := [("features", .param "features"), ("version", .lit 1), ("desc_num", .param "queue_size"), ("free_head", .lit 0), ("old_free_head", .lit 0), ("used_idx", .lit 0), ("old_used_idx", .lit 0), ("used_wrap_counter", .lit 0), ("old_used_wrap_counter", .lit 0), ("padding", .zeros 7), ("desc", .lit 0)] },
  { ty := "VhostUserGpuMsgHeader", fn := "new", lit := "VhostUserGpuMsgHeader", params := [("request", "R"), ("flags", "u32"), ("size", "u32")],
    fields := [("request", .into "request"), ("flags", .param "flags"), ("size", .param "size"), ("_r", .phantom)] },
  { ty := "VhostUserGpuMsgHeader", fn := "default", lit := "VhostUserGpuMsgHeader", params := [],
    fields := [("request", .lit 0), ("flags", .lit 0), ("size", .lit 0), ("_r", .phantom)] },
  { ty := "VirtioGpuRespGetEdid", fn := "default", lit := "VirtioGpuRespGetEdid", params := [],
    fields := [("hdr", .ctor "VirtioGpuCtrlHdr" "default" []), ("size", .lit 0), ("padding", .lit 0), ("edid", .zeros 1024)] }
]


end Model.Ctors
