import VhostModel.Model.Frontend
/-!
# Model: `Endpoint::<H>::recv_body::<T>` and `is_reply_for`, generic in the header type

`connection.rs`: one scatter read of `size_of::<H>() + size_of::<T>()` bytes (`recv_into_iovec_all`), then
`bytes != total ⇒ PartialMessage`, `!hdr.is_valid() || !body.is_valid() ⇒ InvalidMessage`.  The header
validator (`hdrOk`) and the body validator (`bodyOk`) are parameters, so the same definition serves the
backend→frontend channel (`VhostUserMsgHeader<BackendReq>`) and the GPU channel
(`VhostUserGpuMsgHeader<GpuBackendReq>`).  Types are shared with `Model.Frontend`.
-/
namespace Model.RecvBody
open Base Model.Stream Model.Msgs
open Model.BackendSrv (Err Hdr)
open Model.Frontend (Reply RecvRes RecvOut parseHdr)

/-- `recv_body::<T>` with `size_of::<T>() = n` -/
def recvBody {σ : Type} (ch : Chooser σ) (isClosed : Bool) (hdrOk : Bytes → Bool) (n : Nat) (bodyOk : Bytes → Bool)
    (cst : σ) (s : List Cell) : RecvOut σ :=
  let r := recvAll ch 32 isClosed (12 + n) cst s true
  match r.outcome with
  | .blocked => ⟨.blocked, r.rest, r.st, r.closed ++ r.fds⟩
  | _ =>
    if r.bytes.length != 12 + n then ⟨.err .partialMsg, r.rest, r.st, r.closed ++ r.fds⟩
    else
      let hb := r.bytes.take 12
      let body := r.bytes.drop 12
      if !hdrOk hb || !bodyOk body then ⟨.err .invalidMsg, r.rest, r.st, r.closed ++ r.fds⟩
      else ⟨.ok ⟨parseHdr hb, body, [], if r.fds.isEmpty then none else some r.fds⟩, r.rest, r.st, r.closed⟩

/-- `reply.is_reply_for(req)` on a channel whose request codes are `codes`:
both codes known, reply has REPLY (bit 2), request has not, same code -/
def isReplyFor (codes : List Nat) (reply req : Hdr) : Bool :=
  codes.contains reply.code && codes.contains req.code && reply.isReply && !req.isReply && reply.code == req.code

/-- header validator of the backend→frontend channel (generated from `message.rs`) -/
def hdrValidB (bs : Bytes) : Bool :=
  match (decHeader bs).map (·.isValid (Gen.Codes.BackendReq.table.map (·.2))) with
  | some true => true
  | _ => false

/-- header validator of the GPU channel (generated from `gpu_message.rs`) -/
def hdrValidGpu (bs : Bytes) : Bool :=
  match (decGpuHeader bs).map (·.isValid (Gen.Codes.GpuBackendReq.table.map (·.2))) with
  | some true => true
  | _ => false

def backendCodes : List Nat := Gen.Codes.BackendReq.table.map (·.2)
def gpuCodes : List Nat := Gen.Codes.GpuBackendReq.table.map (·.2)

/-- `VhostUserU64::is_valid` on 8 bytes -/
def u64Ok (bs : Bytes) : Bool :=
  match (decU64 bs).map (·.isValid) with
  | some true => true
  | _ => false

end Model.RecvBody
