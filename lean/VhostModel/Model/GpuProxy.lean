import VhostModel.Model.RecvBody
/-!
# Model: the GPU proxy (`gpu_backend_req.rs`, `GpuBackend` / `BackendInternal`)

Every public method of `GpuBackend` is a row of `methods`: request code, how the request is written
(`send_header` — header only; `send_message` — header + fixed body; `send_message_with_payload` — header + body +
byte payload), whether an optional descriptor may be attached, and which reply (if any) is read by `recv_reply::<V>`.
Headers are `VhostUserGpuMsgHeader::new(code, 0, len)`: the flags word is stored verbatim (no version bits), `len` is
the body size plus the payload length.  `MAX_MSG_SIZE` of the GPU header type is `u32::MAX`.
`recv_reply::<V>`: `check_state`, `recv_body::<V>` (GPU header validator: known code ∧ flags ⊆ {REPLY}), then
`is_reply_for`, no descriptors, body validator (the trait default for every reply type).
All errors surface as `io::Error::other(format!(..))`: only ok / error is observable.
-/
namespace Model.GpuProxy
open Base Model.Stream Model.Msgs Model.RecvBody
open Model.BackendSrv (Err Hdr encHdr)
open Model.Frontend (Reply RecvRes RecvOut)

inductive ReplyTy where
  | none | u64 | displayInfo | edid | empty
  deriving Repr, DecidableEq, Inhabited

/-- the struct `V` of `recv_reply::<V>` -/
def ReplyTy.ty : ReplyTy → Option String
  | .none => Option.none
  | .u64 => some "VhostUserU64"
  | .displayInfo => some "VirtioGpuRespDisplayInfo"
  | .edid => some "VirtioGpuRespGetEdid"
  | .empty => some "VhostUserEmpty"

inductive SendKind where
  | header     -- `send_header(request, None)`
  | message    -- `send_message(request, body, fds)`
  | payload    -- `send_message_with_payload(request, body, data, None)`
  deriving Repr, DecidableEq, Inhabited

structure Method where
  name : String
  code : Nat
  send : SendKind
  bodyTy : Option String
  fd : Bool               -- takes `fd: Option<&impl AsRawFd>`
  reply : ReplyTy
  deriving Repr, DecidableEq, Inhabited

/-- the public methods of `GpuBackend`, in source order -/
def methods : List Method := [
  ⟨"get_protocol_features", 1,  .header,  none, false, .u64⟩,
  ⟨"set_protocol_features", 2,  .message, some "VhostUserU64", false, .none⟩,
  ⟨"get_display_info",      3,  .header,  none, false, .displayInfo⟩,
  ⟨"get_edid",              11, .message, some "VhostUserGpuEdidRequest", false, .edid⟩,
  ⟨"set_scanout",           7,  .message, some "VhostUserGpuScanout", false, .none⟩,
  ⟨"update_scanout",        8,  .payload, some "VhostUserGpuUpdate", false, .none⟩,
  ⟨"set_dmabuf_scanout",    9,  .message, some "VhostUserGpuDMABUFScanout", true, .none⟩,
  ⟨"set_dmabuf_scanout2",   12, .message, some "VhostUserGpuDMABUFScanout2", true, .none⟩,
  ⟨"update_dmabuf_scanout", 10, .message, some "VhostUserGpuUpdate", false, .empty⟩,
  ⟨"cursor_pos",            4,  .message, some "VhostUserGpuCursorPos", false, .none⟩,
  ⟨"cursor_pos_hide",       5,  .message, some "VhostUserGpuCursorPos", false, .none⟩,
  ⟨"cursor_update",         6,  .payload, some "VhostUserGpuCursorUpdate", false, .none⟩
]

/-- `MsgHeader::MAX_MSG_SIZE` for `VhostUserGpuMsgHeader` -/
def maxMsgSize : Nat := 2^32 - 1

structure GSt where
  error : Option Nat := none   -- `set_failed`
  deriving Repr, DecidableEq, Inhabited

structure Call where
  name : String
  body : Bytes := []      -- raw bytes of the argument struct
  payload : Bytes := []   -- `data`
  fds : List Fd := []     -- at most one
  deriving Repr, Inhabited

structure Req where
  m : Method
  hdr : Hdr
  bytes : Bytes           -- header ++ body ++ payload, written with one `sendmsg` loop
  fds : List Fd
  deriving Repr, Inhabited

def sizeOfTy (ty : String) : Option Nat := if ty == "VhostUserEmpty" then some 0 else structSize ty

/-- `check_state`, header construction, the size checks of `Endpoint::send_message*` -/
def request (st : GSt) (c : Call) : Except Err Req :=
  match methods.find? (·.name == c.name) with
  | none => .error .other
  | some m =>
    match st.error with
    | some _ => .error .sockBroken
    | none =>
      match m.send, m.bodyTy with
      | .header, _ => .ok ⟨m, ⟨m.code, 0, 0⟩, encHdr m.code 0 0, []⟩
      | .message, some ty =>
        (match structSize ty with
         | none => .error .other
         | some n =>
           if n > maxMsgSize then .error .oversized
           else if c.body.length != n then .error .other
           else .ok ⟨m, ⟨m.code, 0, n⟩, encHdr m.code 0 n ++ c.body, if m.fd then c.fds.take 1 else []⟩)
      | .payload, some ty =>
        (match structSize ty with
         | none => .error .other
         | some n =>
           if n > maxMsgSize then .error .oversized
           else if c.payload.length > maxMsgSize - n then .error .oversized
           else if c.body.length != n then .error .other
           else
             let len := (n + c.payload.length) % 2^32        -- `len as u32`
             .ok ⟨m, ⟨m.code, 0, len⟩, encHdr m.code 0 len ++ c.body ++ c.payload, []⟩)
      | _, none => .error .other

/-- the validator of a reply body type: every `V` relies on the trait default (`Gen.validatorKinds`) -/
def replyBodyOk (ty : String) (bs : Bytes) : Bool :=
  if ty == "VhostUserU64" then u64Ok bs
  else (Gen.validatorKinds.find? (·.1 == ty)).map (·.2) == some "default"

/-- `recv_reply::<V>(hdr)` -/
def recvReply {σ : Type} (ch : Chooser σ) (isClosed : Bool) (st : GSt) (rh : Hdr) (ty : String) (cst : σ) (str : List Cell) :
    RecvOut σ :=
  match st.error with
  | some _ => ⟨.err .sockBroken, str, cst, []⟩
  | none =>
    match sizeOfTy ty with
    | none => ⟨.err .other, str, cst, []⟩
    | some n =>
      let o := recvBody ch isClosed hdrValidGpu n (replyBodyOk ty) cst str
      match o.res with
      | .ok r =>
        if !isReplyFor gpuCodes r.hdr rh || r.files.isSome || !replyBodyOk ty r.body then
          ⟨.err .invalidMsg, o.rest, o.cst, o.closed ++ r.files.getD []⟩
        else o
      | _ => o

inductive Ret where
  | unit
  | val (v : Nat)
  | bytes (b : Bytes)
  | err (e : Err)
  | blocked
  deriving Repr, DecidableEq, Inhabited

structure CallOut (σ : Type) where
  ret : Ret
  wire : Bytes
  wireFds : List Fd
  rest : List Cell
  cst : σ
  closed : List Fd

/-- second half of a call, after the request was written -/
def callRecv {σ : Type} (ch : Chooser σ) (isClosed : Bool) (st : GSt) (req : Req) (cst : σ) (str : List Cell) : CallOut σ :=
  match req.m.reply.ty with
  | none => ⟨.unit, req.bytes, req.fds, str, cst, []⟩
  | some ty =>
    let o := recvReply ch isClosed st req.hdr ty cst str
    match o.res with
    | .blocked => ⟨.blocked, req.bytes, req.fds, o.rest, o.cst, o.closed⟩
    | .err e => ⟨.err e, req.bytes, req.fds, o.rest, o.cst, o.closed⟩
    | .ok r =>
      let ret := match req.m.reply with
        | .u64 => Ret.val (leVal r.body)
        | .empty => .unit
        | _ => .bytes r.body
      ⟨ret, req.bytes, req.fds, o.rest, o.cst, o.closed⟩

def call {σ : Type} (ch : Chooser σ) (isClosed : Bool) (st : GSt) (c : Call) (cst : σ) (str : List Cell) : CallOut σ :=
  match request st c with
  | .error e => ⟨.err e, [], [], str, cst, []⟩
  | .ok req => callRecv ch isClosed st req cst str

end Model.GpuProxy
