import VhostModel.Base
import VhostModel.Gen.Layout
import VhostModel.Gen.Validators
/-!
# Model: message structs as bytes

Field access through the layout that `Base.layoutOf` computes from the *generated* struct table
(`Gen.Layout.structs`, i.e. from the `#[repr(..)] struct` definitions in the source as they are now).
-/
namespace Model.Msgs
open Base

def layoutOf (name : String) : Option Layout := layoutByName Gen.Layout.structs name

def nestedOf (s f : String) : Option String :=
  match Gen.Layout.structs.find? (·.name == s) with
  | none => none
  | some sd => match sd.fields.find? (·.1 == f) with
    | some (_, .struct n) => some n
    | _ => none

def fieldAt : String → List String → Option (Nat × Nat)
  | _, [] => none
  | s, [f] => (layoutOf s).bind fun l => (l.fields.find? (·.1 == f)).map (·.2)
  | s, f :: rest =>
    match (layoutOf s).bind fun l => (l.fields.find? (·.1 == f)).map (·.2), nestedOf s f with
    | some (off, _), some inner => (fieldAt inner rest).map fun (o, w) => (off + o, w)
    | _, _ => none

def getField (bs : Bytes) (s : String) (path : List String) : Option Nat :=
  match fieldAt s path with
  | some (off, w) => if off + w ≤ bs.length then some (leVal ((bs.drop off).take w)) else none
  | none => none

def structSize (s : String) : Option Nat := (layoutOf s).map (·.size)

/-! decoders into the generated validator records -/
open Gen

def bv (n : Nat) (v : Nat) : BitVec n := BitVec.ofNat n v

def decHeader (bs : Bytes) : Option VhostUserMsgHeader := do
  let s := "VhostUserMsgHeader"
  if bs.length ≠ (← structSize s) then none
  pure ⟨bv 32 (← getField bs s ["request"]), bv 32 (← getField bs s ["flags"]), bv 32 (← getField bs s ["size"])⟩

def decGpuHeader (bs : Bytes) : Option VhostUserGpuMsgHeader := do
  let s := "VhostUserGpuMsgHeader"
  if bs.length ≠ (← structSize s) then none
  pure ⟨bv 32 (← getField bs s ["request"]), bv 32 (← getField bs s ["flags"]), bv 32 (← getField bs s ["size"])⟩

def decU64 (bs : Bytes) : Option VhostUserU64 := do
  let s := "VhostUserU64"
  if bs.length ≠ (← structSize s) then none
  pure ⟨bv 64 (← getField bs s ["value"])⟩

def decMemory (bs : Bytes) : Option VhostUserMemory := do
  let s := "VhostUserMemory"
  if bs.length ≠ (← structSize s) then none
  pure ⟨bv 32 (← getField bs s ["num_regions"]), bv 32 (← getField bs s ["padding1"])⟩

def decRegionAt (bs : Bytes) (s : String) (pre : List String) : Option VhostUserMemoryRegion := do
  pure ⟨bv 64 (← getField bs s (pre ++ ["guest_phys_addr"])), bv 64 (← getField bs s (pre ++ ["memory_size"])),
        bv 64 (← getField bs s (pre ++ ["user_addr"])), bv 64 (← getField bs s (pre ++ ["mmap_offset"]))⟩

def decRegion (bs : Bytes) : Option VhostUserMemoryRegion := do
  if bs.length ≠ (← structSize "VhostUserMemoryRegion") then none
  decRegionAt bs "VhostUserMemoryRegion" []

def decSingle (bs : Bytes) : Option VhostUserSingleMemoryRegion := do
  let s := "VhostUserSingleMemoryRegion"
  if bs.length ≠ (← structSize s) then none
  pure ⟨bv 64 (← getField bs s ["padding"]), ← decRegionAt bs s ["region"]⟩

def decVringState (bs : Bytes) : Option VhostUserVringState := do
  let s := "VhostUserVringState"
  if bs.length ≠ (← structSize s) then none
  pure ⟨bv 32 (← getField bs s ["index"]), bv 32 (← getField bs s ["num"])⟩

def decVringAddr (bs : Bytes) : Option VhostUserVringAddr := do
  let s := "VhostUserVringAddr"
  if bs.length ≠ (← structSize s) then none
  pure ⟨bv 32 (← getField bs s ["index"]), bv 32 (← getField bs s ["flags"]), bv 64 (← getField bs s ["descriptor"]),
        bv 64 (← getField bs s ["used"]), bv 64 (← getField bs s ["available"]), bv 64 (← getField bs s ["log"])⟩

def decConfig (bs : Bytes) : Option VhostUserConfig := do
  let s := "VhostUserConfig"
  if bs.length ≠ (← structSize s) then none
  pure ⟨bv 32 (← getField bs s ["offset"]), bv 32 (← getField bs s ["size"]), bv 32 (← getField bs s ["flags"])⟩

def decInflight (bs : Bytes) : Option VhostUserInflight := do
  let s := "VhostUserInflight"
  if bs.length ≠ (← structSize s) then none
  pure ⟨bv 64 (← getField bs s ["mmap_size"]), bv 64 (← getField bs s ["mmap_offset"]),
        bv 16 (← getField bs s ["num_queues"]), bv 16 (← getField bs s ["queue_size"])⟩

def decLog (bs : Bytes) : Option VhostUserLog := do
  let s := "VhostUserLog"
  if bs.length ≠ (← structSize s) then none
  pure ⟨bv 64 (← getField bs s ["mmap_size"]), bv 64 (← getField bs s ["mmap_offset"])⟩

def decShared (bs : Bytes) : Option VhostUserSharedMsg := do
  let s := "VhostUserSharedMsg"
  if bs.length ≠ (← structSize s) then none
  pure ⟨bv 128 (← getField bs s ["uuid"])⟩

def decTransfer (bs : Bytes) : Option VhostUserTransferDeviceState := do
  let s := "VhostUserTransferDeviceState"
  if bs.length ≠ (← structSize s) then none
  pure ⟨bv 32 (← getField bs s ["direction"]), bv 32 (← getField bs s ["phase"])⟩

def decMMap (bs : Bytes) : Option VhostUserMMap := do
  let s := "VhostUserMMap"
  if bs.length ≠ (← structSize s) then none
  pure ⟨bv 8 (← getField bs s ["shmid"]), bv 64 (← getField bs s ["fd_offset"]), bv 64 (← getField bs s ["shm_offset"]),
        bv 64 (← getField bs s ["len"]), bv 64 (← getField bs s ["flags"])⟩

end Model.Msgs
