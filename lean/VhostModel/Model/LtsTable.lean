import VhostModel.Base.LtsSig
import VhostModel.Model.Worker
import VhostModel.Model.Shutdown
/-!
# Which code segment each step of `Model.Worker` (C12) and `Model.Shutdown` (C16) stands for

Written by hand from the headers of `Model/Worker.lean` and `Model/Shutdown.lean`: per function the *segments* — what runs
from function entry, and from every hold point of feature `verif-hooks`, up to the next hold points — in the vocabulary of
`Base.HandlerSig` / `Base.LtsSig`.  A segment is a residual program: the enclosing constructs the hold point lies in are
kept as frames (`helperCall` with the rest of the helper's body, `loopFrom` / `forFrom` / `forVringFrom` with the rest of the
iteration and the loop's body).  `Props.LtsSteps` proves that these tables

* are the segments the translator derives from the source (`worker_segments_match_source`,
  `control_segments_match_source`, `shutdown_segments_match_source`), and
* are true of the executable transition systems: each step function is the *interpretation* of its segment
  (`Lemmas/LtsWorker.lean`, `LtsControl.lean`, `LtsShutdown.lean`, `LtsTeardown.lean`).

## steps ↦ segments

`Model.Worker`, worker thread (`wStep`, by `wpc`):

| `wpc` | segment of `run` | ends at |
|---|---|---|
| `wait` | `worker.wait` | `worker.woken` (or blocked in `epoll.wait`) |
| `woken` | `worker.woken` | `worker.pre_read`, or `worker.wait` (not ready) |
| `checked` | `worker.pre_read` followed by `worker.read_kick` (the model has no state for the hold point in between: the second segment looks at the local `enabled` only) | `worker.dispatch`, `worker.wait`, or the thread ends |
| `toDispatch` | `worker.dispatch` | `worker.wait` |

`Model.Worker`, control thread (`cStep`, by message and stage): `ctlSeg`.

`Model.Shutdown`: `dEnter` … `dFinal` ↦ segments of `daemon_thread`; `cStore`, `cShut` ↦ the two segments of `shutdown`;
`wJoin`, `wClassify`, `wNoThread` ↦ `wait` (no hold point inside: the model splits the one segment at `join`);
`drop` ↦ `daemon_drop`; `TD.svSignal` ↦ the tail of `serve`; `TD.hBegin/hSignal/hJoin` ↦ `handler_drop`;
`TD.wkExit` ↦ `run` from `worker.wait` with the exit event.
-/
namespace Model.LtsTable
open Base Base.LEvent

/-! ## the worker loop -/

/-- `let evset = match EventSet::from_bits(event.events) { .. }; let ev_type = ..; [hold]`: the head of an iteration of
the loop over the events of one `epoll.wait` -/
def eventHead : List LEvent := [
  .matchOn "evset" "EventSet::from_bits(event.events)" [
    .arm "Some(evset)" "" [] [.value "evset"],
    .arm "None" "" [] [.bind "evbits" "event.events", .libCall "println!", .cont ""]],
  .bind "ev_type" "event.data() as u16",
  .hold "worker.woken"]

def events : String := "events.iter().take(num_events)"

/-- back at the top of `'epoll: loop` -/
def epollTop : List LEvent := [.hold "worker.wait"]

/-- we are in `handle_event`, called from the loop over the events, inside `'epoll: loop`; `after`: what `run` does with
the result -/
def inHandleEvent (rest : List LEvent) (after : List LEvent) (tail : List LEvent) : List LEvent :=
  .loopFrom "'epoll" "" [
    .forFrom events (.helperCall "handle_event" ["ev_type", "evset"] true rest :: after) eventHead] epollTop :: tail

/-- `if self.handle_event(ev_type, evset)? { break 'epoll; }` -/
def exitCheck : List LEvent := [.ifCond "self.handle_event(ev_type, evset)?" [.brkTo "'epoll"] []]

/-- `VringState::read_kick` behind `VringT::read_kick` (`self.get_ref().read_kick()`): fix-c12-lost-kick (the early
return of a disabled ring), `consume`, fix-c12-stale-eagain (the `WouldBlock` arm) -/
def readKickBody : List LEvent := [
  .vringGet "get_ref" "",
  .ifCond "!self.enabled" [.okValue "false"] [],
  .ifSome "&self.kick" [
    .consume false,
    .matchOn "" "kick.consume()" [
      .arm "Err(e)" "e.kind() == io::ErrorKind::WouldBlock" [] [.okValue "false"],
      .arm "res" "" [] [.propagate "res"]]] [],
  .okValue "self.enabled"]

def exitCond : String := "self.exit_event_fd.is_some() && device_event as usize == self.backend.num_queues()"
def isRing : String := "(device_event as usize) < self.vrings.len()"
def notReady : String := "!vring.get_ref().get_queue().ready()"

def segWait : List LEvent := [
  .loopFrom "'epoll" "" [
    .epollWait,
    .matchOn "num_events" "self.epoll.wait(-1, &events[..])" [
      .arm "Ok(res)" "" [] [.value "res"],
      .arm "Err(e)" "" [] [.ifCond "e.kind() == io::ErrorKind::Interrupted" [.cont ""] [], .err "EpollWait"]],
    .forEach events eventHead] epollTop]

/-- fix-c12-stopped-dispatch is the `notReady` test -/
def segWoken : List LEvent :=
  inHandleEvent [
    .ifCond exitCond [.okValue "true"] [],
    .ifCond isRing [
      .bind "vring" "&self.vrings[device_event as usize]",
      .ifCond notReady [.okValue "false"] [],
      .hold "worker.pre_read"] [],
    .hold "worker.dispatch"] exitCheck [.ok]

def segPreRead : List LEvent :=
  inHandleEvent [.readKick "HandleEventReadKick" "enabled" readKickBody, .hold "worker.read_kick"] [] []

def segReadKick : List LEvent :=
  inHandleEvent [.ifCond "!enabled" [.okValue "false"] [], .hold "worker.dispatch"] exitCheck [.ok]

def segDispatch : List LEvent :=
  inHandleEvent [.backendHandleEvent "HandleEventBackendHandling", .okValue "false"] exitCheck [.ok]

def workerSegments : LSegs := [
  ("run", [
    ("entry", [
      .bind "EPOLL_EVENTS_LEN" "100",
      .bind "events" "vec!(EpollEvent::new(EventSet::empty(), 0) ; EPOLL_EVENTS_LEN)",
      .loop "'epoll" "" epollTop]),
    ("worker.wait", segWait),
    ("worker.woken", segWoken),
    ("worker.pre_read", segPreRead),
    ("worker.read_kick", segReadKick),
    ("worker.dispatch", segDispatch)])]

/-! ## the control paths -/

def threads : String := "self.queues_per_thread.iter().enumerate()"
def ownsRing : String := "shifted_queues_mask & 1u64 == 1u64"
def readyEnabled : String := "vring_state.get_queue().ready() && vring_state.is_enabled()"
def needsInit : String := "self.vring_needs_init(vring)"

/-- the worker whose mask has the ring's bit does `inner`, then the loop ends -/
def threadLoop (inner : List LEvent) : LEvent :=
  .forEach threads [
    .bind "shifted_queues_mask" "queues_mask >> index",
    .ifCond ownsRing
      ([.bind "evt_idx" "queues_mask.count_ones() - shifted_queues_mask.count_ones()"] ++ inner ++ [.brk]) []]

/-- `update_vring_registration` up to its hold point `ctl.epoll` (`epollUpdate` of the model) -/
def updateRegHead : List LEvent := [
  .vringGet "get_ref" "vring_state",
  .ifSome "vring_state.get_kick()" [
    threadLoop [.ifCond readyEnabled [.epollRegister "AlreadyExists" "ReqHandlerError"] [.epollUnregister]]] [],
  .dropGuard "vring_state",
  .hold "ctl.epoll"]

def updateReg (idx : String) (body : List LEvent) : LEvent :=
  .helperCall "update_vring_registration" ["vring", idx] true body

/-- `unregister_vring_kick` (fix-c11-rekick; `unregKick` of the model) -/
def unregisterKick : LEvent :=
  .helperCall "unregister_vring_kick" ["vring", "index"] false [
    .vringGet "get_ref" "vring_state",
    .ifSome "vring_state.get_kick()" [threadLoop [.epollUnregister]] [],
    .done]

def initializeVring (body : List LEvent) : LEvent := .helperCall "initialize_vring" ["vring", "index"] true body

/-- the rest of `reset_device` after the loop over the rings -/
def resetTail : List LEvent := [
  .setField "features_acked" "false", .setField "acked_features" "0", .backendCall "reset_device" [], .ok]

def resetLoopBody : List LEvent := [.vringCall "set_enabled" ["false"], .hold "ctl.state"]

def controlSegments : LSegs := [
  ("set_vring_enable", [
    ("entry", [
      .helperCall "check_feature" ["VhostUserVirtioFeatures::PROTOCOL_FEATURES"] true [.featureAcked 30 "InactiveFeature"],
      .indexBound "InvalidParam",
      .vringCall "set_enabled" ["enable"],
      .hold "ctl.state"]),
    ("ctl.state", [updateReg "index as u8" updateRegHead]),
    ("ctl.epoll", [updateReg "index as u8" [.ok], .ok])]),
  ("reset_device", [
    ("entry", .forEachVring resetLoopBody :: resetTail),
    ("ctl.state", .forVringFrom [updateReg "index as u8" updateRegHead] resetLoopBody :: resetTail),
    ("ctl.epoll", .forVringFrom [updateReg "index as u8" [.ok]] resetLoopBody :: resetTail)]),
  ("get_vring_base", [
    ("entry", [.indexBound "InvalidParam", .vringCall "set_queue_ready" ["false"], .hold "ctl.state"]),
    ("ctl.state", [updateReg "index as u8" updateRegHead]),
    ("ctl.epoll", [
      updateReg "index as u8" [.ok],
      .vringGet "queue_next_avail" "next_avail",
      .vringCall "set_kick" ["None"],
      .vringCall "set_call" ["None"],
      .hold "ctl.drop"]),
    ("ctl.drop", [.okValue "VhostUserVringState::new(index, u32::from(next_avail))"])]),
  ("set_vring_kick", [
    ("entry", [.indexBound "InvalidParam", unregisterKick, .vringCall "set_kick" ["file"], .hold "ctl.state"]),
    ("ctl.state", [
      .ifCond needsInit
        [initializeVring [.vringCall "set_queue_ready" ["true"], .hold "ctl.ready"]]
        [updateReg "index" updateRegHead]]),
    ("ctl.ready", [initializeVring [updateReg "index" updateRegHead]]),
    ("ctl.epoll", [initializeVring [updateReg "index" [.ok], .ok], .ok]),
    ("ctl.epoll#1", [updateReg "index" [.ok], .ok])])]

open Spec.KickDelivery (CMsg) in
/-- the function a control message is handled by -/
def ctlFn : CMsg → String
  | .enable | .disable => "set_vring_enable"
  | .reset => "reset_device"
  | .stop => "get_vring_base"
  | .restart | .nofd => "set_vring_kick"

open Spec.KickDelivery (CMsg) in
/-- the hold point stage `k` of message `m` starts from (`viaInit`: for stages 2 and 3 of SET_VRING_KICK, whether the stage
was reached through `initialize_vring` — `ctl.ready` / the first `ctl.epoll` — or past it — `ctl.state` with the guard
false / the second `ctl.epoll`) -/
def ctlPoint (m : CMsg) (k : Nat) (viaInit : Bool) : String :=
  match m, k with
  | _, 0 => "entry"
  | .restart, 1 | .nofd, 1 => "ctl.state"
  | .restart, 2 | .nofd, 2 => if viaInit then "ctl.ready" else "ctl.state"
  | .restart, 3 | .nofd, 3 => if viaInit then "ctl.epoll" else "ctl.epoll#1"
  | .stop, 3 => "ctl.drop"
  | _, 1 => "ctl.state"
  | _, _ => "ctl.epoll"

open Spec.KickDelivery (CMsg) in
def ctlSeg (m : CMsg) (k : Nat) (viaInit : Bool) : List LEvent := segOf controlSegments (ctlFn m) (ctlPoint m k viaInit)

/-! ## the shutdown paths -/

def hrScrut : String := "handler.handle_request().map_err(Error::HandleRequest)"

/-- an iteration of the daemon thread's loop after `handle_request` returned -/
def daemonAfterCall : List LEvent := [.ifLet "Err(e)" hrScrut [.brkVal "Err(e)"] [], .hold "daemon.after_handle_request_ok"]

def daemonLoopTop : List LEvent := [.hold "daemon.before_handle_request"]
def daemonExit : List LEvent := [.hold "daemon.before_final_shutdown"]

def startDaemonBody : List LEvent := [
  .libTry "handler.try_clone_connection" "StartDaemon",
  .bind "state" "Arc::new(ConnectionState { conn: handler.try_clone_connection().map_err(Error::StartDaemon)?, shutdown_requested: AtomicBool::new(false) })",
  .bind "thread_state" "state.clone()",
  .spawn "handle" "StartDaemon" "daemon_thread",
  .setField "conn_state" "Some(state)",
  .setField "main_thread" "Some(handle)",
  .ok]

def resetConn : LEvent := .helperCall "reset_connection_state" [] false [.setField "conn_state" "None", .done]

/-- the closure `shutdown_requested` of `wait()` -/
def flagRead : List LEvent := [
  .ifSome "self.conn_state.as_ref()" [
    .atomicLoad "s.shutdown_requested" "Acquire",
    .value "s.shutdown_requested.load(Ordering::Acquire)"] [.value "false"]]

/-- `wait()` up to and including `join` -/
def waitJoin : List LEvent := [
  .letElse "Some(handle)" "self.main_thread.take()" [resetConn, .ok],
  .closure "shutdown_requested" flagRead,
  .threadJoin "handle" "WaitDaemon"]

/-- `wait()` after `join` returned: the four arms, the reset of the connection state, the result -/
def waitClassify : List LEvent := [
  .matchOn "result" "handle.join().map_err(Error::WaitDaemon)?" [
    .arm "Ok(())" "" [] [.value "Ok(())"],
    .arm "Err(Error::HandleRequest(VhostUserError::SocketBroken(_)))" "" [] [.value "Ok(())"],
    .arm "Err(Error::HandleRequest(_))" "shutdown_requested()" flagRead [.value "Ok(())"],
    .arm "Err(error)" "" [] [.value "Err(error)"]],
  resetConn,
  .value "result"]

def waitBody : List LEvent := waitJoin ++ waitClassify

def workerExitSend : LEvent :=
  .helperCall "VringEpollHandler::send_exit_event" ["handler"] false [
    .ifSome "self.exit_event_fd.as_ref()" [.exitEventSend] [], .done]

/-- `VhostUserHandler::send_exit_event` -/
def sendExitEvent (recv : String) : LEvent :=
  .helperCall "VhostUserHandler::send_exit_event" [recv] false [.forEach "self.handlers.iter()" [workerExitSend], .done]

/-- `serve()` after `wait()` returned: every worker's exit event whatever the result, then the mapping of the result -/
def serveResultMatch : LEvent :=
  .matchOn "" "&result" [
    .arm "Err(e)" "" [] [
      .matchOn "" "e" [
        .arm "Error::HandleRequest(VhostUserError::Disconnected)" "" [] [.value "Ok(())"],
        .arm "Error::HandleRequest(VhostUserError::PartialMessage)" "" [] [.value "Ok(())"],
        .arm "_" "" [] [.value "result"]]],
    .arm "_" "" [] [.value "result"]]

def serveTail : List LEvent := [sendExitEvent "self.handler.lock().unwrap()", serveResultMatch]

def serveHead : List LEvent := [
  .libTry "Listener::new" "CreateVhostUserListener",
  .bind "listener" "Listener::new(socket, true).map_err(Error::CreateVhostUserListener)?",
  .helperCall "start" ["&listener"] true [
    .libTry "BackendListener::new" "CreateBackendListener",
    .bind "backend_listener" "BackendListener::new(listener, self.handler.clone()).map_err(Error::CreateBackendListener)?",
    .helperCall "accept" ["&backend_listener"] true [
      .loop "" "" [
        .libCall "backend_listener.accept",
        .matchOn "" "backend_listener.accept()" [
          .arm "Err(e)" "" [] [.err "CreateBackendListener"],
          .arm "Ok(Some(v))" "" [] [.okValue "v"],
          .arm "Ok(None)" "" [] [.cont ""]]]],
    .bind "backend_handler" "self.accept(&backend_listener)?",
    .helperCall "start_daemon" ["backend_handler"] false startDaemonBody,
    .value "self.start_daemon(backend_handler)"],
  .helperCall "wait" [] false waitBody,
  .bind "result" "self.wait()"]

/-- `Drop for VhostUserHandler`: the joins -/
def joinWorkers : LEvent :=
  .forEach "self.worker_threads.drain(..)" [
    .threadJoin "thread" "", .ifLet "Err(e)" "thread.join()" [.libCall "error!"] []]

def shutdownSegments : LSegs := [
  ("daemon_thread", [
    ("entry", [.loop "" "result" daemonLoopTop]),
    ("daemon.before_handle_request",
      .loopFrom "" "result" (.handleRequest "HandleRequest" :: daemonAfterCall) daemonLoopTop :: daemonExit),
    ("daemon.after_handle_request_ok", [.loopFrom "" "result" [] daemonLoopTop]),
    ("daemon.before_final_shutdown", [.sockShutdown "thread_state.conn", .value "result"])]),
  ("start_daemon", [("entry", startDaemonBody)]),
  ("shutdown", [
    ("entry", [.atomicStore "self.state.shutdown_requested" "true" "Release", .hold "shutdown.between_flag_and_socket"]),
    ("shutdown.between_flag_and_socket", [.sockShutdown "self.state.conn", .done])]),
  ("wait", [("entry", waitBody)]),
  ("serve", [("entry", serveHead ++ serveTail)]),
  ("daemon_drop", [("entry", [.ifSome "self.conn_state.take()" [.sockShutdown "state.conn"] [], .done])]),
  ("handler_drop", [("entry", [sendExitEvent "self", joinWorkers, .done])])]

end Model.LtsTable
