import VhostModel.Spec.Locks
/-!
# Model.Locks — N caller threads over one shared endpoint (C10)

Hand-written from `vhost/src/vhost_user/{frontend.rs, backend_req.rs, gpu_backend_req.rs}` at the
pinned tree.  `Frontend`, `Backend` (backend→frontend proxy) and `GpuBackend` are `#[derive(Clone)]`
handles around one `Arc<Mutex<…Internal>>`; the socket lives *inside* the mutex, so nothing can touch
it without the guard.  Every public method has the same shape

    let mut node = self.node();            -- acquire   (frontend.rs:149, gpu_backend_req.rs:120,
                                                          `self.inner.lock().unwrap()` in backend_req.rs)
    [local checks; may `return Err(..)`]   -- (release without having sent: kind `rejected`)
    node.send_request_*/send_header/..     -- send      (one `send_iovec_all`, request + descriptors)
    [hold point, feature verif-hooks]
    node.recv_reply*/wait_for_ack          -- recv      (only if the call reads a reply) | skip
    }                                      -- release   (guard dropped at the end of the method)

## Shape of every public method (read off the source; "1 guard" = exactly one lock acquisition, held
## from before the send until after the receive)

| endpoint / method                                   | guard | send                      | reply read by                          | kind |
|-----------------------------------------------------|-------|---------------------------|----------------------------------------|------|
| Frontend::get_features                              | 1     | send_request_header       | recv_reply<U64>                        | reply |
| Frontend::set_features                              | 1     | send_request_with_body    | wait_for_ack                           | ack |
| Frontend::set_owner / reset_owner                   | 1     | send_request_header       | wait_for_ack                           | ack |
| Frontend::set_mem_table                             | 1 (taken after the local argument checks) | send_request_with_payload | wait_for_ack      | ack / rejected |
| Frontend::set_log_base (LOG_SHMFD ∧ region)         | 1     | send_request_with_body    | recv_reply<VhostUserLog>               | reply |
| Frontend::set_log_base (otherwise)                  | 1     | send_request_with_body    | — (never, see note 1)                  | fire |
| Frontend::set_log_fd                                | 1     | send_request_header       | wait_for_ack                           | ack |
| Frontend::set_vring_num / _addr / _base             | 1     | send_request_with_body    | wait_for_ack                           | ack / rejected (index ≥ max) |
| Frontend::get_vring_base                            | 1     | send_request_with_body    | recv_reply<VringState>                 | reply / rejected |
| Frontend::set_vring_call / _kick / _err             | 1     | send_fd_for_vring         | wait_for_ack                           | ack / rejected |
| Frontend::get_protocol_features                     | 1     | send_request_header       | recv_reply<U64>                        | reply / rejected (feature) |
| Frontend::set_protocol_features                     | 1     | send_request_with_body    | wait_for_ack                           | ack / rejected |
| Frontend::get_queue_num / get_max_mem_slots         | 1     | send_request_header       | recv_reply<U64>                        | reply / rejected |
| Frontend::reset_device / set_vring_enable           | 1     | header / body             | wait_for_ack                           | ack / rejected |
| Frontend::get_config                                | 1 (after local body check) | send_request_with_payload | recv_reply_with_payload | reply / rejected |
| Frontend::set_config                                | 1 (after local checks)     | send_request_with_payload | wait_for_ack            | ack / rejected |
| Frontend::set_backend_request_fd                    | 1     | send_request_header       | wait_for_ack                           | ack / rejected |
| Frontend::get_shared_object / get_inflight_fd / postcopy_advise | 1 | body / header       | recv_reply_with_files → _with_optional_files | reply / rejected |
| Frontend::set_inflight_fd / add_mem_region / remove_mem_region / postcopy_listen / postcopy_end | 1 | body / header | wait_for_ack | ack / rejected |
| Frontend::get_shmem_config                          | 1     | send_request_header       | recv_reply<ShMemConfig>                | reply / rejected |
| Frontend::set_device_state_fd                       | 1     | send_request_with_body    | recv_reply_with_optional_files         | reply / rejected |
| Frontend::check_device_state                        | 1     | send_request_header       | recv_reply<U64>                        | reply / rejected |
| Frontend::set_hdr_flags / as_raw_fd                 | 1     | — (no I/O)                | —                                      | (not a call) |
| Backend::shared_object_add/remove/lookup, shmem_map/unmap | 1 | BackendInternal::send_message (sends, then calls wait_for_ack itself, same `&mut self`) | wait_for_ack | ack / rejected (feature flag) |
| Backend::set_*_flag / set_failed                    | 1     | — (no I/O)                | —                                      | (not a call) |
| GpuBackend::get_protocol_features / get_display_info| 1     | send_header               | recv_reply                             | reply |
| GpuBackend::get_edid / update_dmabuf_scanout        | 1     | send_message              | recv_reply                             | reply |
| GpuBackend::set_protocol_features / set_scanout / set_dmabuf_scanout(2) / cursor_pos(_hide) | 1 | send_message | —          | fire |
| GpuBackend::update_scanout / cursor_update          | 1     | send_message_with_payload | —                                      | fire |

No method takes the lock twice and none reads outside the guard: the "one guard from before send to
after recv" of the model is what all 51 I/O methods (34 + 5 + 12) do.

`ack` calls read a reply iff `ackMode`: for `Frontend` that is
`acked_protocol_features ∋ REPLY_ACK ∧ hdr_flags ∋ NEED_REPLY` (`wait_for_ack`), for `Backend`
`reply_ack_negotiated`.  The GPU channel has no acknowledgements.

Note 1 (outside C10, recorded here because it was seen while reading): `Frontend::set_log_base`
without a region never reads a reply although `new_request_header` puts `hdr_flags` (possibly
NEED_REPLY) on every request.  Which replies are *owed* is the subject of C04/C06; the model below
assumes the peer produces a reply exactly for the requests whose caller reads one
(`Cfg.reads`), i.e. a protocol-conforming peer for every method except that corner.

## The transition system

State: per caller a program counter, the lock holder, the two directions of the socket as FIFO
queues (`reqQ`: requests written and not yet processed by the peer; `repQ`: replies written by the
peer and not yet consumed, each tagged with the caller whose request it answers), what each caller
consumed (`got`), which callers ended in an error (`err`), whether the peer has closed the socket
(`closed`), and the ghost history `trace` over the Spec alphabet.  Labels: `acquire i`, `send i`,
`peer` (the peer processes the oldest request and, if a reply is owed, appends it to `repQ`),
`recv i`, `release i`.  `step` returns `none` when a label is not enabled (acquire while the lock is
held — a blocked thread; `recv` before the peer has answered — a blocked read).

One call per caller: a thread making k calls in a row is k callers whose schedules are a subset of
the schedules quantified over here.

## Reply faults (error paths of the reply readers)

`Cfg.fault i` says what the peer does with the request of caller `i` when that request has a reply:
`none` — the correct reply; `bad` — a reply of the right size that the reader refuses (`is_reply_for`
fails: other request code / REPLY flag missing; an unexpected descriptor; an invalid body);
`close` — the peer closes the socket instead of answering (the reader gets end-of-file).  In all
three reply readers (`FrontendInternal::recv_reply*` / `wait_for_ack`, `BackendInternal::wait_for_ack`
of `backend_req.rs`, `BackendInternal::recv_reply` of `gpu_backend_req.rs`) the refusal is an early
`return Err(..)` / `?` *inside the helper*: the helper has consumed the whole fixed-size reply (one
`recv_body`), the method returns the error and its guard is dropped at the end of the method as on
the success path.  So `recv i` with a faulty reply consumes the reply, records `err i` instead of a
value and goes to the same program counter `got`, from which `release i` is the next step.
After a `close` every later `send_*` fails (`EPIPE`; `?` returns with the guard dropped): a caller
that finds the socket closed goes `acquire · release` with an error and writes nothing — the same
steps as a locally rejected call.  `release` from `locked` (local rejection or dead socket) records
`err i` as well.

`Cfg.relock` is a *mutation* of that rule, not the code: the error path of the reply reader takes
the endpoint lock again (`self.set_failed(..)` = `self.node.lock()` while the method's guard is
alive) — program counter `relock`, whose only continuation is an `acquire` that needs the lock to be
free.  `Props.C10.relock_on_error_deadlocks` shows that this step is never enabled.
-/

namespace Model.Locks
open Spec.Locks (Ev)

/-- What a call does on the wire. -/
inductive Kind where
  | reply      -- reply-bearing operation: always reads a reply
  | ack        -- acknowledged operation: reads the acknowledgement iff `ackMode`
  | fire       -- fire-and-forget: never reads
  | rejected   -- refused by a local check after taking the lock: nothing is sent
deriving DecidableEq, Repr

/-- What the peer does with a request that has a reply. -/
inductive Fault where
  | none       -- answers with the correct reply
  | bad        -- answers with a right-sized reply that the reader refuses
  | close      -- closes the socket instead of answering
deriving DecidableEq, Repr

structure Cfg where
  n : Nat
  kind : Nat → Kind
  ackMode : Bool
  /-- the peer's treatment of each caller's request (only meaningful if the request has a reply) -/
  fault : Nat → Fault := fun _ => .none
  /-- MUTATION (not the code): the error path of the reply reader re-acquires the endpoint lock -/
  relock : Bool := false

def Cfg.sends (c : Cfg) (i : Nat) : Bool :=
  match c.kind i with
  | .rejected => false
  | _ => true

def Cfg.reads (c : Cfg) (i : Nat) : Bool :=
  match c.kind i with
  | .reply => true
  | .ack => c.ackMode
  | _ => false

/-- the reply to caller `i`'s request is one the reader refuses (bad reply or end-of-file) -/
def Cfg.faulty (c : Cfg) (i : Nat) : Bool :=
  c.reads i && (match c.fault i with | .none => false | _ => true)

/-- the peer closes the socket instead of answering caller `i`'s request -/
def Cfg.closes (c : Cfg) (i : Nat) : Bool :=
  c.reads i && (match c.fault i with | .close => true | _ => false)

/-- `relock`: only under the mutation `Cfg.relock` — inside the reader's error path, waiting for the lock -/
inductive PC where
  | idle | locked | sent | got | done | relock
deriving DecidableEq, Repr

def upd {α : Type} (f : Nat → α) (i : Nat) (v : α) : Nat → α := fun j => if j = i then v else f j

structure St where
  pc : Nat → PC
  holder : Option Nat
  reqQ : List Nat
  repQ : List Nat
  got : Nat → Option Nat
  trace : List Ev
  /-- the call returned (or is about to return) an error that is not the content of its own reply:
  faulty reply, end-of-file, dead socket at send time, local rejection -/
  err : Nat → Bool := fun _ => false
  /-- the peer has closed the socket -/
  closed : Bool := false

def init : St := { pc := fun _ => .idle, holder := none, reqQ := [], repQ := [], got := fun _ => none, trace := [] }

inductive Lbl where
  | acquire (i : Nat) | send (i : Nat) | peer | recv (i : Nat) | release (i : Nat)
deriving DecidableEq, Repr

def step (c : Cfg) (s : St) : Lbl → Option St
  | .acquire i =>
    if i < c.n ∧ s.pc i = .idle ∧ s.holder = none then
      some { s with pc := upd s.pc i .locked, holder := some i }
    else if s.pc i = .relock ∧ s.holder = none then        -- only under the mutation `Cfg.relock`
      some { s with pc := upd s.pc i .got, holder := some i }
    else none
  | .send i =>
    if s.pc i = .locked ∧ c.sends i = true ∧ s.closed = false then
      some { s with pc := upd s.pc i .sent, reqQ := s.reqQ ++ [i], trace := s.trace ++ [Ev.req i] }
    else none
  | .peer =>
    match s.reqQ with
    | [] => none
    | r :: q => some { s with reqQ := q, repQ := if c.reads r then s.repQ ++ [r] else s.repQ,
                              closed := s.closed || c.closes r }
  | .recv i =>
    if s.pc i = .sent ∧ c.reads i = true then
      match s.repQ with
      | [] => none
      | t :: w =>
        -- a faulty reply (or end-of-file) is consumed like any other; the reader returns an error
        -- instead of the value and the method goes on to drop its guard
        some { s with pc := upd s.pc i (if c.faulty i && c.relock then .relock else .got), repQ := w,
                      got := if c.faulty i then s.got else upd s.got i (some t),
                      err := if c.faulty i then upd s.err i true else s.err,
                      trace := s.trace ++ [Ev.rep i t] }
    else none
  | .release i =>
    if s.holder = some i ∧
        (s.pc i = .got ∨ (s.pc i = .sent ∧ c.reads i = false) ∨
         (s.pc i = .locked ∧ (c.sends i = false ∨ s.closed = true))) then
      some { s with pc := upd s.pc i .done, holder := none,
                    err := if s.pc i = .locked then upd s.err i true else s.err }
    else none

def run (c : Cfg) : St → List Lbl → Option St
  | s, [] => some s
  | s, l :: ls =>
    match step c s l with
    | none => none
    | some s' => run c s' ls

/-- Replies that are owed or in flight, oldest first: requests that have been written and whose reply
has not been consumed yet (replies already on the wire, then requests the peer has not processed). -/
def outstanding (c : Cfg) (s : St) : List Nat := s.repQ ++ s.reqQ.filter c.reads

/-- how the call of caller `i` ended, in the terms of `Spec.Locks` (a call that reads no reply and returned
without an error counts as having what its own request entitles it to) -/
def outcome (s : St) (i : Nat) : Spec.Locks.Outcome :=
  if s.pc i = .done then
    (if s.err i then .error else match s.got i with | some t => .value t | none => .value i)
  else .pending

/-- all labels that mention callers `< n` -/
def allLabels : Nat → List Lbl
  | 0 => [.peer]
  | k + 1 => allLabels k ++ [.acquire k, .send k, .recv k, .release k]

def enabled (c : Cfg) (s : St) : List Lbl := (allLabels c.n).filter fun l => (step c s l).isSome

/-! ### progress measure: remaining steps -/

def rem : PC → Nat
  | .idle => 8 | .locked => 6 | .sent => 4 | .relock => 3 | .got => 2 | .done => 0

def total (f : Nat → Nat) : Nat → Nat
  | 0 => 0
  | k + 1 => total f k + f k

def measure (c : Cfg) (s : St) : Nat := total (fun i => rem (s.pc i)) c.n + s.reqQ.length

/-! ### deliberately broken variant (sanity: the invariant is not vacuous)

The guard is dropped after the send and taken again for the receive (`recv` = lock + read), as in

    let hdr = self.node().send_request_header(..)?;
    let val = self.node().recv_reply(&hdr)?;
-/

def stepBroken (c : Cfg) (s : St) : Lbl → Option St
  | .send i =>
    if s.pc i = .locked ∧ c.sends i = true then
      some { s with pc := upd s.pc i .sent, holder := none, reqQ := s.reqQ ++ [i],
                    trace := s.trace ++ [Ev.req i] }
    else none
  | .recv i =>
    if s.pc i = .sent ∧ c.reads i = true ∧ s.holder = none then
      match s.repQ with
      | [] => none
      | t :: w =>
        some { s with pc := upd s.pc i .got, holder := some i, repQ := w, got := upd s.got i (some t),
                      trace := s.trace ++ [Ev.rep i t] }
    else none
  | .release i =>
    if s.pc i = .got ∧ s.holder = some i then some { s with pc := upd s.pc i .done, holder := none }
    else if s.pc i = .sent ∧ c.reads i = false then some { s with pc := upd s.pc i .done }
    else none
  | l => step c s l

def runBroken (c : Cfg) : St → List Lbl → Option St
  | s, [] => some s
  | s, l :: ls =>
    match stepBroken c s l with
    | none => none
    | some s' => runBroken c s' ls

end Model.Locks
