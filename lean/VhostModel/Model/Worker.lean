import VhostModel.Spec.KickDelivery
/-!
# Model.Worker — worker thread × control thread × guest, small-step (C12)

Hand-written from `vhost-user-backend/src/{event_loop.rs, vring.rs, handler.rs}`.  One ring, one worker.  The atomic
steps are exactly the code segments between the hold points of feature `verif-hooks` (DESIGN §11):

worker (`VringEpollHandler::run` / `handle_event`), label `w` = "the worker's next segment":

| from hold            | segment                                                                                   | to |
|----------------------|-------------------------------------------------------------------------------------------|----|
| `worker.wait`        | `epoll.wait` returns the ring's event iff its descriptor is registered and readable        | `worker.woken` (or stays) |
| `worker.woken`       | (`fix-c12-stopped-dispatch`: `if !queue.ready() return`)                                   | `worker.pre_read` (or next wait) |
| `worker.pre_read`    | `read_kick`: (`fix-c12-lost-kick`: `if !enabled return false`); `if let Some(k) = kick { k.consume()? }` (`fix-c12-stale-eagain`: `EAGAIN ⇒ false`; pinned: the worker thread ends); `Ok(enabled)`; then `if !enabled return` | `worker.dispatch` (or next wait, or exit) |
| `worker.dispatch`    | `backend.handle_event`                                                                     | next wait |

control thread (`VhostUserHandler`), labels `send m` (a message arrives, only when idle) and `c` = its next segment:

| message | segments (each ends at a hold point `ctl.state` / `ctl.ready` / `ctl.epoll` / `ctl.drop`, the last with the reply) |
|---|---|
| SET_VRING_ENABLE b, RESET_DEVICE (b = 0) | `set_enabled(b)` · `update_vring_registration` · reply |
| GET_VRING_BASE | `set_queue_ready(false)` · `update_vring_registration` · `set_kick(None); set_call(None)` · reply |
| SET_VRING_KICK(fresh fd) | (fix-c11-rekick: unregister the current fd) `set_kick(fd)` · [`set_queue_ready(true)` if `vring_needs_init`] · `update_vring_registration` · reply |
| SET_VRING_KICK(no-descriptor flag) | (unregister the current fd) `set_kick(None)` · [`vring_needs_init` = `!ready && kick.is_some()` is false: nothing; with the *mutated* guard `!ready` (`Cfg.nofdStarts`): `set_queue_ready(true)`] · `update_vring_registration` (no descriptor: nothing to add or delete) · reply |

guest: label `kick d` adds one to the counter of descriptor `d`.

Every segment that touches the ring takes the ring lock for its duration (`get_ref()` / `lock()` inside `read_kick`, `set_*`,
`update_vring_registration`), and no hold point lies inside a critical section: segments are atomic with respect to each
other, which is what `step` expresses.  epoll is level-triggered; `consume` zeroes the counter.  One ring has at most one
registered descriptor (its current kick descriptor — the invariant `reg_is_kick` below), so a batch holds at most one event
of the ring; staleness of "events returned by one wait" is the delay between `worker.woken` and the later segments.

`Cfg` selects the pinned code (`all false`) or the repairs; `nofdStarts` is not a repair but a *mutation* kept for the
counterexample `Props.C12.nofd_kick_marks_ready_counterexample`: the guard of `set_vring_kick` weakened from
`vring_needs_init` to `!ready` (false in the pinned and in the repaired code).  The fields `rdStale`, `chkStale`, `clean`, `glog` are ghost
state for the theorems; no non-ghost component depends on them.
-/
namespace Model.Worker
open Spec.KickDelivery

structure Cfg where
  fixLost : Bool        -- fix-c12-lost-kick
  fixEagain : Bool      -- fix-c12-stale-eagain
  fixStopped : Bool     -- fix-c12-stopped-dispatch
  nofdStarts : Bool     -- MUTATION (not in the tree): `set_vring_kick` initialises the ring on `!ready` alone
deriving DecidableEq, Repr

def Cfg.pinned : Cfg := ⟨false, false, false, false⟩
def Cfg.repaired : Cfg := ⟨true, true, true, false⟩
/-- the repaired code with the guard of `set_vring_kick` mutated -/
def Cfg.nofdMutant : Cfg := ⟨true, true, true, true⟩

inductive WPc where
  | wait | woken | checked | toDispatch | dead
deriving DecidableEq, Repr

inductive CPc where
  | idle
  | inMsg (m : CMsg) (stage : Nat)
deriving DecidableEq, Repr

inductive Lbl where
  | kick (d : Evt)
  | w
  | send (m : CMsg)
  | c
deriving DecidableEq, Repr

/-- ghost records -/
inductive GRec where
  | disp (forbD forbS rdStale chkStale : Bool)   -- a handler entry: the periods it fell into, and whether a
                                                  -- disabling / stopping state change overtook its grant / ready-check
  | dropped (clean : Bool)                        -- a wake-up consumed without a handler call
deriving DecidableEq, Repr

def upd {α : Type} (f : Nat → α) (i : Nat) (v : α) : Nat → α := fun j => if j = i then v else f j

structure St where
  cfg : Cfg
  ready : Bool
  enabled : Bool
  kick : Option Evt
  reg : Evt → Bool
  cnt : Evt → Nat
  next : Evt
  wpc : WPc
  cpc : CPc
  trace : List Ev
  rdStale : Bool
  chkStale : Bool
  clean : Bool
  glog : List GRec

/-- a started and enabled ring with descriptor 0 registered, nothing pending, both threads idle -/
def init (cfg : Cfg) : St :=
  { cfg := cfg, ready := true, enabled := true, kick := some 0, reg := fun d => d == 0, cnt := fun _ => 0, next := 1,
    wpc := .wait, cpc := .idle, trace := [], rdStale := false, chkStale := false, clean := true, glog := [] }

def readyAny (s : St) : Bool := (List.range s.next).any fun d => s.reg d && decide (0 < s.cnt d)

/-- the control thread is between a disabling state change and the epoll update that follows it -/
def pendingDel (s : St) : Bool :=
  match s.cpc with
  | .inMsg m 1 => m.disables
  | _ => false

def emit (s : St) (e : Ev) : St := { s with trace := s.trace ++ [e] }

/-- `update_vring_registration` -/
def epollUpdate (s : St) : St :=
  match s.kick with
  | none => s
  | some fd => { s with reg := upd s.reg fd (s.ready && s.enabled) }

/-- fix-c11-rekick: the current kick descriptor leaves the epoll set before it is replaced -/
def unregKick (s : St) : St :=
  match s.kick with
  | some k => { s with reg := upd s.reg k false }
  | none => s

def wStep (s : St) : Option St :=
  match s.wpc with
  | .dead => none
  | .wait => some (if readyAny s then { s with wpc := .woken, clean := !pendingDel s } else s)
  | .woken =>
    some (if s.cfg.fixStopped && !s.ready then { s with wpc := .wait } else { s with wpc := .checked, chkStale := false })
  | .checked =>
    if s.cfg.fixLost && !s.enabled then some { s with wpc := .wait } else
    match s.kick with
    | some k =>
      if s.cnt k = 0 then
        (if s.cfg.fixEagain then some { s with wpc := .wait } else some (emit { s with wpc := .dead } .workerExit))
      else
        let s1 := { s with cnt := upd s.cnt k 0 }
        if s.enabled then some (emit { s1 with wpc := .toDispatch, rdStale := false } (.consumed true))
        else some (emit { s1 with wpc := .wait, glog := s1.glog ++ [.dropped s.clean] } (.consumed false))
    | none =>
      if s.enabled then some { s with wpc := .toDispatch, rdStale := false } else some { s with wpc := .wait }
  | .toDispatch =>
    let p := period s.trace
    some (emit { s with wpc := .wait, glog := s.glog ++ [.disp p.forbD p.forbS s.rdStale s.chkStale] } .dispatch)

/-- ghost: a disabling state change lands -/
def noteDisable (s : St) : St :=
  { s with rdStale := s.rdStale || decide (s.wpc = .toDispatch),
           clean := s.clean && !(decide (s.wpc = .woken) || decide (s.wpc = .checked)) }

/-- ghost: a stopping state change lands -/
def noteStop (s : St) : St :=
  { s with chkStale := s.chkStale || decide (s.wpc = .checked) || decide (s.wpc = .toDispatch) }

def reply (s : St) (m : CMsg) : St := emit { s with cpc := .idle } (.reply m)

def cStep (s : St) : Option St :=
  match s.cpc with
  | .idle => none
  | .inMsg m stage =>
    match m, stage with
    | .disable, 0 => some (noteDisable { s with enabled := false, cpc := .inMsg m 1 })
    | .reset, 0 => some (noteDisable { s with enabled := false, cpc := .inMsg m 1 })
    | .enable, 0 => some { s with enabled := true, cpc := .inMsg m 1 }
    | .disable, 1 => some { epollUpdate s with cpc := .inMsg m 2 }
    | .reset, 1 => some { epollUpdate s with cpc := .inMsg m 2 }
    | .enable, 1 => some { epollUpdate s with cpc := .inMsg m 2 }
    | .disable, 2 => some (reply s m)
    | .reset, 2 => some (reply s m)
    | .enable, 2 => some (reply s m)
    | .stop, 0 => some (noteStop { s with ready := false, cpc := .inMsg m 1 })
    | .stop, 1 => some { epollUpdate s with cpc := .inMsg m 2 }
    | .stop, 2 => some { s with kick := none, cpc := .inMsg m 3 }
    | .stop, 3 => some (reply s m)
    | .restart, 0 =>
      some { unregKick s with kick := some s.next, next := s.next + 1, cpc := .inMsg m (if s.ready then 2 else 1) }
    | .restart, 1 => some { s with ready := true, cpc := .inMsg m 2 }
    | .restart, 2 => some { epollUpdate s with cpc := .inMsg m 3 }
    | .restart, 3 => some (reply s m)
    | .nofd, 0 =>
      some { unregKick s with kick := none, cpc := .inMsg m (if s.cfg.nofdStarts && !s.ready then 1 else 2) }
    | .nofd, 1 => some { s with ready := true, cpc := .inMsg m 2 }
    | .nofd, 2 => some { epollUpdate s with cpc := .inMsg m 3 }
    | .nofd, 3 => some (reply s m)
    | _, _ => none

def step (s : St) : Lbl → Option St
  | .kick d => some (emit { s with cnt := upd s.cnt d (s.cnt d + 1) } (.kick d))
  | .w => wStep s
  | .send m =>
    match s.cpc with
    | .idle => some (emit { s with cpc := .inMsg m 0 } (.start m))
    | _ => none
  | .c => cStep s

def run (s : St) : List Lbl → Option St
  | [] => some s
  | l :: ls =>
    match step s l with
    | none => none
    | some s' => run s' ls

end Model.Worker
