/-!
# Model: kick routing in `vhost-user-backend` (property C17)

Transcribes, function by function,

* `handler.rs::VhostUserHandler::new` (lines 128-150): the per-thread ring slices
  `for (index, vring) in vrings.iter().enumerate() { if (queues_mask >> index) & 1u64 == 1u64 { push } }`;
* `handler.rs::update_vring_registration` (lines 214-245): the loop over `queues_per_thread` with
  `shifted = queues_mask >> index`, `evt_idx = queues_mask.count_ones() - shifted.count_ones()`, registration on
  `handlers[thread_index]` with `u64::from(evt_idx)` and `break` after the first thread whose mask has the bit;
* `event_loop.rs`: exit event registered with id `num_queues`; `register_listener`'s id check; the dispatch
  `let ev_type = event.data() as u16` followed by `handle_event`'s case split.

Masks are `u64` (`BitVec 64`).  The shift amount is `index: u8` / `usize`; for `index ≥ 64` the Rust shift overflows
(panic with overflow checks, wrap-around without) — that belongs to C05 and is outside this model: every definition
below is used with `index < 64` only (the theorems carry `n ≤ 64`).

The listener rule modelled is the one of the *repaired* tree (`fix-c17-listener-id.patch`: ids that do not fit the
16-bit event id are refused).  The rule of the unmodified tree is kept as `listenerAcceptedOld`.
-/
namespace Model.Routing

abbrev U64 := BitVec 64

/-- bit-serial population count of the low `k` bits -/
def popcountGo : Nat → Nat → Nat
  | 0, _ => 0
  | k+1, x => x % 2 + popcountGo k (x / 2)

/-- `u64::count_ones` -/
def popcount (m : U64) : Nat := popcountGo 64 m.toNat

/-- `(queues_mask >> index) & 1u64 == 1u64` -/
def hasQueue (m : U64) (q : Nat) : Bool := ((m >>> q) &&& 1#64) == 1#64

/-- `thread_vrings` built in `VhostUserHandler::new` for thread `t` (queues named by their protocol index) -/
def threadVrings (masks : List U64) (n t : Nat) : Option (List Nat) :=
  masks[t]?.map fun m => (List.range n).filter (hasQueue m)

/-- `queues_mask.count_ones() - shifted_queues_mask.count_ones()` -/
def evtIdx (m : U64) (q : Nat) : Nat := popcount m - popcount (m >>> q)

/-- the loop of `update_vring_registration`, started at thread index `t`: `(thread_index, evt_idx)` of the one
registration it performs, `none` if no mask has the bit -/
def registrationFrom (q : Nat) : Nat → List U64 → Option (Nat × Nat)
  | _, [] => none
  | t, m :: ms => if hasQueue m q then some (t, evtIdx m q) else registrationFrom q (t+1) ms

def registration (masks : List U64) (q : Nat) : Option (Nat × Nat) := registrationFrom q 0 masks

/-- id of the exit event (`backend.num_queues()`) -/
def exitId (n : Nat) : Nat := n

/-- `register_listener` accepts `data` (repaired rule): not `data <= num_queues || data > u16::MAX` -/
def listenerAccepted (n : Nat) (data : U64) : Bool := !(decide (data.toNat ≤ n) || decide (65535 < data.toNat))

/-- `register_listener` of the unmodified tree: not `data <= num_queues` -/
def listenerAcceptedOld (n : Nat) (data : U64) : Bool := !(decide (data.toNat ≤ n))

/-- what the event loop does with one epoll event -/
inductive Dispatch where
  /-- `handle_event` returned `true`: the worker leaves its loop, the backend sees nothing -/
  | exit
  /-- `read_kick` on `vrings[ev]`, then `backend.handle_event(ev, …)` -/
  | ring (ev : Nat)
  /-- `backend.handle_event(ev, …)` without touching a ring -/
  | custom (ev : Nat)
  deriving Repr, DecidableEq

/-- `event.data() as u16` -/
def evType (data : U64) : Nat := (data.setWidth 16).toNat

/-- `run` + `handle_event` of `VringEpollHandler` for an event whose epoll data is `data`;
`sliceLen = self.vrings.len()`, `hasExit = self.exit_event_fd.is_some()` -/
def dispatch (n sliceLen : Nat) (hasExit : Bool) (data : U64) : Dispatch :=
  let ev := evType data
  if hasExit && ev == n then .exit
  else if ev < sliceLen then .ring ev
  else .custom ev

/-- a kick on queue `q`: which worker sees it and what the event loop does with it -/
def kick (masks : List U64) (n q : Nat) (hasExit : Bool) : Option (Nat × Dispatch) :=
  match registration masks q with
  | none => none
  | some (t, e) =>
    match threadVrings masks n t with
    | none => none
    | some sl => some (t, dispatch n sl.length hasExit (BitVec.ofNat 64 e))

/-- what the backend's `handle_event` gets to see for one kick on queue `q`: a list (empty or one element) of
`(thread_id, device_event, ring slice)` -/
def kickObs (masks : List U64) (n q : Nat) (hasExit : Bool) : List (Nat × Nat × List Nat) :=
  match registration masks q with
  | none => []
  | some (t, e) =>
    match threadVrings masks n t with
    | none => []
    | some sl =>
      match dispatch n sl.length hasExit (BitVec.ofNat 64 e) with
      | .exit => []
      | .ring ev => [(t, ev, sl)]
      | .custom ev => [(t, ev, sl)]

/-- a custom listener registered on worker `t` with id `data` and then fired: `none` = refused,
`some d` = accepted and dispatched as `d` -/
def listener (n sliceLen : Nat) (hasExit : Bool) (data : U64) : Option Dispatch :=
  if listenerAccepted n data then some (dispatch n sliceLen hasExit data) else none

/-- the same with the rule of the unmodified tree -/
def listenerOld (n sliceLen : Nat) (hasExit : Bool) (data : U64) : Option Dispatch :=
  if listenerAcceptedOld n data then some (dispatch n sliceLen hasExit data) else none

end Model.Routing
