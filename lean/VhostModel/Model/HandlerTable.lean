import VhostModel.Base.HandlerSig
/-!
# What the four models of the daemon's request handler assume of each method, as a table

`modelHandlerOps` is written by hand, method by method, from what `Model.RingReg` (C11), `Model.Vring` (C14),
`Model.MemTable` (C13) and `Model.Bitmap` (C15) take `vhost-user-backend/src/handler.rs` to do — in the vocabulary of
`Base.HandlerSig` (guards with their errors, effects, helper calls with the helper's own events, loops, branches, the
result), in the order in which the models perform them.  `Props.HandlerOps` proves that this table

* is the table the translator extracts from `handler.rs` (`handler_ops_match_source`, no projection: the rows are equal), and
* is true of the executable models: each model's operations are the *interpretation* of the rows in that model
  (`Lemmas/HandlerVring.lean`, `HandlerRing.lean`, `HandlerMem.lean`, `HandlerLog.lean`), for all states and arguments.

Which model reads which events:

| events | C11 `RingReg` | C14 `Vring` | C13 `MemTable` | C15 `Bitmap` |
|---|---|---|---|---|
| `indexBound`, `featureAcked` | yes | yes | – | – |
| `valueCheck`, `addrTranslate`, `vringTry`, `vringCall` (queue configuration) | – | yes | – | – |
| `vringCall set_enabled / set_queue_ready / set_kick / set_call`, helpers `update_vring_registration`, `unregister_vring_kick`, `initialize_vring`, `epollRegister/Unregister` | yes | ready/kick/call/enabled only (no epoll) | – | – |
| `libTry mmap_region / GuestRegionMmap::new / from_regions / insert_region / remove_region`, `memReplace`, `mappings*`, `backendTry update_memory` | – | through `Model.MemTable` | yes | table shape only |
| helper `log_region`, `libTry InnerBitmap::new`, `bitmapReplace`, `logAssign` | – | – | – (identity) | yes |

Methods none of the four models looks into (`get_config`, `set_config`, `get_shared_object`, the postcopy group, …) are
listed as well, so that the comparison with the source covers the whole `impl`.
-/
namespace Model.HandlerTable
open Base

local notation "IP" => "InvalidParam"
local notation "RHE" => "ReqHandlerError"

/-! ## the private helpers -/

/-- `for (thread_index, queues_mask) in self.queues_per_thread.iter().enumerate()`: the worker whose mask has the ring's
bit does `inner`, then the loop ends.  (`Model.RingReg`: one worker owns every ring.) -/
def threadLoop (inner : List HEvent) : HEvent :=
  .forEach "self.queues_per_thread.iter().enumerate()" [
    .bind "shifted_queues_mask" "queues_mask >> index",
    .ifCond "shifted_queues_mask & 1u64 == 1u64"
      ([.bind "evt_idx" "queues_mask.count_ones() - shifted_queues_mask.count_ones()"] ++ inner ++ [.brk]) []]

/-- `update_vring_registration` = `Model.RingReg.updateReg`: no kick descriptor → nothing; ready ∧ enabled → `EPOLL_CTL_ADD`
(`EEXIST` tolerated), otherwise `EPOLL_CTL_DEL` (result ignored) -/
def updateRegBody : List HEvent := [
  .vringGet "get_ref" "vring_state",
  .ifSome "vring_state.get_kick()" [
    threadLoop [.ifCond "vring_state.get_queue().ready() && vring_state.is_enabled()"
                  [.epollRegister "AlreadyExists" RHE] [.epollUnregister]]] [],
  .ok]

/-- `unregister_vring_kick` (fix-c11-rekick): the descriptor about to be replaced leaves the epoll set -/
def unregisterKickBody : List HEvent := [
  .vringGet "get_ref" "vring_state",
  .ifSome "vring_state.get_kick()" [threadLoop [.epollUnregister]] [],
  .done]

def updateReg (idx : String) : HEvent := .helperCall "update_vring_registration" ["vring", idx] true updateRegBody

/-- `initialize_vring` = `Model.RingReg.initializeVring` / `Model.Vring.initIfNeeded` -/
def initializeVringBody : List HEvent := [.vringCall "set_queue_ready" ["true"], updateReg "index", .ok]
def initializeVring : HEvent := .helperCall "initialize_vring" ["vring", "index"] true initializeVringBody

def needsInit : String := "self.vring_needs_init(vring)"

/-- `log_region` = `Model.Bitmap.logRegion`: with a log in force the entering region gets a bitmap on it, or the request
fails -/
def logRegionBody : List HEvent := [
  .ifSome "self.logmem.as_ref()" [.libTry "InnerBitmap::new" RHE, .bitmapReplace] [],
  .ok]
def logRegion : HEvent := .helperCall "log_region" ["guest_region"] true logRegionBody

def addrMappingLit : String :=
  "AddrMapping { local_addr: guest_region.as_ptr() as u64, vmm_addr: region.user_addr, size: region.memory_size, gpa_base: region.guest_phys_addr }"

def modelHelpers : List HRow := [
  ("update_vring_registration", updateRegBody),
  ("log_region", logRegionBody),
  -- `Model.MemTable.translate`: the first mapping that contains the address
  ("vmm_va_to_gpa", [
    .forEach "self.mappings.iter()" [
      .ifCond "vmm_va >= mapping.vmm_addr && vmm_va < mapping.vmm_addr + mapping.size"
        [.okValue "vmm_va - mapping.vmm_addr + mapping.gpa_base"] []],
    .err "MissingMemoryMapping"]),
  ("unregister_vring_kick", unregisterKickBody),
  -- `Model.RingReg.needsInit`
  ("vring_needs_init", [
    .vringGet "get_ref" "vring_state",
    .value "!vring_state.get_queue().ready() && vring_state.get_kick().is_some()"]),
  ("initialize_vring", initializeVringBody),
  ("check_feature", [.ifCond "self.acked_features & feat.bits() != 0" [.ok] [.err "InactiveFeature"]])
]

/-! ## the methods -/

def modelHandlerOps : List HRow := [
  ("set_owner", [.valueCheck "self.owned" "InvalidOperation", .setField "owned" "true", .ok]),
  ("reset_owner", [
    .setField "owned" "false", .setField "features_acked" "false", .setField "acked_features" "0",
    .setField "acked_protocol_features" "0", .ok]),
  -- C11 `resetDevice`: every ring disabled and re-registered, then the feature word cleared
  ("reset_device", [
    .forEachVring [.vringCall "set_enabled" ["false"], updateReg "index as u8"],
    .setField "features_acked" "false", .setField "acked_features" "0",
    .backendCall "reset_device" [], .ok]),
  ("get_features", [.okBackend "features" []]),
  -- C14 `setFeatures` (subset check, event-idx, callbacks), C11 `setFeatures` (enable-all without bit 30)
  ("set_features", [
    .valueCheck "(features & !self.backend.features()) != 0" IP,
    .setField "acked_features" "features", .setField "features_acked" "true",
    .ifCond "self.acked_features & VhostUserVirtioFeatures::PROTOCOL_FEATURES.bits() == 0"
      [.forEachVring [.vringCall "set_enabled" ["true"], updateReg "index as u8"]] [],
    .bind "event_idx" "(self.acked_features & (1 << VIRTIO_RING_F_EVENT_IDX)) != 0",
    .forEachVring [.vringCall "set_queue_event_idx" ["event_idx"]],
    .backendCall "set_event_idx" ["event_idx"], .backendCall "acked_features" ["self.acked_features"], .ok]),
  -- C13 `setMemTable` / C15 `setMemTable`: every region built (and logged) first, then the table, then the state
  ("set_mem_table", [
    .localNew "regions", .localNew "mappings",
    .forEach "ctx.iter().zip(files)" [
      .libTry "mmap_region" "*", .libTry "GuestRegionMmap::new" RHE, logRegion,
      .localPush "mappings" addrMappingLit, .localPush "regions" "guest_region"],
    .libTry "GuestMemoryMmap::from_regions" RHE,
    .memReplace,
    .backendTry "update_memory" ["self.atomic_mem.clone()"] RHE,
    .mappingsAssign, .ok]),
  ("set_vring_num", [
    .indexBound IP, .valueCheck "num == 0 || num as usize > self.max_queue_size" IP,
    .vringCall "set_queue_size" ["num as u16"], .ok]),
  ("set_vring_addr", [
    .indexBound IP,
    .ifCond "!self.mappings.is_empty()" [
      .addrTranslate "descriptor" RHE "desc_table", .addrTranslate "available" RHE "avail_ring",
      .addrTranslate "used" RHE "used_ring",
      .vringTry "set_queue_info" ["desc_table", "avail_ring", "used_ring"] IP "",
      .vringTry "queue_used_idx" [] "BackendInternalError" "idx",
      .vringCall "set_queue_next_used" ["idx"], .ok]
      [.err IP]]),
  ("set_vring_base", [.indexBound IP, .vringCall "set_queue_next_avail" ["base as u16"], .ok]),
  -- C11 `stopRing`: not ready, registration updated, *then* the descriptors dropped
  ("get_vring_base", [
    .indexBound IP, .vringCall "set_queue_ready" ["false"], updateReg "index as u8",
    .vringGet "queue_next_avail" "next_avail",
    .vringCall "set_kick" ["None"], .vringCall "set_call" ["None"],
    .okValue "VhostUserVringState::new(index, u32::from(next_avail))"]),
  -- C11 `setVringKick` (repaired rule): unregister the old descriptor, install the new one, initialise or re-register
  ("set_vring_kick", [
    .indexBound IP,
    .helperCall "unregister_vring_kick" ["vring", "index"] false unregisterKickBody,
    .vringCall "set_kick" ["file"],
    .ifCond needsInit [initializeVring] [updateReg "index"],
    .ok]),
  ("set_vring_call", [
    .indexBound IP, .vringCall "set_call" ["file"], .ifCond needsInit [initializeVring] [], .ok]),
  ("set_vring_err", [.indexBound IP, .vringCall "set_err" ["file"], .ok]),
  ("get_protocol_features", [.okBackend "protocol_features" []]),
  ("set_protocol_features", [.setField "acked_protocol_features" "features", .ok]),
  ("get_queue_num", [.okValue "self.num_queues as u64"]),
  -- feature first, then the index, then the state change, then the registration
  ("set_vring_enable", [
    .helperCall "check_feature" ["VhostUserVirtioFeatures::PROTOCOL_FEATURES"] true [.featureAcked 30 "InactiveFeature"],
    .indexBound IP, .vringCall "set_enabled" ["enable"], updateReg "index as u8", .ok]),
  ("get_config", [.okBackend "get_config" ["offset", "size"]]),
  ("set_config", [.retBackend "set_config" ["offset", "buf"] RHE]),
  ("set_backend_req_fd", [
    .ifCond "self.acked_protocol_features & VhostUserProtocolFeatures::REPLY_ACK.bits() != 0"
      [.channelCall "set_reply_ack_flag" ["true"]] [],
    .ifCond "self.acked_protocol_features & VhostUserProtocolFeatures::SHARED_OBJECT.bits() != 0"
      [.channelCall "set_shared_object_flag" ["true"]] [],
    .ifCond "self.acked_protocol_features & VhostUserProtocolFeatures::SHMEM.bits() != 0"
      [.channelCall "set_shmem_flag" ["true"]] [],
    .backendCall "set_backend_req_fd" ["backend"], .done]),
  ("set_gpu_socket", [.retBackend "set_gpu_socket" ["gpu_backend"] RHE]),
  ("get_shared_object", [.retBackend "get_shared_object" ["uuid"] RHE]),
  ("get_inflight_fd", [.err "InvalidOperation"]),
  ("set_inflight_fd", [.err "InvalidOperation"]),
  ("get_max_mem_slots", [.okValue "MAX_MEM_SLOTS"]),
  -- C13 `addMemRegion` / C15 `addMemReg`
  ("add_mem_region", [
    .libTry "mmap_region" "*", .libTry "GuestRegionMmap::new" RHE, logRegion,
    .bind "addr_mapping" addrMappingLit,
    .libTry "insert_region" RHE,
    .memReplace,
    .backendTry "update_memory" ["self.atomic_mem.clone()"] RHE,
    .mappingsPush "addr_mapping", .ok]),
  -- C13 `removeMemRegion` / C15 `remMemReg`
  ("remove_mem_region", [
    .libTry "remove_region" RHE,
    .memReplace,
    .backendTry "update_memory" ["self.atomic_mem.clone()"] RHE,
    .mappingsRetain "mapping.gpa_base != region.guest_phys_addr", .ok]),
  ("set_device_state_fd", [.retBackend "set_device_state_fd" ["direction", "phase", "file"] RHE]),
  ("check_device_state", [.retBackend "check_device_state" [] RHE]),
  ("get_shmem_config", [.retBackend "get_shmem_config" [] RHE]),
  ("postcopy_advice", [
    .bind "uffd_builder" "UffdBuilder::new()", .libTry "UffdBuilder::create" RHE, .libCall "libc::dup",
    .valueCheck "uffd_dup < 0" RHE, .libCall "File::from_raw_fd", .setField "uffd" "Some(uffd)", .okValue "uffd_file"]),
  ("postcopy_listen", [
    .requireSome "self.uffd" RHE, .forEach "self.mappings.iter()" [.libTry "uffd.register" RHE], .ok]),
  ("postcopy_end", [.setField "uffd" "None", .ok]),
  -- C15 `setLogBase`: all bitmaps first, then replace them, then remember the log
  ("set_log_base", [
    .bind "mem" "self.atomic_mem.memory()",
    .libTry "MmapLogReg::from_file" RHE,
    .localNew "bitmaps",
    .forEach "mem.iter()" [.libTry "InnerBitmap::new" RHE, .localPush "bitmaps" "(region, bitmap)"],
    .forEach "bitmaps" [.bitmapReplace],
    .logAssign, .ok])
]

/-! ## the conditions and values the models compute -/

/-- identifier, value, side condition (no overflow of the `u64` arithmetic); `Props.HandlerOps.exprs_match_source` -/
def modelBoolExprs : List HBoolExpr := [
  ("self.owned", (fun x => x.owned), (fun _ => true)),
  ("true", (fun _ => true), (fun _ => true)),
  ("false", (fun _ => false), (fun _ => true)),
  ("shifted_queues_mask & 1u64 == 1u64", (fun x => (((x.queues_mask >>> x.index) &&& 1) == 1)), (fun x => decide (x.index < 64))),
  ("vring_state.get_queue().ready() && vring_state.is_enabled()", (fun x => (x.ring_ready && x.ring_enabled)), (fun _ => true)),
  ("(features & !self.backend.features()) != 0",
    (fun x => ((x.features &&& (18446744073709551615 - x.backend_features)) != 0)), (fun _ => true)),
  ("self.acked_features & VhostUserVirtioFeatures::PROTOCOL_FEATURES.bits() == 0",
    (fun x => ((x.acked_features &&& 0x40000000) == 0)), (fun _ => true)),
  ("(self.acked_features & (1 << VIRTIO_RING_F_EVENT_IDX)) != 0",
    (fun x => ((x.acked_features &&& 0x20000000) != 0)), (fun _ => true)),
  ("event_idx", (fun x => ((x.acked_features &&& 0x20000000) != 0)), (fun _ => true)),
  ("num == 0 || num as usize > self.max_queue_size",
    (fun x => ((x.num == 0) || (decide (x.num > x.max_queue_size)))), (fun _ => true)),
  ("!self.mappings.is_empty()", (fun x => (!x.mappings_empty)), (fun _ => true)),
  ("vmm_va >= mapping.vmm_addr && vmm_va < mapping.vmm_addr + mapping.size",
    (fun x => ((decide (x.vmm_va ≥ x.mapping_vmm_addr)) && (decide (x.vmm_va < (x.mapping_vmm_addr + x.mapping_size))))),
    (fun x => ((!(decide (x.vmm_va ≥ x.mapping_vmm_addr))) || (decide (x.mapping_vmm_addr + x.mapping_size < 18446744073709551616))))),
  ("!vring_state.get_queue().ready() && vring_state.get_kick().is_some()",
    (fun x => ((!x.ring_ready) && x.ring_kick_some)), (fun _ => true)),
  ("self.vring_needs_init(vring)", (fun x => ((!x.ring_ready) && x.ring_kick_some)), (fun _ => true)),
  ("self.acked_features & feat.bits() != 0", (fun x => ((x.acked_features &&& x.feat) != 0)), (fun _ => true)),
  ("enable", (fun x => x.enable), (fun _ => true)),
  ("self.acked_protocol_features & VhostUserProtocolFeatures::REPLY_ACK.bits() != 0",
    (fun x => ((x.acked_protocol_features &&& 0x8) != 0)), (fun _ => true)),
  ("self.acked_protocol_features & VhostUserProtocolFeatures::SHARED_OBJECT.bits() != 0",
    (fun x => ((x.acked_protocol_features &&& 0x40000) != 0)), (fun _ => true)),
  ("self.acked_protocol_features & VhostUserProtocolFeatures::SHMEM.bits() != 0",
    (fun x => ((x.acked_protocol_features &&& 0x200000) != 0)), (fun _ => true)),
  ("mapping.gpa_base != region.guest_phys_addr", (fun x => (x.mapping_gpa_base != x.region_guest_phys_addr)), (fun _ => true))
]

def modelNatExprs : List HNatExpr := [
  ("0", (fun _ => 0), (fun _ => true)),
  ("queues_mask >> index", (fun x => (x.queues_mask >>> x.index)), (fun x => decide (x.index < 64))),
  ("index as u8", (fun x => (x.index % 256)), (fun _ => true)),
  ("features", (fun x => x.features), (fun _ => true)),
  ("self.acked_features", (fun x => x.acked_features), (fun _ => true)),
  ("num as u16", (fun x => (x.num % 65536)), (fun _ => true)),
  ("vmm_va - mapping.vmm_addr + mapping.gpa_base",
    (fun x => ((x.vmm_va - x.mapping_vmm_addr) + x.mapping_gpa_base)),
    (fun x => ((decide (x.mapping_vmm_addr ≤ x.vmm_va)) && (decide ((x.vmm_va - x.mapping_vmm_addr) + x.mapping_gpa_base < 18446744073709551616))))),
  ("descriptor", (fun x => x.descriptor), (fun _ => true)),
  ("available", (fun x => x.available), (fun _ => true)),
  ("used", (fun x => x.used), (fun _ => true)),
  ("desc_table", (fun x => x.desc_table), (fun _ => true)),
  ("avail_ring", (fun x => x.avail_ring), (fun _ => true)),
  ("used_ring", (fun x => x.used_ring), (fun _ => true)),
  ("idx", (fun x => x.idx), (fun _ => true)),
  ("base as u16", (fun x => (x.base % 65536)), (fun _ => true)),
  ("index", (fun x => x.index), (fun _ => true)),
  ("self.num_queues as u64", (fun x => x.num_queues), (fun _ => true)),
  ("offset", (fun x => x.offset), (fun _ => true)),
  ("size", (fun x => x.size), (fun _ => true)),
  ("MAX_MEM_SLOTS", (fun _ => 0x1fd), (fun _ => true))
]

/-- expressions no model computes with (library values, descriptors, host-side numbers): identifiers only -/
def modelOpaqueExprs : List String := [
  "queues_mask.count_ones() - shifted_queues_mask.count_ones()",
  addrMappingLit,
  "self.atomic_mem.clone()",
  "VhostUserVringState::new(index, u32::from(next_avail))",
  "UffdBuilder::new()",
  "uffd_dup < 0",
  "uffd_file",
  "self.atomic_mem.memory()",
  "(region, bitmap)"
]

/-- the condition / value named `id`, as the models compute it -/
def cond (id : String) : HIn → Bool := boolOf modelBoolExprs id
def val (id : String) : HIn → Nat := natOf modelNatExprs id

/-- the events of a method -/
def row (n : String) : List HEvent := rowOf modelHandlerOps n

end Model.HandlerTable
