import VhostModel.Model.RecvBody
import VhostModel.Gen.Consts
/-!
# Model: the frontend's server for backend-initiated requests (`frontend_req_handler.rs`,
`FrontendReqHandler::handle_request`)

One call of `handle_request` = `step`:
  `check_state` → `recv_header` (loop; header validator of the backend channel: codes 1..10) →
  `check_attached_files` (exactly one file for SHARED_OBJECT_LOOKUP and SHMEM_MAP, none otherwise) → size bound →
  body (`recv_data`: loop until the declared size or EOF; short ⇒ InvalidMessage) → dispatch.
Each arm of the dispatch is *data* (`Arm`): the body type checked by `extract_msg_body` (size, not-a-reply,
version, generated validator — failure returns early, *before* any acknowledgement), whether the arm passes
`files.unwrap()[0]`, and the handler method.  Codes without an arm give `Err(InvalidMessage)` *and* go on to
`send_ack_message`.  `send_ack_message`: only if `reply_ack_negotiated ∧ NEED_REPLY`; value = `n` for `Ok(n)`,
`-errno as u64` for a handler `io::Error` with an OS error code, `-EINVAL as u64` otherwise.
The application's handler is a scripted outcome (`HOut`).  `files.unwrap()[0]` on an absent/empty file list is a
panic: the model has the outcome `panic` for it, and `Props.C18.step_never_panics` shows it is unreachable.
-/
namespace Model.FrontendSrv
open Base Model.Stream Model.Msgs Model.RecvBody
open Model.BackendSrv (Err Hdr encHdr hdrNewFlags Call)

/-- scripted outcome of the application's `VhostUserFrontendReqHandler` method -/
inductive HOut where
  | okv (n : Nat)      -- `Ok(n)`
  | errno (e : Nat)    -- `Err(io::Error::from_raw_os_error(e))`
  | err                -- `Err(e)` with `e.raw_os_error() == None`
  deriving Repr, DecidableEq, Inhabited

inductive Res where
  | ok (n : Nat) | err (e : Err) | blocked | panic
  deriving Repr, DecidableEq, Inhabited

/-- `FrontendReqHandler` without sockets and application object -/
structure FSt where
  replyAck : Bool := false     -- `reply_ack_negotiated` (`set_reply_ack_flag`)
  error : Option Nat := none   -- `error` (`set_failed`)
  deriving Repr, DecidableEq, Inhabited

/-- `set_failed(error)`: 0 clears -/
def FSt.setFailed (s : FSt) (e : Nat) : FSt := { s with error := if e == 0 then none else some e }

structure Arm where
  code : Nat
  body : Option String    -- `extract_msg_body::<T>`; `none` = `check_msg_size(hdr, size, 0)` (CONFIG_CHANGE_MSG)
  file : Bool             -- the arm passes `&files.unwrap()[0]`
  method : String
  deriving Repr, DecidableEq

/-- the arms of `match hdr.get_code()` in source order -/
def arms : List Arm := [
  ⟨2,  none, false, "handle_config_change"⟩,
  ⟨6,  some "VhostUserSharedMsg", false, "shared_object_add"⟩,
  ⟨7,  some "VhostUserSharedMsg", false, "shared_object_remove"⟩,
  ⟨8,  some "VhostUserSharedMsg", true,  "shared_object_lookup"⟩,
  ⟨9,  some "VhostUserMMap", true,  "shmem_map"⟩,
  ⟨10, some "VhostUserMMap", false, "shmem_unmap"⟩
]

/-- request codes for which `check_attached_files` expects exactly one file -/
def fileCodes : List Nat := [8, 9]

/-- `check_attached_files` -/
def filesOk (code : Nat) (files : Option (List Fd)) : Bool :=
  if fileCodes.contains code then
    match files with
    | some [_] => true
    | _ => false
  else files.isNone

/-- `check_msg_size(hdr, size, expected)` -/
def checkSize (h : Hdr) (size expected : Nat) : Bool :=
  h.size == expected && !h.isReply && h.flags % 4 == 1 && size == expected

/-- the generated validator of a body type, on bytes -/
def bodyValid (ty : String) (bs : Bytes) : Option Bool :=
  match ty with
  | "VhostUserSharedMsg" => (decShared bs).map (·.isValid)
  | "VhostUserMMap" => (decMMap bs).map (·.isValid)
  | _ => none

/-- `extract_msg_body::<ty>` resp. `check_msg_size(.., 0)` succeed -/
def extractOk (a : Arm) (h : Hdr) (buf : Bytes) : Bool :=
  match a.body with
  | none => checkSize h buf.length 0
  | some ty =>
    match structSize ty with
    | none => false
    | some n => checkSize h buf.length n && bodyValid ty buf == some true

def g (bs : Bytes) (s : String) (p : List String) : Nat := (getField bs s p).getD 0

/-- what the recording handler sees: decoded arguments, the padding bytes of `VhostUserMMap`, the lent file -/
def callOf (a : Arm) (buf : Bytes) (file : List Fd) : Call :=
  match a.body with
  | some "VhostUserSharedMsg" => ⟨a.method, [g buf "VhostUserSharedMsg" ["uuid"]], [], file⟩
  | some "VhostUserMMap" =>
    let s := "VhostUserMMap"
    ⟨a.method, [g buf s ["shmid"], g buf s ["fd_offset"], g buf s ["shm_offset"], g buf s ["len"], g buf s ["flags"]],
     (buf.drop 1).take 7, file⟩
  | _ => ⟨a.method, [], [], file⟩

/-- `res` as `send_ack_message` sees it -/
inductive Outcome where
  | handler (h : HOut)    -- the handler ran (`map_err(Error::ReqHandlerError)`)
  | invalid               -- `Err(Error::InvalidMessage)` of the catch-all arm
  deriving Repr, DecidableEq, Inhabited

/-- the value `send_ack_message` puts into the `VhostUserU64` (as a natural number; written with 8 bytes) -/
def ackVal : Outcome → Nat
  | .handler (.okv n) => n
  | .handler (.errno e) => 2^64 - e      -- `-rawerr as u64`
  | .handler .err => 2^64 - 22           -- `-EINVAL as u64`
  | .invalid => 2^64 - 22

def Outcome.res : Outcome → Res
  | .handler (.okv n) => .ok n
  | .handler _ => .err .handlerErr
  | .invalid => .err .invalidMsg

/-- bytes of an acknowledgement: `new_reply_header::<VhostUserU64>(req)` ++ value -/
def ackBytes (code : Nat) (v : Nat) : Bytes := encHdr code (hdrNewFlags 4) 8 ++ leBytes 8 v

/-- `send_ack_message(req, res)` -/
def sendAck (st : FSt) (h : Hdr) (o : Outcome) : Bytes :=
  if st.replyAck && h.needReply then ackBytes h.code (ackVal o) else []

structure Out where
  calls : List Call := []
  out : Bytes := []        -- bytes written to the socket (never with descriptors)
  closed : List Fd := []   -- received descriptors closed by the library (all of them: files are only lent)
  res : Res := .ok 0
  deriving Repr, Inhabited

/-- the `match hdr.get_code()` of `handle_request` on a framed request, followed by `send_ack_message` -/
def dispatch (st : FSt) (hdr : Hdr) (buf : Bytes) (files : Option (List Fd)) (h : HOut) : Out :=
  match arms.find? (·.code == hdr.code) with
  | none => { out := sendAck st hdr .invalid, closed := files.getD [], res := .err .invalidMsg }
  | some a =>
    if !extractOk a hdr buf then { closed := files.getD [], res := .err .invalidMsg }
    else if a.file then
      match files with
      | some (f :: rest) =>
        { calls := [callOf a buf [f]], out := sendAck st hdr (.handler h), closed := f :: rest, res := (Outcome.handler h).res }
      | _ => { closed := files.getD [], res := .panic }        -- `files.unwrap()[0]`
    else
      { calls := [callOf a buf []], out := sendAck st hdr (.handler h), closed := files.getD [], res := (Outcome.handler h).res }

structure StepOut (σ : Type) where
  o : Out
  rest : List Cell
  cst : σ

/-- one `handle_request()` over the stream -/
def step {σ : Type} (ch : Chooser σ) (isClosed : Bool) (st : FSt) (cst : σ) (s : List Cell) (h : HOut) : StepOut σ :=
  match st.error with
  | some _ => ⟨{ res := .err .sockBroken }, s, cst⟩
  | none =>
  -- recv_header
  let r := recvAll ch 32 isClosed 12 cst s true
  match r.outcome with
  | .blocked => ⟨{ res := .blocked, closed := r.closed ++ r.fds }, r.rest, r.st⟩
  | _ =>
  if r.bytes.length == 0 then ⟨{ res := .err .disconnected, closed := r.closed ++ r.fds }, r.rest, r.st⟩
  else if r.bytes.length != 12 then ⟨{ res := .err .partialMsg, closed := r.closed ++ r.fds }, r.rest, r.st⟩
  else if !hdrValidB r.bytes then ⟨{ res := .err .invalidMsg, closed := r.closed ++ r.fds }, r.rest, r.st⟩
  else
  let hdr : Hdr := Model.Frontend.parseHdr r.bytes
  let files : Option (List Fd) := if r.fds.isEmpty then none else some r.fds
  if !filesOk hdr.code files then ⟨{ res := .err .invalidMsg, closed := r.closed ++ r.fds }, r.rest, r.st⟩
  else if hdr.size == 0 then
    let o := dispatch st hdr [] files h
    ⟨{ o with closed := r.closed ++ o.closed }, r.rest, r.st⟩
  else if hdr.size > Gen.Consts.MAX_MSG_SIZE then ⟨{ res := .err .invalidMsg, closed := r.closed ++ r.fds }, r.rest, r.st⟩
  else
    let d := recvData ch isClosed hdr.size r.st r.rest
    match d.outcome with
    | .blocked => ⟨{ res := .blocked, closed := r.closed ++ r.fds }, d.rest, d.st⟩
    | .short => ⟨{ res := .err .invalidMsg, closed := r.closed ++ r.fds }, d.rest, d.st⟩
    | .enobufs => ⟨{ res := .err .sockRetry, closed := r.closed ++ r.fds ++ d.lost }, d.rest, d.st⟩
    | .full =>
      let o := dispatch st hdr d.bytes files h
      ⟨{ o with closed := r.closed ++ o.closed }, d.rest, d.st⟩

end Model.FrontendSrv
