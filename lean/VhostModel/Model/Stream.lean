import VhostModel.Base
/-!
# Model: one direction of an `AF_UNIX` stream socket, and the crate's receive loops over it

A stream is a list of *cells*: one byte, the descriptors riding on it (the `SCM_RIGHTS` payload of the
`sendmsg` whose first byte this is) and a mark telling that the byte starts a new kernel segment (skb).
How many bytes a `recvmsg` returns is decided by a *chooser* — any function of the request size and
the stream (plus its own state).  Property theorems quantify over **all** choosers, hence over every
kernel segmentation and every arrival timing; the driver instantiates the chooser with the Linux rule
(`kernelChooser`).

Modelled code: `connection.rs` — `recv_into_iovec` (wraps received descriptors as `File`, closed when
dropped), `recv_into_iovec_all` (loop; descriptors of the first successful read are kept, later ones
dropped = closed), `recv_data` (single `recvmsg`, no control buffer), and `vmm-sys-util`'s
`recv_with_fds` (`MSG_CTRUNC` ⇒ installed descriptors closed, `ENOBUFS`, which the crate maps to
`SocketRetry`; the bytes of that call are lost).
-/
namespace Model.Stream
open Base

abbrev Fd := Nat

structure Cell where
  b : UInt8
  fds : List Fd := []
  segStart : Bool := false
  deriving Repr, DecidableEq, Inhabited

/-- a chooser decides how many bytes the next `recvmsg` returns -/
structure Chooser (σ : Type) where
  next : σ → (want : Nat) → List Cell → Nat × σ

/-- clamp the chooser's answer to what `recvmsg` can return: `1 ≤ k ≤ min want available` -/
def clampK (k want avail : Nat) : Nat := min (max k 1) (min want avail)

theorem clampK_pos {k want avail : Nat} (hw : 0 < want) (ha : 0 < avail) : 0 < clampK k want avail := by
  unfold clampK; omega
theorem clampK_le_want (k want avail : Nat) : clampK k want avail ≤ want := by unfold clampK; omega
theorem clampK_le_avail (k want avail : Nat) : clampK k want avail ≤ avail := by unfold clampK; omega

inductive Outcome where
  | done      -- all requested bytes were delivered
  | eof       -- the stream ended (peer closed / shut down) before that
  | blocked   -- the stream is open but holds no byte: the call waits
  deriving Repr, DecidableEq, Inhabited

structure RecvAll (σ : Type) where
  bytes : Bytes          -- bytes delivered, in order
  fds : List Fd          -- descriptors handed to the caller (`rfds`)
  closed : List Fd       -- descriptors closed by the library (dropped `File`s, `MSG_CTRUNC` teardown)
  rest : List Cell
  st : σ
  outcome : Outcome

/-- `recv_into_iovec_all` for a buffer of `want` bytes; `cap` = descriptor slots (32); `first` = `data_read == 0`. -/
def recvAll {σ : Type} (ch : Chooser σ) (cap : Nat) (isClosed : Bool) :
    (want : Nat) → (st : σ) → (s : List Cell) → (first : Bool) → RecvAll σ
  | 0, st, s, _ => ⟨[], [], [], s, st, .done⟩
  | _+1, st, [], _ => ⟨[], [], [], [], st, if isClosed then .eof else .blocked⟩
  | want+1, st, c :: s, first =>
    let (k0, st') := ch.next st (want+1) (c :: s)
    let k := clampK k0 (want+1) (s.length + 1)
    let chunk := (c :: s).take k
    let rest := (c :: s).drop k
    let cf := chunk.flatMap (·.fds)
    if cf.length > cap then
      -- MSG_CTRUNC: everything installed is closed, ENOBUFS ⇒ SocketRetry ⇒ loop again; bytes lost
      let r := recvAll ch cap isClosed (want+1) st' rest first
      { r with closed := cf ++ r.closed }
    else
      let r := recvAll ch cap isClosed (want + 1 - k) st' rest false
      { bytes := chunk.map (·.b) ++ r.bytes
        fds := if first then cf else r.fds
        closed := (if first then [] else cf) ++ r.closed
        rest := r.rest, st := r.st, outcome := r.outcome }
termination_by _ _ s _ => s.length
decreasing_by
  all_goals simp_wf
  all_goals
    have hk : 0 < clampK k0 (want + 1) (s.length + 1) := clampK_pos (by omega) (by omega)
    have hk2 := clampK_le_avail k0 (want+1) (s.length + 1)
    simp [List.length_drop, List.length_cons] at *
    omega

inductive DataOutcome where
  | full       -- all `want` bytes arrived
  | short      -- the stream ended first (`bytes` holds what arrived)
  | enobufs    -- descriptors arrived where none can be received: ENOBUFS ⇒ SocketRetry is returned
  | blocked
  deriving Repr, DecidableEq, Inhabited

structure RecvData (σ : Type) where
  bytes : Bytes
  lost : List Fd         -- descriptors discarded by the kernel (no control buffer)
  rest : List Cell
  st : σ
  outcome : DataOutcome

/-- `recv_data(len)`: `recvmsg` without a control buffer, repeated until `len` bytes arrived or EOF. -/
def recvData {σ : Type} (ch : Chooser σ) (isClosed : Bool) :
    (want : Nat) → (st : σ) → (s : List Cell) → RecvData σ
  | 0, st, s => ⟨[], [], s, st, .full⟩
  | _+1, st, [] => ⟨[], [], [], st, if isClosed then .short else .blocked⟩
  | want+1, st, c :: s =>
    let (k0, st') := ch.next st (want+1) (c :: s)
    let k := clampK k0 (want+1) (s.length + 1)
    let chunk := (c :: s).take k
    let rest := (c :: s).drop k
    let cf := chunk.flatMap (·.fds)
    if cf ≠ [] then ⟨[], cf, rest, st', .enobufs⟩
    else
      let r := recvData ch isClosed (want + 1 - k) st' rest
      { r with bytes := chunk.map (·.b) ++ r.bytes }
termination_by _ _ s => s.length
decreasing_by
  simp_wf
  have hk : 0 < clampK k0 (want + 1) (s.length + 1) := clampK_pos (by omega) (by omega)
  have hk2 := clampK_le_avail k0 (want+1) (s.length + 1)
  simp [List.length_drop, List.length_cons] at *
  omega

/-! ## The Linux rule (`unix_stream_read_generic`) as a chooser

Copy from successive segments until `want` bytes are taken; the descriptors of a segment are
delivered when its first byte is read; once descriptors were picked up the call returns at the end of
that segment.  `seqMode`: only the head segment has arrived when the call is made. -/

def kernelK (seqMode : Bool) : (want : Nat) → List Cell → (gotFds : Bool) → (first : Bool) → Nat
  | 0, _, _, _ => 0
  | _, [], _, _ => 0
  | want+1, c :: s, got, first =>
    if !first && c.segStart && (got || seqMode) then 0
    else 1 + kernelK seqMode want s (got || !c.fds.isEmpty) false

def kernelChooser (seqMode : Bool) : Chooser Unit := ⟨fun _ want s => (kernelK seqMode want s false true, ())⟩

/-- build the cells of one `sendmsg` (one segment): descriptors on the first byte -/
def segCells (bytes : Bytes) (fds : List Fd) : List Cell :=
  match bytes with
  | [] => []
  | b :: bs => ⟨b, fds, true⟩ :: bs.map (fun x => ⟨x, [], false⟩)

end Model.Stream
