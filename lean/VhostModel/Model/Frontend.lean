import VhostModel.Model.BackendSrv
/-!
# Model: the frontend endpoint (`frontend.rs`, `Frontend` / `FrontendInternal`)

Every API method = local checks → one request on the wire (`send`) → optionally one reply read
(`recv`) → result and state update (`finish`).  The reply readers are `recv_body::<T>` (one scatter read
of header + fixed body), the acknowledgement reader `wait_for_ack`, and — after the repair of F-C03-cfg —
`recv_reply_with_payload` as "fixed part, then exactly the payload the reply header declares".
-/
namespace Model.Frontend
open Base Model.Stream Model.Msgs
open Model.BackendSrv (Err Res Hdr encHdr hdrNewFlags bitSet)

structure FSt where
  virtio : Nat := 0        -- features reported by the backend (GET_FEATURES)
  acked : Nat := 0         -- `acked_virtio_features`
  proto : Nat := 0
  ackedProto : Nat := 0
  maxQ : Nat := 0
  hdrFlags : Nat := 0      -- `hdr_flags` (set_hdr_flags)
  deriving Repr, DecidableEq, Inhabited

/-- an API call: operation name, numeric arguments, byte payload, descriptors passed by the caller,
`bad` = the caller passed an invalid (negative) descriptor / `none` region -/
structure Op where
  name : String
  a : List Nat := []
  payload : Bytes := []
  fds : List Fd := []
  bad : Bool := false
  regions : List (Nat × Nat × Nat × Nat × Bool) := []   -- set_mem_table: (gpa, size, uaddr, off, fd valid)
  deriving Repr, Inhabited

inductive ReplyKind where
  | noWait                      -- nothing is read
  | ack                         -- `wait_for_ack`
  | body (ty : String)          -- `recv_reply::<ty>` (no descriptors allowed)
  | bodyOptFiles (ty : String)  -- `recv_reply_with_optional_files`
  | bodyFiles (ty : String)     -- `recv_reply_with_files`
  | payload (ty : String)       -- `recv_reply_with_payload`
  deriving Repr, DecidableEq, Inhabited

structure Req where
  code : Nat
  body : Bytes
  fds : List Fd
  kind : ReplyKind
  deriving Repr, Inhabited

def hasProto (s : FSt) (bit : Nat) : Bool := bitSet s.ackedProto bit

def u64 (v : Nat) : Bytes := leBytes 8 v
def u32 (v : Nat) : Bytes := leBytes 4 v
def u16 (v : Nat) : Bytes := leBytes 2 v

def regionBytes (r : Nat × Nat × Nat × Nat × Bool) : Bytes := u64 r.1 ++ u64 r.2.1 ++ u64 r.2.2.1 ++ u64 r.2.2.2.1

def configValid (off size fl : Nat) : Bool :=
  match decConfig (u32 off ++ u32 size ++ u32 fl) with
  | some m => m.isValid
  | none => false

def uuidValid (u : Nat) : Bool :=
  match decShared (leBytes 16 u) with
  | some m => m.isValid
  | none => false

/-- local checks and request construction of each API method, in the order the method performs them;
also returns the state after the method's *pre-receive* updates -/
def request (s : FSt) (op : Op) : Except Err (Req × FSt) :=
  let q (i : Nat) : Bool := i < s.maxQ
  match op.name, op.a with
  | "get_features", _ => .ok (⟨1, [], [], .body "VhostUserU64"⟩, s)
  | "set_features", [v] => .ok (⟨2, u64 v, [], .ack⟩, { s with acked := v &&& s.virtio })
  | "set_owner", _ => .ok (⟨3, [], [], .ack⟩, s)
  | "reset_owner", _ => .ok (⟨4, [], [], .ack⟩, s)
  | "set_mem_table", _ =>
    if op.regions.isEmpty || op.regions.length > 32 then .error .invalidParam
    else if op.regions.any (fun r => r.2.1 == 0 || !r.2.2.2.2) then .error .invalidParam
    else
      let body := u32 op.regions.length ++ u32 0 ++ op.regions.flatMap regionBytes
      .ok (⟨5, body, op.fds, .ack⟩, s)
  | "set_log_base", [base] => .ok (⟨6, u64 base, [], .noWait⟩, s)
  | "set_log_base", [base, size, off] =>
    if hasProto s 1 then .ok (⟨6, u64 size ++ u64 off, op.fds, .body "VhostUserLog"⟩, s)
    else .ok (⟨6, u64 base, [], .noWait⟩, s)
  | "set_log_fd", _ => .ok (⟨7, [], op.fds, .ack⟩, s)
  | "set_vring_num", [i, n] => if !q i then .error .invalidParam else .ok (⟨8, u32 i ++ u32 n, [], .ack⟩, s)
  | "set_vring_addr", [i, fl, d, u, a, lg] =>
    if !q i || (fl &&& (2^32 - 1 - 1)) != 0 then .error .invalidParam
    else .ok (⟨9, u32 i ++ u32 fl ++ u64 d ++ u64 u ++ u64 a ++ u64 lg, [], .ack⟩, s)
  | "set_vring_base", [i, b] => if !q i then .error .invalidParam else .ok (⟨10, u32 i ++ u32 b, [], .ack⟩, s)
  | "get_vring_base", [i] =>
    if !q i then .error .invalidParam else .ok (⟨11, u32 i ++ u32 0, [], .body "VhostUserVringState"⟩, s)
  | "set_vring_call", [i] => if !q i || i > 0xff then .error .invalidParam else .ok (⟨13, u64 i, op.fds, .ack⟩, s)
  | "set_vring_kick", [i] => if !q i || i > 0xff then .error .invalidParam else .ok (⟨12, u64 i, op.fds, .ack⟩, s)
  | "set_vring_err", [i] => if !q i || i > 0xff then .error .invalidParam else .ok (⟨14, u64 i, op.fds, .ack⟩, s)
  | "get_protocol_features", _ =>
    if !bitSet s.virtio 30 then .error .inactiveFeature else .ok (⟨15, [], [], .body "VhostUserU64"⟩, s)
  | "set_protocol_features", [v] =>
    if !bitSet s.virtio 30 then .error .inactiveFeature
    else .ok (⟨16, u64 v, [], .ack⟩, { s with ackedProto := v })
  | "get_queue_num", _ => if !hasProto s 0 then .error .inactiveOperation else .ok (⟨17, [], [], .body "VhostUserU64"⟩, s)
  | "reset_device", _ => if !hasProto s 13 then .error .inactiveOperation else .ok (⟨34, [], [], .ack⟩, s)
  | "set_vring_enable", [i, e] =>
    if !bitSet s.acked 30 then .error .inactiveFeature
    else if !q i then .error .invalidParam
    else .ok (⟨18, u32 i ++ u32 e, [], .ack⟩, s)
  | "get_config", [off, size, fl, _] =>
    if !configValid off size fl then .error .invalidParam
    else if !hasProto s 9 then .error .inactiveOperation
    else if 12 + op.payload.length > 0x1000 then .error .invalidParam
    else .ok (⟨24, u32 off ++ u32 size ++ u32 fl ++ op.payload, [], .payload "VhostUserConfig"⟩, s)
  | "set_config", [off, fl] =>
    if op.payload.length > 0x1000 then .error .invalidParam
    else if !configValid off op.payload.length fl then .error .invalidParam
    else if !hasProto s 9 then .error .inactiveOperation
    else if 12 + op.payload.length > 0x1000 then .error .invalidParam
    else .ok (⟨25, u32 off ++ u32 op.payload.length ++ u32 fl ++ op.payload, [], .ack⟩, s)
  | "set_backend_req_fd", _ => if !hasProto s 5 then .error .inactiveOperation else .ok (⟨21, [], op.fds, .ack⟩, s)
  | "get_shared_object", [u] =>
    if !hasProto s 18 then .error .inactiveOperation
    else if !uuidValid u then .error .invalidParam
    else .ok (⟨41, leBytes 16 u, [], .bodyFiles "VhostUserEmpty"⟩, s)
  | "get_inflight_fd", [ms, mo, nq, qs] =>
    if !hasProto s 12 then .error .inactiveOperation
    else .ok (⟨31, u64 ms ++ u64 mo ++ u16 nq ++ u16 qs ++ [0, 0, 0, 0], [], .bodyFiles "VhostUserInflight"⟩, s)
  | "set_inflight_fd", [ms, mo, nq, qs] =>
    if !hasProto s 12 then .error .inactiveOperation
    else if ms == 0 || nq == 0 || qs == 0 || op.bad then .error .invalidParam
    else .ok (⟨32, u64 ms ++ u64 mo ++ u16 nq ++ u16 qs ++ [0, 0, 0, 0], op.fds, .ack⟩, s)
  | "get_max_mem_slots", _ => if !hasProto s 15 then .error .inactiveOperation else .ok (⟨36, [], [], .body "VhostUserU64"⟩, s)
  | "add_mem_region", [g, sz, u, o] =>
    if !hasProto s 15 then .error .inactiveOperation
    else if sz == 0 || op.bad then .error .invalidParam
    else .ok (⟨37, u64 0 ++ u64 g ++ u64 sz ++ u64 u ++ u64 o, op.fds, .ack⟩, s)
  | "remove_mem_region", [g, sz, u, o] =>
    if !hasProto s 15 then .error .inactiveOperation
    else if sz == 0 then .error .invalidParam
    else .ok (⟨38, u64 0 ++ u64 g ++ u64 sz ++ u64 u ++ u64 o, [], .ack⟩, s)
  | "get_shmem_config", _ => if !hasProto s 21 then .error .inactiveOperation else .ok (⟨44, [], [], .body "VhostUserShMemConfig"⟩, s)
  | "set_device_state_fd", [d, p] =>
    if !hasProto s 19 then .error .inactiveOperation
    else .ok (⟨42, u32 d ++ u32 p, op.fds, .bodyOptFiles "VhostUserU64"⟩, s)
  | "check_device_state", _ => if !hasProto s 19 then .error .inactiveOperation else .ok (⟨43, [], [], .body "VhostUserU64"⟩, s)
  | "postcopy_advise", _ => if !hasProto s 8 then .error .inactiveOperation else .ok (⟨28, [], [], .bodyFiles "VhostUserEmpty"⟩, s)
  | "postcopy_listen", _ => if !hasProto s 8 then .error .inactiveOperation else .ok (⟨29, [], [], .ack⟩, s)
  | "postcopy_end", _ => if !hasProto s 8 then .error .inactiveOperation else .ok (⟨30, [], [], .ack⟩, s)
  | _, _ => .error .other

/-- flags of every request header: `VhostUserMsgHeader::new(code, hdr_flags | 1, size)` -/
def reqFlags (s : FSt) : Nat := hdrNewFlags (s.hdrFlags ||| 1)

def reqHdr (s : FSt) (r : Req) : Hdr := ⟨r.code, reqFlags s, r.body.length⟩

/-- bytes put on the wire for a request -/
def wire (s : FSt) (r : Req) : Bytes := encHdr r.code (reqFlags s) r.body.length ++ r.body

def sizeOfTy (ty : String) : Option Nat := if ty == "VhostUserEmpty" then some 0 else structSize ty

def bodyValidTy (ty : String) (bs : Bytes) : Option Bool :=
  if ty == "VhostUserEmpty" then some true
  else if ty == "VhostUserShMemConfig" then some true
  else Model.BackendSrv.bodyValid ty bs

/-- `reply.is_reply_for(req)`: both codes known, reply has REPLY, request has not, same code -/
def isReplyFor (reply req : Hdr) : Bool :=
  let codes := Gen.Codes.FrontendReq.table.map (·.2)
  codes.contains reply.code && codes.contains req.code && reply.isReply && !req.isReply && reply.code == req.code

structure Reply where
  hdr : Hdr
  body : Bytes
  payload : Bytes := []
  files : Option (List Fd)
  deriving Repr, Inhabited

inductive RecvRes where
  | ok (r : Reply)
  | err (e : Err)
  | blocked
  deriving Repr, Inhabited

structure RecvOut (σ : Type) where
  res : RecvRes
  rest : List Cell
  cst : σ
  closed : List Fd   -- descriptors received and dropped by the library

def parseHdr (bs : Bytes) : Hdr := ⟨leVal (bs.take 4), leVal ((bs.drop 4).take 4), leVal ((bs.drop 8).take 4)⟩

def hdrValid (bs : Bytes) : Bool :=
  match (decHeader bs).map (·.isValid (Gen.Codes.FrontendReq.table.map (·.2))) with
  | some true => true
  | _ => false

/-- `Endpoint::recv_body::<ty>` -/
def recvBody {σ : Type} (ch : Chooser σ) (isClosed : Bool) (ty : String) (cst : σ) (s : List Cell) : RecvOut σ :=
  match sizeOfTy ty with
  | none => ⟨.err .other, s, cst, []⟩
  | some n =>
    let r := recvAll ch 32 isClosed (12 + n) cst s true
    match r.outcome with
    | .blocked => ⟨.blocked, r.rest, r.st, r.closed ++ r.fds⟩
    | _ =>
      if r.bytes.length != 12 + n then ⟨.err .partialMsg, r.rest, r.st, r.closed ++ r.fds⟩
      else
        let hb := r.bytes.take 12
        let body := r.bytes.drop 12
        if !hdrValid hb || bodyValidTy ty body != some true then ⟨.err .invalidMsg, r.rest, r.st, r.closed ++ r.fds⟩
        else ⟨.ok ⟨parseHdr hb, body, [], if r.fds.isEmpty then none else some r.fds⟩, r.rest, r.st, r.closed⟩

/-- the four reply readers of `FrontendInternal` -/
def recv {σ : Type} (ch : Chooser σ) (isClosed : Bool) (s : FSt) (req : Req) (cst : σ) (str : List Cell) : RecvOut σ :=
  let rh := reqHdr s req
  match req.kind with
  | .noWait => ⟨.ok ⟨rh, [], [], none⟩, str, cst, []⟩
  | .ack =>
    if !bitSet s.ackedProto 3 || !rh.needReply then ⟨.ok ⟨rh, u64 0, [], none⟩, str, cst, []⟩
    else
      let o := recvBody ch isClosed "VhostUserU64" cst str
      match o.res with
      | .ok r =>
        if !isReplyFor r.hdr rh || r.files.isSome then ⟨.err .invalidMsg, o.rest, o.cst, o.closed ++ r.files.getD []⟩
        else if leVal r.body != 0 then ⟨.err .backendInternal, o.rest, o.cst, o.closed⟩
        else o
      | _ => o
  | .body ty =>
    if rh.isReply then ⟨.err .invalidParam, str, cst, []⟩ else
    let o := recvBody ch isClosed ty cst str
    match o.res with
    | .ok r =>
      if !isReplyFor r.hdr rh || r.files.isSome then ⟨.err .invalidMsg, o.rest, o.cst, o.closed ++ r.files.getD []⟩ else o
    | _ => o
  | .bodyOptFiles ty =>
    if rh.isReply then ⟨.err .invalidParam, str, cst, []⟩ else
    let o := recvBody ch isClosed ty cst str
    match o.res with
    | .ok r => if !isReplyFor r.hdr rh then ⟨.err .invalidMsg, o.rest, o.cst, o.closed ++ r.files.getD []⟩ else o
    | _ => o
  | .bodyFiles ty =>
    if rh.isReply then ⟨.err .invalidParam, str, cst, []⟩ else
    let o := recvBody ch isClosed ty cst str
    match o.res with
    | .ok r =>
      if !isReplyFor r.hdr rh then ⟨.err .invalidMsg, o.rest, o.cst, o.closed ++ r.files.getD []⟩
      else if r.files.isNone then ⟨.err .invalidMsg, o.rest, o.cst, o.closed⟩ else o
    | _ => o
  | .payload ty =>
    match sizeOfTy ty with
    | none => ⟨.err .other, str, cst, []⟩
    | some n =>
      if rh.size ≤ n || rh.size > 0x1000 || rh.isReply then ⟨.err .invalidParam, str, cst, []⟩ else
      let o := recvBody ch isClosed ty cst str
      match o.res with
      | .ok r =>
        if !isReplyFor r.hdr rh || r.files.isSome then ⟨.err .invalidMsg, o.rest, o.cst, o.closed ++ r.files.getD []⟩
        else if r.hdr.size < n then ⟨.err .invalidMsg, o.rest, o.cst, o.closed⟩
        else if r.hdr.size - n > rh.size - n then ⟨.err .invalidMsg, o.rest, o.cst, o.closed⟩
        else
          let d := recvData ch isClosed (r.hdr.size - n) o.cst o.rest
          match d.outcome with
          | .blocked => ⟨.blocked, d.rest, d.st, o.closed⟩
          | .enobufs => ⟨.err .sockRetry, d.rest, d.st, o.closed ++ d.lost⟩
          | .short => ⟨.err .partialMsg, d.rest, d.st, o.closed⟩
          | .full => ⟨.ok { r with payload := d.bytes }, d.rest, d.st, o.closed⟩
      | _ => o

/-- what the API call returns, given the reply; `fileOut` = a received file is handed to the caller -/
inductive Ret where
  | unit
  | val (v : Nat)
  | config (off size flags : Nat) (payload : Bytes)
  | inflight (ms mo nq qs : Nat) (file : Fd)
  | file (f : Fd)
  | noFile
  | shmem (n : Nat) (sizes : Bytes)
  | err (e : Err)
  | blocked
  deriving Repr, Inhabited

def g (bs : Bytes) (s : String) (p : List String) : Nat := (getField bs s p).getD 0

def takeSingle (files : Option (List Fd)) : Option Fd :=
  match files with
  | some [f] => some f
  | _ => none

/-- post-processing of each method after a reply was accepted -/
def finish (s : FSt) (op : Op) (r : Reply) : Ret × FSt :=
  match op.name with
  | "get_features" => let v := leVal r.body; (.val v, { s with virtio := v })
  | "get_protocol_features" => let v := leVal r.body; (.val (v &&& (2^22 - 1)), { s with proto := v })
  | "get_queue_num" =>
    let v := leVal r.body
    if v > 0x8000 then (.err .invalidMsg, s) else (.val v, { s with maxQ := v })
  | "get_vring_base" => (.val (g r.body "VhostUserVringState" ["num"]), s)
  | "get_max_mem_slots" => (.val (leVal r.body), s)
  | "check_device_state" => if leVal r.body != 0 then (.err .backendInternal, s) else (.unit, s)
  | "get_config" =>
    let off := g r.body "VhostUserConfig" ["offset"]; let sz := g r.body "VhostUserConfig" ["size"]
    let fl := g r.body "VhostUserConfig" ["flags"]
    match op.a with
    | [roff, rsz, _, blen] =>
      if sz == 0 then (.err .backendInternal, s)
      else if sz != rsz || sz != blen || off != roff || r.payload.length != blen then (.err .invalidMsg, s)
      else (.config off sz fl r.payload, s)
    | _ => (.err .other, s)
  | "get_shared_object" | "postcopy_advise" =>
    (match takeSingle r.files with | some f => .file f | none => .err .incorrectFds, s)
  | "get_inflight_fd" =>
    (match takeSingle r.files with
     | some f => .inflight (g r.body "VhostUserInflight" ["mmap_size"]) (g r.body "VhostUserInflight" ["mmap_offset"])
                  (g r.body "VhostUserInflight" ["num_queues"]) (g r.body "VhostUserInflight" ["queue_size"]) f
     | none => .err .incorrectFds, s)
  | "set_device_state_fd" =>
    let v := leVal r.body
    if v == 0x100 && r.files.isNone then (.noFile, s)
    else if v == 0 && r.files.isSome then
      (match takeSingle r.files with | some f => .file f | none => .err .incorrectFds, s)
    else (.err .backendInternal, s)
  | "get_shmem_config" => (.shmem (g r.body "VhostUserShMemConfig" ["nregions"]) ((r.body.drop 8).take 2048), s)
  | _ => (.unit, s)

structure CallOut (σ : Type) where
  ret : Ret
  st : FSt
  wire : Bytes          -- bytes written to the socket by this call
  wireFds : List Fd     -- descriptors attached to them
  rest : List Cell      -- what remains of the incoming stream
  cst : σ
  closed : List Fd

/-- second half of a call: read (if the method reads) and post-process. `s'` is the state after the send. -/
def callRecv {σ : Type} (ch : Chooser σ) (isClosed : Bool) (s' : FSt) (op : Op) (req : Req) (cst : σ) (str : List Cell) :
    CallOut σ :=
  let rv := recv ch isClosed s' req cst str
  match rv.res with
  | .blocked => ⟨.blocked, s', wire s' req, req.fds, rv.rest, rv.cst, rv.closed⟩
  | .err e => ⟨.err e, s', wire s' req, req.fds, rv.rest, rv.cst, rv.closed⟩
  | .ok rep =>
    let (ret, s'') := finish s' op rep
    ⟨ret, s'', wire s' req, req.fds, rv.rest, rv.cst, rv.closed⟩

/-- a whole API call against an incoming stream `str` (what the peer has written / will have written) -/
def call {σ : Type} (ch : Chooser σ) (isClosed : Bool) (s : FSt) (op : Op) (cst : σ) (str : List Cell) : CallOut σ :=
  match request s op with
  | .error e => ⟨.err e, s, [], [], str, cst, []⟩
  | .ok (req, s') => callRecv ch isClosed s' op req cst str

end Model.Frontend
