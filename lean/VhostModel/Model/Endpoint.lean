import VhostModel.Model.Stream
/-!
# Model: the send loop and the iovec offset helper of `connection.rs`

`send_iovec_all`: repeat `sendmsg` on the not-yet-sent suffix of the scatter list until everything is
sent; descriptors are passed only while nothing has been sent yet (`data_sent == 0`); `Ok(0)` ends the
loop; `SocketRetry` (EAGAIN/EINTR/ENOBUFS/ENOMEM) retries; any other error is returned.
The kernel is a script of events, one per `sendmsg` call.
-/
namespace Model.Endpoint
open Base Model.Stream

/-- `get_sub_iovs_offset(iov_lens, skip_size)` -/
def subIovsOffset : List Nat → Nat → Nat → Nat × Nat
  | [], size, nr => (nr, size)
  | len :: rest, size, nr => if size ≥ len then subIovsOffset rest (size - len) (nr + 1) else (nr, size)

inductive SendEv where
  | accept (k : Nat)   -- the kernel took `k` bytes (clamped to what was offered; 0 = nothing)
  | retry              -- EAGAIN / EINTR / ENOBUFS / ENOMEM
  | broken             -- EPIPE / ECONNRESET
  | other              -- any other errno
  deriving Repr, DecidableEq

inductive SendRes where
  | ok (n : Nat) | broken | other | outOfScript
  deriving Repr, DecidableEq

/-- what went onto the socket: one entry per successful `sendmsg` (bytes accepted, descriptors passed with it) -/
abbrev Wire := List (Bytes × List Fd)

/-- `send_iovec_all` over the concatenated scatter list `data` -/
def sendAll (fds : List Fd) : (remaining : Bytes) → (sent : Nat) → List SendEv → Wire → Wire × SendRes
  | [], sent, _, w => (w, .ok sent)
  | _ :: _, _, [], w => (w, .outOfScript)
  | b :: bs, sent, ev :: evs, w =>
    match ev with
    | .retry => sendAll fds (b :: bs) sent evs w
    | .broken => (w, .broken)
    | .other => (w, .other)
    | .accept 0 => (w, .ok sent)
    | .accept (k+1) =>
      let n := min (k+1) (bs.length + 1)
      let chunk := (b :: bs).take n
      sendAll fds ((b :: bs).drop n) (sent + n) evs (w ++ [(chunk, if sent == 0 then fds else [])])
termination_by _ _ evs _ => evs.length

def wireBytes (w : Wire) : Bytes := w.flatMap (·.1)

end Model.Endpoint
