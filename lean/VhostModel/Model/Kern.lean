import VhostModel.Base
import VhostModel.Base.Ioctl
import VhostModel.Gen.Ioctl
/-!
# Model: the kernel vhost / vhost-net / vhost-vsock / vhost-vDPA backends (`vhost/src/vhost_kern/*`)

What the code does, as total functions:

* request numbers: `ioctl_expr` of vmm-sys-util applied to the *generated* `ioctl_io*_nr!` table; the
  argument size is the `size_of` of the generated argument type, computed by the layout algorithm;
* which request a method issues: looked up in the *generated* `Gen.Ioctl.ops` (so on the unmodified tree
  `set_group_asid` issues what the source says: `VHOST_VDPA_GET_VRING_GROUP`);
* argument byte images: the object the method passes, built field by field at the offsets the layout
  algorithm computes from the *generated* binding structs;
* the IOTLB writer and the two parsers: interpreters of the *generated* branch / parser tables;
* `is_valid` (default and vDPA override), `is_log_addr_valid`, `get_log_addr`, `to_vhost_vring_addr`:
  written by hand from `mod.rs`, `vdpa.rs`, `backend.rs`; guest memory is a list of regions
  `(guest address, size, host address)` (vm-memory: sorted, non-overlapping, `find_region` = the region
  containing the address);
* the stand-in kernel of the harness (`tools/ioctl_interpose.c`): what it captures and what it writes back.

The hand-written parts assume the argument initialisers recorded in `modelledOps`/`modelledLits` below;
`Props.C19.ops_as_modelled` checks that the generated tables still say the same.
-/
namespace Model.Kern
open Base Base.K Gen.Ioctl

/-! ## tables -/

def constOf (n : String) : Option Nat := (consts.find? (·.1 == n)).map (·.2)
def layoutOf (s : String) : Option Layout := layoutKByName structs s
def sizeOf (s : String) : Option Nat := (layoutOf s).map (·.size)
def leafAt (s : String) (path : List String) : Option (Nat × Nat) := leafAtK structs s path

def tySA (t : FieldTy) : Option SizeAlign :=
  saWith (fun nm => (layoutOf nm).map fun l => ⟨l.size, l.align⟩) t

/-- `_IOC_NONE/_IOC_READ/_IOC_WRITE` as the four macros of vmm-sys-util pass them -/
def dirOf : IoKind → Nat
  | .io => 0
  | .ior => 2
  | .iow => 1
  | .iowr => 3

/-- vmm-sys-util `ioctl_expr(dir, ty, nr, size)`: `c_uint` arithmetic, then widened to `c_ulong` -/
def ioctlExpr (dir ty nr size : Nat) : Nat :=
  ((dir <<< 30) ||| (ty <<< 8) ||| (nr <<< 0) ||| (size <<< 16)) % 2 ^ 32

/-- `size_of::<argty>()` (0 for `ioctl_io_nr!`) -/
def argSize (r : IoctlRow) : Option Nat :=
  match r.arg with
  | none => some 0
  | some t => (tySA t).map (·.size)

/-- value of the generated `NAME()` function -/
def requestOfRow (r : IoctlRow) : Option Nat :=
  (argSize r).map fun s => ioctlExpr (dirOf r.kind) r.ty r.nr s

def rowByName (n : String) : Option IoctlRow := table.find? (·.name == n)

def opRow (scope method : String) : Option OpRow := ops.find? fun o => o.scope == scope && o.method == method

/-- request number a method passes to its ioctl wrapper -/
def opRequest (scope method : String) : Option Nat :=
  (opRow scope method).bind fun o => (rowByName o.request).bind requestOfRow

/-! ## argument images -/

/-- a binding struct with the given members set, everything else zero (`Default`/`zeroed`) -/
def structImage (s : String) (vals : List (List String × Nat)) : Option Bytes := do
  let size ← sizeOf s
  let leaves ← vals.mapM fun (p, v) => (leafAt s p).map fun (o, w) => ((o, w, v) : Leaf)
  pure (imageOf size leaves)

/-! ## the stand-in kernel (`tools/ioctl_interpose.c`) -/

def iocDir (req : Nat) : Nat := (req >>> 30) % 4
def iocSize (req : Nat) : Nat := (req >>> 16) % 16384
def SET_MEM_TABLE : Nat := 0x4008af03
def VDPA_GET_CONFIG : Nat := 0x8008af73
def VDPA_SET_CONFIG : Nat := 0x4008af74

/-- bytes the interposer records for an ioctl whose argument object is `obj` (`none`: called through
    `ioctl()`, i.e. with the integer 0) -/
def captured (req : Nat) (obj : Option Bytes) : Bytes :=
  match obj with
  | none => if iocDir req = 0 then zeros 8 else []
  | some o =>
    if iocDir req = 0 then o
    else if req = SET_MEM_TABLE ∨ req = VDPA_GET_CONFIG ∨ req = VDPA_SET_CONFIG then o
    else o.take (iocSize req)

/-- the object after the call: requests with the read bit get the pattern written over them -/
def afterCall (i : Inp) (req : Nat) (obj : Bytes) : Bytes :=
  if i.rc ≠ 0 ∨ i.wb.isEmpty ∨ iocDir req / 2 = 0 then obj
  else if req = VDPA_GET_CONFIG then obj.take 8 ++ cyc i.wb (obj.length - 8)
  else (cyc i.wb (iocSize req)).take obj.length ++ obj.drop (iocSize req)

/-! ## one ioctl-issuing method -/

/-- `ioctl_result(ret, value)` after one ioctl on `obj`; `value` is read from the object after the call -/
def ioCall (i : Inp) (scope method : String) (obj : Option Bytes) (value : Bytes → Ret) : Option Obs := do
  let req ← opRequest scope method
  let after := afterCall i req (obj.getD [])
  pure { calls := [.io req (captured req obj)], ret := if i.rc ≠ 0 then .err "ioctl" else value after }

def unitRet : Bytes → Ret := fun _ => .ok
def scalarRet : Bytes → Ret := fun o => .okv (leVal o)

/-! ## ring configuration (`VringConfigData`, `is_valid`, `to_vhost_vring_addr`) -/

structure RingCfg where
  qmax : Nat
  qsize : Nat
  flags : Nat
  desc : Nat
  used : Nat
  avail : Nat
  log : Option Nat
  deriving Repr, DecidableEq

abbrev Mem := List (Nat × Nat × Nat)

/-- `queue_size > queue_max_size || queue_size == 0 || (queue_size & (queue_size - 1)) != 0` -/
def sizeBad (c : RingCfg) : Bool :=
  decide (c.qsize > c.qmax) || c.qsize == 0 || (c.qsize &&& (c.qsize - 1)) != 0

/-- `VringConfigData::is_log_addr_valid` -/
def isLogAddrValid (c : RingCfg) : Bool := !((c.flags &&& 1) != 0 && c.log.isNone)

/-- `VringConfigData::get_log_addr` -/
def getLogAddr (c : RingCfg) : Nat :=
  match c.log with
  | some l => if (c.flags &&& 1) != 0 then l else 0
  | none => 0

/-- vm-memory `address_in_range` -/
def inRange (m : Mem) (a : Nat) : Bool := m.any fun r => decide (r.1 ≤ a ∧ a < r.1 + r.2.1)

/-- `GuestAddress(start).checked_add(len).is_none_or(|v| !m.address_in_range(v))`, negated -/
def endInRange (m : Mem) (start len : Nat) : Bool := decide (start + len < 2 ^ 64) && inRange m (start + len)

/-- default `VhostKernBackend::is_valid` (kernel-vhost, vhost-net, vhost-vsock) -/
def isValidKern (m : Mem) (c : RingCfg) : Bool :=
  !sizeBad c && endInRange m c.desc (16 * c.qsize) && endInRange m c.avail (6 + 2 * c.qsize)
    && endInRange m c.used (6 + 8 * c.qsize) && isLogAddrValid c

/-- the vDPA override -/
def isValidVdpa (c : RingCfg) : Bool := !sizeBad c && isLogAddrValid c

/-- vm-memory `get_host_address` -/
def hostAddr (m : Mem) (g : Nat) : Option Nat :=
  (m.find? fun r => decide (r.1 ≤ g ∧ g < r.1 + r.2.1)).map fun r => r.2.2 + (g - r.1)

/-- members of the `vhost_vring_addr` built by `to_vhost_vring_addr` (error class on failure) -/
def toVhostVringAddr (c : RingCfg) (q : Nat) (m : Mem) : Except String (List (List String × Nat)) :=
  match hostAddr m c.desc with
  | none => .error "desc"
  | some d =>
    match hostAddr m c.avail with
    | none => .error "avail"
    | some a =>
      match hostAddr m c.used with
      | none => .error "used"
      | some u =>
        .ok [(["index"], q), (["flags"], c.flags), (["desc_user_addr"], d), (["used_user_addr"], u),
             (["avail_user_addr"], a), (["log_guest_addr"], getLogAddr c)]

/-- members of the `vhost_vring_addr` built by `VhostKernVdpa::set_vring_addr` -/
def vdpaVringAddr (c : RingCfg) (q : Nat) : List (List String × Nat) :=
  [(["index"], q), (["flags"], c.flags), (["desc_user_addr"], c.desc), (["used_user_addr"], c.used),
   (["avail_user_addr"], c.avail), (["log_guest_addr"], getLogAddr c)]

def ringCfgOf : List Nat → Option (Nat × RingCfg)
  | [q, qmax, qsize, flags, desc, used, avail, hasLog, log] =>
    some (q, { qmax := qmax % 2 ^ 16, qsize := qsize % 2 ^ 16, flags := flags % 2 ^ 32, desc, used, avail,
               log := if hasLog != 0 then some log else none })
  | _ => none

/-- `set_vring_addr` of the blanket impl (`translate = true`) and of `VhostKernVdpa` -/
def setVringAddr (i : Inp) (translate : Bool) : Option Obs := do
  let (q, c) ← ringCfgOf i.a
  if translate then
    if !isValidKern i.mem c then pure { calls := [], ret := .err "invalidqueue" } else
    match toVhostVringAddr c q i.mem with
    | .error e => pure { calls := [], ret := .err e }
    | .ok vals => ioCall i "VhostBackend" "set_vring_addr" (← structImage "vhost_vring_addr" vals) unitRet
  else
    if !isValidVdpa c then pure { calls := [], ret := .err "invalidqueue" } else
    ioCall i "VhostKernVdpa" "set_vring_addr" (← structImage "vhost_vring_addr" (vdpaVringAddr c q)) unitRet

/-! ## IOTLB messages -/

structure IotlbMsg where
  iova : Nat
  size : Nat
  ua : Nat
  perm : Nat
  ty : Nat
  deriving Repr, DecidableEq

/-- right-hand sides of the assignments in `send_iotlb_msg` -/
def srcVal (m : IotlbMsg) : String → Option Nat
  | "msg.iova" => some m.iova
  | "msg.size" => some m.size
  | "msg.userspace_addr" => some m.ua
  | "msg.perm as u8" => some m.perm
  | "msg.msg_type as u8" => some m.ty
  | _ => none

/-- one branch: `let mut m = S { type_: C, ..Default::default() }; m.path = src; …; write(fd, &m, size_of::<S>())` -/
def writeBranch (b : IotlbBranch) (m : IotlbMsg) : Option Bytes := do
  let tc ← constOf b.typeConst
  let size ← sizeOf b.struct
  let (to, tw) ← leafAt b.struct ["type_"]
  let leaves ← b.assigns.mapM fun (p, src) => do
    let (o, w) ← leafAt b.struct p
    let v ← srcVal m src
    pure ((o, w, v) : Leaf)
  pure (imageOf size ((to, tw, tc) :: leaves))

/-- `self.get_backend_features_acked() & (1 << VHOST_BACKEND_F_IOTLB_MSG_V2) != 0` -/
def v2Selected (acked : Nat) : Option Bool :=
  (constOf "VHOST_BACKEND_F_IOTLB_MSG_V2").map fun bit => (acked &&& (1 <<< bit)) != 0

/-- bytes `send_iotlb_msg` hands to `write` -/
def iotlbBytes (acked : Nat) (m : IotlbMsg) : Option Bytes :=
  match iotlbWriter with
  | [thenB, elseB] => (v2Selected acked).bind fun v2 => writeBranch (if v2 then thenB else elseB) m
  | _ => none

def sendIotlb (i : Inp) (m : IotlbMsg) : Option Obs := do
  let bs ← iotlbBytes i.feat m
  pure { calls := [.wr bs], ret := if i.rc ≠ 0 then .err "io" else .ok }

/-- one `VhostIotlbMsgParser::parse` (`none` = `Err(InvalidIotlbMsg)`); outer `none`: table not interpretable -/
def parseWith (p : IotlbParser) (bs : Bytes) : Option (Option IotlbMsg) := do
  let tc ← constOf p.typeConst
  let (to, tw) ← leafAt p.struct ["type_"]
  let (zo, zw) ← leafAt p.struct p.zeroCheck
  let get (f : String) : Option Nat :=
    (p.assigns.find? (·.1 == f)).bind fun (_, path, _) => (leafAt p.struct path).map fun (o, w) => peek bs o w
  if peek bs to tw ≠ tc then pure none
  else if peek bs zo zw = 0 then pure none
  else pure (some { iova := ← get "iova", size := ← get "size", ua := ← get "userspace_addr", perm := ← get "perm",
                    ty := ← get "msg_type" })

def parserFor (s : String) : Option IotlbParser := iotlbParsers.find? (·.struct == s)

def parseMsg (s : String) (bs : Bytes) : Option (Option IotlbMsg) := do
  let p ← parserFor s
  if bs.length ≠ (← sizeOf s) then none else parseWith p bs

/-! ## every operation of the four backends -/

def triples : List Nat → List (Nat × Nat × Nat)
  | g :: s :: u :: rest => (g, s, u) :: triples rest
  | _ => []

def hasFeatures (be : String) : Bool := be == "kern" || be == "vdpa"

/-- the blanket `impl<T: VhostKernBackend> VhostBackend for T` -/
def backendOp (i : Inp) : Option Obs :=
  let sc := "VhostBackend"
  let state (s f : String) (ix v : Nat) : Option Bytes := structImage s [(["index"], ix), ([f], v)]
  match i.op, i.a with
  | "get_features", [] => ioCall i sc i.op (some (leBytes 8 0)) scalarRet
  | "set_features", [f] => ioCall i sc i.op (some (leBytes 8 f)) unitRet
  | "set_owner", [] => ioCall i sc i.op none unitRet
  | "reset_owner", [] => ioCall i sc i.op none unitRet
  | "set_mem_table", a =>
    let regs := triples a
    if regs.length = 0 ∨ 255 < regs.length then some { calls := [], ret := .err "invalidmem" } else do
    let hdr ← structImage "vhost_memory" [(["nregions"], regs.length)]
    let (ro, _) ← leafAt "vhost_memory" ["regions"]
    let rs ← regs.mapM fun (g, z, u) =>
      structImage "vhost_memory_region" [(["guest_phys_addr"], g), (["memory_size"], z), (["userspace_addr"], u), (["flags_padding"], 0)]
    ioCall i sc i.op (some (hdr.take ro ++ zeros (ro - hdr.length) ++ rs.flatten)) unitRet
  | "set_log_base", [base, hasRegion] =>
    if hasRegion != 0 then some { calls := [], ret := .err "logaddr" } else ioCall i sc i.op (some (leBytes 8 base)) unitRet
  | "set_log_fd", [fd] => ioCall i sc i.op (some (leBytes 4 fd)) unitRet
  | "set_vring_num", [q, n] => do ioCall i sc i.op (← state "vhost_vring_state" "num" q (n % 2 ^ 16)) unitRet
  | "set_vring_base", [q, n] => do ioCall i sc i.op (← state "vhost_vring_state" "num" q (n % 2 ^ 16)) unitRet
  | "get_vring_base", [q] => do
    let (no, nw) ← leafAt "vhost_vring_state" ["num"]
    ioCall i sc i.op (← state "vhost_vring_state" "num" q 0) fun o => .okv (peek o no nw)
  | "set_vring_call", [q, fd] => do ioCall i sc i.op (← state "vhost_vring_file" "fd" q fd) unitRet
  | "set_vring_kick", [q, fd] => do ioCall i sc i.op (← state "vhost_vring_file" "fd" q fd) unitRet
  | "set_vring_err", [q, fd] => do ioCall i sc i.op (← state "vhost_vring_file" "fd" q fd) unitRet
  | "is_valid", a => do
    let (_, c) ← ringCfgOf a
    pure { calls := [], ret := .okv (if (if i.be == "vdpa" then isValidVdpa c else isValidKern i.mem c) then 1 else 0) }
  | _, _ => none

/-- `VhostKernFeatures` default methods and `VhostIotlbBackend` -/
def featuresOp (i : Inp) : Option Obs :=
  match i.op, i.a with
  | "get_backend_features", [] => ioCall i "VhostKernFeatures" i.op (some (leBytes 8 0)) scalarRet
  | "set_backend_features", [f] => do
    let o ← ioCall i "VhostKernFeatures" i.op (some (leBytes 8 f)) unitRet
    pure { o with acked := some (if i.rc = 0 then f % 2 ^ 64 else i.feat) }
  | "send_iotlb_msg", [iova, size, ua, perm, ty] => sendIotlb i { iova, size, ua, perm, ty }
  | _, _ => none

def vdpaOp (i : Inp) : Option Obs :=
  let sc := "VhostVdpa"
  let state (ix v : Nat) : Option Bytes := structImage "vhost_vring_state" [(["index"], ix), (["num"], v)]
  match i.op, i.a with
  | "get_device_id", [] => ioCall i sc i.op (some (leBytes 4 0)) scalarRet
  | "get_status", [] => ioCall i sc i.op (some (leBytes 1 0)) scalarRet
  | "set_status", [s] => ioCall i sc i.op (some (leBytes 1 s)) unitRet
  | "get_config", [off, len] => do
    let hdr ← structImage "vhost_vdpa_config" [(["off"], off % 2 ^ 32), (["len"], len)]
    ioCall i sc i.op (some (hdr ++ zeros len)) fun o => .okb (o.drop hdr.length)
  | "set_config", [off] => do
    let hdr ← structImage "vhost_vdpa_config" [(["off"], off % 2 ^ 32), (["len"], i.buf.length)]
    ioCall i sc i.op (some (hdr ++ i.buf)) unitRet
  | "set_vring_enable", [q, en] => do ioCall i sc i.op (← state q (if en != 0 then 1 else 0)) unitRet
  | "get_vring_num", [] => ioCall i sc i.op (some (leBytes 2 0)) scalarRet
  | "set_config_call", [fd] => ioCall i sc i.op (some (leBytes 4 fd)) unitRet
  | "get_iova_range", [] => do
    let (fo, fw) ← leafAt "vhost_vdpa_iova_range" ["first"]
    let (lo, lw) ← leafAt "vhost_vdpa_iova_range" ["last"]
    ioCall i sc i.op (← structImage "vhost_vdpa_iova_range" []) fun o => .ok2 (peek o fo fw) (peek o lo lw)
  | "get_config_size", [] => ioCall i sc i.op (some (leBytes 4 0)) scalarRet
  | "get_vqs_count", [] => ioCall i sc i.op (some (leBytes 4 0)) scalarRet
  | "get_group_num", [] => ioCall i sc i.op (some (leBytes 4 0)) scalarRet
  | "get_as_num", [] => ioCall i sc i.op (some (leBytes 4 0)) scalarRet
  | "get_vring_group", [q] => do
    let (no, nw) ← leafAt "vhost_vring_state" ["num"]
    ioCall i sc i.op (← state q 0) fun o => .okv (peek o no nw)
  | "set_group_asid", [g, asid] => do ioCall i sc i.op (← state g asid) unitRet
  | "suspend", [] => ioCall i sc i.op none unitRet
  | "dma_map", [iova, size, va, ro] => sendIotlb i { iova, size, ua := va, perm := if ro != 0 then 1 else 3, ty := 2 }
  | "dma_unmap", [iova, size] => sendIotlb i { iova, size, ua := 0, perm := 0, ty := 3 }
  | _, _ => none

def fieldsShown (s : String) : Option (List (String × Nat)) :=
  (layoutOf s).map fun l =>
    (l.fields.filter fun f => f.1 != "__force_alignment" && f.1 != "_bindgen_union_align").map fun f => (f.1, f.2.1)

/-- which trait implements an operation name (dispatch of the harness) -/
def featuresOps : List String := ["get_backend_features", "set_backend_features", "send_iotlb_msg"]
def vdpaOps : List String := ["get_device_id", "get_status", "set_status", "get_config", "set_config", "set_vring_enable",
  "get_vring_num", "set_config_call", "get_iova_range", "get_config_size", "get_vqs_count", "get_group_num", "get_as_num",
  "get_vring_group", "set_group_asid", "suspend", "dma_map", "dma_unmap"]

/-- prediction of the observation for one scenario (`none`: operation not offered by that backend) -/
def run (i : Inp) : Option Obs :=
  if i.be == "none" then
    if i.op == "parse_v1" ∨ i.op == "parse_v2" then
      (parseMsg (if i.op == "parse_v1" then "vhost_msg" else "vhost_msg_v2") i.buf).map fun r =>
        { calls := [], ret := match r with
          | some m => .ok5 m.iova m.size m.ua m.perm m.ty
          | none => .err "iotlb" }
    else if i.op.startsWith "layout:" then
      let s := (i.op.drop 7).toString
      (layoutOf s).bind fun l => (fieldsShown s).map fun fs => { calls := [], ret := .lay l.size l.align fs }
    else if i.op.startsWith "request:" then
      ((rowByName (i.op.drop 8).toString).bind requestOfRow).map fun v => { calls := [], ret := .okv v }
    else none
  else if i.op == "set_vring_addr" then setVringAddr i (i.be != "vdpa")
  else match i.be with
  | "kern" => if featuresOps.contains i.op then featuresOp i else backendOp i
  | "net" =>
    if i.op == "set_backend" then
      match i.a with
      | [q, hasFd, fd] =>
        (structImage "vhost_vring_file" [(["index"], q), (["fd"], if hasFd != 0 then fd else 2 ^ 32 - 1)]).bind fun o =>
          ioCall i "VhostNet" "set_backend" (some o) unitRet
      | _ => none
    else backendOp i
  | "vsock" =>
    if i.op == "set_guest_cid" then
      match i.a with
      | [cid] => ioCall i "VhostVsock" "set_guest_cid" (some (leBytes 8 cid)) unitRet
      | _ => none
    else if i.op == "start" then ioCall i "Vsock" "set_running" (some (leBytes 4 1)) unitRet
    else if i.op == "stop" then ioCall i "Vsock" "set_running" (some (leBytes 4 0)) unitRet
    else backendOp i
  | "vdpa" =>
    if vdpaOps.contains i.op then vdpaOp i
    else if featuresOps.contains i.op then featuresOp i
    else backendOp i
  | _ => none

/-! ## what the hand-written parts above assume about the source (checked against `Gen.Ioctl` by
`Props.C19.ops_as_modelled`): for each method the wrapper, the descriptor expression, the argument
expression and how the argument object is initialised -/

def modelledOps : List (String × String × String × String × String × List (String × String)) := [
  ("VhostBackend", "get_features", "ioctl_with_mut_ref", "self", "&mut avail_features", [("=", "0")]),
  ("VhostBackend", "set_features", "ioctl_with_ref", "self", "&features", []),
  ("VhostBackend", "set_owner", "ioctl", "self", "", []),
  ("VhostBackend", "reset_owner", "ioctl", "self", "", []),
  ("VhostBackend", "set_mem_table", "ioctl_with_ptr", "self", "vhost_memory.as_ptr()", [("=", "VhostMemory::new(regions.len()as u16)")]),
  ("VhostBackend", "set_log_base", "ioctl_with_ref", "self", "&base", []),
  ("VhostBackend", "set_log_fd", "ioctl_with_ref", "self", "&val", [("=", "fd")]),
  ("VhostBackend", "set_vring_num", "ioctl_with_ref", "self", "&vring_state", [("index", "queue_index as u32"), ("num", "u32::from(num)")]),
  ("VhostBackend", "set_vring_addr", "ioctl_with_ref", "self", "&vring_addr", [("=", "config_data.to_vhost_vring_addr(queue_index,self.mem())?")]),
  ("VhostBackend", "set_vring_base", "ioctl_with_ref", "self", "&vring_state", [("index", "queue_index as u32"), ("num", "u32::from(base)")]),
  ("VhostBackend", "get_vring_base", "ioctl_with_mut_ref", "self", "&mut vring_state", [("index", "queue_index as u32"), ("num", "0")]),
  ("VhostBackend", "set_vring_call", "ioctl_with_ref", "self", "&vring_file", [("index", "queue_index as u32"), ("fd", "fd.as_raw_fd()")]),
  ("VhostBackend", "set_vring_kick", "ioctl_with_ref", "self", "&vring_file", [("index", "queue_index as u32"), ("fd", "fd.as_raw_fd()")]),
  ("VhostBackend", "set_vring_err", "ioctl_with_ref", "self", "&vring_file", [("index", "queue_index as u32"), ("fd", "fd.as_raw_fd()")]),
  ("VhostKernFeatures", "get_backend_features", "ioctl_with_mut_ref", "self", "&mut avail_features", [("=", "0")]),
  ("VhostKernFeatures", "set_backend_features", "ioctl_with_ref", "self", "&features", []),
  ("VhostKernVdpa", "set_vring_addr", "ioctl_with_ref", "self", "&vring_addr", [("index", "queue_index as u32"), ("flags", "config_data.flags"),
    ("desc_user_addr", "config_data.desc_table_addr"), ("used_user_addr", "config_data.used_ring_addr"),
    ("avail_user_addr", "config_data.avail_ring_addr"), ("log_guest_addr", "config_data.get_log_addr()")]),
  ("VhostVdpa", "get_device_id", "ioctl_with_mut_ref", "self", "&mut device_id", [("=", "0")]),
  ("VhostVdpa", "get_status", "ioctl_with_mut_ref", "self", "&mut status", [("=", "0")]),
  ("VhostVdpa", "set_status", "ioctl_with_ref", "self", "&status", []),
  ("VhostVdpa", "get_config", "ioctl_with_ptr", "self", "config.as_mut_fam_struct_ptr()",
    [("=", "VhostVdpaConfig::new(buffer.len()).map_err(|_|Error::IoctlError(IOError::from_raw_os_error(libc::ENOMEM)))?")]),
  ("VhostVdpa", "set_config", "ioctl_with_ptr", "self", "config.as_fam_struct_ptr()",
    [("=", "VhostVdpaConfig::new(buffer.len()).map_err(|_|Error::IoctlError(IOError::from_raw_os_error(libc::ENOMEM)))?")]),
  ("VhostVdpa", "set_vring_enable", "ioctl_with_ref", "self", "&vring_state", [("index", "queue_index as u32"), ("num", "enabled as u32")]),
  ("VhostVdpa", "get_vring_num", "ioctl_with_mut_ref", "self", "&mut vring_num", [("=", "0")]),
  ("VhostVdpa", "set_config_call", "ioctl_with_ref", "self", "&event_fd", [("=", "fd.as_raw_fd()")]),
  ("VhostVdpa", "get_iova_range", "ioctl_with_mut_ref", "self", "&mut low_iova_range", [("first", "0"), ("last", "0")]),
  ("VhostVdpa", "get_config_size", "ioctl_with_mut_ref", "self", "&mut config_size", [("=", "0")]),
  ("VhostVdpa", "get_vqs_count", "ioctl_with_mut_ref", "self", "&mut vqs_count", [("=", "0")]),
  ("VhostVdpa", "get_group_num", "ioctl_with_mut_ref", "self", "&mut group_num", [("=", "0")]),
  ("VhostVdpa", "get_as_num", "ioctl_with_mut_ref", "self", "&mut as_num", [("=", "0")]),
  ("VhostVdpa", "get_vring_group", "ioctl_with_mut_ref", "self", "&mut vring_state", [("index", "queue_index"), ("..", "Default::default()")]),
  ("VhostVdpa", "set_group_asid", "ioctl_with_ref", "self", "&vring_state", [("index", "group_index"), ("num", "asid")]),
  ("VhostVdpa", "suspend", "ioctl", "self", "", []),
  ("VhostNet", "set_backend", "ioctl_with_ref", "self", "&vring_file", [("index", "queue_index as u32"), ("fd", "fd.map_or(-1,|v|v.as_raw_fd())")]),
  ("Vsock", "set_running", "ioctl_with_ref", "&self.fd", "&on", [("=", "if running{1}else{0}")]),
  ("VhostVsock", "set_guest_cid", "ioctl_with_ref", "&self.fd", "&cid", [])
]

/-- struct literals the model relies on that are not ioctl arguments themselves -/
def modelledLits : List (String × String × String × List (String × String)) := [
  ("VhostBackend", "set_mem_table", "vhost_memory_region", [("guest_phys_addr", "region.guest_phys_addr"), ("memory_size", "region.memory_size"),
    ("userspace_addr", "region.userspace_addr"), ("flags_padding", "0 u64")]),
  ("VringConfigData", "to_vhost_vring_addr", "vhost_vring_addr", [("index", "queue_index as u32"), ("flags", "self.flags"),
    ("desc_user_addr", "desc_addr as u64"), ("used_user_addr", "used_addr as u64"), ("avail_user_addr", "avail_addr as u64"),
    ("log_guest_addr", "self.get_log_addr()")]),
  ("VhostVdpa", "dma_map", "VhostIotlbMsg", [("iova", "iova"), ("size", "size"), ("userspace_addr", "vaddr as u64"),
    ("perm", "match readonly{true=>VhostAccess::ReadOnly,false=>VhostAccess::ReadWrite,}"), ("msg_type", "VhostIotlbType::Update")]),
  ("VhostVdpa", "dma_unmap", "VhostIotlbMsg", [("iova", "iova"), ("size", "size"), ("msg_type", "VhostIotlbType::Invalidate"),
    ("..", "Default::default()")])
]

def modelledDelegates : List (String × String × String × List String) := [
  ("VhostVdpa", "dma_map", "send_iotlb_msg", ["&iotlb"]),
  ("VhostVdpa", "dma_unmap", "send_iotlb_msg", ["&iotlb"]),
  ("VhostVsock", "start", "set_running", ["true"]),
  ("VhostVsock", "stop", "set_running", ["false"])
]

/-- condition and `write` arguments of the two branches of `send_iotlb_msg` -/
def modelledWriter : List (String × String × List String) := [
  ("self.get_backend_features_acked()&(1<<VHOST_BACKEND_F_IOTLB_MSG_V2)!=0", "vhost_msg_v2",
    ["self.as_raw_fd()", "&msg_v2 as*const vhost_msg_v2 as*const c_void", "mem::size_of::<vhost_msg_v2>()"]),
  ("", "vhost_msg", ["self.as_raw_fd()", "&msg_v1 as*const vhost_msg as*const c_void", "mem::size_of::<vhost_msg>()"])
]

end Model.Kern
