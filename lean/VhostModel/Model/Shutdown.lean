/-!
# Model.Shutdown — daemon thread, shutdown callers, peer, `wait()`, `serve()`, `Drop` (C16)

Hand-written from the pinned tree:

* `vhost-user-backend/src/lib.rs`
  * `VhostUserDaemon::start_daemon` — the daemon thread:
    `let result = loop { [hold] if let Err(e) = handler.handle_request() { break Err(e) } [hold] };
     [hold] let _ = thread_state.conn.shutdown(Shutdown::Both); result`
    (the loop can only be left through an error: the thread's result is always `Err(HandleRequest(e))`);
  * `ShutdownHandle::shutdown` — `shutdown_requested.store(true)`, `[hold]`, `conn.shutdown(Both)` on a clone of
    the socket; repeatable, from any thread; `request_shutdown` = the same through the daemon object;
  * `wait()` — no thread ⇒ reset the connection state, `Ok`; else `join`, then
    `Ok(()) ⇒ Ok`, `Err(HandleRequest(SocketBroken)) ⇒ Ok`, `Err(HandleRequest(_)) if flag ⇒ Ok`, else `Err`;
    then reset the connection state;
  * `serve()` — `start`, `wait`, `send_exit_event` for every worker *whatever `wait` returned*, then
    `Disconnected`/`PartialMessage ⇒ Ok`;
  * `Drop for VhostUserDaemon` — `conn_state.take()` ⇒ `conn.shutdown(Both)`.
* `vhost/src/vhost_user/backend_req_handler.rs` `handle_request` and `connection.rs`
  (`recv_header`: 0 bytes ⇒ `Disconnected`, 1..11 bytes then end-of-stream ⇒ `PartialMessage`, invalid header ⇒
  `InvalidMessage`; `recv_data`: fewer than `size` bytes before end-of-stream ⇒ `InvalidMessage`; a handler
  error is returned after the acknowledgement (if one is owed) has been written; a failed `sendmsg` — `EPIPE`,
  `ECONNRESET` — is `SocketBroken`, and so is `ECONNRESET` from `recvmsg`).
* `vhost-user-backend/src/handler.rs` `Drop for VhostUserHandler` (`send_exit_event` for every worker, then `join`
  each worker) and `event_loop.rs` (`run` leaves its loop when it receives the exit event; the event is not consumed).

## The connection transition system (`St`, `Lbl`, `step`)

Atomic steps are the code segments between the hold points of `lib.rs` plus one step per system call of the
daemon thread.  Socket rules assumed of Linux `AF_UNIX` stream sockets (DESIGN §6; exercised by the `shutdown`
correspondence family on the live kernel):

* data already queued is delivered to a `recvmsg` even after `shutdown`/peer close; with an empty queue `recvmsg`
  returns `ECONNRESET` once if the peer closed while it had unread data (`reset`), else end-of-stream if either side
  shut down or the peer closed, else it blocks (the label is not enabled);
* `sendmsg` fails (`EPIPE`/`ECONNRESET`) once we shut the socket down or the peer closed;
* after `shutdown(Both)` on our end the peer's writes fail (nothing is queued) and the peer's reads return the
  queued data and then end-of-stream;
* `shutdown(Both)` is idempotent and never fails in a way the code looks at (`let _ =`).

The request stream of the peer is a script `List Req`; the bytes are only counted.  Handlers are assumed to
terminate (one `dHandle` step) and not to panic.
-/

namespace Model.Shutdown

/-- classes of `vhost::vhost_user::Error` the code under C16 distinguishes (`shortBody` and `invalidMsg` are both
`Error::InvalidMessage` in the code; they are kept apart here because the first one is a disconnect observed by a
read) -/
inductive Err where
  | disconnected   -- `recv_header` read 0 bytes
  | partialMsg     -- `recv_header` read 1..11 bytes, then end-of-stream
  | shortBody      -- `recv_data` hit end-of-stream before `size` bytes: `InvalidMessage`
  | invalidMsg     -- malformed header / body: `InvalidMessage`
  | reqErr         -- any other request error (handler failure, inactive feature, ...)
  | sockBroken     -- `EPIPE` / `ECONNRESET`
  deriving DecidableEq, Repr, Inhabited

/-- name printed by the harness for the class -/
def Err.cls : Err → String
  | .disconnected => "disconnected" | .partialMsg => "partial" | .shortBody => "invalidMsg"
  | .invalidMsg => "invalidMsg" | .reqErr => "reqErr" | .sockBroken => "sockBroken"

/-- result of the daemon thread as seen by `join` -/
inductive TRes where
  | ok | err (e : Err)
  deriving DecidableEq, Repr, Inhabited

/-- result of `wait()` / `serve()` -/
inductive WRes where
  | ok | err (e : Err)
  deriving DecidableEq, Repr, Inhabited

/-- the `match` in `wait()` (lib.rs:250-255), arm by arm -/
def classifyWait : TRes → Bool → WRes
  | .ok, _ => .ok
  | .err .sockBroken, _ => .ok
  | .err e, flag => if flag then .ok else .err e

/-- the `match` at the end of `serve()` (lib.rs:302-309) -/
def classifyServe : WRes → WRes
  | .err .disconnected => .ok
  | .err .partialMsg => .ok
  | w => w

/-- one request of the peer's script -/
structure Req where
  body : Nat            -- bytes after the 12-byte header (`hdr.size`)
  hdrOk : Bool := true  -- header valid and attached files acceptable
  bodyOk : Bool := true -- size / body validation passes (else `InvalidMessage` before the handler is called)
  hOk : Bool := true    -- result of the handler
  reply : Nat := 0      -- bytes of the reply (or acknowledgement) written after the handler returned; 0 = none
  deriving DecidableEq, Repr, Inhabited

def hdrLen : Nat := 12

def Req.len (r : Req) : Nat := hdrLen + r.body

def streamLen : List Req → Nat
  | [] => 0
  | r :: rs => r.len + streamLen rs

/-- program counter of the daemon thread -/
inductive DPc where
  | pre                            -- top of the loop (hold point `daemon.before_handle_request`)
  | hdr (got : Nat)                -- in `recv_header`, `got` < 12 bytes read so far
  | body (r : Req) (need : Nat)    -- in `recv_data`, `need` > 0 bytes still to read
  | handler (r : Req)              -- inside the backend callback
  | reply (r : Req)                -- handler returned; the reply is written next
  | post                           -- `handle_request` returned `Ok` (hold point `daemon.after_handle_request_ok`)
  | fin (e : Err)                  -- loop left with `Err(e)` (hold point `daemon.before_final_shutdown`)
  | exited (e : Err)               -- `conn.shutdown(Both)` done, closure returned `Err(HandleRequest(e))`
  deriving DecidableEq, Repr, Inhabited

/-- a shutdown caller: between calls, or between the flag store and the socket shutdown -/
inductive CPc where
  | idle | stored
  deriving DecidableEq, Repr, Inhabited

/-- the thread that owns the daemon object: not in `wait()`, or between `join` and the classification -/
inductive WPc where
  | idle | joined (e : Err)
  deriving DecidableEq, Repr, Inhabited

structure St where
  d : DPc
  reqs : List Req        -- requests whose header has not been received completely yet
  toSend : Nat           -- bytes of the script the peer has not written yet
  inQ : Nat              -- bytes written by the peer and not yet read by the daemon thread
  outQ : Nat             -- bytes written by the daemon thread and not yet read by the peer
  shut : Bool            -- `shutdown(Both)` was called on our end (by a caller, the daemon thread or `Drop`)
  peerClosed : Bool
  reset : Bool           -- `ECONNRESET` pending on our end
  flag : Bool            -- `shutdown_requested`
  callers : Nat → CPc
  completed : Nat        -- number of `ShutdownHandle::shutdown` calls that have returned
  w : WPc
  results : List WRes    -- what the `wait()` calls returned, oldest first
  hasThread : Bool       -- `main_thread.is_some()`
  hasConn : Bool         -- `conn_state.is_some()`
  dropped : Bool         -- the daemon object was dropped

/-- state right after `start()` returned, for a peer that is going to write `reqs` -/
def init (reqs : List Req) (prev : List WRes := []) : St :=
  { d := .pre, reqs := reqs, toSend := streamLen reqs, inQ := 0, outQ := 0, shut := false, peerClosed := false,
    reset := false, flag := false, callers := fun _ => .idle, completed := 0, w := .idle, results := prev,
    hasThread := true, hasConn := true, dropped := false }

inductive Lbl where
  -- daemon thread
  | dEnter | dRead (n : Nat) | dEof | dReset | dHandle | dReply | dLoop | dFinal
  -- shutdown caller `i`
  | cStore (i : Nat) | cShut (i : Nat)
  -- peer
  | pWrite (n : Nat) | pRead | pClose
  -- owner of the daemon object
  | wJoin | wClassify | wNoThread | drop
  deriving DecidableEq, Repr

def Lbl.isDaemon : Lbl → Bool
  | .dEnter | .dRead _ | .dEof | .dReset | .dHandle | .dReply | .dLoop | .dFinal => true
  | _ => false

def upd {α : Type} (f : Nat → α) (i : Nat) (v : α) : Nat → α := fun j => if j = i then v else f j

/-- where `handle_request` goes once the 12 header bytes of request `r` are there -/
def afterHdr (r : Req) : DPc :=
  if !r.hdrOk then .fin .invalidMsg
  else if r.body = 0 then (if r.bodyOk then .handler r else .fin .invalidMsg)
  else .body r r.body

/-- what `handle_request` returns after the reply (if any) was written -/
def afterHandler (r : Req) : DPc := if r.hOk then .post else .fin .reqErr

def step (s : St) : Lbl → Option St
  | .dEnter =>
    match s.d with
    | .pre => some { s with d := .hdr 0 }
    | _ => none
  | .dRead n =>
    match s.d with
    | .hdr got =>
      if 0 < n ∧ n ≤ s.inQ ∧ got + n ≤ hdrLen then
        if got + n = hdrLen then
          match s.reqs with
          | [] => some { s with inQ := s.inQ - n, d := .fin .invalidMsg }  -- bytes outside the script: malformed
          | r :: rest => some { s with inQ := s.inQ - n, d := afterHdr r, reqs := rest }
        else some { s with inQ := s.inQ - n, d := .hdr (got + n) }
      else none
    | .body r need =>
      if 0 < n ∧ n ≤ s.inQ ∧ n ≤ need then
        if n = need then
          some { s with inQ := s.inQ - n, d := if r.bodyOk then .handler r else .fin .invalidMsg }
        else some { s with inQ := s.inQ - n, d := .body r (need - n) }
      else none
    | _ => none
  | .dEof =>
    if s.inQ = 0 ∧ s.reset = false ∧ (s.shut = true ∨ s.peerClosed = true) then
      match s.d with
      | .hdr got => some { s with d := .fin (if got = 0 then .disconnected else .partialMsg) }
      | .body _ _ => some { s with d := .fin .shortBody }
      | _ => none
    else none
  | .dReset =>
    if s.inQ = 0 ∧ s.reset = true then
      match s.d with
      | .hdr _ => some { s with d := .fin .sockBroken, reset := false }
      | .body _ _ => some { s with d := .fin .sockBroken, reset := false }
      | _ => none
    else none
  | .dHandle =>
    match s.d with
    | .handler r => some { s with d := if r.reply = 0 then afterHandler r else .reply r }
    | _ => none
  | .dReply =>
    match s.d with
    | .reply r =>
      if s.shut = true ∨ s.peerClosed = true then some { s with d := .fin .sockBroken }
      else some { s with outQ := s.outQ + r.reply, d := afterHandler r }
    | _ => none
  | .dLoop =>
    match s.d with
    | .post => some { s with d := .pre }
    | _ => none
  | .dFinal =>
    match s.d with
    | .fin e => some { s with d := .exited e, shut := true }
    | _ => none
  | .cStore i =>
    if s.callers i = .idle then some { s with callers := upd s.callers i .stored, flag := true } else none
  | .cShut i =>
    if s.callers i = .stored then
      some { s with callers := upd s.callers i .idle, shut := true, completed := s.completed + 1 }
    else none
  | .pWrite n =>
    if s.peerClosed = false ∧ 0 < n ∧ n ≤ s.toSend then
      if s.shut = true then some s          -- `EPIPE`: nothing is queued
      else some { s with inQ := s.inQ + n, toSend := s.toSend - n }
    else none
  | .pRead => if s.peerClosed = false then some { s with outQ := 0 } else none
  | .pClose =>
    if s.peerClosed = false then some { s with peerClosed := true, reset := decide (0 < s.outQ), outQ := 0 }
    else none
  | .wJoin =>
    if s.hasThread = true ∧ s.w = .idle ∧ s.dropped = false then
      match s.d with
      | .exited e => some { s with w := .joined e, hasThread := false }
      | _ => none                          -- `join` blocks
    else none
  | .wClassify =>
    match s.w with
    | .joined e =>
      some { s with w := .idle, results := s.results ++ [classifyWait (.err e) s.flag], hasConn := false }
    | .idle => none
  | .wNoThread =>
    if s.hasThread = false ∧ s.w = .idle ∧ s.dropped = false then
      some { s with results := s.results ++ [.ok], hasConn := false }
    else none
  | .drop =>
    if s.dropped = false ∧ s.w = .idle then
      some { s with dropped := true, shut := s.shut || s.hasConn, hasConn := false }
    else none

def run : St → List Lbl → Option St
  | s, [] => some s
  | s, l :: ls =>
    match step s l with
    | none => none
    | some s' => run s' ls

/-- a second `start()` after `wait()` returned: a fresh connection state (the model only covers `start` on a
daemon object whose previous thread has been joined and whose connection state has been reset) -/
def restart (s : St) (reqs : List Req) : Option St :=
  if s.hasThread = false ∧ s.hasConn = false ∧ s.dropped = false ∧ s.w = .idle then some (init reqs s.results)
  else none

/-- what a `read()` on the peer's end returns -/
inductive PeerRead where
  | data (n : Nat) | eof | wouldBlock
  deriving DecidableEq, Repr

def peerRead (s : St) : PeerRead :=
  if 0 < s.outQ then .data s.outQ else if s.shut then .eof else .wouldBlock

/-! ### termination measure of the daemon thread once the socket is shut down -/

def rank : DPc → Nat
  | .exited _ => 0 | .fin _ => 1 | .hdr _ => 8 | .pre => 9 | .post => 10 | .reply _ => 11 | .handler _ => 12
  | .body _ _ => 13

def mu (s : St) : Nat := 8 * s.inQ + rank s.d

def daemonSteps (ls : List Lbl) : Nat := (ls.filter Lbl.isDaemon).length

def DPc.isExited : DPc → Bool
  | .exited _ => true
  | _ => false

/-- the label the daemon thread can take next when reads deliver as much as they can (used by the driver and in
the "never blocked after shutdown" lemma); `none` = blocked in `recvmsg` or gone -/
def nextDaemon (s : St) : Option Lbl :=
  match s.d with
  | .pre => some .dEnter
  | .hdr got =>
    if 0 < s.inQ then some (.dRead (min (hdrLen - got) s.inQ))
    else if s.reset then some .dReset
    else if s.shut || s.peerClosed then some .dEof else none
  | .body _ need =>
    if 0 < s.inQ then some (.dRead (min need s.inQ))
    else if s.reset then some .dReset
    else if s.shut || s.peerClosed then some .dEof else none
  | .handler _ => some .dHandle
  | .reply _ => some .dReply
  | .post => some .dLoop
  | .fin _ => some .dFinal
  | .exited _ => none

/-! ## Teardown: worker threads, exit events, `Drop for VhostUserHandler`, the tail of `serve()` -/

namespace TD

structure Cfg where
  n : Nat              -- number of worker threads (`queues_per_thread().len()`)
  supplied : Bool      -- `backend.exit_event(t)` returns a pair

/-- `Drop for VhostUserHandler` -/
inductive HPc where
  | alive | signalling (k : Nat) | joining (k : Nat) | dropped
  deriving DecidableEq, Repr, Inhabited

/-- `serve()` after `start()` -/
inductive SPc where
  | off | waiting | signalling (k : Nat) (w : WRes) | done (w r : WRes)
  deriving DecidableEq, Repr, Inhabited

structure St where
  evt : Nat → Bool      -- exit event of worker `i` raised (the worker never consumes it)
  gone : Nat → Bool     -- worker `i` left its event loop and returned
  h : HPc
  sv : SPc

def init (serving : Bool) : St := ⟨fun _ => false, fun _ => false, .alive, if serving then .waiting else .off⟩

inductive Lbl where
  | wkExit (i : Nat)          -- worker i sees its exit event and returns
  | hBegin | hSignal | hJoin  -- handler drop: begin, `send_exit_event` (one worker per step), `join` (one per step)
  | svReturn (w : WRes)       -- `wait()` returned `w` inside `serve()`
  | svSignal                  -- `send_exit_event` inside `serve()` (one worker per step); last step maps the result
  deriving DecidableEq, Repr

def step (c : Cfg) (t : St) : Lbl → Option St
  | .wkExit i =>
    if i < c.n ∧ t.evt i = true ∧ t.gone i = false then some { t with gone := upd t.gone i true } else none
  | .hBegin =>
    match t.h, t.sv with
    | .alive, .off => some { t with h := .signalling 0 }
    | .alive, .done _ _ => some { t with h := .signalling 0 }
    | _, _ => none
  | .hSignal =>
    match t.h with
    | .signalling k =>
      if k < c.n then some { t with evt := upd t.evt k (t.evt k || c.supplied), h := .signalling (k + 1) }
      else some { t with h := .joining 0 }
    | _ => none
  | .hJoin =>
    match t.h with
    | .joining k =>
      if k < c.n then (if t.gone k = true then some { t with h := .joining (k + 1) } else none)  -- `join` blocks
      else some { t with h := .dropped }
    | _ => none
  | .svReturn w =>
    match t.sv with
    | .waiting => some { t with sv := .signalling 0 w }
    | _ => none
  | .svSignal =>
    match t.sv with
    | .signalling k w =>
      if k < c.n then some { t with evt := upd t.evt k (t.evt k || c.supplied), sv := .signalling (k + 1) w }
      else some { t with sv := .done w (classifyServe w) }
    | _ => none

def run (c : Cfg) : St → List Lbl → Option St
  | t, [] => some t
  | t, l :: ls =>
    match step c t l with
    | none => none
    | some t' => run c t' ls

/-- number of workers `< k` that are still running -/
def alive (gone : Nat → Bool) : Nat → Nat
  | 0 => 0
  | k + 1 => alive gone k + (if gone k then 0 else 1)

def hrank (n : Nat) : HPc → Nat
  | .dropped => 0
  | .joining k => n - k + 1
  | .signalling k => (n - k + 1) + (n + 1)
  | .alive => 2 * n + 3

def svrank (n : Nat) : SPc → Nat
  | .off => 0
  | .done _ _ => 0
  | .signalling k _ => n - k + 1
  | .waiting => n + 2

def mu (c : Cfg) (t : St) : Nat := alive t.gone c.n + hrank c.n t.h + svrank c.n t.sv

end TD

end Model.Shutdown
