import VhostModel.Base.ProxySig
import VhostModel.Model.BackendProxy
import VhostModel.Model.GpuProxy
import VhostModel.Model.FrontendSrv
/-!
# What the proxy models and the acknowledgement path of the server model do, in the vocabulary of `Base/ProxySig.lean`

Written by hand **from the models** (`Model.BackendProxy`, `Model.GpuProxy`, `Model.FrontendSrv`), not from the Rust
source.  Rows are *computed* from the models' own definitions (`Kind.code`, `Kind.bodyTy`, `Kind.hasFd`,
`Model.GpuProxy.methods`, …) so that the tables cannot drift from the executable models; the only hand-written columns
are the Rust names (method, gate field, helper) — and `Props.ProxyOps` proves what the gate field *means* for the model
(`proxy_gate_iff`).  `Props.ProxyOps` proves that these tables are the generated ones (`Gen.ProxyOps`, by `decide`) and
that the generated statement programs, run on the inputs read off the model states below, are what the executable
models do, for all states / calls / streams.
-/
namespace Model.ProxyTable
open Base ProxySig Model.Msgs

/-! ## the backend proxy -/
section Backend
open Model.BackendProxy

def kinds : List Kind := [.add, .remove, .lookup, .map, .unmap]

/-- the Rust method behind a call kind -/
def Kind.method : Kind → String
  | .add => "shared_object_add" | .remove => "shared_object_remove" | .lookup => "shared_object_lookup"
  | .map => "shmem_map" | .unmap => "shmem_unmap"

/-- the field of `BackendInternal` that `Kind.gate` reads (`PSt.sharedObject` / `PSt.shmem`) -/
def Kind.gateField : Kind → String
  | .add | .remove | .lookup => "shared_object_negotiated"
  | .map | .unmap => "shmem_negotiated"

/-- the model's row of a call kind; every proxy call goes through `send_message` (`Model.BackendProxy.request`) -/
def rowOf (k : Kind) : PxRow :=
  { name := Kind.method k, gateField := Kind.gateField k, helper := "send_message", code := k.code, body := k.bodyTy,
    size := (structSize k.bodyTy).getD 0, fd := k.hasFd }

def backendRows : List PxRow := kinds.map rowOf

/-- the inputs of the generated programs, read off a proxy state and a call kind -/
def pinOf (st : PSt) (k : Kind) : PIn :=
  { replyAck := st.replyAck, sharedObject := st.sharedObject, shmem := st.shmem, errorIsSome := st.error.isSome,
    code := k.code, sizeOfT := (structSize k.bodyTy).getD 0 }

/-- … and the request header alone (for `wait_for_ack`) -/
def pinOfSt (st : PSt) : PIn :=
  { replyAck := st.replyAck, sharedObject := st.sharedObject, shmem := st.shmem, errorIsSome := st.error.isSome }

/-- the generated error names in the model's error type -/
def perrOf : ProxySig.PErr → Model.BackendProxy.PErr
  | .notNegotiated => .notNegotiated
  | .socketBroken => .proto .sockBroken
  | .invalidMessage => .proto .invalidMsg
  | .frontendInternal => .proto .frontendInternal

/-- the fields of `PSt` under their Rust names: `PSt` has exactly the state `BackendInternal` has besides the socket -/
def backendState (st : PSt) : List (String × String) :=
  [("reply_ack_negotiated", toString st.replyAck), ("shared_object_negotiated", toString st.sharedObject),
   ("shmem_negotiated", toString st.shmem), ("error", if st.error.isSome then "Some" else "None")]

/-- the setters of the model: the drivers write the `PSt` field directly (`Drv.Proxy`: `ra`, `so`, `shm`, `fail`) -/
def backendSetters : List Setter := [
  ⟨"set_reply_ack_flag", "reply_ack_negotiated", .param "enable"⟩,
  ⟨"set_shared_object_flag", "shared_object_negotiated", .param "enable"⟩,
  ⟨"set_shmem_flag", "shmem_negotiated", .param "enable"⟩,
  ⟨"set_failed", "error", .someParam "error"⟩
]

end Backend

/-- the generated error names in the error type shared by the channel models -/
def errOf : ProxySig.PErr → Model.BackendSrv.Err
  | .notNegotiated => .other
  | .socketBroken => .sockBroken
  | .invalidMessage => .invalidMsg
  | .frontendInternal => .frontendInternal

/-- the inputs behind a `recvBody`: what the model knows about the message `recv_body` returned -/
def replyIn (x : PIn) (codes : List Nat) (valid : Bytes → Bool) (r : Model.Frontend.Reply) (req : Model.BackendSrv.Hdr) : PIn :=
  { x with isReplyFor := Model.RecvBody.isReplyFor codes r.hdr req, rfdsIsSome := r.files.isSome,
           bodyValid := valid r.body, value := leVal r.body }

/-! ## the GPU proxy -/
section Gpu
open Model.GpuProxy

def SendKind.helper : SendKind → String
  | .header => "send_header" | .message => "send_message" | .payload => "send_message_with_payload"

/-- the model's row of a method of `Model.GpuProxy.methods` -/
def gpuRowOf (m : Method) : GxRow :=
  { name := m.name, helper := SendKind.helper m.send, code := m.code, body := m.bodyTy,
    size := ((m.bodyTy.bind structSize).getD 0), payload := m.send == .payload, fd := m.fd, reply := m.reply.ty,
    ret := match m.reply with
      | .none | .empty => .unit      -- `callRecv`: nothing read, resp. `VhostUserEmpty` read and dropped
      | _ => .body }

def gpuRows : List GxRow := methods.map gpuRowOf

/-- the inputs of the generated send helpers, read off a GPU proxy state, a method and a call -/
def gpuIn (st : GSt) (m : Method) (c : Call) : PIn :=
  { errorIsSome := st.error.isSome, code := m.code, sizeOfT := (m.bodyTy.bind structSize).getD 0,
    dataLen := c.payload.length }

def gpuInSt (st : GSt) : PIn := { errorIsSome := st.error.isSome }

def gpuState (st : GSt) : List (String × String) := [("error", if st.error.isSome then "Some" else "None")]

def gpuSetters : List Setter := [⟨"set_failed", "error", .someParam "error"⟩]

end Gpu

/-! ## the acknowledgement path of the frontend's request server -/
section FeSrv
open Model.FrontendSrv
open HelperSig (HIn)

/-- the handler result as `send_ack_message` sees it: `Outcome.handler` = the arm mapped the handler's `io::Error` with
`Error::ReqHandlerError`; `HOut.errno e` = `io::Error::from_raw_os_error(e)`, `HOut.err` = an `io::Error` without OS
code; `Outcome.invalid` = `Err(Error::InvalidMessage)` of the catch-all arm -/
def resOf : Outcome → ResV
  | .handler (.okv n) => .ok n
  | .handler (.errno e) => .err (.reqHandler (some (Int.ofNat e)))
  | .handler .err => .err (.reqHandler none)
  | .invalid => .err .other

/-- outcomes a real handler can produce: a `u64`; a non-negative `i32` OS error code (the model's `errno` is a natural
number: negative codes are outside the model) -/
def OutRange : Outcome → Prop
  | .handler (.okv n) => n < 2^64
  | .handler (.errno e) => e < 2^31
  | _ => True

/-- inputs of the helper programs: header fields, `size = buf.len()` = the bytes received as body -/
def feIn (st : FSt) (h : Model.BackendSrv.Hdr) (size : Nat) : HIn :=
  { size := size, bufLen := size, code := h.code, hdrFlags := h.flags, hdrSize := h.size, replyAck := st.replyAck,
    errorIsSome := st.error.isSome }

def ackEnv (st : FSt) (h : Model.BackendSrv.Hdr) (o : Outcome) : AckEnv := { i := feIn st h 0, res := resOf o }

def feState (st : FSt) : List (String × String) :=
  [("reply_ack_negotiated", toString st.replyAck), ("error", if st.error.isSome then "Some" else "None")]

/-- `set_reply_ack_flag` writes the field; `FSt.setFailed` clears on 0 -/
def feSetters : List Setter := [
  ⟨"set_reply_ack_flag", "reply_ack_negotiated", .param "enable"⟩,
  ⟨"set_failed", "error", .zeroNoneElseSome "error"⟩
]

/-- evaluation of a setter's right-hand side on an `Option Nat` field -/
def SetSrc.optVal : SetSrc → Nat → Option Nat
  | .param _, v => some v
  | .someParam _, v => some v
  | .zeroNoneElseSome _, v => if v == 0 then none else some v

end FeSrv

end Model.ProxyTable
