import VhostModel.Spec.RingAutomaton
/-!
# Model.RingReg — ring state, kick registration and the worker's drain loop (C11)

Hand-written from `vhost-user-backend/src/{handler.rs, vring.rs, event_loop.rs}` and the request
dispatch of `vhost/src/vhost_user/backend_req_handler.rs`, for one worker thread that owns every ring
(routing to several workers is C17's subject; here `evt_idx = ring index`).

## State

* per ring (`VringState`): `queue.ready`, `enabled`, `kick : Option EventConsumer`, `call`;
* `ackedH` — bit 30 of `VhostUserHandler::acked_features` (cleared by `reset_device`),
  `ackedC` — bit 30 of `BackendReqHandler::acked_virtio_features` (value of the last SET_FEATURES);
* `conn` — the connection is open (`handle_request` returning `Err` makes the daemon's thread shut the
  socket down; the workers live on).  `send_ack_message` returns the handler's error after the failure
  acknowledgement has been written, so a refused request (`fail`) ends the connection as well;
* the worker's epoll interest set `reg : descriptor → Option data`, the eventfd counters `cnt`,
  `peerOpen d` (the front-end still holds descriptor `d`: then closing the daemon's copy does not
  release the file and does **not** remove an epoll registration), `alive` (the worker thread serves).

## Code ↦ model

| Rust | model |
|---|---|
| `vring_needs_init`: `!queue.ready && kick.is_some()` | `needsInit` |
| `initialize_vring`: `set_queue_ready(true)`; `update_vring_registration` | `initializeVring` |
| `update_vring_registration`: kick `None` → nothing; `ready && enabled` → `EPOLL_CTL_ADD` (EEXIST tolerated) else `EPOLL_CTL_DEL` (error ignored) | `updateReg` / `epollAdd` / `epollDel` |
| `set_vring_kick`: `set_kick(file)` (previous `EventConsumer` dropped = closed); `if vring_needs_init { initialize_vring }` | `setVringKick` with `old = true` |
| repaired `set_vring_kick` (fix-c11-rekick): unregister the descriptor being replaced while it is still open; `set_kick`; `if vring_needs_init { initialize_vring } else { update_vring_registration }` | `setVringKick` with `old = false` |
| `set_vring_call`: `set_call(file)`; `if vring_needs_init { initialize_vring }` | `setVringCall` |
| `set_vring_enable`: crate checks bit 30 of `acked_virtio_features` (`?` ⇒ connection closed), handler checks bit 30 of `acked_features` (⇒ failure ack), index, `set_enabled`, `update_vring_registration` | `setVringEnable` |
| `set_features` without bit 30: for every ring `set_enabled(true)`; `update_vring_registration` | `setFeatures` / `enableAll` |
| `get_vring_base`: `set_queue_ready(false)`; `update_vring_registration`; `next_avail`; `set_kick(None)`; `set_call(None)` | `getVringBase` |
| `reset_device`: every ring `set_enabled(false)`; `update_vring_registration`; `acked_features = 0` | `resetDevice` / `disableAll` |
| `VringEpollHandler::run`: `epoll.wait` → for each returned event `handle_event` | `batch`, `pass`, `quiesce` |
| `handle_event`: `read_kick` (`if let Some(kick) = &self.kick { kick.consume()? }; Ok(self.enabled)`); `if !enabled return`; `backend.handle_event` | `handleEvent` |

Environment rules (DESIGN §6): level-triggered epoll — a registered descriptor with counter > 0 is
returned by `wait`; `consume` zeroes the counter; `consume` on a zero counter of a non-blocking eventfd
fails with `EAGAIN`, which `handle_event` propagates with `?` and the worker thread ends (a blocking
eventfd would block it for ever inside the ring lock: in both cases it serves no further event —
`alive := false`); closing the last reference to a descriptor removes its registration; every
`SET_VRING_KICK`/`SET_VRING_CALL` carries a fresh eventfd.

`quiesce` = "the worker has drained everything that is readable": batches are collected and processed
until nothing registered is readable, the worker is gone, or `passes` batches were processed (a
descriptor that stays readable because nobody consumes it makes the real worker spin for ever).
-/

namespace Model.RingReg
open Spec.RingAutomaton (Evt Msg upd)

structure VRing where
  ready : Bool
  enabled : Bool
  kick : Option Evt
  call : Option Evt
deriving DecidableEq, Repr

def VRing.init : VRing := ⟨false, false, none, none⟩

inductive Reply where
  | ok | fail | closed
  | base (r v : Nat)
  | noReply
deriving DecidableEq, Repr

structure Out where
  reply : Reply
  dispatched : List Nat        -- `backend.handle_event` calls, in call order (ring index)
deriving DecidableEq, Repr

structure St where
  n : Nat
  base : Nat → Nat
  /-- `true`: `set_vring_kick` as on the pinned tree (F-C11-rekick); `false`: repaired -/
  old : Bool
  ackedH : Bool
  ackedC : Bool
  conn : Bool
  ring : Nat → VRing
  reg : Evt → Option Nat
  cnt : Evt → Nat
  peerOpen : Evt → Bool
  next : Evt
  alive : Bool

def init (n : Nat) (base : Nat → Nat) (old : Bool) : St :=
  { n := n, base := base, old := old, ackedH := false, ackedC := false, conn := true,
    ring := fun _ => VRing.init, reg := fun _ => none, cnt := fun _ => 0, peerOpen := fun _ => false,
    next := 0, alive := true }

def setRing (s : St) (r : Nat) (v : VRing) : St := { s with ring := upd s.ring r v }

/-- `EPOLL_CTL_ADD`; `EEXIST` is tolerated by the caller -/
def epollAdd (s : St) (e : Evt) (r : Nat) : St :=
  match s.reg e with
  | some _ => s
  | none => { s with reg := upd s.reg e (some r) }

/-- `EPOLL_CTL_DEL`; the error for an unregistered descriptor is ignored by the caller -/
def epollDel (s : St) (e : Evt) : St := { s with reg := upd s.reg e none }

/-- the daemon drops its `EventConsumer`/`EventNotifier` of descriptor `e`: the file is released, and its
registration disappears, only if the front-end no longer holds it -/
def closeFd (s : St) (e : Evt) : St := if s.peerOpen e then s else epollDel s e

def updateReg (s : St) (r : Nat) : St :=
  match (s.ring r).kick with
  | none => s
  | some fd => if (s.ring r).ready && (s.ring r).enabled then epollAdd s fd r else epollDel s fd

def needsInit (s : St) (r : Nat) : Bool := !(s.ring r).ready && (s.ring r).kick.isSome

def initializeVring (s : St) (r : Nat) : St :=
  updateReg (setRing s r { s.ring r with ready := true }) r

/-- a fresh descriptor arrives with the message -/
def alloc (s : St) : St := { s with next := s.next + 1, peerOpen := upd s.peerOpen s.next true }

/-- `set_vring_kick` up to and including `vring.set_kick(file)`: (repaired tree only) the descriptor being replaced
leaves the epoll set while it is still open; then the previous `EventConsumer` is dropped -/
def replaceKick (s0 : St) (r : Nat) (new : Option Evt) : St :=
  let oldk := (s0.ring r).kick
  let s1 := if s0.old then s0 else (match oldk with | some k => epollDel s0 k | none => s0)
  let s2 := setRing s1 r { s1.ring r with kick := new }
  match oldk with
  | some k => closeFd s2 k
  | none => s2

/-- `set_vring_kick` for an existing ring -/
def installKick (s0 : St) (r : Nat) (new : Option Evt) : St :=
  let s3 := replaceKick s0 r new
  if needsInit s3 r then initializeVring s3 r
  else if s3.old then s3 else updateReg s3 r

def setVringKick (s : St) (r : Nat) (fd : Bool) : St × Reply :=
  let new : Option Evt := if fd then some s.next else none
  let s0 := if fd then alloc s else s
  if r < s0.n then (installKick s0 r new, .ok)
  else ({ s0 with conn := false }, .fail)

def setVringCall (s : St) (r : Nat) (fd : Bool) : St × Reply :=
  let new : Option Evt := if fd then some s.next else none
  let s0 := if fd then alloc s else s
  if r < s0.n then
    let s2 := setRing s0 r { s0.ring r with call := new }
    if needsInit s2 r then (initializeVring s2 r, .ok) else (s2, .ok)
  else ({ s0 with conn := false }, .fail)

def setEnabled (s : St) (r : Nat) (on : Bool) : St :=
  updateReg (setRing s r { s.ring r with enabled := on }) r

def setVringEnable (s : St) (r : Nat) (on : Bool) : St × Reply :=
  if !s.ackedC then ({ s with conn := false }, .closed)
  else if !s.ackedH then ({ s with conn := false }, .fail)
  else if r < s.n then (setEnabled s r on, .ok)
  else ({ s with conn := false }, .fail)

/-- `for (index, vring) in self.vrings.iter().enumerate() { vring.set_enabled(on); update_vring_registration }`
over rings `0 .. k-1` -/
def setAll (on : Bool) (s : St) : Nat → St
  | 0 => s
  | k + 1 => setEnabled (setAll on s k) k on

def setFeatures (s : St) (proto : Bool) : St × Reply :=
  let s1 := { s with ackedH := proto, ackedC := proto }
  (if proto then s1 else setAll true s1 s1.n, .ok)

def resetDevice (s : St) : St × Reply :=
  ({ setAll false s s.n with ackedH := false }, .ok)

/-- the state change of `get_vring_base` -/
def stopRing (s : St) (r : Nat) : St :=
  let s1 := updateReg (setRing s r { s.ring r with ready := false }) r
  let oldk := (s1.ring r).kick
  let s2 := setRing s1 r { s1.ring r with kick := none, call := none }
  match oldk with
  | some k => closeFd s2 k
  | none => s2

def getVringBase (s : St) (r : Nat) : St × Reply :=
  if r < s.n then (stopRing s r, .base r (s.base r))
  else ({ s with conn := false }, .closed)

/-- some ring of the daemon still refers to descriptor `e` -/
def daemonHolds (s : St) (e : Evt) : Bool := (List.range s.n).any (fun r => (s.ring r).kick == some e)

/-- the message carries a descriptor -/
def carriesFd : Msg → Bool
  | .setKick _ fd => fd
  | .setCall _ fd => fd
  | _ => false

def isControl : Msg → Bool
  | .guestKick _ => false
  | .peerClose _ => false
  | _ => true

/-- the control thread / the guest: one event -/
def control (s : St) (m : Msg) : St × Reply :=
  if isControl m && !s.conn then (if carriesFd m then alloc s else s, .closed) else
  match m with
  | .setFeatures proto => setFeatures s proto
  | .setKick r fd => setVringKick s r fd
  | .setCall r fd => setVringCall s r fd
  | .setEnable r on => setVringEnable s r on
  | .getBase r => getVringBase s r
  | .reset => resetDevice s
  | .guestKick d =>
    (if d < s.next ∧ s.peerOpen d = true then { s with cnt := upd s.cnt d (s.cnt d + 1) } else s, .noReply)
  | .peerClose d =>
    let s1 := { s with peerOpen := upd s.peerOpen d false }
    (if daemonHolds s1 d then s1 else epollDel s1 d, .noReply)

/-! ## the worker -/

/-- what one `epoll.wait` returns: the registered descriptors whose counter is positive, with their data -/
def batch (s : St) : List (Evt × Nat) :=
  (List.range s.next).filterMap fun e =>
    match s.reg e with
    | some r => if 0 < s.cnt e then some (e, r) else none
    | none => none

/-- `VringEpollHandler::handle_event(device_event = r)` -/
def handleEvent (s : St) (r : Nat) : St × List Nat :=
  if !s.alive then (s, []) else
  match (s.ring r).kick with
  | some k =>
    if s.cnt k = 0 then ({ s with alive := false }, [])
    else ({ s with cnt := upd s.cnt k 0 }, if (s.ring r).enabled then [r] else [])
  | none => (s, if (s.ring r).enabled then [r] else [])

/-- the events of one batch, in order -/
def pass (s : St) : List (Evt × Nat) → St × List Nat
  | [] => (s, [])
  | (_, r) :: evs =>
    let s1 := (handleEvent s r).1
    let p := pass s1 evs
    (p.1, (handleEvent s r).2 ++ p.2)

/-- upper bound on the batches followed by the model in one drain -/
def passes : Nat := 16

def quiesce : Nat → St → St × List Nat
  | 0, s => (s, [])
  | f + 1, s =>
    if s.alive && !(batch s).isEmpty then
      let p := pass s (batch s)
      let q := quiesce f p.1
      (q.1, p.2 ++ q.2)
    else (s, [])

def step (s : St) (m : Msg) : St × Out :=
  let c := control s m
  let q := quiesce passes c.1
  (q.1, ⟨c.2, q.2⟩)

def run (s : St) : List Msg → St × List Out
  | [] => (s, [])
  | m :: ms =>
    let p := step s m
    let q := run p.1 ms
    (q.1, p.2 :: q.2)

/-- the ring is started, enabled and has a kick descriptor -/
def St.active (s : St) (r : Nat) : Bool :=
  decide (r < s.n) && (s.ring r).ready && (s.ring r).enabled && (s.ring r).kick.isSome

end Model.RingReg
