import VhostModel.Spec.Locks
/-!
spec driver family `locks` (C10): the property's verdict on what the implementation did.

Input: `<scenario> => <observation>` of `harness/src/fam_locks.rs`.  Three clauses:

* `atomic` — from the per-event snapshots and the order in which requests reached the peer, the most
  lenient history consistent with the observation is built (a reply is taken to be consumed as early
  as the observation allows: a caller that returned during a step consumed its reply at the start of
  the step, or right after its own request if that request was also written during the step) and
  judged with `Spec.Locks.atomicB` (`Props.C10.atomicB_sound`: accepted ⇒ `Spec.Locks.Atomic`).  A
  request that reaches the peer during a step throughout which another caller stays parked between
  its send and its receive is therefore a violation; anything the observation cannot order is given
  the benefit of the doubt.
* `own_reply` — every caller that returned got the result that the reply to *its own* request
  produces (the scripted peer's reply is a function of the request alone; table below).
* `all_complete` — every caller returned before the watchdog.

Reply fault `fault=<k>:<kind>` (the scripted peer mistreats the request of caller `k`: a reply the caller must refuse —
`code`, `noreply`, `fd` — or `close`: no reply, the peer is gone): the three clauses stay, and "own reply" is read as
`Spec.Locks.FaultClauses` (judged with `faultClausesB`; `Props.C10.faultClausesB_sound`): the request the peer
mistreated ⇒ its caller returned an error, never a value (`faulty_is_error`); a request the peer received and
answered correctly (every other request in `order`) ⇒ the caller's own result; a request that never reached the peer
(it was gone) ⇒ an error, never a value.  "Never blocks" is `all_complete`.  In fault scenarios results are compared
up to the kind of error (every `err:*` is `err`).

Which requests have a reply (`expects`) comes from the protocol: reply-bearing requests always,
other requests iff REPLY_ACK was negotiated and the request carries NEED_REPLY (`ack=1`); the GPU
channel has replies exactly for GET_PROTOCOL_FEATURES, GET_DISPLAY_INFO, GET_EDID, DMABUF_UPDATE.
Requests refused locally (queue index ≥ the negotiated maximum 0x20) write nothing.

Nothing under `Gen/` or `Model/` is imported.
-/
namespace SpecDrv.Locks
open Spec.Locks

def hexDigit? (c : Char) : Option Nat :=
  if '0' ≤ c ∧ c ≤ '9' then some (c.toNat - '0'.toNat)
  else if 'a' ≤ c ∧ c ≤ 'f' then some (c.toNat - 'a'.toNat + 10)
  else none

def hexNat? (cs : List Char) : Option Nat :=
  if cs.isEmpty then none else
  cs.foldl (fun acc c => match acc, hexDigit? c with
    | some a, some d => some (a * 16 + d)
    | _, _ => none) (some 0)

def toHex (n : Nat) : String := String.ofList (Nat.toDigits 16 n)

def hex2 (n : Nat) : String :=
  let d := Nat.toDigits 16 (n % 256)
  String.ofList (if d.length < 2 then '0' :: d else d)

def kvOf (toks : List String) (key : String) : Option String :=
  toks.findSome? fun t =>
    match t.splitOn "=" with
    | [k, v] => if k == key then some v else none
    | _ => none

def argsOf (tag pre : String) : Option (Nat × Nat) :=
  let cs := tag.toList
  let p := pre.toList
  if p.isPrefixOf cs then
    let rest := String.ofList (cs.drop p.length)
    match rest.splitOn "." with
    | [a] => (hexNat? a.toList).map (·, 0)
    | [a, b] => do pure (← hexNat? a.toList, ← hexNat? b.toList)
    | _ => none
  else none

/-- what the protocol (and the scripted peer's reply rule) says about one call -/
structure CallSpec where
  tag : String
  writes : Bool      -- a request is written at all
  expects : Bool     -- the request has a reply
  result : String    -- what the caller returns when it gets the reply to its own request

def feSpec (ack : Bool) (tag : String) : Option CallSpec :=
  let replyOp (r : String) : Option CallSpec := some ⟨tag, true, true, r⟩
  let setOp (r : String) : Option CallSpec := some ⟨tag, true, ack, r⟩
  let refused : Option CallSpec := some ⟨tag, false, false, "err:invalidParam"⟩
  if tag == "gf" then replyOp "ok:40001111"            -- GET_FEATURES ↦ 0x40001111
  else if tag == "gpf" then replyOp "ok:2cb32b"        -- GET_PROTOCOL_FEATURES ↦ the 12 feature bits the scenarios need
  else if tag == "gqn" then replyOp "ok:20"            -- GET_QUEUE_NUM ↦ 0x20
  else if tag == "gmms" then replyOp "ok:3333"         -- GET_MAX_MEM_SLOTS ↦ 0x3333
  else if tag == "cds" then replyOp "ok"               -- CHECK_DEVICE_STATE ↦ 0
  else if tag == "sdsf" then replyOp "ok:none"         -- SET_DEVICE_STATE_FD ↦ 0x100, no descriptor
  else if tag == "slbr" then replyOp "ok"              -- SET_LOG_BASE with LOG_SHMFD and a region ↦ echo
  else if tag == "gso" ∨ tag == "pca" then replyOp "ok:file"   -- GET_SHARED_OBJECT / POSTCOPY_ADVISE ↦ empty body + 1 descriptor
  else if tag == "gsc" then replyOp "ok:2"             -- GET_SHMEM_CONFIG ↦ 2 regions
  else if ["so", "ro", "rd", "smt", "amr", "rmr", "slf", "sbrf", "pcl", "pce", "spfe", "spfe0"].contains tag then setOp "ok"
  else if tag.startsWith "gif" then                     -- GET_INFLIGHT_FD(n queues) ↦ mmap_size 0x4000+n
    (argsOf tag "gif").bind fun (n, _) => replyOp ("ok:" ++ toHex (0x4000 + n))
  else if tag.startsWith "sif" then (argsOf tag "sif").bind fun _ => setOp "ok"
  else if ["sva", "svc", "svk", "svr", "sen"].any (fun p => tag.startsWith p) then
    (argsOf tag (String.ofList (tag.toList.take 3))).bind fun (q, _) => if q < 0x20 then setOp "ok" else refused
  else if tag == "slb" then (if ack then none else some ⟨tag, true, false, "ok"⟩)
  else if tag.startsWith "gvb" then
    (argsOf tag "gvb").bind fun (q, _) => if q < 0x20 then replyOp ("ok:" ++ toHex (0x100 + q)) else refused
  else if tag.startsWith "gcfg" then
    (argsOf tag "gcfg").bind fun (o, _) =>
      replyOp ("ok:" ++ String.join ((List.range 4).map fun k => hex2 (o + 0xa0 + k)))
  else if tag.startsWith "scfg" then (argsOf tag "scfg").bind fun _ => setOp "ok"
  else if tag.startsWith "svn" then
    (argsOf tag "svn").bind fun (q, n) =>
      if q < 0x20 then setOp (if ack ∧ n ≥ 0x8000 then "err:backendInternal" else "ok") else refused
  else if tag.startsWith "svb" then
    (argsOf tag "svb").bind fun (q, n) =>
      if q < 0x20 then setOp (if ack ∧ n ≥ 0x8000 then "err:backendInternal" else "ok") else refused
  else if tag.startsWith "sf" then (argsOf tag "sf").bind fun _ => setOp "ok"
  else none

def beSpec (ack : Bool) (tag : String) : Option CallSpec :=
  (["soa", "sor", "sol", "smap", "sunm"].find? fun p => tag.startsWith p).bind fun p =>
    (argsOf tag p).bind fun (_, v) =>
      some ⟨tag, true, ack, if ack ∧ v ≠ 0 then "err:frontendInternal" else "ok:0"⟩

def gpuSpec (tag : String) : Option CallSpec :=
  if tag == "gpf" then some ⟨tag, true, true, "ok:5555"⟩
  else if tag == "gdi" then some ⟨tag, true, true, "ok:780"⟩
  else if tag == "spf" ∨ tag == "cu" then some ⟨tag, true, false, "ok"⟩
  else if tag.startsWith "ged" then
    (argsOf tag "ged").bind fun (s, _) => some ⟨tag, true, true, "ok:" ++ toHex (0x80 + s)⟩
  else if tag.startsWith "uds" then (argsOf tag "uds").bind fun _ => some ⟨tag, true, true, "ok"⟩
  else
    (["us", "sc", "cph", "cp", "ds", "dt"].find? fun p => tag.startsWith p).bind fun p =>
      (argsOf tag p).bind fun _ => some ⟨tag, true, false, "ok"⟩

def specOf (ep : String) (ack : Bool) (tag : String) : Option CallSpec :=
  match ep with
  | "fe" => feSpec ack tag
  | "be" => beSpec ack tag
  | "gpu" => gpuSpec tag
  | _ => none

/-- one snapshot `ev:statuses/seen` -/
structure Snap where
  ev : String
  status : List Char
  seen : Nat

def parseSnap (s : String) : Option Snap :=
  match s.splitOn ":" with
  | [ev, rest] =>
    match rest.splitOn "/" with
    | [st, n] => (hexNat? n.toList).map fun k => ⟨ev, st.toList, k⟩
    | _ => none
  | _ => none

def statusAt (s : Snap) (i : Nat) : Char := (s.status[i]?).getD '-'

/-- assign the requests that reached the peer during one step to callers: same tag, not yet assigned,
preferring a caller that (according to the snapshot) wrote its request during this step -/
def assign (specs : List CallSpec) (prev cur : Snap) (assigned : List Nat) (tags : List String) :
    List Nat × List Nat :=
  tags.foldl (fun (acc : List Nat × List Nat) tg =>
    let (asg, out) := acc
    let cands := (List.range specs.length).filter fun i =>
      ¬ asg.contains i ∧ ((specs[i]?).map (·.tag) == some tg)
    let fresh := cands.filter fun i =>
      let p := statusAt prev i; let q := statusAt cur i
      (q == 'h' ∨ q == 'd') ∧ ¬ (p == 'h' ∨ p == 'd')
    match fresh.head?, cands.head? with
    | some i, _ => (asg ++ [i], out ++ [i])
    | none, some i => (asg ++ [i], out ++ [i])
    | none, none => (asg, out ++ [specs.length])   -- a request nobody in the scenario makes
    ) (assigned, [])

/-- whose reply did caller `i` consume, judging by what it returned -/
def tagOfResult (specs : List CallSpec) (got : List String) (i : Nat) : Nat :=
  let g := (got[i]?).getD "none"
  if ((specs[i]?).map (·.result)) == some g then i
  else
    match (List.range specs.length).find? fun j => ((specs[j]?).map (·.result)) == some g ∧
        ((specs[j]?).map (·.expects)) == some true with
    | some j => j
    | none => specs.length

/-- the most lenient history consistent with the snapshots -/
def history (specs : List CallSpec) (snaps : List Snap) (order : List String) (got : List String) : List Ev :=
  let n := specs.length
  let expects (i : Nat) : Bool := ((specs[i]?).map (·.expects)).getD false
  let init : Snap := ⟨"", List.replicate n '-', 0⟩
  let (_, _, tr) := snaps.foldl (fun (acc : Snap × List Nat × List Ev) cur =>
    let (prev, assigned, tr) := acc
    let newTags := (order.drop prev.seen).take (cur.seen - prev.seen)
    let (assigned', newReqs) := assign specs prev cur assigned newTags
    let newDone := (List.range n).filter fun i => statusAt cur i == 'd' ∧ statusAt prev i ≠ 'd'
    let early := newDone.filter fun i => expects i ∧ assigned.contains i
    let evs1 := early.map fun i => Ev.rep i (tagOfResult specs got i)
    let evs2 := newReqs.flatMap fun r =>
      Ev.req r :: (if newDone.contains r ∧ expects r then [Ev.rep r (tagOfResult specs got r)] else [])
    (cur, assigned', tr ++ evs1 ++ evs2)) (init, [], [])
  tr

/-- every error result is `err` in fault scenarios -/
def collapse (e : String) : String := if e.startsWith "err" then "err" else e

/-- `<k>:<kind>` with a known kind -/
def parseFault (f : String) : Option (Nat × String) :=
  match f.splitOn ":" with
  | [k, kind] =>
    if ["code", "noreply", "fd", "close"].contains kind then k.toNat?.map (·, kind) else none
  | _ => none

/-- the verdict of the fault clauses on the callers' results; `k` = the caller whose request the peer mistreated -/
def judgeFault (specs : List CallSpec) (order got : List String) (k : Nat) : List String :=
  let n := specs.length
  let expects (i : Nat) : Bool := ((specs[i]?).map (·.expects)).getD false
  let res (i : Nat) : String := collapse (((specs[i]?).map (·.result)).getD "?")
  let reached (i : Nat) : Bool := order.contains (((specs[i]?).map (·.tag)).getD "?")
  let faulty (i : Nat) : Bool := i == k
  let answered (i : Nat) : Bool := i != k && reached i
  let out (i : Nat) : Outcome :=
    let g := (got[i]?).getD "none"
    if g == "none" then .pending
    else if g == "err" then (if res i == "err" ∧ answered i then .value i else .error)
    else if g == res i then .value i
    else match (List.range n).find? fun j => res j == g ∧ expects j with
      | some j => .value j
      | none => .value n
  let faultyOk : Bool := out k == .pending || out k == .error
  let clausesOk : Bool := faultClausesB n expects faulty answered out
  -- callers whose request has no reply: their own result if the request reached the peer (or nothing is written at
  -- all); an error if it did not
  let plainOk : Bool := (List.range n).all fun i =>
    expects i || (
      let g := (got[i]?).getD "none"
      let writes := ((specs[i]?).map (·.writes)).getD false
      g == "none" || (if writes ∧ ¬ reached i then g == "err" else g == res i))
  (if faultyOk then [] else ["faulty_is_error"]) ++
  (if (clausesOk || !faultyOk) && plainOk then [] else ["own_reply"])

def judgeSched (ep : String) (ack : Bool) (tags : List String) (obs : List String) (fault : Option String) : String :=
  match tags.mapM (specOf ep ack) with
  | none => "bad-scenario"
  | some specs =>
    let flt : Option (Option (Nat × String)) := fault.map parseFault
    if flt == some none then "bad-scenario" else
    let fk : Option (Nat × String) := flt.join
    let badFault : Bool := match fk with
      | some (k, kind) =>
        match specs[k]? with
        | none => true
        | some sp => !sp.expects || (specs.filter (·.tag == sp.tag)).length != 1 ||
            -- an extra descriptor is only a fault where the reply takes none
            (kind == "fd" && (sp.result == "ok:file" || sp.tag == "sdsf" || sp.tag.startsWith "gif"))
      | none => false
    if badFault then "bad-scenario" else
    match kvOf obs "snaps", kvOf obs "order", kvOf obs "got", kvOf obs "done" with
    | some sn, some od, some gt, some dn =>
      match (sn.splitOn ",").mapM parseSnap with
      | none => "bad-observation"
      | some snaps =>
        let n := specs.length
        let order := if od == "-" then [] else od.splitOn ","
        let got := gt.splitOn ","
        let expects (i : Nat) : Bool := ((specs[i]?).map (·.expects)).getD false
        let tr := history specs snaps order got
        let atomicOk : Bool := atomicB expects tr
        let lastOk : Bool :=
          match snaps.getLast? with
          | some s => (List.range n).all (fun i => statusAt s i == 'd')
          | none => false
        let doneOk : Bool := dn.toList.length == n && dn.toList.all (· == '1') && lastOk
        -- callers that returned must have got the result of their own reply; requests that reached the
        -- peer must be requests of the scenario (each caller writes at most one)
        let ownFails : List String := match fk with
          | some (k, _) => judgeFault specs order got k
          | none =>
            if ((List.range n).all fun i =>
              let g := (got[i]?).getD "none"
              g == "none" || ((specs[i]?).map (·.result)) == some g) then [] else ["own_reply"]
        let wireOk : Bool := decide (order.length ≤ (specs.filter (·.writes)).length) &&
          order.all fun tg => specs.any fun s => s.writes && s.tag == tg
        let fails := (if atomicOk && wireOk then [] else ["atomic"]) ++ ownFails ++
          (if doneOk then [] else ["all_complete"])
        if fails.isEmpty then "spec-ok" else "spec-fail " ++ String.intercalate "," fails
    | _, _, _, _ => "bad-observation"

def judgeStress (spec : String) (obs : List String) : String :=
  match spec.splitOn "x" with
  | [a, b] =>
    match a.toNat?, b.toNat?, (kvOf obs "calls").bind (hexNat? ·.toList), (kvOf obs "bad").bind (hexNat? ·.toList),
          (kvOf obs "early").bind (hexNat? ·.toList), (kvOf obs "done").bind (hexNat? ·.toList) with
    | some threads, some per, some calls, some bad, some early, some done =>
      let fails := (if early == 0 then [] else ["atomic"]) ++ (if bad == 0 then [] else ["own_reply"]) ++
        (if done == threads ∧ calls == threads * per then [] else ["all_complete"])
      if fails.isEmpty then "spec-ok" else "spec-fail " ++ String.intercalate "," fails
    | _, _, _, _, _, _ => "bad-observation"
  | _ => "bad-scenario"

def run (toks : List String) : String :=
  -- `=>` per the line protocol; `==>` is what checks/c10.py sends (check.py keys answers by the text
  -- before the first ` => `)
  let isSep (t : String) : Bool := t == "=>" || t == "==>"
  let scen := toks.takeWhile (fun t => !isSep t)
  let obs := (toks.dropWhile (fun t => !isSep t)).drop 1
  match kvOf scen "ep" with
  | none => "bad-scenario"
  | some ep =>
    let ack := kvOf scen "ack" == some "1"
    if obs.head? == some "PANIC" then "spec-fail all_complete" else
    match kvOf scen "stress" with
    | some sp => judgeStress sp obs
    | none =>
      match kvOf scen "calls" with
      | some cs => judgeSched ep ack (cs.splitOn ",") obs (kvOf scen "fault")
      | none => "bad-scenario"

end SpecDrv.Locks
