import VhostModel.Spec.Frontend
import VhostModel.SpecDrv.Srv
/-!
spec driver family `fe`: judge what the frontend endpoint did.
 * mode=peer: request bytes and descriptors (C01), local refusals leave the wire untouched (C02, C07),
   only a conforming reply is accepted and the returned value is the decoded one (C06);
 * mode=srv : the handler is invoked exactly once with the caller's arguments and files (C02), the call returns
   what the handler produced, resp. an error in bounded time when it failed (C03).
-/
namespace SpecDrv.Fe
open Base Spec Spec.Frontend
open SpecDrv.Srv (kvOf splitBar parseHOut parseCall ObsCall)

def pn (s : String) : Nat := (natOfHex? s).getD 0
def hx (n : Nat) : String := hexOfNat n
def bytesHex (b : Bytes) : String := if b.isEmpty then "-" else hexOfBytes b

def parseOp (toks0 : List String) (next : Nat) : Op × Nat :=
  let toks := toks0.filter (fun t => !t.startsWith "h=" && !t.startsWith "r=" && t != "then-close")
  match toks with
  | ["set_backend_req_fd"] => ({ name := "set_backend_req_fd", fds := [0] }, next)
  | ["set_log_fd"] => ({ name := "set_log_fd", fds := [next] }, next + 1)
  | ["set_mem_table", spec] =>
    if spec == "-" then ({ name := "set_mem_table" }, next) else
    let regs := (spec.splitOn ";").map fun r =>
      match r.splitOn "," with
      | [g, s, u, o] => (pn g, pn s, pn u, pn o, true)
      | [g, s, u, o, _] => (pn g, pn s, pn u, pn o, false)
      | _ => (0, 0, 0, 0, false)
    let rec ids : List (Nat × Nat × Nat × Nat × Bool) → Nat → List Nat
      | [], _ => []
      | r :: rest, k => if r.2.2.2.2 then k :: ids rest (k + 1) else ids rest k
    ({ name := "set_mem_table", regions := regs, fds := ids regs next }, next + (regs.filter (·.2.2.2.2)).length)
  | ["set_log_base", base, reg] =>
    if reg == "-" then ({ name := "set_log_base", a := [pn base] }, next) else
    (match reg.splitOn "," with
     | [sz, off] => ({ name := "set_log_base", a := [pn base, pn sz, pn off], fds := [next] }, next + 1)
     | _ => ({ name := "set_log_base", a := [pn base] }, next))
  | ["set_vring_addr", q, fl, d, u, a, lg] =>
    ({ name := "set_vring_addr", a := [pn q, pn fl, pn d, pn u, pn a, if lg == "-" then 0 else pn lg] }, next)
  | [nm, q] =>
    if nm == "set_vring_call" || nm == "set_vring_kick" || nm == "set_vring_err" then ({ name := nm, a := [pn q], fds := [next] }, next + 1)
    else ({ name := nm, a := [pn q] }, next)
  | ["set_config", off, fl, buf] =>
    ({ name := "set_config", a := [pn off, pn fl], payload := (if buf == "-" then some [] else bytesOfHex? buf).getD [] }, next)
  | ["get_config", off, sz, fl, blen] =>
    ({ name := "get_config", a := [pn off, pn sz, pn fl, pn blen], payload := List.replicate (pn blen) 0 }, next)
  | ["set_inflight_fd", ms, mo, nq, qs] => ({ name := "set_inflight_fd", a := [pn ms, pn mo, pn nq, pn qs], fds := [next] }, next + 1)
  | ["set_inflight_fd", ms, mo, nq, qs, _] => ({ name := "set_inflight_fd", a := [pn ms, pn mo, pn nq, pn qs], bad := true }, next)
  | ["add_mem_region", g, s, u, o] => ({ name := "add_mem_region", a := [pn g, pn s, pn u, pn o], fds := [next] }, next + 1)
  | ["add_mem_region", g, s, u, o, _] => ({ name := "add_mem_region", a := [pn g, pn s, pn u, pn o], bad := true }, next)
  | ["set_device_state_fd", d, _] => ({ name := "set_device_state_fd", a := [pn d, 0], fds := [next] }, next + 1)
  | nm :: args => ({ name := nm, a := args.map pn }, next)
  | [] => ({ name := "?" }, next)

/-- expected `ret=` text for a conforming, exactly sized reply `bytes` (with `nfds`) to `op`; `none` = not decided here -/
def expectedRet (op : Op) (w : Wire) (bytes : Bytes) (nfds : Nat) (same : String) : Option String :=
  let body := bytes.drop 12
  let v := leVal (body.take 8)
  match w.reply with
  | .none => some "ok"
  | .ack => some (if v == 0 then "ok" else "err")
  | .u64 =>
    (match op.name with
     | "get_features" | "get_max_mem_slots" => some s!"ok:{hx v}"
     | "get_protocol_features" => some s!"ok:{hx (v &&& (2^22 - 1))}"
     | "get_queue_num" => if v ≤ 0x8000 then some s!"ok:{hx v}" else none
     | "check_device_state" => some (if v == 0 then "ok" else "err")
     | _ => none)
  | .vringState => some s!"ok:{hx (Proto.fld body "VhostUserVringState" ["num"])}"
  | .config =>
    let off := Proto.fld body "VhostUserConfig" ["offset"]; let sz := Proto.fld body "VhostUserConfig" ["size"]
    let fl := Proto.fld body "VhostUserConfig" ["flags"]
    (match op.a with
     | [roff, rsz, _, _] =>
       if sz != rsz || off != roff || body.length != 12 + sz then some "err"
       else some s!"ok:{hx off},{hx sz},{hx fl}:{bytesHex (body.drop 12)}"
     | _ => none)
  | .log => some "ok"
  | .inflightFd =>
    some s!"ok:{hx (Proto.fld body "VhostUserInflight" ["mmap_size"])},{hx (Proto.fld body "VhostUserInflight" ["mmap_offset"])},{hx (Proto.fld body "VhostUserInflight" ["num_queues"])},{hx (Proto.fld body "VhostUserInflight" ["queue_size"])}:F={same}"
  | .emptyFd => some s!"ok:F={same}"
  | .u64OptFd =>
    if v == 0x100 && nfds == 0 then some "ok:none" else if v == 0 && nfds == 1 then some s!"ok:F={same}" else some "err"
  | .shmem =>
    let sizes := (body.drop 8).take 2048
    let stripped := (sizes.reverse.dropWhile (· == 0)).reverse
    some s!"ok:{hx (Proto.fld body "VhostUserShMemConfig" ["nregions"])}:{bytesHex stripped}"

def retMatches (exp : String) (ret : String) : Bool :=
  if exp == "err" then ret.startsWith "err." else ret == exp

/-- total size of a conforming reply (fixed body, plus the declared payload for config) -/
def exactReplyLen (w : Wire) (bytes : Bytes) : Nat :=
  match w.reply with
  | .config => 12 + 12 + Proto.fld ((bytes.drop 12).take 12) "VhostUserConfig" ["size"]
  | r => 12 + replyBodySize r

structure J where
  n : FNeg
  bneg : Proto.Neg := {}     -- what the backend side saw (srv mode)
  next : Nat := 1
  alive : Bool := true
  clean : Bool := true
  err : Option String := none
  idx : Nat := 0

def retOkVal (ret : String) : Option Nat :=
  if ret.startsWith "ok:" then natOfHex? ((ret.drop 3).toString) else none

def stepJ (srvMode : Bool) (j : J) (sc : List String × List String) : J :=
  if j.err.isSome then j else
  let (st, ob) := sc
  let ret := (kvOf ob "ret").getD "?"
  let j1 := { j with idx := j.idx + 1 }
  let fail (e : String) : J := { j1 with err := some s!"{e} step={j.idx}" }
  match st with
  -- the version bits of the flag word the caller hands in (VhostUserHeaderFlag::VERSION = 3) never reach the wire: a header
  -- always carries version 1; only NEED_REPLY (bit 3) is taken over. Other bits (REPLY, reserved) are the caller's error.
  | ["set_hdr_flags", v] => { j1 with n := { j.n with needReply := (pn v).testBit 3 },
                                      clean := j.clean && ((pn v) &&& 0xfffffff4 == 0) }
  | _ =>
  if ret == "skipped" || ret == "?" then j1 else
  let (op, next') := parseOp st j.next
  let j1 := { j1 with next := next' }
  let isGate := (match gateBit op.name with | some b => !proto j.n b | none => false) ||
    ((op.name == "get_protocol_features" || op.name == "set_protocol_features") && !j.n.offered.testBit 30) ||
    (op.name == "set_vring_enable" && !j.n.acked.testBit 30)
  if !j.alive || !j.clean then
    -- the connection is gone / the stream is out of step: only "a refused call stays refused" is judged
    j1
  else
  match classify j.n op with
  | .unspecified => { j1 with clean := false }
  | .reject =>
    let touched := if srvMode then (kvOf ob "c").getD "-" != "-" else (kvOf ob "w").getD "-" != "-"
    if touched then fail (if isGate then "C07-frontend-gate-touched-wire" else "C02-local-reject-touched-wire")
    else if !ret.startsWith "err." then fail (if isGate then "C07-frontend-gate-not-refused" else "C02-local-reject-not-refused")
    else j1
  | .send w =>
    let n' := updateNeg j.n op (retOkVal ret)
    -- a device whose feature set changes within one connection (VHOST_USER_F_PROTOCOL_FEATURES appearing or
    -- disappearing after protocol features were acknowledged) is outside what the properties quantify over
    let flip := op.name == "get_features" && j.n.ackedProto != 0 && (n'.offered.testBit 30 != j.n.offered.testBit 30)
    let j1 := if flip then { j1 with clean := false } else j1
    if !srvMode then
      -- C01: request bytes and descriptors
      let wobs := (kvOf ob "w").getD "-"
      let wf := (kvOf ob "wf").getD "-"
      let expW := bytesHex (encode j.n w)
      let expF := if w.fds.isEmpty then "-" else ",".intercalate (w.fds.map toString)
      if wobs != expW then fail "C01-request-bytes-differ"
      else if wf != expF then fail "C01-request-descriptors-differ"
      else
        let rs := (kvOf st "r").getD "-"
        let aw := awaits j.n op w
        if rs == "close" then
          if aw && !ret.startsWith "err." then fail "C03-no-error-after-close" else { j1 with alive := false, n := n' }
        else if rs == "-" then
          if aw then { j1 with alive := false, n := n' }   -- the peer stays silent: the call legitimately waits
          else if ret.startsWith "ok" then { j1 with n := n' } else fail "C06-no-reply-needed-but-failed"
        else
          let (hexs, k) := match rs.splitOn "/" with | [a, b] => (a, b.toNat?.getD 0) | _ => (rs, 0)
          let bytes := (bytesOfHex? hexs).getD []
          let closing := st.contains "then-close"
          if !aw then { j1 with clean := false, n := n' }   -- unsolicited bytes stay in the stream
          else if !replyConforms w bytes k then
            if ret.startsWith "ok" then fail "C06-accepted-nonconforming-reply"
            else { j1 with clean := false, alive := !closing, n := j.n }
          else if closing && bytes.length < exactReplyLen w bytes then
            -- C08: the stream ends inside the reply (fewer bytes than the reply needs, then the peer closes): an error
            if ret.startsWith "ok" then fail "C08-truncated-reply-accepted"
            else { j1 with clean := false, alive := false, n := j.n }
          else if bytes.length != exactReplyLen w bytes || leVal ((bytes.drop 8).take 4) + 12 != bytes.length then
            -- conforming but with missing/extra bytes (size field or tail): recorded limit, not judged
            { j1 with clean := false, alive := !closing, n := n' }
          else match expectedRet op w bytes k "unknown" with
            | some e => if retMatches e ret then { j1 with alive := !closing, n := n' } else fail "C06-returned-value-differs"
            | none => { j1 with alive := !closing, n := n' }
    else
      -- srv mode: C02 / C03 through the real request server
      let h := parseHOut ((kvOf st "h").getD "ok")
      let cobs := (kvOf ob "c").getD "-"
      let req : Proto.Req := ⟨w.code, reqFlags j.n, w.body.length, w.body, w.fds.length⟩
      let bcls := Proto.classify j.bneg req
      -- two API forms can never reach a handler, whatever was negotiated: SET_LOG_FD has no arm in the request server
      -- and no handler method; SET_LOG_BASE without a region is sent as a bare u64, which the server refuses
      if w.code == 7 && cobs == "-" then fail "C02-set_log_fd-has-no-handler" else
      if w.code == 6 && w.fds.isEmpty && cobs == "-" then fail "C02-set_log_base-without-region-not-delivered" else
      if bcls != .accept then { j1 with clean := false } else
      let (nm, args, pl, usesFiles) := Proto.expectedCall req
      let expFds : List String :=
        if nm == "set_backend_req_fd" then ["*"] else if usesFiles then w.fds.map toString else []
      let calls := if cobs == "-" then some [] else (cobs.splitOn ";").mapM parseCall
      match calls with
      | none => fail "unparsable-calls"
      | some [c] =>
        if c.name != nm || c.args != args || c.payload != pl then fail "C02-handler-arguments-differ"
        else if c.fds != expFds then fail "C02-handler-files-differ"
        else
          let aw := awaits j.n op w
          let hp : Proto.HOut := ⟨h.ok, h.v, h.b, h.file⟩
          let bneg' := Proto.updateNeg j.bneg req hp
          -- expected result
          let usable : Bool := h.ok && (op.name != "get_config" || (match op.a with | [_, sz, _, _] => h.b.length == sz | _ => false))
          let infallible := op.name == "set_backend_req_fd"
          if usable || infallible then
            -- the reply the backend owes, decoded by the frontend
            let expRet : Option String :=
              match Proto.owed j.bneg req hp with
              | .exact payload k => expectedRet op w (List.replicate 12 0 ++ payload) k "same"
              | .ack _ | .nothing => some "ok"
              | .status _ _ => none
            match expRet with
            | some e => if retMatches e ret then { j1 with n := n', bneg := bneg' } else fail "C03-result-differs-from-handler"
            | none => { j1 with n := n', bneg := bneg' }
          else
            -- the handler failed (or produced an unusable result)
            if aw then
              if ret.startsWith "ok" then fail "C03-failure-reported-as-success"
              else if ret == "blocked" then fail "C03-failure-blocks-caller"
              else { j1 with alive := op.name == "get_config" && h.ok, n := j.n, bneg := bneg', clean := false }
            else
              if ret.startsWith "ok" then { j1 with alive := false, n := n', bneg := bneg' } else fail "C03-unawaited-call-failed"
      | some [] => fail "C02-handler-not-invoked"
      | some _ => fail "C02-handler-invoked-more-than-once"

def run (toks : List String) : String :=
  match toks with
  | "fe" :: rest =>
    let (scen, obs) := (rest.takeWhile (· != "=>"), (rest.dropWhile (· != "=>")).drop 1)
    if obs.head? == some "PANIC" then "spec-fail C06-panic " ++ " ".intercalate (obs.take 12) else
    match splitBar scen with
    | head :: ops =>
      let os0 := splitBar obs
      -- the last item is the descriptor-leak report (C09)
      match os0.getLast? with
      | some [l] =>
      if !l.startsWith "L=" then "spec-fail observation-shape" else
      if l != "L=-" then "spec-fail C09-descriptor-leak " ++ l else
      let os := os0.dropLast
      if os.any (fun o => (kvOf o "lc").getD "0" != "0") then "spec-fail C09-lent-descriptor-closed" else
      if ops.length != os.length then "spec-fail observation-shape" else
      let srvMode := (kvOf head "mode").getD "srv" == "srv"
      let j := (ops.zip os).foldl (stepJ srvMode) { n := { maxQ := pn ((kvOf head "mq").getD "2") } }
      (match j.err with | some e => "spec-fail " ++ e | none => "spec-ok")
      | _ => "spec-fail observation-shape"
    | [] => "bad-line"
  | _ => "bad-line"

end SpecDrv.Fe
