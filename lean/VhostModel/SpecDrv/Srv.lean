import VhostModel.Spec.Proto
/-!
spec driver family `srv`: judge what the backend request server did (`scenario => observation`)
against properties C04 (replies as prescribed), C05 (handler only sees valid arguments; malformed input
is refused) and C07 (gated requests refused before negotiation).
-/
namespace SpecDrv.Srv
open Base Spec Spec.Proto

def kvOf (toks : List String) (key : String) : Option String :=
  toks.findSome? fun t => if t.startsWith (key ++ "=") then some (t.drop (key.length + 1)).toString else none

def parseHOut (s : String) : HOut :=
  let parts := s.splitOn ","
  let get (k : String) : Option String :=
    parts.findSome? fun t => if t.startsWith (k ++ "=") then some (t.drop (k.length + 1)).toString else none
  { ok := parts.head? == some "ok",
    v := ((get "v").bind natOfHex?).getD 0,
    b := ((get "b").bind fun x => if x == "-" then some [] else bytesOfHex? x).getD [],
    file := (get "f") != some "0" }

def splitBar (toks : List String) : List (List String) :=
  let rec go : List String → List String → List (List String) → List (List String)
    | [], cur, acc => (if cur.isEmpty then acc else acc ++ [cur])
    | "|" :: rest, cur, acc => go rest [] (if cur.isEmpty then acc else acc ++ [cur])
    | t :: rest, cur, acc => go rest (cur ++ [t]) acc
  go toks [] []

structure ObsCall where
  name : String
  args : List Nat
  payload : Bytes
  fds : List String
  deriving Repr, BEq

def parseCall (s : String) : Option ObsCall :=
  match s.splitOn ":" with
  | [nm, a, p, f] =>
    let args := if a == "-" then some [] else (a.splitOn ",").mapM natOfHex?
    let pl := if p == "-" then some [] else bytesOfHex? p
    let fds := if f == "-" then [] else f.splitOn ","
    match args, pl with
    | some args, some pl => some ⟨nm, args, pl, fds⟩
    | _, _ => none
  | _ => none

structure ObsStep where
  r : String
  calls : Option (List ObsCall)
  out : Option Bytes
  n : Nat

def parseObs (toks : List String) : Option ObsStep := do
  let r ← kvOf toks "r"
  let c ← kvOf toks "c"
  let o ← kvOf toks "o"
  let n ← (kvOf toks "n").bind String.toNat?
  let calls := if c == "-" then some [] else (c.splitOn ";").mapM parseCall
  let out := if o == "-" then some [] else bytesOfHex? o
  pure ⟨r, calls, out, n⟩

def hdrOf (bytes : Bytes) : Nat × Nat × Nat :=
  (leVal (bytes.take 4), leVal ((bytes.drop 4).take 4), leVal ((bytes.drop 8).take 4))

/-- judge one aligned step; returns an error text or none -/
def judge (n : Neg) (req : Req) (h : HOut) (fdIds : List String) (o : ObsStep) : Option String :=
  match o.calls, o.out with
  | none, _ => some "unparsable-calls"
  | _, none => some "unparsable-out"
  | some calls, some out =>
  -- C05 (always): whatever the handler saw satisfies the protocol's validity rules
  if !(calls.all fun c => validCall c.name c.args c.payload c.fds.length) then some "C05-handler-args-invalid" else
  match classify n req with
  | .unspecified => none
  | .reject =>
    if !calls.isEmpty then
      (if !decide (validHeader frontendCodes req.code req.flags req.size) then some "C05-invalid-header-dispatched"
       else if !gateOk n req.code then some "C07-gated-request-reached-handler"
       else some "C05-invalid-request-reached-handler")
    else if o.r == "ok" then some "C05-invalid-request-not-refused"
    else none
  | .accept =>
    let (nm, args, pl, usesFiles) := expectedCall req
    let expFds : List String :=
      if nm == "set_backend_req_fd" || nm == "set_gpu_socket" then ["*"] else if usesFiles then fdIds else []
    match calls with
    | [c] =>
      if c.name != nm || c.args != args || c.payload != pl then some "C04-handler-call-differs"
      else if c.fds != expFds then some "C04-handler-files-differ"
      else
        -- what is on the wire
        let hdrOk (sz : Nat) : Bool :=
          out.length == 12 + sz && hdrOf out == (req.code, 5, sz)
        match owed n req h with
        | .nothing => if out.isEmpty && o.n == 0 then none else some "C04-unexpected-reply"
        | .exact payload k =>
          if hdrOk payload.length && out.drop 12 == payload && o.n == k then none else some "C04-reply-differs"
        | .ack zero =>
          if hdrOk 8 && o.n == 0 && ((leVal (out.drop 12) == 0) == zero) then none else some "C04-ack-differs"
        | .status okBits k =>
          if hdrOk 8 && o.n == k && (((leVal (out.drop 12)) % 256 == 0) == okBits) then none else some "C04-status-differs"
    | [] => some "C04-handler-not-invoked"
    | _ => some "C04-handler-invoked-more-than-once"

structure J where
  neg : Neg := {}
  nextId : Nat := 1
  alignedSoFar : Bool := true
  carry : Bytes := []            -- bytes of the next request that were written together with the previous one
  err : Option String := none
  idx : Nat := 0

def stepJ (j : J) (sc : List String × List String) : J :=
  if j.err.isSome then j else
  let (st, ob) := sc
  match st with
  | "m" :: hex :: fn :: rest =>
    -- however the transport splits the message (`+`), it is the same message (C08)
    let own := ((hex.splitOn "+").map fun x => (if x == "-" then some [] else bytesOfHex? x).getD []).flatten
    -- a step that writes nothing serves what an earlier step left queued; anything else on top of queued bytes is not followed
    let j := if !j.carry.isEmpty && !own.isEmpty then { j with alignedSoFar := false, carry := [] } else j
    let all := j.carry ++ own
    -- one `handle_request` consumes one message: with a valid header, what lies beyond header + declared size stays queued
    let msgLen : Nat :=
      if all.length ≥ 12 && decide (validHeader frontendCodes (leVal (all.take 4)) (leVal ((all.drop 4).take 4)) (leVal ((all.drop 8).take 4)))
      then 12 + leVal ((all.drop 8).take 4) else all.length
    let bytes := all.take msgLen
    let j := { j with carry := if j.alignedSoFar then all.drop msgLen else [] }
    let nf := (fn.drop 1).toString.toNat?.getD 0
    let ids := (List.range nf).map fun i => toString (i + j.nextId)
    let h := parseHOut ((kvOf rest "h").getD "ok")
    -- `bf<n>`: descriptors attached to the last segment, i.e. not to the first byte of the message
    let nb := if (hex.splitOn "+").length > 1 then
      ((rest.find? (·.startsWith "bf")).bind fun t => (t.drop 2).toString.toNat?).getD 0 else 0
    let j' := { j with nextId := j.nextId + nf + nb, idx := j.idx + 1 }
    match parseObs ob with
    | none => if ob == ["L=-"] then j' else { j' with err := some s!"unparsable-observation step={j.idx}" }
    | some o =>
      if o.r == "skipped" then j' else
      -- C05 for every step, aligned or not
      let callsOk := match o.calls with
        | some cs => cs.all fun c => validCall c.name c.args c.payload c.fds.length
        | none => false
      if !callsOk then { j' with err := some s!"C05-handler-args-invalid step={j.idx}" } else
      -- C08: the stream ends inside a message ⇒ an error (a clean `disconnected` only at a message boundary), no dispatch
      let rst := rest.contains "rst"
      let closing := rest.contains "close" || rst
      let truncated := closing && j.alignedSoFar &&
        (bytes.length < 12 || bytes.length < 12 + leVal ((bytes.drop 8).take 4)) &&
        (bytes.length < 12 || decide (validHeader frontendCodes (leVal (bytes.take 4)) (leVal ((bytes.drop 4).take 4)) (leVal ((bytes.drop 8).take 4))))
      if truncated && nf ≤ 32 then
        if !(o.calls == some []) then { j' with err := some s!"C08-partial-request-dispatched step={j.idx}" }
        else if !o.r.startsWith "err." then { j' with err := some s!"C08-truncation-not-an-error step={j.idx}" }
        else if bytes.length > 0 && o.r == "err.disconnected" then { j' with err := some s!"C08-disconnected-mid-message step={j.idx}" }
        else { j' with alignedSoFar := false }
      else
      -- after `rst` what the server wrote is not observable: only the truncation clause above and the handler-argument clause apply
      if rst then { j' with alignedSoFar := false } else
      if !j.alignedSoFar || bytes.length < 12 then { j' with alignedSoFar := false } else
      let (code, flags, size) := hdrOf bytes
      let req : Req := ⟨code, flags, size, bytes.drop 12, nf + nb⟩
      -- descriptors in the middle of a message: the request carries nf+nb descriptors; when that is a valid count for
      -- it the outcome is not specified (they are not where the protocol puts them), otherwise it must be refused
      if nb > 0 && classify j.neg req != .reject then { j' with alignedSoFar := false } else
      match judge j.neg req h ids o with
      | some e => { j' with err := some s!"{e} step={j.idx}" }
      | none =>
        let al := aligned req && nb == 0 && nf ≤ 32 && (nf == 0 || req.size == 0 || [5, 13, 12, 14, 6, 7, 21, 32, 37, 42, 33].contains code)
        let neg' := if classify j.neg req == .accept then updateNeg j.neg req h else j.neg
        -- a request the Spec does not classify as accepted may still have changed the server's state: stop judging C04/C07
        let stillKnown := classify j.neg req != .unspecified || ![1, 2, 16].contains code
        { j' with neg := neg', alignedSoFar := al && stillKnown }
  | _ => { j with err := some "bad-step" }

def run (toks : List String) : String :=
  match toks with
  | "srv" :: rest =>
    let (scen, obs) := (rest.takeWhile (· != "=>"), (rest.dropWhile (· != "=>")).drop 1)
    if obs.head? == some "PANIC" then "spec-fail C05-panic " ++ " ".intercalate (obs.take 12) else
    let ss := splitBar scen
    let os := splitBar obs
    -- the last observation item is the leak report
    match os.getLast? with
    | some ["L=-"] =>
      if ss.length + 1 != os.length then "spec-fail observation-shape" else
      let j := (ss.zip os).foldl stepJ {}
      match j.err with
      | some e => "spec-fail " ++ e
      | none => "spec-ok"
    | some l => "spec-fail C09-descriptor-leak " ++ " ".intercalate l
    | none => "spec-fail observation-shape"
  | _ => "bad-line"

end SpecDrv.Srv
