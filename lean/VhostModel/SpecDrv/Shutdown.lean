import VhostModel.DrvUtil
import VhostModel.Spec.Shutdown
/-!
spec driver family `shutdown` (C16): the property's verdict on what the implementation was observed to do.

Input `scenario => observation` (formats: `harness/src/fam_shutdown.rs`).  From the *script* alone — what the peer
wrote, read and when it closed; which shutdown requests were issued and whether one had returned before `wait()`
was called — the driver derives the hypotheses of `Spec.Shutdown` (it uses nothing of the model):

* `completed`: an event `s<i>`, `g<i>`, `S<k>x<r>` or `q` precedes the call of `wait()` (the event `W`, or the end of
  the script);  `requested`: any of `s f g S q D` occurs at all;
* the reason the peer gave the daemon to stop serving (`cause`): a complete malformed / failing request in the written prefix ⇒
  `requestError`; else, if the peer closed while it was owed a reply it had not read (the reply of a complete
  reply-bearing request: 20 bytes each) ⇒ `socketError` (kernel reports `ECONNRESET`/`EPIPE`, recorded reading: no
  demand); else, if the peer closed ⇒ `Spec.Shutdown.endAt lens written`; else none.

Protocol facts used: header 12 bytes; GET_FEATURES (`gf`) has no body and a 20-byte reply; SET_FEATURES (`sf`) and
SET_VRING_NUM (`svn`) carry 8 bytes and have no reply without NEED_REPLY; `bad` is a 12-byte header with a wrong
protocol version; `svn` names a ring that does not exist (the handler must fail).
-/
namespace SpecDrv.Shutdown
open DrvUtil Spec.Shutdown

def lenOf : String → Option Nat
  | "gf" => some 12 | "sf" => some 20 | "svn" => some 20 | "bad" => some 12 | _ => none

def isErrKind (k : String) : Bool := k == "svn" || k == "bad"
def replyOf (k : String) : Nat := if k == "gf" then 20 else 0

structure Facts where
  completed : Bool := false
  requested : Bool := false
  waitCalled : Bool := false
  dropped : Bool := false
  written : Nat := 0
  read : Nat := 0
  closedAt : Option Nat := none      -- bytes written when the peer closed
  readAtClose : Nat := 0
  parked : List String := []         -- callers sitting between their two steps (`f<i>` without `g<i>` yet)

def listOf (toks : List String) (key : String) (sep : String) : List String :=
  match kv toks key with
  | none => []
  | some v => (v.splitOn sep).filter fun x => x ≠ "" ∧ x ≠ "-"

/-- bytes read by the `pr` events, from the snapshots `pr:<d><w>/<n>` -/
def prReads (snaps : List String) : List Nat :=
  snaps.filterMap fun sn =>
    if sn.startsWith "pr:" then
      match sn.splitOn "/" with
      | [_, n] => hex? n
      | _ => none
    else none

def scan (total : Nat) : List String → List Nat → Facts → Facts
  | [], _, f => f
  | ev :: evs, prs, f =>
    match ev.toList with
    | 'w' :: a =>
      let n := if a == ['a'] then total else (hex? (String.ofList a)).getD 0
      if f.closedAt.isSome then scan total evs prs f
      else scan total evs prs { f with written := min total (f.written + n) }
    | ['p', 'r'] =>
      match prs with
      | n :: rest => scan total evs rest { f with read := f.read + n }
      | [] => scan total evs [] f
    | ['p', 'c'] =>
      if f.closedAt.isSome then scan total evs prs f
      else scan total evs prs { f with closedAt := some f.written, readAtClose := f.read }
    | 's' :: i =>
      -- caller i is one thread: the event is ignored while it sits between its two steps
      if f.parked.contains (String.ofList i) then scan total evs prs f
      else scan total evs prs { f with requested := true, completed := f.completed || !f.waitCalled }
    | 'g' :: i =>
      if f.parked.contains (String.ofList i) then
        scan total evs prs { f with parked := f.parked.erase (String.ofList i),
                                    completed := f.completed || !f.waitCalled }
      else scan total evs prs f
    | 'S' :: _ => scan total evs prs { f with requested := true, completed := f.completed || !f.waitCalled }
    | ['q'] =>
      -- `request_shutdown()` needs the daemon object, which is inside `wait()` after `W` (event ignored then)
      if f.waitCalled then scan total evs prs f
      else scan total evs prs { f with requested := true, completed := true }
    | 'f' :: i =>
      if f.parked.contains (String.ofList i) then scan total evs prs f
      else scan total evs prs { f with requested := true, parked := String.ofList i :: f.parked }
    | ['W'] => scan total evs prs { f with waitCalled := true }
    | ['D'] => if f.waitCalled then scan total evs prs f else scan total evs prs { f with requested := true, dropped := true }
    | _ => scan total evs prs f

/-- kinds of the requests that are complete within the first `written` bytes -/
def completeKinds : List String → Nat → List String
  | [], _ => []
  | k :: ks, written =>
    match lenOf k with
    | none => []
    | some l => if l ≤ written then k :: completeKinds ks (written - l) else []

/-- how serving ended (`none`: it does not end by itself) -/
def endOfScript (kinds : List String) (lens : List Nat) (f : Facts) : Option End :=
  let done := completeKinds kinds f.written
  if done.any isErrKind then some .requestError
  else match f.closedAt with
    | none => none
    | some off =>
      let owed := (done.map replyOf).foldl (· + ·) 0
      if f.readAtClose < owed then some .socketError else some (endAt lens off)

def outcomeOf (s : String) : Option Outcome :=
  if s == "ok" then some .ok
  else if s.startsWith "err" then some .err
  else if s == "blocked" then some .blocked
  else none

/-- `peer=<n>+eof|wb|closed|forced`: `some true` = end-of-stream seen, `some false` = would block, `none` = not observable -/
def peerEof (s : String) : Option Bool :=
  if s.endsWith "+eof" then some true else if s.endsWith "+wb" then some false else none

def checkDrop (ex : Bool) (obs : List String) : Option String :=
  match kv obs "drop", (kv obs "left").bind hex? with
  | some d, some left =>
    if d == "lost" then none
    else if dropDemand ex (d == "ok") left then none else some "drop-does-not-terminate-workers"
  | some _, none => none      -- `left=?`: the daemon object was lost in a call that never returned (reported there)
  | _, _ => some "unparsable-drop"

def run (toks : List String) : String :=
  let (scen, obs) := splitArrow toks
  let kinds := listOf scen "reqs" ","
  match kinds.mapM lenOf with
  | none => "bad-line"
  | some lens =>
    let total := lens.foldl (· + ·) 0
    let ex := kv scen "ex" != some "0"
    let snaps := listOf obs "st" ","
    let f := scan total (listOf scen "sched" ",") (prReads snaps) {}
    let e := endOfScript kinds lens f
    let peer := (kv obs "peer").getD "?"
    let fail (why : String) : String := "spec-fail " ++ why
    if (kv scen "m").getD "wait" == "serve" then
      match (kv obs "serve").bind outcomeOf with
      | none => "bad-observation"
      | some o =>
        let dem := match e with | some e => serveDemand e | none => Demand.free
        if !meets dem o then fail "serve-result"
        else if o != .blocked ∧ !(match (kv obs "exit") with
            | some x => (match x.splitOn "/" with
                | [a, b] => (match hex? a, hex? b with | some a, some b => exitDemand ex a b | _, _ => false)
                | _ => false)
            | none => false) then fail "exit-events-not-raised"
        else if o != .blocked ∧ peerEof peer == some false then fail "peer-no-eof"
        else match checkDrop ex obs with
          | some why => fail why
          | none => "spec-ok"
    else
      let w := (kv obs "wait").getD "?"
      if w == "none" then
        -- the daemon was dropped without wait(): the teardown clause applies, and dropping the daemon must shut the
        -- connection down: a daemon thread still blocked in recvmsg (`B`) after the drop was not woken
        if snaps.any (fun sn => sn.startsWith "D:B") then fail "drop-did-not-shut-connection" else
        match checkDrop ex obs with
        | some why => fail why
        | none => "spec-ok"
      else
      match outcomeOf w with
      | none => "bad-observation"
      | some o =>
        let dem : Demand := waitDemand f.completed f.requested e
        if !meets dem o then
          fail (if f.completed then "wait-after-shutdown" else if f.requested then "wait-during-shutdown"
                else "disconnect-not-reported")
        else if o == .blocked then
          (match checkDrop ex obs with | some why => fail why | none => "spec-ok")
        else if !(peerDemand true (if peerEof peer == some false then .wouldBlock else .eof)) then fail "peer-no-eof"
        else
          -- wait() returned: the daemon must be able to take a new connection
          let r : Option RestartObs :=
            match (kv obs "restart").map (·.splitOn "/") with
            | some [a, b, c] =>
              (outcomeOf c).map fun nw =>
                { handleGone := kv obs "hs" == some "0", secondWaitOk := kv obs "wait2" == some "ok",
                  startOk := a == "ok", served := b == "ok", newWait := nw }
            | _ => none
          match r with
          | none => "bad-observation"
          | some r =>
            if !r.handleGone then fail "connection-state-not-reset"
            else if !restartDemand r then fail "restart"
            else match checkDrop ex obs with
              | some why => fail why
              | none => "spec-ok"

end SpecDrv.Shutdown
