import VhostModel.DrvUtil
import VhostModel.DrvRing
import VhostModel.Spec.RingAutomaton
/-! spec driver family `ring`: the ring automaton's verdict on what the implementation was observed to do.

Per step the implementation must have acknowledged the message (`ok`, or the GET_VRING_BASE reply with the ring's
next-available index) and the set of rings whose handler was called during the step must be exactly the set the automaton
delivers (`Spec.RingAutomaton.deliver`): a missing call is `kick-not-delivered`, a call for a ring that is not started and
enabled is `dispatch-while-inactive`, any other extra call is `spurious-dispatch`.  A worker that stopped serving (`!`)
can deliver no later kick (`worker-stopped`), a worker that keeps calling the handler without a kick is
`dispatch-storm`.  Judging stops (verdict so far) where the history leaves the protocol's domain (decision D1). -/
namespace SpecDrv.Ring
open DrvUtil DrvRing Spec.RingAutomaton

/-- `t<t>e<e>q<q>` ↦ q -/
def dispatchRing (tok : String) : Option Nat :=
  match tok.splitOn "q" with
  | [_, q] => hex? q
  | _ => none

def sortNat (l : List Nat) : List Nat := l.mergeSort (· ≤ ·)

/-- verdict on one step: `none` = fine -/
def judge (s1 : St) (o : Out) (tok : String) : Option String :=
  match tok.splitOn "/" with
  | [rep, disp, cb] =>
    -- the call descriptors the rings hold (GET_VRING_BASE drops the ring's kick and call descriptors)
    let expCb := String.ofList ((List.range s1.n).map fun r => if (s1.ring r).call.isSome then '1' else '0')
    if cb != expCb && cb != "?" then some s!"call-descriptors-{cb}-expected-{expCb}" else
    let repOk := match o.reply with
      | .ok => rep == "ok"
      | .base _ v => rep == s!"b{hx v}"
      | .noReply => rep == "-"
    if !repOk then some s!"reply-{rep}" else
    if disp == "storm" then some "dispatch-storm" else
    if disp.endsWith "!" then some "worker-stopped" else
    let obs : Option (List Nat) := if disp == "-" then some [] else (disp.splitOn "+").mapM dispatchRing
    match obs with
    | none => some "unparsable-dispatch"
    | some obs =>
      let obs := sortNat obs
      let exp := sortNat o.dispatched
      if obs == exp then none else
      match exp.find? (fun r => !obs.contains r) with
      | some r => some s!"kick-not-delivered-{hx r}"
      | none =>
        match obs.find? (fun r => !exp.contains r) with
        | some r => if s1.active r then some s!"spurious-dispatch-{hx r}" else some s!"dispatch-while-inactive-{hx r}"
        | none => some "duplicate-dispatch"
  | _ => some "unparsable"

/-- `s1` = the automaton's state after the step's control effect and delivery (activity is judged there) -/
def go (s : St) (sent : Sent) : List (List String) → List String → String
  | [], [] => "spec-ok"
  | [], _ => "spec-fail extra-observations"
  | _ :: _, [] => "spec-fail steps-not-all-observed"
  | op :: ops, tok :: toks =>
    match opMsg sent s.next op with
    | none => "bad-line"
    | some (m, sent') =>
      match step s m with
      | none => "spec-ok"          -- outside the protocol's domain from here on (D1)
      | some (s', o) =>
        match judge s' o tok with
        | some why => s!"spec-fail {why}"
        | none => go s' sent' ops toks

def run (toks : List String) : String :=
  let (scen, obs) := splitArrow toks
  let (head, ops) := splitOps scen
  let n := (kvHex head "q").getD 2
  match obs with
  | ["-"] => if ops.isEmpty then "spec-ok" else "spec-fail steps-not-all-observed"
  | _ => go (init n baseOf) (fun _ => []) ops obs
end SpecDrv.Ring
