import VhostModel.DrvUtil
import VhostModel.Spec.MemTable
/-! spec driver family `mem`: the property's verdict (C13) on what the implementation did.

Walks the scenario's operations and the observation tokens side by side, keeping only what the *property* defines: the
table as the fold of the operations the implementation reported successful (`Spec.MemTable.foldSuccesses`), and the file
contents (the harness' fill pattern plus the writes of the scenario).  Clauses:

* `table-not-fold`            the daemon's table after an operation is not the fold of the successes (covers "a failed
                              update leaves the previous table intact")
* `shown-table` / `notification-count`   the backend was not notified exactly once per successful change with the new table
* `no-answer`                 a request got neither an answer nor a closed connection
* `byte-not-backed`           a byte read through the table is not the byte of the region's file at offset + distance,
                              an address in no region was served, or an address inside a region was refused
* `write-wrong-cell`          a write through the table did not change exactly the file cell of the property
* `translate-wrong`           SET_VRING_ADDR succeeded but an installed guest address is not `gpa + (va - uaddr)` of a
                              region whose user range contains `va`
* `translate-rejected`        SET_VRING_ADDR failed although every address lies in exactly one current region, every
                              translated address is suitably aligned and the used index is readable -/
namespace SpecDrv.Mem
open DrvUtil Spec.MemTable

structure FileSpec where
  mappable : Bool
  isFile : Bool
  len : Nat

def parseFile (s : String) : Option FileSpec :=
  if s == "e" then some ⟨false, false, 0⟩ else
  match s.toList with
  | 'f' :: rest => (hex? (String.ofList rest)).map fun l => ⟨true, true, l⟩
  | 'r' :: rest => (hex? (String.ofList rest)).map fun l => ⟨false, true, l⟩
  | _ => none

/-- fill pattern of the harness (scenario data, not implementation data) -/
def pattern (f o : Nat) : Nat :=
  (o * 131 + o / 256 * 17 + o / 4096 * 29 + o / 65536 * 3 + o / 16777216 * 7 + o / 4294967296 * 13 + f * 73 + 11) % 256

structure St where
  table : List Region := []
  files : List FileSpec
  /-- cells written by the scenario, newest first -/
  written : List (Nat × Nat × Nat) := []
  anySuccess : Bool := false

def St.cell (st : St) (f o : Nat) : Nat :=
  match st.written.find? (fun c => c.1 == f && c.2.1 == o) with
  | some c => c.2.2
  | none => pattern f o

def parseReq (s : String) : Option Req :=
  match (s.splitOn "/").mapM hex? with
  | some [g, sz, u, o, f] => some ⟨g, sz, u, o, f, true⟩
  | some [g, sz, u, o] => some ⟨g, sz, u, o, 0, true⟩
  | _ => none

abbrev Row := Nat × Nat × Nat × Nat

def rowLe (a b : Row) : Bool :=
  a.1 < b.1 || (a.1 == b.1 && (a.2.1 < b.2.1 || (a.2.1 == b.2.1 && (a.2.2.1 < b.2.2.1 || (a.2.2.1 == b.2.2.1 && a.2.2.2 ≤ b.2.2.2)))))

def insertRow (r : Row) : List Row → List Row
  | [] => [r]
  | x :: xs => if rowLe r x then r :: x :: xs else x :: insertRow r xs

def sortRows (l : List Row) : List Row := l.foldr insertRow []

/-- `gpa/size/file/offset,..` -/
def parseTable (s : String) : Option (List Row) :=
  if s == "-" then some [] else
  (s.splitOn ",").mapM fun x =>
    match (x.splitOn "/").mapM hex? with
    | some [g, sz, f, o] => some (g, sz, f, o)
    | _ => none

def tableRows (t : List Region) : List Row := t.map fun r => (r.gpa, r.size, r.fid, r.off)

def sameTable (obs : String) (t : List Region) : Bool :=
  match parseTable obs with
  | some rows => sortRows rows == sortRows (tableRows t)
  | none => false

/-- a table update: `kind:ack:u<k>:shown:cur` -/
def checkUpdate (st : St) (op : Op) (parts : List String) : St × Option String :=
  match parts with
  | [ack, k, shown, cur] =>
    if ack != "ok" && ack != "fail" && ack != "closed" then (st, some "no-answer") else
    let ok := ack == "ok"
    let t' := foldSuccesses st.table [(op, ok)]
    let st' := { st with table := t', anySuccess := st.anySuccess || ok }
    if !sameTable cur t' then (st', some (if ok then "table-not-fold" else "table-not-fold-failed-update-changed-table")) else
    if k != (if ok then "u1" else "u0") then (st', some "notification-count") else
    if ok then (if sameTable shown t' then (st', none) else (st', some "shown-table"))
    else (if shown == "-" then (st', none) else (st', some "shown-table"))
  | _ => (st, some "unparsable")

/-- the used index (two bytes at `a`) lies inside one region of the table, 2-aligned relative to its start -/
def u16Readable (t : List Region) (a : Nat) : Bool :=
  t.any fun r => decide (r.gpa ≤ a) && decide (a + 2 ≤ r.gpa + r.size) && (a - r.gpa) % 2 == 0

def checkTok (st : St) (op obs : String) : St × Option String :=
  match op.splitOn ":", obs.splitOn ":" with
  | ["mt", rest], "mt" :: parts =>
    match (rest.splitOn ",").mapM parseReq with
    | some rs => checkUpdate st (.setTable rs) parts
    | none => (st, some "unparsable")
  | ["add", rest], "add" :: parts =>
    match parseReq rest with
    | some r => checkUpdate st (.add r) parts
    | none => (st, some "unparsable")
  | ["rem", rest], "rem" :: parts =>
    match parseReq rest with
    | some r => checkUpdate st (.remove r.gpa r.size) parts
    | none => (st, some "unparsable")
  | ["rd", g], ["rd", v] =>
    match hex? g with
    | none => (st, some "unparsable")
    | some g =>
      let cands := backings st.table g
      if v == "nosnap" then (st, if st.anySuccess then some "byte-not-backed-no-snapshot" else none)
      else if v == "err" then (st, if cands.isEmpty then none else some "byte-not-backed-refused")
      else if v == "unbacked" then
        (st, if cands.any (fun c => match st.files[c.1]? with | some f => !f.isFile || c.2 ≥ f.len | none => true) then none
             else some "byte-not-backed")
      else match hex? v with
        | none => (st, some s!"byte-not-backed-{v}")
        | some b => (st, if cands.any (fun c => st.cell c.1 c.2 == b) then none else some "byte-not-backed")
  | ["wr", g], "wr" :: rest =>
    match hex? g with
    | none => (st, some "unparsable")
    | some g =>
      let cands := backings st.table g
      let v := ":".intercalate rest
      if v == "nosnap" then (st, if st.anySuccess then some "write-wrong-cell-no-snapshot" else none)
      else if v == "err" then (st, if cands.isEmpty then none else some "write-wrong-cell-refused")
      else if v == "unbacked" then
        (st, if cands.any (fun c => match st.files[c.1]? with | some f => !f.isFile || c.2 ≥ f.len | none => true) then none
             else some "write-wrong-cell")
      else
        -- exactly one changed cell `f@o=v`
        match v.splitOn "," with
        | [one] =>
          match one.splitOn "@" with
          | [f, ov] =>
            match ov.splitOn "=" with
            | [o, b] =>
              match hex? f, hex? o, hex? b with
              | some f, some o, some b =>
                if cands.contains (f, o) && b == (st.cell f o) ^^^ 0xa5 then
                  ({ st with written := (f, o, b) :: st.written }, none)
                else (st, some "write-wrong-cell")
              | _, _, _ => (st, some "unparsable")
            | _ => (st, some "write-wrong-cell")
          | _ => (st, some "write-wrong-cell")
        | _ => (st, some "write-wrong-cell")
  | ["fw", rest], ["fw", r] =>
    match (rest.splitOn "/").mapM hex? with
    | some [f, o] =>
      if r == "ok" then ({ st with written := (f, o, st.cell f o ^^^ 0x5a) :: st.written }, none) else (st, none)
    | _ => (st, some "unparsable")
  | ["va", rest], ["va", ack, addrs] =>
    match (rest.splitOn "/").mapM hex? with
    | some [desc, avail, used] =>
      if ack == "ok" then
        match (addrs.splitOn "/").mapM hex? with
        | some [d, a, u] =>
          if translateOkB st.table desc (some d) && translateOkB st.table avail (some a) && translateOkB st.table used (some u)
          then (st, none) else (st, some "translate-wrong")
        | _ => (st, some "translate-wrong-nosample")
      else if ack == "fail" || ack == "closed" then
        let td := translations st.table desc
        let ta := translations st.table avail
        let tu := translations st.table used
        match td, ta, tu with
        | [d], [a], [u] =>
          if desc % 16 == 0 && avail % 2 == 0 && used % 4 == 0 && d % 16 == 0 && a % 2 == 0 && u % 4 == 0 && d < 2^64 && a < 2^64
              && u + 4 < 2^64 && u16Readable st.table (u + 2) then (st, some "translate-rejected")
          else (st, none)
        | _, _, _ => (st, none)
      else (st, some "no-answer")
    | _ => (st, some "unparsable")
  | _, _ => (st, some s!"unexpected-{obs}")

def walk (st : St) : List String → List String → Option String
  | [], [] => none
  | [], _ :: _ => some "extra-observations"
  | _ :: _, [] => some "missing-observations"
  | o :: os, b :: bs =>
    if b == "dead" then some "daemon-unreachable" else
    match checkTok st o b with
    | (_, some why) => some why
    | (st', none) => walk st' os bs

/-- input: `scenario => observation` -/
def run (toks : List String) : String :=
  let (scen, obs) := splitArrow toks
  match kv scen "files" with
  | none => "bad-line"
  | some fl =>
    match (fl.splitOn ",").mapM parseFile with
    | none => "bad-line"
    | some files =>
      let ops := (scen.drop 1).filter fun t => (t.splitOn "=").length != 2
      let obs := if obs == ["-"] then [] else obs
      match walk { files := files } ops obs with
      | none => "spec-ok"
      | some why => s!"spec-fail {why}"
end SpecDrv.Mem
