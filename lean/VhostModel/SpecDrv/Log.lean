import VhostModel.DrvUtil
import VhostModel.Spec.DirtyLog
/-! spec driver family `log`: the property's verdict on the log bytes the implementation produced.

Independent of the model: keeps the memory table the implementation acknowledged, the log window of the last accepted
SET_LOG_BASE and the set of log-file bits set so far; for every write computes `Spec.DirtyLog.pages` and demands that
exactly the not-yet-set bits `8*offset + p` appear, nothing is cleared, nothing outside. -/
namespace SpecDrv.Log
open DrvUtil Spec.DirtyLog

structure St where
  table : List Region := []
  /-- accepted log: (mmap_size, mmap_offset) -/
  logOn : Option (Nat × Nat) := none
  init : Nat
  /-- file bit positions set since the start (besides the initial fill) -/
  marked : List Nat := []
  dead : Bool := false

def St.isSet (st : St) (pos : Nat) : Bool := st.init.testBit (pos % 8) || st.marked.contains pos

def parseRegs (s : String) : Option (List Region) :=
  if s == "-" then some [] else
  (s.splitOn ",").mapM fun x =>
    match x.splitOn "/" with
    | [a, b] => do pure ⟨(← hex? a), (← hex? b)⟩
    | _ => none

/-- `a-b,c,...` / `-` -/
def parseRanges (s : String) : Option (List Nat) :=
  if s == "-" then some [] else do
  let parts ← (s.splitOn ",").mapM fun x =>
    match x.splitOn "-" with
    | [a] => do let a ← hex? a; pure [a]
    | [a, b] => do let a ← hex? a; let b ← hex? b; pure (List.range' a (b + 1 - a))
    | _ => none
  pure parts.flatten

/-- observation body `[err][!cleared]+set` → (err, cleared, set) -/
def parseDelta (s : String) : Option (Bool × List Nat × List Nat) :=
  let (err, s) := if s.startsWith "err" then (true, (s.drop 3).toString) else (false, s)
  match s.splitOn "+" with
  | [c, p] =>
    if c == "" then (parseRanges p).map fun ps => (err, [], ps)
    else if c.startsWith "!" then do
      let cs ← parseRanges (c.drop 1).toString
      let ps ← parseRanges p
      pure (err, cs, ps)
    else none
  | _ => none

def inTable (st : St) (p : Nat) : Bool := st.table.any fun r => decide (r.gpa ≤ p * pageSize ∧ p * pageSize < r.gpa + r.size)

def dedup (l : List Nat) : List Nat := l.foldl (fun acc x => if acc.contains x then acc else acc ++ [x]) []

def sortNat (l : List Nat) : List Nat := (l.toArray.qsort (· < ·)).toList

/-- verdict on a write-like op whose touched pages are `pgs` -/
def checkWrite (st : St) (what : String) (pgs : List Nat) (obs : String) : St × Option String :=
  match parseDelta obs with
  | none => (st, some s!"{what}-unparsable")
  | some (err, clr, set) =>
    if !clr.isEmpty then (st, some s!"{what}-cleared-a-log-bit") else
    -- a failed guest access may have written (and must then have logged) any prefix: only soundness is demanded
    let pgs := dedup pgs
    match st.logOn with
    | none => if set.isEmpty then (st, none) else (st, some s!"{what}-bits-set-without-a-log")
    | some (sz, off) =>
      if pgs.any (fun p => p / 8 ≥ sz) && !err then (st, some s!"{what}-page-beyond-the-accepted-log") else
      let expected := sortNat ((pgs.filter (fun p => p / 8 < sz)).map (fun p => off * 8 + p) |>.filter (fun x => !st.isSet x))
      let st' := { st with marked := st.marked ++ set }
      if err then
        if set.all expected.contains then (st', none) else (st', some s!"{what}-stray-bits")
      else if sortNat set == expected then (st', none)
      else if set.all expected.contains then (st', some s!"{what}-pages-not-logged")
      else (st', some s!"{what}-stray-bits")

def stepOp (st : St) (op obs : String) : St × Option String :=
  -- a refused request changes nothing (the harness reconnects to the same daemon and the history goes on);
  -- `dead` = the daemon could not be reconnected after a refusal
  if obs == "dead" then (st, some "daemon-not-reconnectable-after-refusal") else
  let body := ":".intercalate ((obs.splitOn ":").drop 1)
  match op.splitOn ":" with
  | ["mt", regs] =>
    match parseRegs regs with
    | none => (st, some "unparsable")
    | some rs => if body == "ok" then ({ st with table := rs }, none) else (st, none)
  | ["add", reg] =>
    match parseRegs reg with
    | some [r] => if body == "ok" then ({ st with table := st.table ++ [r] }, none) else (st, none)
    | _ => (st, some "unparsable")
  | ["rem", reg] =>
    match parseRegs reg with
    | some [r] => if body == "ok" then ({ st with table := st.table.filter (· != r) }, none) else (st, none)
    | _ => (st, some "unparsable")
  | ["lb", sz, off] =>
    match hex? sz, hex? off with
    | some sz, some off =>
      let cov := st.table.all fun r => decide (covers sz r)
      if body == "ok" then
        if cov then ({ st with logOn := some (sz, off) }, none) else (st, some "log-base-accepted-but-log-too-small")
      else
        -- refusing is demanded when the log is too small; refusing a covering log is a violation (unless the request
        -- itself is malformed: size 0 or an offset that cannot be mapped)
        if cov && sz != 0 && off % 4096 == 0 then (st, some "log-base-refused-although-log-covers")
        else (st, none)
    | _, _ => (st, some "unparsable")
  | ["w", g, l] =>
    match hex? g, hex? l with
    | some g, some l => checkWrite st "write" ((pages g l).filter (fun p => inTable st p || !body.startsWith "err")) body
    | _, _ => (st, some "unparsable")
  | ["wo", g, k] =>
    match hex? g, hex? k with
    | some g, some k => checkWrite st "write" ((pages g k).filter (fun p => inTable st p || !body.startsWith "err")) body
    | _, _ => (st, some "unparsable")
  | ["mk", g, sl, off, len] =>
    match hex? g, hex? sl, hex? off, hex? len with
    | some g, some sl, some off, some len =>
      match st.table.find? (fun r => decide (r.gpa ≤ g ∧ g < r.gpa + r.size)) with
      | none => checkWrite st "mark" [] body
      | some r =>
        -- the bitmap interface of region `r`: the range starts `sl + off` bytes into the region; only pages of the
        -- region can be meant.  The page window is intersected with the region before it is enumerated (lengths are huge).
        let a := r.gpa + sl + off
        if len = 0 then checkWrite st "mark" [] body else
        let first := max (firstPage a) (r.gpa / pageSize)
        let last := min (lastPage a len) ((r.gpa + r.size - 1) / pageSize)
        let pgs := if first ≤ last then List.range' first (last + 1 - first) else []
        checkWrite st "mark" (pgs.filter fun p => decide (r.hasPage p)) body
    | _, _, _, _ => (st, some "unparsable")
  | ["au", _, used, qsz, k, _, _] =>
    match hex? used, hex? qsz, hex? k with
    | some used, some qsz, some k =>
      let (ea, el) := usedElemWrite used qsz k
      let (ia, il) := usedIdxWrite used
      checkWrite st "used-ring" (pages ea el ++ pages ia il) body
    | _, _, _ => (st, some "unparsable")
  | ["cw", nt, _, g] =>
    match hex? nt, hex? g with
    | some nt, some g =>
      if !body.startsWith "ok" then (st, some "concurrent-writers-lost-a-bit") else
      checkWrite st "concurrent" (((List.range nt).map fun i => pages (g + 4096 * (i % 8) + i) 1).flatten) (body.drop 2).toString
    | _, _ => (st, some "unparsable")
  | ["cwl", nt, _, g, sz, off] =>
    -- writers concurrent with a re-sent SET_LOG_BASE of the window already in force: no write may miss its bit
    match hex? nt, hex? g, hex? sz, hex? off with
    | some nt, some g, some sz, some off =>
      if body.startsWith "lbfail" then
        (if st.table.all (fun r => decide (covers sz r)) then (st, some "log-base-refused-although-log-covers") else (st, none))
      else if !body.startsWith "ok" then (st, some "write-concurrent-with-log-change-not-logged") else
      checkWrite { st with logOn := some (sz, off) } "concurrent" (((List.range (min nt 8)).map fun i => pages (g + 4096 * i + i) 1).flatten)
        (body.drop 2).toString
    | _, _, _, _ => (st, some "unparsable")
  | _ => (st, some "unparsable")

/-- input: `scenario => observation` -/
def run (toks : List String) : String :=
  let (scen, obs) := splitArrow toks
  match kvHex scen "fsz" with
  | none => "bad-line"
  | some _ =>
    let ops := (scen.drop 1).filter fun t => !(t.splitOn "=").length == 2
    if ops.length != obs.length then "spec-fail observation-does-not-cover-every-op" else
    -- the property's domain: page-aligned regions
    let allRegs := ops.flatMap fun op => match op.splitOn ":" with
      | ["mt", r] => (parseRegs r).getD []
      | ["add", r] => (parseRegs r).getD []
      | _ => []
    if allRegs.any (fun r => !(r.gpa % pageSize == 0 && r.size % pageSize == 0)) then "spec-ok" else
    let st0 : St := { init := (kvHex scen "init").getD 0 }
    let (_, bad) := (ops.zip obs).foldl (fun (acc : St × Option String) (p : String × String) =>
      match acc.2 with
      | some _ => acc
      | none => stepOp acc.1 p.1 p.2) (st0, none)
    match bad with
    | none => "spec-ok"
    | some why => s!"spec-fail {why}"
end SpecDrv.Log
