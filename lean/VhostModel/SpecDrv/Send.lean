import VhostModel.Base
/-! spec driver family `send`: every byte once and in order, descriptors only with the first byte (C08, sender side) -/
namespace SpecDrv.Send
open Base

def kvOf (toks : List String) (key : String) : Option String :=
  toks.findSome? fun t => if t.startsWith (key ++ "=") then some (t.drop (key.length + 1)).toString else none

def hexList (s : String) : List Nat := ((s.splitOn ",").filter (· ≠ "")).map fun x => (natOfHex? x).getD 0

/-- position of byte `skip` in the concatenation of buffers of the given lengths -/
def locate : List Nat → Nat → Nat → Nat × Nat
  | [], skip, i => (i, skip)
  | l :: rest, skip, i => if skip < l then (i, skip) else locate rest (skip - l) (i + 1)

def run (toks : List String) : String :=
  let (scen, obs) := (toks.takeWhile (· != "=>"), (toks.dropWhile (· != "=>")).drop 1)
  match scen with
  | "send" :: "subiovs" :: rest =>
    let lens := hexList ((kvOf rest "lens").getD "")
    let skip := (natOfHex? ((kvOf rest "skip").getD "0")).getD 0
    if skip ≥ lens.foldl (· + ·) 0 then "spec-ok" else
    let r := locate lens skip 0
    if obs == [s!"{hexOfNat r.1},{hexOfNat r.2}"] then "spec-ok" else "spec-fail C08-iovec-offset"
  | "send" :: rest =>
    let lens := hexList ((kvOf rest "bufs").getD "")
    let nfds := ((kvOf rest "fds").getD "0").toNat?.getD 0
    let total := lens.foldl (· + ·) 0
    if obs.head? == some "PANIC" then "spec-fail C08-panic" else
    if (kvOf obs "ret") != some s!"ok:{hexOfNat total}" then "spec-fail C08-send-result"
    else if (kvOf obs "bytes") != some "ok" then "spec-fail C08-bytes-out-of-order-or-duplicated"
    else if (kvOf obs "got") != some (hexOfNat total) then "spec-fail C08-byte-count"
    else if (kvOf obs "nfds") != some (toString (if total == 0 then 0 else nfds)) then "spec-fail C08-descriptor-count"
    else if nfds > 0 && total > 0 && (kvOf obs "fdsat") != some "0" then "spec-fail C08-descriptors-not-on-first-byte"
    else "spec-ok"
  | _ => "bad-line"
end SpecDrv.Send
