import VhostModel.Spec.Valid
import VhostModel.Spec.Layout
/-! spec driver family `valid`: evaluate the protocol rule on the bytes, fields taken at the
*specification's* offsets -/
namespace SpecDrv.Valid
open Base Spec

def b2s (b : Bool) : String := if b then "1" else "0"

def g (bs : Bytes) (s : String) (p : List String) : Option Nat := getField bs s p

def evalSpec (ty : String) (bs : Bytes) : Option Bool :=
  let sz (s : String) : Bool := (layoutOf s).map (·.size) == some bs.length
  match ty with
  | "FrontendHeader" => do
    if !sz "VhostUserMsgHeader" then none
    pure (decide (validHeader frontendCodes (← g bs "VhostUserMsgHeader" ["request"]) (← g bs "VhostUserMsgHeader" ["flags"]) (← g bs "VhostUserMsgHeader" ["size"])))
  | "BackendHeader" => do
    if !sz "VhostUserMsgHeader" then none
    pure (decide (validHeader backendCodes (← g bs "VhostUserMsgHeader" ["request"]) (← g bs "VhostUserMsgHeader" ["flags"]) (← g bs "VhostUserMsgHeader" ["size"])))
  | "GpuHeader" => do
    if !sz "VhostUserGpuMsgHeader" then none
    pure (decide (validGpuHeader (← g bs "VhostUserGpuMsgHeader" ["request"]) (← g bs "VhostUserGpuMsgHeader" ["flags"])))
  | "VhostUserU64" => if sz ty then some true else none
  | "VhostUserVringState" => if sz ty then some true else none
  | "VhostUserMemory" => do
    if !sz ty then none
    pure (decide (validMemory (← g bs ty ["num_regions"]) (← g bs ty ["padding1"])))
  | "VhostUserMemoryRegion" => do
    if !sz ty then none
    pure (decide (validRegion (← g bs ty ["guest_phys_addr"]) (← g bs ty ["memory_size"]) (← g bs ty ["user_addr"]) (← g bs ty ["mmap_offset"])))
  | "VhostUserSingleMemoryRegion" => do
    if !sz ty then none
    pure (decide (validRegion (← g bs ty ["region", "guest_phys_addr"]) (← g bs ty ["region", "memory_size"])
      (← g bs ty ["region", "user_addr"]) (← g bs ty ["region", "mmap_offset"])))
  | "VhostUserVringAddr" => do
    if !sz ty then none
    pure (decide (validVringAddr (← g bs ty ["flags"]) (← g bs ty ["descriptor"]) (← g bs ty ["used"]) (← g bs ty ["available"])))
  | "VhostUserConfig" => do
    if !sz ty then none
    pure (decide (validConfig (← g bs ty ["offset"]) (← g bs ty ["size"]) (← g bs ty ["flags"])))
  | "VhostUserInflight" => do
    if !sz ty then none
    pure (decide (validInflight (← g bs ty ["num_queues"]) (← g bs ty ["queue_size"])))
  | "VhostUserLog" => do
    if !sz ty then none
    pure (decide (validLog (← g bs ty ["mmap_size"]) (← g bs ty ["mmap_offset"])))
  | "VhostUserSharedMsg" => do
    if !sz ty then none
    pure (decide (validUuid (← g bs ty ["uuid"])))
  | "VhostUserTransferDeviceState" => do
    if !sz ty then none
    pure (decide (validTransfer (← g bs ty ["direction"]) (← g bs ty ["phase"])))
  | "VhostUserMMap" => do
    if !sz ty then none
    pure (decide (validMMap (← g bs ty ["fd_offset"]) (← g bs ty ["shm_offset"]) (← g bs ty ["len"]) (← g bs ty ["flags"])))
  | _ => none

def run (toks : List String) : String :=
  match toks with
  | ["valid", "sizeof", ty] => match (layoutOf ty).map (·.size) with | some n => toString n | none => "unknown-type"
  | ["valid", ty, hex] =>
    match bytesOfHex? hex with
    | none => "bad-hex"
    | some bs => match evalSpec ty bs with
      | some b => b2s b
      | none => "undecodable"
  | _ => "bad-line"
end SpecDrv.Valid
