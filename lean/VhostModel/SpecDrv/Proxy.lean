import VhostModel.Spec.BackendChannel
import VhostModel.SpecDrv.Srv
/-!
spec driver family `proxy`: judge what the backend→frontend proxy did (`scenario => observation`).
 * mode=srv : (C18) for a protocol-valid request the frontend application's handler is invoked exactly once with equal
   arguments and the same open file; with REPLY_ACK the call succeeds iff the handler returned 0, without it the call
   succeeds and nothing is awaited; (C06) a request the protocol declares invalid never reaches the handler;
 * mode=peer: (C01) request bytes and descriptors equal the Spec encoding; (C06) only a conforming acknowledgement is
   accepted; (C18) zero ⇒ success, non-zero ⇒ failure;
 * both     : (C07) shared-object / shared-memory calls are refused locally, wire untouched, until enabled;
              (C09) lent descriptors stay open, nothing leaks.
-/
namespace SpecDrv.Proxy
open Base Spec Spec.BackendChannel
open SpecDrv.Srv (kvOf splitBar parseCall ObsCall)

def pn (s : String) : Nat := (natOfHex? s).getD 0
def bytesHex (b : Bytes) : String := if b.isEmpty then "-" else hexOfBytes b

def parseH (s : String) : HRes :=
  match s.splitOn ":" with
  | ["ok", n] => .ok (pn n)
  | ["errno", e] => .errno (pn e)
  | _ => .err

def parseOp (toks0 : List String) : Option (Kind × Arg) :=
  let toks := toks0.filter (fun t => !t.startsWith "h=" && !t.startsWith "r=" && t != "then-close")
  let mm (k : Kind) (a : List String) : Option (Kind × Arg) :=
    match a with
    | [id, fo, so, ln, fl, pad] =>
      let p := if pad == "-" then List.replicate 7 0 else (bytesOfHex? pad).getD []
      some (k, .mmap ⟨pn id, p, pn fo, pn so, pn ln, pn fl⟩)
    | _ => none
  match toks with
  | ["add", u] => some (.add, .uuid (pn u))
  | ["remove", u] => some (.remove, .uuid (pn u))
  | ["lookup", u] => some (.lookup, .uuid (pn u))
  | "map" :: a => mm .map a
  | "unmap" :: a => mm .unmap a
  | _ => none

structure J where
  ra : Bool := false      -- REPLY_ACK as the proxy was told
  sra : Bool := false     -- REPLY_ACK as the server was told
  so : Bool := false
  shm : Bool := false
  next : Nat := 1
  alive : Bool := true
  clean : Bool := true
  err : Option String := none
  idx : Nat := 0

def stepJ (srvMode : Bool) (j : J) (sc : List String × List String) : J :=
  if j.err.isSome then j else
  let (st, ob) := sc
  let ret := (kvOf ob "ret").getD "?"
  let j1 := { j with idx := j.idx + 1 }
  let fail (e : String) : J := { j1 with err := some s!"{e} step={j.idx}" }
  match st with
  | ["ra", v] => { j1 with ra := v == "1" }
  | ["sra", v] => { j1 with sra := v == "1" }
  | ["so", v] => { j1 with so := v == "1" }
  | ["shm", v] => { j1 with shm := v == "1" }
  | ["fail", _] => { j1 with clean := false }     -- an endpoint marked as failed is outside every property
  | ["sfail", _] => { j1 with clean := false }
  | _ =>
  match parseOp st with
  | none => fail "bad-op"
  | some (k, a) =>
  if ret == "skipped" || ret == "?" then j1 else
  let (fdIds, next') : List String × Nat := if k.carriesFd then ([toString j.next], j.next + 1) else ([], j.next)
  let j1 := { j1 with next := next' }
  let gateOn := if k.isSharedObject then j.so else j.shm
  if !gateOn then
    -- C07 / C18: refused locally, nothing written
    let touched := if srvMode then (kvOf ob "c").getD "-" != "-" || (kvOf ob "sr").getD "-" != "-" else (kvOf ob "w").getD "-" != "-"
    if touched then fail "C07-proxy-gate-touched-wire"
    else if !ret.startsWith "err." then fail "C07-proxy-gate-not-refused"
    else j1
  else if !j.alive || !j.clean then
    -- still C06: whatever reaches the handler is a well-formed request
    if srvMode then
      match (let c := (kvOf ob "c").getD "-"; if c == "-" then some [] else (c.splitOn ";").mapM parseCall) with
      | some cs => if cs.all fun c => validCall c.name c.args c.payload c.fds.length then j1 else fail "C06-handler-args-invalid"
      | none => fail "unparsable-calls"
    else j1
  else if !srvMode then
    let wobs := (kvOf ob "w").getD "-"
    let wf := (kvOf ob "wf").getD "-"
    let expF := if fdIds.isEmpty then "-" else ",".intercalate fdIds
    if wobs != bytesHex (encodeReq j.ra k a) then fail "C01-proxy-request-bytes-differ"
    else if wf != expF then fail "C01-proxy-request-descriptors-differ"
    else
      let rs := (kvOf st "r").getD "-"
      let closing := st.contains "then-close"
      if !j.ra then
        -- without REPLY_ACK nothing is awaited: the call succeeds whatever the peer does
        if ret != "ok:0" then fail "C18-unacknowledged-call-failed"
        else if rs == "close" then { j1 with alive := false }
        else if rs == "-" then j1
        else { j1 with clean := false, alive := !closing }
      else if rs == "close" then
        if !ret.startsWith "err." then fail "C18-no-error-after-close" else { j1 with alive := false }
      else if rs == "-" then
        if ret.startsWith "ok" then fail "C18-success-without-acknowledgement" else { j1 with alive := false }
      else
        let (hexs, n) := match rs.splitOn "/" with | [x, y] => (x, y.toNat?.getD 0) | _ => (rs, 0)
        let bytes := (bytesOfHex? hexs).getD []
        if !ackConforms k.code bytes n then
          if ret.startsWith "ok" then fail "C06-proxy-accepted-nonconforming-ack" else { j1 with clean := false, alive := !closing }
        else if bytes.length != 20 || leVal ((bytes.drop 8).take 4) != 8 then
          -- conforming but with extra bytes / another size field: recorded limit, not judged
          { j1 with clean := false, alive := !closing }
        else
          let v := leVal (bytes.drop 12)
          if v == 0 && ret != "ok:0" then fail "C18-zero-ack-not-success"
          else if v != 0 && !ret.startsWith "err." then fail "C18-nonzero-ack-reported-as-success"
          else { j1 with alive := !closing }
  else
    let h := parseH ((kvOf st "h").getD "ok:0")
    let cobs := (kvOf ob "c").getD "-"
    match (if cobs == "-" then some [] else (cobs.splitOn ";").mapM parseCall) with
    | none => fail "unparsable-calls"
    | some calls =>
    if !(calls.all fun c => validCall c.name c.args c.payload c.fds.length) then fail "C06-handler-args-invalid" else
    if j.ra != j.sra then { j1 with clean := false } else     -- the two ends disagree on REPLY_ACK: outside the properties
    if !validArg a then
      -- the protocol declares the request invalid: the server must not hand it to the application (C06)
      if !calls.isEmpty then fail "C06-invalid-request-reached-handler"
      else if j.ra && ret.startsWith "ok" then fail "C18-success-without-handler"
      else { j1 with clean := false }
    else
    let body := encodeArg a
    let (nm, args, pl) := expectedCall k.code body
    match calls with
    | [] => fail "C18-handler-not-invoked"
    | [c] =>
      if c.name != nm || c.args != args || c.payload != pl then fail "C18-handler-arguments-differ"
      else if c.fds != fdIds then fail "C18-handler-file-differs"
      else if ret == "blocked" then fail "C18-call-blocked"
      else if proxySucceeds j.ra h then
        (if ret == "ok:0" then j1 else fail (if j.ra then "C18-zero-result-not-success" else "C18-unacknowledged-call-failed"))
      else
        (if ret.startsWith "err." then j1 else fail "C18-failure-reported-as-success")
    | _ => fail "C18-handler-invoked-more-than-once"

def run (toks : List String) : String :=
  match toks with
  | "proxy" :: rest =>
    let (scen, obs) := (rest.takeWhile (· != "=>"), (rest.dropWhile (· != "=>")).drop 1)
    if obs.head? == some "PANIC" then "spec-fail C06-panic " ++ " ".intercalate (obs.take 12) else
    match splitBar scen with
    | head :: ops =>
      let os0 := splitBar obs
      match os0.getLast? with
      | some [l] =>
        if !l.startsWith "L=" then "spec-fail observation-shape" else
        if l != "L=-" then "spec-fail C09-descriptor-leak " ++ l else
        let os := os0.dropLast
        if os.any (fun o => (kvOf o "lc").getD "0" != "0") then "spec-fail C09-lent-descriptor-closed" else
        if ops.length != os.length then "spec-fail observation-shape" else
        let srvMode := (kvOf head "mode").getD "srv" == "srv"
        let j := (ops.zip os).foldl (stepJ srvMode) {}
        (match j.err with | some e => "spec-fail " ++ e | none => "spec-ok")
      | _ => "spec-fail observation-shape"
    | [] => "bad-line"
  | _ => "bad-line"

end SpecDrv.Proxy
