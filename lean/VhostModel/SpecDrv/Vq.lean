import VhostModel.DrvUtil
import VhostModel.Spec.Vring
/-! spec driver family `vq`: the property's verdict (C14) on what the implementation did.

Keeps only what the property defines: the queue accessors *as last observed* (to say "unchanged"), the memory table as
the fold of the accepted updates, file contents (fill pattern + the scenario's writes + the ring writes the property
demands), the protocol features most recently set, and for each ring the call descriptor most recently installed.
Clauses:

* `bad-index-accepted`      a per-ring message with an index that is not a ring was accepted
* `num-not-applied` / `num-not-rejected`   SET_VRING_NUM verdicts (`Spec.Vring.numVerdict`; the unspecified case only
                            requires that nothing but that ring's size changes)
* `base-not-applied`, `getbase-wrong`, `addr-not-translated`, `next-used-not-from-memory`
* `features-subset`         SET_FEATURES accepted for a non-subset or refused for a subset
* `features-not-delivered`  callbacks ≠ {set_event_idx(bit 29), acked_features(f)} or a ring's event-idx flag ≠ bit 29
* `channel-flags`           the new backend-request channel does not carry the negotiated settings
* `ring-op-wrong-memory`    add_used did not write exactly the used element / index through the latest accepted table
* `ring-op-wrong-call-fd`   signal_used_queue did not add 1 to exactly the call descriptor most recently installed
* `changed-unrelated`       an accessor the message has no business with changed
* `rejected-but-changed`    a refused message changed an accessor -/
namespace SpecDrv.Vq
open DrvUtil Spec.Vring Spec.MemTable

structure Ring where
  size : Nat
  ready : Nat
  na : Nat
  nu : Nat
  desc : Nat
  avail : Nat
  used : Nat
  ev : Nat
  en : Nat
  deriving DecidableEq, Repr

def field (c : Char) (s : String) : Option Nat :=
  match s.toList with
  | d :: rest => if d == c then hex? (String.ofList rest) else none
  | [] => none

def parseRing (s : String) : Option Ring :=
  match s.splitOn "." with
  | [a, b, c, d, e, f, g, h, i] => do
    pure ⟨← field 's' a, ← field 'r' b, ← field 'a' c, ← field 'u' d, ← field 'd' e, ← field 'v' f, ← field 'w' g,
          ← field 'e' h, ← field 'n' i⟩
  | _ => none

def parseSample (s : String) : Option (List Ring) := (s.splitOn ";").mapM parseRing

structure FileSpec where
  isFile : Bool
  len : Nat

def parseFile (s : String) : Option FileSpec :=
  if s == "e" then some ⟨false, 0⟩ else
  match s.toList with
  | 'f' :: rest => (hex? (String.ofList rest)).map fun l => ⟨true, l⟩
  | 'r' :: rest => (hex? (String.ofList rest)).map fun l => ⟨true, l⟩
  | _ => none

def pattern (f o : Nat) : Nat :=
  (o * 131 + o / 256 * 17 + o / 4096 * 29 + o / 65536 * 3 + o / 16777216 * 7 + o / 4294967296 * 13 + f * 73 + 11) % 256

structure St where
  nq : Nat
  max : Nat
  offered : Nat
  files : List FileSpec
  table : List Region := []
  written : List (Nat × Nat × Nat) := []
  proto : Nat := 0
  nfds : Nat := 0
  /-- per ring: call descriptor most recently installed -/
  calls : List (Option Nat)
  prev : Option (List Ring) := none

def St.cell (st : St) (f o : Nat) : Nat :=
  match st.written.find? (fun c => c.1 == f && c.2.1 == o) with
  | some c => c.2.2
  | none => pattern f o

def St.write (st : St) (f o v : Nat) : St := { st with written := (f, o, v) :: st.written }

def parseReq (s : String) : Option Req :=
  match (s.splitOn "/").mapM hex? with
  | some [g, sz, u, o, f] => some ⟨g, sz, u, o, f, true⟩
  | some [g, sz, u, o] => some ⟨g, sz, u, o, 0, true⟩
  | _ => none

/-- rings other than `i` are equal -/
def othersSame (i : Nat) (p c : List Ring) : Bool :=
  p.length == c.length && ((List.range p.length).all fun j => j == i || p[j]? == c[j]?)

def setNth (l : List (Option Nat)) (i : Nat) (v : Option Nat) : List (Option Nat) := l.set i v

/-- the unique file cell behind guest address `g` (none: no region or ambiguous) -/
def cellOf (t : List Region) (g : Nat) : Option (Nat × Nat) :=
  match backings t g with
  | [c] => some c
  | _ => none

def le16 (st : St) (t : List Region) (a : Nat) : Option Nat :=
  match cellOf t a, cellOf t (a + 1) with
  | some (f, o), some (f', o') => some (st.cell f o + 256 * st.cell f' o')
  | _, _ => none

def insertCell (c : Nat × Nat × Nat) : List (Nat × Nat × Nat) → List (Nat × Nat × Nat)
  | [] => [c]
  | x :: xs =>
    if c.1 == x.1 && c.2.1 == x.2.1 then c :: xs
    else if c.1 < x.1 || (c.1 == x.1 && c.2.1 < x.2.1) then c :: x :: xs else x :: insertCell c xs

def parseCells (s : String) : Option (List (Nat × Nat × Nat)) :=
  if s == "-" then some [] else
  (s.splitOn ",").mapM fun one =>
    match one.splitOn "@" with
    | [f, ov] =>
      match ov.splitOn "=" with
      | [o, b] => do pure ((← hex? f), (← hex? o), (← hex? b))
      | _ => none
    | _ => none

def byteAt (v k : Nat) : Nat := v / 256 ^ k % 256

/-- split `tok` = `body|sample` -/
def splitSample (tok : String) : String × String :=
  match tok.splitOn "|" with
  | [a, b] => (a, b)
  | _ => (tok, "?")

def checkOp (st : St) (op obsTok : String) : St × Option String :=
  let (body, sampleS) := splitSample obsTok
  let cur? : Option (List Ring) := if sampleS == "=" then st.prev else parseSample sampleS
  match cur? with
  | none => (st, some "no-sample")
  | some cur =>
    if cur.length != st.nq then (st, some "no-sample") else
    let prev := st.prev.getD cur
    let st1 := { st with prev := some cur }
    let same := prev == cur
    let parts := body.splitOn ":"
    let ok := parts[1]? == some "ok"
    let rejected := parts[1]? == some "rej"
    if !ok && !rejected then (st1, some "no-answer") else
    match op.splitOn ":" with
    | ["num", i, n] =>
      match hex? i, hex? n with
      | some i, some n =>
        if i ≥ st.nq then (st1, if ok then some "bad-index-accepted" else if same then none else some "rejected-but-changed") else
        match numVerdict st.max n with
        | .mustReject => (st1, if ok then some "num-not-rejected" else if same then none else some "rejected-but-changed")
        | .mustApply =>
          if !ok then (st1, some "num-not-applied") else
          match prev[i]?, cur[i]? with
          | some p, some c => (st1, if c == { p with size := n } && othersSame i prev cur then none else some "num-not-applied")
          | _, _ => (st1, some "no-sample")
        | .unspecified =>
          if !ok then (st1, if same then none else some "rejected-but-changed") else
          match prev[i]?, cur[i]? with
          | some p, some c => (st1, if { c with size := p.size } == p && othersSame i prev cur then none else some "changed-unrelated")
          | _, _ => (st1, some "no-sample")
      | _, _ => (st1, some "unparsable")
    | ["base", i, b] =>
      match hex? i, hex? b with
      | some i, some b =>
        if i ≥ st.nq then (st1, if ok then some "bad-index-accepted" else if same then none else some "rejected-but-changed") else
        if !ok then (st1, if same then none else some "rejected-but-changed") else
        match prev[i]?, cur[i]? with
        | some p, some c =>
          (st1, if c == { p with na := if b < 65536 then b else c.na } && othersSame i prev cur then none else some "base-not-applied")
        | _, _ => (st1, some "no-sample")
      | _, _ => (st1, some "unparsable")
    | ["gb", i] =>
      match hex? i with
      | some i =>
        if i ≥ st.nq then (st1, if ok then some "bad-index-accepted" else if same then none else some "rejected-but-changed") else
        if !ok then (st1, if same then none else some "rejected-but-changed") else
        match prev[i]?, cur[i]? with
        | some p, some c =>
          let st2 := { st1 with calls := setNth st1.calls i none }
          if parts[2]? != some s!"{hx i}.{hx p.na}" then (st2, some "getbase-wrong") else
          (st2, if { c with ready := p.ready } == p && othersSame i prev cur then none else some "changed-unrelated")
        | _, _ => (st1, some "no-sample")
      | none => (st1, some "unparsable")
    | ["addr", i, rest] =>
      match hex? i, (rest.splitOn "/").mapM hex? with
      | some i, some [d, a, u] =>
        if i ≥ st.nq then (st1, if ok then some "bad-index-accepted" else if same then none else some "rejected-but-changed") else
        match prev[i]?, cur[i]? with
        | some p, some c =>
          if !othersSame i prev cur then (st1, some "changed-unrelated") else
          if !ok then
            (st1, if { c with desc := p.desc, avail := p.avail, used := p.used, nu := p.nu } == p then none else some "rejected-but-changed")
          else if { c with desc := p.desc, avail := p.avail, used := p.used, nu := p.nu } != p then (st1, some "changed-unrelated")
          else if !(translateOkB st.table d (some c.desc) && translateOkB st.table a (some c.avail) && translateOkB st.table u (some c.used))
            then (st1, some "addr-not-translated")
          else match le16 st st.table (usedIdxAddr c.used) with
            | some v => (st1, if c.nu == v then none else some "next-used-not-from-memory")
            | none => (st1, some "next-used-not-from-memory")
        | _, _ => (st1, some "no-sample")
      | _, _ => (st1, some "unparsable")
    | [k, p, fd] =>
      if k == "kick" || k == "call" || k == "err" then
        match hex? p with
        | some p =>
          let i := fdIndex p
          let tokn := st.nfds
          let st1 := if fd == "1" then { st1 with nfds := st.nfds + 1 } else st1
          if i ≥ st.nq then (st1, if ok then some "bad-index-accepted" else if same then none else some "rejected-but-changed") else
          match prev[i]?, cur[i]? with
          | some pr, some c =>
            let st2 := if ok && k == "call" then { st1 with calls := setNth st1.calls i (if fd == "1" then some tokn else none) } else st1
            if !ok then (st2, if same then none else some "rejected-but-changed") else
            (st2, if { c with ready := pr.ready } == pr && othersSame i prev cur then none else some "changed-unrelated")
          | _, _ => (st1, some "no-sample")
        | none => (st1, some "unparsable")
      else if k == "en" then
        match hex? p, hex? fd with
        | some i, some e =>
          if i ≥ st.nq then (st1, if ok then some "bad-index-accepted" else if same then none else some "rejected-but-changed") else
          if !ok then (st1, if same then none else some "rejected-but-changed") else
          match prev[i]?, cur[i]? with
          | some pr, some c => (st1, if c == { pr with en := e } && othersSame i prev cur then none else some "changed-unrelated")
          | _, _ => (st1, some "no-sample")
        | _, _ => (st1, some "unparsable")
      else if k == "ui" then
        match (p.splitOn "/").mapM hex?, hex? fd with
        | some [f, o], some v =>
          if ok then ((st1.write f o (v % 256)).write f (o + 1) (v / 256 % 256), if same then none else some "changed-unrelated")
          else (st1, none)
        | _, _ => (st1, some "unparsable")
      else (st1, some "unparsable")
    | ["feat", f] =>
      match hex? f with
      | some f =>
        let sub := featuresSubsetB st.offered f
        if ok && !sub then (st1, some "features-subset-accepted-non-subset") else
        if !ok && sub then (st1, some "features-subset-refused-subset") else
        if !ok then (st1, if parts[2]? != some "-" then some "features-not-delivered-callback-on-refusal"
                          else if same then none else some "rejected-but-changed") else
        let want1 := s!"E{if eventIdx f then "1" else "0"},A{hx f}"
        let want2 := s!"A{hx f},E{if eventIdx f then "1" else "0"}"
        if parts[2]? != some want1 && parts[2]? != some want2 then (st1, some "features-not-delivered") else
        let evOk := cur.all fun c => c.ev == (if eventIdx f then 1 else 0)
        let restOk := (prev.zip cur).all fun (p, c) => { c with ev := p.ev, en := p.en } == p
        (st1, if !evOk then some "features-not-delivered-event-idx" else if restOk then none else some "changed-unrelated")
      | none => (st1, some "unparsable")
    | ["pfeat", f] =>
      match hex? f with
      | some f => ((if ok then { st1 with proto := f } else st1), if same then none else some "changed-unrelated")
      | none => (st1, some "unparsable")
    | ["breq"] =>
      if !same then (st1, some "changed-unrelated") else
      if !ok then (st1, none) else
      let (ra, so, sm) := channelFlags st.proto
      let want := s!"so{if so then "1" else "0"}sm{if sm then "1" else "0"}ra{if so || sm then (if ra then "1" else "0") else "?"}"
      (st1, if parts[2]? == some "B" && parts[3]? == some want then none else some "channel-flags")
    | [k, rest] =>
      if k == "mt" || k == "add" || k == "rem" then
        let op? : Option Op :=
          if k == "mt" then ((rest.splitOn ",").mapM parseReq).map Op.setTable
          else if k == "add" then (parseReq rest).map Op.add
          else (parseReq rest).map fun r => Op.remove r.gpa r.size
        match op? with
        | some o =>
          let st2 := { st1 with table := foldSuccesses st.table [(o, ok)] }
          if !same then (st2, some "changed-unrelated") else
          (st2, if parts[2]? == some (if ok then "U" else "-") then none else some "notification-count")
        | none => (st1, some "unparsable")
      else (st1, some "unparsable")
    | ["use", r, head, len] =>
      match hex? r, hex? head, hex? len with
      | some r, some head, some len =>
        if r ≥ st.nq then (st1, if ok then some "bad-index-accepted" else none) else
        match prev[r]?, cur[r]?, parts[2]?, (parts[3]?).bind (fun s => parseCells ((s.drop 6).toString)),
              parts[4]? with
        | some p, some c, some tag, some cells, some ctrS =>
          -- signal: exactly the current call descriptor of the ring
          let wantCtr := match (st.calls[r]?).join with
            | some t => s!"ctr={hx t}+1"
            | none => "ctr=-"
          if tag.toList[1]? != some 's' || ctrS != wantCtr then (st1, some "ring-op-wrong-call-fd") else
          if !othersSame r prev cur then (st1, some "changed-unrelated") else
          let slot := usedSlot p.used p.nu (if p.size == 0 then 1 else p.size)
          let nu' := (p.nu + 1) % 65536
          let addrs : List (Nat × Nat) :=
            ((List.range 4).map fun k => (slot + k, byteAt head k)) ++ ((List.range 4).map fun k => (slot + 4 + k, byteAt len k))
              ++ [(usedIdxAddr p.used, nu' % 256), (usedIdxAddr p.used + 1, nu' / 256)]
          let located := addrs.map fun (a, v) => ((cellOf st.table a), v)
          let allBacked := located.all fun (c, _) => c.isSome
          let idxAligned := match st.table.find? (fun t => decide (t.containsGpa (usedIdxAddr p.used))) with
            | some t => (usedIdxAddr p.used - t.gpa) % 2 == 0 && usedIdxAddr p.used + 2 ≤ t.gpa + t.size
            | none => false
          if tag.toList[0]? == some 'a' then
            if !allBacked then (st1, some "ring-op-wrong-memory-wrote-outside-table") else
            -- expected final contents of the touched cells (later writes win), and the changed ones among them
            let finals := located.foldl (fun acc (c, v) => match c with
              | some (f, o) => insertCell (f, o, v) acc | none => acc) []
            let expected := finals.filter fun (f, o, v) => st.cell f o != v
            let st2 := finals.foldl (fun s (f, o, v) => s.write f o v) st1
            if cells != expected then (st2, some "ring-op-wrong-memory") else
            (st2, if c == { p with nu := nu' } then none else some "ring-op-wrong-memory-next-used")
          else
            -- add_used failed: it must have had a reason the property admits, and may only have touched expected cells
            let mustSucceed := head < p.size && allBacked && idxAligned && p.size != 0
            if mustSucceed then (st1, some "ring-op-wrong-memory-refused") else
            let finals := located.foldl (fun acc (c, v) => match c with
              | some (f, o) => insertCell (f, o, v) acc | none => acc) []
            let okCells := cells.all fun (f, o, v) => finals.any fun (f', o', v') => f == f' && o == o' && v == v'
            let st2 := cells.foldl (fun s (f, o, v) => s.write f o v) st1
            (st2, if okCells then none else some "ring-op-wrong-memory")
        | _, _, _, _, _ => (st1, some "unparsable")
      | _, _, _ => (st1, some "unparsable")
    | _ => (st1, some s!"unexpected-{op}")

def walk (st : St) : List String → List String → Option String
  | [], [] => none
  | [], _ :: _ => some "extra-observations"
  | _ :: _, [] => some "missing-observations"
  | o :: os, b :: bs =>
    if b == "dead" then some "daemon-unreachable" else
    match checkOp st o b with
    | (_, some why) => some why
    | (st', none) => walk st' os bs

/-- input: `scenario => observation` -/
def run (toks : List String) : String :=
  let (scen, obs) := splitArrow toks
  match kvHex scen "nq", kvHex scen "max", kvHex scen "off" with
  | some nq, some max, some off =>
    let files := match kv scen "files" with
      | some fl => if fl == "-" then some [] else (fl.splitOn ",").mapM parseFile
      | none => some []
    match files with
    | none => "bad-line"
    | some files =>
      let ops := (scen.drop 1).filter fun t => (t.splitOn "=").length != 2
      let obs := if obs == ["-"] then [] else obs
      match walk { nq := nq, max := max, offered := off, files := files, calls := List.replicate nq none } ops obs with
      | none => "spec-ok"
      | some why => s!"spec-fail {why}"
  | _, _, _ => "bad-line"
end SpecDrv.Vq
