import VhostModel.Spec.Uapi
/-! spec driver family `kern`: the property's verdict on what the implementation was observed to do, and
the `probe` queries with which `checks/c19.py` validates the UAPI transcription against `tools/uapi_probe.c`.
Imports nothing generated from /repo and nothing from the model. -/
namespace SpecDrv.Kern
open Base Base.K Spec.Uapi

/-- `scenario ==> observation` (also `=>`).  checks/common.py splits result lines at the first " => ", so the
    family hands the pair over with `==>` as separator. -/
def splitArrow (toks : List String) : List String × List String :=
  let isSep := fun (t : String) => t == "=>" || t == "==>"
  (toks.takeWhile (fun t => !isSep t), (toks.dropWhile (fun t => !isSep t)).drop 1)

/-- `kern probe ioctl NAME` / `kern probe sizeof S` / `kern probe offsetof S f` / `kern probe const NAME`:
    same text as the corresponding line of `uapi_probe` -/
def probe : List String → String
  | ["ioctl", n] =>
    match ioctlByName n with
    | some u => match u.size, u.request with
      | some s, some r => s!"ioctl {n} {u.dir} {hexOfNat VHOST_VIRTIO} {hexOfNat u.nr} {s} {hexOfNat r}"
      | _, _ => "unknown-size"
    | none => "unknown-ioctl"
  | ["sizeof", s] => match layoutOf s with
    | some l => s!"sizeof {s} {l.size} {l.align}"
    | none => "unknown-struct"
  | ["offsetof", s, f] => match fieldAt s [f] with
    | some (o, w) => s!"offsetof {s} {f} {o} {w}"
    | none => "unknown-field"
  | ["const", n] => match constTable.find? (·.1 == n) with
    | some (_, v) => s!"const {n} {v}"
    | none => "unknown-const"
  | ["names"] => " ".intercalate (ioctls.map (·.name))
  | _ => "bad-probe"

def run (toks : List String) : String :=
  match toks with
  | "kern" :: "probe" :: rest => probe rest
  | _ =>
    let (scen, obs) := splitArrow toks
    match parseInp scen with
    | none => "bad-line"
    | some i =>
      match parseObs obs with
      | none => "spec-fail unparsable-observation"
      | some o =>
        match problem i o with
        | none => "spec-ok"
        | some p => s!"spec-fail {p}"
end SpecDrv.Kern
