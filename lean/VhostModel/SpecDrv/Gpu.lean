import VhostModel.Spec.Gpu
import VhostModel.SpecDrv.Proxy
/-!
spec driver family `gpu`: judge what the GPU proxy did against the scripted raw peer.
 * C01: every request is the vhost-user-gpu encoding: code, flags = 0 (no version bits, REPLY clear), size = payload
   struct + pixel data, payload fields little-endian at the specified offsets, the DMABUF descriptor (if any) attached;
 * C06: a reply is accepted only if it has a known code equal to the request's, the REPLY bit and nothing else in
   flags, the reply payload, and no descriptors; the value returned is the decoded payload; any other bytes ⇒ error;
 * C09: lent descriptors stay open, reply descriptors do not leak.
-/
namespace SpecDrv.Gpu
open Base Spec Spec.Gpu
open SpecDrv.Srv (kvOf splitBar)
open SpecDrv.Proxy (pn bytesHex)

def parseData (s : String) : Bytes :=
  match s.splitOn ":" with
  | ["pat", len, a, b] => (List.range (pn len)).map fun i => UInt8.ofNat ((pn a + i * pn b) % 256)
  | _ => if s == "-" then [] else (bytesOfHex? s).getD []

/-- payload struct bytes per the specification's layouts: all members are 32-bit little-endian words in order, the
DMABUF_SCANOUT2 modifier / the protocol-features value are 64-bit -/
def bodyOf (toks : List String) : Bytes :=
  let fields := match (toks.drop 1).filter (fun t => !t.contains '=' && t != "then-close") with
    | [f] => if f == "-" then [] else (f.splitOn ",").map pn
    | _ => []
  fields.flatMap (leBytes 4) ++ (match kvOf toks "m" with | some m => leBytes 8 (pn m) | none => []) ++
    (match kvOf toks "v" with | some v => leBytes 8 (pn v) | none => [])

structure J where
  next : Nat := 1
  alive : Bool := true
  clean : Bool := true
  err : Option String := none
  idx : Nat := 0

def stepJ (j : J) (sc : List String × List String) : J :=
  if j.err.isSome then j else
  let (st, ob) := sc
  let ret := (kvOf ob "ret").getD "?"
  let j1 := { j with idx := j.idx + 1 }
  let fail (e : String) : J := { j1 with err := some s!"{e} step={j.idx}" }
  match st with
  | ["fail", _] => { j1 with clean := false }
  | [] => fail "bad-op"
  | nm :: _ =>
  match requestOf nm with
  | none => fail "bad-op"
  | some r =>
  if ret == "skipped" || ret == "?" then j1 else
  let hasFd := r.fd && (kvOf st "fd") == some "1"
  let (fdIds, next') : List String × Nat := if hasFd then ([toString j.next], j.next + 1) else ([], j.next)
  let j1 := { j1 with next := next' }
  if !j.alive || !j.clean then j1 else
  let body := bodyOf st
  let data := if r.data then parseData ((kvOf st "d").getD "-") else []
  -- the payload struct has the size the specification gives it (scenario sanity)
  let badBody : Bool := match r.body with
    | some ty => (Spec.layoutOf ty).map (fun l => l.size) != some body.length
    | none => !body.isEmpty
  if badBody then fail "bad-op-body" else
  let wobs := (kvOf ob "w").getD "-"
  let wf := (kvOf ob "wf").getD "-"
  if wobs != bytesHex (encodeReq r body data) then fail "C01-gpu-request-bytes-differ"
  else if wf != (if fdIds.isEmpty then "-" else ",".intercalate fdIds) then fail "C01-gpu-request-descriptors-differ"
  else
    let rs := (kvOf st "r").getD "-"
    let closing := st.contains "then-close"
    if r.reply == ReplyTy.none then
      if ret != "ok" then fail "C01-gpu-unanswered-call-failed"
      else if rs == "close" then { j1 with alive := false }
      else if rs == "-" then j1
      else { j1 with clean := false, alive := !closing }
    else if rs == "close" then
      if ret.startsWith "ok" then fail "C06-gpu-no-error-after-close" else { j1 with alive := false }
    else if rs == "-" then
      if ret.startsWith "ok" then fail "C06-gpu-success-without-reply" else { j1 with alive := false }
    else
      let (hexs, n) := match rs.splitOn "/" with | [x, y] => (x, y.toNat?.getD 0) | _ => (rs, 0)
      let bytes := (bytesOfHex? hexs).getD []
      if !replyConforms r bytes n then
        if ret.startsWith "ok" then fail "C06-gpu-accepted-nonconforming-reply" else { j1 with clean := false, alive := !closing }
      else if bytes.length != 12 + r.reply.size then { j1 with clean := false, alive := !closing }   -- extra bytes: not judged
      else
        let payload := bytes.drop 12
        let exp := match r.reply with
          | .u64 => s!"ok:{hexOfNat (leVal payload)}"
          | .empty => "ok"
          | _ => s!"ok:{bytesHex payload}"
        if ret != exp then fail "C06-gpu-returned-value-differs" else { j1 with alive := !closing }

def run (toks : List String) : String :=
  match toks with
  | "gpu" :: rest =>
    let (scen, obs) := (rest.takeWhile (· != "=>"), (rest.dropWhile (· != "=>")).drop 1)
    if obs.head? == some "PANIC" then "spec-fail C06-panic " ++ " ".intercalate (obs.take 12) else
    let ops := splitBar scen
    let os0 := splitBar obs
    match os0.getLast? with
    | some [l] =>
      if !l.startsWith "L=" then "spec-fail observation-shape" else
      if l != "L=-" then "spec-fail C09-descriptor-leak " ++ l else
      let os := os0.dropLast
      if os.any (fun o => (kvOf o "lc").getD "0" != "0") then "spec-fail C09-lent-descriptor-closed" else
      if ops.length != os.length then "spec-fail observation-shape" else
      let j := (ops.zip os).foldl stepJ {}
      (match j.err with | some e => "spec-fail " ++ e | none => "spec-ok")
    | _ => "spec-fail observation-shape"
  | _ => "bad-line"

end SpecDrv.Gpu
