import VhostModel.Spec.BackendChannel
import VhostModel.SpecDrv.Proxy
/-!
spec driver family `besrv`: judge what the frontend's server for backend-initiated requests did.
 * C06: the application's handler is invoked only for well-formed requests (valid header, exact size, valid body, exactly
   the prescribed descriptors, not a reply) and never panics; malformed requests are refused with an error;
 * C18: a well-formed request reaches the handler exactly once with the encoded values and the passed file; the k-th
   acknowledgement answers the k-th request: written iff REPLY_ACK ∧ NEED_REPLY, same code, REPLY set, NEED_REPLY clear,
   version 1, size 8, value = the handler's value resp. the negated errno; nothing is written otherwise;
 * C01: acknowledgements carry no descriptors;  C08: a truncated request is an error and is not dispatched;  C09: no leak.
-/
namespace SpecDrv.BeSrv
open Base Spec Spec.BackendChannel
open SpecDrv.Srv (kvOf splitBar parseCall ObsCall)
open SpecDrv.Proxy (pn parseH)

structure ObsStep where
  r : String
  calls : Option (List ObsCall)
  out : Option Bytes
  n : Nat

def parseObs (toks : List String) : Option ObsStep := do
  let r ← kvOf toks "r"
  let c ← kvOf toks "c"
  let o ← kvOf toks "o"
  let n ← (kvOf toks "n").bind String.toNat?
  pure ⟨r, if c == "-" then some [] else (c.splitOn ";").mapM parseCall, if o == "-" then some [] else bytesOfHex? o, n⟩

structure J where
  ra : Bool := false
  nextId : Nat := 1
  alignedSoFar : Bool := true
  err : Option String := none
  idx : Nat := 0

def stepJ (j : J) (sc : List String × List String) : J :=
  if j.err.isSome then j else
  let (st, ob) := sc
  let j' := { j with idx := j.idx + 1 }
  let fail (e : String) : J := { j' with err := some s!"{e} step={j.idx}" }
  match st with
  | ["ra", v] => { j' with ra := v == "1" }
  | ["fail", _] => { j' with alignedSoFar := false }
  | "m" :: hex :: fn :: rest =>
    let bytes := ((hex.splitOn "+").map fun x => (if x == "-" then some [] else bytesOfHex? x).getD []).flatten
    let nf := (fn.drop 1).toString.toNat?.getD 0
    let ids := (List.range nf).map fun i => toString (i + j.nextId)
    let h := parseH ((kvOf rest "h").getD "ok:0")
    let j' := { j' with nextId := j.nextId + nf }
    match parseObs ob with
    | none => fail "unparsable-observation"
    | some o =>
      if o.r == "skipped" then j' else
      match o.calls, o.out with
      | none, _ => fail "unparsable-calls"
      | _, none => fail "unparsable-out"
      | some calls, some out =>
      -- C06, for every step, aligned or not
      if !(calls.all fun c => validCall c.name c.args c.payload c.fds.length) then fail "C06-handler-args-invalid" else
      if calls.length > 1 then fail "C18-handler-invoked-more-than-once" else
      if o.n != 0 then fail "C01-ack-with-descriptors" else
      -- C08: the stream ends inside a message ⇒ an error, no dispatch, `disconnected` only at a message boundary
      let closing := rest.contains "close"
      let truncated := closing && j.alignedSoFar &&
        (bytes.length < 12 || bytes.length < 12 + leVal ((bytes.drop 8).take 4)) &&
        (bytes.length < 12 || decide (validHeader backendCodes (leVal (bytes.take 4)) (leVal ((bytes.drop 4).take 4)) (leVal ((bytes.drop 8).take 4))))
      if truncated && nf ≤ 32 then
        if !calls.isEmpty then fail "C08-partial-request-dispatched"
        else if !o.r.startsWith "err." then fail "C08-truncation-not-an-error"
        else if bytes.length > 0 && o.r == "err.disconnected" then fail "C08-disconnected-mid-message"
        else { j' with alignedSoFar := false }
      else
      if !j.alignedSoFar || bytes.length < 12 then { j' with alignedSoFar := false } else
      let req : Req := ⟨leVal (bytes.take 4), leVal ((bytes.drop 4).take 4), leVal ((bytes.drop 8).take 4), bytes.drop 12, nf⟩
      let j'' := { j' with alignedSoFar := aligned req }
      match classify req with
      | .unspecified => j''
      | .reject =>
        if !calls.isEmpty then fail "C06-malformed-request-reached-handler"
        else if !o.r.startsWith "err." then fail "C06-malformed-request-not-refused"
        else j''
      | .accept =>
        let (nm, args, pl) := expectedCall req.code req.body
        let expFds := if filesPrescribed req.code == 1 then ids else []
        match calls with
        | [c] =>
          if c.name != nm || c.args != args || c.payload != pl then fail "C18-handler-arguments-differ"
          else if c.fds != expFds then fail "C18-handler-file-differs"
          else if ackOwed j.ra req.needReply then
            (if out.isEmpty then fail "C18-ack-missing"
             else if !ackBytesOk req.code h out then fail "C18-ack-differs"
             else j'')
          else if !out.isEmpty then fail "C18-unexpected-ack"
          else j''
        | _ => fail "C18-handler-not-invoked"
  | _ => { j with err := some "bad-step" }

def run (toks : List String) : String :=
  match toks with
  | "besrv" :: rest =>
    let (scen, obs) := (rest.takeWhile (· != "=>"), (rest.dropWhile (· != "=>")).drop 1)
    if obs.head? == some "PANIC" then "spec-fail C06-panic " ++ " ".intercalate (obs.take 12) else
    let ss := splitBar scen
    let os := splitBar obs
    match os.getLast? with
    | some ["L=-"] =>
      if ss.length + 1 != os.length then "spec-fail observation-shape" else
      let j := (ss.zip os).foldl stepJ {}
      (match j.err with | some e => "spec-fail " ++ e | none => "spec-ok")
    | some l => "spec-fail C09-descriptor-leak " ++ " ".intercalate l
    | none => "spec-fail observation-shape"
  | _ => "bad-line"

end SpecDrv.BeSrv
