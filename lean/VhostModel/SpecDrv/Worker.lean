import VhostModel.DrvUtil
import VhostModel.Spec.KickDelivery
/-! spec driver family `worker`: the property's verdict on the interleaved run the implementation was observed to make.

The trace tokens are turned into the history of `Spec.KickDelivery` (`k` ↦ kick, the first token of a control message ↦
start, `.reply` ↦ reply, a worker read after which a descriptor's counter went from positive to zero ↦ consumed, with
`granted` = the handler call was granted (`w.read1`), `w.disp` ↦ dispatch, `w.dead` ↦ workerExit) and judged with
`dispatchAfterReply` (P1) and `lostWakeup` (P2).  The epilogue (everything runs free, the ring is activated again, one more
kick) is judged by counting: the worker must be alive, the final kick on the active ring must be dispatched, a kick whose
counter was consumed must have been followed by a handler call, nothing may stay readable on the current descriptor of the
active, drained ring.  Tag `n` is a SET_VRING_KICK with the no-descriptor flag (scenario `stopnf`): `Spec.KickDelivery`
does not count it as a restart, so a handler entry after the reply of the preceding GET_VRING_BASE is a P1 violation
whether it comes before, during or after that message; the restart of `stopnf` lies in the epilogue.  A failing run is identified by `key=<scenario>:<effective hold-point order up to the violation>`. -/
namespace SpecDrv.Worker
open DrvUtil Spec.KickDelivery

def msgOfTag (t : String) : Option CMsg :=
  if t == "d" then some .disable else if t == "e" then some .enable else if t == "s" then some .stop
  else if t == "r" then some .restart else if t == "x" then some .reset else if t == "n" then some .nofd else none

/-- some descriptor's bit went from 1 to 0 -/
def consumedBit (before after : String) : Bool :=
  (before.toList.zip after.toList).any fun (a, b) => a == '1' && b == '0'

structure Acc where
  evs : List Ev            -- chronological
  eff : List String        -- effective tokens, chronological
  bits : String
  fds : Nat                -- descriptors sent so far - 1 (index of the current one)
  kickFd : Option Nat      -- descriptor the scheduled kick was raised on
  bad : Option String      -- first violation (clause)

def stepTok (a : Acc) (tokb : String) : Acc :=
  if a.bad.isSome then a else
  match tokb.splitOn "/" with
  | [t, b] =>
    let eff := if t == "w.idle" || t == "c.none" || t == "w.gone" then a.eff else a.eff ++ [t]
    let a1 := { a with eff := eff, bits := b }
    let a2 : Acc :=
      if t == "k" then { a1 with evs := a.evs ++ [.kick a.fds], kickFd := some a.fds }
      else if t == "w.disp" then { a1 with evs := a.evs ++ [.dispatch] }
      else if t == "w.dead" then { a1 with evs := a.evs ++ [.workerExit] }
      else if t == "w.read1" then (if consumedBit a.bits b then { a1 with evs := a.evs ++ [.consumed true] } else a1)
      else if t == "w.read0" then (if consumedBit a.bits b then { a1 with evs := a.evs ++ [.consumed false] } else a1)
      else match t.splitOn "." with
        | [tag, nm] =>
          match msgOfTag tag with
          | some m =>
            if nm == "state" then { a1 with evs := a.evs ++ [.start m], fds := if m == .restart then a.fds + 1 else a.fds }
            else if nm == "reply" then { a1 with evs := a.evs ++ [.reply m] }
            else a1
          | none => a1
        | _ => a1
    let bad := if dispatchAfterReply a2.evs then some "dispatch-after-reply"
      else if a2.evs.contains .workerExit then some "worker-exited"
      else if a2.evs.contains (.consumed false) then some "lost-wakeup"
      else if t.startsWith "w." && t.contains '>' || t.endsWith "?" || t.endsWith ".stuck" || t.endsWith ".closed" then some "unexpected-step"
      else none
    { a2 with bad := bad }
  | _ => { a with bad := some "unparsable" }

def key (scen : String) (a : Acc) (sfx : String) : String := s!"{scen}:{"<".intercalate a.eff}{sfx}"

def run (toks : List String) : String :=
  let (scenT, obs) := splitArrow toks
  let scen := (kv scenT "scen").getD "?"
  match kv obs "tr", kv obs "end", kv obs "alive", kv obs "fin" with
  | some tr, some en, some alive, some fin =>
    let toksT := if tr == "-" then [] else tr.splitOn ","
    let a := toksT.foldl stepTok { evs := [], eff := [], bits := "0", fds := 0, kickFd := none, bad := none }
    match a.bad with
    | some why => s!"spec-fail {why} key={key scen a ""}"
    | none =>
      match (en.splitOn ".").mapM hex? with
      | some [_n1, n2, n3] =>
        let cur := fin.toList.getLast?
        let kickBit := a.kickFd.bind fun k => fin.toList[k]?
        if alive != "1" then s!"spec-fail worker-exited key={key scen a "|end"}"
        else if obs.contains "conn=lost" then s!"spec-fail connection-lost key={key scen a "|end"}"
        else if n3 != n2 + 1 then s!"spec-fail kick-not-delivered key={key scen a "|end"}"
        else if kickBit == some '0' && n2 == 0 then s!"spec-fail lost-wakeup key={key scen a "|end"}"
        else if cur != some '0' then s!"spec-fail kick-not-delivered key={key scen a "|end"}"
        else "spec-ok"
      | _ => "bad-line"
  | _, _, _, _ => if obs.any (·.startsWith "setup-failed") then "spec-fail setup-failed key=setup" else "bad-line"
end SpecDrv.Worker
