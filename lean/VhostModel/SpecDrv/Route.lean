import VhostModel.DrvUtil
import VhostModel.Spec.Routing
/-! spec driver family `route`: the property's verdict on what the implementation's backend saw -/
namespace SpecDrv.Route
open DrvUtil Spec.Routing

/-- `t<hex>` / `e<hex>` / `s<q.q.q>` fields -/
def field (c : Char) (s : String) : Option String :=
  match s.toList with
  | d :: rest => if d == c then some (String.ofList rest) else none
  | [] => none

def parseSlice (s : String) : Option (List Nat) :=
  if s == "-" then some [] else (s.splitOn ".").mapM hex?

/-- one dispatch `t<t>:e<e>:s<slice>` -/
def parseDispatch (s : String) : Option (Nat × Nat × List Nat) :=
  match s.splitOn ":" with
  | [a, b, c] => do
    let t ← (field 't' a).bind hex?
    let e ← (field 'e' b).bind hex?
    let sl ← (field 's' c).bind parseSlice
    pure (t, e, sl)
  | _ => none

/-- verdict on one observation token -/
def checkTok (masks : List Nat) (n : Nat) (tok : String) : Option String :=
  match tok.splitOn "=" with
  | ["k", rest] =>
    match rest.splitOn ":" with
    | q :: body =>
      match hex? q with
      | none => some "unparsable"
      | some q =>
        let body := ":".intercalate body
        let obs : Option (List (Nat × Nat × List Nat)) :=
          if body == "none" then some [] else (body.splitOn "+").mapM parseDispatch
        match obs with
        | none => some s!"kick-{hx q}-not-dispatched-cleanly"
        | some o => if kickOk masks n q o then none else some s!"kick-{hx q}-misrouted"
    | _ => some "unparsable"
  | ["p", rest] =>
    match rest.splitOn ":" with
    | [t, id, "rej"] =>
      match hex? t, hex? id with
      | some t, some id => if listenerOk n t id .rejected then none else some s!"listener-{hx id}"
      | _, _ => some "unparsable"
    | [t, id, "lost"] =>
      match hex? t, hex? id with
      | some t, some id => if listenerOk n t id .lost then none else some s!"listener-{hx id}-accepted-but-not-delivered"
      | _, _ => some "unparsable"
    | [_, _, "no-thread"] => none
    | [t, id, t', e] =>
      match hex? t, hex? id, (field 't' t').bind hex?, (field 'e' e).bind hex? with
      | some t, some id, some t', some e =>
        if listenerOk n t id (.delivered t' e) then none
        else if id ≤ n then some s!"listener-{hx id}-reserved-id-accepted"
        else some s!"listener-{hx id}-delivered-as-{hx e}"
      | _, _, _, _ => some "unparsable"
    | _ => some "unparsable"
  | _ => if tok == "-" then none else some s!"unexpected-{tok}"

/-- input: `scenario => observation` -/
def run (toks : List String) : String :=
  let (scen, obs) := splitArrow toks
  match kvHex scen "n", kvHexList scen "masks", kvHexList scen "kicks" with
  | some n, some masks, some kicks =>
    -- every kick of the scenario must be reported, in order
    let ktoks := obs.filter (·.startsWith "k=")
    let reported := ktoks.filterMap fun t => match (t.drop 2).toString.splitOn ":" with | q :: _ => hex? q | _ => none
    if reported != kicks then "spec-fail kicks-not-all-observed" else
    match obs.findSome? (checkTok masks n) with
    | none => "spec-ok"
    | some why => s!"spec-fail {why}"
  | _, _, _ => "bad-line"
end SpecDrv.Route
