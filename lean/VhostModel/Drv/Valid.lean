import VhostModel.Model.Msgs
import VhostModel.Gen.Codes
/-! driver family `valid` (model side): evaluate the *generated* validator on the bytes -/
namespace Drv.Valid
open Base Model.Msgs Gen

def b2s (b : Bool) : String := if b then "1" else "0"
def codes (t : List (String × Nat)) : List Nat := t.map (·.2)

def evalGen (ty : String) (bs : Bytes) : Option Bool :=
  match ty with
  | "FrontendHeader" => (decHeader bs).map (·.isValid (codes Codes.FrontendReq.table))
  | "BackendHeader" => (decHeader bs).map (·.isValid (codes Codes.BackendReq.table))
  | "GpuHeader" => (decGpuHeader bs).map (·.isValid (codes Codes.GpuBackendReq.table))
  | "VhostUserU64" => (decU64 bs).map (·.isValid)
  | "VhostUserMemory" => (decMemory bs).map (·.isValid)
  | "VhostUserMemoryRegion" => (decRegion bs).map (·.isValid)
  | "VhostUserSingleMemoryRegion" => (decSingle bs).map (·.isValid)
  | "VhostUserVringState" => (decVringState bs).map (·.isValid)
  | "VhostUserVringAddr" => (decVringAddr bs).map (·.isValid)
  | "VhostUserConfig" => (decConfig bs).map (·.isValid)
  | "VhostUserInflight" => (decInflight bs).map (·.isValid)
  | "VhostUserLog" => (decLog bs).map (·.isValid)
  | "VhostUserSharedMsg" => (decShared bs).map (·.isValid)
  | "VhostUserTransferDeviceState" => (decTransfer bs).map (·.isValid)
  | "VhostUserMMap" => (decMMap bs).map (·.isValid)
  | _ => none

/-- `valid <Type> <hex>` → `0|1`; `valid sizeof <Type>` → size computed from the generated struct table -/
def run (toks : List String) : String :=
  match toks with
  | ["valid", "sizeof", ty] => match structSize ty with | some n => toString n | none => "unknown-type"
  | ["valid", ty, hex] =>
    match bytesOfHex? hex with
    | none => "bad-hex"
    | some bs => match evalGen ty bs with
      | some b => b2s b
      | none => "undecodable"
  | _ => "bad-line"
end Drv.Valid
