import VhostModel.DrvUtil
import VhostModel.Model.Routing
/-! driver family `route` (model side): predicted observation of a routing scenario -/
namespace Drv.Route
open DrvUtil Model.Routing

def fmtSlice (sl : List Nat) : String :=
  if sl.isEmpty then "-" else ".".intercalate (sl.map hx)

def fmtKick (masks : List U64) (n : Nat) (hasExit : Bool) (q : Nat) : String :=
  let obs := kickObs masks n q hasExit
  let body := if obs.isEmpty then "none"
    else "+".intercalate (obs.map fun (t, e, sl) => s!"t{hx t}:e{hx e}:s{fmtSlice sl}")
  s!"k={hx q}:{body}"

def fmtProbe (masks : List U64) (n : Nat) (hasExit : Bool) (t id : Nat) : String :=
  match threadVrings masks n t with
  | none => s!"p={hx t}:{hx id}:no-thread"
  | some sl =>
    match listener n sl.length hasExit (BitVec.ofNat 64 id) with
    | none => s!"p={hx t}:{hx id}:rej"
    | some .exit => s!"p={hx t}:{hx id}:lost"
    | some (.ring ev) => s!"p={hx t}:{hx id}:t{hx t}:e{hx ev}"
    | some (.custom ev) => s!"p={hx t}:{hx id}:t{hx t}:e{hx ev}"

def parseProbes (s : String) : Option (List (Nat × Nat)) :=
  if s == "-" then some [] else
  (s.splitOn ",").mapM fun x =>
    match x.splitOn ":" with
    | [a, b] => do pure ((← hex? a), (← hex? b))
    | _ => none

def run (toks : List String) : String :=
  match kvHex toks "n", kvHexList toks "masks", kvHexList toks "kicks", (kv toks "probes").bind parseProbes with
  | some n, some masks, some kicks, some probes =>
    if n > 64 then "out-of-model" else
    let ms := masks.map (BitVec.ofNat 64)
    let hasExit := kv toks "ex" != some "0"
    let out := kicks.map (fmtKick ms n hasExit) ++ probes.map (fun (t, id) => fmtProbe ms n hasExit t id)
    if out.isEmpty then "-" else " ".intercalate out
  | _, _, _, _ => "bad-line"
end Drv.Route
