import VhostModel.Model.BackendProxy
import VhostModel.Model.FrontendSrv
import VhostModel.Drv.Srv
/-! driver family `proxy` (model side): `Model.BackendProxy` composed with `Model.FrontendSrv` (mode=srv) or with the
scripted acknowledgements of the raw peer (mode=peer) -/
namespace Drv.Proxy
open Base Model.Stream Model.BackendProxy
open Model.BackendSrv (Err)

def hx (n : Nat) : String := hexOfNat n
def bytesHex (b : Bytes) : String := if b.isEmpty then "-" else hexOfBytes b
def pn (s : String) : Nat := (natOfHex? s).getD 0
def kvOf := Drv.Srv.kvOf

/-- `h=ok:<n>|errno:<e>|err` -/
def parseH (s : String) : Model.FrontendSrv.HOut :=
  match s.splitOn ":" with
  | ["ok", n] => .okv (pn n)
  | ["errno", e] => .errno (pn e)
  | _ => .err

def padBytes (s : String) : Bytes :=
  if s == "-" then List.replicate 7 0 else ((bytesOfHex? s).getD [] ++ List.replicate 7 0).take 7

/-- the argument struct of an operation as raw bytes (`ByteValued::as_slice`) -/
def parseCall (toks : List String) (next : Nat) : Option (Call × Nat) :=
  let args := toks.filter (fun t => !t.startsWith "h=" && !t.startsWith "r=" && t != "then-close")
  let mm (k : Kind) (a : List String) : Option (Call × Nat) :=
    match a with
    | [id, fo, so, ln, fl, pad] =>
      let body := leBytes 1 (pn id) ++ padBytes pad ++ leBytes 8 (pn fo) ++ leBytes 8 (pn so) ++ leBytes 8 (pn ln) ++ leBytes 8 (pn fl)
      if k == .map then some (⟨k, body, [next]⟩, next + 1) else some (⟨k, body, []⟩, next)
    | _ => none
  match args with
  | ["add", u] => some (⟨.add, leBytes 16 (pn u), []⟩, next)
  | ["remove", u] => some (⟨.remove, leBytes 16 (pn u), []⟩, next)
  | ["lookup", u] => some (⟨.lookup, leBytes 16 (pn u), [next]⟩, next + 1)
  | "map" :: a => mm .map a
  | "unmap" :: a => mm .unmap a
  | _ => none

def fmtRet : Ret → String
  | .ok v => s!"ok:{hx v}"
  | .err e => "err." ++ e.name
  | .blocked => "blocked"

def fmtSrvRes : Model.FrontendSrv.Res → String
  | .ok n => s!"ok:{hx n}"
  | .err e => "err." ++ e.name
  | .blocked => "blocked"
  | .panic => "panic"

structure DSt where
  pst : PSt := {}
  sst : Model.FrontendSrv.FSt := {}
  c2s : List Cell := []
  s2c : List Cell := []
  alive : Bool := true
  next : Nat := 1
  dead : Bool := false
  obs : List String := []

def doOp (srvMode : Bool) (d : DSt) (toks : List String) : DSt :=
  if d.dead then { d with obs := d.obs ++ ["ret=skipped"] } else
  let quiet := if srvMode then "ret=ok c=- sr=- lc=0" else "ret=ok w=- wf=- lc=0"
  match toks with
  | ["ra", v] => { d with pst := { d.pst with replyAck := v == "1" }, obs := d.obs ++ [quiet] }
  | ["so", v] => { d with pst := { d.pst with sharedObject := v == "1" }, obs := d.obs ++ [quiet] }
  | ["shm", v] => { d with pst := { d.pst with shmem := v == "1" }, obs := d.obs ++ [quiet] }
  | ["fail", e] => { d with pst := { d.pst with error := some (pn e) }, obs := d.obs ++ [quiet] }
  | ["sra", v] => { d with sst := { d.sst with replyAck := v == "1" }, obs := d.obs ++ [quiet] }
  | ["sfail", e] => { d with sst := d.sst.setFailed (pn e), obs := d.obs ++ [quiet] }
  | _ =>
  match parseCall toks d.next with
  | none => { d with obs := d.obs ++ ["bad-op"] }
  | some (c, next') =>
  let d := { d with next := next' }
  let fin (ret calls sr w wf : String) (d : DSt) : DSt :=
    { d with obs := d.obs ++ [if srvMode then s!"ret={ret} c={calls} sr={sr} lc=0" else s!"ret={ret} w={w} wf={wf} lc=0"] }
  match request d.pst c with
  | .error e => fin ("err." ++ e.name) "-" "-" "-" "-" d
  | .ok req =>
    if !d.alive then fin "err.sockBroken" "-" "-" "-" "-" d else
    let wb := wire req
    let cells := segCells wb req.fds
    let wfs := if req.fds.isEmpty then "-" else ",".intercalate (req.fds.map toString)
    if srvMode then
      let h := parseH ((kvOf toks "h").getD "ok:0")
      let r := Model.FrontendSrv.step (kernelChooser false) false d.sst () (d.c2s ++ cells) h
      -- the serve loop drops the server (closing the channel) on any error that is not the application handler's
      let alive := match r.o.res with
        | .ok _ => true
        | .err .handlerErr => true
        | _ => false
      let calls := if r.o.calls.isEmpty then "-" else ";".intercalate (r.o.calls.map Drv.Srv.fmtCall)
      let s2c := d.s2c ++ segCells r.o.out []
      let co := callRecv (kernelChooser false) (!alive) d.pst req () s2c
      let d' := { d with c2s := r.rest, alive := alive }
      match co.ret with
      | .blocked => fin "blocked" calls (fmtSrvRes r.o.res) "-" "-" { d' with dead := true, s2c := co.rest }
      | ret => fin (fmtRet ret) calls (fmtSrvRes r.o.res) "-" "-" { d' with s2c := co.rest }
    else
      let rs := (kvOf toks "r").getD "-"
      let (s2cNew, alive) :=
        if rs == "-" then (([] : List Cell), true)
        else if rs == "close" then ([], false)
        else
          let (hexs, n) := match rs.splitOn "/" with
            | [a, b] => (a, b.toNat?.getD 0)
            | _ => (rs, 0)
          let bytes := (bytesOfHex? hexs).getD []
          (segCells bytes ((List.range n).map (· + 2000000)), !toks.contains "then-close")
      let s2c := d.s2c ++ s2cNew
      let co := callRecv (kernelChooser false) (!alive) d.pst req () s2c
      let d' := { d with alive := alive }
      match co.ret with
      | .blocked => fin "blocked" "-" "-" (bytesHex wb) wfs { d' with dead := true, s2c := co.rest }
      | ret => fin (fmtRet ret) "-" "-" (bytesHex wb) wfs { d' with s2c := co.rest }

def run (toks : List String) : String :=
  match toks with
  | "proxy" :: rest =>
    match Drv.Srv.splitSteps rest with
    | head :: ops =>
      let srvMode := (kvOf head "mode").getD "srv" == "srv"
      let d := ops.foldl (doOp srvMode) {}
      " | ".intercalate (d.obs ++ ["L=-"])
    | [] => "bad-line"
  | _ => "bad-line"

end Drv.Proxy
