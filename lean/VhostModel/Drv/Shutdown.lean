import VhostModel.DrvUtil
import VhostModel.Model.Shutdown
/-!
driver family `shutdown` (model side, C16): runs a harness script through `Model.Shutdown.step` (and the teardown
system `Model.Shutdown.TD.step`) and predicts the observation.

Scenario (see `harness/src/fam_shutdown.rs`):
`shutdown m=wait|serve ex=0|1 wk=<n> arm=<P+P|-> reqs=<kind,..|-> sched=<ev>,..`.
After every event the daemon thread runs as far as the model lets it, with reads taking as many bytes as are
there (`nextDaemon`): until it is parked at an armed hold point (`pre`, `post`, `fin`; `cb` = inside the backend
callback, i.e. program counter `handler`), blocked in a read (no label enabled), or gone.  The shutdown callers, the
peer and the owner of the daemon object are driven by the script, so the prediction is a single observation.
-/
namespace Drv.Shutdown
open DrvUtil Model.Shutdown

/-- the request kinds of the harness -/
def reqOf : String → Option Req
  | "gf" => some { body := 0, reply := 20 }
  | "sf" => some { body := 8 }
  | "svn" => some { body := 8, hOk := false }
  | "bad" => some { body := 0, hdrOk := false }
  | _ => none

/-- among these kinds exactly the failing one (`svn`: the index check precedes every backend call) makes no
backend callback, so the thread cannot be parked inside it -/
def hasCb (r : Req) : Bool := r.hOk

structure H where
  s : St
  armed : List String
  waitStarted : Bool
  snaps : List String
  /-- at the scripted drop the daemon thread was gone already: the drop is the handler's last owner -/
  dropLast : Bool := false
  supplied : Bool := true

def parked (armed : List String) (s : St) : Option Char :=
  match s.d with
  | .pre => if armed.contains "pre" then some 'P' else none
  | .post => if armed.contains "post" then some 'O' else none
  | .fin _ => if armed.contains "fin" then some 'F' else none
  | .handler r => if armed.contains "cb" ∧ hasCb r then some 'C' else none
  | _ => none

/-- let the daemon thread run -/
def settleD (armed : List String) : Nat → St → St
  | 0, s => s
  | fuel + 1, s =>
    match parked armed s with
    | some _ => s
    | none =>
      match nextDaemon s with
      | none => s
      | some l =>
        match step s l with
        | some s' => settleD armed fuel s'
        | none => s

/-- `wait()` in the background: `join` as soon as the thread is gone, then classify -/
def settleW (started : Bool) (s : St) : St :=
  if started then
    match step s .wJoin with
    | some s1 => (step s1 .wClassify).getD s1
    | none => s
  else s

def fuelOf (s : St) : Nat := 16 * (s.inQ + s.toSend + 4) + 64

def settle (h : H) : H :=
  let s1 := settleD h.armed (fuelOf h.s) h.s
  { h with s := settleW h.waitStarted s1 }

/-- `joinStuck`: the daemon object was dropped while the thread was alive and the backend supplies no exit events:
the thread, last owner of the handler, ends up joining workers that never return -/
def dChar (armed : List String) (s : St) (joinStuck : Bool) : Char :=
  match parked armed s with
  | some c => c
  | none => if s.d.isExited then (if joinStuck then 'J' else 'X') else if (nextDaemon s).isNone then 'B' else '?'

def wChar (h : H) : Char :=
  if !h.waitStarted then '-'
  else match h.s.results.getLast? with
    | none => 'w'
    | some .ok => 'k'
    | some (.err _) => 'e'

def stepD (s : St) (l : Lbl) : St := (step s l).getD s

/-- one script event; returns the new state and an optional `/n` suffix for the snapshot -/
def applyEv (ev : String) (h : H) : Option (H × String) :=
  match ev.toList with
  | 'a' :: p => some ({ h with armed := String.ofList p :: h.armed }, "")
  | 'r' :: p => some ({ h with armed := h.armed.filter (· != String.ofList p) }, "")
  | 'w' :: a =>
    let n? := if a == ['a'] then some h.s.toSend else hex? (String.ofList a)
    n?.map fun n =>
      let n := min n h.s.toSend
      (if n = 0 then h else { h with s := stepD h.s (.pWrite n) }, "")
  | ['p', 'r'] =>
    if h.s.peerClosed then some (h, "/0") else some ({ h with s := stepD h.s .pRead }, "/" ++ hx h.s.outQ)
  | ['p', 'c'] => some ({ h with s := stepD h.s .pClose }, "")
  | 's' :: i => (String.ofList i).toNat?.map fun i =>
    -- caller i is one thread: while it sits between its two steps it cannot start another call (event ignored)
    if h.s.callers i == .stored then (h, "") else ({ h with s := stepD (stepD h.s (.cStore i)) (.cShut i) }, "")
  | 'f' :: i => (String.ofList i).toNat?.map fun i => ({ h with s := stepD h.s (.cStore i) }, "")
  | 'g' :: i => (String.ofList i).toNat?.map fun i => ({ h with s := stepD h.s (.cShut i) }, "")
  | 'S' :: a =>
    match (String.ofList a).splitOn "x" with
    | [k, r] =>
      match k.toNat?, r.toNat? with
      | some k, some r =>
        -- every interleaving of the callers' steps ends in the same state; take them one caller after the other
        let s' := (List.range k).foldl (fun s i =>
          (List.range r).foldl (fun s _ => stepD (stepD s (.cStore (100 + i))) (.cShut (100 + i))) s) h.s
        some ({ h with s := s' }, "")
      | _, _ => none
    | _ => none
  | ['q'] =>
    if h.waitStarted ∨ !h.s.hasConn then some (h, "")
    else some ({ h with s := stepD (stepD h.s (.cStore 1000)) (.cShut 1000) }, "")
  | ['W'] => some ({ h with waitStarted := true }, "")
  | ['D'] =>
    if h.waitStarted ∨ h.s.dropped then some (h, "")
    else some ({ h with s := stepD h.s .drop, dropLast := h.s.d.isExited }, "")
  | _ => none

def snap (ev : String) (h : H) (suffix : String) (serve : Bool) : String :=
  ev ++ ":" ++ String.ofList [dChar h.armed h.s (h.s.dropped && !h.dropLast && !h.supplied),
    if serve then '-' else wChar h] ++ suffix

def runEvents (serve : Bool) (h0 : H) (evs : List String) : Option H :=
  evs.foldlM (fun h ev =>
    (applyEv ev h).map fun (h1, suf) =>
      let h2 := settle h1
      { h2 with snaps := h2.snaps ++ [snap ev h2 suf serve] }) h0

def resStr : WRes → String
  | .ok => "ok"
  | .err e => "err:" ++ e.cls

def peerStr (s : St) : String :=
  if s.peerClosed then "closed" else hx s.outQ ++ "+" ++ (if s.shut then "eof" else "wb")

/-! teardown -/

def tdLabels (n : Nat) : List TD.Lbl :=
  [.svSignal, .hSignal, .hJoin] ++ (List.range n).map TD.Lbl.wkExit

/-- run the teardown system until no step (other than the beginning of a drop / the return of `wait`) is enabled -/
def tdSettle (c : TD.Cfg) : Nat → TD.St → TD.St
  | 0, t => t
  | fuel + 1, t =>
    match (tdLabels c.n).findSome? (fun l => TD.step c t l) with
    | some t' => tdSettle c fuel t'
    | none => t

def tdFuel (c : TD.Cfg) : Nat := 4 * c.n + 16

def raised (c : TD.Cfg) (t : TD.St) : Nat := ((List.range c.n).filter fun i => t.evt i).length

/-- drop of the handler (last owner gone): `left=<workers alive> drop=ok|blocked` -/
def dropStr (c : TD.Cfg) (t : TD.St) : String :=
  let t1 := tdSettle c (tdFuel c) ((TD.step c t .hBegin).getD t)
  "left=" ++ hx (TD.alive t1.gone c.n) ++ " drop=" ++ (if t1.h == .dropped then "ok" else "blocked")

/-- second `start()` on the same daemon: a fresh peer exchanges GET_FEATURES and closes; then `wait()` -/
def restartStr (s : St) : String :=
  match restart s [{ body := 0, reply := 20 }] with
  | none => "fail/no/blocked"
  | some n0 =>
    let n1 := settleD [] 200 n0
    let n2 := settleD [] 200 (stepD n1 (.pWrite 12))
    let served := n2.outQ == 20
    let n3 := settleD [] 200 (stepD (stepD n2 .pRead) .pClose)
    let n4 := settleW true n3
    let w := if n4.results.length > n3.results.length then
        (match n4.results.getLast? with | some r => resStr r | none => "blocked") else "blocked"
    "ok/" ++ (if served then "ok" else "no") ++ "/" ++ w

def epilogueWait (c : TD.Cfg) (h : H) : String :=
  let st := "st=" ++ ",".intercalate h.snaps
  -- after the last event the daemon thread is released from every hold point
  let h := { h with armed := [] }
  if h.s.dropped then
    -- the detached daemon thread ends once it is released; the last owner of the handler drops it
    st ++ " wait=none hs=- peer=" ++ peerStr h.s ++ " wait2=- restart=skip " ++
      (if c.supplied then "left=0 drop=ok"
       else "left=" ++ hx c.n ++ " drop=" ++ (if h.dropLast then "blocked" else "ok"))
  else
    let h1 := settle { h with waitStarted := true }
    if !h1.s.hasThread then
      let w := match h1.s.results.getLast? with | some r => resStr r | none => "?"
      -- callers still parked between their two steps are released after wait() returned
      let s2 := (List.range 8).foldl (fun s i => stepD s (.cShut i)) h1.s
      let s3 := stepD s2 .wNoThread
      let w2 := if s3.results.length > s2.results.length then "ok" else "err"
      st ++ " wait=" ++ w ++ " hs=" ++ (if h1.s.hasConn then "1" else "0") ++ " peer=" ++ peerStr s2 ++
        " wait2=" ++ w2 ++ " restart=" ++ restartStr s3 ++ " " ++ dropStr c (TD.init false)
    else
      -- the watchdog fires; the harness then closes the peer's end to get the process going again
      st ++ " wait=blocked hs=- peer=forced wait2=ok restart=ok/ok/err:disconnected " ++ dropStr c (TD.init false)

def epilogueServe (c : TD.Cfg) (h : H) : String :=
  let st := "st=" ++ ",".intercalate h.snaps
  let h := { h with armed := [] }
  let h1 := settle { h with waitStarted := true }
  match h1.s.results.getLast? with
  | some w =>
    let t1 := tdSettle c (tdFuel c) ((TD.step c (TD.init true) (.svReturn w)).getD (TD.init true))
    let r := match t1.sv with | .done _ r => resStr r | _ => "?"
    st ++ " serve=" ++ r ++ " exit=" ++ hx (raised c t1) ++ "/" ++ hx c.n ++ " wleft=" ++ hx (TD.alive t1.gone c.n) ++
      " peer=" ++ peerStr h1.s ++ " " ++ dropStr c t1
  | none =>
    let t1 := tdSettle c (tdFuel c) ((TD.step c (TD.init true) (.svReturn .ok)).getD (TD.init true))
    st ++ " serve=blocked exit=" ++ hx (raised c t1) ++ "/" ++ hx c.n ++ " wleft=" ++ hx (TD.alive t1.gone c.n) ++
      " peer=forced " ++ dropStr c t1

def listOf (toks : List String) (key : String) (sep : String) : List String :=
  match kv toks key with
  | none => []
  | some v => (v.splitOn sep).filter fun x => x ≠ "" ∧ x ≠ "-"

def run (toks : List String) : String :=
  let mode := (kv toks "m").getD "wait"
  let ex := kv toks "ex" != some "0"
  match ((kv toks "wk").getD "1").toNat?, (listOf toks "reqs" ",").mapM reqOf with
  | some wk, some reqs =>
    let c : TD.Cfg := ⟨wk, ex⟩
    let serve := mode == "serve"
    let h0 : H := settle { s := init reqs, armed := listOf toks "arm" "+", waitStarted := false, snaps := [], supplied := ex }
    let h0 := { h0 with snaps := [snap "0" h0 "" serve] }
    match runEvents serve h0 (listOf toks "sched" ",") with
    | none => "bad-event"
    | some h => if serve then epilogueServe c h else epilogueWait c h
  | _, _ => "bad-line"

end Drv.Shutdown
