import VhostModel.Model.Locks
/-!
driver family `locks` (model side, C10): runs a harness schedule through `Model.Locks.step` and
predicts the observation.

Scenario: `locks ep=fe|be|gpu ack=0|1 calls=<tag>,.. sched=<ev>,..` (events `sN` start thread N, `rN`
release thread N from its hold point; see `harness/src/fam_locks.rs`).  Between two events every started
thread runs as far as the model lets it: `acquire` (if the lock is free) · `send` · stop at the hold
point unless released · `recv` (if the call reads a reply) · `release`; the peer answers at once.
Where several started threads wait for a free lock the operating system picks one — the driver
explores every choice and prints the alternatives separated by ` | ` (the harness observation must be
one of them).

Reply fault `fault=<k>:<kind>`: `Cfg.fault k` = `close` for kind `close`, `bad` for `code` / `noreply` / `fd`
(the transition system does not care why the reader refuses the reply).  A caller whose `err` flag is set
(faulty reply, end-of-file, dead socket, local rejection) returned an error; in fault scenarios every error
result is printed as plain `err`, as the harness does.

Stress line: `locks ep=.. ack=.. stress=<threads>x<calls> seed=<hex>`: by `own_reply`/`all_complete`
every call gets the reply to its own request under every schedule, so the prediction (per-thread
ok/err counts of the LCG-drawn calls, number of requests) does not depend on the schedule.  With
`fault=<tag>:<kind>` every reply to a request with that tag is faulty: by `faulty_call_returns_error` /
`others_unaffected_by_faulty_reply` exactly those calls return an error instead.
-/
namespace Drv.Locks
open Model.Locks Spec.Locks

/-! ### small text helpers -/

def hexDigit? (c : Char) : Option Nat :=
  if '0' ≤ c ∧ c ≤ '9' then some (c.toNat - '0'.toNat)
  else if 'a' ≤ c ∧ c ≤ 'f' then some (c.toNat - 'a'.toNat + 10)
  else none

def hexNat? (cs : List Char) : Option Nat :=
  if cs.isEmpty then none else
  cs.foldl (fun acc c => match acc, hexDigit? c with
    | some a, some d => some (a * 16 + d)
    | _, _ => none) (some 0)

def toHex (n : Nat) : String := String.ofList (Nat.toDigits 16 n)

def hex2 (n : Nat) : String :=
  let d := Nat.toDigits 16 (n % 256)
  String.ofList (if d.length < 2 then '0' :: d else d)

def kvOf (toks : List String) (key : String) : Option String :=
  toks.findSome? fun t =>
    match t.splitOn "=" with
    | [k, v] => if k == key then some v else none
    | _ => none

/-- `<prefix><hex>[.<hex>]` -/
def argsOf (tag pre : String) : Option (Nat × Nat) :=
  let cs := tag.toList
  let p := pre.toList
  if p.isPrefixOf cs then
    let rest := String.ofList (cs.drop p.length)
    match rest.splitOn "." with
    | [a] => (hexNat? a.toList).map (·, 0)
    | [a, b] => do pure (← hexNat? a.toList, ← hexNat? b.toList)
    | _ => none
  else none

/-! ### the calls (kind and the result a caller sees when it consumes its own reply) -/

structure Call where
  tag : String
  kind : Kind
  exp : String

def feCall (ack : Bool) (tag : String) : Option Call :=
  let mk (k : Kind) (e : String) : Option Call := some ⟨tag, k, e⟩
  match tag with
  | "gf" => mk .reply "ok:40001111"
  | "gpf" => mk .reply "ok:2cb32b"
  | "gqn" => mk .reply "ok:20"
  | "gmms" => mk .reply "ok:3333"
  | "cds" => mk .reply "ok"
  | "sdsf" => mk .reply "ok:none"
  | "so" => mk .ack "ok"
  | "slb" => mk .fire "ok"
  | "slbr" => mk .reply "ok"
  | "gso" => mk .reply "ok:file"
  | "pca" => mk .reply "ok:file"
  | "gsc" => mk .reply "ok:2"
  | "ro" => mk .ack "ok"
  | "spfe" => mk .ack "ok"
  | "spfe0" => mk .ack "ok"
  | "rd" => mk .ack "ok"
  | "smt" => mk .ack "ok"
  | "amr" => mk .ack "ok"
  | "rmr" => mk .ack "ok"
  | "slf" => mk .ack "ok"
  | "sbrf" => mk .ack "ok"
  | "pcl" => mk .ack "ok"
  | "pce" => mk .ack "ok"
  | _ =>
    if tag.startsWith "gif" then
      (argsOf tag "gif").bind fun (n, _) => mk .reply ("ok:" ++ toHex (0x4000 + n))
    else if tag.startsWith "sif" then
      (argsOf tag "sif").bind fun _ => mk .ack "ok"
    else if ["sva", "svc", "svk", "svr", "sen"].any fun p => tag.startsWith p then
      (argsOf tag (String.ofList (tag.toList.take 3))).bind fun (q, _) =>
        if q < 0x20 then mk .ack "ok" else mk .rejected "err:invalidParam"
    else if tag.startsWith "gvb" then
      (argsOf tag "gvb").bind fun (q, _) =>
        if q < 0x20 then mk .reply ("ok:" ++ toHex (0x100 + q)) else mk .rejected "err:invalidParam"
    else if tag.startsWith "gcfg" then
      (argsOf tag "gcfg").bind fun (o, _) =>
        mk .reply ("ok:" ++ String.join ((List.range 4).map fun k => hex2 (o + 0xa0 + k)))
    else if tag.startsWith "scfg" then
      (argsOf tag "scfg").bind fun _ => mk .ack "ok"
    else if tag.startsWith "svn" ∨ tag.startsWith "svb" then
      (argsOf tag (if tag.startsWith "svn" then "svn" else "svb")).bind fun (q, n) =>
        if q < 0x20 then mk .ack (if ack ∧ n ≥ 0x8000 then "err:backendInternal" else "ok")
        else mk .rejected "err:invalidParam"
    else if tag.startsWith "sf" then
      (argsOf tag "sf").bind fun _ => mk .ack "ok"
    else none

def beCall (ack : Bool) (tag : String) : Option Call :=
  let pre := ["soa", "sor", "sol", "smap", "sunm"].find? fun p => tag.startsWith p
  pre.bind fun p => (argsOf tag p).bind fun (_, v) =>
    some ⟨tag, .ack, if ack ∧ v ≠ 0 then "err:frontendInternal" else "ok:0"⟩

def gpuCall (tag : String) : Option Call :=
  let mk (k : Kind) (e : String) : Option Call := some ⟨tag, k, e⟩
  match tag with
  | "gpf" => mk .reply "ok:5555"
  | "gdi" => mk .reply "ok:780"
  | "spf" => mk .fire "ok"
  | "cu" => mk .fire "ok"
  | _ =>
    if tag.startsWith "ged" then (argsOf tag "ged").bind fun (s, _) => mk .reply ("ok:" ++ toHex (0x80 + s))
    else if tag.startsWith "uds" then (argsOf tag "uds").bind fun _ => mk .reply "ok"
    else
      (["us", "sc", "cph", "cp", "ds", "dt"].find? fun p => tag.startsWith p).bind fun p =>
        (argsOf tag p).bind fun _ => mk .fire "ok"

def callOf (ep : String) (ack : Bool) (tag : String) : Option Call :=
  match ep with
  | "fe" => feCall ack tag
  | "be" => beCall ack tag
  | "gpu" => gpuCall tag
  | _ => none

/-! ### the schedule interpreter -/

structure H where
  st : St
  started : List Nat
  released : List Nat
  snaps : List String

/-- does the call pass a hold point (top of recv_reply* / wait_for_ack)? -/
def parks (c : Cfg) (i : Nat) : Bool :=
  match c.kind i with
  | .reply => true
  | .ack => true
  | _ => false

def pcIs (s : St) (i : Nat) (p : PC) : Bool := decide (s.pc i = p)

/-- the label the lock holder takes next, `none` if it is parked at its hold point (or finished) -/
def nextLbl (c : Cfg) (h : H) (i : Nat) : Option Lbl :=
  if pcIs h.st i .locked then some (if c.sends i ∧ ¬ h.st.closed then .send i else .release i)
  else if pcIs h.st i .sent then
    if parks c i ∧ ¬ h.released.contains i then none
    else some (if c.reads i then .recv i else .release i)
  else if pcIs h.st i .got then some (.release i)
  else none

/-- run until nothing moves; branches where several started threads wait for the free lock -/
def settle (c : Cfg) : Nat → H → List H
  | 0, h => [h]
  | fuel + 1, h =>
    match step c h.st .peer with
    | some s' => settle c fuel { h with st := s' }
    | none =>
      match h.st.holder with
      | some i =>
        match nextLbl c h i with
        | none => [h]
        | some l =>
          match step c h.st l with
          | some s' => settle c fuel { h with st := s' }
          | none => [h]
      | none =>
        let cands := h.started.filter fun i => pcIs h.st i .idle
        if cands.isEmpty then [h]
        else cands.flatMap fun i =>
          match step c h.st (.acquire i) with
          | some s' => settle c fuel { h with st := s' }
          | none => []

def isReq : Ev → Bool
  | .req _ => true
  | _ => false

def seenCount (s : St) : Nat := (s.trace.filter isReq).length - s.reqQ.length

def statusChar (c : Cfg) (h : H) (i : Nat) : Char :=
  if ¬ h.started.contains i then '-'
  else if pcIs h.st i .done then 'd'
  else if pcIs h.st i .sent ∧ parks c i ∧ ¬ h.released.contains i then 'h'
  else 'b'

def snapOf (c : Cfg) (ev : String) (h : H) : String :=
  ev ++ ":" ++ String.ofList ((List.range c.n).map (statusChar c h)) ++ "/" ++ toHex (seenCount h.st)

def applyEvent (c : Cfg) (fuel : Nat) (ev : String) (h : H) : List H :=
  let cs := ev.toList
  match cs with
  | k :: idx =>
    match (String.ofList idx).toNat? with
    | none => []
    | some i =>
      let h1 : H :=
        if k == 's' then (if h.started.contains i then h else { h with started := h.started ++ [i] })
        else { h with released := h.released ++ [i] }
      (settle c fuel h1).map fun h2 => { h2 with snaps := h2.snaps ++ [snapOf c ev h2] }
  | [] => []

/-- in fault scenarios every error result is printed as `err` -/
def collapse (e : String) : String := if e.startsWith "err" then "err" else e

def finalObs (c : Cfg) (hasFault : Bool) (calls : List Call) (h : H) : String :=
  let order := h.st.trace.filterMap fun e =>
    match e with
    | .req i => (calls[i]?).map (·.tag)
    | _ => none
  let got := (List.range c.n).map fun i =>
    match calls[i]? with
    | none => "none"
    | some cl =>
      if pcIs h.st i .done then
        if hasFault then
          (if h.st.err i then "err"
           else if c.reads i then (if h.st.got i == some i then collapse cl.exp else "wrong") else collapse cl.exp)
        else
          (if c.reads i then (if h.st.got i == some i then cl.exp else "wrong") else cl.exp)
      else "none"
  let done := String.ofList ((List.range c.n).map fun i => if pcIs h.st i .done then '1' else '0')
  "snaps=" ++ String.intercalate "," h.snaps ++
  " order=" ++ (if order.isEmpty then "-" else String.intercalate "," order) ++
  " got=" ++ String.intercalate "," got ++ " done=" ++ done

/-- `<k>:<kind>` -/
def parseFault (f : String) : Option (Nat × Fault) :=
  match f.splitOn ":" with
  | [k, kind] =>
    match k.toNat?, kind with
    | some i, "close" => some (i, .close)
    | some i, "code" => some (i, .bad)
    | some i, "noreply" => some (i, .bad)
    | some i, "fd" => some (i, .bad)
    | _, _ => none
  | _ => none

def runSched (ep : String) (ack : Bool) (tags : List String) (sched : List String) (fault : Option String) : String :=
  match tags.mapM (callOf ep ack) with
  | none => "bad-call"
  | some calls =>
    let kinds := calls.map (·.kind)
    let flt : Option (Option (Nat × Fault)) := fault.map parseFault
    if flt == some none then "bad-fault" else
    let fk : Option (Nat × Fault) := flt.join
    let badIdx : Bool := match fk with
      | some (k, _) => decide (k ≥ calls.length) || decide ((tags.filter (· == tags[k]?.getD "")).length ≠ 1)
      | none => false
    if badIdx then "bad-fault" else
    let c : Cfg := { n := calls.length, kind := fun i => (kinds[i]?).getD .rejected, ackMode := ack,
                     fault := fun i => match fk with
                       | some (k, f) => if i = k then f else .none
                       | none => .none }
    let fuel := 10 * c.n + 10
    let h0 : H := ⟨init, [], [], []⟩
    let hs := sched.foldl (fun acc ev => acc.flatMap (applyEvent c fuel ev)) [h0]
    -- drain: everybody is released and runs to completion
    let hs := hs.flatMap fun h =>
      (settle c fuel { h with released := List.range c.n }).map fun h2 =>
        { h2 with snaps := h2.snaps ++ [snapOf c "end" h2] }
    let obs := (hs.map (finalObs c fk.isSome calls)).eraseDups
    if obs.isEmpty then "bad-schedule" else String.intercalate " | " obs

/-! ### stress prediction -/

def stressFe : List String :=
  ["gf", "gpf", "gqn", "gmms", "gvb0", "gvb1", "gvb2", "gvb3", "gcfg10", "gcfg20", "sdsf", "cds", "so",
   "sf40001111", "svn1.100", "svn2.8000", "svb3.7", "svb4.8001", "scfg30", "gvb40", "ro", "rd", "smt", "amr",
   "rmr", "slbr", "slf", "sbrf", "gso", "pca", "pcl", "pce", "gsc", "gif2", "gif3", "sif2", "sva1", "svc2", "svk3",
   "svr4", "sen5", "svc40", "spfe"]
def stressBe : List String :=
  ["soa1.0", "soa2.1", "sor3.0", "sor4.1", "sol5.0", "sol6.1", "smap7.0", "smap8.1", "sunm9.0", "sunma.1"]
def stressGpu : List String :=
  ["gpf", "gdi", "ged0", "ged1", "ged2", "uds1", "uds2", "spf", "sc1", "cp2", "cph3", "us4", "ds5", "cu", "dt6"]

def lcg (x : UInt64) : UInt64 := x * 6364136223846793005 + 1442695040888963407

/-- (ok, err, requests) of one thread -/
def threadCounts (calls : Array Call) : Nat → UInt64 → Nat × Nat × Nat → Nat × Nat × Nat
  | 0, _, acc => acc
  | k + 1, x, (ok, err, reqs) =>
    let x' := lcg x
    let idx := ((x' >>> 33) % (UInt64.ofNat calls.size)).toNat
    match calls[idx]? with
    | none => (ok, err, reqs)
    | some cl =>
      let isOk := cl.exp.startsWith "ok"
      let sends := match cl.kind with | .rejected => false | _ => true
      threadCounts calls k x' (if isOk then ok + 1 else ok, if isOk then err else err + 1,
                               if sends then reqs + 1 else reqs)

def runStress (ep : String) (ack : Bool) (spec : String) (seed : String) (only : Option String)
    (fault : Option String) : String :=
  match spec.splitOn "x", hexNat? seed.toList with
  | [a, b], some sd =>
    match a.toNat?, b.toNat? with
    | some threads, some per =>
      let full := match ep with | "fe" => stressFe | "be" => stressBe | _ => stressGpu
      let tags := match only with | some o => o.splitOn "," | none => full
      match tags.mapM (callOf ep ack) with
      | none => "bad-call"
      | some calls =>
        -- every reply to a request with the faulted tag is faulty: that call returns an error
        let ftag : Option String := fault.bind fun f => (f.splitOn ":").head?
        let readsOf (k : Kind) : Bool := match k with | .reply => true | .ack => ack | _ => false
        let calls := calls.map fun cl =>
          if some cl.tag == ftag ∧ readsOf cl.kind then { cl with exp := "err" } else cl
        let arr := calls.toArray
        let per_t := (List.range threads).map fun t =>
          threadCounts arr per (UInt64.ofNat sd * 0x9E3779B97F4A7C15 + UInt64.ofNat t) (0, 0, 0)
        let oks := per_t.map fun (ok, err, _) => toHex ok ++ "." ++ toHex err
        let reqs := per_t.foldl (fun acc (_, _, r) => acc + r) 0
        "calls=" ++ toHex (threads * per) ++ " ok=" ++ String.intercalate "," oks ++
        " bad=0 early=0 done=" ++ toHex threads ++ " reqs=" ++ toHex reqs
    | _, _ => "bad-line"
  | _, _ => "bad-line"

def run (toks : List String) : String :=
  match kvOf toks "ep" with
  | none => "bad-line"
  | some ep =>
    let ack := kvOf toks "ack" == some "1"
    match kvOf toks "stress" with
    | some sp => runStress ep ack sp ((kvOf toks "seed").getD "1") (kvOf toks "only") (kvOf toks "fault")
    | none =>
      match kvOf toks "calls", kvOf toks "sched" with
      | some cs, some sc =>
        runSched ep ack (cs.splitOn ",") ((sc.splitOn ",").filter fun e => e ≠ "" ∧ e ≠ "-") (kvOf toks "fault")
      | _, _ => "bad-line"

end Drv.Locks
