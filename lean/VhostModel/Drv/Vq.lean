import VhostModel.DrvUtil
import VhostModel.Model.Vring
import VhostModel.Drv.Mem
/-! driver family `vq` (model side): predicted observation of a ring-configuration scenario.

Besides `Model.Vring` it encodes what the request server in front of the handler checks (read from
`backend_req_handler.rs`): the `VhostUserVringAddr` validator (alignment of the *user* addresses), the descriptor rule of
SET_VRING_KICK/CALL/ERR (bit 8 of the payload set ⇔ no descriptor attached), the protocol-feature gates of
SET_BACKEND_REQ_FD (BACKEND_REQ) and ADD/REM_MEM_REG (CONFIGURE_MEM_SLOTS) against the protocol features most recently set
on the connection, the region validators, and `Drv.Mem.kernelMmapOk`. -/
namespace Drv.Vq
open DrvUtil Model.Vring

structure St where
  d : Daemon
  files : List Drv.Mem.FileSpec
  /-- protocol features most recently set (request-server side; the harness restores them after a reconnect) -/
  proto : Nat := 0
  /-- number of eventfds the scenario created so far -/
  nfds : Nat := 0
  prevSample : String := ""

def b01 (b : Bool) : String := if b then "1" else "0"

def fmtRing (v : Vring) : String :=
  let q := v.queue
  s!"s{hx q.size}.r{b01 q.ready}.a{hx q.nextAvail}.u{hx q.nextUsed}.d{hx q.descTable}.v{hx q.availRing}.w{hx q.usedRing}.e{b01 q.eventIdx}.n{b01 v.enabled}"

def fmtSample (d : Daemon) : String := ";".intercalate (d.vrings.map fmtRing)

def fmtCall : BackendCall → String
  | .setEventIdx b => s!"E{b01 b}"
  | .ackedFeatures f => s!"A{hx f.toNat}"
  | .updateMemory _ => "U"
  | .setBackendReqFd _ _ _ => "B"

def fmtLog (l : List BackendCall) : String := if l.isEmpty then "-" else ",".intercalate (l.map fmtCall)

def isOk : Except Err Reply → Bool
  | .ok _ => true
  | .error _ => false

/-- finish one op: result token with sample -/
def emit (st : St) (d' : Daemon) (kind : String) (ok : Bool) (detail : String) : St × String :=
  let sample := fmtSample d'
  let shown := if sample == st.prevSample then "=" else sample
  ({ st with d := d', prevSample := sample }, s!"{kind}:{if ok then "ok" else "rej"}{detail}|{shown}")

def logSince (d d' : Daemon) : String := fmtLog (d'.log.drop d.log.length)

def hex2 (b : UInt8) : String := Drv.Mem.hex2 b

/-- file cells the `add_used` of ring `v` can touch, in address order: index (2 bytes) and element (8 bytes) -/
def candidateCells (d : Daemon) (v : Vring) : List (Nat × Nat) :=
  let slot := v.queue.usedRing + (4 + (v.queue.nextUsed % v.queue.size) * 8)
  let addrs := [v.queue.usedRing + 2, v.queue.usedRing + 3] ++ (List.range 8).map (slot + ·)
  addrs.filterMap (Model.MemTable.locate d.mem.regions)

def insertCell (c : Nat × Nat) : List (Nat × Nat) → List (Nat × Nat)
  | [] => [c]
  | x :: xs => if c == x then x :: xs else if c.1 < x.1 || (c.1 == x.1 && c.2 < x.2) then c :: x :: xs else x :: insertCell c xs

def stepOp (st : St) (tok : String) : Option (St × String) :=
  let d := st.d
  match tok.splitOn ":" with
  | ["num", i, n] => do
    let i ← hex? i; let n ← hex? n
    let (d', r) := step d (.setVringNum (BitVec.ofNat 32 i) (BitVec.ofNat 32 n))
    pure (emit st d' "num" (isOk r) "")
  | ["base", i, n] => do
    let i ← hex? i; let n ← hex? n
    let (d', r) := step d (.setVringBase (BitVec.ofNat 32 i) (BitVec.ofNat 32 n))
    pure (emit st d' "base" (isOk r) "")
  | ["en", i, e] => do
    let i ← hex? i; let e ← hex? e
    if e > 1 then pure (emit st d "en" false "") else
    let (d', r) := step d (.setVringEnable (BitVec.ofNat 32 i) (e == 1))
    pure (emit st d' "en" (isOk r) "")
  | ["gb", i] => do
    let i ← hex? i
    match step d (.getVringBase (BitVec.ofNat 32 i)) with
    | (d', .ok (.vringState ix num)) => pure (emit st d' "gb" true s!":{hx ix}.{hx num}")
    | (d', _) => pure (emit st d' "gb" false "")
  | ["addr", i, rest] => do
    let i ← hex? i
    match (rest.splitOn "/").mapM hex? with
    | some [desc, avail, used] =>
      if desc % 16 != 0 || avail % 2 != 0 || used % 4 != 0 then pure (emit st d "addr" false "") else
      let (d', r) := step d (.setVringAddr (BitVec.ofNat 32 i) (BitVec.ofNat 64 desc) (BitVec.ofNat 64 used) (BitVec.ofNat 64 avail))
      pure (emit st d' "addr" (isOk r) "")
    | _ => none
  | [k, p, fd] =>
    if k == "kick" || k == "call" || k == "err" then do
      let p ← hex? p
      let hasFile := fd == "1"
      let tokn := st.nfds
      let st := if hasFile then { st with nfds := st.nfds + 1 } else st
      let flagNoFd := p.testBit 8
      -- `has_fd && file.is_none() || !has_fd && nfiles != 0` ⇒ InvalidMessage
      if (!flagNoFd && !hasFile) || (flagNoFd && hasFile) then pure (emit st d k false "") else
      let fdv : Option Nat := if hasFile then some tokn else none
      let msg := if k == "kick" then Msg.setVringKick (BitVec.ofNat 64 p) fdv
                 else if k == "call" then Msg.setVringCall (BitVec.ofNat 64 p) fdv
                 else Msg.setVringErr (BitVec.ofNat 64 p) fdv
      let (d', r) := step d msg
      pure (emit st d' k (isOk r) "")
    else if k == "ui" then do
      let v ← hex? fd
      match (p.splitOn "/").mapM hex? with
      | some [f, o] =>
        match st.files[f]? with
        | some fs =>
          if fs.kind == .efd || o + 2 > fs.len then pure (emit st d "ui" false "") else
          let files := (d.files.set f o (UInt8.ofNat (v % 256))).set f (o + 1) (UInt8.ofNat (v / 256 % 256))
          pure (emit st { d with files := files } "ui" true "")
        | none => pure (emit st d "ui" false "")
      | _ => none
    else none
  | ["feat", f] => do
    let f ← hex? f
    let (d', r) := step d (.setFeatures (BitVec.ofNat 64 f))
    pure (emit st d' "feat" (isOk r) s!":{logSince d d'}")
  | ["pfeat", f] => do
    let f ← hex? f
    let (d', r) := step d (.setProtocolFeatures (BitVec.ofNat 64 f))
    pure (emit { st with proto := f } d' "pfeat" (isOk r) s!":{logSince d d'}")
  | ["breq"] =>
    if !st.proto.testBit 5 then some (emit st d "breq" false ":-") else
    let (d', r) := step d .setBackendReqFd
    let flags := match d'.log.getLast? with
      | some (.setBackendReqFd ra so sm) => s!":so{b01 so}sm{b01 sm}ra{if so || sm then b01 ra else "?"}"
      | _ => ":nochannel"
    some (emit st d' "breq" (isOk r) s!":{logSince d d'}{flags}")
  | ["mt", rest] =>
    match (rest.splitOn ",").mapM (Drv.Mem.parseRegion st.files) with
    | none => none
    | some rs =>
      if rs.any (fun p => !p.2) then some (st, "out-of-model") else
      let reqs := rs.map (·.1)
      if !reqs.all Drv.Mem.reqValid then some (emit st d "mt" false ":-") else
      let (d', r) := step d (.mem (.setTable reqs))
      some (emit st d' "mt" (isOk r) s!":{logSince d d'}")
  | ["add", rest] =>
    match Drv.Mem.parseRegion st.files rest with
    | none => none
    | some (r, predicted) =>
      if !predicted then some (st, "out-of-model") else
      if !st.proto.testBit 15 || !Drv.Mem.reqValid r then some (emit st d "add" false ":-") else
      let (d', res) := step d (.mem (.add r))
      some (emit st d' "add" (isOk res) s!":{logSince d d'}")
  | ["rem", rest] =>
    match Drv.Mem.parseRegion st.files rest with
    | none => none
    | some (r, _) =>
      if !st.proto.testBit 15 || !Drv.Mem.reqValid r then some (emit st d "rem" false ":-") else
      let (d', res) := step d (.mem (.remove r.gpa r.size))
      some (emit st d' "rem" (isOk res) s!":{logSince d d'}")
  | ["use", ring, head, len] => do
    let ring ← hex? ring; let head ← hex? head; let len ← hex? len
    match d.vrings[ring]? with
    | none => pure (emit st d "use" false ":noring:cells=-:ctr=-")
    | some v =>
      let cands := (candidateCells d v).foldl (fun acc c => insertCell c acc) []
      let (d1, r1) := step d (.addUsed ring head len)
      let (d2, _) := step d1 (.signalUsed ring)
      let changed := cands.filter fun c => d2.files c.1 c.2 != d.files c.1 c.2
      let cells := if changed.isEmpty then "-" else
        ",".intercalate (changed.map fun c => s!"{hx c.1}@{hx c.2}={hex2 (d2.files c.1 c.2)}")
      let toks := (List.range st.nfds).filter fun t => d2.counters t != 0
      let ctr := if toks.isEmpty then "-" else ",".intercalate (toks.map fun t => s!"{hx t}+{hx (d2.counters t)}")
      -- the harness reads (and thereby resets) every counter
      let d3 := { d2 with counters := fun _ => 0 }
      pure (emit st d3 "use" true s!":{if isOk r1 then "a" else "A"}s:cells={cells}:ctr={ctr}")
  | _ => none

def runOps (st : St) : List String → List String → Option (List String)
  | [], acc => some acc.reverse
  | t :: ts, acc =>
    match stepOp st t with
    | none => none
    | some (st', o) => if o == "out-of-model" then some ["out-of-model"] else runOps st' ts (o :: acc)

def run (toks : List String) : String :=
  match kvHex toks "nq", kvHex toks "max", kvHex toks "off" with
  | some nq, some max, some off =>
    let files := match kv toks "files" with
      | some fl => if fl == "-" then some [] else (fl.splitOn ",").mapM Drv.Mem.parseFile
      | none => some []
    match files, Daemon.new nq max (BitVec.ofNat 64 off) with
    | some files, some d0 =>
      let ops := (toks.drop 1).filter fun t => (t.splitOn "=").length != 2
      match runOps { d := { d0 with files := Drv.Mem.pattern }, files := files } ops [] with
      | none => "bad-line"
      | some out => if out.isEmpty then "-" else " ".intercalate out
    | _, _ => "bad-line"
  | _, _, _ => "bad-line"
end Drv.Vq
