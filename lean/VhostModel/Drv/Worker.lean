import VhostModel.DrvUtil
import VhostModel.Model.Worker
/-! driver family `worker` (model side): runs a schedule word through `Model.Worker.step` and prints the trace the harness
prints.  Header `rule=pinned` selects the unrepaired code (default: all three C12 repairs), `rule=<l><e><s>` (three 0/1
digits) individual repairs (lost-kick, stale-eagain, stopped-dispatch), `rule=nofdmut` the repaired code with the mutated
guard of `set_vring_kick` (`Cfg.nofdMutant`).  Scenario `stopnf`: GET_VRING_BASE, then SET_VRING_KICK with the
no-descriptor flag; the restart (fresh descriptor) is part of the epilogue. -/
namespace Drv.Worker
open DrvUtil Model.Worker Spec.KickDelivery

def tagOf : CMsg → String
  | .disable => "d" | .enable => "e" | .stop => "s" | .restart => "r" | .reset => "x" | .nofd => "n"

def bits (s : St) : String := String.ofList ((List.range s.next).map fun d => if 0 < s.cnt d then '1' else '0')

def dispatches (s : St) : Nat := (s.trace.filter (· == .dispatch)).length

structure D where
  s : St
  msgs : List CMsg
  /-- reset: hold points of ring 1 (no effect on ring 0) still to come -/
  extra : Nat
  out : List String

def applyL (s : St) (ls : List Lbl) : St := (run s ls).getD s

/-- name of the hold point the control thread is at after a step -/
def ctlName (m : CMsg) (cpc : CPc) : String :=
  match cpc with
  | .idle => "reply"
  | .inMsg _ k =>
    match m, k with
    | .stop, 3 => "drop"
    | .restart, 1 => "state"
    | .restart, 2 => "ready"      -- only reached from stage 1 in these scenarios
    | .restart, 3 => "epoll"
    | _, 1 => "state"
    | _, 2 => "epoll"
    | _, _ => "?"

def tokC (d : D) : D × String :=
  match d.s.cpc with
  | .idle =>
    match d.msgs with
    | [] => (d, "c.none")
    | m :: rest =>
      let s' := applyL d.s [.send m, .c]
      -- restart: stage 0 goes to stage 1 (`r.state` reached) when the ring is stopped
      ({ d with s := s', msgs := rest, extra := if m == .reset then 2 else 0 }, s!"{tagOf m}.state")
  | .inMsg m k =>
    if m == .reset && k == 2 && d.extra > 0 then
      ({ d with extra := d.extra - 1 }, if d.extra == 2 then "x.state1" else "x.epoll1") else
    let s' := applyL d.s [.c]
    let nm := match m, k, s'.cpc with
      | .restart, 1, _ => "ready"
      | .restart, 2, _ => "epoll"
      | .nofd, 1, _ => "ready"
      | .nofd, 2, _ => "epoll"
      | _, _, c => ctlName m c
    ({ d with s := s' }, s!"{tagOf m}.{nm}")

def tokW (d : D) : D × String :=
  match d.s.wpc with
  | .dead => (d, "w.gone")
  | old =>
    let s' := applyL d.s [.w]
    let nm := match old, s'.wpc with
      | .wait, .woken => "w.woken"
      | .wait, .wait => "w.idle"
      | .woken, .checked => "w.chk"
      | .woken, .wait => "w.skip"
      | .checked, .toDispatch => "w.read1"
      | .checked, .wait => "w.read0"
      | .checked, .dead => "w.dead"
      | .toDispatch, .wait => "w.disp"
      | _, _ => "w.?"
    ({ d with s := s' }, nm)

def tok (d : D) (t : String) : D :=
  let (d', nm) :=
    if t == "K" then ({ d with s := applyL d.s [.kick (d.s.next - 1)] }, "k")
    else if t == "C" then tokC d
    else if t == "W" then tokW d
    else (d, "bad-token")
  { d' with out := s!"{nm}/{bits d'.s}" :: d'.out }

/-- the control thread finishes what it has and then the remaining messages -/
def finishCtl : Nat → D → D
  | 0, d => d
  | f + 1, d =>
    match d.s.cpc, d.msgs with
    | .idle, [] => d
    | _, _ => finishCtl f (tokC d).1

/-- the worker runs until it waits with nothing readable (or is gone) -/
def drain : Nat → St → St
  | 0, s => s
  | f + 1, s =>
    if s.wpc == .dead then s
    else if s.wpc == .wait && !readyAny s then s
    else drain f (applyL s [.w])

/-- the control thread runs until it has replied -/
def ctlToIdle : Nat → St → St
  | 0, s => s
  | f + 1, s => if s.cpc == .idle then s else ctlToIdle f (applyL s [.c])

/-- a whole message of the epilogue -/
def runMsg (s : St) (m : CMsg) : St := ctlToIdle 8 (applyL s [.send m])

def run (toks : List String) : String :=
  let scen := (kv toks "scen").getD "disable"
  let cfg : Cfg := match kv toks "rule" with
    | some "pinned" => Cfg.pinned
    | some "nofdmut" => Cfg.nofdMutant
    | some r => match r.toList with
      | [a, b, c] => ⟨a == '1', b == '1', c == '1', false⟩
      | _ => Cfg.repaired
    | none => Cfg.repaired
  let sched := match kv toks "sched" with
    | some "-" => []
    | some s => s.splitOn ","
    | none => []
  let msgs : List CMsg := if scen == "disable" then [.disable] else if scen == "reset" then [.reset]
    else if scen == "stopnf" then [.stop, .nofd] else [.stop, .restart]
  let d0 : D := { s := init cfg, msgs := msgs, extra := 0, out := [] }
  let d := sched.foldl tok d0
  let tr := if d.out.isEmpty then "-" else ",".intercalate d.out.reverse
  -- epilogue
  let d1 := finishCtl 32 d
  let s1 := drain 64 d1.s
  let n1 := dispatches s1
  let s2 := if scen == "stop" then s1
    else if scen == "stopnf" then runMsg s1 .restart
    else runMsg s1 .enable
  let s2 := drain 64 s2
  let n2 := dispatches s2
  let s3 := drain 64 (applyL s2 [.kick (s2.next - 1)])
  let n3 := dispatches s3
  let alive := if s3.wpc == .dead then "0" else "1"
  s!"tr={tr} end={hx n1}.{hx n2}.{hx n3} alive={alive} fin={bits s3}"
end Drv.Worker
