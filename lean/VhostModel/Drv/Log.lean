import VhostModel.DrvUtil
import VhostModel.Model.Bitmap
/-! driver family `log` (model side): predicted observation of a dirty-log scenario.

Besides `Model.Bitmap` it encodes (assumed, see DESIGN.md 3.4 item 6) how vm-memory turns a guest write into `Bitmap` calls
(`try_access`: one chunk per region, `bitmap.slice_at(0).slice_at(offset).mark_dirty(0, count)`) and which two writes
virtio-queue's `add_used` performs. -/
namespace Drv.Log
open DrvUtil Model.Bitmap

structure St where
  hs : HState := HState.init
  /-- log id ↦ (file offset, length) of the mapping -/
  wins : List (Nat × Nat × Nat) := []
  file : List UInt8
  dead : Bool := false

def fmtRanges (bits : List Nat) : String :=
  if bits.isEmpty then "-" else
  let rec go (l : List Nat) (start prev : Nat) (acc : List String) (fuel : Nat) : List String :=
    match fuel, l with
    | 0, _ => acc
    | _, [] => (if start == prev then hx start else s!"{hx start}-{hx prev}") :: acc
    | f+1, x :: xs =>
      if x == prev + 1 then go xs start x acc f
      else go xs x x ((if start == prev then hx start else s!"{hx start}-{hx prev}") :: acc) f
  match bits with
  | [] => "-"
  | b :: bs => ",".intercalate (go bs b b [] (bits.length + 1)).reverse

/-- `[!cleared]+set` between two file states -/
def delta (old new : List UInt8) : String :=
  let idx := List.range old.length
  let pairs := (old.zip new).zip idx
  let setBits := pairs.flatMap fun ((a, b), i) =>
    if a == b then [] else (List.range 8).filterMap fun k =>
      if !a.toNat.testBit k && b.toNat.testBit k then some (i * 8 + k) else none
  let clrBits := pairs.flatMap fun ((a, b), i) =>
    if a == b then [] else (List.range 8).filterMap fun k =>
      if a.toNat.testBit k && !b.toNat.testBit k then some (i * 8 + k) else none
  (if clrBits.isEmpty then "" else "!" ++ fmtRanges clrBits) ++ "+" ++ fmtRanges setBits

/-- apply the steps of one `mark_dirty` to the file through the mapping `id`; `none` = index assertion failed -/
def applySteps (st : St) (id : Nat) (steps : List Step) : Option St :=
  match st.wins.find? (·.1 == id) with
  | none => none
  | some (_, off, len) =>
    let window := (st.file.drop off).take len
    match runSteps window steps with
    | none => none
    | some w' => some { st with file := st.file.take off ++ w' ++ st.file.drop (off + len) }

/-- region containing `gpa` -/
def findReg (st : St) (gpa : Nat) : Option Reg := st.hs.regions.find? fun r => r.start ≤ gpa && gpa < r.start + r.len

/-- mark through a region's bitmap: `region.bitmap()` is `slice_at(0)` of the mapping's bitmap -/
def markVia (st : St) (r : Reg) (sl : List Nat) (offset len : Nat) : Option St :=
  match r.bitmap with
  | none => some st
  | some (id, _) => applySteps st id (((r.bm.sliceAt 0).slices sl).markSteps offset len)

/-- a guest write `[gpa, gpa+len)`: one chunk per region; returns (state, error flag); `none` = panic -/
def guestWrite (st : St) (gpa len : Nat) : Nat → Option (St × Bool)
  | 0 => some (st, false)
  | fuel+1 =>
    if len = 0 then some (st, false) else
    match findReg st gpa with
    | none => some (st, true)
    | some r =>
      let cnt := min len (r.start + r.len - gpa)
      match markVia st r [gpa - r.start] 0 cnt with
      | none => none
      | some st' => guestWrite st' (gpa + cnt) (len - cnt) fuel

def parseRegs (s : String) : Option (List (Nat × Nat)) :=
  if s == "-" then some [] else
  (s.splitOn ",").mapM fun x =>
    match x.splitOn "/" with
    | [a, b] => do pure ((← hex? a), (← hex? b))
    | _ => none

def wr (st : St) (tag : String) (writes : List (Nat × Nat)) : St × String :=
  let rec go (s : St) (err : Bool) : List (Nat × Nat) → Option (St × Bool)
    | [] => some (s, err)
    | (g, l) :: rest =>
      match guestWrite s g l (s.hs.regions.length + 1) with
      | none => none
      | some (s', e) => if e then some (s', true) else go s' err rest
  match go st false writes with
  | none => (st, "PANIC")
  | some (st', err) => (st', s!"{tag}:{if err then "err" else ""}{delta st.file st'.file}")

def stepOp (st : St) (op : String) : St × String :=
  if st.dead then (st, "dead") else
  match op.splitOn ":" with
  | ["mt", regs] =>
    match parseRegs regs with
    | none => (st, "bad-op")
    | some rs =>
      match setMemTable st.hs rs with
      | some hs' => ({ st with hs := hs' }, "mt:ok")
      | none => (st, "mt:fail")
  | ["add", reg] =>
    match parseRegs reg with
    | some [(a, l)] =>
      match addMemReg st.hs a l with
      | some hs' => ({ st with hs := hs' }, "add:ok")
      | none => (st, "add:fail")
    | _ => (st, "bad-op")
  | ["rem", reg] =>
    match parseRegs reg with
    | some [(a, l)] =>
      match remMemReg st.hs a l with
      | some hs' => ({ st with hs := hs' }, "rem:ok")
      | none => (st, "rem:fail")
    | _ => (st, "bad-op")
  | ["lb", sz, off] =>
    match hex? sz, hex? off with
    | some sz, some off =>
      -- the message validator (`mmap_size != 0`) and `mmap(2)` (page-aligned offset) come first
      if sz = 0 || off % 4096 != 0 then (st, "lb:closed") else
      match setLogBase st.hs sz with
      | some hs' => ({ st with hs := hs', wins := (st.hs.nextLog, off, sz) :: st.wins }, "lb:ok")
      | none => (st, "lb:closed")
    | _, _ => (st, "bad-op")
  | ["w", g, l] =>
    match hex? g, hex? l with
    | some g, some l => wr st "w" [(g, l)]
    | _, _ => (st, "bad-op")
  | ["wo", g, k] =>
    match hex? g, hex? k with
    | some g, some k => wr st "wo" [(g, k)]
    | _, _ => (st, "bad-op")
  | ["mk", g, sl, off, len] =>
    match hex? g, hex? sl, hex? off, hex? len with
    | some g, some sl, some off, some len =>
      match findReg st g with
      | none => (st, "mk:err+-")
      | some r =>
        match markVia st r [sl] off len with
        | none => (st, "PANIC")
        | some st' => (st', s!"mk:{delta st.file st'.file}")
    | _, _, _, _ => (st, "bad-op")
  | ["au", _, used, qsz, k, _, _] =>
    match hex? used, hex? qsz, hex? k with
    | some used, some qsz, some k =>
      if qsz = 0 then (st, "bad-op") else
      -- `Queue::add_used`: the element `{id, len}` (8 bytes) at `used + 4 + 8 * (next_used % size)`, then the index
      -- (2 bytes) at `used + 2`
      wr st "au" [(used + 4 + 8 * (k % qsz), 8), (used + 2, 2)]
    | _, _, _ => (st, "bad-op")
  | ["cw", nt, _, g] =>
    match hex? nt, hex? g with
    | some nt, some g =>
      let (st', s) := wr st "cw" ((List.range nt).map fun i => (g + 4096 * (i % 8) + i, 1))
      (st', s.replace "cw:" "cw:ok")
    | _, _ => (st, "bad-op")
  | ["cwl", nt, _, g, sz, off] =>
    -- concurrent writers while SET_LOG_BASE (same window) is re-sent: the log is replaced by an equal one, then as `cw`
    match hex? nt, hex? g, hex? sz, hex? off with
    | some nt, some g, some sz, some off =>
      match setLogBase st.hs sz with
      | none => (st, "cwl:lbfail")
      | some hs' =>
        let st1 := { st with hs := hs', wins := (st.hs.nextLog, off, sz) :: st.wins }
        let (st', s) := wr st1 "cwl" ((List.range (min nt 8)).map fun i => (g + 4096 * i + i, 1))
        (st', s.replace "cwl:" "cwl:ok")
    | _, _, _, _ => (st, "bad-op")
  | _ => (st, "bad-op")

def run (toks : List String) : String :=
  match kvHex toks "fsz" with
  | none => "bad-line"
  | some fsz =>
    let init := (kvHex toks "init").getD 0
    let ops := (toks.drop 1).filter fun t => !(t.splitOn "=").length == 2
    let st0 : St := { file := List.replicate fsz (UInt8.ofNat init) }
    let (_, outs) := ops.foldl (fun (acc : St × List String) op =>
      let (s', o) := stepOp acc.1 op
      (s', o :: acc.2)) (st0, [])
    if outs.isEmpty then "-" else " ".intercalate outs.reverse
end Drv.Log
