import VhostModel.Model.Endpoint
/-! driver family `send` (model side): the send loop delivers every byte once, in order, descriptors with the first byte -/
namespace Drv.Send
open Base Model.Endpoint

def kvOf (toks : List String) (key : String) : Option String :=
  toks.findSome? fun t => if t.startsWith (key ++ "=") then some (t.drop (key.length + 1)).toString else none

def hexList (s : String) : List Nat := ((s.splitOn ",").filter (· ≠ "")).map fun x => (natOfHex? x).getD 0

def run (toks : List String) : String :=
  match toks with
  | "send" :: "subiovs" :: rest =>
    let lens := hexList ((kvOf rest "lens").getD "")
    let skip := (natOfHex? ((kvOf rest "skip").getD "0")).getD 0
    let r := subIovsOffset lens skip 0
    s!"{hexOfNat r.1},{hexOfNat r.2}"
  | "send" :: rest =>
    let lens := hexList ((kvOf rest "bufs").getD "")
    let nfds := ((kvOf rest "fds").getD "0").toNat?.getD 0
    let total := lens.foldl (· + ·) 0
    -- any script that ends with the kernel accepting the remainder yields the same observable result
    let data := List.replicate total (0 : UInt8)
    let (w, res) := sendAll ((List.range nfds).map (· + 1)) data 0 [.accept 1, .retry, .accept total] []
    let ret := match res with | .ok n => s!"ok:{hexOfNat n}" | .broken => "err.sockBroken" | _ => "err.other"
    let fdsat := if nfds == 0 || total == 0 then "-" else
      (match w.findIdx? (fun c => !c.2.isEmpty) with | some 0 => "0" | some _ => "late" | none => "-")
    let nf := (w.map (·.2.length)).foldl (· + ·) 0
    s!"ret={ret} bytes=ok got={hexOfNat (wireBytes w).length} nfds={nf} fdsat={fdsat}"
  | _ => "bad-line"
end Drv.Send
