import VhostModel.Model.Frontend
import VhostModel.Drv.Srv
/-! driver family `fe` (model side): `Model.Frontend` composed with `Model.BackendSrv` (mode=srv) or with the
scripted replies of the raw peer (mode=peer) -/
namespace Drv.Fe
open Base Model.Stream Model.Frontend
open Model.BackendSrv (Err Res BSt HOut)

def hx (n : Nat) : String := hexOfNat n
def bytesHex (b : Bytes) : String := if b.isEmpty then "-" else hexOfBytes b

def pn (s : String) : Nat := (natOfHex? s).getD 0

/-- parse one operation; `next` = next descriptor identity the harness will hand out -/
def parseOp (toks0 : List String) (next : Nat) : Op × Nat :=
  let toks := toks0.filter (fun t => !t.startsWith "h=" && !t.startsWith "r=" && t != "then-close")
  match toks with
  | ["set_backend_req_fd"] => ({ name := "set_backend_req_fd", fds := [0] }, next)
  | ["set_log_fd"] => ({ name := "set_log_fd", fds := [next] }, next + 1)
  | "set_mem_table" :: spec :: _ =>
    if spec == "-" then ({ name := "set_mem_table" }, next) else
    let regs := (spec.splitOn ";").map fun r =>
      match r.splitOn "," with
      | [g, s, u, o] => (pn g, pn s, pn u, pn o, true)
      | [g, s, u, o, _] => (pn g, pn s, pn u, pn o, false)
      | _ => (0, 0, 0, 0, false)
    let nGood := (regs.filter (·.2.2.2.2)).length
    -- identities are handed out in order to the regions with a valid descriptor
    let rec ids : List (Nat × Nat × Nat × Nat × Bool) → Nat → List Fd
      | [], _ => []
      | r :: rest, k => if r.2.2.2.2 then k :: ids rest (k + 1) else ids rest k
    ({ name := "set_mem_table", regions := regs, fds := ids regs next }, next + nGood)
  | ["set_mem_table"] => ({ name := "set_mem_table" }, next)
  | "set_log_base" :: base :: rest =>
    (match rest.filter (fun t => !t.startsWith "h=" && !t.startsWith "r=" && t != "then-close") with
     | [reg] => if reg == "-" then ({ name := "set_log_base", a := [pn base] }, next) else
       (match reg.splitOn "," with
        | [sz, off] => ({ name := "set_log_base", a := [pn base, pn sz, pn off], fds := [next] }, next + 1)
        | _ => ({ name := "set_log_base", a := [pn base] }, next))
     | _ => ({ name := "set_log_base", a := [pn base] }, next))
  | "set_log_fd" :: _ => ({ name := "set_log_fd", fds := [next] }, next + 1)
  | "set_vring_addr" :: q :: fl :: d :: u :: a :: lg :: _ =>
    ({ name := "set_vring_addr", a := [pn q, pn fl, pn d, pn u, pn a, if lg == "-" then 0 else pn lg] }, next)
  | nm :: q :: _ =>
    if nm == "set_vring_call" || nm == "set_vring_kick" || nm == "set_vring_err" then
      ({ name := nm, a := [pn q], fds := [next] }, next + 1)
    else
    let args := (toks.drop 1).filter (fun t => !t.startsWith "h=" && !t.startsWith "r=" && t != "then-close")
    match nm with
    | "set_config" =>
      (match args with
       | [off, fl, buf] => ({ name := nm, a := [pn off, pn fl], payload := (if buf == "-" then some [] else bytesOfHex? buf).getD [] }, next)
       | _ => ({ name := nm }, next))
    | "get_config" =>
      (match args with
       | [off, sz, fl, blen] => ({ name := nm, a := [pn off, pn sz, pn fl, pn blen], payload := List.replicate (pn blen) 0 }, next)
       | _ => ({ name := nm }, next))
    | "set_inflight_fd" =>
      (match args with
       | [ms, mo, nq, qs] => ({ name := nm, a := [pn ms, pn mo, pn nq, pn qs], fds := [next] }, next + 1)
       | [ms, mo, nq, qs, _] => ({ name := nm, a := [pn ms, pn mo, pn nq, pn qs], bad := true }, next)
       | _ => ({ name := nm }, next))
    | "add_mem_region" =>
      (match args with
       | [g, s, u, o] => ({ name := nm, a := [pn g, pn s, pn u, pn o], fds := [next] }, next + 1)
       | [g, s, u, o, _] => ({ name := nm, a := [pn g, pn s, pn u, pn o], bad := true }, next)
       | _ => ({ name := nm }, next))
    | "set_device_state_fd" => ({ name := nm, a := [pn q, 0], fds := [next] }, next + 1)
    | _ => ({ name := nm, a := args.map pn }, next)
  | [nm] => ({ name := nm }, next)
  | [] => ({ name := "?" }, next)

def fmtRet (r : Ret) (same : String) : String :=
  match r with
  | .unit => "ok"
  | .val v => s!"ok:{hx v}"
  | .config off sz fl p => s!"ok:{hx off},{hx sz},{hx fl}:{bytesHex p}"
  | .inflight a b c d _ => s!"ok:{hx a},{hx b},{hx c},{hx d}:F={same}"
  | .file _ => s!"ok:F={same}"
  | .noFile => "ok:none"
  | .shmem n sizes =>
    let stripped := (sizes.reverse.dropWhile (· == 0)).reverse
    s!"ok:{hx n}:{bytesHex stripped}"
  | .err e => "err." ++ e.name
  | .blocked => "blocked"

structure DSt where
  fst : FSt
  bst : BSt := {}
  c2s : List Cell := []
  s2c : List Cell := []
  alive : Bool := true     -- the other end is still there
  next : Nat := 1
  dead : Bool := false
  obs : List String := []

def stripOpts (toks : List String) : List String := toks

def kvOf := Drv.Srv.kvOf

def doOp (srvMode : Bool) (d : DSt) (toks : List String) : DSt :=
  if d.dead then { d with obs := d.obs ++ ["ret=skipped"] } else
  match toks with
  | ["set_hdr_flags", v] =>
    { d with fst := { d.fst with hdrFlags := pn v },
             obs := d.obs ++ [if srvMode then "ret=ok c=- lc=0" else "ret=ok w=- wf=- lc=0"] }
  | _ =>
  let (op, next') := parseOp toks d.next
  -- set_backend_req_fd does not consume an identity
  let d := { d with next := next' }
  let fin (ret : String) (calls : String) (w : String) (wf : String) (d : DSt) : DSt :=
    { d with obs := d.obs ++ [if srvMode then s!"ret={ret} c={calls} lc=0" else s!"ret={ret} w={w} wf={wf} lc=0"] }
  match request d.fst op with
  | .error e => fin ("err." ++ e.name) "-" "-" "-" d
  | .ok (req, fst') =>
    if !d.alive then fin "err.sockBroken" "-" "-" "-" d else
    let wireBytes := wire d.fst req
    let cells := segCells wireBytes req.fds
    let wfs := if req.fds.isEmpty then "-" else ",".intercalate (req.fds.map toString)
    -- inflight descriptors carry 4 undefined padding bytes: masked by the harness, zero here
    if srvMode then
      let h := Drv.Srv.parseHOut ((kvOf toks "h").getD "ok")
      let r := Model.BackendSrv.step (kernelChooser false) false d.bst () (d.c2s ++ cells) h
      let alive := match r.o.res with | .err _ => false | _ => true
      let calls := if r.o.calls.isEmpty then "-" else ";".intercalate (r.o.calls.map Drv.Srv.fmtCall)
      let outCells := segCells r.o.out (if r.o.outFds > 0 then [1000000] else [])
      let s2c := d.s2c ++ outCells
      let co := callRecv (kernelChooser false) (!alive) fst' op req () s2c
      let d' := { d with bst := r.o.st, c2s := r.rest, alive := alive }
      match co.ret with
      | .blocked => fin "blocked" calls "-" "-" { d' with dead := true, s2c := co.rest }
      | ret => fin (fmtRet ret "same") calls "-" "-" { d' with fst := co.st, s2c := co.rest }
    else
      -- peer mode: the reply script is what the peer writes once the request arrived
      let rs := (kvOf toks "r").getD "-"
      let (s2cNew, alive) :=
        if rs == "-" then (([] : List Cell), true)
        else if rs == "close" then ([], false)
        else
          let (hexs, n) := match rs.splitOn "/" with
            | [a, b] => (a, b.toNat?.getD 0)
            | _ => (rs, 0)
          let bytes := (bytesOfHex? hexs).getD []
          (segCells bytes ((List.range n).map (· + 2000000)), !toks.contains "then-close")
      let s2c := d.s2c ++ s2cNew
      let co := callRecv (kernelChooser false) (!alive) fst' op req () s2c
      let d' := { d with alive := alive }
      let wb := if (req.code == 31 || req.code == 32) && wireBytes.length == 36 then wireBytes.take 32 ++ [0, 0, 0, 0] else wireBytes
      match co.ret with
      | .blocked => fin "blocked" "-" (bytesHex wb) wfs { d' with dead := true, s2c := co.rest }
      | ret => fin (fmtRet ret "unknown") "-" (bytesHex wb) wfs { d' with fst := co.st, s2c := co.rest }

def run (toks : List String) : String :=
  match toks with
  | "fe" :: rest =>
    let parts := Drv.Srv.splitSteps rest
    match parts with
    | head :: ops =>
      let mq := pn ((kvOf head "mq").getD "2")
      let srvMode := (kvOf head "mode").getD "srv" == "srv"
      let d := ops.foldl (doOp srvMode) { fst := { maxQ := mq } }
      " | ".intercalate (d.obs ++ ["L=-"])
    | [] => "bad-line"
  | _ => "bad-line"

end Drv.Fe
