import VhostModel.DrvUtil
import VhostModel.Model.Vring
import VhostModel.Spec.Valid
/-! driver family `mem` (model side): predicted observation of a memory-table scenario.

Besides `Model.MemTable` / `Model.Vring` it encodes

* the message validators of the server in front of the handler (`Spec.validRegion` for every region — a `SET_MEM_TABLE`
  with an invalid region is answered with a failure ack, an invalid `ADD_MEM_REG`/`REM_MEM_REG`/`SET_VRING_ADDR` body
  ends the connection without an answer), proved equivalent to the generated validators in C20;
* the operating system's verdict on `mmap(NULL, size, RW, MAP_SHARED|MAP_NORESERVE, fd, off)` (`kernelMmapOk`): the file
  must be a regular (memfd) file open for writing, `size > 0`, `off` page aligned, `off + size` below 2^62 and the size
  small enough for the address space (sizes between 2^45 and 2^47 are not predicted: `out-of-model`).  The file *length*
  plays no role (vm-memory 0.17.1 does not look at it; the kernel maps beyond end of file);
* the harness' fill pattern of the files. -/
namespace Drv.Mem
open DrvUtil Model.MemTable
open Spec.MemTable (Req Op)

inductive FKind where
  | rw | ro | efd
  deriving DecidableEq, Repr

structure FileSpec where
  kind : FKind
  len : Nat

def parseFile (s : String) : Option FileSpec :=
  if s == "e" then some ⟨.efd, 0⟩ else
  match s.toList with
  | 'f' :: rest => (hex? (String.ofList rest)).map fun l => ⟨.rw, l⟩
  | 'r' :: rest => (hex? (String.ofList rest)).map fun l => ⟨.ro, l⟩
  | _ => none

/-- the harness' position pattern -/
def pattern (f o : Nat) : UInt8 :=
  UInt8.ofNat ((o * 131 + o / 256 * 17 + o / 4096 * 29 + o / 65536 * 3 + o / 16777216 * 7 + o / 4294967296 * 13 + f * 73 + 11) % 256)

/-- `some true/false` = predicted verdict of the kernel, `none` = not predicted -/
def kernelMmapOk (fs : List FileSpec) (fid off size : Nat) : Option Bool :=
  match fs[fid]? with
  | none => none
  | some f =>
    if f.kind != .rw then some false
    else if size == 0 || off % 4096 != 0 then some false
    else if size ≥ 2^47 || off + size > 2^63 then some false
    else if size > 2^45 || off + size > 2^62 then none
    else some true

def parseRegion (fs : List FileSpec) (s : String) : Option (Req × Bool) :=
  match (s.splitOn "/").mapM hex? with
  | some [g, sz, u, o, f] =>
    match kernelMmapOk fs f o sz with
    | some ok => some (⟨g, sz, u, o, f, ok⟩, true)
    | none => some (⟨g, sz, u, o, f, false⟩, false)
  | some [g, sz, u, o] => some (⟨g, sz, u, o, 0, false⟩, true)
  | _ => none

def reqValid (r : Req) : Bool := decide (Spec.validRegion r.gpa r.size r.uaddr r.off)

def fmtTable (t : List Region) : String :=
  if t.isEmpty then "-" else ",".intercalate (t.map fun r => s!"{hx r.gpa}/{hx r.size}/{hx r.fid}/{hx r.off}")

def hex2 (b : UInt8) : String :=
  let s := hx b.toNat
  if s.length < 2 then "0" ++ s else s

structure St where
  d : Model.Vring.Daemon
  files : List FileSpec

def memOp (st : St) (kind : String) (op : Op) (valid : Bool) : St × String :=
  if !valid then
    -- SET_MEM_TABLE validates inside the request wrapper (failure ack); the single-region messages fail in
    -- `extract_request_body` (no answer)
    (st, s!"{kind}:{if kind == "mt" then "fail" else "closed"}:u0:-:{fmtTable st.d.mem.regions}")
  else
    match Model.Vring.step st.d (.mem op) with
    | (d', .ok _) => ({ st with d := d' }, s!"{kind}:ok:u1:{fmtTable d'.mem.regions}:{fmtTable d'.mem.regions}")
    | (d', .error _) => ({ st with d := d' }, s!"{kind}:fail:u0:-:{fmtTable d'.mem.regions}")

/-- is the file cell inside the file? -/
def cellBacked (fs : List FileSpec) (f o : Nat) : Bool :=
  match fs[f]? with
  | some s => s.kind != .efd && decide (o < s.len)
  | none => false

def stepOp (st : St) (tok : String) : Option (St × String) :=
  match tok.splitOn ":" with
  | ["mt", rest] =>
    match (rest.splitOn ",").mapM (parseRegion st.files) with
    | none => none
    | some rs =>
      if rs.any (fun p => !p.2) then some (st, "out-of-model") else
      let reqs := rs.map (·.1)
      some (memOp st "mt" (.setTable reqs) (reqs.all reqValid))
  | ["add", rest] =>
    match parseRegion st.files rest with
    | none => none
    | some (r, predicted) =>
      if !predicted then some (st, "out-of-model") else some (memOp st "add" (.add r) (reqValid r))
  | ["rem", rest] =>
    match parseRegion st.files rest with
    | none => none
    | some (r, _) => some (memOp st "rem" (.remove r.gpa r.size) (reqValid r))
  | ["va", rest] =>
    match (rest.splitOn "/").mapM hex? with
    | some [desc, avail, used] =>
      let q := fun (d : Model.Vring.Daemon) => match d.vrings[0]? with
        | some v => s!"{hx v.queue.descTable}/{hx v.queue.availRing}/{hx v.queue.usedRing}"
        | none => "nosample"
      if decide (Spec.validVringAddr 0 desc used avail) then
        match Model.Vring.step st.d (.setVringAddr 0 (BitVec.ofNat 64 desc) (BitVec.ofNat 64 used) (BitVec.ofNat 64 avail)) with
        | (d', .ok _) => some ({ st with d := d' }, s!"va:ok:{q d'}")
        | (d', .error _) => some ({ st with d := d' }, s!"va:fail:{q d'}")
      else some (st, s!"va:closed:{q st.d}")
    | _ => none
  | [k, rest] =>
    if k == "rd" || k == "wr" then
      match hex? rest with
      | none => none
      | some g =>
        if st.d.mem.notified.isEmpty then some (st, s!"{k}:nosnap") else
        match locate st.d.mem.regions g with
        | none => some (st, s!"{k}:err")
        | some (f, o) =>
          if !cellBacked st.files f o then some (st, s!"{k}:unbacked") else
          let old := st.d.files f o
          if k == "rd" then some (st, s!"rd:{hex2 old}")
          else
            let v := old ^^^ 0xa5
            some ({ st with d := { st.d with files := st.d.files.set f o v } }, s!"wr:{hx f}@{hx o}={hex2 v}")
    else if k == "fw" then
      match (rest.splitOn "/").mapM hex? with
      | some [f, o] =>
        match st.files[f]? with
        | some s =>
          if s.kind == .efd || o ≥ s.len then some (st, "fw:oob") else
          let v := st.d.files f o ^^^ 0x5a
          some ({ st with d := { st.d with files := st.d.files.set f o v } }, "fw:ok")
        | none => some (st, "fw:oob")
      | _ => none
    else none
  | _ => none

def runOps (st : St) : List String → List String → Option (List String)
  | [], acc => some acc.reverse
  | t :: ts, acc =>
    match stepOp st t with
    | none => none
    | some (st', o) => if o == "out-of-model" then some ["out-of-model"] else runOps st' ts (o :: acc)

def run (toks : List String) : String :=
  match kv toks "files" with
  | none => "bad-line"
  | some fl =>
    match (fl.splitOn ",").mapM parseFile with
    | none => "bad-line"
    | some files =>
      match Model.Vring.Daemon.new 1 256 0 with
      | none => "bad-line"
      | some d0 =>
        let ops := (toks.drop 1).filter fun t => (t.splitOn "=").length != 2
        match runOps ⟨{ d0 with files := pattern }, files⟩ ops [] with
        | none => "bad-line"
        | some out => if out.isEmpty then "-" else " ".intercalate out
end Drv.Mem
