import VhostModel.Model.Kern
/-! driver family `kern` (model side): predicted observation for a scenario line -/
namespace Drv.Kern
open Base Base.K

def run (toks : List String) : String :=
  match parseInp toks with
  | none => "bad-line"
  | some i =>
    match Model.Kern.run i with
    | some o => o.render
    | none => "bad-op"
end Drv.Kern
