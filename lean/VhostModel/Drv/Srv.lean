import VhostModel.Model.BackendSrv
/-! driver family `srv` (model side): run `Model.BackendSrv.step` over the scenario's segments with the
Linux chooser and print the predicted observation in the harness' canonical format -/
namespace Drv.Srv
open Base Model.Stream Model.BackendSrv

def hexList (l : List Nat) : String :=
  if l.isEmpty then "-" else ",".intercalate (l.map hexOfNat)

def bytesHex (b : Bytes) : String := if b.isEmpty then "-" else hexOfBytes b

def fmtCall (c : Call) : String :=
  let fds := if c.name == "set_backend_req_fd" || c.name == "set_gpu_socket" then "*"
    else if c.fds.isEmpty then "-" else ",".intercalate (c.fds.map toString)
  s!"{c.name}:{hexList c.args}:{bytesHex c.payload}:{fds}"

def fmtRes : Res → String
  | .ok => "ok" | .err e => "err." ++ e.name | .blocked => "blocked"

def fmtOut (o : Out) : String :=
  let calls := if o.calls.isEmpty then "-" else ";".intercalate (o.calls.map fmtCall)
  s!"r={fmtRes o.res} c={calls} o={bytesHex o.out} n={o.outFds}"

def kvOf (toks : List String) (key : String) : Option String :=
  toks.findSome? fun t => if t.startsWith (key ++ "=") then some (t.drop (key.length + 1)).toString else none

def parseHOut (s : String) : HOut :=
  let parts := s.splitOn ","
  let ok := parts.head? == some "ok"
  let get (k : String) : Option String :=
    parts.findSome? fun t => if t.startsWith (k ++ "=") then some (t.drop (k.length + 1)).toString else none
  { ok := ok,
    v := ((get "v").bind natOfHex?).getD 0,
    b := ((get "b").bind fun x => if x == "-" then some [] else bytesOfHex? x).getD [],
    file := (get "f") != some "0" }

structure DSt where
  bst : BSt := {}
  cells : List Cell := []
  closed : Bool := false
  nextId : Nat := 1
  dead : Bool := false
  obs : List String := []

def doStep (d : DSt) (stepToks : List String) : DSt :=
  if d.dead then { d with obs := d.obs ++ ["r=skipped c=- o=- n=0"] } else
  match stepToks with
  | "m" :: hex :: fn :: rest =>
    let segs := (hex.splitOn "+").map fun x => (if x == "-" then some [] else bytesOfHex? x).getD []
    let n := (fn.drop 1).toString.toNat?.getD 0
    let fds := (List.range n).map (· + d.nextId)
    let h := parseHOut ((kvOf rest "h").getD "ok")
    let closeAfter := rest.contains "close"
    let seq := rest.contains "seq"
    -- descriptors ride on the first segment; `bf<n>`: n more on the last one (when there are several)
    let nb := if segs.length > 1 then
      ((rest.find? (·.startsWith "bf")).bind fun t => (t.drop 2).toString.toNat?).getD 0 else 0
    let bfds := (List.range nb).map (· + d.nextId + n)
    let last := segs.length - 1
    let newCells := (segs.zipIdx.map fun (b, i) =>
      segCells b (if i == 0 then fds else if i == last then bfds else [])).flatten
    let cells := d.cells ++ newCells
    let isClosed := d.closed || closeAfter
    let r := step (kernelChooser seq) isClosed d.bst () cells h
    if rest.contains "rst" then
      -- the peer closed with unread data in its queue: a read past what is queued ends with ECONNRESET, a write with EPIPE
      -- (both `SocketBroken`); what was written is not observable any more; the scenario ends here
      let o := if r.o.res == .blocked then { r.o with res := .err .sockBroken }
               else if !r.o.out.isEmpty then { r.o with res := .err .sockBroken, out := [], outFds := 0 } else r.o
      { bst := r.o.st, cells := r.rest, closed := true, nextId := d.nextId + n + nb, dead := true, obs := d.obs ++ [fmtOut o] }
    else
    { bst := r.o.st, cells := r.rest, closed := isClosed, nextId := d.nextId + n + nb,
      dead := r.o.res == .blocked, obs := d.obs ++ [fmtOut r.o] }
  | _ => { d with obs := d.obs ++ ["bad-step"] }

def splitSteps (toks : List String) : List (List String) :=
  let rec go : List String → List String → List (List String) → List (List String)
    | [], cur, acc => (if cur.isEmpty then acc else acc ++ [cur])
    | "|" :: rest, cur, acc => go rest [] (if cur.isEmpty then acc else acc ++ [cur])
    | t :: rest, cur, acc => go rest (cur ++ [t]) acc
  go toks [] []

def run (toks : List String) : String :=
  match toks with
  | "srv" :: rest =>
    let d := (splitSteps rest).foldl doStep {}
    " | ".intercalate (d.obs ++ ["L=-"])
  | _ => "bad-line"

end Drv.Srv
