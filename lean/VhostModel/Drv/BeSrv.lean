import VhostModel.Model.FrontendSrv
import VhostModel.Drv.Proxy
/-! driver family `besrv` (model side): run `Model.FrontendSrv.step` over the scenario's segments with the Linux
chooser and print the predicted observation in the harness' canonical format -/
namespace Drv.BeSrv
open Base Model.Stream Model.FrontendSrv

def fmtOut (o : Out) : String :=
  let calls := if o.calls.isEmpty then "-" else ";".intercalate (o.calls.map Drv.Srv.fmtCall)
  s!"r={Drv.Proxy.fmtSrvRes o.res} c={calls} o={Drv.Srv.bytesHex o.out} n=0"

structure DSt where
  st : FSt := {}
  cells : List Cell := []
  closed : Bool := false
  nextId : Nat := 1
  dead : Bool := false
  obs : List String := []

def doStep (d : DSt) (stepToks : List String) : DSt :=
  if d.dead then { d with obs := d.obs ++ ["r=skipped c=- o=- n=0"] } else
  match stepToks with
  | ["ra", v] => { d with st := { d.st with replyAck := v == "1" }, obs := d.obs ++ ["r=set c=- o=- n=0"] }
  | ["fail", e] => { d with st := d.st.setFailed (Drv.Proxy.pn e), obs := d.obs ++ ["r=set c=- o=- n=0"] }
  | "m" :: hex :: fn :: rest =>
    let segs := (hex.splitOn "+").map fun x => (if x == "-" then some [] else bytesOfHex? x).getD []
    let n := (fn.drop 1).toString.toNat?.getD 0
    let fds := (List.range n).map (· + d.nextId)
    let h := Drv.Proxy.parseH ((Drv.Srv.kvOf rest "h").getD "ok:0")
    let closeAfter := rest.contains "close"
    let seq := rest.contains "seq"
    let newCells := (segs.zipIdx.map fun (b, i) => segCells b (if i == 0 then fds else [])).flatten
    let cells := d.cells ++ newCells
    let isClosed := d.closed || closeAfter
    let r := step (kernelChooser seq) isClosed d.st () cells h
    { d with cells := r.rest, closed := isClosed, nextId := d.nextId + n,
             dead := r.o.res == .blocked, obs := d.obs ++ [fmtOut r.o] }
  | _ => { d with obs := d.obs ++ ["bad-step"] }

def run (toks : List String) : String :=
  match toks with
  | "besrv" :: rest =>
    let d := (Drv.Srv.splitSteps rest).foldl doStep {}
    " | ".intercalate (d.obs ++ ["L=-"])
  | _ => "bad-line"

end Drv.BeSrv
