import VhostModel.DrvUtil
import VhostModel.DrvRing
import VhostModel.Model.RingReg
/-! driver family `ring` (model side): predicted observation of a ring-state history.
`rule=old` in the header selects the pinned `set_vring_kick` (F-C11-rekick) instead of the repaired one. -/
namespace Drv.Ring
open DrvUtil DrvRing Model.RingReg

def fmtReply : Reply → String
  | .ok => "ok"
  | .fail => "fail"
  | .closed => "closed"
  | .base _ v => s!"b{hx v}"
  | .noReply => "-"

def count (l : List Nat) (r : Nat) : Nat := (l.filter (· == r)).length

def fmtDispatch (alive : Bool) (ds : List Nat) : String × Bool :=
  if ds.any (fun r => count ds r > 8) then ("storm", true) else
  let sorted := ds.mergeSort (· ≤ ·)
  let body := "+".intercalate (sorted.map fun r => s!"t0e{hx r}q{hx r}")
  let body := if sorted.isEmpty && alive then "-" else body
  (if alive then body else body ++ "!", false)

def go (s : St) (sent : Sent) : List (List String) → List String → List String
  | [], acc => acc.reverse
  | op :: ops, acc =>
    match opMsg sent s.next op with
    | none => (("bad-op" :: acc).reverse)
    | some (m, sent') =>
      let (s', o) := step s m
      let (d, storm) := fmtDispatch s'.alive o.dispatched
      let cb := String.ofList ((List.range s'.n).map fun r => if (s'.ring r).call.isSome then '1' else '0')
      let tok := s!"{fmtReply o.reply}/{d}/{cb}"
      if storm then ((tok :: acc).reverse ++ ops.map fun _ => "x") else go s' sent' ops (tok :: acc)

def run (toks : List String) : String :=
  let (head, ops) := splitOps toks
  let n := (kvHex head "q").getD 2
  let old := kv head "rule" == some "old"
  let out := go (init n baseOf old) (fun _ => []) ops []
  if out.isEmpty then "-" else " ".intercalate out
end Drv.Ring
