import VhostModel.Model.GpuProxy
import VhostModel.Drv.Srv
/-! driver family `gpu` (model side): `Model.GpuProxy` against the scripted replies of the raw peer -/
namespace Drv.Gpu
open Base Model.Stream Model.GpuProxy

def hx (n : Nat) : String := hexOfNat n
def bytesHex (b : Bytes) : String := if b.isEmpty then "-" else hexOfBytes b
def pn (s : String) : Nat := (natOfHex? s).getD 0
def kvOf := Drv.Srv.kvOf

/-- `d=<hex>` | `d=-` | `d=pat:<len>:<a>:<b>` (byte i = (a + i*b) mod 256) -/
def parseData (s : String) : Bytes :=
  match s.splitOn ":" with
  | ["pat", len, a, b] => (List.range (pn len)).map fun i => UInt8.ofNat ((pn a + i * pn b) % 256)
  | _ => if s == "-" then [] else (bytesOfHex? s).getD []

/-- the argument struct as raw bytes: the listed 32-bit fields in order, then the 64-bit `m=`/`v=` word if present -/
def parseCall (toks : List String) (next : Nat) : Call × Nat :=
  match toks with
  | [] => ({ name := "?" }, next)
  | nm :: rest =>
    let fields := match rest.filter (fun t => !t.contains '=' && t != "then-close") with
      | [f] => if f == "-" then [] else (f.splitOn ",").map pn
      | _ => []
    let body := fields.flatMap (leBytes 4) ++
      (match kvOf rest "m" with | some m => leBytes 8 (pn m) | none => []) ++
      (match kvOf rest "v" with | some v => leBytes 8 (pn v) | none => [])
    let data := parseData ((kvOf rest "d").getD "-")
    let hasFd := (kvOf rest "fd") == some "1"
    ({ name := nm, body := body, payload := data, fds := if hasFd then [next] else [] }, if hasFd then next + 1 else next)

def fmtRet : Ret → String
  | .unit => "ok"
  | .val v => s!"ok:{hx v}"
  | .bytes b => s!"ok:{bytesHex b}"
  | .err _ => "err"
  | .blocked => "blocked"

structure DSt where
  st : GSt := {}
  s2c : List Cell := []
  alive : Bool := true
  next : Nat := 1
  dead : Bool := false
  obs : List String := []

def doOp (d : DSt) (toks : List String) : DSt :=
  if d.dead then { d with obs := d.obs ++ ["ret=skipped"] } else
  match toks with
  | ["fail", e] => { d with st := { error := some (pn e) }, obs := d.obs ++ ["ret=ok w=- wf=- lc=0"] }
  | _ =>
  let (c, next') := parseCall toks d.next
  let d := { d with next := next' }
  let fin (ret w wf : String) (d : DSt) : DSt := { d with obs := d.obs ++ [s!"ret={ret} w={w} wf={wf} lc=0"] }
  match request d.st c with
  | .error _ => fin "err" "-" "-" d
  | .ok req =>
    if !d.alive then fin "err" "-" "-" d else
    let wfs := if req.fds.isEmpty then "-" else ",".intercalate (req.fds.map toString)
    let rs := (kvOf toks "r").getD "-"
    let (s2cNew, alive) :=
      if rs == "-" then (([] : List Cell), true)
      else if rs == "close" then ([], false)
      else
        let (hexs, n) := match rs.splitOn "/" with
          | [a, b] => (a, b.toNat?.getD 0)
          | _ => (rs, 0)
        let bytes := (bytesOfHex? hexs).getD []
        (segCells bytes ((List.range n).map (· + 2000000)), !toks.contains "then-close")
    let s2c := d.s2c ++ s2cNew
    let co := callRecv (kernelChooser false) (!alive) d.st req () s2c
    let d' := { d with alive := alive }
    match co.ret with
    | .blocked => fin "blocked" (bytesHex req.bytes) wfs { d' with dead := true, s2c := co.rest }
    | ret => fin (fmtRet ret) (bytesHex req.bytes) wfs { d' with s2c := co.rest }

def run (toks : List String) : String :=
  match toks with
  | "gpu" :: rest =>
    let d := (Drv.Srv.splitSteps rest).foldl doOp {}
    " | ".intercalate (d.obs ++ ["L=-"])
  | _ => "bad-line"

end Drv.Gpu
