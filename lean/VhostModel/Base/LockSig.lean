/-!
# Lock-shape signatures (property C10): row type of the generated table `Gen/LockShapes.lean`

`tools/rs2lean_locks.py` walks the body of every method of the three shared handles (`Frontend`, the `Backend`
proxy, `GpuBackend`) in evaluation order and records what it does to the `Arc<Mutex<…Internal>>` the handle wraps, as
a list of `Event`s.  The same type is the vocabulary of the checks in `Props/LockShapes.lean`.  Strings occur only as
constructor arguments and are only ever compared (by `decide`).

* `acquire b`      — `let [mut] b = self.node()` / `self.<mutex field>.lock().unwrap()`; `b` is the binder
                     (`<tempN>` for a guard that is a temporary of one statement);
* `localCheck`     — one or more adjacent early exits (`if .. { return .. }`, `<pure call>?`) in front of the first
                     socket operation, none of which touches the socket;
* `send b h`       — call of helper `h` of the `…Internal` struct on guard `b`; `h` writes one message to the socket;
* `recv b h opt`   — call of helper `h` on guard `b`; `h` reads one reply from the socket; `opt` = the helper may return
                     `Ok` without reading (`wait_for_ack` when REPLY_ACK is off / NEED_REPLY not set);
* `release b`      — `drop(b)`, end of the block that binds `b`, end of the statement for a temporary guard, end of the
                     method;
* `stateWrite b f` — assignment to field `f` of the state behind guard `b`.

Core Lean only.
-/
namespace Base.LockSig

inductive Endpoint where
  | frontend | backend | gpu
  deriving DecidableEq, Repr, Inhabited

inductive Event where
  | acquire (binder : String)
  | localCheck
  | send (on helper : String)
  | recv (on helper : String) (optional : Bool)
  | release (binder : String)
  | stateWrite (on field : String)
  deriving DecidableEq, Repr, Inhabited

/-- one control-flow path of one method (`branch` numbers the paths of a method that differ in their events) -/
structure Row where
  ep : Endpoint
  method : String
  branch : Nat
  events : List Event
  deriving DecidableEq, Repr, Inhabited

/-! ## classification of events -/

def Event.isAcquire : Event → Bool
  | .acquire _ => true
  | _ => false

def Event.isRelease : Event → Bool
  | .release _ => true
  | _ => false

def Event.isSend : Event → Bool
  | .send _ _ => true
  | _ => false

def Event.isRecv : Event → Bool
  | .recv _ _ _ => true
  | _ => false

def Event.isLocalCheck : Event → Bool
  | .localCheck => true
  | _ => false

/-- socket I/O -/
def Event.isIO (e : Event) : Bool := e.isSend || e.isRecv

/-- what a socket operation or a state write is applied to -/
def Event.on? : Event → Option String
  | .send o _ => some o
  | .recv o _ _ => some o
  | .stateWrite o _ => some o
  | _ => none

/-- binder of the first guard acquired -/
def guardBinder : List Event → Option String
  | [] => none
  | .acquire b :: _ => some b
  | _ :: es => guardBinder es

/-! ## the string-free skeleton of an event list -/

/-- steps of a call as the transition system of `Model.Locks` sees them -/
inductive Step where
  | acquire | send | recv | release
  deriving DecidableEq, Repr, Inhabited

/-- steps of a source method: as `Step`, but a read may be conditional on the acknowledgement mode -/
inductive RStep where
  | acquire | send | recv | recvOpt | release
  deriving DecidableEq, Repr, Inhabited

def Event.rstep? : Event → Option RStep
  | .acquire _ => some .acquire
  | .send _ _ => some .send
  | .recv _ _ false => some .recv
  | .recv _ _ true => some .recvOpt
  | .release _ => some .release
  | .localCheck => none
  | .stateWrite _ _ => none

def rsteps (es : List Event) : List RStep := es.filterMap Event.rstep?

/-- the steps taken when acknowledgements are on (`ackMode = true`) or off -/
def inst (ackMode : Bool) : List RStep → List Step
  | [] => []
  | .acquire :: l => .acquire :: inst ackMode l
  | .send :: l => .send :: inst ackMode l
  | .recv :: l => .recv :: inst ackMode l
  | .recvOpt :: l => if ackMode then .recv :: inst ackMode l else inst ackMode l
  | .release :: l => .release :: inst ackMode l

/-! ## the three shape conditions -/

/-- events from the first `acquire` on -/
def fromAcquire (es : List Event) : List Event := es.dropWhile fun e => !e.isAcquire

/-- `l` without what follows its last socket operation -/
def uptoLastIO (l : List Event) : List Event := (l.reverse.dropWhile fun e => !e.isIO).reverse

/-- (a) exactly one guard acquisition, and no socket operation in front of it -/
def OneGuard (es : List Event) : Prop :=
  (es.filter Event.isAcquire).length = 1 ∧ ∀ e ∈ es.takeWhile (fun e => !e.isAcquire), e.isIO = false

/-- (b) no `release` between the acquisition and the last socket operation -/
def IoUnderGuard (es : List Event) : Prop :=
  ∀ e ∈ uptoLastIO (fromAcquire es), e.isRelease = false

/-- (c) every socket operation and state write is applied to the binder of the guard -/
def OnGuardOnly (es : List Event) : Prop :=
  ∀ e ∈ es, e.on? = none ∨ e.on? = guardBinder es

/-- the guard is given back: the last event is the release of the guard's binder -/
def EndsReleased (es : List Event) : Prop :=
  guardBinder es ≠ none ∧ es.getLast? = (guardBinder es).map Event.release

instance (es : List Event) : Decidable (OneGuard es) := by unfold OneGuard; infer_instance
instance (es : List Event) : Decidable (IoUnderGuard es) := by unfold IoUnderGuard; infer_instance
instance (es : List Event) : Decidable (OnGuardOnly es) := by unfold OnGuardOnly; infer_instance
instance (es : List Event) : Decidable (EndsReleased es) := by unfold EndsReleased; infer_instance

end Base.LockSig
