/-!
# Arithmetic / decision cores of the daemon crate (vocabulary)

`tools/rs2lean_arith.py` translates the pure arithmetic and the guards of `vhost-user-backend/src/{bitmap,handler,event_loop}.rs`
into `Gen/{BitmapOps,RoutingOps,MemOps}.lean`.  Machine integers are naturals; every Rust operator whose result depends on
the width is made explicit here (`checked_add`, `saturating_add`, `count_ones`, `trailing_zeros`, `<<`, `as uN`), and every
operator that panics (overflow checks) or wraps where the mathematical result does not fit comes with a *definedness*
condition (a `Bool` function next to the value).  The loops themselves (atomics, epoll calls, locks) are not translated:
a loop is described by a small *descriptor* (range, break condition, per-iteration arguments of the one effect it has) and
the functions below give the descriptors their meaning.

Everything is structural recursion over lists / plain `Nat`/`Bool`; `String` fields are documentation.  Core Lean only.
-/
namespace ArithSig

/-! ## width-dependent operators -/

/-- `a.checked_add(b)` on an unsigned type of `bits` bits -/
def checkedAdd (bits a b : Nat) : Option Nat := if a + b < 2 ^ bits then some (a + b) else none

/-- `a.saturating_add(b)` on an unsigned type of `bits` bits -/
def satAdd (bits a b : Nat) : Nat := if a + b < 2 ^ bits then a + b else 2 ^ bits - 1

/-- `x.count_ones()` of a `bits`-bit value -/
def countOnes (bits x : Nat) : Nat := (List.range bits).countP (fun i => x.testBit i)

/-- `x.trailing_zeros()` of a `bits`-bit value (`bits` for `x = 0`) -/
def trailingZeros (bits x : Nat) : Nat := ((List.range bits).takeWhile (fun i => !x.testBit i)).length

/-- `a << b` on an unsigned type of `bits` bits: the bits shifted out are discarded (defined iff `b < bits`) -/
def shl (bits a b : Nat) : Nat := (a <<< b) % 2 ^ bits

/-- `x as uN` (narrowing) -/
def trunc (bits x : Nat) : Nat := x % 2 ^ bits

/-! ## early exits -/

/-- `if fails { return … }` in front of the arithmetic that follows; `defd` = the arithmetic evaluated up to and including
this condition is defined (no overflow / underflow / out-of-range shift), short-circuit evaluation taken into account.
A `let` whose arithmetic may be undefined is recorded as a guard that never fails (`fails = fun _ => false`). -/
structure Guard (ε : Type) where
  src : String
  fails : ε → Bool
  defd : ε → Bool
  /-- what is returned (documentation) -/
  ret : String

inductive Outcome where
  | pass              -- no exit taken
  | exit (k : Nat)    -- the `k`-th guard (0-based) fired
  | fault             -- undefined arithmetic was reached first
  deriving DecidableEq, Repr, Inhabited

def runGuardsFrom {ε : Type} : Nat → List (Guard ε) → ε → Outcome
  | _, [], _ => .pass
  | k, g :: rest, x => if g.defd x then (if g.fails x then .exit k else runGuardsFrom (k + 1) rest x) else .fault

/-- run the guards in source order -/
def runGuards {ε : Type} (gs : List (Guard ε)) (x : ε) : Outcome := runGuardsFrom 0 gs x

/-! ## `for v in first..=last { if brk { break } …; word[idx].fetch_or(mask) }` -/

/-- a range loop whose body is one break test followed by one atomic `fetch_or` -/
structure AtomicLoop (ε : Type) where
  src : String
  /-- range start, range end -/
  first : ε → Nat
  last : ε → Nat
  /-- `..=` (true) or `..` (false) -/
  inclusive : Bool
  /-- `if brk { break; }` at the top of the body, as a function of the loop variable -/
  brk : ε → Nat → Bool
  /-- index of the word touched / value OR-ed into it -/
  idx : ε → Nat → Nat
  mask : ε → Nat → Nat
  /-- the arithmetic of an iteration that passed the break test is defined and the index passes the bounds assertion -/
  defd : ε → Nat → Bool

/-- number of values in the range (`first..=last` is empty when `last < first`) -/
def AtomicLoop.count {ε : Type} (l : AtomicLoop ε) (x : ε) : Nat :=
  if l.inclusive then l.last x + 1 - l.first x else l.last x - l.first x

/-- the values of the loop variable for which the body runs past the break test -/
def AtomicLoop.iters {ε : Type} (l : AtomicLoop ε) (x : ε) : List Nat :=
  (List.range' (l.first x) (l.count x)).takeWhile (fun p => !l.brk x p)

/-- `(index, mask)` of the `fetch_or`s, in program order -/
def AtomicLoop.steps {ε : Type} (l : AtomicLoop ε) (x : ε) : List (Nat × Nat) :=
  (l.iters x).map (fun p => (l.idx x p, l.mask x p))

def AtomicLoop.defined {ε : Type} (l : AtomicLoop ε) (x : ε) : Bool := (l.iters x).all (l.defd x)

/-- guards, then the loop -/
structure AtomicProg (ε : Type) where
  guards : List (Guard ε)
  loop : AtomicLoop ε

inductive AtomicOut where
  | fault
  | steps (l : List (Nat × Nat))
  deriving DecidableEq, Repr

def AtomicProg.run {ε : Type} (p : AtomicProg ε) (x : ε) : AtomicOut :=
  match runGuards p.guards x with
  | .fault => .fault
  | .exit _ => .steps []
  | .pass => if p.loop.defined x then .steps (p.loop.steps x) else .fault

/-! ## `for m in table { if hit { return Ok(res) } } Err(missing)` -/

structure FindLoop (α : Type) where
  src : String
  hit : α → Nat → Bool
  hitDefd : α → Nat → Bool
  res : α → Nat → Nat
  resDefd : α → Nat → Bool

inductive Found where
  | ok (v : Nat)
  | missing
  | fault
  deriving DecidableEq, Repr

def FindLoop.run {α : Type} (l : FindLoop α) : List α → Nat → Found
  | [], _ => .missing
  | m :: ms, a =>
    if l.hitDefd m a then
      (if l.hit m a then (if l.resDefd m a then .ok (l.res m a) else .fault) else l.run ms a)
    else .fault

/-! ## `for (t, mask) in masks.iter().enumerate() { if test { handlers[h].op(.., data); break } }` -/

/-- one epoll (un)registration inside a loop over the per-thread queue masks; `test`/`data` take `(queues_mask, index)` -/
structure RouteRow where
  /-- function and epoll operation (documentation) -/
  fn : String
  op : String
  /-- the opaque ring-state condition under which this call is made (documentation) -/
  when : String
  /-- the bit test that selects the thread -/
  test : Nat → Nat → Bool
  testDefd : Nat → Nat → Bool
  /-- the `data` argument of the epoll call (the event id), computed when the test holds -/
  data : Nat → Nat → Nat
  dataDefd : Nat → Nat → Bool
  /-- index into `self.handlers` as a function of the enumeration index -/
  handler : Nat → Nat
  /-- the loop is left after the first thread whose test holds -/
  breaks : Bool

inductive Routed where
  | none
  | some (handler data : Nat)
  | fault
  deriving DecidableEq, Repr

/-- the loop (with its `break`), started at enumeration index `t` -/
def RouteRow.runFrom (r : RouteRow) (q : Nat) : Nat → List Nat → Routed
  | _, [] => .none
  | t, m :: ms =>
    if r.testDefd m q then
      (if r.test m q then (if r.dataDefd m q then .some (r.handler t) (r.data m q) else .fault)
       else r.runFrom q (t + 1) ms)
    else .fault

def RouteRow.run (r : RouteRow) (masks : List Nat) (q : Nat) : Routed := r.runFrom q 0 masks

/-! ## `for (index, item) in items.iter().enumerate() { if keep { out.push(item.clone()) } }` -/

structure FilterLoop where
  src : String
  /-- `items.len()` as a function of `num_queues` -/
  len : Nat → Nat
  /-- `(queues_mask, index)` -/
  keep : Nat → Nat → Bool
  keepDefd : Nat → Nat → Bool

def FilterLoop.run (l : FilterLoop) (n mask : Nat) : List Nat := (List.range (l.len n)).filter (l.keep mask)
def FilterLoop.defined (l : FilterLoop) (n mask : Nat) : Bool := (List.range (l.len n)).all (l.keepDefd mask)

end ArithSig
