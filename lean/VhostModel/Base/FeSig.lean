/-!
# Signature of an operation of the frontend endpoint (shared by the generated table and the model)

`tools/rs2lean_frontend.py` reads `vhost/src/vhost_user/frontend.rs` and writes `Gen/FrontendOps.lean` in this
vocabulary; `Model/FrontendTable.lean` states in the same vocabulary what `Model.Frontend.request` does;
`Props/FrontendOps.lean` compares the two and ties the table to the executable model.

Everything here is a plain inductive over `Nat` / `String` / `Bool` (strings only as constructor arguments), so that
equality of tables is decided by kernel reduction.
-/
namespace Base

/-- A *refusal condition*: the constructor names the condition under which the call fails (the Rust condition is given
with each constructor; `R` is the locked node — `node` in the API methods, `self` in the helpers). -/
inductive FeCond where
  /-- `queue_index as u64 >= R.max_queue_num` -/
  | queueIdxOob
  /-- `queue_index > max` -/
  | idxAbove (max : Nat)
  /-- `R.acked_protocol_features & F.bits() == 0` for the protocol feature with this bit number
  (`check_proto_feature(F)` once its body has been seen to test `acked_protocol_features`) -/
  | protoMissing (bit : Nat)
  /-- the same against `R.protocol_features` (the offered set) -/
  | protoNotOffered (bit : Nat)
  /-- `R.acked_virtio_features & F.bits() == 0` (`acked = true`) or `R.virtio_features & F.bits() == 0`
  (`acked = false`: the set reported by GET_FEATURES; `check_feature(F)` once its body has been seen to test it) -/
  | virtioMissing (bit : Nat) (acked : Bool)
  /-- `path & !(Ty::all().bits()) != 0`, `all` = the union of the flags of `Ty` -/
  | flagsOutside (path ty : String) (all : Nat)
  /-- `arg.is_empty()` -/
  | empty (arg : String)
  /-- `arg.len() > max` -/
  | lenAbove (arg : String) (max : Nat)
  /-- inside `for x in coll.iter()`: `x.field == 0` -/
  | anyZero (coll field : String)
  /-- inside `for x in coll.iter()`: `x.field < 0` -/
  | anyNegative (coll field : String)
  /-- `path == 0` (an argument or a field of an argument) -/
  | zero (path : String)
  /-- `path < 0` -/
  | negative (path : String)
  /-- `!x.is_valid()` for a value `x : ty` -/
  | invalid (ty : String)
  /-- `mem::size_of::<T>() > max` (a property of the body type alone) -/
  | bodySizeAbove (max : Nat)
  /-- `mem::size_of::<T>() + payload.len() > max` -/
  | msgSizeAbove (max : Nat)
  /-- `fds` is `Some(a)` and `a.len() > max` -/
  | fdCountAbove (max : Nat)
  /-- `self.check_state()?` fails -/
  | broken
  -- conditions that only occur inside the helper methods
  /-- `self.error` is `Some(_)` (body of `check_state`) -/
  | errorSet
  /-- `self.field & feat.bits() == 0` for the parameter `feat` (bodies of `check_feature` / `check_proto_feature`) -/
  | paramBitClear (field : String)
  /-- `hdr.is_reply()` -/
  | hdrIsReply
  /-- `hdr.get_size() as usize <= mem::size_of::<T>()` -/
  | hdrSizeLeBody
  /-- `hdr.get_size() as usize > max` -/
  | hdrSizeAbove (max : Nat)
  /-- `!reply.is_reply_for(hdr)` -/
  | notReplyFor
  /-- the descriptors received with the reply `.is_some()` -/
  | filesPresent
  /-- the descriptors received with the reply `.is_none()` -/
  | filesAbsent
  /-- `!body.is_valid()` for the received body -/
  | replyInvalid
  /-- `(reply.get_size() as usize).checked_sub(mem::size_of::<T>())` is `None` -/
  | replySizeBelowBody
  /-- `payload_size > expected` (reply payload larger than the request's) -/
  | payloadExceeds
  /-- `bytes != payload_size` after `recv_data` -/
  | payloadShort
  /-- `body.value != 0` (the acknowledgement) -/
  | ackNonZero
  /-- `!hdr.is_need_reply()` -/
  | noNeedReply
  deriving Repr, DecidableEq, Inhabited

/-- a check: refusal condition and the `VhostUserError` variant raised -/
abbrev FeCheck := FeCond × String

/-- which of the send paths of a method a row describes (only `set_log_base` has two) -/
inductive FeSel where
  /-- `node.acked_protocol_features & F.bits() != 0` -/
  | proto (bit : Nat)
  /-- `arg.is_some()` -/
  | isSome (arg : String)
  /-- the `else` branch: the conjunction of the preceding row's selectors is false -/
  | otherwise
  deriving Repr, DecidableEq, Inhabited

inductive FeBody where
  /-- header only (`send_request_header`) -/
  | none
  /-- a body of this message type (`send_request_with_body`, `send_fd_for_vring`) -/
  | fixed (ty : String)
  /-- a body of this type followed by a byte payload (`send_request_with_payload`) -/
  | withPayload (ty : String)
  deriving Repr, DecidableEq, Inhabited

inductive FeAwait where
  /-- nothing is read -/
  | none
  /-- `wait_for_ack` -/
  | ack
  /-- `recv_reply::<ty>` -/
  | reply (ty : String)
  /-- `recv_reply_with_optional_files::<ty>` -/
  | replyOptFiles (ty : String)
  /-- `recv_reply_with_files::<ty>` -/
  | replyFiles (ty : String)
  /-- `recv_reply_with_payload::<ty>` -/
  | replyPayload (ty : String)
  deriving Repr, DecidableEq, Inhabited

inductive FeSrc where
  /-- an argument of the method (`x` or `x.bits()`) -/
  | arg (name : String)
  /-- `arg & node.field` -/
  | argAndField (arg field : String)
  /-- `.field` of the value returned by the reply reader -/
  | replyField (field : String)
  | const (b : Bool)
  deriving Repr, DecidableEq, Inhabited

/-- `node.field = src`; `afterReply` = the assignment stands after the reply reader (otherwise between send and reader) -/
inductive FeUpd where
  | assign (field : String) (src : FeSrc) (afterReply : Bool)
  deriving Repr, DecidableEq, Inhabited

/-- what a method does once the reply reader has returned, statement by statement; conditions and values are the source
text in a canonical rendering -/
inductive FePost where
  | bind (name val : String)
  | errIf (cond err : String)
  | okIf (cond val : String)
  | takeSingleIf (cond err : String)
  | err (e : String)
  | ok (val : String)
  /-- `match take_single_file(files) { Some(f) => Ok(..), None => error_code(err) }` -/
  | takeSingle (err : String)
  deriving Repr, DecidableEq, Inhabited

structure FeRow where
  name : String
  sel : List FeSel
  /-- local checks in front of the send, in order (the method's own, then those of the send helper it calls) -/
  checks : List FeCheck
  /-- the `FrontendReq` code sent -/
  code : Nat
  body : FeBody
  /-- descriptors are attached (`Some(..)` is handed to the send helper, or the helper attaches one itself) -/
  fds : Bool
  await : FeAwait
  updates : List FeUpd
  post : List FePost
  deriving Repr, DecidableEq, Inhabited

/-- a statement of a helper method of `FrontendInternal` -/
inductive FeStep where
  | check (c : FeCond) (err : String)
  /-- a check under `if let Some(_) = fds` -/
  | checkIfFds (c : FeCond) (err : String)
  /-- `if c { return Ok(()) }` -/
  | skipIf (c : FeCond)
  /-- `self.new_request_header(code, size)`: `"0"`, `"T"` (= `size_of::<T>()`), `"T+payload"` or a message type -/
  | header (size : String)
  /-- `let msg = ty::new(args)` -/
  | build (ty args : String)
  /-- `self.main_sock.method(hdr, args)` / `recv_body::<args>()` / `recv_data(args)` -/
  | sock (method args : String)
  /-- `self.helper(hdr)?` -/
  | delegate (helper : String)
  | ok (val : String)
  deriving Repr, DecidableEq, Inhabited

/-- first occurrence of every element, in order -/
def dedup {α : Type} [BEq α] : List α → List α
  | [] => []
  | x :: xs => x :: (dedup xs).filter (fun y => !(y == x))

end Base
