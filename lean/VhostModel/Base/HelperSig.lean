/-!
# Guard programs of the private helper functions of `BackendReqHandler` (vocabulary)

`tools/rs2lean_helpers.py` translates the body of each helper of `backend_req_handler.rs` into a *guard program*
(`Gen/Helpers.lean`): the ordered list of its early exits (`Step.check`: the translated Rust condition as a `Bool`
function of the inputs, the side condition under which the `usize` arithmetic of that condition is defined, and the
error returned) and of its raw reads from the message buffer (`Step.decode`: a raw pointer cast = "read `len` bytes
at `off`"), followed by the terminal action (`Term`: which handler method is invoked with which argument expressions,
which reply is sent, what is returned).

Everything a theorem has to evaluate is structural recursion over lists / plain `Nat`/`Bool` arithmetic; the `String`
fields are documentation (source text) and are never inspected by a definition in this file.
Core Lean only.
-/
namespace HelperSig

/-- the `Error` variants the helpers return -/
inductive HErr where
  | invalidMessage | invalidParam | invalidOperation | inactiveFeature | inactiveOperation | incorrectFds
  | socketBroken
  deriving DecidableEq, Repr, Inhabited

/-- the inputs of a helper that are not fields of a decoded message (fixed vocabulary; a Rust expression that mentions
anything else is refused by the translator).  `usize`/`u32`/`u64` values as naturals. -/
structure HIn where
  size : Nat := 0            -- parameter `size`
  expected : Nat := 0        -- parameter `expected`
  payloadSize : Nat := 0     -- parameter `payload_size`
  bufLen : Nat := 0          -- `buf.len()`
  code : Nat := 0            -- the header's `request` field
  hdrFlags : Nat := 0        -- the header's `flags` field
  hdrSize : Nat := 0         -- the header's `size` field
  filesIsSome : Bool := false  -- `files.is_some()`
  nfiles : Nat := 0          -- `files.len()` of the vector inside (0 when `files` is `None`)
  sizeOfT : Nat := 0         -- `mem::size_of::<T>()` of a generic helper
  msgValid : Bool := true    -- `msg.is_valid()` of a generic helper (`T: VhostUserMsgValidator`)
  feat : Nat := 0            -- `feat.bits()`
  ackedVirtio : Nat := 0     -- `self.acked_virtio_features`
  ackedProto : Nat := 0      -- `self.acked_protocol_features`
  replyAck : Bool := false   -- `self.reply_ack_enabled`
  errorIsSome : Bool := false -- `self.error.is_some()`
  resOk : Bool := true       -- the handler's result is `Ok(_)`
  resLen : Nat := 0          -- length of the buffer inside an `Ok(buf)` handler result
  deriving Repr, Inhabited

/-- one observable step of a helper in front of its terminal action -/
inductive Step (ε : Type) where
  /-- `if fails { return Err(err) }` (also `e.ok_or(err)?`, `let x = match e { Some(v) => v, None => return Err(err) }`, a
  failing arm of a `match`).  `defd`: every `a - b` in the condition has `b ≤ a` and every `a + b`, `a * b` stays below
  `2^64`, taking the short-circuit evaluation of `||`/`&&` into account — where it is false the Rust code panics
  (overflow checks) or wraps. -/
  | check (src : String) (fails : ε → Bool) (defd : ε → Bool) (err : HErr)
  /-- a raw pointer cast / `read_unaligned` / `from_raw_parts`: reads `len` bytes of `buf` starting at `off` -/
  | decode (ty : String) (off : ε → Nat) (len : ε → Nat)

inductive Outcome where
  | pass                 -- every check passed: the terminal action runs
  | err (e : HErr)       -- the first failing check
  | fault                -- undefined arithmetic or a read outside the buffer was reached first
  deriving DecidableEq, Repr, Inhabited

/-- run the steps in source order -/
def run {ε : Type} (bufLen : ε → Nat) : List (Step ε) → ε → Outcome
  | [], _ => .pass
  | .check _ f d e :: rest, x => if d x then (if f x then .err e else run bufLen rest x) else .fault
  | .decode _ off len :: rest, x => if off x + len x ≤ bufLen x then run bufLen rest x else .fault

/-- the reads the steps perform, as `(offset, length)`, in source order -/
def decodes {ε : Type} : List (Step ε) → ε → List (Nat × Nat)
  | [], _ => []
  | .check _ _ _ _ :: rest, x => decodes rest x
  | .decode _ off len :: rest, x => (off x, len x) :: decodes rest x

/-- a value handed to the handler / returned, symbolically -/
inductive Val (ε : Type) where
  | nat (src : String) (v : ε → Nat)              -- a scalar expression
  | bufFrom (src : String) (off : ε → Nat)        -- `&buf[off..]`
  | optFile (src : String) (isSome : ε → Bool)    -- `take_single_file(files)`
  | file (src : String)                           -- the single received file (checked present), possibly wrapped
  | files (src : String)                          -- the received file vector (checked present)
  | msg (src : String) (ty : String)              -- the decoded message itself
  | slice (src : String) (ty : String) (off count : ε → Nat)  -- the decoded array `count × ty` at `off`

/-- the scalar arguments, in order -/
def Val.nats {ε : Type} : List (Val ε) → ε → List Nat
  | [], _ => []
  | .nat _ v :: rest, x => v x :: Val.nats rest x
  | _ :: rest, x => Val.nats rest x

/-- offset of the `&buf[off..]` argument, if there is one -/
def Val.payloadOff {ε : Type} : List (Val ε) → ε → Option Nat
  | [], _ => none
  | .bufFrom _ off :: _, x => some (off x)
  | _ :: rest, x => Val.payloadOff rest x

/-- `(offset, count)` of the decoded-array argument, if there is one -/
def Val.sliceOf {ε : Type} : List (Val ε) → ε → Option (Nat × Nat)
  | [], _ => none
  | .slice _ _ off cnt :: _, x => some (off x, cnt x)
  | _ :: rest, x => Val.sliceOf rest x

/-- presence of the optional-file argument, if there is one -/
def Val.optFileOf {ε : Type} : List (Val ε) → ε → Option Bool
  | [], _ => none
  | .optFile _ p :: _, x => some (p x)
  | _ :: rest, x => Val.optFileOf rest x

def Val.hasFile {ε : Type} : List (Val ε) → Bool
  | [] => false
  | .file _ :: _ => true
  | _ :: rest => Val.hasFile rest

def Val.hasFiles {ε : Type} : List (Val ε) → Bool
  | [] => false
  | .files _ :: _ => true
  | _ :: rest => Val.hasFiles rest

/-- one arm of a `match res { … }` that sends a reply -/
structure ReplyArm (ε : Type) where
  src : String                 -- the pattern (and guard) as written
  guard : ε → Bool             -- pattern and guard as a condition on the handler's result
  fields : List (ε → Nat)      -- the reply struct's fields, in declaration order
  payload : Bool               -- `send_reply_with_payload` (the handler's buffer follows) vs `send_reply_message`
  payloadLen : ε → Nat         -- `payload.len()` handed to `new_reply_header`

/-- first arm whose guard holds -/
def selectArm {ε : Type} : List (ReplyArm ε) → ε → Option (ReplyArm ε)
  | [], _ => none
  | a :: rest, x => if a.guard x then some a else selectArm rest x

/-- what the helper returns after its terminal action -/
inductive Ret where
  | ok          -- `Ok(())` whatever the handler said
  | res         -- the handler's result as it is
  deriving DecidableEq, Repr

/-- the terminal action of a helper, reached when every step passed -/
inductive Term (ε : Type) where
  /-- `Ok(vals)`; no handler invoked -/
  | ret (vals : List (Val ε))
  /-- `self.backend.method(args)` -/
  | call (method : String) (args : List (Val ε)) (ret : Ret)
  /-- `let res = self.backend.method(args); match res { arms }; Ok(())` -/
  | callReply (method : String) (args : List (Val ε)) (arms : List (ReplyArm ε))
  /-- `if cond { steps; send_message(hdr, T{fields}, None)? } res` -/
  | sendIf (cond : ε → Bool) (steps : List (Step ε)) (fields : List (ε → Nat))
  /-- `Ok(VhostUserMsgHeader { request, flags, size })` -/
  | hdr (request flags size : ε → Nat)

/-- how the result of the handler invocation is returned (`none`: the terminal action invokes no handler) -/
def Term.retOf {ε : Type} : Term ε → Option Ret
  | .call _ _ r => some r
  | .callReply _ _ _ => some .ok
  | _ => none

/-- the condition of a conditional send, evaluated -/
def Term.sendCond {ε : Type} : Term ε → ε → Option Bool
  | .sendIf c _ _, x => some (c x)
  | _, _ => none

/-- a conditional send is followed by returning the handler's result `res` unchanged -/
def Term.returnsRes {ε : Type} : Term ε → Bool
  | .sendIf _ _ _ => true
  | .call _ _ .res => true
  | _ => false

/-- the header built by a `.hdr` terminal -/
def Term.hdrOf {ε : Type} : Term ε → ε → Option (Nat × Nat × Nat)
  | .hdr r f s, x => some (r x, f x, s x)
  | _, _ => none

end HelperSig
