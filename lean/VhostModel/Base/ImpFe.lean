import VhostModel.Base.Imp
/-!
# `ImpFe`: the layer of `Imp` for the reply readers of `frontend.rs`

`Base/Imp.lean` interprets the loops and framing functions of `connection.rs`.  The reply readers of
`FrontendInternal` (`recv_reply*`, `wait_for_ack`, `check_*`, `new_request_header`), the header accessors of
`message.rs` they use and the part of every API method that runs after the reader returned are straight-line code over

* the fields of `FrontendInternal` (`Self`),
* message structs held as byte strings (`FFrame.b`; a field is read through the layout: `FExp.field`),
* received descriptors `Option<Vec<File>>` (`FFrame.f`; moved, and closed when dropped — `FStmt.dropF`, emitted by the
  translator where Rust drops the value) and single `File`s (a descriptor number in `FFrame.n`),
* `Result`s (`FFrame.r`), whose errors are those of `connection.rs` (`FErr.conn`) or the local refusals of the frontend.

`tools/rs2lean_ferecv.py` translates them into terms of `FStmt` (`Gen/FeRecv.lean`).  The socket is touched only through
`FStmt.callConn`: a call of an already generated `Gen.ConnLoops` term (`recv_body::<T>`, `recv_data`), run by
`Imp.exec` on the same `World` (stream, chooser state, heap, closed descriptors) with the environment of the generic
parameter `T` (`FEnv.conn`).  There is no loop at this level: the fuel is only handed down to `Imp.exec`.

Nothing of `Imp.lean` is changed; this file only adds definitions.  Core Lean only.
-/
namespace ImpFe
open Imp (Var Fd Bytes Stuck World upd)

/-- the numeric fields of `struct FrontendInternal` that the translated functions read or write -/
inductive Field where
  | virtio_features | acked_virtio_features | protocol_features | acked_protocol_features | max_queue_num | hdr_flags
  deriving DecidableEq, Repr, Inhabited

/-- `struct FrontendInternal` without the socket (`main_sock` is the `World`); `error : Option<i32>` -/
structure Self where
  virtio_features : Nat := 0
  acked_virtio_features : Nat := 0
  protocol_features : Nat := 0
  acked_protocol_features : Nat := 0
  max_queue_num : Nat := 0
  hdr_flags : Nat := 0
  error : Option Nat := none
  deriving DecidableEq, Repr, Inhabited

def Self.get (s : Self) : Field → Nat
  | .virtio_features => s.virtio_features
  | .acked_virtio_features => s.acked_virtio_features
  | .protocol_features => s.protocol_features
  | .acked_protocol_features => s.acked_protocol_features
  | .max_queue_num => s.max_queue_num
  | .hdr_flags => s.hdr_flags

def Self.set (s : Self) (f : Field) (v : Nat) : Self :=
  match f with
  | .virtio_features => { s with virtio_features := v }
  | .acked_virtio_features => { s with acked_virtio_features := v }
  | .protocol_features => { s with protocol_features := v }
  | .acked_protocol_features => { s with acked_protocol_features := v }
  | .max_queue_num => { s with max_queue_num := v }
  | .hdr_flags => { s with hdr_flags := v }

/-- `vhost_user::Error` as far as these functions raise it: the errors of `connection.rs`, and the frontend's own -/
inductive FErr where
  | conn (e : Imp.Err)
  | invalidParam
  | backendInternalError
  | inactiveFeature (feat : Nat)
  | inactiveOperation (feat : Nat)
  deriving DecidableEq, Repr, Inhabited

/-- an `Ok(..)` payload: integers, the optional descriptors, the byte buffers (structs, `Vec<u8>`), each in order, and
at most one single `File` (`Ok(file)`, `Ok(Some(file))`; `Ok(None)` / `None` = no file) -/
structure FVal where
  nats : List Nat := []
  fds : Option (List Fd) := none
  bufs : List Bytes := []
  file : Option Fd := none
  deriving DecidableEq, Repr, Inhabited

inductive FRVal where
  | ok (v : FVal)
  | err (e : FErr)
  deriving DecidableEq, Repr, Inhabited

/-- a result of `connection.rs` seen from the frontend -/
def liftR : Imp.RVal → FRVal
  | .ok v => .ok { nats := v.nats, fds := v.fds, bufs := v.bufs }
  | .err e => .err (.conn e)

/-! ## syntax -/

inductive FExp where
  | lit (n : Nat)
  | var (v : Var)
  | self (f : Field)                                      -- `self.<field>` / `node.<field>` (`.bits()` of a flags field)
  | field (b : Var) (struct : String) (path : List String) -- `<struct value>.<field>`, through the layout of the struct
  | band (a b : FExp)
  | bor (a b : FExp)
  | add (a b : FExp)
  | sub (a b : FExp)                                      -- defined iff `b ≤ a`
  | sizeOf (T : String)                                   -- `mem::size_of::<T>()`
  | lenB (b : Var)                                        -- `.len()` of a byte slice / `Vec<u8>`
  | lenF (f : Var)                                        -- `.len()` of a `Vec<File>`

inductive FCond where
  | tt | ff
  | lt (a b : FExp) | le (a b : FExp) | eq (a b : FExp) | ne (a b : FExp) | gt (a b : FExp) | ge (a b : FExp)
  | and (a b : FCond)           -- `&&`
  | or (a b : FCond)            -- `||`
  | not (a : FCond)
  | ite (c t e : FCond)         -- `if c { t } else { e }` of type `bool`
  | fIsSome (f : Var)           -- `files.is_some()` (`is_none()` = `not`)
  | valid (T : String) (b : Var)  -- `body.is_valid()` for `T: VhostUserMsgValidator`
  | codeOk (e : FExp)           -- `R::try_from(e).is_ok()` (`enum_value!`: exactly the listed values)

inductive FFd where
  | none
  | move (f : Var)              -- `Option<Vec<File>>` is moved: the source is left empty

inductive FErrExp where
  | const (e : FErr)
  | ofRes (r : Var)             -- the error inside that result (`?`)
  | sockBroken (e : FExp)       -- `Error::SocketBroken(io::Error::from_raw_os_error(e))`
  | inactiveFeature (e : FExp)
  | inactiveOperation (e : FExp)

inductive FStmt where
  | skip
  | seq (a b : FStmt)
  | assign (v : Var) (e : FExp)
  | assignSelf (f : Field) (e : FExp)
  | assignF (f : Var) (e : FFd)
  /-- the value goes out of scope: the `File`s inside are closed -/
  | dropF (f : Var)
  /-- a struct literal: the fields in layout order with their widths, little-endian -/
  | mkBuf (b : Var) (fields : List (Nat × FExp))
  /-- `file = files.swap_remove(idx)` -/
  | takeFd (file : Var) (files : Var) (idx : FExp)
  | ite (c : FCond) (t e : FStmt)
  /-- `match self.error { Some(e) => someS, None => noneS }` -/
  | matchSelfError (e : Var) (someS noneS : FStmt)
  | ret (nats : List FExp) (fd : FFd) (bufs : List Var) (file : Option Var)
  | retErr (e : FErrExp)
  | fault
  /-- `res = self.main_sock.<name>::<T>(args)`: the generated `Gen.ConnLoops` term, run by `Imp.exec` -/
  | callConn (name : String) (T : String) (body : Imp.Stmt) (nArgs : List (Var × FExp)) (res : Var)
  /-- `res = name(args)` for a function of this layer; descriptor arguments are moved -/
  | callFe (name : String) (body : FStmt) (nArgs : List (Var × FExp)) (bArgs : List (Var × Var)) (fArgs : List (Var × Var))
      (res : Var)
  /-- `match res { Ok((n.., fds, bufs.., file)) => okS, Err(_) => errS }` -/
  | matchOk (res : Var) (okN : List Var) (okF : Option Var) (okB : List Var) (okFile : Option Var) (okS errS : FStmt)
  /-- `match res { Some(file) => someS, None => noneS }` for an `Option<File>` -/
  | matchFile (res : Var) (file : Var) (someS noneS : FStmt)

/-! ## state -/

structure FFrame where
  n : Nat → Nat := fun _ => 0
  f : Nat → Option (List Fd) := fun _ => none
  b : Nat → Bytes := fun _ => []
  r : Nat → FRVal := fun _ => .ok {}

/-- what the generic parameters and the peer contribute.  `base` gives chooser, closedness, errno classes, the header
size and validator; `tySize`/`tyValid` = `size_of::<T>()` / `T::is_valid` by type name; `fieldVal` reads a struct field;
`codes` = the values of `enum FrontendReq` -/
structure FEnv (σ : Type) where
  base : Imp.Env σ
  tySize : String → Nat
  tyValid : String → Bytes → Bool
  fieldVal : Bytes → String → List String → Nat
  codes : List Nat

/-- the environment of `Endpoint::<H>::f::<T>` -/
def FEnv.conn {σ : Type} (env : FEnv σ) (T : String) : Imp.Env σ :=
  { env.base with sizeT := env.tySize T, validT := env.tyValid T }

inductive FCtl where
  | normal
  | done (r : FRVal)
  /-- `inner` = the activation of `connection.rs` in which the call is stuck -/
  | stuck (s : Stuck) (inner : Imp.Frame)

abbrev FRes (σ : Type) := FCtl × FFrame × Self × World σ

/-! ## expressions -/

def evalX {σ : Type} (env : FEnv σ) (fr : FFrame) (sf : Self) : FExp → Option Nat
  | .lit n => some n
  | .var v => some (fr.n v.id)
  | .self f => some (sf.get f)
  | .field b s p => some (env.fieldVal (fr.b b.id) s p)
  | .band a b => match evalX env fr sf a, evalX env fr sf b with
    | some x, some y => some (x &&& y)
    | _, _ => none
  | .bor a b => match evalX env fr sf a, evalX env fr sf b with
    | some x, some y => some (x ||| y)
    | _, _ => none
  | .add a b => match evalX env fr sf a, evalX env fr sf b with
    | some x, some y => some (x + y)
    | _, _ => none
  | .sub a b => match evalX env fr sf a, evalX env fr sf b with
    | some x, some y => if y ≤ x then some (x - y) else none
    | _, _ => none
  | .sizeOf T => some (env.tySize T)
  | .lenB b => some (fr.b b.id).length
  | .lenF f => some ((fr.f f.id).getD []).length

def evalC {σ : Type} (env : FEnv σ) (fr : FFrame) (sf : Self) : FCond → Option Bool
  | .tt => some true
  | .ff => some false
  | .lt a b => match evalX env fr sf a, evalX env fr sf b with | some x, some y => some (decide (x < y)) | _, _ => none
  | .le a b => match evalX env fr sf a, evalX env fr sf b with | some x, some y => some (decide (x ≤ y)) | _, _ => none
  | .eq a b => match evalX env fr sf a, evalX env fr sf b with | some x, some y => some (decide (x = y)) | _, _ => none
  | .ne a b => match evalX env fr sf a, evalX env fr sf b with | some x, some y => some (decide (x ≠ y)) | _, _ => none
  | .gt a b => match evalX env fr sf a, evalX env fr sf b with | some x, some y => some (decide (x > y)) | _, _ => none
  | .ge a b => match evalX env fr sf a, evalX env fr sf b with | some x, some y => some (decide (x ≥ y)) | _, _ => none
  | .and a b => match evalC env fr sf a with
    | some true => evalC env fr sf b
    | some false => some false
    | none => none
  | .or a b => match evalC env fr sf a with
    | some true => some true
    | some false => evalC env fr sf b
    | none => none
  | .not a => (evalC env fr sf a).map (!·)
  | .ite c t e => match evalC env fr sf c with
    | some true => evalC env fr sf t
    | some false => evalC env fr sf e
    | none => none
  | .fIsSome f => some (fr.f f.id).isSome
  | .valid T b => some (env.tyValid T (fr.b b.id))
  | .codeOk e => (evalX env fr sf e).map (fun v => env.codes.contains v)

/-- value and the frame afterwards (a move empties its source) -/
def evalFd (fr : FFrame) : FFd → Option (List Fd) × FFrame
  | .none => (none, fr)
  | .move f => (fr.f f.id, { fr with f := upd fr.f f.id none })

def evalXs {σ : Type} (env : FEnv σ) (fr : FFrame) (sf : Self) : List FExp → Option (List Nat)
  | [] => some []
  | e :: es => match evalX env fr sf e, evalXs env fr sf es with
    | some x, some xs => some (x :: xs)
    | _, _ => none

/-- the bytes of a struct literal -/
def evalFields {σ : Type} (env : FEnv σ) (fr : FFrame) (sf : Self) : List (Nat × FExp) → Option Bytes
  | [] => some []
  | (w, e) :: rest => match evalX env fr sf e, evalFields env fr sf rest with
    | some x, some bs => some (Base.leBytes w x ++ bs)
    | _, _ => none

def errOfR (fr : FFrame) (r : Var) : FErr :=
  match fr.r r.id with
  | .err e => e
  | .ok _ => .conn (.errno 0)

def evalErr {σ : Type} (env : FEnv σ) (fr : FFrame) (sf : Self) : FErrExp → Option FErr
  | .const e => some e
  | .ofRes r => some (errOfR fr r)
  | .sockBroken e => (evalX env fr sf e).map (fun v => .conn (.sock .broken v))
  | .inactiveFeature e => (evalX env fr sf e).map .inactiveFeature
  | .inactiveOperation e => (evalX env fr sf e).map .inactiveOperation

/-- `Vec::swap_remove` -/
def swapRemove (l : List Fd) (i : Nat) : List Fd := (l.set i (l.getLast?.getD 0)).dropLast

/-! ## statements -/

def bindNs (σn : Nat → Nat) : List Var → List Nat → Nat → Nat
  | x :: xs, v :: vs => bindNs (upd σn x.id v) xs vs
  | _, _ => σn

def bindBs (σb : Nat → Bytes) : List Var → List Bytes → Nat → Bytes
  | x :: xs, v :: vs => bindBs (upd σb x.id v) xs vs
  | _, _ => σb

def argsN {σ : Type} (env : FEnv σ) (caller : FFrame) (sf : Self) : List (Var × FExp) → (Nat → Nat) → Option (Nat → Nat)
  | [], σn => some σn
  | (p, e) :: rest, σn => match evalX env caller sf e with
    | some v => argsN env caller sf rest (upd σn p.id v)
    | none => none

def argsB (caller : FFrame) : List (Var × Var) → (Nat → Bytes) → (Nat → Bytes)
  | [], s => s
  | (p, a) :: rest, s => argsB caller rest (upd s p.id (caller.b a.id))

def argsF (caller : FFrame) : List (Var × Var) → (Nat → Option (List Fd)) → (Nat → Option (List Fd))
  | [], s => s
  | (p, a) :: rest, s => argsF caller rest (upd s p.id (caller.f a.id))

/-- the caller's descriptor variables after they were moved into the callee -/
def movedF : List (Var × Var) → (Nat → Option (List Fd)) → (Nat → Option (List Fd))
  | [], s => s
  | (_, a) :: rest, s => movedF rest (upd s a.id none)

def exec {σ : Type} (env : FEnv σ) : FStmt → Nat → FFrame → Self → World σ → FRes σ
  | .skip, _, fr, sf, w => (.normal, fr, sf, w)
  | .seq a b, fuel, fr, sf, w =>
    match exec env a fuel fr sf w with
    | (.normal, fr', sf', w') => exec env b fuel fr' sf' w'
    | r => r
  | .assign v e, _, fr, sf, w =>
    match evalX env fr sf e with
    | some x => (.normal, { fr with n := upd fr.n v.id x }, sf, w)
    | none => (.stuck .fault {}, fr, sf, w)
  | .assignSelf f e, _, fr, sf, w =>
    match evalX env fr sf e with
    | some x => (.normal, fr, sf.set f x, w)
    | none => (.stuck .fault {}, fr, sf, w)
  | .assignF f e, _, fr, sf, w =>
    let r := evalFd fr e
    (.normal, { r.2 with f := upd r.2.f f.id r.1 }, sf, w)
  | .dropF f, _, fr, sf, w =>
    (.normal, { fr with f := upd fr.f f.id none }, sf, { w with closed := w.closed ++ (fr.f f.id).getD [] })
  | .mkBuf b fields, _, fr, sf, w =>
    match evalFields env fr sf fields with
    | some bs => (.normal, { fr with b := upd fr.b b.id bs }, sf, w)
    | none => (.stuck .fault {}, fr, sf, w)
  | .takeFd file files idx, _, fr, sf, w =>
    match evalX env fr sf idx, fr.f files.id with
    | some i, some l =>
      match l[i]? with
      | some x => (.normal, { fr with n := upd fr.n file.id x, f := upd fr.f files.id (some (swapRemove l i)) }, sf, w)
      | none => (.stuck .fault {}, fr, sf, w)
    | _, _ => (.stuck .fault {}, fr, sf, w)
  | .ite c t e, fuel, fr, sf, w =>
    match evalC env fr sf c with
    | some true => exec env t fuel fr sf w
    | some false => exec env e fuel fr sf w
    | none => (.stuck .fault {}, fr, sf, w)
  | .matchSelfError e someS noneS, fuel, fr, sf, w =>
    match sf.error with
    | some x => exec env someS fuel { fr with n := upd fr.n e.id x } sf w
    | none => exec env noneS fuel fr sf w
  | .ret nats fd bufs file, _, fr, sf, w =>
    match evalXs env fr sf nats with
    | some ns =>
      let r := evalFd fr fd
      (.done (.ok { nats := ns, fds := r.1, bufs := bufs.map (fun v => fr.b v.id), file := file.map (fun v => fr.n v.id) }), r.2, sf, w)
    | none => (.stuck .fault {}, fr, sf, w)
  | .retErr e, _, fr, sf, w =>
    match evalErr env fr sf e with
    | some x => (.done (.err x), fr, sf, w)
    | none => (.stuck .fault {}, fr, sf, w)
  | .fault, _, fr, sf, w => (.stuck .fault {}, fr, sf, w)
  | .callConn _ T body nArgs res, fuel, fr, sf, w =>
    match argsN env fr sf nArgs (fun _ => 0) with
    | none => (.stuck .fault {}, fr, sf, w)
    | some σn =>
      match Imp.exec (env.conn T) body fuel { n := σn } w with
      | (.done rv, _, w') => (.normal, { fr with r := upd fr.r res.id (liftR rv) }, sf, w')
      | (.stuck s, fr', w') => (.stuck s fr', fr, sf, w')
      | (_, _, w') => (.stuck .fault {}, fr, sf, w')
  | .callFe _ body nArgs bArgs fArgs res, fuel, fr, sf, w =>
    match argsN env fr sf nArgs (fun _ => 0) with
    | none => (.stuck .fault {}, fr, sf, w)
    | some σn =>
      match exec env body fuel { n := σn, b := argsB fr bArgs (fun _ => []), f := argsF fr fArgs (fun _ => none) } sf w with
      | (.done rv, _, sf', w') => (.normal, { fr with f := movedF fArgs fr.f, r := upd fr.r res.id rv }, sf', w')
      | (.stuck s i, _, sf', w') => (.stuck s i, { fr with f := movedF fArgs fr.f }, sf', w')
      | (.normal, _, sf', w') => (.stuck .fault {}, { fr with f := movedF fArgs fr.f }, sf', w')
  | .matchOk res okN okF okB okFile okS errS, fuel, fr, sf, w =>
    match fr.r res.id with
    | .ok v =>
      let fr1 := { fr with n := bindNs fr.n okN v.nats, b := bindBs fr.b okB v.bufs }
      let fr2 := match okF with
        | some f => { fr1 with f := upd fr1.f f.id v.fds }
        | none => fr1
      let fr3 := match okFile, v.file with
        | some x, some fd => { fr2 with n := upd fr2.n x.id fd }
        | _, _ => fr2
      exec env okS fuel fr3 sf w
    | .err _ => exec env errS fuel fr sf w
  | .matchFile res file someS noneS, fuel, fr, sf, w =>
    match fr.r res.id with
    | .ok v =>
      match v.file with
      | some x => exec env someS fuel { fr with n := upd fr.n file.id x } sf w
      | none => exec env noneS fuel fr sf w
    | .err _ => (.stuck .fault {}, fr, sf, w)

/-! ## one-step rewriting rules (one per statement form) -/
section rules
variable {σ : Type} (env : FEnv σ) (F : Nat) (fr : FFrame) (sf : Self) (w : World σ)

@[simp] theorem exec_skip : exec env .skip F fr sf w = (.normal, fr, sf, w) := rfl
@[simp] theorem exec_seq (a b : FStmt) : exec env (.seq a b) F fr sf w =
    match exec env a F fr sf w with
    | (.normal, fr', sf', w') => exec env b F fr' sf' w'
    | r => r := rfl
@[simp] theorem exec_assign (v : Var) (e : FExp) : exec env (.assign v e) F fr sf w =
    match evalX env fr sf e with
    | some x => (.normal, { fr with n := upd fr.n v.id x }, sf, w)
    | none => (.stuck .fault {}, fr, sf, w) := rfl
@[simp] theorem exec_assignSelf (f : Field) (e : FExp) : exec env (.assignSelf f e) F fr sf w =
    match evalX env fr sf e with
    | some x => (.normal, fr, sf.set f x, w)
    | none => (.stuck .fault {}, fr, sf, w) := rfl
@[simp] theorem exec_assignF (f : Var) (e : FFd) : exec env (.assignF f e) F fr sf w =
    (.normal, { (evalFd fr e).2 with f := upd (evalFd fr e).2.f f.id (evalFd fr e).1 }, sf, w) := rfl
@[simp] theorem exec_dropF (f : Var) : exec env (.dropF f) F fr sf w =
    (.normal, { fr with f := upd fr.f f.id none }, sf, { w with closed := w.closed ++ (fr.f f.id).getD [] }) := rfl
@[simp] theorem exec_mkBuf (b : Var) (fields : List (Nat × FExp)) : exec env (.mkBuf b fields) F fr sf w =
    match evalFields env fr sf fields with
    | some bs => (.normal, { fr with b := upd fr.b b.id bs }, sf, w)
    | none => (.stuck .fault {}, fr, sf, w) := rfl
theorem exec_takeFd (file files : Var) (idx : FExp) : exec env (.takeFd file files idx) F fr sf w =
    match evalX env fr sf idx, fr.f files.id with
    | some i, some l =>
      match l[i]? with
      | some x => (.normal, { fr with n := upd fr.n file.id x, f := upd fr.f files.id (some (swapRemove l i)) }, sf, w)
      | none => (.stuck .fault {}, fr, sf, w)
    | _, _ => (.stuck .fault {}, fr, sf, w) := rfl
@[simp] theorem exec_ite (c : FCond) (t e : FStmt) : exec env (.ite c t e) F fr sf w =
    match evalC env fr sf c with
    | some true => exec env t F fr sf w
    | some false => exec env e F fr sf w
    | none => (.stuck .fault {}, fr, sf, w) := rfl
theorem exec_matchSelfError (e : Var) (a b : FStmt) : exec env (.matchSelfError e a b) F fr sf w =
    match sf.error with
    | some x => exec env a F { fr with n := upd fr.n e.id x } sf w
    | none => exec env b F fr sf w := rfl
@[simp] theorem exec_ret (nats : List FExp) (fd : FFd) (bufs : List Var) (file : Option Var) :
    exec env (.ret nats fd bufs file) F fr sf w =
    match evalXs env fr sf nats with
    | some ns =>
      (.done (.ok { nats := ns, fds := (evalFd fr fd).1, bufs := bufs.map (fun v => fr.b v.id), file := file.map (fun v => fr.n v.id) }),
        (evalFd fr fd).2, sf, w)
    | none => (.stuck .fault {}, fr, sf, w) := rfl
@[simp] theorem exec_retErr (e : FErrExp) : exec env (.retErr e) F fr sf w =
    match evalErr env fr sf e with
    | some x => (.done (.err x), fr, sf, w)
    | none => (.stuck .fault {}, fr, sf, w) := rfl
@[simp] theorem exec_fault : exec env .fault F fr sf w = (.stuck .fault {}, fr, sf, w) := rfl
theorem exec_callConn (nm T : String) (body : Imp.Stmt) (nA : List (Var × FExp)) (res : Var) :
    exec env (.callConn nm T body nA res) F fr sf w =
    match argsN env fr sf nA (fun _ => 0) with
    | none => (.stuck .fault {}, fr, sf, w)
    | some σn =>
      match Imp.exec (env.conn T) body F { n := σn } w with
      | (.done rv, _, w') => (.normal, { fr with r := upd fr.r res.id (liftR rv) }, sf, w')
      | (.stuck s, fr', w') => (.stuck s fr', fr, sf, w')
      | (_, _, w') => (.stuck .fault {}, fr, sf, w') := rfl
theorem exec_callFe (nm : String) (body : FStmt) nA bA fA (res : Var) :
    exec env (.callFe nm body nA bA fA res) F fr sf w =
    match argsN env fr sf nA (fun _ => 0) with
    | none => (.stuck .fault {}, fr, sf, w)
    | some σn =>
      match exec env body F { n := σn, b := argsB fr bA (fun _ => []), f := argsF fr fA (fun _ => none) } sf w with
      | (.done rv, _, sf', w') => (.normal, { fr with f := movedF fA fr.f, r := upd fr.r res.id rv }, sf', w')
      | (.stuck s i, _, sf', w') => (.stuck s i, { fr with f := movedF fA fr.f }, sf', w')
      | (.normal, _, sf', w') => (.stuck .fault {}, { fr with f := movedF fA fr.f }, sf', w') := rfl
theorem exec_matchOk (res : Var) (okN : List Var) (okF : Option Var) (okB : List Var) (okFile : Option Var) (okS errS : FStmt) :
    exec env (.matchOk res okN okF okB okFile okS errS) F fr sf w =
    match fr.r res.id with
    | .ok v =>
      exec env okS F
        (match okFile, v.file with
         | some x, some fd =>
           { (match okF with
              | some f => { fr with n := bindNs fr.n okN v.nats, b := bindBs fr.b okB v.bufs, f := upd fr.f f.id v.fds }
              | none => { fr with n := bindNs fr.n okN v.nats, b := bindBs fr.b okB v.bufs }) with
             n := upd (bindNs fr.n okN v.nats) x.id fd }
         | _, _ =>
           (match okF with
            | some f => { fr with n := bindNs fr.n okN v.nats, b := bindBs fr.b okB v.bufs, f := upd fr.f f.id v.fds }
            | none => { fr with n := bindNs fr.n okN v.nats, b := bindBs fr.b okB v.bufs })) sf w
    | .err _ => exec env errS F fr sf w := by
  cases okF <;> cases okFile <;> simp only [exec] <;> split <;> first | rfl | (split <;> rfl)
theorem exec_matchFile (res file : Var) (a b : FStmt) : exec env (.matchFile res file a b) F fr sf w =
    match fr.r res.id with
    | .ok v =>
      (match v.file with
       | some x => exec env a F { fr with n := upd fr.n file.id x } sf w
       | none => exec env b F fr sf w)
    | .err _ => (.stuck .fault {}, fr, sf, w) := rfl

@[simp] theorem bindNs_nil (s : Nat → Nat) (vs : List Nat) : bindNs s [] vs = s := by cases vs <;> rfl
@[simp] theorem bindNs_cons (s : Nat → Nat) (x : Var) (xs : List Var) (v : Nat) (vs : List Nat) :
    bindNs s (x :: xs) (v :: vs) = bindNs (upd s x.id v) xs vs := rfl
@[simp] theorem bindNs_nil' (s : Nat → Nat) (xs : List Var) : bindNs s xs [] = s := by cases xs <;> rfl
@[simp] theorem bindBs_nil (s : Nat → Bytes) (vs : List Bytes) : bindBs s [] vs = s := by cases vs <;> rfl
@[simp] theorem bindBs_cons (s : Nat → Bytes) (x : Var) (xs : List Var) (v : Bytes) (vs : List Bytes) :
    bindBs s (x :: xs) (v :: vs) = bindBs (upd s x.id v) xs vs := rfl
@[simp] theorem bindBs_nil' (s : Nat → Bytes) (xs : List Var) : bindBs s xs [] = s := by cases xs <;> rfl
end rules

end ImpFe
