import VhostModel.Model.Stream
/-!
# `Imp`: a tiny first-order imperative language for the loops and framing functions of `connection.rs`

`tools/rs2lean_conn.py` translates the body of every function of `impl<H: MsgHeader> Endpoint<H>` that touches the
socket (and the free function `get_sub_iovs_offset`) into a term of `Stmt` (`Gen/ConnLoops.lean`); `Props/ConnLoops.lean`
proves that interpreting these terms (`exec`) gives the hand-written models (`Model.Stream.recvAll`/`recvData`,
`Model.Endpoint.sendAll`/`subIovsOffset`, the header/body reading of `Model.BackendSrv.step` and
`Model.Frontend.recvBody`).

Values
* `usize` values are naturals (`Expr`); `a - b` is defined only for `b ≤ a` (otherwise the Rust code panics under
  overflow checks / wraps: `Stuck.fault`).  `a + b` is not bounded by `2^64`.
* an *iovec list* (`&[&[u8]]`, `&mut [iovec]`) is a contiguous view `IoVal` of one logical byte store of the heap
  (`World.mem`): the store it points into, the offset where it starts and the lengths of its iovecs.  The Rust code's
  iovec surgery (`&iovs[nr][off..]` followed by `&iovs[nr+1..]`, raw `iovec { iov_base + off, iov_len - off }`) is the
  constructor `IoExpr.suffix` = "the remaining bytes of the buffer from iovec `nr`, offset `off`"; it is undefined
  (`fault`) when `nr` is not an index or `off` exceeds that iovec (Rust: index panic / out-of-bounds pointer).
* descriptors are `Option (List Fd)` (`Option<&[RawFd]>` when sending — copied; `Option<Vec<File>>` when receiving —
  moved, and closed when dropped: `Stmt.dropF`, emitted by the translator where Rust's ownership rules drop the value).
* a `Result` is an `RVal`; `Err` keeps the raw `errno` of `vmm_sys_util::errno::Error` until it is converted by
  `map_err(Into::into)` / `?` (`Err.into`, driven by the generated classification table of
  `impl From<vmm_sys_util::errno::Error> for Error`).

The two primitives
* `callSend` = `UnixStream::send_with_fds(iovs, fds)`: the next entry of the send script decides (`accept k`: the
  kernel takes `min k offered` bytes; `errno e`); every call is logged with the bytes offered and the descriptors
  attached.  An exhausted script stops the run (`Stuck.outOfScript`).
* `callRecv` = `UnixStream::recv_with_fds(iovs, fd_array)`: the framework's `Chooser` over the `List Cell` stream
  decides how many bytes arrive, exactly as in `Model.Stream`; more descriptors than `fd_array.len()` ⇒ they are closed,
  the bytes are lost and `ENOBUFS` is returned (`vmm-sys-util`'s `raw_recvmsg` on `MSG_CTRUNC`); an empty open stream
  blocks (`Stuck.blocked`), an empty closed one returns 0.

`exec` is total: structural recursion on the statement; `while` runs on the fuel parameter (`loop`, structural on the
fuel), `for` over a list is structural on the list.  Everything reduces in the kernel (`decide`).
Variable names (`Var.name`) are documentation; only `Var.id` is inspected.  Core Lean only.
-/
namespace Imp
open Model.Stream (Cell Chooser clampK)

abbrev Fd := Nat
abbrev Bytes := List UInt8

/-- a variable: slot number in the store of its kind; `name` = the Rust identifier (documentation) -/
structure Var where
  id : Nat
  name : String := ""

/-- classes of `impl From<vmm_sys_util::errno::Error> for Error` -/
inductive ErrClass where
  | retry     -- `Error::SocketRetry`
  | broken    -- `Error::SocketBroken`
  | connect   -- `Error::SocketConnect`
  | other     -- `Error::SocketError`
  deriving DecidableEq, Repr, Inhabited

inductive Err where
  | errno (e : Nat)                  -- `vmm_sys_util::errno::Error` (not yet converted)
  | sock (c : ErrClass) (e : Nat)    -- `Error::Socket{Retry,Broken,Connect,Error}(io::Error::from_raw_os_error(e))`
  | partialMessage | invalidMessage | oversizedMsg | incorrectFds | disconnected
  deriving DecidableEq, Repr, Inhabited

/-- `ENOBUFS` on Linux: what `vmm-sys-util`'s `raw_recvmsg` returns after `MSG_CTRUNC` -/
def ENOBUFS : Nat := 105

/-- an `Ok(..)` payload: the `usize` components, the optional descriptors, the byte buffers, each in order -/
structure Val where
  nats : List Nat := []
  fds : Option (List Fd) := none
  bufs : List Bytes := []
  deriving DecidableEq, Repr, Inhabited

inductive RVal where
  | ok (v : Val)
  | err (e : Err)
  deriving DecidableEq, Repr, Inhabited

/-- an iovec list: a contiguous view of store `store` starting at `start`, cut into pieces of `lens` bytes -/
structure IoVal where
  store : Nat := 0
  start : Nat := 0
  lens : List Nat := []
  deriving DecidableEq, Repr, Inhabited

/-! ## syntax -/

inductive Expr where
  | lit (n : Nat)
  | var (v : Var)
  | add (a b : Expr)
  | sub (a b : Expr)            -- defined iff `b ≤ a`
  | min (a b : Expr)
  | sizeOfH                     -- `mem::size_of::<H>()`
  | sizeOfT                     -- `mem::size_of::<T>()`
  | maxMsgSize                  -- `H::MAX_MSG_SIZE`
  | lenB (b : Var)              -- `len` of a byte-slice parameter (`payload.len()`, `buf.len()`)
  | lenF (f : Var)              -- `fd_arr.len()` of the slice inside an `Option<&[RawFd]>` (0 for `None`)

/-- a byte buffer, read -/
inductive BufExpr where
  | bvar (b : Var)              -- a byte-slice parameter
  | piece (io : Var) (i : Nat)  -- the memory behind iovec `i` of an iovec list (`hdr`, `body` after the raw-pointer aliasing)
  | whole (io : Var)            -- all the memory behind an iovec list (`rbuf`)

inductive BExpr where
  | tt | ff
  | lt (a b : Expr) | le (a b : Expr) | eq (a b : Expr) | ne (a b : Expr) | gt (a b : Expr) | ge (a b : Expr)
  | and (a b : BExpr)           -- `&&`, short-circuit
  | or (a b : BExpr)            -- `||`, short-circuit
  | not (a : BExpr)
  | validH (b : BufExpr)        -- `hdr.is_valid()`  (`H: MsgHeader`)
  | validT (b : BufExpr)        -- `body.is_valid()` (`T: VhostUserMsgValidator`)
  | fIsSome (f : Var)           -- `if let Some(_) = fds`

inductive FExpr where
  | none
  | copy (f : Var)              -- `Option<&[RawFd]>` is `Copy`
  | move (f : Var)              -- `Option<Vec<File>>` is moved: the source is left empty

inductive LExpr where
  | var (l : Var)
  | lensOf (io : Var)           -- `iovs.iter().map(|iov| iov.len()).collect()`

inductive IoExpr where
  | var (io : Var)              -- `iovs`, `&iovs[..]`, `&mut iovs[..]`
  /-- `[&[&iovs[nr][off..]], &iovs[nr+1..]].concat()` resp. the same with raw `iovec`s -/
  | suffix (io : Var) (nr off : Expr)
  /-- one iovec `iovec { iov_base: iovs[nr][off..].as_mut_ptr(), iov_len: len }`; defined iff it lies inside iovec `nr` -/
  | sub (io : Var) (nr off len : Expr)

/-- a piece of a freshly built iovec array -/
inductive Piece where
  | buf (b : Var)               -- `x.as_slice()`, `slice::from_raw_parts(x as *const u8, size_of)`, a `&[u8]` parameter
  | zeros (len : Expr)          -- `H::default()`, `T::default()`, `vec![0u8; len]`, a `&mut [u8]` parameter (as destination)

inductive ErrExpr where
  | const (e : Err)             -- `Error::PartialMessage` …
  | ofRes (r : Var)             -- the `e` of `Err(e)` of that result
  | intoRes (r : Var)           -- the same through `From::from` (`?`)

inductive Stmt where
  | skip
  | seq (a b : Stmt)
  | assign (v : Var) (e : Expr)
  | assignL (l : Var) (e : LExpr)
  | assignF (f : Var) (e : FExpr)
  | assignIo (io : Var) (e : IoExpr)
  /-- build an iovec array over fresh memory holding the pieces, in order -/
  | allocIo (io : Var) (pieces : List Piece)
  /-- the value goes out of scope: the `File`s inside are closed -/
  | dropF (f : Var)
  | ite (c : BExpr) (t e : Stmt)
  | while (c : BExpr) (body : Stmt)
  | forIn (x : Var) (l : Var) (body : Stmt)
  | brk
  | ret (nats : List Expr) (fd : FExpr) (bufs : List BufExpr)   -- `return Ok(..)` / tail `Ok(..)`
  | retErr (e : ErrExpr)                                        -- `return Err(..)`
  | fault                                                       -- not reachable in Rust (irrefutable pattern)
  /-- `res = self.sock.send_with_fds(iovs, fds.unwrap_or_default())` -/
  | callSend (io : Var) (fds : Var) (res : Var)
  /-- `res = self.sock.recv_with_fds(iovs, &mut [0; cap])`, the received descriptors wrapped as `File`s -/
  | callRecv (io : Var) (cap : Expr) (res : Var)
  /-- `res = name(args)`; the callee's body is part of the term -/
  | call (name : String) (body : Stmt) (nArgs : List (Var × Expr)) (lArgs : List (Var × Var)) (fArgs : List (Var × Var))
      (ioArgs : List (Var × IoExpr)) (res : Var)
  /-- `res = res.map_err(Into::into)` -/
  | mapErrInto (res : Var)
  /-- `match res { Ok((n.., fds)) => okS, Err(_) => errS }` -/
  | matchResult (res : Var) (okN : List Var) (okF : Option Var) (okS errS : Stmt)
  /-- `match e { Error::<class>(_) => t, _ => e }` for the error inside `res` -/
  | matchErr (res : Var) (c : ErrClass) (t e : Stmt)

/-! ## state -/

def upd {α : Type} (σ : Nat → α) (i : Nat) (v : α) : Nat → α := fun j => if j = i then v else σ j

@[simp] theorem upd_apply {α : Type} (σ : Nat → α) (i : Nat) (v : α) (j : Nat) :
    upd σ i v j = if j = i then v else σ j := rfl

/-- the local variables of one function activation, by kind -/
structure Frame where
  n : Nat → Nat := fun _ => 0
  l : Nat → List Nat := fun _ => []
  f : Nat → Option (List Fd) := fun _ => none
  io : Nat → IoVal := fun _ => {}
  b : Nat → Bytes := fun _ => []
  r : Nat → RVal := fun _ => .ok {}

inductive SendOut where
  | accept (k : Nat)     -- the kernel takes `min k offered` bytes
  | errno (e : Nat)      -- `sendmsg` fails with this errno
  deriving DecidableEq, Repr, Inhabited

/-- one `send_with_fds` call as seen by the kernel -/
structure SendCall where
  offered : Bytes
  fds : List Fd
  out : SendOut
  deriving DecidableEq, Repr, Inhabited

/-- everything outside the activation: heap, the send side and the receive side of the socket, closed descriptors -/
structure World (σ : Type) where
  mem : List Bytes := []
  script : List SendOut := []
  sent : List SendCall := []
  stream : List Cell := []
  cst : σ
  closed : List Fd := []

/-- what the generic parameters `H`, `T` and the socket's peer contribute -/
structure Env (σ : Type) where
  sizeH : Nat := 12
  sizeT : Nat := 0
  maxMsg : Nat := 0x1000
  validH : Bytes → Bool := fun _ => true
  validT : Bytes → Bool := fun _ => true
  classify : Nat → ErrClass := fun _ => .other
  ch : Chooser σ
  isClosed : Bool := true

inductive Stuck where
  | blocked        -- `recvmsg` waits on an empty open stream
  | outOfScript    -- the send script is exhausted
  | fault          -- undefined arithmetic / index out of range / unreachable
  | outOfFuel
  deriving DecidableEq, Repr, Inhabited

inductive Ctl where
  | normal
  | brk
  | done (r : RVal)
  | stuck (s : Stuck)
  deriving DecidableEq, Repr, Inhabited

abbrev Res (σ : Type) := Ctl × Frame × World σ

/-! ## expressions -/

def Err.into (classify : Nat → ErrClass) : Err → Err
  | .errno e => .sock (classify e) e
  | e => e

def RVal.into (classify : Nat → ErrClass) : RVal → RVal
  | .ok v => .ok v
  | .err e => .err (e.into classify)

def evalE {σ : Type} (env : Env σ) (fr : Frame) : Expr → Option Nat
  | .lit n => some n
  | .var v => some (fr.n v.id)
  | .add a b => match evalE env fr a, evalE env fr b with
    | some x, some y => some (x + y)
    | _, _ => none
  | .sub a b => match evalE env fr a, evalE env fr b with
    | some x, some y => if y ≤ x then some (x - y) else none
    | _, _ => none
  | .min a b => match evalE env fr a, evalE env fr b with
    | some x, some y => some (Nat.min x y)
    | _, _ => none
  | .sizeOfH => some env.sizeH
  | .sizeOfT => some env.sizeT
  | .maxMsgSize => some env.maxMsg
  | .lenB b => some (fr.b b.id).length
  | .lenF f => some ((fr.f f.id).getD []).length

/-- the bytes behind a view -/
def IoVal.bytes (mem : List Bytes) (v : IoVal) : Bytes := ((mem.getD v.store []).drop v.start).take v.lens.sum

def IoVal.pieceBytes (mem : List Bytes) (v : IoVal) (i : Nat) : Bytes :=
  ((mem.getD v.store []).drop (v.start + (v.lens.take i).sum)).take (v.lens.getD i 0)

def evalBuf (fr : Frame) (mem : List Bytes) : BufExpr → Bytes
  | .bvar b => fr.b b.id
  | .piece io i => (fr.io io.id).pieceBytes mem i
  | .whole io => (fr.io io.id).bytes mem

def evalB {σ : Type} (env : Env σ) (fr : Frame) (mem : List Bytes) : BExpr → Option Bool
  | .tt => some true
  | .ff => some false
  | .lt a b => match evalE env fr a, evalE env fr b with | some x, some y => some (decide (x < y)) | _, _ => none
  | .le a b => match evalE env fr a, evalE env fr b with | some x, some y => some (decide (x ≤ y)) | _, _ => none
  | .eq a b => match evalE env fr a, evalE env fr b with | some x, some y => some (decide (x = y)) | _, _ => none
  | .ne a b => match evalE env fr a, evalE env fr b with | some x, some y => some (decide (x ≠ y)) | _, _ => none
  | .gt a b => match evalE env fr a, evalE env fr b with | some x, some y => some (decide (x > y)) | _, _ => none
  | .ge a b => match evalE env fr a, evalE env fr b with | some x, some y => some (decide (x ≥ y)) | _, _ => none
  | .and a b => match evalB env fr mem a with
    | some true => evalB env fr mem b
    | some false => some false
    | none => none
  | .or a b => match evalB env fr mem a with
    | some true => some true
    | some false => evalB env fr mem b
    | none => none
  | .not a => (evalB env fr mem a).map (!·)
  | .validH b => some (env.validH (evalBuf fr mem b))
  | .validT b => some (env.validT (evalBuf fr mem b))
  | .fIsSome f => some (fr.f f.id).isSome

/-- value and the frame afterwards (a move empties its source) -/
def evalF (fr : Frame) : FExpr → Option (List Fd) × Frame
  | .none => (none, fr)
  | .copy f => (fr.f f.id, fr)
  | .move f => (fr.f f.id, { fr with f := upd fr.f f.id none })

def evalL (fr : Frame) : LExpr → List Nat
  | .var l => fr.l l.id
  | .lensOf io => (fr.io io.id).lens

def evalIo {σ : Type} (env : Env σ) (fr : Frame) : IoExpr → Option IoVal
  | .var io => some (fr.io io.id)
  | .suffix io nr off =>
    let v := fr.io io.id
    match evalE env fr nr, evalE env fr off with
    | some k, some o =>
      if k < v.lens.length ∧ o ≤ v.lens.getD k 0 then
        some { store := v.store, start := v.start + ((v.lens.take k).sum + o), lens := (v.lens.getD k 0 - o) :: v.lens.drop (k + 1) }
      else none
    | _, _ => none
  | .sub io nr off len =>
    let v := fr.io io.id
    match evalE env fr nr, evalE env fr off, evalE env fr len with
    | some k, some o, some n =>
      if k < v.lens.length ∧ o + n ≤ v.lens.getD k 0 then
        some { store := v.store, start := v.start + ((v.lens.take k).sum + o), lens := [n] }
      else none
    | _, _, _ => none

def evalPiece {σ : Type} (env : Env σ) (fr : Frame) : Piece → Option Bytes
  | .buf b => some (fr.b b.id)
  | .zeros len => (evalE env fr len).map (List.replicate · 0)

def evalPieces {σ : Type} (env : Env σ) (fr : Frame) : List Piece → Option (List Bytes)
  | [] => some []
  | p :: ps => match evalPiece env fr p, evalPieces env fr ps with
    | some x, some xs => some (x :: xs)
    | _, _ => none

def evalEs {σ : Type} (env : Env σ) (fr : Frame) : List Expr → Option (List Nat)
  | [] => some []
  | e :: es => match evalE env fr e, evalEs env fr es with
    | some x, some xs => some (x :: xs)
    | _, _ => none

def errOf (fr : Frame) (r : Var) : Err :=
  match fr.r r.id with
  | .err e => e
  | .ok _ => .errno 0

def evalErr {σ : Type} (env : Env σ) (fr : Frame) : ErrExpr → Err
  | .const e => e
  | .ofRes r => errOf fr r
  | .intoRes r => (errOf fr r).into env.classify

/-! ## the two primitives -/

/-- overwrite `chunk.length` bytes of `buf` from position `pos` -/
def writeAt (buf : Bytes) (pos : Nat) (chunk : Bytes) : Bytes := buf.take pos ++ chunk ++ buf.drop (pos + chunk.length)

/-- how many of the `len` bytes offered the kernel takes when it is willing to take `k` -/
def accepted (k len : Nat) : Nat := Nat.min k len

/-- `send_with_fds(iovs, fds)`; `none` = the script is exhausted -/
def primSend {σ : Type} (w : World σ) (v : IoVal) (fds : List Fd) : Option (RVal × World σ) :=
  match w.script with
  | [] => none
  | ev :: rest =>
    let offered := v.bytes w.mem
    let w' := { w with script := rest, sent := w.sent ++ [⟨offered, fds, ev⟩] }
    match ev with
    | .accept k => some (.ok { nats := [accepted k offered.length] }, w')
    | .errno e => some (.err (.errno e), w')

/-- `recv_with_fds(iovs, fd_array)` with `cap = fd_array.len()`, the iovecs covering `want` bytes of store `store` from
`start`; `none` = the call blocks -/
def primRecv {σ : Type} (env : Env σ) (w : World σ) (store start want cap : Nat) : Option (RVal × World σ) :=
  if want = 0 then some (.ok { nats := [0] }, w)
  else match w.stream with
    | [] => if env.isClosed then some (.ok { nats := [0] }, w) else none
    | c :: s =>
      let nx := env.ch.next w.cst want (c :: s)
      let k := clampK nx.1 want (s.length + 1)
      let chunk := (c :: s).take k
      let rest := (c :: s).drop k
      let cf := chunk.flatMap (·.fds)
      if cf.length > cap then
        some (.err (.errno ENOBUFS), { w with stream := rest, cst := nx.2, closed := w.closed ++ cf })
      else
        some (.ok { nats := [k], fds := if cf.isEmpty then none else some cf },
              { w with stream := rest, cst := nx.2,
                       mem := w.mem.set store (writeAt (w.mem.getD store []) start (chunk.map (·.b))) })

/-! ## statements -/

def bindN (σn : Nat → Nat) : List Var → List Nat → Nat → Nat
  | x :: xs, v :: vs => bindN (upd σn x.id v) xs vs
  | _, _ => σn

def bindArgsN {σ : Type} (env : Env σ) (caller : Frame) : List (Var × Expr) → (Nat → Nat) → Option (Nat → Nat)
  | [], σn => some σn
  | (p, e) :: rest, σn => match evalE env caller e with
    | some v => bindArgsN env caller rest (upd σn p.id v)
    | none => none

def bindArgsL (caller : Frame) : List (Var × Var) → (Nat → List Nat) → (Nat → List Nat)
  | [], s => s
  | (p, a) :: rest, s => bindArgsL caller rest (upd s p.id (caller.l a.id))

def bindArgsF (caller : Frame) : List (Var × Var) → (Nat → Option (List Fd)) → (Nat → Option (List Fd))
  | [], s => s
  | (p, a) :: rest, s => bindArgsF caller rest (upd s p.id (caller.f a.id))

def bindArgsIo {σ : Type} (env : Env σ) (caller : Frame) : List (Var × IoExpr) → (Nat → IoVal) → Option (Nat → IoVal)
  | [], s => some s
  | (p, e) :: rest, s => match evalIo env caller e with
    | some v => bindArgsIo env caller rest (upd s p.id v)
    | none => none

/-- `while`: one unit of fuel per evaluation of the condition -/
def loop {σ : Type} (cond : Frame → World σ → Option Bool) (body : Frame → World σ → Res σ) :
    Nat → Frame → World σ → Res σ
  | 0, fr, w => (.stuck .outOfFuel, fr, w)
  | fuel + 1, fr, w =>
    match cond fr w with
    | none => (.stuck .fault, fr, w)
    | some false => (.normal, fr, w)
    | some true =>
      match body fr w with
      | (.normal, fr', w') => loop cond body fuel fr' w'
      | (.brk, fr', w') => (.normal, fr', w')
      | r => r

/-- `for x in &list` -/
def forLoop {σ : Type} (x : Nat) (body : Frame → World σ → Res σ) : List Nat → Frame → World σ → Res σ
  | [], fr, w => (.normal, fr, w)
  | v :: vs, fr, w =>
    match body { fr with n := upd fr.n x v } w with
    | (.normal, fr', w') => forLoop x body vs fr' w'
    | (.brk, fr', w') => (.normal, fr', w')
    | r => r

def exec {σ : Type} (env : Env σ) : Stmt → Nat → Frame → World σ → Res σ
  | .skip, _, fr, w => (.normal, fr, w)
  | .seq a b, fuel, fr, w =>
    match exec env a fuel fr w with
    | (.normal, fr', w') => exec env b fuel fr' w'
    | r => r
  | .assign v e, _, fr, w =>
    match evalE env fr e with
    | some x => (.normal, { fr with n := upd fr.n v.id x }, w)
    | none => (.stuck .fault, fr, w)
  | .assignL l e, _, fr, w => (.normal, { fr with l := upd fr.l l.id (evalL fr e) }, w)
  | .assignF f e, _, fr, w =>
    let r := evalF fr e
    (.normal, { r.2 with f := upd r.2.f f.id r.1 }, w)
  | .assignIo io e, _, fr, w =>
    match evalIo env fr e with
    | some v => (.normal, { fr with io := upd fr.io io.id v }, w)
    | none => (.stuck .fault, fr, w)
  | .allocIo io pieces, _, fr, w =>
    match evalPieces env fr pieces with
    | some ps =>
      (.normal, { fr with io := upd fr.io io.id { store := w.mem.length, start := 0, lens := ps.map (·.length) } },
       { w with mem := w.mem ++ [ps.flatten] })
    | none => (.stuck .fault, fr, w)
  | .dropF f, _, fr, w =>
    (.normal, { fr with f := upd fr.f f.id none }, { w with closed := w.closed ++ (fr.f f.id).getD [] })
  | .ite c t e, fuel, fr, w =>
    match evalB env fr w.mem c with
    | some true => exec env t fuel fr w
    | some false => exec env e fuel fr w
    | none => (.stuck .fault, fr, w)
  | .while c body, fuel, fr, w =>
    loop (fun fr w => evalB env fr w.mem c) (fun fr w => exec env body fuel fr w) fuel fr w
  | .forIn x l body, fuel, fr, w =>
    forLoop x.id (fun fr w => exec env body fuel fr w) (fr.l l.id) fr w
  | .brk, _, fr, w => (.brk, fr, w)
  | .ret nats fd bufs, _, fr, w =>
    match evalEs env fr nats with
    | some ns =>
      let r := evalF fr fd
      (.done (.ok { nats := ns, fds := r.1, bufs := bufs.map (evalBuf fr w.mem) }), r.2, w)
    | none => (.stuck .fault, fr, w)
  | .retErr e, _, fr, w => (.done (.err (evalErr env fr e)), fr, w)
  | .fault, _, fr, w => (.stuck .fault, fr, w)
  | .callSend io fds res, _, fr, w =>
    match primSend w (fr.io io.id) ((fr.f fds.id).getD []) with
    | some (rv, w') => (.normal, { fr with r := upd fr.r res.id rv }, w')
    | none => (.stuck .outOfScript, fr, w)
  | .callRecv io cap res, _, fr, w =>
    match evalE env fr cap with
    | none => (.stuck .fault, fr, w)
    | some c =>
      match primRecv env w (fr.io io.id).store (fr.io io.id).start (fr.io io.id).lens.sum c with
      | some (rv, w') => (.normal, { fr with r := upd fr.r res.id rv }, w')
      | none => (.stuck .blocked, fr, w)
  | .call _ body nArgs lArgs fArgs ioArgs res, fuel, fr, w =>
    match bindArgsN env fr nArgs (fun _ => 0), bindArgsIo env fr ioArgs (fun _ => {}) with
    | some σn, some σio =>
      let fr0 : Frame := { n := σn, l := bindArgsL fr lArgs (fun _ => []), f := bindArgsF fr fArgs (fun _ => none), io := σio }
      match exec env body fuel fr0 w with
      | (.done rv, _, w') => (.normal, { fr with r := upd fr.r res.id rv }, w')
      | (.stuck s, fr', w') => (.stuck s, fr', w')
      | (_, _, w') => (.stuck .fault, fr, w')
    | _, _ => (.stuck .fault, fr, w)
  | .mapErrInto res, _, fr, w => (.normal, { fr with r := upd fr.r res.id ((fr.r res.id).into env.classify) }, w)
  | .matchResult res okN okF okS errS, fuel, fr, w =>
    match fr.r res.id with
    | .ok v =>
      let fr1 := { fr with n := bindN fr.n okN v.nats }
      let fr2 := match okF with
        | some f => { fr1 with f := upd fr1.f f.id v.fds }
        | none => fr1
      exec env okS fuel fr2 w
    | .err _ => exec env errS fuel fr w
  | .matchErr res c t e, fuel, fr, w =>
    match fr.r res.id with
    | .err (.sock c' _) => if c' = c then exec env t fuel fr w else exec env e fuel fr w
    | _ => exec env e fuel fr w

/-- run a function body from its parameters; the control result must be `done`/`stuck` -/
def run {σ : Type} (env : Env σ) (body : Stmt) (fuel : Nat) (fr : Frame) (w : World σ) : Res σ :=
  match exec env body fuel fr w with
  | (.normal, fr', w') => (.stuck .fault, fr', w')
  | (.brk, fr', w') => (.stuck .fault, fr', w')
  | r => r

end Imp
