/-!
# Events of a method of the daemon's request handler (shared by the generated table and the model)

`tools/rs2lean_handler.py` reads `vhost-user-backend/src/handler.rs` and writes `Gen/HandlerOps.lean` in this vocabulary:
per method of `impl VhostUserBackendReqHandlerMut for VhostUserHandler<T>`, in source order, the list of *events* of its
body.  `Model/HandlerTable.lean` states in the same vocabulary what the four models of the handler (`Model.RingReg`,
`Model.Vring`, `Model.MemTable`, `Model.Bitmap`) assume; `Props/HandlerOps.lean` compares the two and ties the table to
the executable models.

`HAct` are the events without sub-events, `HEvent` adds the four that carry event lists (a private helper's body, the two
kinds of loop, the two kinds of branch).  All fields are `Nat` / `String` / `Bool` / `List String`; strings occur only as
constructor arguments.  Conditions and values are named by the canonical rendering of the Rust expression; the ones that
are pure arithmetic over the arguments and the handler's fields come with a Lean function of `HIn`
(`Gen.HandlerOps.boolExprs` / `natExprs`).
-/
namespace Base

/-- events without sub-events; `err` is the `VhostUserError` variant returned (`"*"`: the callee's error as it is) -/
inductive HAct where
  -- guards: the steps that can fail
  /-- `let vring = self.vrings.get(index as usize).ok_or(err)?` -/
  | indexBound (err : String)
  /-- `check_feature(F)?` with `F` the virtio feature of this bit number: `self.acked_features & F == 0` fails -/
  | featureAcked (bit : Nat) (err : String)
  /-- `if cond { return Err(err) }` -/
  | valueCheck (cond : String) (err : String)
  /-- `let Some(..) = what else { return Err(err) }` -/
  | requireSome (what : String) (err : String)
  /-- `let bindTo = self.vmm_va_to_gpa(arg).map_err(..err..)?` -/
  | addrTranslate (arg : String) (err : String) (bindTo : String)
  /-- `[let bindTo =] vring.method(args).map_err(|_| err)?` -/
  | vringTry (method : String) (args : List String) (err : String) (bindTo : String)
  /-- `self.backend.method(args).map_err(..err..)?` -/
  | backendTry (method : String) (args : List String) (err : String)
  /-- a fallible call into vm-memory / the bitmap module / userfaultfd, propagated with `?` -/
  | libTry (what : String) (err : String)
  -- effects
  /-- `self.name = val` -/
  | setField (name : String) (val : String)
  /-- `vring.method(args)` (a setter of `VringT`) -/
  | vringCall (method : String) (args : List String)
  /-- `let bindTo = vring.method()` (`get_ref`: the ring's lock is taken; `queue_next_avail`) -/
  | vringGet (method : String) (bindTo : String)
  /-- `self.backend.method(args)` -/
  | backendCall (method : String) (args : List String)
  /-- `backend.method(args)` on the `Backend` channel handed over by SET_BACKEND_REQ_FD -/
  | channelCall (method : String) (args : List String)
  /-- an infallible call with an effect outside the handler (`libc::dup`, `File::from_raw_fd`) -/
  | libCall (what : String)
  /-- `if let Err(e) = self.handlers[thread_index].register_event(fd, IN, evt_idx) { if e.kind() != tolerated { return Err(err(e)) } }` -/
  | epollRegister (tolerated : String) (err : String)
  /-- `let _ = self.handlers[thread_index].unregister_event(fd, IN, evt_idx)` -/
  | epollUnregister
  /-- `self.atomic_mem.lock().unwrap().replace(mem)` -/
  | memReplace
  /-- `self.mappings = mappings` (the local table built before) -/
  | mappingsAssign
  /-- `self.mappings.push(what)` -/
  | mappingsPush (what : String)
  /-- `self.mappings.retain(|mapping| cond)` -/
  | mappingsRetain (cond : String)
  /-- `self.logmem = Some(logmem)` -/
  | logAssign
  /-- `region.bitmap().replace(bitmap)` -/
  | bitmapReplace
  /-- `let mut name = Vec::new()` -/
  | localNew (name : String)
  /-- `name.push(what)` -/
  | localPush (name : String) (what : String)
  /-- `let name = expr` for an expression without an effect -/
  | bind (name : String) (expr : String)
  /-- `break` -/
  | brk
  -- results
  /-- `Ok(())` -/
  | ok
  /-- `Ok(expr)` -/
  | okValue (expr : String)
  /-- `Ok(self.backend.method(args))` -/
  | okBackend (method : String) (args : List String)
  /-- `self.backend.method(args).map_err(..err..)` as the result -/
  | retBackend (method : String) (args : List String) (err : String)
  /-- `Err(e)` -/
  | err (e : String)
  /-- the value of a function that does not return a `Result` -/
  | value (expr : String)
  /-- end of a function returning `()` -/
  | done
  deriving Repr, DecidableEq, Inhabited

inductive HEvent where
  | act (a : HAct)
  /-- `self.name(args)` (`propagates`: under `?`, or as the function's result) with the events of the helper's own body -/
  | helperCall (name : String) (args : List String) (propagates : Bool) (body : List HEvent)
  /-- `for (index, vring) in self.vrings.iter().enumerate()` / `for vring in self.vrings.iter_mut()` -/
  | forEachVring (body : List HEvent)
  /-- `for .. in coll` for the other collections -/
  | forEach (coll : String) (body : List HEvent)
  /-- `if cond { thn } else { els }` -/
  | ifCond (cond : String) (thn els : List HEvent)
  /-- `if let Some(..) = what { thn } else { els }` -/
  | ifSome (what : String) (thn els : List HEvent)
  deriving Repr, Inhabited

namespace HEvent

@[match_pattern, simp] abbrev indexBound (e : String) : HEvent := .act (.indexBound e)
@[match_pattern, simp] abbrev featureAcked (b : Nat) (e : String) : HEvent := .act (.featureAcked b e)
@[match_pattern, simp] abbrev valueCheck (c e : String) : HEvent := .act (.valueCheck c e)
@[match_pattern, simp] abbrev requireSome (w e : String) : HEvent := .act (.requireSome w e)
@[match_pattern, simp] abbrev addrTranslate (a e b : String) : HEvent := .act (.addrTranslate a e b)
@[match_pattern, simp] abbrev vringTry (m : String) (a : List String) (e b : String) : HEvent := .act (.vringTry m a e b)
@[match_pattern, simp] abbrev backendTry (m : String) (a : List String) (e : String) : HEvent := .act (.backendTry m a e)
@[match_pattern, simp] abbrev libTry (w e : String) : HEvent := .act (.libTry w e)
@[match_pattern, simp] abbrev setField (n v : String) : HEvent := .act (.setField n v)
@[match_pattern, simp] abbrev vringCall (m : String) (a : List String) : HEvent := .act (.vringCall m a)
@[match_pattern, simp] abbrev vringGet (m b : String) : HEvent := .act (.vringGet m b)
@[match_pattern, simp] abbrev backendCall (m : String) (a : List String) : HEvent := .act (.backendCall m a)
@[match_pattern, simp] abbrev channelCall (m : String) (a : List String) : HEvent := .act (.channelCall m a)
@[match_pattern, simp] abbrev libCall (w : String) : HEvent := .act (.libCall w)
@[match_pattern, simp] abbrev epollRegister (t e : String) : HEvent := .act (.epollRegister t e)
@[match_pattern, simp] abbrev epollUnregister : HEvent := .act .epollUnregister
@[match_pattern, simp] abbrev memReplace : HEvent := .act .memReplace
@[match_pattern, simp] abbrev mappingsAssign : HEvent := .act .mappingsAssign
@[match_pattern, simp] abbrev mappingsPush (w : String) : HEvent := .act (.mappingsPush w)
@[match_pattern, simp] abbrev mappingsRetain (c : String) : HEvent := .act (.mappingsRetain c)
@[match_pattern, simp] abbrev logAssign : HEvent := .act .logAssign
@[match_pattern, simp] abbrev bitmapReplace : HEvent := .act .bitmapReplace
@[match_pattern, simp] abbrev localNew (n : String) : HEvent := .act (.localNew n)
@[match_pattern, simp] abbrev localPush (n w : String) : HEvent := .act (.localPush n w)
@[match_pattern, simp] abbrev bind (n e : String) : HEvent := .act (.bind n e)
@[match_pattern, simp] abbrev brk : HEvent := .act .brk
@[match_pattern, simp] abbrev ok : HEvent := .act .ok
@[match_pattern, simp] abbrev okValue (e : String) : HEvent := .act (.okValue e)
@[match_pattern, simp] abbrev okBackend (m : String) (a : List String) : HEvent := .act (.okBackend m a)
@[match_pattern, simp] abbrev retBackend (m : String) (a : List String) (e : String) : HEvent := .act (.retBackend m a e)
@[match_pattern, simp] abbrev err (e : String) : HEvent := .act (.err e)
@[match_pattern, simp] abbrev value (e : String) : HEvent := .act (.value e)
@[match_pattern, simp] abbrev done : HEvent := .act .done

/-! ### decidable comparison (the derive handler does not cover nested inductives) -/

mutual
def beq : HEvent → HEvent → Bool
  | .act x, .act y => x == y
  | .helperCall n a p b, .helperCall n' a' p' b' => n == n' && a == a' && p == p' && beqL b b'
  | .forEachVring b, .forEachVring b' => beqL b b'
  | .forEach c b, .forEach c' b' => c == c' && beqL b b'
  | .ifCond c t f, .ifCond c' t' f' => c == c' && beqL t t' && beqL f f'
  | .ifSome c t f, .ifSome c' t' f' => c == c' && beqL t t' && beqL f f'
  | _, _ => false
def beqL : List HEvent → List HEvent → Bool
  | [], [] => true
  | x :: xs, y :: ys => beq x y && beqL xs ys
  | _, _ => false
end

mutual
theorem beq_sound : ∀ (a b : HEvent), beq a b = true → a = b
  | .act x, .act y, h => by simp [beq] at h; rw [h]
  | .helperCall n a p b, .helperCall n' a' p' b', h => by
      simp [beq] at h; obtain ⟨⟨⟨h1, h2⟩, h3⟩, h4⟩ := h; rw [h1, h2, h3, beqL_sound _ _ h4]
  | .forEachVring b, .forEachVring b', h => by simp [beq] at h; rw [beqL_sound _ _ h]
  | .forEach c b, .forEach c' b', h => by simp [beq] at h; rw [h.1, beqL_sound _ _ h.2]
  | .ifCond c t f, .ifCond c' t' f', h => by
      simp [beq] at h; obtain ⟨⟨h1, h2⟩, h3⟩ := h; rw [h1, beqL_sound _ _ h2, beqL_sound _ _ h3]
  | .ifSome c t f, .ifSome c' t' f', h => by
      simp [beq] at h; obtain ⟨⟨h1, h2⟩, h3⟩ := h; rw [h1, beqL_sound _ _ h2, beqL_sound _ _ h3]
  | .act _, .helperCall .., h | .act _, .forEachVring _, h | .act _, .forEach .., h | .act _, .ifCond .., h
  | .act _, .ifSome .., h => by simp [beq] at h
  | .helperCall .., .act _, h | .helperCall .., .forEachVring _, h | .helperCall .., .forEach .., h
  | .helperCall .., .ifCond .., h | .helperCall .., .ifSome .., h => by simp [beq] at h
  | .forEachVring _, .act _, h | .forEachVring _, .helperCall .., h | .forEachVring _, .forEach .., h
  | .forEachVring _, .ifCond .., h | .forEachVring _, .ifSome .., h => by simp [beq] at h
  | .forEach .., .act _, h | .forEach .., .helperCall .., h | .forEach .., .forEachVring _, h
  | .forEach .., .ifCond .., h | .forEach .., .ifSome .., h => by simp [beq] at h
  | .ifCond .., .act _, h | .ifCond .., .helperCall .., h | .ifCond .., .forEachVring _, h
  | .ifCond .., .forEach .., h | .ifCond .., .ifSome .., h => by simp [beq] at h
  | .ifSome .., .act _, h | .ifSome .., .helperCall .., h | .ifSome .., .forEachVring _, h
  | .ifSome .., .forEach .., h | .ifSome .., .ifCond .., h => by simp [beq] at h
theorem beqL_sound : ∀ (a b : List HEvent), beqL a b = true → a = b
  | [], [], _ => rfl
  | x :: xs, y :: ys, h => by simp [beqL] at h; rw [beq_sound _ _ h.1, beqL_sound _ _ h.2]
  | [], _ :: _, h => by simp [beqL] at h
  | _ :: _, [], h => by simp [beqL] at h
end

mutual
theorem beq_refl : ∀ (a : HEvent), beq a a = true
  | .act x => by simp [beq]
  | .helperCall _ _ _ b => by simp [beq, beqL_refl b]
  | .forEachVring b => by simp [beq, beqL_refl b]
  | .forEach _ b => by simp [beq, beqL_refl b]
  | .ifCond _ t f => by simp [beq, beqL_refl t, beqL_refl f]
  | .ifSome _ t f => by simp [beq, beqL_refl t, beqL_refl f]
theorem beqL_refl : ∀ (a : List HEvent), beqL a a = true
  | [] => rfl
  | x :: xs => by simp [beqL, beq_refl x, beqL_refl xs]
end

instance : DecidableEq HEvent := fun a b =>
  if h : beq a b = true then isTrue (beq_sound a b h) else isFalse (fun e => h (e ▸ beq_refl a))

end HEvent

/-- a method (or helper) and the events of its body -/
abbrev HRow := String × List HEvent

/-- equality of tables, decided by `HEvent.beq` -/
def rowsBeq : List HRow → List HRow → Bool
  | [], [] => true
  | (n, es) :: xs, (n', es') :: ys => n == n' && HEvent.beqL es es' && rowsBeq xs ys
  | _, _ => false

theorem rowsBeq_sound : ∀ (a b : List HRow), rowsBeq a b = true → a = b
  | [], [], _ => rfl
  | (n, es) :: xs, (n', es') :: ys, h => by
      simp [rowsBeq] at h; obtain ⟨⟨h1, h2⟩, h3⟩ := h
      rw [h1, HEvent.beqL_sound _ _ h2, rowsBeq_sound _ _ h3]
  | [], _ :: _, h => by simp [rowsBeq] at h
  | _ :: _, [], h => by simp [rowsBeq] at h

/-- the events of method `n` (empty for an unknown name) -/
def rowOf (t : List HRow) (n : String) : List HEvent := (t.lookup n).getD []

/-- What a translated expression may refer to: the arguments of the methods, the fields of `VhostUserHandler`, the locals
bound by earlier events, the state of the ring at hand and the variables of the loops over `self.mappings` and
`self.queues_per_thread` — each by its Rust name (`mapping.vmm_addr` ↦ `mapping_vmm_addr`, `self.backend.features()` ↦
`backend_features`, `self.mappings.is_empty()` ↦ `mappings_empty`, `vring_state.get_queue().ready()` ↦ `ring_ready`, …).
Integers are naturals below `2^bits` of their Rust type. -/
structure HIn where
  -- arguments
  index : Nat := 0
  num : Nat := 0
  base : Nat := 0
  features : Nat := 0
  descriptor : Nat := 0
  used : Nat := 0
  available : Nat := 0
  offset : Nat := 0
  size : Nat := 0
  enable : Bool := false
  vmm_va : Nat := 0
  feat : Nat := 0
  region_guest_phys_addr : Nat := 0
  region_memory_size : Nat := 0
  region_user_addr : Nat := 0
  -- fields of the handler
  owned : Bool := false
  features_acked : Bool := false
  acked_features : Nat := 0
  acked_protocol_features : Nat := 0
  num_queues : Nat := 0
  max_queue_size : Nat := 0
  mappings_empty : Bool := true
  backend_features : Nat := 0
  -- locals bound by earlier events
  desc_table : Nat := 0
  avail_ring : Nat := 0
  used_ring : Nat := 0
  idx : Nat := 0
  next_avail : Nat := 0
  -- the ring at hand
  ring_ready : Bool := false
  ring_enabled : Bool := false
  ring_kick_some : Bool := false
  -- loop variables
  mapping_vmm_addr : Nat := 0
  mapping_size : Nat := 0
  mapping_gpa_base : Nat := 0
  queues_mask : Nat := 0
  deriving Repr, Inhabited

/-- a translated condition: identifier, value, side condition under which its machine arithmetic is defined -/
abbrev HBoolExpr := String × (HIn → Bool) × (HIn → Bool)
abbrev HNatExpr := String × (HIn → Nat) × (HIn → Bool)

def boolOf (t : List HBoolExpr) (id : String) : HIn → Bool := ((t.lookup id).map (·.1)).getD (fun _ => false)
def natOf (t : List HNatExpr) (id : String) : HIn → Nat := ((t.lookup id).map (·.1)).getD (fun _ => 0)

end Base
