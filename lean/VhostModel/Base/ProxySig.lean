import VhostModel.Base.HelperSig
/-!
# Vocabulary of the request proxies (`backend_req.rs`, `gpu_backend_req.rs`) and of the acknowledgement path of the
frontend's request server (`frontend_req_handler.rs`)

`tools/rs2lean_proxy.py` writes `Gen/ProxyOps.lean` in this vocabulary:

* the private helpers of the two `BackendInternal` types (`check_state`, `send_header`, `send_message`,
  `send_message_with_payload`, `wait_for_ack`, `recv_reply`) become *statement programs* (`List Stmt`): early exits with
  the translated Rust condition as a `Bool` function of the inputs (`PIn`), the header that is built (code / flags / size
  as functions of the inputs), the one socket write, the one socket read, and the value returned; `run` evaluates a
  program up to the socket operation it blocks on;
* every public method of `Backend` / `GpuBackend` becomes a row (`PxMethod` / `GxMethod`): feature gate, helper called,
  request code (resolved to its number), body type and size, payload, descriptor, reply type;
* `send_ack_message` of `FrontendReqHandler` is a guard program in the vocabulary of `Base/HelperSig.lean`, over an
  environment that adds the handler result as `send_ack_message` can observe it (`ResV`).

Strings are documentation (source text) or names of Rust items; no definition inspects the `src` fields.  Core Lean only.
-/
namespace ProxySig

/-- the errors the proxies raise from a local check (`Error::X`, for the GPU proxy wrapped into an `io::Error`) -/
inductive PErr where
  | notNegotiated      -- `io::Error::other("… feature not negotiated")` of a feature gate
  | socketBroken       -- `Error::SocketBroken(..)`
  | invalidMessage     -- `Error::InvalidMessage`
  | frontendInternal   -- `Error::FrontendInternalError`
  deriving DecidableEq, Repr, Inhabited

/-- The inputs of a proxy helper (fixed vocabulary; a Rust expression that mentions anything else is refused by the
translator).  The last four fields describe the message `recv_body` returned and are meaningful behind a `recvBody`. -/
structure PIn where
  replyAck : Bool := false       -- `self.reply_ack_negotiated`
  sharedObject : Bool := false   -- `self.shared_object_negotiated`
  shmem : Bool := false          -- `self.shmem_negotiated`
  errorIsSome : Bool := false    -- `self.error.is_some()`
  code : Nat := 0                -- the parameter `request` as a number (`request.into()`)
  sizeOfT : Nat := 0             -- `mem::size_of::<T>()` of the body parameter's type
  dataLen : Nat := 0             -- `data.len()`
  isReplyFor : Bool := true      -- `reply.is_reply_for(hdr)`
  rfdsIsSome : Bool := false     -- `rfds.is_some()`: the reply carried descriptors
  bodyValid : Bool := true       -- `body.is_valid()`
  value : Nat := 0               -- `body.value` (a `VhostUserU64` body)
  deriving Repr, Inhabited

/-- one statement of a private helper, in source order -/
inductive Stmt where
  /-- `if fails { return Err(err) }`; also `self.check_state()?` (the body of `check_state` inlined) and a failing arm of
  the `match` of `check_state` -/
  | check (src : String) (fails : PIn → Bool) (err : PErr)
  /-- `if cond { return Ok(val) }` -/
  | retOkIf (src : String) (cond : PIn → Bool) (val : PIn → Nat)
  /-- the header handed to the socket write: `H::new(request, flags, size)` and every later mutation of it, as the three
  fields stored; `defd`: the `usize` arithmetic of the size is defined (no overflow of `+`) -/
  | header (code flags size : PIn → Nat) (defd : PIn → Bool)
  /-- `self.sock.method(&hdr, [body,] [data,] fds)?`: which of the helper's parameters are passed on (`fds = false`: the
  literal `None`) -/
  | send (method : String) (body payload fds : Bool)
  /-- `let (reply, body, rfds) = self.sock.recv_body::<ty>()?` -/
  | recvBody (ty : String)
  /-- `self.helper(&hdr)` as the value of the function -/
  | tailCall (helper : String)
  /-- `Ok(v)` for a number `v` -/
  | okVal (src : String) (val : PIn → Nat)
  /-- `Ok(body)` -/
  | okBody
  /-- `Ok(hdr)` -/
  | okHdr

/-- how far a helper gets without the socket -/
inductive Res where
  | err (e : PErr)                       -- a local check fired
  | ok (v : Nat)                         -- returned `Ok(v)`
  | okBody                               -- returned the received body
  | okHdr                                -- returned the header it sent
  | sent (code flags size : Nat) (method : String) (body payload fds : Bool) (rest : List Stmt)
                                         -- wrote one message with this header; `rest` runs after the write
  | recv (ty : String) (rest : List Stmt)  -- reads `header + ty`; `rest` runs on the message received
  | tail (helper : String)               -- continues as that helper
  | fault                                -- undefined arithmetic reached
  | stuck                                -- fell off the end / wrote without a header (no generated program does)

/-- evaluate the statements in source order; `h` = the header built so far -/
def run (x : PIn) : List Stmt → Option (Nat × Nat × Nat) → Res
  | [], _ => .stuck
  | .check _ f e :: r, h => if f x then .err e else run x r h
  | .retOkIf _ c v :: r, h => if c x then .ok (v x) else run x r h
  | .header c fl sz d :: r, _ => if d x then run x r (some (c x, fl x, sz x)) else .fault
  | .send m b p f :: r, some (c, fl, sz) => .sent c fl sz m b p f r
  | .send _ _ _ _ :: _, none => .stuck
  | .recvBody ty :: r, _ => .recv ty r
  | .tailCall hp :: _, _ => .tail hp
  | .okVal _ v :: _, _ => .ok (v x)
  | .okBody :: _, _ => .okBody
  | .okHdr :: _, _ => .okHdr

/-- the conditions of the early exits in front of the first socket operation, with their errors, evaluated -/
def localChecks (x : PIn) : List Stmt → List (Bool × PErr)
  | [] => []
  | .check _ f e :: r => (f x, e) :: localChecks x r
  | .send _ _ _ _ :: _ => []
  | .recvBody _ :: _ => []
  | _ :: r => localChecks x r

/-- number of `check`s behind the read -/
def checksAfterRecv : List Stmt → Nat
  | [] => 0
  | .recvBody _ :: r => (r.filter (fun s => match s with | .check _ _ _ => true | _ => false)).length
  | _ :: r => checksAfterRecv r

/-! ## rows of the public methods -/

/-- a public method of `Backend` (`impl VhostUserFrontendReqHandler for Backend`) -/
structure PxRow where
  name : String
  gateField : String      -- the field of `BackendInternal` tested first (`if !guard.F { return Err(io::Error::other(..)) }`)
  helper : String         -- the `BackendInternal` method the call is forwarded to (`Ok(guard.helper(..)?)`)
  code : Nat              -- `BackendReq::X` resolved
  body : String           -- type of the argument passed as `body`
  size : Nat              -- its `size_of` as the translator computed it
  fd : Bool               -- `Some(&[fd.as_raw_fd()])` (otherwise `None`)
  deriving DecidableEq, Repr, Inhabited

structure PxMethod where
  row : PxRow
  /-- the translated condition of the gate's early return -/
  gateFails : PIn → Bool
  gateErr : PErr

inductive GxRet where
  | unit     -- `Ok(())`
  | body     -- the value of `recv_reply` is the method's value
  deriving DecidableEq, Repr, Inhabited

/-- a public request method of `GpuBackend` -/
structure GxRow where
  name : String
  helper : String          -- `send_header` / `send_message` / `send_message_with_payload`
  code : Nat               -- `GpuBackendReq::X` resolved
  body : Option String     -- type of the argument passed as `body`
  size : Nat               -- its `size_of` (0 without a body)
  payload : Bool           -- a byte slice is passed as `data`
  fd : Bool                -- the method's `fd: Option<&impl AsRawFd>` is passed as `fds` (otherwise `None`)
  reply : Option String    -- `recv_reply::<V>(&hdr)` is called with this `V`
  ret : GxRet
  deriving DecidableEq, Repr, Inhabited

/-- right-hand side of a field assignment of a setter -/
inductive SetSrc where
  | param (name : String)              -- `self.f = p`
  | someParam (name : String)          -- `self.f = Some(p)`
  | zeroNoneElseSome (name : String)   -- `if p == 0 { self.f = None } else { self.f = Some(p) }`
  deriving DecidableEq, Repr, Inhabited

structure Setter where
  name : String
  field : String
  src : SetSrc
  deriving DecidableEq, Repr, Inhabited

/-! ## the handler result as `send_ack_message` sees it -/

/-- `e: &Error` of an `Err(e)` -/
inductive ErrV where
  /-- `Error::ReqHandlerError(ioerr)`; `raw = ioerr.raw_os_error()` (an `i32`) -/
  | reqHandler (raw : Option Int)
  /-- any other variant -/
  | other
  deriving DecidableEq, Repr, Inhabited

/-- `res: &Result<u64>` -/
inductive ResV where
  | ok (n : Nat)
  | err (e : ErrV)
  deriving DecidableEq, Repr, Inhabited

/-- environment of the generated `send_ack_message` program -/
structure AckEnv where
  i : HelperSig.HIn
  res : ResV
  deriving Repr, Inhabited

end ProxySig
